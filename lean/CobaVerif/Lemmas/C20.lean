/-
Helper lemmas for C20 (InteractionsEncoder).  The property theorems in `Props/C20.lean` are
one-line references to the primed / named lemmas here.
-/
import CobaVerif.Model.C20
import Mathlib.Data.List.Induction
import Mathlib.Data.List.Sym
import Mathlib.Data.Nat.Choose.Basic
import Mathlib.Algebra.BigOperators.Group.List.Defs
import Mathlib.Algebra.Order.Field.Rat
import Mathlib.Tactic.Ring
import Mathlib.Tactic.Linarith
import Mathlib.Algebra.Order.Ring.Abs
import Mathlib.Algebra.Order.Monoid.Unbundled.Pow
import Mathlib.Algebra.Order.Ring.Pow
import Mathlib.Data.List.Forall2
import Mathlib.Algebra.BigOperators.Group.List.Basic
import Mathlib.Data.List.Perm.Basic
import Mathlib.Algebra.Order.Field.Power
import Mathlib.Tactic.NormNum

namespace Coba.C20

/-! ## Part 1: `_pows` (corrected recurrence) computes the monomials -/

section
variable {α : Type} (mul : α → α → α) (one : α)

theorem monos_zero (xs : List α) : monos mul one 0 xs = [one] := rfl

theorem monos_succ_nil (k : Nat) : monos mul one (k + 1) ([] : List α) = [] := rfl

theorem monos_succ_cons (k : Nat) (x : α) (xs : List α) :
    monos mul one (k + 1) (x :: xs)
      = (monos mul one k (x :: xs)).map (mul x) ++ monos mul one (k + 1) xs := by
  simp [monos, multichoose, mcStep, List.map_append, List.map_map, Function.comp_def, monoProd]

theorem monos_ne_nil (k : Nat) (x : α) (xs : List α) : monos mul one k (x :: xs) ≠ [] := by
  induction k with
  | zero => simp [monos_zero]
  | succ k ih =>
    rw [monos_succ_cons]
    simp [ih]

/-- invariant of the `_pows` loop: for every suffix `ys` of the values, the slice of `prev`
from `start-1` is the list of degree-`k` monomials over `ys` -/
def SufOK (k : Nat) (prev : List α) : List α → List Nat → Prop
  | [], [] => True
  | y :: ys, s :: ss => 1 ≤ s ∧ prev.drop (s - 1) = monos mul one k (y :: ys) ∧ SufOK k prev ys ss
  | _, _ => False

theorem nextTerms_eq (k : Nat) (prev : List α) :
    ∀ (ys : List α) (ss : List Nat), SufOK mul one k prev ys ss →
      nextTerms mul prev ys ss = monos mul one (k + 1) ys := by
  intro ys
  induction ys with
  | nil => intro ss _; cases ss <;> rfl
  | cons y ys ih =>
    intro ss h
    cases ss with
    | nil => exact absurd h (by simp [SufOK])
    | cons s ss =>
      obtain ⟨_, h2, h3⟩ := h
      rw [nextTerms, h2, ih ss h3, monos_succ_cons]

theorem sufOK_init : ∀ (ys : List α), SufOK mul one 0 [one] ys (List.replicate ys.length 1) := by
  intro ys
  induction ys with
  | nil => simp [SufOK]
  | cons y ys ih =>
    simp only [List.length_cons, List.replicate_succ, SufOK]
    exact ⟨Nat.le_refl 1, rfl, ih⟩

theorem sufOK_step (k : Nat) (P T : List α) :
    ∀ (ys : List α) (y : α) (s : Nat) (ss : List Nat) (c : Nat), 1 ≤ c →
      SufOK mul one k P (y :: ys) (s :: ss) →
      T.drop (c - 1) = monos mul one (k + 1) (y :: ys) →
      SufOK mul one (k + 1) T (y :: ys)
        (c :: accFrom c ((s :: ss).dropLast.map (fun s => P.length + 1 - s))) := by
  intro ys
  induction ys with
  | nil =>
    intro y s ss c hc h hT
    obtain ⟨_, _, h3⟩ := h
    cases ss with
    | nil => simp only [List.dropLast_singleton, List.map_nil, accFrom, SufOK]; exact ⟨hc, hT, trivial⟩
    | cons s2 ss => exact absurd h3 (by simp [SufOK])
  | cons y2 ys ih =>
    intro y s ss c hc h hT
    obtain ⟨hs, h2, h3⟩ := h
    cases ss with
    | nil => exact absurd h3 (by simp [SufOK])
    | cons s2 ss =>
      simp only [List.dropLast_cons_cons, List.map_cons, accFrom]
      refine ⟨hc, hT, ?_⟩
      apply ih y2 s2 ss (c + (P.length + 1 - s)) (by omega) h3
      have hlen : (monos mul one k (y :: y2 :: ys)).length = P.length + 1 - s := by
        rw [← h2, List.length_drop]; omega
      have : c + (P.length + 1 - s) - 1 = (c - 1) + (monos mul one k (y :: y2 :: ys)).length := by
        rw [hlen]; omega
      rw [this, ← List.drop_drop, hT, monos_succ_cons]
      rw [List.drop_append_of_le_length (by simp)]
      simp

theorem stepNew_cons (L s : Nat) (ss : List Nat) :
    stepNew L (s :: ss) = 1 :: accFrom 1 ((s :: ss).dropLast.map (fun s => L + 1 - s)) := by
  simp [stepNew, accumulate, accFrom]

theorem powsAux_eq (y : α) (ys : List α) :
    ∀ (d k : Nat) (starts : List Nat) (last : List α),
      last = monos mul one k (y :: ys) → SufOK mul one k last (y :: ys) starts →
      powsAux true mul (y :: ys) d starts last
        = (List.range' (k + 1) d).map (fun j => monos mul one j (y :: ys)) := by
  intro d
  induction d with
  | zero => intros; rfl
  | succ d ih =>
    intro k starts last hl hs
    cases starts with
    | nil => exact absurd hs (by simp [SufOK])
    | cons s ss =>
      have hn := nextTerms_eq mul one k last (y :: ys) (s :: ss) hs
      simp only [powsAux, if_true, List.range'_succ, List.map_cons]
      rw [hn]
      congr 1
      apply ih (k + 1) _ _ rfl
      rw [stepNew_cons]
      exact sufOK_step mul one k last _ ys y s ss 1 (Nat.le_refl 1) hs (by simp)

theorem pows_eq (xs : List α) (hne : xs ≠ []) (d : Nat) :
    pows true mul one xs d = (List.range (d + 1)).map (fun k => monos mul one k xs) := by
  cases xs with
  | nil => exact absurd rfl hne
  | cons y ys =>
    simp only [pows]
    rw [powsAux_eq mul one y ys d 0 _ [one] rfl (sufOK_init mul one (y :: ys))]
    rw [List.range_eq_range', List.range'_succ]
    simp [monos_zero]

theorem pows_getElem? (xs : List α) (hne : xs ≠ []) (d k : Nat) (hk : k ≤ d) :
    (pows true mul one xs d)[k]? = some (monos mul one k xs) := by
  rw [pows_eq mul one xs hne d]
  simp [List.getElem?_map, List.getElem?_range (by omega : k < d + 1)]

end

/-! ## Part 2: ordered de-duplication, dicts, `Counter` -/

/-! dedupFirst -/
section Dedup
variable {β : Type} [DecidableEq β]

theorem dedupFirst_append_singleton (p : List β) (x : β) :
    dedupFirst (p ++ [x]) = dedupAdd x (dedupFirst p) := by
  simp [dedupFirst, List.foldl_append]

theorem mem_dedupAdd (x y : β) (acc : List β) : y ∈ dedupAdd x acc ↔ y ∈ acc ∨ y = x := by
  unfold dedupAdd
  split
  · constructor
    · intro h; exact Or.inl h
    · rintro (h | h)
      · exact h
      · subst h; assumption
  · simp

theorem mem_dedupFirst (l : List β) (y : β) : y ∈ dedupFirst l ↔ y ∈ l := by
  induction l using List.reverseRecOn with
  | nil => simp [dedupFirst]
  | append_singleton p x ih => rw [dedupFirst_append_singleton, mem_dedupAdd, ih]; simp

theorem nodup_dedupAdd (x : β) (acc : List β) (h : acc.Nodup) : (dedupAdd x acc).Nodup := by
  unfold dedupAdd
  split
  · exact h
  · rw [List.nodup_append]
    refine ⟨h, by simp, ?_⟩
    intro a ha b hb
    simp at hb
    subst hb
    intro hab; subst hab; contradiction

theorem nodup_dedupFirst (l : List β) : (dedupFirst l).Nodup := by
  induction l using List.reverseRecOn with
  | nil => simp [dedupFirst]
  | append_singleton p x ih => rw [dedupFirst_append_singleton]; exact nodup_dedupAdd x _ ih

theorem dedupFirst_of_nodup (l : List β) (h : l.Nodup) : dedupFirst l = l := by
  induction l using List.reverseRecOn with
  | nil => simp [dedupFirst]
  | append_singleton p x ih =>
    rw [dedupFirst_append_singleton]
    rw [List.nodup_append] at h
    obtain ⟨hp, _, hd⟩ := h
    rw [ih hp, dedupAdd, if_neg]
    intro hx
    exact hd x hx x (by simp) rfl

end Dedup

/-! dictOf over a list of (f t, g t) with injective f -/
section Dict
variable {β κ γ : Type} [DecidableEq β] [DecidableEq κ]

theorem dictOf_append_singleton (p : List (κ × γ)) (kv : κ × γ) :
    dictOf (p ++ [kv]) = dictSet kv.1 kv.2 (dictOf p) := by
  simp [dictOf, List.foldl_append]

theorem dictSet_map_keyed (f : β → κ) (g : β → γ) (hf : Function.Injective f) (x : β) :
    ∀ (D : List β), dictSet (f x) (g x) (D.map (fun t => (f t, g t)))
      = (dedupAdd x D).map (fun t => (f t, g t)) := by
  intro D
  induction D with
  | nil => simp [dictSet, dedupAdd]
  | cons d D ih =>
    simp only [List.map_cons, dictSet]
    by_cases hd : d = x
    · subst hd
      simp [dedupAdd]
    · have : f d ≠ f x := fun h => hd (hf h)
      rw [if_neg this, ih]
      unfold dedupAdd
      by_cases hx : x ∈ D
      · have : x ∈ d :: D := List.mem_cons_of_mem _ hx
        simp [hx, this]
      · have : x ∉ d :: D := by
          intro h; rcases List.mem_cons.1 h with h | h
          · exact hd h.symm
          · exact hx h
        simp [hx, this]

theorem dictOf_map_keyed (f : β → κ) (g : β → γ) (hf : Function.Injective f) (l : List β) :
    dictOf (l.map (fun t => (f t, g t))) = (dedupFirst l).map (fun t => (f t, g t)) := by
  induction l using List.reverseRecOn with
  | nil => simp [dictOf, dedupFirst]
  | append_singleton p x ih =>
    rw [List.map_append, List.map_singleton, dictOf_append_singleton, ih, dedupFirst_append_singleton]
    exact dictSet_map_keyed f g hf x _

omit [DecidableEq β] [DecidableEq κ] in
theorem zipT_map_map {δ : Type} (f : β → κ) (g : β → δ) (l : List β) :
    zipT (l.map f) (l.map g) = l.map (fun t => (f t, g t)) := by
  induction l with
  | nil => rfl
  | cons a l ih => simp [zipT, ih]

omit [DecidableEq β] [DecidableEq κ] in
theorem zipT_fst_snd {δ ε : Type} (l : List (δ × ε)) : zipT (l.map (·.1)) (l.map (·.2)) = l := by
  induction l with
  | nil => rfl
  | cons a l ih => simp [zipT, ih]

theorem dictGet_map_keyed {δ : Type} (g : κ → δ) (c : κ) :
    ∀ (D : List κ), c ∈ D → dictGet c (D.map (fun x => (x, g x))) = some (g c) := by
  intro D
  induction D with
  | nil => intro h; cases h
  | cons d D ih =>
    intro h
    simp only [List.map_cons, dictGet]
    by_cases hd : d = c
    · subst hd; simp
    · rw [if_neg hd]
      rcases List.mem_cons.1 h with h | h
      · exact absurd h.symm hd
      · exact ih h

end Dict

/-! counter = factors -/
theorem counter_append_singleton (p : List Char) (c : Char) :
    counter (p ++ [c]) = counterAdd c (counter p) := by
  simp [counter, List.foldl_append]

theorem counterAdd_map (c : Char) (g g' : Char → Nat)
    (hg : ∀ x, g' x = if x = c then g x + 1 else g x) :
    ∀ (D : List Char), D.Nodup → (c ∉ D → g c = 0) →
      counterAdd c (D.map (fun x => (x, g x))) = (dedupAdd c D).map (fun x => (x, g' x)) := by
  intro D
  induction D with
  | nil =>
    intro _ h0
    simp [counterAdd, dedupAdd, hg, h0]
  | cons d D ih =>
    intro hnd h0
    rw [List.nodup_cons] at hnd
    simp only [List.map_cons, counterAdd]
    by_cases hd : d = c
    · subst hd
      have hmap : D.map (fun x => (x, g x)) = D.map (fun x => (x, g' x)) := by
        apply List.map_congr_left
        intro x hx
        have : x ≠ d := fun h => hnd.1 (h ▸ hx)
        simp [hg, this]
      simp [dedupAdd, hg, hmap]
    · rw [if_neg hd]
      have hcD : c ∉ D → g c = 0 := fun h => h0 (by
        intro h'; rcases List.mem_cons.1 h' with h' | h'
        · exact hd h'.symm
        · exact h h')
      rw [ih hnd.2 hcD]
      have hgd : g' d = g d := by simp [hg, hd]
      unfold dedupAdd
      by_cases hx : c ∈ D
      · have : c ∈ d :: D := List.mem_cons_of_mem _ hx
        simp [hx, this, hgd]
      · have : c ∉ d :: D := by
          intro h; rcases List.mem_cons.1 h with h | h
          · exact hd h.symm
          · exact hx h
        simp [hx, this, hgd]

theorem counter_eq_factors (t : List Char) : counter t = factors t := by
  unfold factors
  induction t using List.reverseRecOn with
  | nil => simp [counter, dedupFirst]
  | append_singleton p c ih =>
    rw [counter_append_singleton, ih, dedupFirst_append_singleton]
    apply counterAdd_map c (fun x => p.count x) (fun x => (p ++ [c]).count x)
    · intro x
      by_cases hx : x = c
      · subst hx; simp
      · have : c ≠ x := fun h => hx h.symm
        simp [hx, this]
    · exact nodup_dedupFirst p
    · intro h
      rw [mem_dedupFirst] at h
      exact List.count_eq_zero_of_not_mem h


/-! ## Part 3: `_cross`, homomorphisms -/
section
variable {α : Type} (mul : α → α → α) (one : α)

/-! outer products -/
theorem outer_nil_left (vs : List α) : outer mul [] vs = [] := rfl
theorem outer_nil_right (os : List α) : outer mul os [] = [] := by
  simp [outer]

theorem foldl_outer_nil (vs : List (List α)) : vs.foldl (outer mul) [] = [] := by
  induction vs with
  | nil => rfl
  | cons v vs ih => simp [List.foldl, outer_nil_left, ih]

theorem foldl_outer_of_nil_mem : ∀ (vs : List (List α)) (v : List α), [] ∈ vs → vs.foldl (outer mul) v = [] := by
  intro vs
  induction vs with
  | nil => intro v h; cases h
  | cons w vs ih =>
    intro v h
    simp only [List.foldl]
    rcases List.mem_cons.1 h with h | h
    · rw [← h, outer_nil_right, foldl_outer_nil]
    · exact ih _ h

theorem outerAll_of_nil_mem (vs : List (List α)) (h : [] ∈ vs) : outerAll mul vs = [] := by
  cases vs with
  | nil => rfl
  | cons v vs =>
    simp only [outerAll]
    rcases List.mem_cons.1 h with h | h
    · rw [← h, foldl_outer_nil]
    · exact foldl_outer_of_nil_mem mul vs v h

/-! `_cross` -/
theorem pickPows_eq (F : Char → List α) (M : Char → Nat) :
    ∀ (cp : List (Char × Nat)), (∀ kp ∈ cp, F kp.1 ≠ [] ∧ kp.2 ≤ M kp.1) →
      pickPows (fun c => pows true mul one (F c) (M c)) cp
        = .ok (cp.map (fun kp => monos mul one kp.2 (F kp.1))) := by
  intro cp
  induction cp with
  | nil => intro _; rfl
  | cons kp cp ih =>
    intro h
    have h1 := h kp (List.mem_cons_self)
    simp only [pickPows, List.map_cons]
    rw [pows_getElem? mul one (F kp.1) h1.1 (M kp.1) kp.2 h1.2]
    simp only
    rw [ih (fun q hq => h q (List.mem_cons_of_mem _ hq))]

theorem pows_isEmpty (xs : List α) (d : Nat) : (pows true mul one xs d).isEmpty = xs.isEmpty := by
  cases xs <;> rfl

theorem cross_eq (F : Char → List α) (M : Char → Nat) (cp : List (Char × Nat)) (hne : cp ≠ [])
    (h : ∀ kp ∈ cp, 1 ≤ kp.2 ∧ kp.2 ≤ M kp.1) :
    cross mul (fun c => pows true mul one (F c) (M c)) cp
      = .ok (outerAll mul (cp.map (fun kp => monos mul one kp.2 (F kp.1)))) := by
  unfold cross
  by_cases hany : cp.any (fun kp => (pows true mul one (F kp.1) (M kp.1)).isEmpty) = true
  · rw [if_pos hany]
    rw [List.any_eq_true] at hany
    obtain ⟨kp, hkp, he⟩ := hany
    rw [pows_isEmpty, List.isEmpty_iff] at he
    congr 1
    symm
    apply outerAll_of_nil_mem
    rw [List.mem_map]
    refine ⟨kp, hkp, ?_⟩
    obtain ⟨p, hp⟩ : ∃ p, kp.2 = p + 1 := ⟨kp.2 - 1, by have := (h kp hkp).1; omega⟩
    simp only [he, hp, monos_succ_nil]
  · rw [if_neg hany]
    have hF : ∀ kp ∈ cp, F kp.1 ≠ [] ∧ kp.2 ≤ M kp.1 := by
      intro kp hkp
      refine ⟨?_, (h kp hkp).2⟩
      intro he
      apply hany
      rw [List.any_eq_true]
      exact ⟨kp, hkp, by rw [pows_isEmpty, he]; rfl⟩
    rw [pickPows_eq mul one F M cp hF]
    cases cp with
    | nil => exact absurd rfl hne
    | cons kp cp => rfl

theorem cross_nil (nsPows : Char → List (List α)) : cross mul nsPows [] = .error .indexError := rfl

/-! homomorphisms (used for keys and values of the sparse encoding) -/
variable {β : Type} (mul' : β → β → β) (one' : β) (h : α → β)

theorem monoProd_map (hm : ∀ a b, h (mul a b) = mul' (h a) (h b)) (h1 : h one = one') (c : List α) :
    h (monoProd mul one c) = monoProd mul' one' (c.map h) := by
  induction c with
  | nil => exact h1
  | cons a c ih => simp [monoProd, hm, ih]

theorem mcStep_map (prev : List α → List (List α)) (prev' : List β → List (List β))
    (hp : ∀ xs, (prev xs).map (List.map h) = prev' (xs.map h)) :
    ∀ xs, (mcStep prev xs).map (List.map h) = mcStep prev' (xs.map h) := by
  intro xs
  induction xs with
  | nil => rfl
  | cons x xs ih =>
    simp only [mcStep, List.map_append, List.map_map, List.map_cons]
    rw [ih]
    have := hp (x :: xs)
    rw [List.map_cons] at this
    rw [← this]
    simp [List.map_map, Function.comp_def]

theorem multichoose_map (k : Nat) : ∀ (xs : List α),
    (multichoose k xs).map (List.map h) = multichoose k (xs.map h) := by
  induction k with
  | zero => intro xs; rfl
  | succ k ih => exact mcStep_map h _ _ ih

theorem monos_map (hm : ∀ a b, h (mul a b) = mul' (h a) (h b)) (h1 : h one = one') (k : Nat) (xs : List α) :
    (monos mul one k xs).map h = monos mul' one' k (xs.map h) := by
  unfold monos
  rw [← multichoose_map h k xs, List.map_map, List.map_map]
  apply List.map_congr_left
  intro c _
  exact monoProd_map mul one mul' one' h hm h1 c

theorem outer_map (hm : ∀ a b, h (mul a b) = mul' (h a) (h b)) (os vs : List α) :
    (outer mul os vs).map h = outer mul' (os.map h) (vs.map h) := by
  simp [outer, List.map_flatMap, List.flatMap_map, List.map_map, Function.comp_def, hm]

theorem foldl_outer_map (hm : ∀ a b, h (mul a b) = mul' (h a) (h b)) :
    ∀ (vs : List (List α)) (v : List α),
      (vs.foldl (outer mul) v).map h = (vs.map (List.map h)).foldl (outer mul') (v.map h) := by
  intro vs
  induction vs with
  | nil => intro v; rfl
  | cons w vs ih => intro v; simp only [List.foldl, List.map_cons]; rw [ih, outer_map mul mul' h hm]

theorem outerAll_map (hm : ∀ a b, h (mul a b) = mul' (h a) (h b)) (vs : List (List α)) :
    (outerAll mul vs).map h = outerAll mul' (vs.map (List.map h)) := by
  cases vs with
  | nil => rfl
  | cons v vs => exact foldl_outer_map mul mul' h hm vs v

theorem termS_map (hm : ∀ a b, h (mul a b) = mul' (h a) (h b)) (h1 : h one = one')
    (F : Char → List α) (t : List Char) :
    (termS mul one F t).map h = termS mul' one' (fun c => (F c).map h) t := by
  unfold termS
  rw [outerAll_map mul mul' h hm, List.map_map]
  congr 1
  apply List.map_congr_left
  intro cp _
  exact monos_map mul one mul' one' h hm h1 cp.2 (F cp.1)

theorem termsS_map (hm : ∀ a b, h (mul a b) = mul' (h a) (h b)) (h1 : h one = one')
    (F : Char → List α) (ts : List (List Char)) :
    (termsS mul one F ts).map h = termsS mul' one' (fun c => (F c).map h) ts := by
  unfold termsS
  rw [List.map_flatMap]
  congr 1
  funext t
  exact termS_map mul one mul' one' h hm h1 F t

end

/-! ## Part 4: `__init__`, keyword arguments -/


/-! maxPow -/
theorem foldl_max_ge_init {γ : Type} (g : γ → Nat) : ∀ (l : List γ) (m0 : Nat),
    m0 ≤ l.foldl (fun m x => max m (g x)) m0 := by
  intro l
  induction l with
  | nil => intro m0; exact Nat.le_refl _
  | cons x l ih => intro m0; exact Nat.le_trans (Nat.le_max_left _ _) (ih _)

theorem foldl_max_ge_mem {γ : Type} (g : γ → Nat) : ∀ (l : List γ) (m0 : Nat) (x : γ), x ∈ l →
    g x ≤ l.foldl (fun m x => max m (g x)) m0 := by
  intro l
  induction l with
  | nil => intro _ _ h; cases h
  | cons y l ih =>
    intro m0 x hx
    simp only [List.foldl]
    rcases List.mem_cons.1 hx with hx | hx
    · subst hx; exact Nat.le_trans (Nat.le_max_right _ _) (foldl_max_ge_init g l _)
    · exact ih _ x hx

theorem maxPow_ge (cps : List (List (Char × Nat))) (cp : List (Char × Nat)) (c : Char) (p : Nat)
    (hcp : cp ∈ cps) (hg : dictGet c cp = some p) : p ≤ maxPow cps c := by
  have := foldl_max_ge_mem (fun cp => (dictGet c cp).getD 0) cps 0 cp hcp
  simpa [hg, maxPow] using this

/-! factors -/
theorem factors_ne_nil (t : List Char) (ht : t ≠ []) : factors t ≠ [] := by
  cases t with
  | nil => exact absurd rfl ht
  | cons c t =>
    intro h
    have hc : c ∈ dedupFirst (c :: t) := (mem_dedupFirst _ _).2 List.mem_cons_self
    unfold factors at h
    rw [List.map_eq_nil_iff] at h
    rw [h] at hc
    cases hc

theorem mem_factors (t : List Char) (kp : Char × Nat) (h : kp ∈ factors t) :
    kp.1 ∈ t ∧ kp.2 = t.count kp.1 ∧ 1 ≤ kp.2 ∧ dictGet kp.1 (factors t) = some kp.2 := by
  unfold factors at h
  rw [List.mem_map] at h
  obtain ⟨c, hc, rfl⟩ := h
  have hct := (mem_dedupFirst _ _).1 hc
  refine ⟨hct, rfl, ?_, ?_⟩
  · exact List.count_pos_iff.2 hct
  · exact dictGet_map_keyed (fun c => t.count c) c _ hc

theorem crossPows_fixed (is : List Inter) :
    crossPows Cfg.fixed is = (dedupFirst (strTerms is)).map factors := by
  unfold crossPows
  simp only [Cfg.fixed, if_true]
  rw [zipT_map_map Inter.term counter, dictOf_map_keyed Inter.term counter (fun a b h => by cases h; rfl)]
  rw [List.map_map]
  apply List.map_congr_left
  intro t _
  exact counter_eq_factors t

section
variable {α : Type} (mul : α → α → α) (one : α)

theorem crossAll_eq (F : Char → List α) (M : Char → Nat) :
    ∀ (ts : List (List Char)), (∀ t ∈ ts, t ≠ []) →
      (∀ t ∈ ts, ∀ kp ∈ factors t, kp.2 ≤ M kp.1) →
      crossAll mul (fun c => pows true mul one (F c) (M c)) (ts.map factors)
        = .ok (termsS mul one F ts) := by
  intro ts
  induction ts with
  | nil => intro _ _; rfl
  | cons t ts ih =>
    intro hne hM
    simp only [List.map_cons, crossAll]
    rw [cross_eq mul one F M (factors t) (factors_ne_nil t (hne t List.mem_cons_self))
      (fun kp hkp => ⟨(mem_factors t kp hkp).2.2.1, hM t List.mem_cons_self kp hkp⟩)]
    simp only
    rw [ih (fun t' h' => hne t' (List.mem_cons_of_mem _ h')) (fun t' h' => hM t' (List.mem_cons_of_mem _ h'))]
    simp [termsS, termS]

theorem crossAll_fixed (F : Char → List α) (is : List Inter) (hne : ∀ t ∈ strTerms is, t ≠ []) :
    crossAll mul (fun c => pows true mul one (F c) (maxPow (crossPows Cfg.fixed is) c)) (crossPows Cfg.fixed is)
      = .ok (termsS mul one F (dedupFirst (strTerms is))) := by
  rw [crossPows_fixed]
  apply crossAll_eq mul one F
  · intro t ht; exact hne t ((mem_dedupFirst _ _).1 ht)
  · intro t ht kp hkp
    exact maxPow_ge _ (factors t) kp.1 kp.2 (List.mem_map.2 ⟨t, ht, rfl⟩) (mem_factors t kp hkp).2.2.2
end

/-! kwargs -/
theorem dictGet_append {κ δ : Type} [DecidableEq κ] (c : κ) (a b : List (κ × δ)) :
    dictGet c (a ++ b) = match dictGet c a with | some v => some v | none => dictGet c b := by
  induction a with
  | nil => rfl
  | cons kv a ih =>
    simp only [List.cons_append, dictGet]
    split
    · rfl
    · exact ih

theorem dictGet_map_keyed_none {κ δ : Type} [DecidableEq κ] (g : κ → δ) (c : κ) :
    ∀ (L : List κ), c ∉ L → dictGet c (L.map (fun x => (x, g x))) = none := by
  intro L
  induction L with
  | nil => intro _; rfl
  | cons d L ih =>
    intro h
    simp only [List.map_cons, dictGet]
    rw [if_neg (fun hd : d = c => h (by rw [hd]; exact List.mem_cons_self))]
    exact ih (fun h' => h (List.mem_cons_of_mem _ h'))

theorem kwargs_fixed_get (is : List Inter) (kw : List (Char × NsVal)) (c : Char) :
    (∃ v, dictGet c kw = some v ∧ dictGet c (kwargs Cfg.fixed is kw) = some v) ∨
    (dictGet c kw = none ∧ (dictGet c (kwargs Cfg.fixed is kw) = none ∧ c ∉ nsNames is
       ∨ dictGet c (kwargs Cfg.fixed is kw) = some (.dense []))) := by
  unfold kwargs
  simp only [Cfg.fixed, if_true]
  rw [dictGet_append]
  cases hk : dictGet c kw with
  | some v => left; exact ⟨v, rfl, rfl⟩
  | none =>
    right
    refine ⟨rfl, ?_⟩
    simp only
    by_cases hc : c ∈ nsNames is
    · right
      apply dictGet_map_keyed (fun _ => NsVal.dense []) c
      rw [List.mem_filter]
      exact ⟨hc, by simp [hk]⟩
    · left
      refine ⟨?_, hc⟩
      apply dictGet_map_keyed_none
      intro h
      exact hc (List.mem_filter.1 h).1


/-! ## Part 5: `encode` -/


theorem sparseFeats_dense_nil (c : Char) : sparseFeats c (.dense []) = [] := rfl
theorem sparseFeats_none (c : Char) : sparseFeats c .none = [] := rfl

theorem denseVals_kwargs (is : List Inter) (kw : List (Char × NsVal)) (c : Char) :
    denseVals (nsVal (kwargs Cfg.fixed is kw) c) = denseVals (nsVal kw c) := by
  unfold nsVal
  rcases kwargs_fixed_get is kw c with ⟨v, h1, h2⟩ | ⟨h1, ⟨h2, _⟩ | h2⟩ <;> simp [h1, h2, denseVals]

theorem sparseFeats_kwargs (is : List Inter) (kw : List (Char × NsVal)) (c : Char) :
    sparseFeats c (nsVal (kwargs Cfg.fixed is kw) c) = sparseFeats c (nsVal kw c) := by
  unfold nsVal
  rcases kwargs_fixed_get is kw c with ⟨v, h1, h2⟩ | ⟨h1, ⟨h2, _⟩ | h2⟩ <;>
    simp [h1, h2, sparseFeats_dense_nil, sparseFeats_none]

theorem isSparse_kwargs (is : List Inter) (kw : List (Char × NsVal)) :
    (kwargs Cfg.fixed is kw).any (fun cv => cv.2.isSparse) = kw.any (fun cv => cv.2.isSparse) := by
  unfold kwargs
  simp only [Cfg.fixed, if_true, List.any_append, List.any_map]
  have : (List.filter (fun c => (dictGet c kw).isNone) (nsNames is)).any
      ((fun cv : Char × NsVal => cv.2.isSparse) ∘ fun c => (c, NsVal.dense [])) = false := by
    rw [List.any_eq_false]
    intro x _
    simp [NsVal.isSparse]
  rw [this, Bool.or_false]

theorem no_keyError (is : List Inter) (kw : List (Char × NsVal)) :
    (nsNames is).any (fun c => (dictGet c (kwargs Cfg.fixed is kw)).isNone) = false := by
  rw [List.any_eq_false]
  intro c hc
  rcases kwargs_fixed_get is kw c with ⟨v, _, h2⟩ | ⟨_, ⟨_, h2⟩ | h2⟩
  · simp [h2]
  · exact absurd hc h2
  · simp [h2]

theorem encodeG_eq_spec (vmul : Rat → Rat → Rat) (is : List Inter) (kw : List (Char × NsVal))
    (hne : ∀ t ∈ strTerms is, t ≠ []) : encodeG vmul Cfg.fixed is kw = .ok (encodeSG vmul is kw) := by
  unfold encodeG encodeSG isSparseCall
  simp only [no_keyError, isSparse_kwargs, denseVals_kwargs, sparseFeats_kwargs]
  simp only [Bool.false_eq_true, if_false]
  have hfix : Cfg.fixed.fixPows = true := rfl
  rw [hfix]
  by_cases hs : kw.any (fun cv => cv.2.isSparse) = true
  · simp only [hs, if_true]
    rw [crossAll_fixed strMul "" (fun c => (sparseFeats c (nsVal kw c)).map (·.1)) is hne,
        crossAll_fixed vmul 1 (fun c => (sparseFeats c (nsVal kw c)).map (·.2)) is hne]
    simp only
    rw [← termsS_map (pairMulG vmul) pairOne strMul "" (·.1) (fun _ _ => rfl) rfl,
        ← termsS_map (pairMulG vmul) pairOne vmul 1 (·.2) (fun _ _ => rfl) rfl, zipT_fst_snd]
    rfl
  · simp only [hs]
    rw [crossAll_fixed vmul 1 (fun c => denseVals (nsVal kw c)) is hne]
    rfl

theorem encodeSG_ratMul (is : List Inter) (kw : List (Char × NsVal)) :
    encodeSG ratMul is kw = encodeS is kw := rfl

theorem encode_eq_spec' (is : List Inter) (kw : List (Char × NsVal))
    (hne : ∀ t ∈ strTerms is, t ≠ []) : encode Cfg.fixed is kw = .ok (encodeS is kw) := by
  unfold encode
  rw [encodeG_eq_spec ratMul is kw hne, encodeSG_ratMul]

/-! ## Part 6: the combinations are exactly the multisets, each once -/
section
variable {α : Type}

theorem multichoose_succ_cons (k : Nat) (x : α) (xs : List α) :
    multichoose (k + 1) (x :: xs) = (multichoose k (x :: xs)).map (x :: ·) ++ multichoose (k + 1) xs := rfl

theorem multichoose_succ_nil (k : Nat) : multichoose (k + 1) ([] : List α) = [] := rfl

theorem multichoose_coe (k : Nat) : ∀ (xs : List α),
    (multichoose k xs).map Multiset.ofList = (xs.sym k).map Sym.toMultiset := by
  induction k with
  | zero => intro xs; simp [multichoose, List.sym]
  | succ k ihk =>
    intro xs
    induction xs with
    | nil => simp [multichoose_succ_nil, List.sym]
    | cons x xs ihx =>
      rw [multichoose_succ_cons, List.sym, List.map_append, List.map_append, ihx]
      congr 1
      rw [List.map_map, List.map_map]
      have := ihk (x :: xs)
      have h2 := congrArg (List.map (fun m : Multiset α => x ::ₘ m)) this
      rw [List.map_map, List.map_map] at h2
      exact h2

theorem multichoose_length (k : Nat) (xs : List α) :
    (multichoose k xs).length = Nat.multichoose xs.length k := by
  rw [← List.length_sym, ← List.length_map (f := Multiset.ofList), multichoose_coe, List.length_map]

theorem multichoose_nodup (k : Nat) (xs : List α) (h : xs.Nodup) :
    ((multichoose k xs).map Multiset.ofList).Nodup := by
  rw [multichoose_coe]
  exact (List.Nodup.sym k h).map Sym.coe_injective

theorem multichoose_sound (k : Nat) : ∀ (xs c : List α), c ∈ multichoose k xs →
    c.length = k ∧ ∀ a ∈ c, a ∈ xs := by
  induction k with
  | zero => intro xs c h; simp [multichoose] at h; subst h; simp
  | succ k ihk =>
    intro xs
    induction xs with
    | nil => intro c h; simp [multichoose_succ_nil] at h
    | cons x xs ihx =>
      intro c h
      rw [multichoose_succ_cons, List.mem_append, List.mem_map] at h
      rcases h with ⟨c', hc', rfl⟩ | h
      · obtain ⟨h1, h2⟩ := ihk (x :: xs) c' hc'
        refine ⟨by simp [h1], ?_⟩
        intro a ha
        rcases List.mem_cons.1 ha with ha | ha
        · subst ha; exact List.mem_cons_self
        · exact h2 a ha
      · obtain ⟨h1, h2⟩ := ihx c h
        exact ⟨h1, fun a ha => List.mem_cons_of_mem _ (h2 a ha)⟩

theorem multichoose_complete [DecidableEq α] : ∀ (xs : List α) (k : Nat) (m : Multiset α),
    Multiset.card m = k → (∀ a ∈ m, a ∈ xs) → ∃ c ∈ multichoose k xs, (c : Multiset α) = m := by
  intro xs
  induction xs with
  | nil =>
    intro k m hk hm
    have : m = 0 := Multiset.eq_zero_of_forall_notMem (fun a ha => by cases hm a ha)
    subst this
    simp at hk
    subst hk
    exact ⟨[], by simp [multichoose], rfl⟩
  | cons x xs ihx =>
    intro k
    induction k with
    | zero =>
      intro m hk _
      rw [Multiset.card_eq_zero] at hk
      subst hk
      exact ⟨[], by simp [multichoose], rfl⟩
    | succ k ihk =>
      intro m hk hm
      by_cases hx : x ∈ m
      · obtain ⟨m', rfl⟩ := Multiset.exists_cons_of_mem hx
        have hk' : Multiset.card m' = k := by simpa using hk
        obtain ⟨c, hc, rfl⟩ := ihk m' hk' (fun a ha => hm a (Multiset.mem_cons_of_mem ha))
        refine ⟨x :: c, ?_, rfl⟩
        rw [multichoose_succ_cons, List.mem_append]
        exact Or.inl (List.mem_map.2 ⟨c, hc, rfl⟩)
      · have hm' : ∀ a ∈ m, a ∈ xs := by
          intro a ha
          rcases List.mem_cons.1 (hm a ha) with h | h
          · subst h; exact absurd ha hx
          · exact h
        obtain ⟨c, hc, rfl⟩ := ihx (k + 1) m hk hm'
        refine ⟨c, ?_, rfl⟩
        rw [multichoose_succ_cons, List.mem_append]
        exact Or.inr hc

theorem monos_length' (mul : α → α → α) (one : α) (k : Nat) (xs : List α) :
    (monos mul one k xs).length = Nat.choose (xs.length + k - 1) k := by
  rw [monos, List.length_map, multichoose_length, Nat.multichoose_eq]
end

/-! ## Part 7: error branch, distinct keys, congruence, agreement -/

/-! error branch: a term without namespaces -/
section
variable {α : Type} (mul : α → α → α)

theorem pickPows_error (nsPows : Char → List (List α)) : ∀ (cp : List (Char × Nat)) (e : Err),
    pickPows nsPows cp = .error e → e = .indexError := by
  intro cp
  induction cp with
  | nil => intro e h; cases h
  | cons kp cp ih =>
    intro e h
    simp only [pickPows] at h
    split at h
    · cases h; rfl
    · split at h
      · cases h
      · next e' he => cases h; exact ih e he

theorem cross_error (nsPows : Char → List (List α)) (cp : List (Char × Nat)) (e : Err)
    (h : cross mul nsPows cp = .error e) : e = .indexError := by
  unfold cross at h
  split at h
  · cases h
  · split at h
    · next e' he => cases h; exact pickPows_error nsPows cp e he
    · cases h; rfl
    · cases h

theorem crossAll_nil_mem (nsPows : Char → List (List α)) : ∀ (cps : List (List (Char × Nat))),
    [] ∈ cps → crossAll mul nsPows cps = .error .indexError := by
  intro cps
  induction cps with
  | nil => intro h; cases h
  | cons cp cps ih =>
    intro h
    simp only [crossAll]
    rcases List.mem_cons.1 h with h | h
    · subst h; rw [cross_nil]
    · cases hc : cross mul nsPows cp with
      | error e => rw [cross_error mul nsPows cp e hc]
      | ok c => simp only; rw [ih h]
end

theorem encode_empty_term_error' (is : List Inter) (kw : List (Char × NsVal))
    (h : [] ∈ strTerms is) : encode Cfg.fixed is kw = .error .indexError := by
  have hmem : [] ∈ crossPows Cfg.fixed is := by
    rw [crossPows_fixed, List.mem_map]
    exact ⟨[], (mem_dedupFirst _ _).2 h, rfl⟩
  unfold encode encodeG
  simp only [no_keyError, Bool.false_eq_true, if_false]
  split
  · rw [crossAll_nil_mem strMul _ _ hmem]
  · rw [crossAll_nil_mem ratMul _ _ hmem]

/-! dicts with distinct keys -/
section
variable {κ γ : Type} [DecidableEq κ]
theorem dictSet_not_mem (k : κ) (v : γ) : ∀ (l : List (κ × γ)), k ∉ l.map (·.1) →
    dictSet k v l = l ++ [(k, v)] := by
  intro l
  induction l with
  | nil => intro _; rfl
  | cons kv l ih =>
    intro h
    simp only [List.map_cons, List.mem_cons, not_or] at h
    simp only [dictSet]
    rw [if_neg (fun hk => h.1 hk.symm), ih h.2]
    rfl

theorem dictOf_of_nodup_keys (l : List (κ × γ)) (h : (l.map (·.1)).Nodup) : dictOf l = l := by
  induction l using List.reverseRecOn with
  | nil => rfl
  | append_singleton p kv ih =>
    rw [List.map_append, List.nodup_append] at h
    obtain ⟨hp, _, hd⟩ := h
    rw [dictOf_append_singleton, ih hp, dictSet_not_mem]
    intro hk
    exact hd kv.1 hk kv.1 (by simp) rfl
end

/-! the spec depends on the keyword arguments only through the features -/
theorem encodeS_congr (is : List Inter) (kw kw' : List (Char × NsVal))
    (hs : isSparseCall kw = isSparseCall kw')
    (hd : ∀ c, featsDense kw c = featsDense kw' c)
    (hf : ∀ c, featsSparse kw c = featsSparse kw' c) : encodeS is kw = encodeS is kw' := by
  unfold encodeS
  rw [hs, funext hd, funext hf]

theorem denseVals_scalar (it : Item) : denseVals (.scalar it) = denseVals (.dense [it]) := by
  cases it <;> rfl

theorem sparseFeats_scalar (c : Char) (it : Item) :
    sparseFeats c (.scalar it) = sparseFeats c (.dense [it]) := rfl

theorem sparseFeats_scalar_num (c : Char) (q : Rat) :
    sparseFeats c (.scalar (.num q)) = [(String.singleton c ++ "0", q)] := rfl

theorem sparseFeats_scalar_str (c : Char) (s : String) :
    sparseFeats c (.scalar (.str s)) = [(String.singleton c ++ ("0" ++ s), 1)] := rfl

theorem nsVal_absent (kw : List (Char × NsVal)) (c : Char) (h : dictGet c kw = none) :
    nsVal kw c = .none := by simp [nsVal, h]

/-! the nested product is the product -/
theorem monoProd_eq_prod (c : List Rat) : monoProd ratMul 1 c = c.prod := by
  induction c with
  | nil => rfl
  | cons a c ih => simp [monoProd, ratMul, ih]

/-! dense and sparse presentations of the same feature values agree -/
theorem dense_sparse_agree' (is : List Inter) (kwd kws : List (Char × NsVal))
    (hne : ∀ t ∈ strTerms is, t ≠ [])
    (hd : isSparseCall kwd = false) (hs : isSparseCall kws = true)
    (hsame : ∀ c, featsDense kwd c = (featsSparse kws c).map (·.2)) :
    ∃ entries : List (String × Rat),
      encode Cfg.fixed is kws
        = .ok (.sparse (if constant is ≠ 0 then dictSet "const" (constant is) (dictOf entries) else dictOf entries)) ∧
      encode Cfg.fixed is kwd
        = .ok (.dense (if constant is ≠ 0 then constant is :: entries.map (·.2) else entries.map (·.2))) := by
  refine ⟨termsS pairMul pairOne (featsSparse kws) (dedupFirst (strTerms is)), ?_, ?_⟩
  · rw [encode_eq_spec' is kws hne]
    simp [encodeS, hs]
  · rw [encode_eq_spec' is kwd hne]
    rw [termsS_map pairMul pairOne ratMul 1 (·.2) (fun _ _ => rfl) rfl, ← funext hsame]
    simp [encodeS, hd]


theorem encode_dense_eq_spec' (is : List Inter) (kw : List (Char × NsVal))
    (hne : ∀ t ∈ strTerms is, t ≠ []) (hnd : (strTerms is).Nodup) (hd : isSparseCall kw = false) :
    encode Cfg.fixed is kw
      = .ok (.dense ((if constant is ≠ 0 then [constant is] else [])
          ++ (strTerms is).flatMap (termS ratMul 1 (featsDense kw)))) := by
  rw [encode_eq_spec' is kw hne, encodeS, hd, dedupFirst_of_nodup _ hnd]
  simp only [termsS, Bool.false_eq_true, if_false]
  by_cases hc : constant is ≠ 0
  · rw [if_pos hc, if_pos hc]; rfl
  · rw [if_neg hc, if_neg hc]; rfl

theorem encode_sparse_eq_spec' (is : List Inter) (kw : List (Char × NsVal))
    (hne : ∀ t ∈ strTerms is, t ≠ []) (hs : isSparseCall kw = true) :
    encode Cfg.fixed is kw
      = .ok (.sparse (
          let enc := dictOf (termsS pairMul pairOne (featsSparse kw) (dedupFirst (strTerms is)))
          if constant is ≠ 0 then dictSet "const" (constant is) enc else enc)) := by
  rw [encode_eq_spec' is kw hne, encodeS, hs]; rfl

theorem scalar_none_empty' (c : Char) (it : Item) (kw : List (Char × NsVal)) :
    denseVals (.scalar it) = denseVals (.dense [it])
    ∧ sparseFeats c (.scalar it) = sparseFeats c (.dense [it])
    ∧ denseVals .none = denseVals (.dense []) ∧ sparseFeats c .none = sparseFeats c (.dense [])
    ∧ (dictGet c kw = none → featsDense kw c = [] ∧ featsSparse kw c = []) :=
  ⟨denseVals_scalar it, sparseFeats_scalar c it, rfl, rfl,
   fun h => by simp [featsDense, featsSparse, nsVal_absent kw c h, denseVals, sparseFeats_none]⟩

theorem encode_history_eq_spec' (is : List Inter) (calls : List (List (Char × NsVal)))
    (hne : ∀ t ∈ strTerms is, t ≠ []) :
    encodeHistory Cfg.fixed is calls = calls.map (fun kw => .ok (encodeS is kw)) := by
  unfold encodeHistory
  apply List.map_congr_left
  intro kw _
  exact encode_eq_spec' is kw hne

/-! ## Part 8 (phase 2): length of the dense encoding; distinct names -/

/-! length of the dense encoding -/
theorem chooseNat_eq : ∀ n k, chooseNat n k = Nat.choose n k
  | _, 0 => by simp [chooseNat]
  | 0, k + 1 => by simp [chooseNat]
  | n + 1, k + 1 => by rw [chooseNat, chooseNat_eq n k, chooseNat_eq n (k + 1), Nat.choose_succ_succ]

section
variable {α : Type} (mul : α → α → α) (one : α)

theorem outer_length (a b : List α) : (outer mul a b).length = a.length * b.length := by
  induction a with
  | nil => simp [outer]
  | cons x a ih =>
    simp only [outer, List.flatMap_cons, List.length_append, List.length_map, List.length_cons] at *
    rw [ih]; ring

theorem foldl_mul_init (l : List Nat) (a : Nat) : l.foldl (· * ·) a = a * l.foldl (· * ·) 1 := by
  induction l generalizing a with
  | nil => simp
  | cons x l ih => simp only [List.foldl]; rw [ih (a * x), ih (1 * x)]; ring

theorem foldl_add_init (l : List Nat) (a : Nat) : l.foldl (· + ·) a = a + l.foldl (· + ·) 0 := by
  induction l generalizing a with
  | nil => simp
  | cons x l ih => simp only [List.foldl]; rw [ih (a + x), ih (0 + x)]; ring

theorem foldl_outer_length (vs : List (List α)) (v : List α) :
    (vs.foldl (outer mul) v).length = v.length * (vs.map List.length).foldl (· * ·) 1 := by
  induction vs generalizing v with
  | nil => simp
  | cons w vs ih =>
    simp only [List.foldl, List.map_cons]
    rw [ih, outer_length, foldl_mul_init _ (1 * w.length)]; ring

theorem outerAll_length (vs : List (List α)) (h : vs ≠ []) :
    (outerAll mul vs).length = (vs.map List.length).foldl (· * ·) 1 := by
  cases vs with
  | nil => exact absurd rfl h
  | cons v vs =>
    simp only [outerAll, List.map_cons, List.foldl]
    rw [foldl_outer_length, foldl_mul_init _ (1 * v.length)]; ring

theorem termS_length (F : Char → List α) (t : List Char) (ht : t ≠ []) :
    (termS mul one F t).length = termLen (fun c => (F c).length) t := by
  unfold termS termLen
  rw [outerAll_length mul _ (by simpa using factors_ne_nil t ht), List.map_map]
  congr 1
  apply List.map_congr_left
  intro cp _
  simp [monos_length', chooseNat_eq]

theorem termsS_length (F : Char → List α) (ts : List (List Char)) (h : ∀ t ∈ ts, t ≠ []) :
    (termsS mul one F ts).length = (ts.map (termLen (fun c => (F c).length))).foldl (· + ·) 0 := by
  induction ts with
  | nil => rfl
  | cons t ts ih =>
    simp only [termsS, List.flatMap_cons, List.length_append, List.map_cons, List.foldl] at *
    rw [ih (fun t' h' => h t' (List.mem_cons_of_mem _ h')), termS_length mul one F t (h t List.mem_cons_self),
        foldl_add_init _ (0 + _)]; ring
end

theorem encode_length_spec' (is : List Inter) (kw : List (Char × NsVal))
    (hne : ∀ t ∈ strTerms is, t ≠ []) (hd : isSparseCall kw = false) :
    ∃ vs, encode Cfg.fixed is kw = .ok (.dense vs) ∧ vs.length = encodeLen is kw := by
  rw [encode_eq_spec' is kw hne]
  unfold encodeS encodeLen
  rw [hd]
  simp only [Bool.false_eq_true, if_false]
  have hl := termsS_length ratMul 1 (featsDense kw) (dedupFirst (strTerms is))
    (fun t ht => hne t ((mem_dedupFirst _ _).1 ht))
  by_cases hc : constant is ≠ 0
  · rw [if_pos hc, if_pos hc]; exact ⟨_, rfl, by simp [hl]; omega⟩
  · rw [if_neg hc, if_neg hc]; exact ⟨_, rfl, by simp [hl]⟩

/-! distinct names: nothing is merged -/
def rawNames (c : Char) (v : NsVal) : List String :=
  (makeDict v).map (fun kv => String.singleton c ++ (handleEntry kv).1.fmt)

theorem sparseFeats_of_distinct (c : Char) (v : NsVal) (h : (rawNames c v).Nodup) :
    sparseFeats c v = (makeDict v).map (fun kv => (String.singleton c ++ (handleEntry kv).1.fmt, (handleEntry kv).2)) := by
  unfold sparseFeats
  have h1 : (((makeDict v).map handleEntry).map (·.1)).Nodup := by
    unfold rawNames at h
    rw [List.map_map]
    have : (makeDict v).map (fun kv => String.singleton c ++ (handleEntry kv).1.fmt)
        = ((makeDict v).map ((·.1) ∘ handleEntry)).map (fun k => String.singleton c ++ k.fmt) := by
      rw [List.map_map]; rfl
    rw [this] at h
    exact List.Nodup.of_map _ h
  rw [dictOf_of_nodup_keys _ h1, List.map_map]
  rw [dictOf_of_nodup_keys]
  · rfl
  · rw [List.map_map]; exact h

theorem encode_sparse_faithful_partial' (is : List Inter) (kw : List (Char × NsVal))
    (hne : ∀ t ∈ strTerms is, t ≠ []) (hs : isSparseCall kw = true)
    (hk : ((termsS pairMul pairOne (featsSparse kw) (dedupFirst (strTerms is))).map (·.1)
            ++ (if constant is ≠ 0 then ["const"] else [])).Nodup) :
    encode Cfg.fixed is kw = .ok (.sparse (termsS pairMul pairOne (featsSparse kw) (dedupFirst (strTerms is))
            ++ (if constant is ≠ 0 then [("const", constant is)] else []))) := by
  rw [encode_sparse_eq_spec' is kw hne hs]
  simp only
  rw [List.nodup_append] at hk
  obtain ⟨hk1, _, hk3⟩ := hk
  rw [dictOf_of_nodup_keys _ hk1]
  by_cases hc : constant is ≠ 0
  · rw [if_pos hc, if_pos hc] at *
    rw [dictSet_not_mem]
    intro hm
    exact hk3 "const" hm "const" (by simp) rfl
  · rw [if_neg hc, if_neg hc]; simp


/-! ## Part 9 (phase 2): the callers' term lists -/

theorem mem_strTerms (l : List Inter) (t : List Char) : t ∈ strTerms l ↔ Inter.term t ∈ l := by
  induction l with
  | nil => simp [strTerms]
  | cons i l ih =>
    cases i with
    | num q => simp [strTerms, ih]
    | term u => simp [strTerms, ih]

theorem learner_terms_nonempty' (fs : List Inter) :
    ∀ t ∈ strTerms (learnerTerms false fs), t ≠ [] := by
  intro t ht
  rw [mem_strTerms] at ht
  simp only [learnerTerms, Bool.false_eq_true, if_false] at ht
  rw [mem_dedupFirst, List.mem_filter] at ht
  intro h
  subst h
  simp [Inter.truthy] at ht

theorem synthetic_terms_nonempty' (nCtx nAct : Nat) (fs : List (List Char)) :
    ∀ t ∈ strTerms (syntheticTerms nCtx nAct fs), t ≠ [] := by
  intro t ht
  rw [mem_strTerms] at ht
  simp only [syntheticTerms, List.mem_map] at ht
  obtain ⟨u, hu, hut⟩ := ht
  cases hut
  rw [mem_dedupFirst, List.mem_filter] at hu
  intro h
  subst h
  simp at hu

theorem wellformed_nonempty (is : List Inter) (h : wellformedTerms is = true) :
    ∀ t ∈ strTerms is, t ≠ [] := by
  intro t ht he
  subst he
  unfold wellformedTerms at h
  rw [List.all_eq_true] at h
  have := h [] ht
  simp at this

theorem learner_encode_eq_spec' (fs : List Inter) (kw : List (Char × NsVal)) :
    encode Cfg.fixed (learnerTerms false fs) kw = .ok (encodeS (learnerTerms false fs) kw) :=
  encode_eq_spec' _ kw (learner_terms_nonempty' fs)

theorem synthetic_encode_eq_spec' (nCtx nAct : Nat) (fs : List (List Char)) (kw : List (Char × NsVal)) :
    encode Cfg.fixed (syntheticTerms nCtx nAct fs) kw = .ok (encodeS (syntheticTerms nCtx nAct fs) kw) :=
  encode_eq_spec' _ kw (synthetic_terms_nonempty' nCtx nAct fs)

theorem wellformed_encode_eq_spec' (is : List Inter) (kw : List (Char × NsVal)) (h : wellformedTerms is = true) :
    encode Cfg.fixed is kw = .ok (encodeS is kw) :=
  encode_eq_spec' is kw (wellformed_nonempty is h)


/-! ## Part 10 (phase 2): floating-point products, standard model -/

/-- standard model of floating-point multiplication with unit roundoff `u` (no under/overflow):
the result is the exact product times `1+ε` with `|ε| ≤ u`, and multiplying by `1` is exact -/
def FloatMul (u : Rat) (fmul : Rat → Rat → Rat) : Prop :=
  (∀ a, fmul a 1 = a) ∧ ∀ a b, ∃ ε, -u ≤ ε ∧ ε ≤ u ∧ fmul a b = a * b * (1 + ε)

/-- `x` equals `y` up to `m` roundings: `x = y·δ` with `(1-u)^m ≤ δ ≤ (1+u)^m` -/
def Approx (u : Rat) (m : Nat) (x y : Rat) : Prop :=
  ∃ δ, x = y * δ ∧ (1 - u) ^ m ≤ δ ∧ δ ≤ (1 + u) ^ m

theorem approx_refl (u : Rat) (x : Rat) : Approx u 0 x x := ⟨1, by ring, by simp, by simp⟩

theorem approx_mono {u : Rat} (h0 : 0 ≤ u) (h1 : u ≤ 1) {m m' : Nat} (h : m ≤ m') {x y : Rat}
    (hx : Approx u m x y) : Approx u m' x y := by
  obtain ⟨δ, hδ, hl, hr⟩ := hx
  refine ⟨δ, hδ, ?_, ?_⟩
  · exact le_trans (pow_le_pow_of_le_one (by linarith) (by linarith) h) hl
  · exact le_trans hr (pow_le_pow_right₀ (by linarith) h)

theorem approx_mul {u : Rat} {fmul : Rat → Rat → Rat} (hf : FloatMul u fmul) (h0 : 0 ≤ u) (h1 : u ≤ 1)
    {m1 m2 : Nat} {x y x' y' : Rat} (hx : Approx u m1 x y) (hx' : Approx u m2 x' y') :
    Approx u (m1 + m2 + 1) (fmul x x') (y * y') := by
  obtain ⟨δ1, rfl, l1, r1⟩ := hx
  obtain ⟨δ2, rfl, l2, r2⟩ := hx'
  obtain ⟨ε, e1, e2, he⟩ := hf.2 (y * δ1) (y' * δ2)
  have a0 : (0 : Rat) ≤ 1 - u := by linarith
  have p1 : (0 : Rat) ≤ (1 - u) ^ m1 := pow_nonneg a0 _
  have p2 : (0 : Rat) ≤ (1 - u) ^ m2 := pow_nonneg a0 _
  have d1 : 0 ≤ δ1 := le_trans p1 l1
  have d2 : 0 ≤ δ2 := le_trans p2 l2
  refine ⟨δ1 * δ2 * (1 + ε), by rw [he]; ring, ?_, ?_⟩
  · rw [pow_succ, pow_add]
    apply mul_le_mul (mul_le_mul l1 l2 p2 d1) (by linarith) a0 (mul_nonneg d1 d2)
  · rw [pow_succ, pow_add]
    have q1 : (0 : Rat) ≤ (1 + u) ^ m1 := pow_nonneg (by linarith) _
    have q2 : (0 : Rat) ≤ (1 + u) ^ m2 := pow_nonneg (by linarith) _
    apply mul_le_mul (mul_le_mul r1 r2 d2 q1) (by linarith) (by linarith) (mul_nonneg q1 q2)

/-- the usual form: relative error at most `(1+u)^m - 1` -/
theorem approx_abs {u : Rat} (h0 : 0 ≤ u) (h1 : u ≤ 1) {m : Nat} {x y : Rat} (h : Approx u m x y) :
    |x - y| ≤ ((1 + u) ^ m - 1) * |y| := by
  obtain ⟨δ, rfl, l, r⟩ := h
  have hb1 : 1 + (m : Rat) * u ≤ (1 + u) ^ m := one_add_mul_le_pow (by linarith) m
  have hb2 : 1 + (m : Rat) * (-u) ≤ (1 + -u) ^ m := one_add_mul_le_pow (by linarith) m
  have hb2' : 1 - (m : Rat) * u ≤ (1 - u) ^ m := by simpa [sub_eq_add_neg] using hb2
  have : y * δ - y = y * (δ - 1) := by ring
  rw [this, abs_mul, mul_comm]
  apply mul_le_mul_of_nonneg_right _ (abs_nonneg y)
  rw [abs_le]
  constructor <;> linarith

section
variable {u : Rat} {fmul : Rat → Rat → Rat}

theorem monoProd_approx (hf : FloatMul u fmul) (h0 : 0 ≤ u) (h1 : u ≤ 1) :
    ∀ c : List Rat, Approx u (c.length - 1) (monoProd fmul 1 c) (monoProd ratMul 1 c) := by
  intro c
  induction c with
  | nil => exact approx_refl u 1
  | cons v r ih =>
    cases r with
    | nil =>
      simp only [monoProd, List.length_cons, List.length_nil]
      rw [hf.1 v]
      have : ratMul v 1 = v := by simp [ratMul]
      rw [this]
      exact approx_refl u v
    | cons w r =>
      have := approx_mul hf h0 h1 (approx_refl u v) ih
      simp only [List.length_cons] at this ⊢
      have e : (0 + (r.length + 1 - 1) + 1) = r.length + 1 + 1 - 1 := by omega
      rw [e] at this
      exact this

theorem forall₂_map_same {α : Type} {R : Rat → Rat → Prop} (f g : α → Rat) :
    ∀ l : List α, (∀ a ∈ l, R (f a) (g a)) → List.Forall₂ R (l.map f) (l.map g) := by
  intro l
  induction l with
  | nil => intro _; exact List.Forall₂.nil
  | cons a l ih =>
    intro h
    exact List.Forall₂.cons (h a List.mem_cons_self) (ih (fun b hb => h b (List.mem_cons_of_mem _ hb)))

theorem monos_approx (hf : FloatMul u fmul) (h0 : 0 ≤ u) (h1 : u ≤ 1) (k : Nat) (xs : List Rat) :
    List.Forall₂ (Approx u (k - 1)) (monos fmul 1 k xs) (monos ratMul 1 k xs) := by
  unfold monos
  apply forall₂_map_same
  intro c hc
  have := monoProd_approx hf h0 h1 c
  rw [(multichoose_sound k xs c hc).1] at this
  exact this

theorem outer_approx (hf : FloatMul u fmul) (h0 : 0 ≤ u) (h1 : u ≤ 1) {m1 m2 : Nat} :
    ∀ {A A' : List Rat}, List.Forall₂ (Approx u m1) A A' → ∀ {B B' : List Rat}, List.Forall₂ (Approx u m2) B B' →
      List.Forall₂ (Approx u (m1 + m2 + 1)) (outer fmul A B) (outer ratMul A' B') := by
  intro A A' hA
  induction hA with
  | nil => intro B B' _; exact List.Forall₂.nil
  | @cons a a' A A' ha _ ih =>
    intro B B' hB
    simp only [outer, List.flatMap_cons]
    apply List.rel_append
    · clear ih
      induction hB with
      | nil => exact List.Forall₂.nil
      | cons hb _ ihb => exact List.Forall₂.cons (approx_mul hf h0 h1 ha hb) ihb
    · exact ih hB

theorem foldl_outer_approx (hf : FloatMul u fmul) (h0 : 0 ≤ u) (h1 : u ≤ 1) (F : Char → List Rat) :
    ∀ (cp : List (Char × Nat)), (∀ kp ∈ cp, 1 ≤ kp.2) → ∀ (m : Nat) (acc acc' : List Rat),
      List.Forall₂ (Approx u m) acc acc' →
      List.Forall₂ (Approx u (m + (cp.map (·.2)).sum))
        ((cp.map (fun kp => monos fmul 1 kp.2 (F kp.1))).foldl (outer fmul) acc)
        ((cp.map (fun kp => monos ratMul 1 kp.2 (F kp.1))).foldl (outer ratMul) acc') := by
  intro cp
  induction cp with
  | nil => intro _ m acc acc' h; simpa using h
  | cons kp cp ih =>
    intro hp m acc acc' h
    simp only [List.map_cons, List.foldl, List.sum_cons]
    have hk := hp kp List.mem_cons_self
    have := outer_approx hf h0 h1 h (monos_approx hf h0 h1 kp.2 (F kp.1))
    have e : m + (kp.2 - 1) + 1 = m + kp.2 := by omega
    rw [e] at this
    have r := ih (fun q hq => hp q (List.mem_cons_of_mem _ hq)) (m + kp.2) _ _ this
    rw [Nat.add_assoc] at r
    exact r

theorem sum_factors (t : List Char) : ((factors t).map (·.2)).sum = t.length := by
  unfold factors
  rw [List.map_map]
  have hp : (dedupFirst t).Perm t.dedup :=
    (List.perm_ext_iff_of_nodup (nodup_dedupFirst t) (List.nodup_dedup t)).2
      (fun a => by rw [mem_dedupFirst, List.mem_dedup])
  have := (hp.map (fun c => t.count c)).sum_eq
  simp only [Function.comp_def]
  rw [this]
  exact List.sum_map_count_dedup_eq_length t

theorem termS_approx (hf : FloatMul u fmul) (h0 : 0 ≤ u) (h1 : u ≤ 1) (F : Char → List Rat)
    (t : List Char) (ht : t ≠ []) :
    List.Forall₂ (Approx u (t.length - 1)) (termS fmul 1 F t) (termS ratMul 1 F t) := by
  unfold termS
  have hs := sum_factors t
  have hpos : ∀ kp ∈ factors t, 1 ≤ kp.2 := fun kp hkp => (mem_factors t kp hkp).2.2.1
  cases hfac : factors t with
  | nil => exact absurd hfac (factors_ne_nil t ht)
  | cons kp cp =>
    rw [hfac] at hs hpos
    simp only [List.map_cons, outerAll]
    have r := foldl_outer_approx hf h0 h1 F cp (fun q hq => hpos q (List.mem_cons_of_mem _ hq)) (kp.2 - 1) _ _
      (monos_approx hf h0 h1 kp.2 (F kp.1))
    have hk := hpos kp List.mem_cons_self
    simp only [List.map_cons, List.sum_cons] at hs
    have e : kp.2 - 1 + (cp.map (·.2)).sum = t.length - 1 := by omega
    rw [e] at r
    exact r

def maxDeg (is : List Inter) : Nat := (strTerms is).foldl (fun m t => max m t.length) 0

theorem termsS_approx (hf : FloatMul u fmul) (h0 : 0 ≤ u) (h1 : u ≤ 1) (F : Char → List Rat) (D : Nat) :
    ∀ (ts : List (List Char)), (∀ t ∈ ts, t ≠ [] ∧ t.length ≤ D) →
      List.Forall₂ (Approx u (D - 1)) (termsS fmul 1 F ts) (termsS ratMul 1 F ts) := by
  intro ts
  induction ts with
  | nil => intro _; exact List.Forall₂.nil
  | cons t ts ih =>
    intro h
    simp only [termsS, List.flatMap_cons]
    apply List.rel_append
    · have ht := h t List.mem_cons_self
      have := termS_approx hf h0 h1 F t ht.1
      exact this.imp (fun _ _ hxy => approx_mono h0 h1 (by omega) hxy)
    · exact ih (fun t' h' => h t' (List.mem_cons_of_mem _ h'))

theorem encode_float_model' (hf : FloatMul u fmul) (h0 : 0 ≤ u) (h1 : u ≤ 1)
    (is : List Inter) (kw : List (Char × NsVal))
    (hne : ∀ t ∈ strTerms is, t ≠ []) (hd : isSparseCall kw = false) :
    ∃ vs vs' : List Rat,
      encodeG fmul Cfg.fixed is kw = .ok (.dense ((if constant is ≠ 0 then [constant is] else []) ++ vs)) ∧
      encode Cfg.fixed is kw = .ok (.dense ((if constant is ≠ 0 then [constant is] else []) ++ vs')) ∧
      List.Forall₂ (Approx u (maxDeg is - 1)) vs vs' := by
  refine ⟨termsS fmul 1 (featsDense kw) (dedupFirst (strTerms is)),
          termsS ratMul 1 (featsDense kw) (dedupFirst (strTerms is)), ?_, ?_, ?_⟩
  · rw [encodeG_eq_spec fmul is kw hne, encodeSG, hd]
    by_cases hc : constant is ≠ 0 <;> simp [hc]
  · rw [encode_eq_spec' is kw hne, encodeS, hd]
    by_cases hc : constant is ≠ 0 <;> simp [hc]
  · apply termsS_approx hf h0 h1
    intro t ht
    have hm := (mem_dedupFirst _ _).1 ht
    exact ⟨hne t hm, foldl_max_ge_mem (fun t : List Char => t.length) (strTerms is) 0 t hm⟩

/-- IEEE double precision: `u = 2^-53` satisfies the side conditions -/
theorem u53_ok : (0 : Rat) ≤ 1 / 2 ^ 53 ∧ (1 : Rat) / 2 ^ 53 ≤ 1 := by norm_num

/-! sparse: same names, values up to the same number of roundings -/
def PairRel (R : Rat → Rat → Prop) (p q : String × Rat) : Prop := p.1 = q.1 ∧ R p.2 q.2

theorem dictSet_rel {R : Rat → Rat → Prop} (k : String) {v v' : Rat} (hv : R v v') :
    ∀ {d d' : List (String × Rat)}, List.Forall₂ (PairRel R) d d' →
      List.Forall₂ (PairRel R) (dictSet k v d) (dictSet k v' d') := by
  intro d d' h
  induction h with
  | nil => exact List.Forall₂.cons ⟨rfl, hv⟩ List.Forall₂.nil
  | @cons p q d d' hpq _ ih =>
    obtain ⟨pk, pv⟩ := p
    obtain ⟨qk, qv⟩ := q
    obtain ⟨hk, hr⟩ := hpq
    simp only at hk
    subst hk
    simp only [dictSet]
    by_cases he : pk = k
    · rw [if_pos he, if_pos he]; exact List.Forall₂.cons ⟨rfl, hv⟩ (by assumption)
    · rw [if_neg he, if_neg he]; exact List.Forall₂.cons ⟨rfl, hr⟩ ih

theorem dictOf_rel {R : Rat → Rat → Prop} :
    ∀ {l l' : List (String × Rat)}, List.Forall₂ (PairRel R) l l' →
      ∀ {d d' : List (String × Rat)}, List.Forall₂ (PairRel R) d d' →
      List.Forall₂ (PairRel R) (l.foldl (fun d kv => dictSet kv.1 kv.2 d) d) (l'.foldl (fun d kv => dictSet kv.1 kv.2 d) d') := by
  intro l l' h
  induction h with
  | nil => intro d d' hd; exact hd
  | @cons p q l l' hpq _ ih =>
    intro d d' hd
    simp only [List.foldl]
    apply ih
    rw [hpq.1]
    exact dictSet_rel q.1 hpq.2 hd

theorem pairRel_of_maps {R : Rat → Rat → Prop} :
    ∀ (l l' : List (String × Rat)), l.map (·.1) = l'.map (·.1) → List.Forall₂ R (l.map (·.2)) (l'.map (·.2)) →
      List.Forall₂ (PairRel R) l l' := by
  intro l
  induction l with
  | nil => intro l' hk _; cases l' with
    | nil => exact List.Forall₂.nil
    | cons q l' => simp at hk
  | cons p l ih =>
    intro l' hk hv
    cases l' with
    | nil => simp at hk
    | cons q l' =>
      simp only [List.map_cons, List.cons.injEq] at hk
      simp only [List.map_cons, List.forall₂_cons] at hv
      exact List.Forall₂.cons ⟨hk.1, hv.1⟩ (ih l' hk.2 hv.2)

theorem encode_float_model_sparse' (hf : FloatMul u fmul) (h0 : 0 ≤ u) (h1 : u ≤ 1)
    (is : List Inter) (kw : List (Char × NsVal))
    (hne : ∀ t ∈ strTerms is, t ≠ []) (hs : isSparseCall kw = true) :
    ∃ kvs kvs' : List (String × Rat),
      encodeG fmul Cfg.fixed is kw = .ok (.sparse kvs) ∧ encode Cfg.fixed is kw = .ok (.sparse kvs') ∧
      List.Forall₂ (PairRel (Approx u (maxDeg is - 1))) kvs kvs' := by
  have hterms : ∀ t ∈ dedupFirst (strTerms is), t ≠ [] ∧ t.length ≤ maxDeg is := by
    intro t ht
    have hm := (mem_dedupFirst _ _).1 ht
    exact ⟨hne t hm, foldl_max_ge_mem (fun t : List Char => t.length) (strTerms is) 0 t hm⟩
  have hent : List.Forall₂ (PairRel (Approx u (maxDeg is - 1)))
      (termsS (pairMulG fmul) pairOne (featsSparse kw) (dedupFirst (strTerms is)))
      (termsS pairMul pairOne (featsSparse kw) (dedupFirst (strTerms is))) := by
    apply pairRel_of_maps
    · rw [termsS_map (pairMulG fmul) pairOne strMul "" (·.1) (fun _ _ => rfl) rfl,
          termsS_map pairMul pairOne strMul "" (·.1) (fun _ _ => rfl) rfl]
    · rw [termsS_map (pairMulG fmul) pairOne fmul 1 (·.2) (fun _ _ => rfl) rfl,
          termsS_map pairMul pairOne ratMul 1 (·.2) (fun _ _ => rfl) rfl]
      exact termsS_approx hf h0 h1 _ _ _ hterms
  have hdict := dictOf_rel hent (List.Forall₂.nil (R := PairRel (Approx u (maxDeg is - 1))))
  by_cases hc : constant is ≠ 0
  · refine ⟨_, _, ?_, ?_, dictSet_rel "const" (approx_mono h0 h1 (Nat.zero_le _) (approx_refl u (constant is))) hdict⟩
    · rw [encodeG_eq_spec fmul is kw hne, encodeSG, hs]; simp [hc, dictOf]
    · rw [encode_eq_spec' is kw hne, encodeS, hs]; simp [hc, dictOf]
  · refine ⟨_, _, ?_, ?_, hdict⟩
    · rw [encodeG_eq_spec fmul is kw hne, encodeSG, hs]; simp [hc, dictOf]
    · rw [encode_eq_spec' is kw hne, encodeS, hs]; simp [hc, dictOf]
end

theorem floatMul_exact (u : Rat) (h0 : 0 ≤ u) : FloatMul u ratMul :=
  ⟨fun a => by simp [ratMul], fun a b => ⟨0, by linarith, h0, by simp [ratMul]⟩⟩

/-! ## Part 11 (phase 3): exact float products on dyadic inputs -/

/-- degree-graded exact multiplication: `P k x` says "x is a product of k inputs that is still exactly
representable"; the unit has degree 0 and multiplying two such numbers of total degree ≤ D is exact -/
def Graded (P : Nat → Rat → Prop) (D : Nat) (fmul : Rat → Rat → Rat) : Prop :=
  P 0 1 ∧ ∀ a b x y, P a x → P b y → a + b ≤ D → fmul x y = x * y ∧ P (a + b) (x * y)

section
variable {P : Nat → Rat → Prop} {D : Nat} {fmul : Rat → Rat → Rat}

theorem monoProd_graded (hg : Graded P D fmul) :
    ∀ c : List Rat, (∀ v ∈ c, P 1 v) → c.length ≤ D →
      monoProd fmul 1 c = monoProd ratMul 1 c ∧ P c.length (monoProd ratMul 1 c) := by
  intro c
  induction c with
  | nil => intro _ _; exact ⟨rfl, hg.1⟩
  | cons v r ih =>
    intro hv hl
    simp only [List.length_cons] at hl
    obtain ⟨e, p⟩ := ih (fun w hw => hv w (List.mem_cons_of_mem _ hw)) (by omega)
    have := hg.2 1 r.length v (monoProd ratMul 1 r) (hv v List.mem_cons_self) p (by omega)
    simp only [monoProd, List.length_cons]
    rw [e]
    refine ⟨this.1, ?_⟩
    have h2 := this.2
    rw [Nat.add_comm] at h2
    exact h2

theorem monos_graded (hg : Graded P D fmul) (xs : List Rat) (hx : ∀ v ∈ xs, P 1 v) (k : Nat) (hk : k ≤ D) :
    monos fmul 1 k xs = monos ratMul 1 k xs ∧ ∀ y ∈ monos ratMul 1 k xs, P k y := by
  unfold monos
  constructor
  · apply List.map_congr_left
    intro c hc
    obtain ⟨hl, hm⟩ := multichoose_sound k xs c hc
    exact (monoProd_graded hg c (fun v hv => hx v (hm v hv)) (by omega)).1
  · intro y hy
    rw [List.mem_map] at hy
    obtain ⟨c, hc, rfl⟩ := hy
    obtain ⟨hl, hm⟩ := multichoose_sound k xs c hc
    have := (monoProd_graded hg c (fun v hv => hx v (hm v hv)) (by omega)).2
    rw [hl] at this
    exact this

theorem outer_graded (hg : Graded P D fmul) {a b : Nat} (hab : a + b ≤ D) :
    ∀ (A B : List Rat), (∀ x ∈ A, P a x) → (∀ y ∈ B, P b y) →
      outer fmul A B = outer ratMul A B ∧ ∀ z ∈ outer ratMul A B, P (a + b) z := by
  intro A B hA hB
  constructor
  · unfold outer
    apply List.flatMap_congr
    intro x hx
    apply List.map_congr_left
    intro y hy
    exact (hg.2 a b x y (hA x hx) (hB y hy) hab).1
  · intro z hz
    simp only [outer, List.mem_flatMap, List.mem_map] at hz
    obtain ⟨x, hx, y, hy, rfl⟩ := hz
    exact (hg.2 a b x y (hA x hx) (hB y hy) hab).2

theorem foldl_outer_graded (hg : Graded P D fmul) (F : Char → List Rat) (hF : ∀ c, ∀ v ∈ F c, P 1 v) :
    ∀ (cp : List (Char × Nat)) (m : Nat) (acc : List Rat), (∀ x ∈ acc, P m x) → m + (cp.map (·.2)).sum ≤ D →
      (cp.map (fun kp => monos fmul 1 kp.2 (F kp.1))).foldl (outer fmul) acc
        = (cp.map (fun kp => monos ratMul 1 kp.2 (F kp.1))).foldl (outer ratMul) acc := by
  intro cp
  induction cp with
  | nil => intro m acc _ _; rfl
  | cons kp cp ih =>
    intro m acc hacc hs
    simp only [List.map_cons, List.sum_cons] at hs
    simp only [List.map_cons, List.foldl]
    obtain ⟨e1, p1⟩ := monos_graded hg (F kp.1) (hF kp.1) kp.2 (by omega)
    obtain ⟨e2, p2⟩ := outer_graded hg (a := m) (b := kp.2) (by omega) acc (monos ratMul 1 kp.2 (F kp.1)) hacc p1
    rw [e1, e2]
    exact ih (m + kp.2) _ p2 (by omega)

theorem termS_graded (hg : Graded P D fmul) (F : Char → List Rat) (hF : ∀ c, ∀ v ∈ F c, P 1 v)
    (t : List Char) (ht : t.length ≤ D) : termS fmul 1 F t = termS ratMul 1 F t := by
  unfold termS
  have hs := sum_factors t
  cases hfac : factors t with
  | nil => rfl
  | cons kp cp =>
    rw [hfac] at hs
    simp only [List.map_cons, List.sum_cons] at hs
    simp only [List.map_cons, outerAll]
    obtain ⟨e1, p1⟩ := monos_graded hg (F kp.1) (hF kp.1) kp.2 (by omega)
    rw [e1]
    exact foldl_outer_graded hg F hF cp kp.2 _ p1 (by omega)

theorem termsS_graded (hg : Graded P D fmul) (F : Char → List Rat) (hF : ∀ c, ∀ v ∈ F c, P 1 v)
    (ts : List (List Char)) (ht : ∀ t ∈ ts, t.length ≤ D) : termsS fmul 1 F ts = termsS ratMul 1 F ts := by
  unfold termsS
  apply List.flatMap_congr
  intro t h
  exact termS_graded hg F hF t (ht t h)

theorem pairs_ext : ∀ (l l' : List (String × Rat)), l.map (·.1) = l'.map (·.1) → l.map (·.2) = l'.map (·.2) → l = l' := by
  intro l
  induction l with
  | nil => intro l' h _; cases l' with
    | nil => rfl
    | cons q l' => simp at h
  | cons p l ih =>
    intro l' hk hv
    cases l' with
    | nil => simp at hk
    | cons q l' =>
      simp only [List.map_cons, List.cons.injEq] at hk hv
      rw [ih l' hk.2 hv.2]
      congr 1
      exact Prod.ext hk.1 hv.1

/-- exact multiplication on everything that occurs ⇒ the float encoder IS the exact encoder -/
theorem encode_graded_exact (hg : Graded P D fmul) (is : List Inter) (kw : List (Char × NsVal))
    (hne : ∀ t ∈ strTerms is, t ≠ []) (hD : maxDeg is ≤ D)
    (hd : ∀ c, ∀ v ∈ featsDense kw c, P 1 v) (hs : ∀ c, ∀ p ∈ featsSparse kw c, P 1 p.2) :
    encodeG fmul Cfg.fixed is kw = encode Cfg.fixed is kw := by
  rw [encodeG_eq_spec fmul is kw hne, encode_eq_spec' is kw hne]
  have hterms : ∀ t ∈ dedupFirst (strTerms is), t.length ≤ D := by
    intro t ht
    exact le_trans (foldl_max_ge_mem (fun t : List Char => t.length) (strTerms is) 0 t ((mem_dedupFirst _ _).1 ht)) hD
  congr 1
  unfold encodeSG encodeS
  have e1 : termsS fmul 1 (featsDense kw) (dedupFirst (strTerms is)) = termsS ratMul 1 (featsDense kw) (dedupFirst (strTerms is)) :=
    termsS_graded hg _ hd _ hterms
  have e2 : termsS (pairMulG fmul) pairOne (featsSparse kw) (dedupFirst (strTerms is))
      = termsS pairMul pairOne (featsSparse kw) (dedupFirst (strTerms is)) := by
    apply pairs_ext
    · rw [termsS_map (pairMulG fmul) pairOne strMul "" (·.1) (fun _ _ => rfl) rfl,
          termsS_map pairMul pairOne strMul "" (·.1) (fun _ _ => rfl) rfl]
    · rw [termsS_map (pairMulG fmul) pairOne fmul 1 (·.2) (fun _ _ => rfl) rfl,
          termsS_map pairMul pairOne ratMul 1 (·.2) (fun _ _ => rfl) rfl]
      apply termsS_graded hg _ _ _ hterms
      intro c v hv
      rw [List.mem_map] at hv
      obtain ⟨p, hp, rfl⟩ := hv
      exact hs c p hp
  simp only [e1, e2]
end

/-! ## Part 11b (phase 3): dyadic numbers -/

/-- `x = m·2^e` with `|m| ≤ M`, `|e| ≤ E` -/
def Dy (M E : Nat) (x : Rat) : Prop :=
  ∃ m e : Int, |m| ≤ (M : Int) ∧ |e| ≤ (E : Int) ∧ x = (m : Rat) * (2 : Rat) ^ e

/-- what correct rounding guarantees: a product that is itself a double (53-bit significand,
exponent within ±970 so that no under/overflow is near) is returned exactly -/
def ExactOn (fmul : Rat → Rat → Rat) : Prop :=
  ∀ a b, Dy (2 ^ 53) 970 (a * b) → fmul a b = a * b

theorem dy_one (M E : Nat) (hM : 1 ≤ M) : Dy M E 1 :=
  ⟨1, 0, by simpa using hM, by simp, by simp⟩

theorem dy_mul {M1 E1 M2 E2 : Nat} {x y : Rat} (hx : Dy M1 E1 x) (hy : Dy M2 E2 y) :
    Dy (M1 * M2) (E1 + E2) (x * y) := by
  obtain ⟨m, e, hm, he, rfl⟩ := hx
  obtain ⟨n, f, hn, hf, rfl⟩ := hy
  refine ⟨m * n, e + f, ?_, ?_, ?_⟩
  · rw [abs_mul]; push_cast
    exact mul_le_mul hm hn (abs_nonneg _) (by exact_mod_cast Nat.zero_le M1)
  · push_cast; exact le_trans (abs_add_le e f) (add_le_add he hf)
  · rw [zpow_add₀ (by norm_num : (2 : Rat) ≠ 0)]; push_cast; ring

theorem dy_mono {M E M' E' : Nat} (hM : M ≤ M') (hE : E ≤ E') {x : Rat} (h : Dy M E x) : Dy M' E' x := by
  obtain ⟨m, e, hm, he, rfl⟩ := h
  exact ⟨m, e, le_trans hm (by exact_mod_cast hM), le_trans he (by exact_mod_cast hE), rfl⟩

theorem graded_of_exactOn {fmul : Rat → Rat → Rat} (hf : ExactOn fmul) (M E D : Nat) (hM : 1 ≤ M)
    (hb : M ^ D ≤ 2 ^ 53) (he : D * E ≤ 970) :
    Graded (fun k x => Dy (M ^ k) (k * E) x) D fmul := by
  refine ⟨by simpa using dy_one 1 0 (le_refl 1), ?_⟩
  intro a b x y hx hy hab
  have hp : Dy (M ^ (a + b)) ((a + b) * E) (x * y) := by
    have := dy_mul hx hy
    rw [← pow_add, ← Nat.add_mul] at this
    exact this
  refine ⟨hf x y (dy_mono (le_trans (Nat.pow_le_pow_right hM hab) hb) (le_trans (Nat.mul_le_mul_right E hab) he) hp), hp⟩


theorem encode_float_exact_dyadic' {fmul : Rat → Rat → Rat} (hf : ExactOn fmul) (M E : Nat) (hM : 1 ≤ M)
    (is : List Inter) (kw : List (Char × NsVal)) (hne : ∀ t ∈ strTerms is, t ≠ [])
    (hb : M ^ maxDeg is ≤ 2 ^ 53) (he : maxDeg is * E ≤ 970)
    (hd : ∀ c, ∀ v ∈ featsDense kw c, Dy M E v) (hs : ∀ c, ∀ p ∈ featsSparse kw c, Dy M E p.2) :
    encodeG fmul Cfg.fixed is kw = encode Cfg.fixed is kw := by
  apply encode_graded_exact (graded_of_exactOn hf M E (maxDeg is) hM hb he) is kw hne (le_refl _)
  · intro c v hv; simpa using hd c v hv
  · intro c p hp; simpa using hs c p hp

theorem exactOn_ratMul : ExactOn ratMul := fun _ _ _ => rfl

theorem dyadic_example :
    (∀ c, ∀ v ∈ featsDense [('x', .dense [.num (3 / 2), .num (11 / 4)])] c, Dy 11 2 v)
    ∧ (∀ c, ∀ p ∈ featsSparse [('x', .dense [.num (3 / 2), .num (11 / 4)])] c, Dy 11 2 p.2)
    ∧ 11 ^ maxDeg [.term ['x', 'x', 'x']] ≤ 2 ^ 53 ∧ maxDeg [.term ['x', 'x', 'x']] * 2 ≤ 970 := by
  have h1 : Dy 11 2 (3 / 2) := ⟨3, -1, by norm_num, by norm_num, by norm_num⟩
  have h2 : Dy 11 2 (11 / 4) := ⟨11, -2, by norm_num, by norm_num, by norm_num⟩
  refine ⟨?_, ?_, by decide, by decide⟩
  · intro c v hv
    by_cases h : 'x' = c
    · subst h
      have : featsDense [('x', .dense [.num (3 / 2), .num (11 / 4)])] 'x' = [3 / 2, 11 / 4] := by decide +kernel
      rw [this] at hv
      simp at hv
      rcases hv with rfl | rfl <;> assumption
    · simp [featsDense, nsVal, dictGet, h, denseVals] at hv
  · intro c p hp
    by_cases h : 'x' = c
    · subst h
      have : featsSparse [('x', .dense [.num (3 / 2), .num (11 / 4)])] 'x' = [("x0", 3 / 2), ("x1", 11 / 4)] := by decide +kernel
      rw [this] at hp
      simp at hp
      rcases hp with rfl | rfl <;> assumption
    · simp [featsSparse, nsVal, dictGet, h, sparseFeats_none] at hp


/-! ## Part 12 (phase 3): order of the term list; argument shapes -/
theorem termsS_perm {α : Type} (mul : α → α → α) (one : α) (F : Char → List α) {ts ts' : List (List Char)}
    (h : ts.Perm ts') : (termsS mul one F ts).Perm (termsS mul one F ts') := by
  unfold termsS
  exact h.flatMap_right _

theorem linear_score_perm (l l' : List (Rat × Rat)) (h : l.Perm l') :
    (l.map (fun p => p.1 * p.2)).sum = (l'.map (fun p => p.1 * p.2)).sum :=
  (h.map _).sum_eq

theorem named_score_order_invariant (w : String → Rat) (F : Char → List (String × Rat)) {ts ts' : List (List Char)}
    (h : ts.Perm ts') :
    ((termsS pairMul pairOne F ts).map (fun kv => w kv.1 * kv.2)).sum
      = ((termsS pairMul pairOne F ts').map (fun kv => w kv.1 * kv.2)).sum :=
  ((termsS_perm pairMul pairOne F h).map _).sum_eq

theorem normalise_wrapStr (s : Shape) : normalise [Norm.wrapStr] s = s.meaning := by cases s <;> rfl
theorem normalise_asIs_wrapStr (s : Shape) : normalise [Norm.asIs, Norm.wrapStr] s = s.meaning := by cases s <;> rfl
theorem normalise_asIs_seq (ts : List Inter) :
    normalise [Norm.asIs] (.list ts) = ts ∧ normalise [Norm.asIs] (.tuple ts) = ts := ⟨rfl, rfl⟩
/-- the shape of round d's seeded change: `list(...)` before the constructor splits a bare str -/
theorem normalise_listOf_splits : normalise [Norm.listOf, Norm.wrapStr] (.str ['x', 'a']) ≠ (Shape.str ['x', 'a']).meaning := by decide

section LinUCB

/-! ## LinUCB: permutation equivariance of the linear algebra -/

theorem lin_zipWith_map_map {α β γ : Type} (g : α → β → γ) (a : Nat → α) (b : Nat → β) (p : List Nat) :
    List.zipWith g (p.map a) (p.map b) = p.map (fun i => g (a i) (b i)) := by
  induction p with
  | nil => rfl
  | cons x xs ih => simp [ih]

theorem lin_getD_map_of_lt {α β : Type} (g : α → β) (l : List α) (i : Nat) (d : α) (d' : β)
    (h : i < l.length) : (l.map g).getD i d' = g (l.getD i d) := by
  simp [List.getD_eq_getElem?_getD, List.getElem?_eq_getElem h]

theorem lin_getD_zipWith_of_lt {α β γ : Type} (g : α → β → γ) (l₁ : List α) (l₂ : List β) (i : Nat)
    (d₁ : α) (d₂ : β) (d : γ) (h₁ : i < l₁.length) (h₂ : i < l₂.length) :
    (List.zipWith g l₁ l₂).getD i d = g (l₁.getD i d₁) (l₂.getD i d₂) := by
  simp [List.getD_eq_getElem?_getD, List.getElem?_eq_getElem h₁, List.getElem?_eq_getElem h₂,
    List.getElem?_zipWith]

theorem lin_perm_lt {p : List Nat} {n : Nat} (hp : p.Perm (List.range n)) : ∀ i ∈ p, i < n := by
  intro i hi
  exact List.mem_range.mp (hp.mem_iff.mp hi)

theorem length_permV (p : List Nat) (v : List Rat) : (permV p v).length = p.length := by
  simp [permV]

theorem zipWith_permV (g : Rat → Rat → Rat) {p : List Nat} {n : Nat} (hp : ∀ i ∈ p, i < n)
    {u v : List Rat} (hu : u.length = n) (hv : v.length = n) :
    List.zipWith g (permV p u) (permV p v) = permV p (List.zipWith g u v) := by
  unfold permV
  rw [lin_zipWith_map_map]
  apply List.map_congr_left
  intro i hi
  have := hp i hi
  rw [lin_getD_zipWith_of_lt g u v i 0 0 0 (by omega) (by omega)]

theorem zipWith_mul_eq_range {n : Nat} {u v : List Rat} (hu : u.length = n) (hv : v.length = n) :
    List.zipWith (· * ·) u v = (List.range n).map (fun i => u.getD i 0 * v.getD i 0) := by
  apply List.ext_getElem
  · simp [hu, hv]
  · intro i h1 h2
    have h3 : i < n := by simpa using h2
    simp [List.getD_eq_getElem?_getD, List.getElem?_eq_getElem (show i < u.length by omega),
      List.getElem?_eq_getElem (show i < v.length by omega)]

theorem dotQ_perm' {p : List Nat} {n : Nat} (hp : p.Perm (List.range n)) {u v : List Rat}
    (hu : u.length = n) (hv : v.length = n) : dotQ (permV p u) (permV p v) = dotQ u v := by
  unfold dotQ
  rw [zipWith_mul_eq_range hu hv]
  unfold permV
  rw [lin_zipWith_map_map]
  exact (hp.map _).sum_eq

theorem matVecQ_perm' {p : List Nat} {n : Nat} (hp : p.Perm (List.range n)) {M : List (List Rat)}
    {f : List Rat} (hM : M.length = n) (hrows : ∀ row ∈ M, row.length = n) (hf : f.length = n) :
    matVecQ (permM p M) (permV p f) = permV p (matVecQ M f) := by
  unfold matVecQ permM
  rw [List.map_map]
  show _ = List.map _ p
  apply List.map_congr_left
  intro i hi
  have hi' := lin_perm_lt hp i hi
  have hrow : (M.getD i []).length = n := by
    apply hrows
    rw [List.getD_eq_getElem?_getD, List.getElem?_eq_getElem (by omega)]
    simp
  rw [lin_getD_map_of_lt (fun row => dotQ row f) M i [] 0 (by omega)]
  exact dotQ_perm' hp hrow hf

theorem length_matVecQ (M : List (List Rat)) (f : List Rat) : (matVecQ M f).length = M.length := by
  simp [matVecQ]

theorem init_wf' (d : Nat) : (LinState.init d).WF d := by
  refine ⟨by simp [LinState.init], by simp [LinState.init, identityQ], ?_⟩
  intro row hrow
  simp only [LinState.init, identityQ, List.mem_map] at hrow
  obtain ⟨i, _, rfl⟩ := hrow
  simp

theorem learn_wf' {n : Nat} {s : LinState} (hs : s.WF n) {f : List Rat} (r : Rat) :
    (s.learn f r).WF n := by
  obtain ⟨h1, h2, h3⟩ := hs
  refine ⟨by simp [LinState.learn, length_matVecQ, h1, h2], by simp [LinState.learn, length_matVecQ, h2], ?_⟩
  intro row hrow
  obtain ⟨i, hi, rfl⟩ := List.mem_iff_getElem.mp hrow
  simp only [LinState.learn, List.getElem_zipWith, List.length_zipWith, length_matVecQ, h2]
  rw [h3 _ (List.getElem_mem _)]
  simp

theorem perm_wf' {n : Nat} {p : List Nat} (hp : p.length = n) (s : LinState) : (s.perm p).WF n := by
  refine ⟨by simp [LinState.perm, length_permV, hp], by simp [LinState.perm, permM, hp], ?_⟩
  intro row hrow
  simp only [LinState.perm, permM, List.mem_map] at hrow
  obtain ⟨i, _, rfl⟩ := hrow
  simp [length_permV, hp]

theorem learn_perm' {n : Nat} {s : LinState} (hs : s.WF n) {f : List Rat} (hf : f.length = n)
    {p : List Nat} (hp : p.Perm (List.range n)) (r : Rat) :
    (s.perm p).learn (permV p f) r = (s.learn f r).perm p := by
  obtain ⟨h1, h2, h3⟩ := hs
  have hlt := lin_perm_lt hp
  have hw : (matVecQ s.ainv f).length = n := by rw [length_matVecQ, h2]
  have e1 : dotQ (permV p s.theta) (permV p f) = dotQ s.theta f := dotQ_perm' hp h1 hf
  have e2 : matVecQ (permM p s.ainv) (permV p f) = permV p (matVecQ s.ainv f) :=
    matVecQ_perm' hp h2 h3 hf
  have e3 : dotQ (permV p (matVecQ s.ainv f)) (permV p f) = dotQ (matVecQ s.ainv f) f :=
    dotQ_perm' hp hw hf
  simp only [LinState.learn, LinState.perm, e1, e2, e3]
  congr 1
  · exact zipWith_permV _ hlt h1 hw
  · generalize matVecQ s.ainv f = w at hw
    generalize (1 + dotQ w f) = c
    show List.zipWith _ (List.map _ p) (List.map _ p) = List.map _ p
    rw [lin_zipWith_map_map]
    apply List.map_congr_left
    intro i hi
    have hi' := hlt i hi
    have hrow : (s.ainv.getD i []).length = n := by
      apply h3
      rw [List.getD_eq_getElem?_getD, List.getElem?_eq_getElem (by omega)]
      simp
    rw [lin_getD_zipWith_of_lt _ s.ainv w i [] 0 [] (by omega) (by omega)]
    exact zipWith_permV _ hlt hrow hw

theorem score_perm' {n : Nat} {s : LinState} (hs : s.WF n) {f : List Rat} (hf : f.length = n)
    {p : List Nat} (hp : p.Perm (List.range n)) :
    (s.perm p).score (permV p f) = s.score f := by
  obtain ⟨h1, h2, h3⟩ := hs
  have hw : (matVecQ s.ainv f).length = n := by rw [length_matVecQ, h2]
  simp only [LinState.score, LinState.perm]
  rw [dotQ_perm' hp h1 hf, matVecQ_perm' hp h2 h3 hf, dotQ_perm' hp hw hf]

theorem identityQ_getD {d i j : Nat} (hi : i < d) (hj : j < d) :
    ((identityQ d).getD i []).getD j 0 = if i = j then 1 else 0 := by
  unfold identityQ
  rw [lin_getD_map_of_lt _ _ i 0 [] (by simpa using hi)]
  rw [lin_getD_map_of_lt _ _ j 0 0 (by simpa using hj)]
  simp [List.getD_eq_getElem?_getD, List.getElem?_range hi, List.getElem?_range hj]

theorem init_perm' {d : Nat} {p : List Nat} (hp : p.Perm (List.range d)) :
    (LinState.init d).perm p = LinState.init d := by
  have hlen : p.length = d := by simpa using hp.length_eq
  have hlt := lin_perm_lt hp
  have hnd : p.Nodup := hp.nodup_iff.mpr List.nodup_range
  unfold LinState.init LinState.perm
  congr 1
  · show permV p (List.replicate d 0) = List.replicate d 0
    have h0 : ∀ i, (List.replicate d (0 : Rat)).getD i 0 = 0 := by
      intro i
      rw [List.getD_eq_getElem?_getD, List.getElem?_replicate]
      split <;> rfl
    unfold permV
    simp only [h0, List.map_const', hlen]
  · show permM p (identityQ d) = identityQ d
    have e : permM p (identityQ d) = p.map (fun i => p.map (fun j => if i = j then (1 : Rat) else 0)) := by
      unfold permM permV
      apply List.map_congr_left
      intro i hi
      apply List.map_congr_left
      intro j hj
      exact identityQ_getD (hlt i hi) (hlt j hj)
    rw [e]
    unfold identityQ
    apply List.ext_getElem
    · simp [hlen]
    · intro a h1 h2
      have ha : a < p.length := by simpa using h1
      rw [List.getElem_map, List.getElem_map, List.getElem_range]
      apply List.ext_getElem
      · simp [hlen]
      · intro b h3 h4
        have hb : b < p.length := by simpa using h3
        rw [List.getElem_map, List.getElem_map, List.getElem_range]
        simp only [hnd.getElem_inj_iff]

theorem linRun_perm {n : Nat} {p : List Nat} (hp : p.Perm (List.range n)) (es : List LinEvent) :
    ∀ s : LinState, s.WF n → (∀ e ∈ es, e.WF n) →
      linRun (s.perm p) (es.map (LinEvent.perm p)) = ((linRun s es).1, (linRun s es).2.perm p) := by
  induction es with
  | nil => intro s _ _; rfl
  | cons e es ih =>
    intro s hs hes
    have he : e.WF n := hes e (by simp)
    have hes' : ∀ e ∈ es, e.WF n := fun e' h => hes e' (by simp [h])
    cases e with
    | learn f r =>
      simp only [List.map_cons, LinEvent.perm, linRun]
      rw [learn_perm' hs he hp r]
      exact ih _ (learn_wf' hs r) hes'
    | predict fs =>
      simp only [List.map_cons, LinEvent.perm, linRun]
      rw [ih s hs hes']
      have : List.map (s.perm p).score (List.map (permV p) fs) = List.map s.score fs := by
        rw [List.map_map]
        apply List.map_congr_left
        intro f hf
        exact score_perm' hs (he f hf) hp
      rw [this]

theorem linucb_perm_equivariant' (d : Nat) (p : List Nat) (events : List LinEvent)
    (hp : p.Perm (List.range d)) (hev : ∀ e ∈ events, e.WF d) :
    (linRun (LinState.init d) (events.map (LinEvent.perm p))).1 = (linRun (LinState.init d) events).1
    ∧ (linRun (LinState.init d) (events.map (LinEvent.perm p))).2
        = (linRun (LinState.init d) events).2.perm p := by
  have h := linRun_perm hp events (LinState.init d) (init_wf' d) hev
  rw [init_perm' hp] at h
  rw [h]
  exact ⟨rfl, rfl⟩

theorem lin_map_getD_range {α : Type} (l : List α) (d : α) :
    (List.range l.length).map (fun i => l.getD i d) = l := by
  apply List.ext_getElem
  · simp
  · intro i h1 h2
    simp [List.getD_eq_getElem?_getD, List.getElem?_eq_getElem h2]

theorem perm_index_exists' {l l' : List Rat} (h : l.Perm l') :
    ∃ p : List Nat, p.Perm (List.range l.length) ∧ l' = permV p l := by
  induction h with
  | nil => exact ⟨[], by simp, rfl⟩
  | cons x _ ih =>
    obtain ⟨p, hp, rfl⟩ := ih
    refine ⟨0 :: p.map Nat.succ, ?_, ?_⟩
    · rw [List.length_cons, List.range_succ_eq_map]
      exact (hp.map _).cons 0
    · simp [permV, List.map_map, Function.comp_def]
  | swap x y l =>
    refine ⟨1 :: 0 :: (List.range l.length).map (· + 2), ?_, ?_⟩
    · simp only [List.length_cons]
      rw [List.range_succ_eq_map, List.range_succ_eq_map]
      simp only [List.map_cons, List.map_map]
      exact List.Perm.swap ..
    · simp only [permV, List.map_cons, List.map_map, Function.comp_def]
      simp only [List.getD_cons_succ, List.getD_cons_zero]
      rw [lin_map_getD_range l 0]
  | @trans l1 l2 l3 h1 h2 ih1 ih2 =>
    obtain ⟨p1, hp1, e1⟩ := ih1
    obtain ⟨p2, hp2, e2⟩ := ih2
    have hl : l2.length = l1.length := h1.length_eq.symm
    have hp1l : p1.length = l1.length := by simpa using hp1.length_eq
    refine ⟨p2.map (fun i => p1.getD i 0), ?_, ?_⟩
    · have h3 : (p2.map (fun i => p1.getD i 0)).Perm ((List.range p1.length).map (fun i => p1.getD i 0)) := by
        rw [hp1l, ← hl]
        exact hp2.map _
      rw [lin_map_getD_range] at h3
      exact h3.trans hp1
    · rw [e2]
      unfold permV
      rw [List.map_map]
      apply List.map_congr_left
      intro i hi
      have hi' : i < l2.length := lin_perm_lt hp2 i hi
      rw [e1]
      unfold permV
      exact lin_getD_map_of_lt _ p1 i 0 0 (by omega)

/-- non-vacuity: a concrete layout change and history satisfying the hypotheses of `linucb_perm_equivariant'` -/
theorem linucb_example_hyps :
    [2, 0, 1].Perm (List.range 3) ∧
    ∀ e ∈ [LinEvent.learn [1, 2, 3] 1, .learn [0, 1, (1 : Rat) / 2] 0, .predict [[1, 0, 0], [0, 1, 1]]], e.WF 3 := by
  refine ⟨by decide, ?_⟩
  intro e he
  simp only [List.mem_cons, List.not_mem_nil, or_false] at he
  rcases he with rfl | rfl | rfl <;> simp [LinEvent.WF]

theorem linucb_example_values :
    (linRun (LinState.init 3) ([LinEvent.learn [1, 2, 3] 1, .learn [0, 1, (1 : Rat) / 2] 0,
        .predict [[1, 0, 0], [0, 1, 1]]].map (LinEvent.perm [2, 0, 1]))).1
      = (linRun (LinState.init 3) [LinEvent.learn [1, 2, 3] 1, .learn [0, 1, (1 : Rat) / 2] 0,
        .predict [[1, 0, 0], [0, 1, 1]]]).1
    ∧ (linRun (LinState.init 3) [LinEvent.learn [1, 2, 3] 1, .learn [0, 1, (1 : Rat) / 2] 0,
        .predict [[1, 0, 0], [0, 1, 1]]]).1 ≠ [[(0, 1), (0, 2)]] := by
  decide +kernel

theorem encode_terms_order_index_perm' (mul : Rat → Rat → Rat) (one : Rat) (F : Char → List Rat)
    {ts ts' : List (List Char)} (h : ts.Perm ts') :
    ∃ p : List Nat, p.Perm (List.range (termsS mul one F ts).length)
      ∧ termsS mul one F ts' = permV p (termsS mul one F ts) :=
  perm_index_exists' (termsS_perm mul one F h)

end LinUCB

/-! ## Part 14 (phase 4): the explicit rounding model `roundSig` returns representable numbers exactly, hence
`ExactOn fmul53` is a theorem, not an assumption -/

theorem pow2_eq (e : Int) : pow2 e = (2 : Rat) ^ e := by
  unfold pow2
  split
  · rename_i h
    conv_rhs => rw [← Int.toNat_of_nonneg h]
    rw [zpow_natCast]
  · rename_i h
    have h' : 0 ≤ -e := by omega
    have : e = -((-e).toNat : Int) := by rw [Int.toNat_of_nonneg h']; omega
    conv_rhs => rw [this]
    rw [zpow_neg, zpow_natCast, one_div]

theorem roundHalfEven_nat (k : Nat) : roundHalfEven (k : Rat) = k := by
  simp [roundHalfEven, Nat.mod_one]

/-- given the exponent is not above the input's own exponent, scaling, rounding and unscaling is the identity -/
theorem rhe_exact (K : Nat) (E e : Int) (h : e ≤ E) :
    (roundHalfEven ((K : Rat) * (2 : Rat) ^ E * pow2 (-e)) : Rat) * pow2 e = (K : Rat) * (2 : Rat) ^ E := by
  have h2 : (2 : Rat) ≠ 0 := by norm_num
  have hk : (K : Rat) * (2 : Rat) ^ E * pow2 (-e) = ((K * 2 ^ (E - e).toNat : Nat) : Rat) := by
    rw [pow2_eq, mul_assoc, ← zpow_add₀ h2]
    push_cast
    rw [← zpow_natCast, Int.toNat_of_nonneg (by omega)]
    congr 2
  rw [hk, roundHalfEven_nat, pow2_eq]
  push_cast
  rw [← zpow_natCast, Int.toNat_of_nonneg (by omega), mul_assoc, ← zpow_add₀ h2]
  congr 2
  omega

theorem rat_log_lb (a : Rat) (ha : 0 < a) :
    (2 : Rat) ^ ((a.num.natAbs.log2 : Int) - (a.den.log2 : Int) - 1) ≤ a := by
  have h2 : (2 : Rat) ≠ 0 := by norm_num
  have hnum : 0 < a.num := Rat.num_pos.mpr ha
  have hn : a.num.natAbs ≠ 0 := by omega
  have h1 : ((2 ^ a.num.natAbs.log2 : Nat) : Rat) ≤ (a.num.natAbs : Rat) := by
    exact_mod_cast Nat.log2_self_le hn
  have h3 : ((a.den : Nat) : Rat) ≤ ((2 ^ (a.den.log2 + 1) : Nat) : Rat) := by
    exact_mod_cast (Nat.lt_log2_self (n := a.den)).le
  have hd : (0 : Rat) < (a.den : Rat) := by exact_mod_cast a.den_pos
  have hcast : ((a.num.natAbs : Nat) : Rat) = ((a.num : Int) : Rat) := by
    rw [Nat.cast_natAbs, abs_of_nonneg hnum.le]
  refine le_trans ?_ (le_of_eq (Rat.num_div_den a))
  rw [le_div_iff₀ hd, ← hcast]
  push_cast at h1 h3
  calc (2 : Rat) ^ ((a.num.natAbs.log2 : Int) - (a.den.log2 : Int) - 1) * (a.den : Rat)
      ≤ (2 : Rat) ^ ((a.num.natAbs.log2 : Int) - (a.den.log2 : Int) - 1) * 2 ^ (a.den.log2 + 1) :=
        mul_le_mul_of_nonneg_left h3 (by positivity)
    _ = (2 : Rat) ^ a.num.natAbs.log2 := by
        rw [← zpow_natCast (2 : Rat) (a.den.log2 + 1), ← zpow_add₀ h2, ← zpow_natCast]
        congr 1; push_cast; ring
    _ ≤ _ := h1

/-- the chosen exponent scales `a` to at least `2^(prec-1)` -/
theorem expo_lb (prec : Nat) (a : Rat) (ha : 0 < a) :
    (2 : Rat) ^ ((prec : Int) - 1) ≤ a * pow2 (-(expo prec a)) := by
  have h2 : (2 : Rat) ≠ 0 := by norm_num
  have hlb := rat_log_lb a ha
  unfold expo
  simp only
  split
  · rw [pow2_eq]
    calc (2 : Rat) ^ ((prec : Int) - 1)
        = (2 : Rat) ^ ((a.num.natAbs.log2 : Int) - (a.den.log2 : Int) - 1)
            * (2 : Rat) ^ (-((a.num.natAbs.log2 : Int) - (a.den.log2 : Int) - (prec : Int))) := by
          rw [← zpow_add₀ h2]; congr 1; ring
      _ ≤ _ := mul_le_mul_of_nonneg_right hlb (by positivity)
  · rename_i h
    rw [not_lt, pow2_eq] at h
    rw [pow2_eq]
    calc (2 : Rat) ^ ((prec : Int) - 1) = (2 : Rat) ^ prec * (2 : Rat) ^ (-1 : Int) := by
          rw [← zpow_natCast, ← zpow_add₀ h2]; congr 1
      _ ≤ a * (2 : Rat) ^ (-((a.num.natAbs.log2 : Int) - (a.den.log2 : Int) - (prec : Int))) * (2 : Rat) ^ (-1 : Int) :=
          mul_le_mul_of_nonneg_right h (by positivity)
      _ = _ := by
          rw [mul_assoc, ← zpow_add₀ h2]; congr 2; ring

/-- a number with fewer than `prec` significant bits has its own exponent at or above the chosen one -/
theorem expo_le (prec : Nat) (K : Nat) (E : Int) (hK : K < 2 ^ prec) (hpos : 0 < (K : Rat) * (2 : Rat) ^ E) :
    expo prec ((K : Rat) * (2 : Rat) ^ E) ≤ E := by
  have h2 : (2 : Rat) ≠ 0 := by norm_num
  have hlb := expo_lb prec _ hpos
  by_contra hc
  rw [not_le] at hc
  rw [pow2_eq, mul_assoc, ← zpow_add₀ h2] at hlb
  have hK' : (K : Rat) < (2 : Rat) ^ prec := by exact_mod_cast hK
  have hz : (2 : Rat) ^ (E + -(expo prec ((K : Rat) * (2 : Rat) ^ E))) ≤ (2 : Rat) ^ (-1 : Int) :=
    zpow_le_zpow_right₀ (by norm_num) (by omega)
  have hlt : (K : Rat) * (2 : Rat) ^ (E + -(expo prec ((K : Rat) * (2 : Rat) ^ E))) < (2 : Rat) ^ prec * (2 : Rat) ^ (-1 : Int) :=
    mul_lt_mul hK' hz (by positivity) (by positivity)
  have : (2 : Rat) ^ prec * (2 : Rat) ^ (-1 : Int) = (2 : Rat) ^ ((prec : Int) - 1) := by
    rw [← zpow_natCast, ← zpow_add₀ h2]; congr 1
  rw [this] at hlt
  exact absurd hlb (not_le.mpr hlt)

theorem roundSig_pos_exact (prec : Nat) (K : Nat) (E : Int) (hK : K < 2 ^ prec) (hpos : 0 < (K : Rat) * (2 : Rat) ^ E) :
    roundSig prec ((K : Rat) * (2 : Rat) ^ E) = (K : Rat) * (2 : Rat) ^ E
    ∧ roundSig prec (-((K : Rat) * (2 : Rat) ^ E)) = -((K : Rat) * (2 : Rat) ^ E) := by
  have hle := expo_le prec K E hK hpos
  have hex := rhe_exact K E _ hle
  constructor
  · unfold roundSig
    rw [if_neg hpos.ne', if_neg (not_lt.mpr hpos.le)]
    simp only [if_neg (not_lt.mpr hpos.le)]
    exact hex
  · have hneg : -((K : Rat) * (2 : Rat) ^ E) < 0 := by linarith
    unfold roundSig
    rw [if_neg hneg.ne, if_pos hneg]
    simp only [if_pos hneg, neg_neg]
    rw [hex]

theorem roundSig_nat_exact (prec : Nat) (hp : 1 ≤ prec) (K : Nat) (E : Int) (hK : K ≤ 2 ^ prec) :
    roundSig prec ((K : Rat) * (2 : Rat) ^ E) = (K : Rat) * (2 : Rat) ^ E
    ∧ roundSig prec (-((K : Rat) * (2 : Rat) ^ E)) = -((K : Rat) * (2 : Rat) ^ E) := by
  have h2 : (2 : Rat) ≠ 0 := by norm_num
  rcases Nat.eq_zero_or_pos K with h0 | h0
  · subst h0; simp [roundSig]
  rcases Nat.lt_or_ge K (2 ^ prec) with hlt | hge
  · exact roundSig_pos_exact prec K E hlt (by have : (0 : Rat) < (K : Rat) := by exact_mod_cast h0
                                              positivity)
  · have hKe : K = 2 ^ prec := le_antisymm hK hge
    have hrw : (K : Rat) * (2 : Rat) ^ E = ((1 : Nat) : Rat) * (2 : Rat) ^ (E + prec) := by
      rw [hKe, zpow_add₀ h2, zpow_natCast]; push_cast; ring
    rw [hrw]
    exact roundSig_pos_exact prec 1 (E + prec) (Nat.one_lt_two_pow (by omega)) (by positivity)

/-- a number with at most `prec` significant bits is a fixed point of rounding to `prec` bits -/
theorem roundSig_exact (prec : Nat) (hp : 1 ≤ prec) (q : Rat) (m e : Int) (hm : |m| ≤ (2 : Int) ^ prec)
    (hq : q = (m : Rat) * (2 : Rat) ^ e) : roundSig prec q = q := by
  have hK : m.natAbs ≤ 2 ^ prec := by
    have : ((m.natAbs : Nat) : Int) ≤ ((2 ^ prec : Nat) : Int) := by rw [Int.natCast_natAbs]; exact_mod_cast hm
    exact_mod_cast this
  obtain ⟨h1, h2⟩ := roundSig_nat_exact prec hp m.natAbs e hK
  rcases le_total 0 m with h | h
  · have : (m : Rat) = ((m.natAbs : Nat) : Rat) := by rw [Nat.cast_natAbs, abs_of_nonneg h]
    rw [hq, this]; exact h1
  · have : (m : Rat) = -((m.natAbs : Nat) : Rat) := by rw [Nat.cast_natAbs, abs_of_nonpos h]; push_cast; ring
    rw [hq, this, neg_mul]; exact h2

theorem exactOn_fmul53 : ExactOn fmul53 := by
  intro a b h
  obtain ⟨m, e, hm, _, hq⟩ := h
  exact roundSig_exact 53 (by norm_num) (a * b) m e (by exact_mod_cast hm) hq

theorem encode_float53_exact_dyadic' (M E : Nat) (hM : 1 ≤ M)
    (is : List Inter) (kw : List (Char × NsVal)) (hne : ∀ t ∈ strTerms is, t ≠ [])
    (hb : M ^ maxDeg is ≤ 2 ^ 53) (he : maxDeg is * E ≤ 970)
    (hd : ∀ c, ∀ v ∈ featsDense kw c, Dy M E v) (hs : ∀ c, ∀ p ∈ featsSparse kw c, Dy M E p.2) :
    encodeG fmul53 Cfg.fixed is kw = encode Cfg.fixed is kw :=
  encode_float_exact_dyadic' exactOn_fmul53 M E hM is kw hne hb he hd hs

/-! ## Phase 4: translator obligation for the `learn` bodies -/

/-- the numpy-operation-by-operation reading of `learn` equals the model's `LinState.learn` (zipWith/map algebra) -/
theorem learnAlt_eq (s : LinState) (f : List Rat) (reward : Rat) : s.learnAlt f reward = s.learn f reward := by
  simp only [LinState.learnAlt, LinState.learn, List.zipWith_map_right, List.map_map, Function.comp_def]

/-- a `learn` program that evaluates (by computation) to `learnAlt` is the model's `learn` -/
theorem learn_prog_sound {prog : List LStmt} {s : LinState} {f : List Rat} {r : Rat}
    (h : runLearn prog s f r [] = some (s.learnAlt f r)) : runLearn prog s f r [] = some (s.learn f r) :=
  h.trans (congrArg some (learnAlt_eq s f r))

/-- hence a whole history run with such a program is the model's history -/
theorem linRunProg_eq {prog : List LStmt} (h : ∀ s f r, runLearn prog s f r [] = some (LinState.learn s f r))
    (s : LinState) (es : List LinEvent) : linRunProg prog s es = some (linRun s es).2 := by
  induction es generalizing s with
  | nil => rfl
  | cons e es ih =>
    cases e with
    | learn f r => simp only [linRunProg, h, linRun]; exact ih _
    | predict fs => simp only [linRunProg, linRun]; exact ih _

/-! ## Part 15 (phase 4): exactly when named monomials of a sparse call collide (`sparseMonos`, `collides` in Model) -/
section Collide
variable {κ γ : Type} [DecidableEq κ]

theorem hasDup_eq_false_iff {β : Type} [DecidableEq β] (l : List β) : hasDup l = false ↔ l.Nodup := by
  induction l with
  | nil => simp [hasDup]
  | cons x r ih => simp [hasDup, ih]

theorem hasDup_iff {β : Type} [DecidableEq β] (l : List β) : hasDup l = true ↔ ¬ l.Nodup := by
  rw [← hasDup_eq_false_iff]; cases hasDup l <;> simp

theorem dictSet_length (k : κ) (v : γ) : ∀ (d : List (κ × γ)),
    (dictSet k v d).length = if k ∈ d.map (·.1) then d.length else d.length + 1 := by
  intro d
  induction d with
  | nil => simp [dictSet]
  | cons kv d ih =>
    simp only [dictSet, List.map_cons, List.mem_cons]
    by_cases h : kv.1 = k
    · simp [h]
    · have h' : ¬ k = kv.1 := fun e => h e.symm
      rw [if_neg h]
      simp only [List.length_cons, ih, h', false_or]
      split <;> rfl

theorem dictSet_keys_mem (k : κ) (v : γ) (k' : κ) : ∀ (d : List (κ × γ)),
    k' ∈ (dictSet k v d).map (·.1) ↔ k' = k ∨ k' ∈ d.map (·.1) := by
  intro d
  induction d with
  | nil => simp [dictSet]
  | cons kv d ih =>
    simp only [dictSet]
    by_cases h : kv.1 = k
    · rw [if_pos h]; simp only [List.map_cons, List.mem_cons]; rw [h]; tauto
    · rw [if_neg h]; simp only [List.map_cons, List.mem_cons, ih]; tauto

theorem dictOf_keys_mem (k : κ) (l : List (κ × γ)) :
    k ∈ (dictOf l).map (·.1) ↔ k ∈ l.map (·.1) := by
  induction l using List.reverseRecOn with
  | nil => simp [dictOf]
  | append_singleton p kv ih =>
    rw [dictOf_append_singleton, dictSet_keys_mem, ih]
    simp only [List.map_append, List.mem_append, List.map_cons, List.map_nil, List.mem_singleton]
    tauto

theorem dictOf_length_le (l : List (κ × γ)) : (dictOf l).length ≤ l.length := by
  induction l using List.reverseRecOn with
  | nil => simp [dictOf]
  | append_singleton p kv ih =>
    rw [dictOf_append_singleton, dictSet_length, List.length_append, List.length_singleton]
    split <;> omega

/-- `dict(pairs)` has as many entries as there are pairs exactly when no two pairs share a key -/
theorem dictOf_length_eq_iff_nodup' (l : List (κ × γ)) :
    (dictOf l).length = l.length ↔ (l.map (·.1)).Nodup := by
  induction l using List.reverseRecOn with
  | nil => simp [dictOf]
  | append_singleton p kv ih =>
    rw [dictOf_append_singleton, dictSet_length, List.length_append, List.length_singleton,
      List.map_append, List.map_singleton, List.nodup_append]
    have hle := dictOf_length_le p
    by_cases hm : kv.1 ∈ (dictOf p).map (·.1)
    · rw [if_pos hm]
      rw [dictOf_keys_mem] at hm
      constructor
      · intro h; omega
      · rintro ⟨_, _, hd⟩; exact absurd rfl (hd kv.1 hm kv.1 (by simp))
    · rw [if_neg hm]
      rw [dictOf_keys_mem] at hm
      constructor
      · intro h
        refine ⟨ih.mp (by omega), by simp, ?_⟩
        intro a ha b hb
        simp only [List.mem_singleton] at hb
        subst hb
        intro e; subst e; exact hm ha
      · rintro ⟨hp, _, _⟩
        rw [ih.mpr hp]

/-- `dict(pairs)` never holds a key twice -/
theorem dictOf_keys_nodup' (l : List (κ × γ)) : ((dictOf l).map (·.1)).Nodup := by
  induction l using List.reverseRecOn with
  | nil => simp [dictOf]
  | append_singleton p kv ih =>
    rw [dictOf_append_singleton]
    by_cases hm : kv.1 ∈ (dictOf p).map (·.1)
    · -- the key is present: the keys are unchanged
      have hkeys : ∀ (d : List (κ × γ)), kv.1 ∈ d.map (·.1) → (dictSet kv.1 kv.2 d).map (·.1) = d.map (·.1) := by
        intro d
        induction d with
        | nil => simp
        | cons e d ihd =>
          intro hmem
          simp only [dictSet]
          by_cases h : e.1 = kv.1
          · rw [if_pos h]; rfl
          · rw [if_neg h]
            simp only [List.map_cons, List.mem_cons] at hmem ⊢
            rcases hmem with hmem | hmem
            · exact absurd hmem.symm h
            · rw [ihd hmem]
      rw [hkeys _ hm]; exact ih
    · rw [dictSet_not_mem _ _ _ hm, List.map_append, List.nodup_append]
      refine ⟨ih, by simp, ?_⟩
      intro a ha b hb
      simp only [List.map_cons, List.map_nil, List.mem_singleton] at hb
      subst hb
      intro e; subst e; exact hm ha

end Collide

/-- on the sparse path `encode` returns `dict` of the named monomials -/
theorem encode_sparse_eq_dictOf_monos (is : List Inter) (kw : List (Char × NsVal))
    (hne : ∀ t ∈ strTerms is, t ≠ []) (hs : isSparseCall kw = true) :
    encode Cfg.fixed is kw = .ok (.sparse (dictOf (sparseMonos is kw))) := by
  rw [encode_sparse_eq_spec' is kw hne hs]
  simp only [sparseMonos]
  by_cases hc : constant is ≠ 0
  · rw [if_pos hc, if_pos hc, dictOf_append_singleton]
  · rw [if_neg hc, if_neg hc, List.append_nil]

theorem sparse_faithful_iff' (is : List Inter) (kw : List (Char × NsVal))
    (hne : ∀ t ∈ strTerms is, t ≠ []) (hs : isSparseCall kw = true) :
    ∃ d, encode Cfg.fixed is kw = .ok (.sparse d) ∧
      (((∀ kv ∈ sparseMonos is kw, kv ∈ d) ∧ d.length = (sparseMonos is kw).length)
        ↔ ((sparseMonos is kw).map (·.1)).Nodup) := by
  refine ⟨_, encode_sparse_eq_dictOf_monos is kw hne hs, ?_⟩
  constructor
  · rintro ⟨_, hl⟩; exact (dictOf_length_eq_iff_nodup' _).mp hl
  · intro h
    rw [dictOf_of_nodup_keys _ h]
    exact ⟨fun _ hkv => hkv, rfl⟩

theorem sparse_faithful_iff_collides' (is : List Inter) (kw : List (Char × NsVal))
    (hne : ∀ t ∈ strTerms is, t ≠ []) (hs : isSparseCall kw = true) :
    ∃ d, encode Cfg.fixed is kw = .ok (.sparse d) ∧ (d.map (·.1)).Nodup ∧
      (collides is kw = false → d = sparseMonos is kw) ∧
      (collides is kw = true → d.length < (sparseMonos is kw).length) := by
  refine ⟨_, encode_sparse_eq_dictOf_monos is kw hne hs, dictOf_keys_nodup' _, ?_, ?_⟩
  · intro h
    exact dictOf_of_nodup_keys _ ((hasDup_eq_false_iff _).mp h)
  · intro h
    have hn := (hasDup_iff _).mp h
    have hle := dictOf_length_le (sparseMonos is kw)
    have := (dictOf_length_eq_iff_nodup' (sparseMonos is kw)).not.mpr hn
    omega

/-! ## Part 15 (phase 4): named input shapes — mixed dense/sparse, string-valued features, repeated letters -/

theorem encode_mixed_sparse_dense_eq_spec' (is : List Inter) (c d : Char) (its : List Item) (kvs : List (Key × Item))
    (hne : ∀ t ∈ strTerms is, t ≠ []) :
    encode Cfg.fixed is [(c, .dense its), (d, .sparse kvs)]
      = .ok (.sparse (
          let enc := dictOf (termsS pairMul pairOne (featsSparse [(c, .dense its), (d, .sparse kvs)]) (dedupFirst (strTerms is)))
          if constant is ≠ 0 then dictSet "const" (constant is) enc else enc)) :=
  encode_sparse_eq_spec' is _ hne (by simp [isSparseCall, NsVal.isSparse])

theorem termS_repeated_letter {α : Type} (mul : α → α → α) (one : α) (F : Char → List α) (c d : Char) (h : c ≠ d) :
    termS mul one F [c, c, d] = outer mul (monos mul one 2 (F c)) (monos mul one 1 (F d)) := by
  have hf : factors [c, c, d] = [(c, 2), (d, 1)] := by
    simp [factors, dedupFirst, dedupAdd, h, h.symm, List.count_cons]
  simp [termS, hf, outerAll]

theorem sparseFeats_string_item (c : Char) (k : Key) (s : String) :
    sparseFeats c (.sparse [(k, .str s)]) = [(String.singleton c ++ (k.fmt ++ s), 1)] := by
  simp [sparseFeats, makeDict, handleEntry, dictOf, dictSet, Key.fmt]

theorem sparseFeats_string_scalar (c : Char) (s : String) :
    sparseFeats c (.scalar (.str s)) = [(String.singleton c ++ ("0" ++ s), 1)] := by
  simp [sparseFeats, makeDict, handleEntry, dictOf, dictSet, Key.fmt]

theorem encode_string_feature_onehot' (c : Char) (k : Key) (s : String) :
    encode Cfg.fixed [.term [c]] [(c, .sparse [(k, .str s)])] = .ok (.sparse [(String.singleton c ++ (k.fmt ++ s), 1)]) := by
  rw [encode_eq_spec' _ _ (by simp [strTerms])]
  simp [encodeS, isSparseCall, NsVal.isSparse, featsSparse, nsVal, dictGet, sparseFeats_string_item, strTerms, dedupFirst, dedupAdd,
    termsS, termS, factors, outerAll, monos, multichoose, mcStep, monoProd, pairMul, pairOne, dictOf, dictSet, constant]

theorem encode_repeated_letter_term' (c d : Char) (h : c ≠ d) (kw : List (Char × NsVal)) (hd : isSparseCall kw = false) :
    encode Cfg.fixed [.term [c, c, d]] kw
      = .ok (.dense (outer ratMul (monos ratMul 1 2 (featsDense kw c)) (monos ratMul 1 1 (featsDense kw d)))) := by
  rw [encode_dense_eq_spec' _ kw (by simp [strTerms]) (by simp [strTerms]) hd]
  simp [strTerms, constant, termS_repeated_letter _ _ _ c d h]

/-! ## Part 16 (phase 4): names are plain concatenations; equal-length names cannot collide -/
section Blocks

/-- concatenation of equal-length blocks is injective -/
theorem flatten_inj_of_equal_length {α : Type} (L : Nat) (hL : 1 ≤ L) :
    ∀ (a b : List (List α)), (∀ x ∈ a, x.length = L) → (∀ x ∈ b, x.length = L) →
      a.flatten = b.flatten → a = b := by
  intro a
  induction a with
  | nil =>
    intro b _ hb h
    cases b with
    | nil => rfl
    | cons y b =>
      have hy := hb y (by simp)
      simp only [List.flatten_nil, List.flatten_cons] at h
      have := congrArg List.length h
      simp only [List.length_nil, List.length_append] at this
      omega
  | cons x a ih =>
    intro b ha hb h
    cases b with
    | nil =>
      have hx := ha x (by simp)
      simp only [List.flatten_nil, List.flatten_cons] at h
      have := congrArg List.length h
      simp only [List.length_nil, List.length_append] at this
      omega
    | cons y b =>
      have hx := ha x (by simp)
      have hy := hb y (by simp)
      simp only [List.flatten_cons] at h
      have hxy := List.append_inj h (by rw [hx, hy])
      rw [hxy.1, ih b (fun z hz => ha z (by simp [hz])) (fun z hz => hb z (by simp [hz])) hxy.2]

/-- the name of a monomial is the plain concatenation of the names of its features -/
theorem monoName_toList (c : List String) :
    (monoProd strMul "" c).toList = (c.map String.toList).flatten := by
  induction c with
  | nil => simp [monoProd]
  | cons s r ih => simp [monoProd, strMul, ih]

/-- two monomials (as lists of feature names) get the same name exactly when their concatenations agree -/
theorem monoName_eq_iff (c c' : List String) :
    monoProd strMul "" c = monoProd strMul "" c' ↔ (c.map String.toList).flatten = (c'.map String.toList).flatten := by
  rw [← monoName_toList, ← monoName_toList]
  constructor
  · intro h; rw [h]
  · intro h; exact String.toList_inj.mp h

theorem monoName_length (L : Nat) (c : List String) (h : ∀ s ∈ c, s.length = L) :
    (monoProd strMul "" c).length = c.length * L := by
  induction c with
  | nil => simp [monoProd]
  | cons s r ih =>
    have hs := h s (by simp)
    have hr := ih (fun z hz => h z (by simp [hz]))
    simp only [monoProd, strMul, String.length_append, hs, hr, List.length_cons]
    rw [Nat.add_mul, Nat.one_mul, Nat.add_comm]

/-- when all feature names have the same length `L ≥ 1`, monomials with the same name are the same list of features -/
theorem monoName_inj_of_equal_length (L : Nat) (hL : 1 ≤ L) (c c' : List String)
    (hc : ∀ s ∈ c, s.length = L) (hc' : ∀ s ∈ c', s.length = L)
    (h : monoProd strMul "" c = monoProd strMul "" c') : c = c' := by
  rw [monoName_eq_iff] at h
  have h2 := flatten_inj_of_equal_length L hL _ _
    (by intro x hx; obtain ⟨s, hs, rfl⟩ := List.mem_map.mp hx; rw [String.length_toList]; exact hc s hs)
    (by intro x hx; obtain ⟨s, hs, rfl⟩ := List.mem_map.mp hx; rw [String.length_toList]; exact hc' s hs) h
  exact List.map_injective_iff.mpr (fun _ _ e => String.toList_inj.mp e) h2

/-- [structural no-collision condition] distinct feature names of one common length `L ≥ 1`: the names of the
monomials of ALL degrees `0..d` over them are pairwise distinct -/
theorem monos_names_nodup_of_equal_length' (L : Nat) (hL : 1 ≤ L) (names : List String)
    (hnd : names.Nodup) (hlen : ∀ s ∈ names, s.length = L) (d : Nat) :
    ((List.range (d + 1)).flatMap (fun k => monos strMul "" k names)).Nodup := by
  have key : ∀ k c, c ∈ multichoose k names → c.length = k ∧ ∀ s ∈ c, s.length = L := by
    intro k c hc
    have := multichoose_sound k names c hc
    exact ⟨this.1, fun s hs => hlen s (this.2 s hs)⟩
  rw [List.nodup_flatMap]
  constructor
  · intro k _
    unfold monos
    refine List.Nodup.map_on ?_ (List.Nodup.of_map _ (multichoose_nodup k names hnd))
    intro c hc c' hc' h
    exact monoName_inj_of_equal_length L hL c c' (key k c hc).2 (key k c' hc').2 h
  · refine List.Pairwise.imp_of_mem ?_ (List.nodup_range (n := d + 1))
    intro k k' _ _ hne
    simp only [Function.onFun, List.disjoint_left]
    intro n hn hn'
    unfold monos at hn hn'
    obtain ⟨c, hc, rfl⟩ := List.mem_map.mp hn
    obtain ⟨c', hc', h⟩ := List.mem_map.mp hn'
    have h1 := monoName_length L c (key k c hc).2
    have h2 := monoName_length L c' (key k' c' hc').2
    rw [h, h1, (key k c hc).1, (key k' c' hc').1] at h2
    exact hne (Nat.eq_of_mul_eq_mul_right (by omega) h2)

end Blocks

/-! ## Part 17 (phase 4): rounding error of `roundSig` — half a unit in the last place, relative error `2^-prec` -/

theorem roundHalfEven_err (s : Rat) (hs : 0 ≤ s) : |(roundHalfEven s : Rat) - s| ≤ 1 / 2 := by
  have hd : (0 : Rat) < (s.den : Rat) := by exact_mod_cast s.den_pos
  have hnum : 0 ≤ s.num := Rat.num_nonneg.mpr hs
  have hcast : ((s.num.natAbs : Nat) : Rat) = ((s.num : Int) : Rat) := by
    rw [Nat.cast_natAbs, abs_of_nonneg hnum]
  have hsD : s * (s.den : Rat) = (s.num.natAbs : Rat) := by rw [hcast]; exact Rat.mul_den_eq_num s
  have hdm : ((s.den * (s.num.natAbs / s.den) + s.num.natAbs % s.den : Nat) : Rat) = (s.num.natAbs : Rat) := by
    exact_mod_cast congrArg (fun n : Nat => (n : Rat)) (Nat.div_add_mod s.num.natAbs s.den)
  have hlt : ((s.num.natAbs % s.den : Nat) : Rat) < (s.den : Rat) := by exact_mod_cast Nat.mod_lt _ s.den_pos
  have h0 : (0 : Rat) ≤ ((s.num.natAbs % s.den : Nat) : Rat) := by positivity
  push_cast at hdm
  unfold roundHalfEven
  simp only
  rw [abs_le]
  split_ifs with c1 c2 c3
  · have c : (2 : Rat) * ((s.num.natAbs % s.den : Nat) : Rat) < (s.den : Rat) := by exact_mod_cast c1
    constructor <;> apply le_of_mul_le_mul_right _ hd <;> nlinarith
  · have c : (s.den : Rat) < (2 : Rat) * ((s.num.natAbs % s.den : Nat) : Rat) := by exact_mod_cast c2
    push_cast
    constructor <;> apply le_of_mul_le_mul_right _ hd <;> nlinarith
  · have c : (2 : Rat) * ((s.num.natAbs % s.den : Nat) : Rat) = (s.den : Rat) := by
      have : 2 * (s.num.natAbs % s.den) = s.den := by omega
      exact_mod_cast this
    constructor <;> apply le_of_mul_le_mul_right _ hd <;> nlinarith
  · have c : (2 : Rat) * ((s.num.natAbs % s.den : Nat) : Rat) = (s.den : Rat) := by
      have : 2 * (s.num.natAbs % s.den) = s.den := by omega
      exact_mod_cast this
    push_cast
    constructor <;> apply le_of_mul_le_mul_right _ hd <;> nlinarith

theorem roundSig_pos_err (prec : Nat) (a : Rat) (ha : 0 < a) :
    |roundSig prec a - a| ≤ a / 2 ^ prec ∧ |roundSig prec (-a) - (-a)| ≤ a / 2 ^ prec := by
  have h2 : (2 : Rat) ≠ 0 := by norm_num
  have hlb := expo_lb prec a ha
  have hP : (0 : Rat) < pow2 (expo prec a) := by rw [pow2_eq]; positivity
  have hPP : pow2 (-(expo prec a)) * pow2 (expo prec a) = 1 := by
    rw [pow2_eq, pow2_eq, ← zpow_add₀ h2]; simp
  have hs0 : 0 ≤ a * pow2 (-(expo prec a)) := by rw [pow2_eq]; positivity
  have herr := roundHalfEven_err _ hs0
  have hpp : (2 : Rat) ^ ((prec : Int) - 1) = 2 ^ prec / 2 := by
    rw [zpow_sub_one₀ h2, zpow_natCast]; rfl
  rw [hpp] at hlb
  generalize hm : (roundHalfEven (a * pow2 (-(expo prec a))) : Rat) = m at herr
  have hbound : |m * pow2 (expo prec a) - a| ≤ a / 2 ^ prec := by
    have e1 : m * pow2 (expo prec a) - a = (m - a * pow2 (-(expo prec a))) * pow2 (expo prec a) := by
      rw [sub_mul, mul_assoc a, hPP, mul_one]
    rw [e1, abs_mul, abs_of_pos hP, le_div_iff₀ (by positivity)]
    have e2 : a = a * pow2 (-(expo prec a)) * pow2 (expo prec a) := by rw [mul_assoc, hPP, mul_one]
    calc |m - a * pow2 (-(expo prec a))| * pow2 (expo prec a) * 2 ^ prec
        ≤ 1 / 2 * pow2 (expo prec a) * 2 ^ prec := by
          apply mul_le_mul_of_nonneg_right (mul_le_mul_of_nonneg_right herr hP.le) (by positivity)
      _ = 2 ^ prec / 2 * pow2 (expo prec a) := by ring
      _ ≤ a * pow2 (-(expo prec a)) * pow2 (expo prec a) := mul_le_mul_of_nonneg_right hlb hP.le
      _ = a := e2.symm
  constructor
  · unfold roundSig
    rw [if_neg ha.ne', if_neg (not_lt.mpr ha.le)]
    simp only [if_neg (not_lt.mpr ha.le)]
    rw [hm]; exact hbound
  · have hneg : -a < 0 := by linarith
    unfold roundSig
    rw [if_neg hneg.ne, if_pos hneg]
    simp only [if_pos hneg, neg_neg]
    rw [hm, ← neg_sub', abs_neg]; exact hbound

/-- rounding to `prec` bits has relative error at most `2^-prec` (half an ulp; no exponent limits) -/
theorem roundSig_rel_err (prec : Nat) (q : Rat) : |roundSig prec q - q| ≤ |q| / 2 ^ prec := by
  rcases lt_trichotomy q 0 with h | h | h
  · have := (roundSig_pos_err prec (-q) (by linarith)).2
    rw [neg_neg] at this
    rw [abs_of_neg h]; exact this
  · subst h; simp [roundSig]
  · rw [abs_of_pos h]; exact (roundSig_pos_err prec q h).1

theorem fmul53_rel_err (a b : Rat) : |fmul53 a b - a * b| ≤ |a * b| / 2 ^ 53 := roundSig_rel_err 53 (a * b)

theorem floatMul_fmul53_fails : ¬ FloatMul (1 / 2 ^ 53) fmul53 := by
  intro h
  have := h.1 (1 / 3)
  revert this
  decide +kernel

/-! ## Part 18 (phase 5): the float model with `x·1 = x` demanded only on representable `x` -/

/-- `FloatMul` with its first clause restricted to the numbers satisfying `R` (the representable ones) -/
def FloatMulOn (R : Rat → Prop) (u : Rat) (fmul : Rat → Rat → Rat) : Prop :=
  (∀ a, R a → fmul a 1 = a) ∧ ∀ a b, ∃ ε, -u ≤ ε ∧ ε ≤ u ∧ fmul a b = a * b * (1 + ε)

theorem floatMulOn_of_floatMul {u : Rat} {fmul : Rat → Rat → Rat} (R : Rat → Prop) (h : FloatMul u fmul) :
    FloatMulOn R u fmul := ⟨fun a _ => h.1 a, h.2⟩

theorem floatMul_of_floatMulOn_true {u : Rat} {fmul : Rat → Rat → Rat} (h : FloatMulOn (fun _ => True) u fmul) :
    FloatMul u fmul := ⟨fun a => h.1 a trivial, h.2⟩

section
variable {R : Rat → Prop} {u : Rat} {fmul : Rat → Rat → Rat}

theorem approx_mulOn (hf : FloatMulOn R u fmul) (h0 : 0 ≤ u) (h1 : u ≤ 1)
    {m1 m2 : Nat} {x y x' y' : Rat} (hx : Approx u m1 x y) (hx' : Approx u m2 x' y') :
    Approx u (m1 + m2 + 1) (fmul x x') (y * y') := by
  obtain ⟨δ1, rfl, l1, r1⟩ := hx
  obtain ⟨δ2, rfl, l2, r2⟩ := hx'
  obtain ⟨ε, e1, e2, he⟩ := hf.2 (y * δ1) (y' * δ2)
  have a0 : (0 : Rat) ≤ 1 - u := by linarith
  have p1 : (0 : Rat) ≤ (1 - u) ^ m1 := pow_nonneg a0 _
  have p2 : (0 : Rat) ≤ (1 - u) ^ m2 := pow_nonneg a0 _
  have d1 : 0 ≤ δ1 := le_trans p1 l1
  have d2 : 0 ≤ δ2 := le_trans p2 l2
  refine ⟨δ1 * δ2 * (1 + ε), by rw [he]; ring, ?_, ?_⟩
  · rw [pow_succ, pow_add]
    apply mul_le_mul (mul_le_mul l1 l2 p2 d1) (by linarith) a0 (mul_nonneg d1 d2)
  · rw [pow_succ, pow_add]
    have q1 : (0 : Rat) ≤ (1 + u) ^ m1 := pow_nonneg (by linarith) _
    have q2 : (0 : Rat) ≤ (1 + u) ^ m2 := pow_nonneg (by linarith) _
    apply mul_le_mul (mul_le_mul r1 r2 d2 q1) (by linarith) (by linarith) (mul_nonneg q1 q2)

theorem monoProd_approxOn (hf : FloatMulOn R u fmul) (h0 : 0 ≤ u) (h1 : u ≤ 1) :
    ∀ c : List Rat, (∀ v ∈ c, R v) → Approx u (c.length - 1) (monoProd fmul 1 c) (monoProd ratMul 1 c) := by
  intro c
  induction c with
  | nil => intro _; exact approx_refl u 1
  | cons v r ih =>
    intro hR
    cases r with
    | nil =>
      simp only [monoProd, List.length_cons, List.length_nil]
      rw [hf.1 v (hR v List.mem_cons_self)]
      have : ratMul v 1 = v := by simp [ratMul]
      rw [this]
      exact approx_refl u v
    | cons w r =>
      have := approx_mulOn hf h0 h1 (approx_refl u v) (ih (fun x hx => hR x (List.mem_cons_of_mem _ hx)))
      simp only [List.length_cons] at this ⊢
      have e : (0 + (r.length + 1 - 1) + 1) = r.length + 1 + 1 - 1 := by omega
      rw [e] at this
      exact this

theorem monos_approxOn (hf : FloatMulOn R u fmul) (h0 : 0 ≤ u) (h1 : u ≤ 1) (k : Nat) (xs : List Rat)
    (hx : ∀ v ∈ xs, R v) :
    List.Forall₂ (Approx u (k - 1)) (monos fmul 1 k xs) (monos ratMul 1 k xs) := by
  unfold monos
  apply forall₂_map_same
  intro c hc
  obtain ⟨hl, hm⟩ := multichoose_sound k xs c hc
  have := monoProd_approxOn hf h0 h1 c (fun v hv => hx v (hm v hv))
  rw [hl] at this
  exact this

theorem outer_approxOn (hf : FloatMulOn R u fmul) (h0 : 0 ≤ u) (h1 : u ≤ 1) {m1 m2 : Nat} :
    ∀ {A A' : List Rat}, List.Forall₂ (Approx u m1) A A' → ∀ {B B' : List Rat}, List.Forall₂ (Approx u m2) B B' →
      List.Forall₂ (Approx u (m1 + m2 + 1)) (outer fmul A B) (outer ratMul A' B') := by
  intro A A' hA
  induction hA with
  | nil => intro B B' _; exact List.Forall₂.nil
  | @cons a a' A A' ha _ ih =>
    intro B B' hB
    simp only [outer, List.flatMap_cons]
    apply List.rel_append
    · clear ih
      induction hB with
      | nil => exact List.Forall₂.nil
      | cons hb _ ihb => exact List.Forall₂.cons (approx_mulOn hf h0 h1 ha hb) ihb
    · exact ih hB

theorem foldl_outer_approxOn (hf : FloatMulOn R u fmul) (h0 : 0 ≤ u) (h1 : u ≤ 1) (F : Char → List Rat)
    (hF : ∀ c, ∀ v ∈ F c, R v) :
    ∀ (cp : List (Char × Nat)), (∀ kp ∈ cp, 1 ≤ kp.2) → ∀ (m : Nat) (acc acc' : List Rat),
      List.Forall₂ (Approx u m) acc acc' →
      List.Forall₂ (Approx u (m + (cp.map (·.2)).sum))
        ((cp.map (fun kp => monos fmul 1 kp.2 (F kp.1))).foldl (outer fmul) acc)
        ((cp.map (fun kp => monos ratMul 1 kp.2 (F kp.1))).foldl (outer ratMul) acc') := by
  intro cp
  induction cp with
  | nil => intro _ m acc acc' h; simpa using h
  | cons kp cp ih =>
    intro hp m acc acc' h
    simp only [List.map_cons, List.foldl, List.sum_cons]
    have hk := hp kp List.mem_cons_self
    have := outer_approxOn hf h0 h1 h (monos_approxOn hf h0 h1 kp.2 (F kp.1) (hF kp.1))
    have e : m + (kp.2 - 1) + 1 = m + kp.2 := by omega
    rw [e] at this
    have r := ih (fun q hq => hp q (List.mem_cons_of_mem _ hq)) (m + kp.2) _ _ this
    rw [Nat.add_assoc] at r
    exact r

theorem termS_approxOn (hf : FloatMulOn R u fmul) (h0 : 0 ≤ u) (h1 : u ≤ 1) (F : Char → List Rat)
    (hF : ∀ c, ∀ v ∈ F c, R v) (t : List Char) (ht : t ≠ []) :
    List.Forall₂ (Approx u (t.length - 1)) (termS fmul 1 F t) (termS ratMul 1 F t) := by
  unfold termS
  have hs := sum_factors t
  have hpos : ∀ kp ∈ factors t, 1 ≤ kp.2 := fun kp hkp => (mem_factors t kp hkp).2.2.1
  cases hfac : factors t with
  | nil => exact absurd hfac (factors_ne_nil t ht)
  | cons kp cp =>
    rw [hfac] at hs hpos
    simp only [List.map_cons, outerAll]
    have r := foldl_outer_approxOn hf h0 h1 F hF cp (fun q hq => hpos q (List.mem_cons_of_mem _ hq)) (kp.2 - 1) _ _
      (monos_approxOn hf h0 h1 kp.2 (F kp.1) (hF kp.1))
    have hk := hpos kp List.mem_cons_self
    simp only [List.map_cons, List.sum_cons] at hs
    have e : kp.2 - 1 + (cp.map (·.2)).sum = t.length - 1 := by omega
    rw [e] at r
    exact r

theorem termsS_approxOn (hf : FloatMulOn R u fmul) (h0 : 0 ≤ u) (h1 : u ≤ 1) (F : Char → List Rat)
    (hF : ∀ c, ∀ v ∈ F c, R v) (D : Nat) :
    ∀ (ts : List (List Char)), (∀ t ∈ ts, t ≠ [] ∧ t.length ≤ D) →
      List.Forall₂ (Approx u (D - 1)) (termsS fmul 1 F ts) (termsS ratMul 1 F ts) := by
  intro ts
  induction ts with
  | nil => intro _; exact List.Forall₂.nil
  | cons t ts ih =>
    intro h
    simp only [termsS, List.flatMap_cons]
    apply List.rel_append
    · have ht := h t List.mem_cons_self
      have := termS_approxOn hf h0 h1 F hF t ht.1
      exact this.imp (fun _ _ hxy => approx_mono h0 h1 (by omega) hxy)
    · exact ih (fun t' h' => h t' (List.mem_cons_of_mem _ h'))

theorem encode_float_model_on' (hf : FloatMulOn R u fmul) (h0 : 0 ≤ u) (h1 : u ≤ 1)
    (is : List Inter) (kw : List (Char × NsVal))
    (hne : ∀ t ∈ strTerms is, t ≠ []) (hd : isSparseCall kw = false)
    (hR : ∀ c, ∀ v ∈ featsDense kw c, R v) :
    ∃ vs vs' : List Rat,
      encodeG fmul Cfg.fixed is kw = .ok (.dense ((if constant is ≠ 0 then [constant is] else []) ++ vs)) ∧
      encode Cfg.fixed is kw = .ok (.dense ((if constant is ≠ 0 then [constant is] else []) ++ vs')) ∧
      List.Forall₂ (Approx u (maxDeg is - 1)) vs vs' := by
  refine ⟨termsS fmul 1 (featsDense kw) (dedupFirst (strTerms is)),
          termsS ratMul 1 (featsDense kw) (dedupFirst (strTerms is)), ?_, ?_, ?_⟩
  · rw [encodeG_eq_spec fmul is kw hne, encodeSG, hd]
    by_cases hc : constant is ≠ 0 <;> simp [hc]
  · rw [encode_eq_spec' is kw hne, encodeS, hd]
    by_cases hc : constant is ≠ 0 <;> simp [hc]
  · apply termsS_approxOn hf h0 h1 _ hR
    intro t ht
    have hm := (mem_dedupFirst _ _).1 ht
    exact ⟨hne t hm, foldl_max_ge_mem (fun t : List Char => t.length) (strTerms is) 0 t hm⟩

theorem encode_float_model_on_sparse' (hf : FloatMulOn R u fmul) (h0 : 0 ≤ u) (h1 : u ≤ 1)
    (is : List Inter) (kw : List (Char × NsVal))
    (hne : ∀ t ∈ strTerms is, t ≠ []) (hs : isSparseCall kw = true)
    (hR : ∀ c, ∀ p ∈ featsSparse kw c, R p.2) :
    ∃ kvs kvs' : List (String × Rat),
      encodeG fmul Cfg.fixed is kw = .ok (.sparse kvs) ∧ encode Cfg.fixed is kw = .ok (.sparse kvs') ∧
      List.Forall₂ (PairRel (Approx u (maxDeg is - 1))) kvs kvs' := by
  have hterms : ∀ t ∈ dedupFirst (strTerms is), t ≠ [] ∧ t.length ≤ maxDeg is := by
    intro t ht
    have hm := (mem_dedupFirst _ _).1 ht
    exact ⟨hne t hm, foldl_max_ge_mem (fun t : List Char => t.length) (strTerms is) 0 t hm⟩
  have hent : List.Forall₂ (PairRel (Approx u (maxDeg is - 1)))
      (termsS (pairMulG fmul) pairOne (featsSparse kw) (dedupFirst (strTerms is)))
      (termsS pairMul pairOne (featsSparse kw) (dedupFirst (strTerms is))) := by
    apply pairRel_of_maps
    · rw [termsS_map (pairMulG fmul) pairOne strMul "" (·.1) (fun _ _ => rfl) rfl,
          termsS_map pairMul pairOne strMul "" (·.1) (fun _ _ => rfl) rfl]
    · rw [termsS_map (pairMulG fmul) pairOne fmul 1 (·.2) (fun _ _ => rfl) rfl,
          termsS_map pairMul pairOne ratMul 1 (·.2) (fun _ _ => rfl) rfl]
      apply termsS_approxOn hf h0 h1 _ _ _ _ hterms
      intro c v hv
      rw [List.mem_map] at hv
      obtain ⟨p, hp, rfl⟩ := hv
      exact hR c p hp
  have hdict := dictOf_rel hent (List.Forall₂.nil (R := PairRel (Approx u (maxDeg is - 1))))
  by_cases hc : constant is ≠ 0
  · refine ⟨_, _, ?_, ?_, dictSet_rel "const" (approx_mono h0 h1 (Nat.zero_le _) (approx_refl u (constant is))) hdict⟩
    · rw [encodeG_eq_spec fmul is kw hne, encodeSG, hs]; simp [hc, dictOf]
    · rw [encode_eq_spec' is kw hne, encodeS, hs]; simp [hc, dictOf]
  · refine ⟨_, _, ?_, ?_, hdict⟩
    · rw [encodeG_eq_spec fmul is kw hne, encodeSG, hs]; simp [hc, dictOf]
    · rw [encode_eq_spec' is kw hne, encodeS, hs]; simp [hc, dictOf]
end

/-- a double away from under/overflow: `m·2^e` with an integer significand of at most 53 bits -/
def Rep53 (a : Rat) : Prop := ∃ m e : Int, |m| ≤ (2 : Int) ^ 53 ∧ a = (m : Rat) * (2 : Rat) ^ e

theorem fl53_rep {a : Rat} (h : Rep53 a) : fl53 a = a := by
  obtain ⟨m, e, hm, hq⟩ := h
  exact roundSig_exact 53 (by norm_num) a m e hm hq

theorem floatMulOn_fmul53' : FloatMulOn Rep53 (1 / 2 ^ 53) fmul53 := by
  refine ⟨?_, ?_⟩
  · intro a ha
    unfold fmul53
    rw [mul_one]
    exact fl53_rep ha
  · intro a b
    have h := fmul53_rel_err a b
    by_cases hq : a * b = 0
    · refine ⟨0, by norm_num, by norm_num, ?_⟩
      rw [hq] at h ⊢
      simp at h
      simp [h]
    · have hε : (fmul53 a b - a * b) / (a * b) * (a * b) = fmul53 a b - a * b := div_mul_cancel₀ _ hq
      generalize (fmul53 a b - a * b) / (a * b) = ε at hε
      generalize fmul53 a b = f at h hε
      generalize a * b = q at h hε hq
      have hb := abs_le.1 h
      refine ⟨ε, ?_, ?_, by linarith [hε]⟩
      · rcases lt_or_gt_of_ne hq with hn | hp
        · rw [abs_of_neg hn] at hb
          by_contra hc; have hc := not_le.1 hc
          have : (-(1 / 2 ^ 53) - ε) * (-q) > 0 := mul_pos (by linarith) (by linarith)
          nlinarith [hb.1, hb.2]
        · rw [abs_of_pos hp] at hb
          by_contra hc; have hc := not_le.1 hc
          have : (-(1 / 2 ^ 53) - ε) * q > 0 := mul_pos (by linarith) hp
          nlinarith [hb.1, hb.2]
      · rcases lt_or_gt_of_ne hq with hn | hp
        · rw [abs_of_neg hn] at hb
          by_contra hc; have hc := not_le.1 hc
          have : (ε - 1 / 2 ^ 53) * (-q) > 0 := mul_pos (by linarith) (by linarith)
          nlinarith [hb.1, hb.2]
        · rw [abs_of_pos hp] at hb
          by_contra hc; have hc := not_le.1 hc
          have : (ε - 1 / 2 ^ 53) * q > 0 := mul_pos (by linarith) hp
          nlinarith [hb.1, hb.2]

/-- every rounded number is representable (so the hypothesis on the inputs is what a Python float gives) -/
theorem rep53_example : Rep53 (3602879701896397 / 36028797018963968) ∧ ¬ (fmul53 (1 / 3) 1 = 1 / 3) := by
  refine ⟨⟨3602879701896397, -55, by norm_num, by norm_num⟩, by decide +kernel⟩

/-! ## Part 19 (phase 5): `_pmf` read off the source; the selection step -/

theorem zipWith_map_same {α β γ δ : Type} (g : β → γ → δ) (f1 : α → β) (f2 : α → γ) :
    ∀ l : List α, List.zipWith g (l.map f1) (l.map f2) = l.map (fun x => g (f1 x) (f2 x)) := by
  intro l; induction l with
  | nil => rfl
  | cons a l ih => simp [ih]

theorem zipWith_map_left_same {α β δ : Type} (g : β → α → δ) (f1 : α → β) :
    ∀ l : List α, List.zipWith g (l.map f1) l = l.map (fun x => g (f1 x) x) := by
  intro l; induction l with
  | nil => rfl
  | cons a l ih => simp [ih]

/-- what the program of linucb's `_pmf` evaluates to, numpy operation by numpy operation -/
def LinState.pmfAlt (sq : Rat → Rat) (alpha : Rat) (s : LinState) (fs : List (List Rat)) : List Rat :=
  pmfOfValues (List.zipWith (· + ·)
    (((List.zipWith dotQ (fs.map (matVecQ s.ainv)) fs).map sq).map (fun x => alpha * x)) (fs.map (dotQ s.theta)))

theorem pmfAlt_eq (sq : Rat → Rat) (alpha : Rat) (s : LinState) (fs : List (List Rat)) :
    s.pmfAlt sq alpha fs = s.pmf sq alpha fs := by
  unfold LinState.pmfAlt LinState.pmf LinState.score
  rw [List.zipWith_comm_of_comm (comm := fun a b => add_comm a b)]
  rw [zipWith_map_left_same, List.map_map, List.map_map]
  have : (fun x => (fun x => alpha * x) (sq x)) ∘ (fun x => dotQ (matVecQ s.ainv x) x)
      = fun f => alpha * sq (dotQ (matVecQ s.ainv f) f) := rfl
  simp only [Function.comp_def]
  rw [zipWith_map_same]

theorem predict_prog_sound {prog : List PExp} {lhs top : PExp} {sq : Rat → Rat} {s : LinState} {fs : List (List Rat)} {alpha : Rat}
    (h : runPredict sq prog lhs top s fs alpha = some (s.pmfAlt sq alpha fs)) :
    runPredict sq prog lhs top s fs alpha = some (s.pmf sq alpha fs) :=
  h.trans (congrArg some (pmfAlt_eq sq alpha s fs))

theorem foldl_max_ge (l : List Rat) (x : Rat) : x ≤ l.foldl max x ∧ ∀ w ∈ l, w ≤ l.foldl max x := by
  induction l generalizing x with
  | nil => exact ⟨le_refl _, by simp⟩
  | cons a l ih =>
    simp only [List.foldl]
    obtain ⟨h1, h2⟩ := ih (max x a)
    refine ⟨le_trans (le_max_left _ _) h1, ?_⟩
    intro w hw
    rcases List.mem_cons.1 hw with rfl | hw
    · exact le_trans (le_max_right _ _) h1
    · exact h2 w hw

theorem foldl_max_mem (l : List Rat) (x : Rat) : l.foldl max x = x ∨ l.foldl max x ∈ l := by
  induction l generalizing x with
  | nil => left; rfl
  | cons a l ih =>
    simp only [List.foldl]
    rcases ih (max x a) with h | h
    · rcases max_choice x a with hm | hm
      · left; rw [h, hm]
      · right; rw [h, hm]; exact List.mem_cons_self
    · right; exact List.mem_cons_of_mem _ h

theorem maxQ_ge (vals : List Rat) : ∀ w ∈ vals, w ≤ maxQ vals := by
  cases vals with
  | nil => simp
  | cons x r =>
    intro w hw
    rcases List.mem_cons.1 hw with rfl | hw
    · exact (foldl_max_ge r w).1
    · exact (foldl_max_ge r x).2 w hw

theorem maxQ_mem (vals : List Rat) (h : vals ≠ []) : maxQ vals ∈ vals := by
  cases vals with
  | nil => exact absurd rfl h
  | cons x r =>
    rcases foldl_max_mem r x with hm | hm
    · simp only [maxQ]; rw [hm]; exact List.mem_cons_self
    · exact List.mem_cons_of_mem _ hm

theorem sum_map_ite (l : List Rat) (t c : Rat) :
    (l.map (fun v => if v = t then c else 0)).sum = ((l.countP (fun w => w = t) : Nat) : Rat) * c := by
  induction l with
  | nil => simp
  | cons a l ih =>
    simp only [List.map_cons, List.sum_cons, ih, List.countP_cons]
    by_cases h : a = t
    · simp [h]; ring
    · simp [h]

theorem count_max_pos (vals : List Rat) (h : vals ≠ []) : 0 < vals.countP (fun w => w = maxQ vals) := by
  rw [List.countP_pos_iff]
  exact ⟨maxQ vals, maxQ_mem vals h, by simp⟩

/-- the returned list is a probability distribution -/
theorem pmf_sum_one' (vals : List Rat) (h : vals ≠ []) : (pmfOfValues vals).sum = 1 := by
  unfold pmfOfValues selectEq
  rw [sum_map_ite]
  have hp := count_max_pos vals h
  have : ((vals.countP (fun w => w = maxQ vals) : Nat) : Rat) ≠ 0 := by exact_mod_cast (Nat.pos_iff_ne_zero.1 hp)
  exact mul_one_div_cancel this

theorem pmf_length' (vals : List Rat) : (pmfOfValues vals).length = vals.length := by simp [pmfOfValues, selectEq]

/-- entry i is positive exactly when action i is a maximiser; then it is 1/#maximisers (ties share uniformly) -/
theorem pmf_entry' (vals : List Rat) (i : Nat) (hi : i < vals.length) :
    (pmfOfValues vals)[i]'(by rw [pmf_length']; exact hi)
      = if ∀ w ∈ vals, w ≤ vals[i] then 1 / ((vals.countP (fun w => w = vals[i]) : Nat) : Rat) else 0 := by
  unfold pmfOfValues selectEq
  rw [List.getElem_map]
  by_cases h : vals[i] = maxQ vals
  · rw [if_pos h, if_pos (by rw [h]; exact maxQ_ge vals), h]
  · rw [if_neg h, if_neg]
    intro hall
    apply h
    have hne : vals ≠ [] := by intro e; subst e; simp at hi
    exact le_antisymm (maxQ_ge vals _ (List.getElem_mem hi)) (hall _ (maxQ_mem vals hne))

theorem pmf_entry_pos' (vals : List Rat) (i : Nat) (hi : i < vals.length) :
    0 < (pmfOfValues vals)[i]'(by rw [pmf_length']; exact hi) ↔ ∀ w ∈ vals, w ≤ vals[i] := by
  rw [pmf_entry' vals i hi]
  constructor
  · intro h; by_contra hc; rw [if_neg hc] at h; exact lt_irrefl _ h
  · intro h
    rw [if_pos h]
    have : 0 < vals.countP (fun w => w = vals[i]) := by
      rw [List.countP_pos_iff]; exact ⟨vals[i], List.getElem_mem hi, by simp⟩
    have : (0 : Rat) < ((vals.countP (fun w => w = vals[i]) : Nat) : Rat) := by exact_mod_cast this
    exact one_div_pos.2 this

/-- the prediction of LinUCB does not depend on the layout of the encoded features -/
theorem pmf_perm' {n : Nat} {s : LinState} (hs : s.WF n) {fs : List (List Rat)} (hf : ∀ f ∈ fs, f.length = n)
    {p : List Nat} (hp : p.Perm (List.range n)) (sq : Rat → Rat) (alpha : Rat) :
    (s.perm p).pmf sq alpha (fs.map (permV p)) = s.pmf sq alpha fs := by
  unfold LinState.pmf
  rw [List.map_map]
  congr 1
  apply List.map_congr_left
  intro f hfm
  simp only [Function.comp_def]
  rw [score_perm' hs (hf f hfm) hp]

/-- what the program of lints' `_pmf` (branch `v = 0`) evaluates to -/
def LinState.pmfTSAlt (rnd : Rat → Rat) (s : LinState) (fs : List (List Rat)) : List Rat :=
  selectEq ((fs.map (dotQ s.theta)).map rnd) (rnd (maxQ (fs.map (dotQ s.theta))))

theorem pmfTSAlt_eq (rnd : Rat → Rat) (s : LinState) (fs : List (List Rat)) : s.pmfTSAlt rnd fs = s.pmfTS rnd fs := by
  simp [LinState.pmfTSAlt, LinState.pmfTS, LinState.score, List.map_map, Function.comp_def]

theorem predictTS_prog_sound {prog : List PExp} {lhs top : PExp} {rnd : Rat → Rat} {s : LinState} {fs : List (List Rat)} {alpha : Rat}
    (h : runPredict rnd prog lhs top s fs alpha = some (s.pmfTSAlt rnd fs)) :
    runPredict rnd prog lhs top s fs alpha = some (s.pmfTS rnd fs) :=
  h.trans (congrArg some (pmfTSAlt_eq rnd s fs))

/-- a monotone function commutes with the maximum of a non-empty list -/
theorem maxQ_map_mono (g : Rat → Rat) (hg : ∀ a b, a ≤ b → g a ≤ g b) (vals : List Rat) (h : vals ≠ []) :
    g (maxQ vals) = maxQ (vals.map g) := by
  have hne : vals.map g ≠ [] := by simpa using h
  apply le_antisymm
  · exact maxQ_ge _ _ (List.mem_map.2 ⟨maxQ vals, maxQ_mem vals h, rfl⟩)
  · obtain ⟨w, hw, e⟩ := List.mem_map.1 (maxQ_mem _ hne)
    rw [← e]
    exact hg _ _ (maxQ_ge vals w hw)

theorem pmfTS_eq_pmfOfValues' (rnd : Rat → Rat) (hg : ∀ a b, a ≤ b → rnd a ≤ rnd b) (s : LinState)
    (fs : List (List Rat)) (h : fs ≠ []) :
    s.pmfTS rnd fs = pmfOfValues (fs.map (fun f => rnd (s.score f).1)) := by
  unfold LinState.pmfTS pmfOfValues
  rw [maxQ_map_mono rnd hg _ (by simpa using h), List.map_map]
  rfl

theorem linRunPredict_congr {run run' : LinState → List (List Rat) → Option (List Rat)} (h : ∀ s fs, run s fs = run' s fs)
    (s : LinState) (es : List LinEvent) : linRunPredict run s es = linRunPredict run' s es := by
  induction es generalizing s with
  | nil => rfl
  | cons e es ih =>
    cases e with
    | learn f r => simp only [linRunPredict]; exact ih _
    | predict fs => simp only [linRunPredict]; rw [h, ih]

/-! ## Part 20 (phase 5): the equal-length no-collision condition for whole calls -/

/-- first character of a name -/
def hd (s : String) : Option Char := s.toList.head?

theorem monoProd_append_flatten {α : Type} (c : List (List α)) : monoProd (· ++ ·) [] c = c.flatten := by
  induction c with
  | nil => rfl
  | cons a r ih => simp [monoProd, ih]

theorem outer_append_nodup {α : Type} (A B : List (List α)) (m : Nat) (hA : A.Nodup) (hB : B.Nodup)
    (hm : ∀ a ∈ A, a.length = m) : (outer (· ++ ·) A B).Nodup := by
  unfold outer
  rw [List.nodup_flatMap]
  constructor
  · intro a _; exact hB.map (List.append_right_injective a)
  · refine List.Pairwise.imp_of_mem ?_ hA
    intro a a' ha ha' hne
    simp only [Function.onFun, List.disjoint_left]
    intro w hw hw'
    obtain ⟨b, _, rfl⟩ := List.mem_map.1 hw
    obtain ⟨b', _, e⟩ := List.mem_map.1 hw'
    exact hne (List.append_inj_left e.symm (by rw [hm a ha, hm a' ha']))

theorem mem_outer_append {α : Type} (A B : List (List α)) (w : List α) :
    w ∈ outer (· ++ ·) A B ↔ ∃ a ∈ A, ∃ b ∈ B, w = a ++ b := by
  simp only [outer, List.mem_flatMap, List.mem_map]
  constructor
  · rintro ⟨a, ha, b, hb, rfl⟩; exact ⟨a, ha, b, hb, rfl⟩
  · rintro ⟨a, ha, b, hb, rfl⟩; exact ⟨a, ha, b, hb, rfl⟩

section
variable (F : Char → List String)

/-- the features of a namespace as one-letter words -/
def W (c : Char) : List (List String) := (F c).map (fun s => [s])

theorem mem_monos_words (k : Nat) (c : Char) (w : List String) (h : w ∈ monos (· ++ ·) [] k (W F c)) :
    w.length = k ∧ ∀ s ∈ w, s ∈ F c := by
  unfold monos at h
  obtain ⟨comb, hc, rfl⟩ := List.mem_map.1 h
  obtain ⟨hl, hm⟩ := multichoose_sound k (W F c) comb hc
  rw [monoProd_append_flatten]
  have hsing : ∀ x ∈ comb, ∃ s ∈ F c, x = [s] := by
    intro x hx
    obtain ⟨s, hs, e⟩ := List.mem_map.1 (hm x hx)
    exact ⟨s, hs, e.symm⟩
  constructor
  · rw [List.length_flatten]
    have : comb.map List.length = List.replicate comb.length 1 := by
      rw [List.eq_replicate_iff]
      refine ⟨by simp, ?_⟩
      intro n hn
      obtain ⟨x, hx, rfl⟩ := List.mem_map.1 hn
      obtain ⟨s, _, rfl⟩ := hsing x hx
      rfl
    rw [this]; simp [hl]
  · intro s hs
    obtain ⟨x, hx, hsx⟩ := List.mem_flatten.1 hs
    obtain ⟨s', hs', rfl⟩ := hsing x hx
    simp at hsx; subst hsx; exact hs'

theorem monos_words_nodup (k : Nat) (c : Char) (hF : (F c).Nodup) : (monos (· ++ ·) [] k (W F c)).Nodup := by
  unfold monos
  have hW : (W F c).Nodup := hF.map (fun a b e => by simpa using e)
  refine List.Nodup.map_on ?_ (List.Nodup.of_map _ (multichoose_nodup k (W F c) hW))
  intro a ha b hb e
  rw [monoProd_append_flatten, monoProd_append_flatten] at e
  have one : ∀ comb, comb ∈ multichoose k (W F c) → ∀ x ∈ comb, x.length = 1 := by
    intro comb hc x hx
    obtain ⟨s, _, e⟩ := List.mem_map.1 ((multichoose_sound k (W F c) comb hc).2 x hx)
    rw [← e]; rfl
  exact flatten_inj_of_equal_length 1 (le_refl 1) a b (one a ha) (one b hb) e

/-- what is known about every word of a partial product over the namespace factors `cp` -/
def WordOK (cs : List Char) (w : List String) : Prop :=
  w.length = cs.length ∧ ∀ i (h : i < w.length) (h' : i < cs.length), w[i] ∈ F cs[i]

theorem wordOK_append {cs cs' : List Char} {w w' : List String} (h : WordOK F cs w) (h' : WordOK F cs' w') :
    WordOK F (cs ++ cs') (w ++ w') := by
  obtain ⟨hl, hm⟩ := h
  obtain ⟨hl', hm'⟩ := h'
  refine ⟨by simp [hl, hl'], ?_⟩
  intro i hi hi'
  by_cases hlt : i < w.length
  · rw [List.getElem_append_left hlt, List.getElem_append_left (by omega)]
    exact hm i hlt (by omega)
  · rw [List.getElem_append_right (by omega), List.getElem_append_right (by omega)]
    have : i - w.length = i - cs.length := by omega
    simp only [List.length_append] at hi hi'
    have h2 := hm' (i - w.length) (by omega) (by omega)
    simpa [this, hl] using h2

theorem foldl_words (cp : List (Char × Nat)) (hF : ∀ kp ∈ cp, (F kp.1).Nodup) :
    ∀ (pre : List Char) (acc : List (List String)), acc.Nodup → (∀ w ∈ acc, WordOK F pre w) →
      let res := (cp.map (fun kp => monos (· ++ ·) [] kp.2 (W F kp.1))).foldl (outer (· ++ ·)) acc
      res.Nodup ∧ ∀ w ∈ res, WordOK F (pre ++ cp.flatMap (fun kp => List.replicate kp.2 kp.1)) w := by
  induction cp with
  | nil => intro pre acc hn hw; simpa using ⟨hn, hw⟩
  | cons kp cp ih =>
    intro pre acc hn hw
    simp only [List.map_cons, List.foldl, List.flatMap_cons]
    have hB := monos_words_nodup F kp.2 kp.1 (hF kp List.mem_cons_self)
    have hacc : (outer (· ++ ·) acc (monos (· ++ ·) [] kp.2 (W F kp.1))).Nodup :=
      outer_append_nodup _ _ pre.length hn hB (fun a ha => (hw a ha).1)
    have hok : ∀ w ∈ outer (· ++ ·) acc (monos (· ++ ·) [] kp.2 (W F kp.1)), WordOK F (pre ++ List.replicate kp.2 kp.1) w := by
      intro w hwm
      obtain ⟨a, ha, b, hb, rfl⟩ := (mem_outer_append _ _ _).1 hwm
      apply wordOK_append F (hw a ha)
      obtain ⟨hl, hm⟩ := mem_monos_words F kp.2 kp.1 b hb
      refine ⟨by simp [hl], ?_⟩
      intro i hi hi'
      simp only [List.getElem_replicate]
      exact hm _ (List.getElem_mem hi)
    have := ih (fun q hq => hF q (List.mem_cons_of_mem _ hq)) (pre ++ List.replicate kp.2 kp.1) _ hacc hok
    simpa [List.append_assoc] using this

theorem termS_words (t : List Char) (hF : ∀ c ∈ t, (F c).Nodup) :
    (termS (· ++ ·) [] (W F) t).Nodup ∧ ∀ w ∈ termS (· ++ ·) [] (W F) t, WordOK F (canonTerm t) w := by
  unfold termS canonTerm
  have hFk : ∀ kp ∈ factors t, (F kp.1).Nodup := fun kp hkp => hF kp.1 (mem_factors t kp hkp).1
  cases hfac : factors t with
  | nil => simp [outerAll]
  | cons kp cp =>
    rw [hfac] at hFk
    simp only [List.map_cons, outerAll, List.flatMap_cons]
    have h0 : ∀ w ∈ monos (· ++ ·) [] kp.2 (W F kp.1), WordOK F (List.replicate kp.2 kp.1) w := by
      intro w hw
      obtain ⟨hl, hm⟩ := mem_monos_words F kp.2 kp.1 w hw
      refine ⟨by simp [hl], ?_⟩
      intro i hi hi'
      simp only [List.getElem_replicate]
      exact hm _ (List.getElem_mem hi)
    exact foldl_words F cp (fun q hq => hFk q (List.mem_cons_of_mem _ hq)) _ _
      (monos_words_nodup F kp.2 kp.1 (hFk kp List.mem_cons_self)) h0

/-- a word determines the regrouped term it belongs to, when every name starts with its namespace letter -/
theorem wordOK_sig {cs : List Char} (hhd : ∀ c ∈ cs, ∀ s ∈ F c, hd s = some c) {w : List String} (h : WordOK F cs w) :
    w.map hd = cs.map some := by
  obtain ⟨hl, hm⟩ := h
  apply List.ext_getElem (by simp [hl])
  intro i h1 h2
  simp only [List.getElem_map]
  simp only [List.length_map] at h1 h2
  exact hhd _ (List.getElem_mem h2) _ (hm i h1 h2)

theorem mem_canonTerm (t : List Char) (c : Char) (h : c ∈ canonTerm t) : c ∈ t := by
  unfold canonTerm at h
  obtain ⟨kp, hkp, hc⟩ := List.mem_flatMap.1 h
  rw [(List.mem_replicate.1 hc).2]
  exact (mem_factors t kp hkp).1

theorem termsS_words_nodup (ts : List (List Char)) (hhd : ∀ t ∈ ts, ∀ c ∈ t, ∀ s ∈ F c, hd s = some c)
    (hF : ∀ t ∈ ts, ∀ c ∈ t, (F c).Nodup) (hts : (ts.map canonTerm).Nodup) :
    (termsS (· ++ ·) [] (W F) ts).Nodup := by
  unfold termsS
  rw [List.nodup_flatMap]
  constructor
  · intro t ht; exact (termS_words F t (hF t ht)).1
  · have hp : ts.Pairwise (fun a b => canonTerm a ≠ canonTerm b) := List.pairwise_map.1 hts
    refine List.Pairwise.imp_of_mem ?_ hp
    intro t t' ht ht' hne
    simp only [Function.onFun, List.disjoint_left]
    intro w hw hw'
    have s1 := wordOK_sig F (fun c hc => hhd t ht c (mem_canonTerm t c hc)) ((termS_words F t (hF t ht)).2 w hw)
    have s2 := wordOK_sig F (fun c hc => hhd t' ht' c (mem_canonTerm t' c hc)) ((termS_words F t' (hF t' ht')).2 w hw')
    rw [s1] at s2
    exact hne (List.map_injective_iff.2 (fun _ _ e => Option.some.inj e) s2)

/-- the name of a word -/
def joinW (w : List String) : String := monoProd strMul "" w

theorem joinW_append (a b : List String) : joinW (a ++ b) = strMul (joinW a) (joinW b) := by
  induction a with
  | nil => simp [joinW, monoProd, strMul]
  | cons s r ih =>
    simp only [joinW, List.cons_append, monoProd] at ih ⊢
    rw [ih]; simp [strMul, String.append_assoc]

theorem names_eq_map_words (ts : List (List Char)) :
    termsS strMul "" F ts = (termsS (· ++ ·) [] (W F) ts).map joinW := by
  rw [termsS_map (· ++ ·) [] strMul "" joinW joinW_append rfl]
  congr 1
  funext c
  simp [W, List.map_map, joinW, monoProd, strMul, Function.comp_def]

theorem word_lengths (L : Nat) (ts : List (List Char)) (hF : ∀ t ∈ ts, ∀ c ∈ t, (F c).Nodup)
    (hlen : ∀ t ∈ ts, ∀ c ∈ t, ∀ s ∈ F c, s.length = L) :
    ∀ w ∈ termsS (· ++ ·) [] (W F) ts, ∀ s ∈ w, s.length = L := by
  intro w hw s hs
  unfold termsS at hw
  obtain ⟨t, ht, hwt⟩ := List.mem_flatMap.1 hw
  obtain ⟨hl, hm⟩ := (termS_words F t (hF t ht)).2 w hwt
  obtain ⟨i, hi, rfl⟩ := List.getElem_of_mem hs
  have hi' : i < (canonTerm t).length := by omega
  exact hlen t ht _ (mem_canonTerm t _ (List.getElem_mem hi')) _ (hm i hi hi')

/-- [whole call, names only] all monomial names of all terms are pairwise distinct, and each has a length divisible by L -/
theorem termsS_names_nodup (L : Nat) (hL : 1 ≤ L) (ts : List (List Char))
    (hF : ∀ t ∈ ts, ∀ c ∈ t, (F c).Nodup)
    (hlen : ∀ t ∈ ts, ∀ c ∈ t, ∀ s ∈ F c, s.length = L)
    (hhd : ∀ t ∈ ts, ∀ c ∈ t, ∀ s ∈ F c, hd s = some c)
    (hts : (ts.map canonTerm).Nodup) :
    (termsS strMul "" F ts).Nodup ∧ ∀ n ∈ termsS strMul "" F ts, L ∣ n.length := by
  rw [names_eq_map_words]
  have hwl := word_lengths F L ts hF hlen
  constructor
  · refine List.Nodup.map_on ?_ (termsS_words_nodup F ts hhd hF hts)
    intro w hw w' hw' e
    exact monoName_inj_of_equal_length L hL w w' (hwl w hw) (hwl w' hw') e
  · intro n hn
    obtain ⟨w, hw, rfl⟩ := List.mem_map.1 hn
    unfold joinW
    rw [monoName_length L w (hwl w hw)]
    exact Dvd.intro_left _ rfl
end

theorem sparseMonos_names (is : List Inter) (kw : List (Char × NsVal)) :
    (sparseMonos is kw).map (·.1)
      = termsS strMul "" (fun c => (featsSparse kw c).map (·.1)) (dedupFirst (strTerms is))
        ++ (if constant is ≠ 0 then ["const"] else []) := by
  unfold sparseMonos
  rw [List.map_append, termsS_map pairMul pairOne strMul "" (·.1) (fun _ _ => rfl) rfl]
  by_cases hc : constant is ≠ 0 <;> simp [hc]

/-- [whole call] every namespace named by the terms has names of one common length `L ≥ 1` that start with the namespace
letter, no two terms are the same up to regrouping of their letters, and the constant entry (name `const`, 5 characters)
is absent or cannot be a monomial name (`L ∤ 5`): then no two named monomials of the call share a name -/
theorem sparse_call_no_collision' (L : Nat) (hL : 1 ≤ L) (is : List Inter) (kw : List (Char × NsVal))
    (hlen : ∀ t ∈ strTerms is, ∀ c ∈ t, ∀ p ∈ featsSparse kw c, p.1.length = L)
    (hhd : ∀ t ∈ strTerms is, ∀ c ∈ t, ∀ p ∈ featsSparse kw c, hd p.1 = some c)
    (hts : ((dedupFirst (strTerms is)).map canonTerm).Nodup)
    (hconst : constant is = 0 ∨ 5 % L ≠ 0) :
    ((sparseMonos is kw).map (·.1)).Nodup := by
  rw [sparseMonos_names]
  have hmem : ∀ t ∈ dedupFirst (strTerms is), t ∈ strTerms is := fun t ht => (mem_dedupFirst _ _).1 ht
  obtain ⟨hn, hd5⟩ := termsS_names_nodup (fun c => (featsSparse kw c).map (·.1)) L hL (dedupFirst (strTerms is))
    (fun t _ c _ => by unfold featsSparse sparseFeats; exact dictOf_keys_nodup' _)
    (fun t ht c hc s hs => by obtain ⟨p, hp, rfl⟩ := List.mem_map.1 hs; exact hlen t (hmem t ht) c hc p hp)
    (fun t ht c hc s hs => by obtain ⟨p, hp, rfl⟩ := List.mem_map.1 hs; exact hhd t (hmem t ht) c hc p hp)
    hts
  by_cases hc : constant is ≠ 0
  · rw [if_pos hc]
    rw [List.nodup_append]
    refine ⟨hn, by simp, ?_⟩
    intro a ha b hb
    simp at hb; subst hb
    intro e; subst e
    have := hd5 _ ha
    rcases hconst with h0 | h5
    · exact hc h0
    · apply h5
      have h5' : ("const" : String).length = 5 := by decide
      rw [h5'] at this
      exact Nat.mod_eq_zero_of_dvd this
  · rw [if_neg hc]; simpa using hn


theorem featsSparse_hd (kw : List (Char × NsVal)) (c : Char) : ∀ p ∈ featsSparse kw c, hd p.1 = some c := by
  intro p hp
  have hk : p.1 ∈ (featsSparse kw c).map (·.1) := List.mem_map.2 ⟨p, hp, rfl⟩
  unfold featsSparse sparseFeats at hk
  rw [dictOf_keys_mem] at hk
  simp only [List.map_map, List.mem_map, Function.comp_def] at hk
  obtain ⟨kv, _, e⟩ := hk
  rw [← e]
  show (String.singleton c ++ kv.1.fmt).toList.head? = some c
  rw [String.toList_append, String.toList_singleton]; rfl

/-- the whole-call condition as the decidable predicate the driver evaluates -/
theorem equalLenOK_no_collision' (L : Nat) (is : List Inter) (kw : List (Char × NsVal)) (h : equalLenOK L is kw = true) :
    collides is kw = false := by
  simp only [equalLenOK, Bool.and_eq_true, Bool.or_eq_true, decide_eq_true_eq, List.all_eq_true, beq_iff_eq,
    Bool.not_eq_true', hasDup_eq_false_iff] at h
  obtain ⟨⟨⟨hL, hlen⟩, hts⟩, hconst⟩ := h
  have := sparse_call_no_collision' L hL is kw hlen (fun t _ c _ p hp => featsSparse_hd kw c p hp) hts hconst
  unfold collides
  exact (hasDup_eq_false_iff _).2 this

/-! ## Part 21 (phase 6): ownership histories — caller edits of the term list / of handed-out results -/

theorem ownRunFrom_code' (cfg : Cfg) (ops : List OwnOp) : ∀ s : OwnState,
    (ownRunFrom OwnCfg.code cfg s ops).1 = (ownCalls ops).map (encode cfg s.encTerms)
    ∧ (ownRunFrom OwnCfg.code cfg s ops).2.encTerms = s.encTerms := by
  induction ops with
  | nil => intro s; simp [ownRunFrom, ownCalls]
  | cons op ops ih =>
    intro s
    cases op with
    | encode kw =>
      have h := ih { s with results := s.results ++ [encode cfg s.encTerms kw] }
      have ht : s.termsRead OwnCfg.code = s.encTerms := rfl
      simp only [ownRunFrom, OwnState.step, ht, ownCalls, List.map_cons]
      exact ⟨by rw [h.1], h.2⟩
    | editResult k o =>
      have h := ih { s with results := s.results.set k (.ok o) }
      simp only [ownRunFrom, OwnState.step, ownCalls]
      exact h
    | editTerms is =>
      have h := ih { s with callerTerms := is }
      simp only [ownRunFrom, OwnState.step, ownCalls]
      exact h

theorem own_history_eq_spec' (is : List Inter) (ops : List OwnOp) (hne : ∀ t ∈ strTerms is, t ≠ []) :
    (ownRun OwnCfg.code Cfg.fixed is ops).1 = (ownCalls ops).map (fun kw => .ok (encodeS is kw))
    ∧ (ownRun OwnCfg.code Cfg.fixed is ops).2.encTerms = is := by
  obtain ⟨h1, h2⟩ := ownRunFrom_code' Cfg.fixed ops (OwnState.init is)
  refine ⟨?_, h2⟩
  unfold ownRun
  rw [h1]
  apply List.map_congr_left
  intro kw _
  exact encode_eq_spec' is kw hne

theorem own_results_length' (oc : OwnCfg) (cfg : Cfg) (ops : List OwnOp) : ∀ s : OwnState,
    (ownRunFrom oc cfg s ops).2.results.length = s.results.length + (ownCalls ops).length := by
  induction ops with
  | nil => intro s; simp [ownRunFrom, ownCalls]
  | cons op ops ih =>
    intro s
    cases op with
    | encode kw =>
      simp only [ownRunFrom, OwnState.step, ownCalls, List.length_cons]
      rw [ih]; simp; omega
    | editResult k o =>
      simp only [ownRunFrom, OwnState.step, ownCalls]
      rw [ih]; simp
    | editTerms is =>
      simp only [ownRunFrom, OwnState.step, ownCalls]
      rw [ih]

theorem own_keep_terms_counterexample' :
    (ownRun ⟨false⟩ Cfg.fixed [.term ['x']]
        [.editTerms [.term ['x'], .term ['x', 'x']], .encode [('x', .dense [.num 2])]]).1
      = [.ok (.dense [2, 4])]
    ∧ (ownRun OwnCfg.code Cfg.fixed [.term ['x']]
        [.editTerms [.term ['x'], .term ['x', 'x']], .encode [('x', .dense [.num 2])]]).1
      = [.ok (.dense [2])] := by decide +kernel

end Coba.C20
