/-
C07 — helper lemmas for `Props/C07.lean` (model: `Model/C07.lean`).
-/
import CobaVerif.Model.C07
import CobaVerif.Generated.C07Consts
import Mathlib.Tactic.Linarith
import Mathlib.Tactic.Ring
import Mathlib.Tactic.FieldSimp
import Mathlib.Tactic.Positivity
import Mathlib.Algebra.Order.Field.Rat
import Mathlib.Data.Rat.Floor
import Mathlib.Data.Nat.Log
import Mathlib.Data.List.Basic
import Mathlib.Data.List.Nodup
import Mathlib.Data.List.Perm.Basic
import Mathlib.Data.String.Basic
import Mathlib.Order.Basic
import Mathlib.Data.List.Lex
import Mathlib.Algebra.Order.Field.Power
set_option linter.unusedSimpArgs false
set_option linter.unusedSectionVars false
set_option linter.unusedVariables false

namespace Coba.C07


/-! ### value-level lemmas -/

theorem jsonify_minFlt (rnd : Rat → Rat) (q : Rat) : jsonify (minFlt rnd q) = minFlt rnd q := by
  unfold minFlt
  split
  · simp [jsonify]
  · split <;> simp [jsonify]

mutual
theorem wire_eq_normIn (rnd : Rat → Rat) : ∀ v : Val, jsonify (minimize rnd v) = normIn rnd v
  | .flt q => by simp [minimize, normIn, jsonify_minFlt]
  | .list xs => by simp [minimize, normIn, jsonify, wireL_eq_normInL rnd xs]
  | .tup xs => by simp [minimize, normIn, jsonify, wireL_eq_normInL rnd xs]
  | .dict kvs => by simp [minimize, normIn, jsonify, wireD_eq_normInD rnd kvs]
  | .none => by simp [minimize, normIn, jsonify]
  | .bool _ => by simp [minimize, normIn, jsonify]
  | .int _ => by simp [minimize, normIn, jsonify]
  | .nan => by simp [minimize, normIn, jsonify]
  | .inf _ => by simp [minimize, normIn, jsonify]
  | .str _ => by simp [minimize, normIn, jsonify]
  | .reward _ _ => by simp [minimize, normIn, jsonify]
theorem wireL_eq_normInL (rnd : Rat → Rat) : ∀ xs : List Val, jsonifyL (minimizeL rnd xs) = normInL rnd xs
  | [] => by simp [minimizeL, normInL, jsonifyL]
  | x :: xs => by simp [minimizeL, normInL, jsonifyL, wire_eq_normIn rnd x, wireL_eq_normInL rnd xs]
theorem wireD_eq_normInD (rnd : Rat → Rat) : ∀ kvs : PyDict, jsonifyD (minimizeD rnd kvs) = normInD rnd kvs
  | [] => by simp [minimizeD, normInD, jsonifyD]
  | (k, v) :: kvs => by simp [minimizeD, normInD, jsonifyD, wire_eq_normIn rnd v, wireD_eq_normInD rnd kvs]
end

theorem wire_eq (rnd : Rat → Rat) (v : Val) : wire rnd v = normIn rnd v := wire_eq_normIn rnd v

theorem tupTop_minFlt (rnd : Rat → Rat) (q : Rat) : tupTop (minFlt rnd q) = minFlt rnd q := by
  unfold minFlt
  split
  · simp [tupTop]
  · split <;> simp [tupTop]

theorem tupTop_normIn (rnd : Rat → Rat) (v : Val) : tupTop (normIn rnd v) = normTop rnd v := by
  cases v with
  | flt q => simp only [normIn, normTop]; exact tupTop_minFlt rnd q
  | _ => simp [normIn, normTop, tupTop]

theorem tupTop_wire (rnd : Rat → Rat) (v : Val) : tupTop (wire rnd v) = normTop rnd v := by
  rw [wire_eq, tupTop_normIn]

theorem normParams_eq (rnd : Rat → Rat) (p : PyDict) :
    (wireDict rnd p).map (fun kv => (kv.1, tupTop kv.2)) = normParams rnd p := by
  induction p with
  | nil => simp [wireDict, normParams]
  | cons kv p ih => obtain ⟨k, v⟩ := kv; simp [wireDict, normParams, tupTop_wire, ih]

/-! ### minimize is idempotent -/

theorem minimize_minFlt (rnd : Rat → Rat) (q : Rat) (h : rnd (rnd q) = rnd q) :
    minimize rnd (minFlt rnd q) = minFlt rnd q := by
  unfold minFlt
  split
  · simp [minimize]
  · split
    · simp [minimize]
    · rename_i h1 h2
      simp [minimize, minFlt, h, h2]

mutual
theorem minimize_idem (rnd : Rat → Rat) : ∀ v : Val, (∀ q ∈ fltLeaves v, rnd (rnd q) = rnd q) →
    minimize rnd (minimize rnd v) = minimize rnd v
  | .flt q, h => by simp [minimize, minimize_minFlt rnd q (h q (by simp [fltLeaves]))]
  | .list xs, h => by simp [minimize, minimizeL_idem rnd xs (fun q hq => h q (by simpa [fltLeaves] using hq))]
  | .tup xs, h => by simp [minimize, minimizeL_idem rnd xs (fun q hq => h q (by simpa [fltLeaves] using hq))]
  | .dict kvs, h => by simp [minimize, minimizeD_idem rnd kvs (fun q hq => h q (by simpa [fltLeaves] using hq))]
  | .none, _ => by simp [minimize]
  | .bool _, _ => by simp [minimize]
  | .int _, _ => by simp [minimize]
  | .nan, _ => by simp [minimize]
  | .inf _, _ => by simp [minimize]
  | .str _, _ => by simp [minimize]
  | .reward _ _, _ => by simp [minimize]
theorem minimizeL_idem (rnd : Rat → Rat) : ∀ xs : List Val, (∀ q ∈ fltLeavesL xs, rnd (rnd q) = rnd q) →
    minimizeL rnd (minimizeL rnd xs) = minimizeL rnd xs
  | [], _ => by simp [minimizeL]
  | x :: xs, h => by
    simp [minimizeL, minimize_idem rnd x (fun q hq => h q (by simp [fltLeavesL, hq])),
      minimizeL_idem rnd xs (fun q hq => h q (by simp [fltLeavesL, hq]))]
theorem minimizeD_idem (rnd : Rat → Rat) : ∀ kvs : PyDict, (∀ q ∈ fltLeavesD kvs, rnd (rnd q) = rnd q) →
    minimizeD rnd (minimizeD rnd kvs) = minimizeD rnd kvs
  | [], _ => by simp [minimizeD]
  | (k, v) :: kvs, h => by
    simp [minimizeD, minimize_idem rnd v (fun q hq => h q (by simp [fltLeavesD, hq])),
      minimizeD_idem rnd kvs (fun q hq => h q (by simp [fltLeavesD, hq]))]
end

/-! ### packing and unpacking -/

def packF (g : String → PyDict → Val) (keys : List String) (rows : List PyDict) : Cols :=
  keys.map (fun s => (s, rows.map (g s)))

theorem unpackN_packF (g : String → PyDict → Val) (keys : List String) (rows : List PyDict) :
    unpackN rows.length (packF g keys rows) = rows.map (fun r => keys.map (fun s => (s, g s r))) := by
  induction rows with
  | nil => simp [unpackN]
  | cons r rs ih =>
    simp only [List.length_cons, unpackN, List.map_cons]
    congr 1
    · simp [heads, packF]
    · have : tails (packF g keys (r :: rs)) = packF g keys rs := by simp [tails, packF]
      rw [this, ih]

theorem packWith_eq (keys : List String) (rows : List PyDict) : packWith keys rows = packF cellOf keys rows := rfl

theorem wireCols_packF (rnd : Rat → Rat) (g) (keys : List String) (rows : List PyDict) :
    wireCols rnd (packF g keys rows) = packF (fun s r => wire rnd (g s r)) keys rows := by
  simp [wireCols, packF, Function.comp_def]

theorem tupleColsPerCell_packF (g) (keys : List String) (rows : List PyDict) :
    tupleColsPerCell (packF g keys rows) = packF (fun s r => if s = "rewards" then g s r else tupTop (g s r)) keys rows := by
  simp only [tupleColsPerCell, packF, List.map_map]
  apply List.map_congr_left
  intro s _
  by_cases h : s = "rewards" <;> simp [h, Function.comp_def]

theorem filter_packF (p : String → Bool) (g) (keys : List String) (rows : List PyDict) :
    (packF g keys rows).filter (fun c => p c.1) = packF g (keys.filter p) rows := by
  simp [packF, List.filter_map, Function.comp_def]

theorem firstLen_packF (g) (keys : List String) (rows : List PyDict) (h : keys ≠ []) :
    firstLen (packF g keys rows) = rows.length := by
  cases keys with
  | nil => exact absurd rfl h
  | cons k ks => simp [packF, firstLen]

theorem normCell_eq (rnd : Rat → Rat) (s : String) (c : Val) :
    (if s = "rewards" then wire rnd c else tupTop (wire rnd c)) = normCell rnd s c := by
  unfold normCell
  by_cases h : s = "rewards" <;> simp [h, wire_eq, tupTop_wire, ← wire_eq]

/-- one transaction through the repaired encoder and reader -/
theorem triRows_pack (rnd : Rat → Rat) (e l v : Int) (rows : List PyDict) (n : Nat) (h : strKeys rows ≠ []) :
    triRows true e l v (wireCols rnd (pack rows)) n = .ok (specRows rnd e l v rows) := by
  have hne : (wireCols rnd (pack rows)).isEmpty = false := by
    cases hk : strKeys rows with
    | nil => exact absurd hk h
    | cons k ks => simp [pack, packWith, wireCols, hk]
  simp only [triRows, hne, tupleCols, if_true, Bool.false_eq_true, if_false]
  simp only [pack, packWith_eq, wireCols_packF, tupleColsPerCell_packF, firstLen_packF _ _ _ h]
  rw [filter_packF (fun s => !idCols.contains s), unpackN_packF]
  simp only [specRows, normCell_eq]
  rfl



theorem number_length (e l v : Int) (i : Nat) (rs : List Row) : (number e l v i rs).length = rs.length := by
  induction rs generalizing i with
  | nil => simp [number]
  | cons r rs ih => simp [number, ih]

theorem lookup_index_idCells (e l v : Int) (i : Nat) (r : Row) :
    (idCells e l v i ++ r).lookup "index" = some (Val.int i) := by
  simp [idCells, List.lookup]

theorem number_index (e l v : Int) (i : Nat) (rs : List Row) :
    (number e l v i rs).map (fun r => r.lookup "index") = (List.range' i rs.length).map (fun (j : Nat) => some (Val.int (j : Int))) := by
  induction rs generalizing i with
  | nil => simp [number]
  | cons r rs ih =>
    simp only [number, List.map_cons, List.length_cons, List.range'_succ, lookup_index_idCells, ih]

theorem number_ids (e l v : Int) (i : Nat) (rs : List Row) :
    ∀ r ∈ number e l v i rs, r.lookup "environment_id" = some (Val.int e) ∧ r.lookup "learner_id" = some (Val.int l)
      ∧ r.lookup "evaluator_id" = some (Val.int v) := by
  induction rs generalizing i with
  | nil => simp [number]
  | cons r rs ih =>
    intro x hx
    simp only [number, List.mem_cons] at hx
    rcases hx with rfl | hx
    · simp [idCells, List.lookup]
    · exact ih _ x hx

/-! first-row decision -/
theorem mapTuple_all_list (col : List Val) (h : col.all isList = true) : mapTuple col = .ok (col.map tupTop) := by
  induction col with
  | nil => simp [mapTuple]
  | cons c cs ih =>
    simp only [List.all_cons, Bool.and_eq_true] at h
    obtain ⟨hc, hcs⟩ := h
    cases c <;> simp [isList] at hc
    simp [mapTuple, pyTuple, ih hcs, tupTop]

theorem map_tupTop_no_list (col : List Val) (h : col.all (fun c => !isList c) = true) : col.map tupTop = col := by
  induction col with
  | nil => simp
  | cons c cs ih =>
    simp only [List.all_cons, Bool.and_eq_true] at h
    obtain ⟨hc, hcs⟩ := h
    cases c <;> simp [isList] at hc <;> simp [tupTop, ih hcs]

theorem first_row_tuple_partial' (cols : Cols) (h : firstRowDecides cols = true) :
    tupleColsFirstRow cols = .ok (tupleColsPerCell cols) := by
  induction cols with
  | nil => simp [tupleColsFirstRow, tupleColsPerCell]
  | cons c cs ih =>
    obtain ⟨k, col⟩ := c
    simp only [firstRowDecides, Bool.and_eq_true, Bool.or_eq_true, beq_iff_eq] at h
    obtain ⟨hk, hcs⟩ := h
    have ih' := ih hcs
    simp only [tupleColsPerCell] at ih'
    simp only [tupleColsFirstRow, ih', tupleColsPerCell, List.map_cons]
    by_cases hr : k = "rewards"
    · simp [hr]
    · simp only [hr, if_false]
      rcases hk with hk | hk
      · exact absurd hk hr
      · cases col with
        | nil => simp
        | cons c0 rest =>
          simp only at hk
          by_cases hl : isList c0 = true
          · simp only [hl, if_true] at hk ⊢
            rw [mapTuple_all_list _ hk]
          · simp only [hl, if_false] at hk ⊢
            simp only [Bool.not_eq_true] at hl
            rw [map_tupTop_no_list _ hk]
            simp [hl]

theorem first_row_tuple_counterexample' :
    tupleColsFirstRow [("a", [Val.none, Val.list [Val.int 1]])] ≠ .ok (tupleColsPerCell [("a", [Val.none, Val.list [Val.int 1]])]) := by
  simp [tupleColsFirstRow, tupleColsPerCell, isList, tupTop]

theorem first_row_tuple_typeError' :
    tupleColsFirstRow [("a", [Val.list [Val.int 1], Val.none])] = .error .typeError := by
  simp [tupleColsFirstRow, isList, mapTuple, pyTuple]

theorem first_row_tuple_str_split' :
    tupleColsFirstRow [("a", [Val.list [Val.int 1], Val.str "xy"])] = .ok [("a", [Val.tup [Val.int 1], Val.tup [Val.str "x", Val.str "y"]])] := by
  rfl



/-! ### insertion-ordered dictionaries -/
section
variable {α β : Type} [DecidableEq α]

theorem upsert_not_mem (k : α) (v : β) (l : List (α × β)) (h : k ∉ l.map (·.1)) : upsert k v l = l ++ [(k, v)] := by
  induction l with
  | nil => simp [upsert]
  | cons kv l ih =>
    obtain ⟨k', v'⟩ := kv
    simp only [List.map_cons, List.mem_cons, not_or] at h
    have hne : ¬ k' = k := fun e => h.1 e.symm
    simp [upsert, hne, ih h.2]

theorem lookup_not_mem [BEq α] [LawfulBEq α] (k : α) (l : List (α × β)) (h : k ∉ l.map (·.1)) : l.lookup k = none := by
  induction l with
  | nil => simp
  | cons kv l ih =>
    obtain ⟨k', v'⟩ := kv
    simp only [List.map_cons, List.mem_cons, not_or] at h
    have : (k == k') = false := by simpa using h.1
    simp [List.lookup, this, ih h.2]
end

theorem update_disjoint (d r : Row) (hr : (r.map (·.1)).Nodup) (hd : ∀ k ∈ r.map (·.1), k ∉ d.map (·.1)) : update d r = d ++ r := by
  unfold update
  induction r generalizing d with
  | nil => simp
  | cons kv r ih =>
    obtain ⟨k, v⟩ := kv
    simp only [List.map_cons, List.nodup_cons] at hr
    simp only [List.foldl_cons]
    have hk : k ∉ d.map (·.1) := hd k (by simp)
    rw [upsert_not_mem k v d hk, ih (d ++ [(k, v)]) hr.2]
    · simp
    · intro k' hk'
      simp only [List.map_append, List.map_cons, List.map_nil, List.mem_append, List.mem_singleton, not_or]
      refine ⟨hd k' (by simp [hk']), ?_⟩
      rintro rfl
      exact hr.1 hk'

/-! ### sorting -/
section
variable {α β : Type}
theorem insertBy_map (f : α → β) (lt : α → α → Bool) (lt' : β → β → Bool) (h : ∀ a b, lt' (f a) (f b) = lt a b) (x : α) (l : List α) :
    insertBy lt' (f x) (l.map f) = (insertBy lt x l).map f := by
  induction l with
  | nil => simp [insertBy]
  | cons y ys ih =>
    simp only [List.map_cons, insertBy, h]
    split <;> simp [ih]

theorem sortBy_map (f : α → β) (lt : α → α → Bool) (lt' : β → β → Bool) (h : ∀ a b, lt' (f a) (f b) = lt a b) (l : List α) :
    sortBy lt' (l.map f) = (sortBy lt l).map f := by
  induction l with
  | nil => simp [sortBy]
  | cons x xs ih =>
    simp only [sortBy, List.map_cons, List.foldr_cons] at ih ⊢
    rw [ih, insertBy_map f lt lt' h]

theorem insertBy_perm (lt : α → α → Bool) (x : α) (l : List α) : (insertBy lt x l).Perm (x :: l) := by
  induction l with
  | nil => simp [insertBy]
  | cons y ys ih =>
    simp only [insertBy]
    split
    · exact List.Perm.refl _
    · exact (List.Perm.cons y ih).trans (List.Perm.swap x y ys)

theorem sortBy_perm (lt : α → α → Bool) (l : List α) : (sortBy lt l).Perm l := by
  induction l with
  | nil => simp [sortBy]
  | cons x xs ih =>
    simp only [sortBy, List.foldr_cons] at ih ⊢
    exact (insertBy_perm lt x _).trans (List.Perm.cons x ih)
end

/-! ### params tables -/
theorem compsOf_encode (rnd : Rat → Rat) (f : Bool) (t : Tbl) (txs : List Tx) :
    compsOf t (txs.map (encodeTx rnd f)) = (paramsOf t txs).map (fun ip => (ip.1, wireDict rnd ip.2)) := by
  induction txs with
  | nil => simp [compsOf, paramsOf]
  | cons tx txs ih =>
    cases tx <;> cases t <;> simp [encodeTx, compsOf, paramsOf, ih]

theorem foldl_mergeComp_nodup (ps : List (Int × Row)) (acc : List (Int × Row))
    (hnd : (ps.map (·.1)).Nodup) (hdis : ∀ ip ∈ ps, ip.1 ∉ acc.map (·.1)) :
    ps.foldl mergeComp acc = acc ++ ps.map (fun ip => (ip.1, update [] (ip.2.map (fun kv => (kv.1, tupTop kv.2))))) := by
  induction ps generalizing acc with
  | nil => simp
  | cons ip ps ih =>
    simp only [List.map_cons, List.nodup_cons] at hnd
    have h1 : ip.1 ∉ acc.map (·.1) := hdis ip (by simp)
    simp only [List.foldl_cons, List.map_cons]
    have hm : mergeComp acc ip = acc ++ [(ip.1, update [] (ip.2.map (fun kv => (kv.1, tupTop kv.2))))] := by
      simp only [mergeComp, lookup_not_mem ip.1 acc h1]
      exact upsert_not_mem _ _ _ h1
    rw [hm, ih _ hnd.2]
    · simp
    · intro jp hj
      simp only [List.map_append, List.map_cons, List.map_nil, List.mem_append, List.mem_singleton, not_or]
      refine ⟨hdis jp (by simp [hj]), ?_⟩
      intro e
      exact hnd.1 (e ▸ List.mem_map_of_mem hj)

theorem wireDict_keys (rnd : Rat → Rat) (p : PyDict) : (wireDict rnd p).map (·.1) = p.map (·.1.json) := by
  induction p with
  | nil => simp [wireDict]
  | cons kv p ih => obtain ⟨k, v⟩ := kv; simp [wireDict, ih]

theorem normParams_keys (rnd : Rat → Rat) (p : PyDict) : (normParams rnd p).map (·.1) = p.map (·.1.json) := by
  induction p with
  | nil => simp [normParams]
  | cons kv p ih => obtain ⟨k, v⟩ := kv; simp [normParams, ih]


/-! ### the params tables of a log -/
theorem compTable_encode (rnd : Rat → Rat) (f : Bool) (t : Tbl) (txs : List Tx)
    (hid : ((paramsOf t txs).map (·.1)).Nodup)
    (hk : ∀ ip ∈ paramsOf t txs, (ip.2.map (·.1.json)).Nodup ∧ idColName t ∉ ip.2.map (·.1.json)) :
    compTable t (txs.map (encodeTx rnd f)) = specParams rnd t txs := by
  unfold compTable compRows specParams
  rw [compsOf_encode]
  have hnd : (((paramsOf t txs).map (fun ip => (ip.1, wireDict rnd ip.2))).map (·.1)).Nodup := by
    simpa [List.map_map, Function.comp_def] using hid
  rw [foldl_mergeComp_nodup _ [] hnd (by simp)]
  simp only [List.nil_append, List.map_map, Function.comp_def]
  rw [sortBy_map (fun ip : Int × PyDict => (ip.1, update [] ((wireDict rnd ip.2).map (fun kv => (kv.1, tupTop kv.2))))) ltIdP ltId
        (by intro a b; rfl)]
  rw [List.map_map]
  apply List.map_congr_left
  intro ip hip
  have hip' : ip ∈ paramsOf t txs := (sortBy_perm ltIdP _).mem_iff.mp hip
  obtain ⟨h1, h2⟩ := hk ip hip'
  simp only [Function.comp_def, normParams_eq]
  rw [update_disjoint [] _ (by rw [normParams_keys]; exact h1) (by simp)]
  rw [List.nil_append, update_disjoint _ _ (by rw [normParams_keys]; exact h1)]
  · rfl
  · intro k hk'
    rw [normParams_keys] at hk'
    simp only [List.map_cons, List.map_nil, List.mem_singleton]
    rintro rfl
    exact h2 hk'

/-! ### the interactions table of a log -/
theorem intersOf_encode (rnd : Rat → Rat) (f : Bool) (txs : List Tx) :
    intersOf (txs.map (encodeTx rnd f)) = (t4sOf txs).map (fun ir => (ir.1, packedOf rnd f ir.2)) := by
  induction txs with
  | nil => simp [intersOf, t4sOf]
  | cons tx txs ih => cases tx <;> simp [encodeTx, intersOf, t4sOf, ih, packedOf]

theorem foldl_mergeInter_nodup (l : List (List Int × Packed)) (acc : List (List Int × Packed))
    (h3 : ∀ ic ∈ l, ic.1.length = 3) (hnd : (l.map (·.1)).Nodup) (hdis : ∀ ic ∈ l, ic.1 ∉ acc.map (·.1)) :
    l.foldl mergeInter acc = acc ++ l := by
  induction l generalizing acc with
  | nil => simp
  | cons ic l ih =>
    simp only [List.map_cons, List.nodup_cons] at hnd
    have h1 : ic.1 ∉ acc.map (·.1) := hdis ic (by simp)
    have hl : ic.1.length = 3 := h3 ic (by simp)
    simp only [List.foldl_cons]
    have hm : mergeInter acc ic = acc ++ [ic] := by
      simp only [mergeInter, hl]
      simpa using upsert_not_mem ic.1 ic.2 acc h1
    rw [hm, ih _ (fun x hx => h3 x (by simp [hx])) hnd.2]
    · simp
    · intro jc hj
      simp only [List.map_append, List.map_cons, List.map_nil, List.mem_append, List.mem_singleton, not_or]
      refine ⟨hdis jc (by simp [hj]), ?_⟩
      intro e
      exact hnd.1 (e ▸ List.mem_map_of_mem hj)

/-- pre-`_n` logs (`n = 0`): right when some row has a field or there is no row -/
theorem triRows_pack' (rnd : Rat → Rat) (e l v : Int) (rows : List PyDict) (h : strKeys rows ≠ [] ∨ rows = []) :
    triRows true e l v (wireCols rnd (pack rows)) 0 = .ok (specRows rnd e l v rows) := by
  rcases h with h | h
  · exact triRows_pack rnd e l v rows 0 h
  · subst h
    simp [triRows, pack, packWith, strKeys, sortDedup, wireCols, specRows, number]

theorem normRow_nil (rnd : Rat → Rat) (row : PyDict) : normRow rnd [] row = [] := by simp [normRow]

/-- [phase 2] with `_n` recorded: every evaluation, rows without fields included -/
theorem triRows_packedOf (rnd : Rat → Rat) (e l v : Int) (rows : List PyDict) :
    triRows true e l v (packedOf rnd true rows).1 (packedOf rnd true rows).2 = .ok (specRows rnd e l v rows) := by
  by_cases h : strKeys rows = []
  · have hc : wireCols rnd (pack rows) = [] := by simp [pack, packWith, wireCols, h]
    simp only [packedOf, if_true, hc, List.isEmpty_nil, triRows, specRows, h]
    congr 2
    have hrep : ∀ rs : List PyDict, List.replicate rs.length ([] : Row) = rs.map (normRow rnd []) := by
      intro rs
      induction rs with
      | nil => simp
      | cons r rs ih => simp [List.replicate_succ, normRow_nil, ih]
    exact hrep rows
  · simp only [packedOf, if_true]
    exact triRows_pack rnd e l v rows _ h

theorem interTable_spec (rnd : Rat → Rat) (l : List (List Int × List PyDict)) (h : ∀ ir ∈ l, WellFormed ir) :
    interTable true (l.map (fun ir => (ir.1, packedOf rnd true ir.2))) = .ok (l.flatMap (specRowsOf rnd)) := by
  induction l with
  | nil => simp [interTable]
  | cons ir l ih =>
    obtain ⟨ids, rows⟩ := ir
    have h3 : ids.length = 3 := h (ids, rows) (by simp)
    match ids, h3 with
    | [e, l', v], _ =>
      simp only [List.map_cons, interTable, triRows_packedOf rnd e l' v rows, ih (fun x hx => h x (by simp [hx])),
        List.flatMap_cons, specRowsOf]

theorem interactions_encode (rnd : Rat → Rat) (txs : List Tx)
    (hw : ∀ ir ∈ t4sOf txs, WellFormed ir) (hnd : ((t4sOf txs).map (·.1)).Nodup) :
    interTable true (interRecs (txs.map (encodeTx rnd true))) = .ok (specInteractions rnd txs) := by
  unfold interRecs specInteractions
  rw [intersOf_encode]
  rw [foldl_mergeInter_nodup _ [] (by intro ic hic; simp only [List.mem_map] at hic; obtain ⟨ir, hir, rfl⟩ := hic; exact hw ir hir)
        (by simpa [List.map_map, Function.comp_def] using hnd) (by simp)]
  rw [List.nil_append, sortBy_map (fun ir : List Int × List PyDict => (ir.1, packedOf rnd true ir.2)) ltTriP ltTri (by intro a b; rfl)]
  apply interTable_spec
  intro ir hir
  exact hw ir ((sortBy_perm ltTriP _).mem_iff.mp hir)


/-! ### whole logs -/
theorem intersOf_skip (info : PyDict) (rnd : Rat → Rat) (f : Bool) (txs : List Tx) :
    t4sOf (.t0 info :: txs) = t4sOf txs := rfl

theorem runNoFile_spec (rnd : Rat → Rat) (info : PyDict) (txs : List Tx)
    (hw : ∀ ir ∈ t4sOf txs, WellFormed ir) (hnd : ((t4sOf txs).map (·.1)).Nodup) :
    ∃ res, runNoFile rnd true true info txs = .ok res ∧ res.interactions = specInteractions rnd txs
      ∧ res.environments = compTable .E ((Tx.t0 info :: txs).map (encodeTx rnd true))
      ∧ res.learners = compTable .L ((Tx.t0 info :: txs).map (encodeTx rnd true))
      ∧ res.evaluators = compTable .V ((Tx.t0 info :: txs).map (encodeTx rnd true)) := by
  have h := interactions_encode rnd (.t0 info :: txs) hw hnd
  simp only [runNoFile, encode, Bool.false_eq_true, if_false, List.singleton_append, readLog, ne_eq, not_true_eq_false, h]
  exact ⟨_, rfl, rfl, rfl, rfl, rfl⟩

theorem params_of_t0 (t : Tbl) (info : PyDict) (txs : List Tx) : paramsOf t (.t0 info :: txs) = paramsOf t txs := rfl

/-! ### routes -/
theorem encode_append (rnd : Rat → Rat) (f : Bool) (info : PyDict) (txs1 txs2 : List Tx) :
    encode rnd f false (.t0 info :: txs1) ++ encode rnd f true txs2 = encode rnd f false (.t0 info :: (txs1 ++ txs2)) := by
  simp [encode]

/-! ### counterexamples -/
theorem empty_rows_dropped (rnd : Rat → Rat) :
    triRows true 0 0 0 (wireCols rnd (pack [[]])) 0 = .ok [] ∧ specRows rnd 0 0 0 [[]] = [idCells 0 0 0 1] := by
  constructor
  · rfl
  · simp [specRows, strKeys, sortDedup, rowStrs, normRow, number]


/-! ### the pinned encoder agrees with the repaired one when `str` is injective on the field names -/

theorem mem_insertKey (x : Key) (acc : List Key) (k : Key) : k ∈ insertKey x acc ↔ k ∈ acc ∨ k = x := by
  unfold insertKey
  by_cases hx : acc.contains x = true
  · have hm : x ∈ acc := by simpa using hx
    rw [if_pos hx]
    constructor
    · intro h; exact Or.inl h
    · rintro (h | rfl)
      · exact h
      · exact hm
  · rw [if_neg hx]
    simp

theorem nodup_insertKey (x : Key) (acc : List Key) (h : acc.Nodup) : (insertKey x acc).Nodup := by
  unfold insertKey
  by_cases hx : acc.contains x = true
  · rw [if_pos hx]; exact h
  · rw [if_neg hx]
    have hm : x ∉ acc := by simpa using hx
    rw [List.nodup_append]
    refine ⟨h, by simp, ?_⟩
    intro a ha b hb
    simp only [List.mem_singleton] at hb
    subst hb
    rintro rfl
    exact hm ha

theorem foldl_insertKey_mem (l : List Key) (acc : List Key) (k : Key) :
    k ∈ l.foldl (fun acc k => insertKey k acc) acc ↔ k ∈ acc ∨ k ∈ l := by
  induction l generalizing acc with
  | nil => simp
  | cons x xs ih =>
    simp only [List.foldl_cons]
    rw [ih, mem_insertKey, List.mem_cons]
    constructor
    · rintro ((h | h) | h)
      · exact Or.inl h
      · exact Or.inr (Or.inl h)
      · exact Or.inr (Or.inr h)
    · rintro (h | h | h)
      · exact Or.inl (Or.inl h)
      · exact Or.inl (Or.inr h)
      · exact Or.inr h

theorem foldl_insertKey_nodup (l : List Key) (acc : List Key) (h : acc.Nodup) :
    (l.foldl (fun acc k => insertKey k acc) acc).Nodup := by
  induction l generalizing acc with
  | nil => simpa
  | cons x xs ih =>
    simp only [List.foldl_cons]
    exact ih _ (nodup_insertKey x acc h)

theorem mem_unionKeys (rows : List PyDict) (k : Key) :
    k ∈ unionKeys rows ↔ ∃ r ∈ rows, k ∈ r.map (·.1) := by
  simp [unionKeys, foldl_insertKey_mem]

theorem nodup_unionKeys (rows : List PyDict) : (unionKeys rows).Nodup :=
  foldl_insertKey_nodup _ [] (by simp)

theorem insertByStr_perm (k : Key) (l : List Key) : (insertByStr k l).Perm (k :: l) := by
  induction l with
  | nil => simp [insertByStr]
  | cons y ys ih =>
    simp only [insertByStr]
    split
    · exact (List.Perm.cons y ih).trans (List.Perm.swap k y ys)
    · exact List.Perm.refl _

theorem sortByStr_perm (l : List Key) : (sortByStr l).Perm l := by
  induction l with
  | nil => simp [sortByStr]
  | cons x xs ih =>
    simp only [sortByStr, List.foldr_cons] at ih ⊢
    exact (insertByStr_perm x _).trans (List.Perm.cons x ih)

theorem insertByStr_sorted (k : Key) (l : List Key) (h : l.Pairwise (fun a b => a.pystr ≤ b.pystr)) :
    (insertByStr k l).Pairwise (fun a b => a.pystr ≤ b.pystr) := by
  induction l with
  | nil => simp [insertByStr]
  | cons y ys ih =>
    simp only [insertByStr]
    rw [List.pairwise_cons] at h
    split
    · rename_i hlt
      rw [List.pairwise_cons]
      refine ⟨?_, ih h.2⟩
      intro b hb
      rcases List.mem_cons.mp ((insertByStr_perm k ys).mem_iff.mp hb) with rfl | hb
      · exact le_of_lt hlt
      · exact h.1 b hb
    · rename_i hnlt
      rw [List.pairwise_cons]
      refine ⟨?_, List.pairwise_cons.mpr h⟩
      intro b hb
      rcases List.mem_cons.mp hb with rfl | hb
      · exact not_lt.mp hnlt
      · exact le_trans (not_lt.mp hnlt) (h.1 b hb)

theorem sortByStr_sorted (l : List Key) : (sortByStr l).Pairwise (fun a b => a.pystr ≤ b.pystr) := by
  induction l with
  | nil => simp [sortByStr]
  | cons x xs ih =>
    simp only [sortByStr, List.foldr_cons] at ih ⊢
    exact insertByStr_sorted x _ ih

theorem insertStr_mem (s : String) (l : List String) (t : String) : t ∈ insertStr s l ↔ t = s ∨ t ∈ l := by
  induction l with
  | nil => simp [insertStr]
  | cons y ys ih =>
    simp only [insertStr]
    split
    · simp
    · split
      · rename_i h; subst h; simp
      · simp only [List.mem_cons, ih]
        constructor
        · rintro (h | h | h) <;> simp [h]
        · rintro (h | h | h) <;> simp [h]

theorem insertStr_sorted (s : String) (l : List String) (h : l.Pairwise (· < ·)) : (insertStr s l).Pairwise (· < ·) := by
  induction l with
  | nil => simp [insertStr]
  | cons y ys ih =>
    simp only [insertStr]
    rw [List.pairwise_cons] at h
    split
    · rename_i hlt
      rw [List.pairwise_cons]
      refine ⟨?_, List.pairwise_cons.mpr h⟩
      intro b hb
      rcases List.mem_cons.mp hb with rfl | hb
      · exact hlt
      · exact lt_trans hlt (h.1 b hb)
    · split
      · exact List.pairwise_cons.mpr h
      · rename_i hnlt hne
        rw [List.pairwise_cons]
        refine ⟨?_, ih h.2⟩
        intro b hb
        rcases (insertStr_mem s ys b).mp hb with rfl | hb
        · exact lt_of_le_of_ne (not_lt.mp hnlt) (Ne.symm hne)
        · exact h.1 b hb

theorem sortDedup_mem (l : List String) (t : String) : t ∈ sortDedup l ↔ t ∈ l := by
  induction l with
  | nil => simp [sortDedup]
  | cons x xs ih =>
    simp only [sortDedup, List.foldr_cons] at ih ⊢
    rw [insertStr_mem, ih]
    simp

theorem sortDedup_sorted (l : List String) : (sortDedup l).Pairwise (· < ·) := by
  induction l with
  | nil => simp [sortDedup]
  | cons x xs ih =>
    simp only [sortDedup, List.foldr_cons] at ih ⊢
    exact insertStr_sorted x _ ih

theorem dedupFirst_nodup (l : List String) (h : l.Nodup) : dedupFirst l = l := by
  induction l with
  | nil => simp [dedupFirst]
  | cons x xs ih =>
    rw [List.nodup_cons] at h
    simp only [dedupFirst, ih h.2]
    congr 1
    rw [List.filter_eq_self]
    intro a ha
    simp only [bne_iff_ne, ne_eq]
    rintro rfl
    exact h.1 ha

theorem filter_singleton {α β} [DecidableEq β] (f : α → β) (l : List α) (hnd : l.Nodup) (k : α) (hk : k ∈ l)
    (hinj : ∀ a ∈ l, f a = f k → a = k) : l.filter (fun a => decide (f a = f k)) = [k] := by
  induction l with
  | nil => simp at hk
  | cons x xs ih =>
    rw [List.nodup_cons] at hnd
    by_cases hx : x = k
    · subst hx
      have : xs.filter (fun a => decide (f a = f x)) = [] := by
        rw [List.filter_eq_nil_iff]
        intro a ha
        simp only [decide_eq_true_eq]
        intro e
        exact hnd.1 (hinj a (by simp [ha]) e ▸ ha)
      simp [List.filter_cons, this]
    · have hk' : k ∈ xs := by
        rcases List.mem_cons.mp hk with rfl | h
        · exact absurd rfl hx
        · exact h
      have hfx : ¬ f x = f k := fun e => hx (hinj x (by simp) e)
      simp only [List.filter_cons, hfx, decide_false, Bool.false_eq_true, if_false]
      exact ih hnd.2 hk' (fun a ha => hinj a (by simp [ha]))

theorem lookupLast_none (s : String) (row : PyDict) (h : ∀ kv ∈ row, kv.1.pystr ≠ s) : lookupLast s row = none := by
  induction row with
  | nil => simp [lookupLast]
  | cons kv r ih =>
    obtain ⟨k, v⟩ := kv
    have h1 : k.pystr ≠ s := h (k, v) (by simp)
    simp [lookupLast, ih (fun kv hkv => h kv (by simp [hkv])), h1]

theorem cellOf_eq_rowGet (k : Key) (row : PyDict) (hnd : (row.map (·.1)).Nodup)
    (hinj : ∀ kv ∈ row, kv.1.pystr = k.pystr → kv.1 = k) : cellOf k.pystr row = rowGet k row := by
  unfold cellOf rowGet
  induction row with
  | nil => simp [lookupLast]
  | cons kv r ih =>
    obtain ⟨k', v⟩ := kv
    simp only [List.map_cons, List.nodup_cons] at hnd
    by_cases hk : k' = k
    · subst hk
      have hnone : lookupLast k'.pystr r = none := by
        apply lookupLast_none
        intro kv hkv e
        have := hinj kv (by simp [hkv]) e
        exact hnd.1 (this ▸ List.mem_map_of_mem (f := (·.1)) hkv)
      simp [lookupLast, hnone, List.lookup]
    · have hne : ¬ k'.pystr = k.pystr := fun e => hk (hinj (k', v) (by simp) e)
      have hb : (k == k') = false := by simpa using fun e : k = k' => hk e.symm
      have ih' := ih hnd.2 (fun kv hkv => hinj kv (by simp [hkv]))
      simp only [lookupLast, hne, if_false, List.lookup, hb]
      cases hl : lookupLast k.pystr r <;> simp [hl] at ih' ⊢ <;> exact ih'

theorem packAsIs_eq_pack (rows : List PyDict) (hc : NoStrCollision rows) (hr : RowsNodup rows) :
    packAsIs rows = pack rows := by
  have hperm := sortByStr_perm (unionKeys rows)
  have hnd : (sortByStr (unionKeys rows)).Nodup := hperm.nodup_iff.mpr (nodup_unionKeys rows)
  have hinj : ∀ a ∈ sortByStr (unionKeys rows), ∀ b ∈ sortByStr (unionKeys rows), a.pystr = b.pystr → a = b :=
    fun a ha b hb e => hc a (hperm.mem_iff.mp ha) b (hperm.mem_iff.mp hb) e
  have hsnd : ((sortByStr (unionKeys rows)).map Key.pystr).Nodup :=
    (List.nodup_map_iff_inj_on hnd).mpr (fun a ha b hb e => hinj a ha b hb e)
  -- the sorted stringified keys are the repaired encoder's key list
  have hkeys : (sortByStr (unionKeys rows)).map Key.pystr = strKeys rows := by
    apply List.Perm.eq_of_pairwise (le := (· < ·))
    · intro a b _ _ h1 h2; exact absurd h2 (lt_asymm h1)
    · have hs := (List.pairwise_map.mpr (sortByStr_sorted (unionKeys rows)))
      exact (hs.and hsnd).imp (fun h => lt_of_le_of_ne h.1 h.2)
    · exact sortDedup_sorted _
    · apply (List.perm_ext_iff_of_nodup hsnd ((sortDedup_sorted _).imp (fun h => ne_of_lt h))).mpr
      intro s
      simp only [strKeys, sortDedup_mem, List.mem_map, List.mem_flatMap, rowStrs]
      constructor
      · rintro ⟨k, hk, rfl⟩
        obtain ⟨r, hr', hkr⟩ := (mem_unionKeys rows k).mp (hperm.mem_iff.mp hk)
        obtain ⟨kv, hkv, rfl⟩ := List.mem_map.mp hkr
        exact ⟨r, hr', kv, hkv, rfl⟩
      · rintro ⟨r, hr', kv, hkv, rfl⟩
        exact ⟨kv.1, hperm.mem_iff.mpr ((mem_unionKeys rows kv.1).mpr ⟨r, hr', List.mem_map_of_mem hkv⟩), rfl⟩
  unfold packAsIs pack packWith
  simp only
  rw [dedupFirst_nodup _ hsnd, ← hkeys, List.map_map, List.map_map]
  apply List.map_congr_left
  intro k hk
  simp only [Function.comp_def, Prod.mk.injEq, true_and]
  rw [filter_singleton Key.pystr _ hnd k hk (fun a ha e => hinj a ha k hk e)]
  simp only [List.map_cons, List.map_nil]
  have hfm : ∀ (g : PyDict → Val) (l : List PyDict), l.flatMap (fun row => [g row]) = l.map g := by
    intro g l; induction l <;> simp [*]
  rw [hfm]
  apply List.map_congr_left
  intro row hrow
  symm
  apply cellOf_eq_rowGet k row (hr row hrow)
  intro kv hkv e
  exact hc kv.1 ((mem_unionKeys rows kv.1).mpr ⟨row, hrow, List.mem_map_of_mem hkv⟩) k (hperm.mem_iff.mp hk) e



theorem rhe_intCast (m : Int) : rhe (m : Rat) = m := by
  unfold rhe
  simp

theorem pow2_nonneg_eq (n : Nat) : pow2 (n : Int) = (2 : Rat) ^ n := by
  unfold pow2
  simp

theorem absR_intCast (k : Int) : absR (k : Rat) = ((k.natAbs : Nat) : Rat) := by
  unfold absR
  by_cases hn : (k : Rat) < 0
  · have : k < 0 := by exact_mod_cast hn
    rw [if_pos hn, ← Int.cast_natCast, Int.ofNat_natAbs_of_nonpos (le_of_lt this)]
    simp
  · have : 0 ≤ k := by
      have : ¬ k < 0 := fun h' => hn (by exact_mod_cast h')
      omega
    rw [if_neg hn, ← Int.cast_natCast, Int.natAbs_of_nonneg this]

theorem expo_intCast (k : Int) (hk : k ≠ 0) : expo (k : Rat) = (Nat.log2 k.natAbs : Int) := by
  have hpos : k.natAbs ≠ 0 := Int.natAbs_ne_zero.mpr hk
  have he0 : ((Nat.log2 (k : Rat).num.natAbs : Int) - (Nat.log2 (k : Rat).den : Int)) = (Nat.log2 k.natAbs : Int) := by
    rw [Rat.num_intCast, Rat.den_intCast]
    have : Nat.log2 1 = 0 := by decide
    rw [this]; simp
  unfold expo
  simp only
  rw [he0, if_pos]
  rw [absR_intCast, pow2_nonneg_eq]
  have := Nat.log2_self_le hpos
  exact_mod_cast this

theorem fl_intCast (k : Int) (h : k.natAbs < 2 ^ 53) : fl (k : Rat) = k := by
  unfold fl
  by_cases hk : (k : Rat) = 0
  · rw [if_pos hk, hk]
  · have hk0 : k ≠ 0 := by intro e; exact hk (by simp [e])
    have hpos : k.natAbs ≠ 0 := Int.natAbs_ne_zero.mpr hk0
    rw [if_neg hk, expo_intCast k hk0]
    unfold flCore
    have hlog : Nat.log2 k.natAbs < 53 := (Nat.log2_lt hpos).mpr h
    obtain ⟨n, hn⟩ : ∃ n : Nat, (52 : Int) - (Nat.log2 k.natAbs : Int) = (n : Int) := ⟨52 - Nat.log2 k.natAbs, by omega⟩
    rw [hn, pow2_nonneg_eq]
    have : (k : Rat) * (2 : Rat) ^ n = ((k * 2 ^ n : Int) : Rat) := by push_cast; ring
    rw [this, rhe_intCast]
    push_cast
    field_simp

theorem round5_idem (q : Rat) (h : (rhe (fl (q * 100000))).natAbs < 2 ^ 53) : round5 (round5 q) = round5 q := by
  unfold round5
  have : ((rhe (fl (q * 100000)) : Int) : Rat) / 100000 * 100000 = ((rhe (fl (q * 100000)) : Int) : Rat) := by field_simp
  rw [this, fl_intCast _ h, rhe_intCast]



/-! ### order of the log is immaterial; the Result of a clean run -/


theorem ltIds_iff (a b : List Int) : ltIds a b = true ↔ a < b := by
  induction a generalizing b with
  | nil => cases b <;> simp [ltIds]
  | cons x xs ih =>
    cases b with
    | nil => simp [ltIds]
    | cons y ys =>
      simp only [ltIds, List.cons_lt_cons_iff]
      by_cases h1 : x < y
      · simp [h1]
      · by_cases h2 : y < x
        · simp [h1, h2]
          intro e; omega
        · have : x = y := by omega
          simp [h1, h2, this, ih]

section
variable {α : Type}
/-- `le a b` for the comparison `lt` -/
def leOf (lt : α → α → Bool) (a b : α) : Prop := lt b a = false

theorem insertBy_sorted (lt : α → α → Bool)
    (hasymm : ∀ a b, lt a b = true → lt b a = false)
    (htrans : ∀ a b c, leOf lt a b → leOf lt b c → leOf lt a c)
    (x : α) (l : List α) (h : l.Pairwise (leOf lt)) : (insertBy lt x l).Pairwise (leOf lt) := by
  induction l with
  | nil => simp [insertBy]
  | cons y ys ih =>
    rw [List.pairwise_cons] at h
    simp only [insertBy]
    split
    · rename_i hlt
      rw [List.pairwise_cons]
      refine ⟨?_, List.pairwise_cons.mpr h⟩
      intro b hb
      rcases List.mem_cons.mp hb with rfl | hb
      · exact hasymm _ _ hlt
      · exact htrans _ _ _ (hasymm _ _ hlt) (h.1 b hb)
    · rename_i hnlt
      rw [List.pairwise_cons]
      refine ⟨?_, ih h.2⟩
      intro b hb
      rcases List.mem_cons.mp ((insertBy_perm lt x ys).mem_iff.mp hb) with rfl | hb
      · simpa [leOf] using hnlt
      · exact h.1 b hb

theorem sortBy_sorted (lt : α → α → Bool)
    (hasymm : ∀ a b, lt a b = true → lt b a = false)
    (htrans : ∀ a b c, leOf lt a b → leOf lt b c → leOf lt a c) (l : List α) :
    (sortBy lt l).Pairwise (leOf lt) := by
  induction l with
  | nil => simp [sortBy]
  | cons x xs ih =>
    simp only [sortBy, List.foldr_cons] at ih ⊢
    exact insertBy_sorted lt hasymm htrans x _ ih

theorem sortBy_eq_of_perm (lt : α → α → Bool)
    (hasymm : ∀ a b, lt a b = true → lt b a = false)
    (htrans : ∀ a b c, leOf lt a b → leOf lt b c → leOf lt a c)
    (l l' : List α) (hp : l.Perm l')
    (hanti : ∀ a ∈ l, ∀ b ∈ l, leOf lt a b → leOf lt b a → a = b) :
    sortBy lt l = sortBy lt l' := by
  apply List.Perm.eq_of_pairwise (le := leOf lt)
  · intro a b ha hb
    exact hanti a ((sortBy_perm lt l).mem_iff.mp ha) b (hp.mem_iff.mpr ((sortBy_perm lt l').mem_iff.mp hb))
  · exact sortBy_sorted lt hasymm htrans l
  · exact sortBy_sorted lt hasymm htrans l'
  · exact ((sortBy_perm lt l).trans hp).trans (sortBy_perm lt l').symm
end

theorem ltTriP_asymm (a b : List Int × List PyDict) (h : ltTriP a b = true) : ltTriP b a = false := by
  unfold ltTriP at *
  rw [ltIds_iff] at h
  rw [Bool.eq_false_iff, ne_eq, ltIds_iff]
  exact lt_asymm h

theorem ltTriP_trans (a b c : List Int × List PyDict) (h1 : leOf ltTriP a b) (h2 : leOf ltTriP b c) : leOf ltTriP a c := by
  unfold leOf ltTriP at *
  rw [Bool.eq_false_iff, ne_eq, ltIds_iff] at *
  exact not_lt.mpr (le_trans (not_lt.mp h1) (not_lt.mp h2))

theorem ltTriP_anti (l : List (List Int × List PyDict)) (hnd : (l.map (·.1)).Nodup) :
    ∀ a ∈ l, ∀ b ∈ l, leOf ltTriP a b → leOf ltTriP b a → a = b := by
  intro a ha b hb h1 h2
  unfold leOf ltTriP at *
  rw [Bool.eq_false_iff, ne_eq, ltIds_iff] at *
  have : a.1 = b.1 := le_antisymm (not_lt.mp h1) (not_lt.mp h2)
  exact List.inj_on_of_nodup_map hnd ha hb this

theorem t4sOf_eq_filterMap (txs : List Tx) :
    t4sOf txs = txs.filterMap (fun t => match t with | .t4 ids rows => some (ids, rows) | _ => none) := by
  induction txs with
  | nil => simp [t4sOf]
  | cons t ts ih => cases t <;> simp [t4sOf, ih]

/-- the interactions table does not depend on the order in which the evaluations were logged -/
theorem specInteractions_perm (rnd : Rat → Rat) (txs txs' : List Tx) (hp : txs.Perm txs')
    (hnd : ((t4sOf txs).map (·.1)).Nodup) : specInteractions rnd txs = specInteractions rnd txs' := by
  unfold specInteractions
  have hp' : (t4sOf txs).Perm (t4sOf txs') := by
    rw [t4sOf_eq_filterMap, t4sOf_eq_filterMap]; exact hp.filterMap _
  rw [sortBy_eq_of_perm ltTriP ltTriP_asymm ltTriP_trans _ _ hp' (ltTriP_anti _ hnd)]


theorem ltIdP_asymm (a b : Int × PyDict) (h : ltIdP a b = true) : ltIdP b a = false := by
  unfold ltIdP at *
  simp only [decide_eq_true_eq, decide_eq_false_iff_not] at *
  omega

theorem ltIdP_trans (a b c : Int × PyDict) (h1 : leOf ltIdP a b) (h2 : leOf ltIdP b c) : leOf ltIdP a c := by
  unfold leOf ltIdP at *
  simp only [decide_eq_false_iff_not] at *
  omega

theorem ltIdP_anti (l : List (Int × PyDict)) (hnd : (l.map (·.1)).Nodup) :
    ∀ a ∈ l, ∀ b ∈ l, leOf ltIdP a b → leOf ltIdP b a → a = b := by
  intro a ha b hb h1 h2
  unfold leOf ltIdP at *
  simp only [decide_eq_false_iff_not] at *
  have : a.1 = b.1 := by omega
  exact List.inj_on_of_nodup_map hnd ha hb this

theorem paramsOf_eq_filterMap (t : Tbl) (txs : List Tx) :
    paramsOf t txs = txs.filterMap (fun x => match x with
      | .t1 id p => if t = .E then some (id, p) else none
      | .t2 id p => if t = .L then some (id, p) else none
      | .t3 id p => if t = .V then some (id, p) else none
      | _ => none) := by
  induction txs with
  | nil => simp [paramsOf]
  | cons x xs ih => cases x <;> cases t <;> simp [paramsOf, ih]

theorem paramsOf_perm (t : Tbl) (txs txs' : List Tx) (hp : txs.Perm txs') : (paramsOf t txs).Perm (paramsOf t txs') := by
  rw [paramsOf_eq_filterMap, paramsOf_eq_filterMap]; exact hp.filterMap _

theorem t4sOf_perm (txs txs' : List Tx) (hp : txs.Perm txs') : (t4sOf txs).Perm (t4sOf txs') := by
  rw [t4sOf_eq_filterMap, t4sOf_eq_filterMap]; exact hp.filterMap _

theorem specParams_perm (rnd : Rat → Rat) (t : Tbl) (txs txs' : List Tx) (hp : txs.Perm txs')
    (hnd : ((paramsOf t txs).map (·.1)).Nodup) : specParams rnd t txs = specParams rnd t txs' := by
  unfold specParams
  rw [sortBy_eq_of_perm ltIdP ltIdP_asymm ltIdP_trans _ _ (paramsOf_perm t _ _ hp) (ltIdP_anti _ hnd)]

theorem lastExperiment_foldl_noexp (recs : List Rec) (acc : Row) (h : ∀ d, Rec.experiment d ∉ recs) :
    recs.foldl (fun acc r => match r with | .experiment d => d | _ => acc) acc = acc := by
  induction recs generalizing acc with
  | nil => simp
  | cons r rs ih =>
    have hr : ∀ d, Rec.experiment d ∉ rs := fun d hd => h d (by simp [hd])
    cases r with
    | experiment d => exact absurd (by simp) (h d)
    | _ => simpa using ih _ hr

theorem encodeTx_not_experiment (rnd : Rat → Rat) (f : Bool) (txs : List Tx) (h : ∀ m, Tx.t0 m ∉ txs) :
    ∀ d, Rec.experiment d ∉ txs.map (encodeTx rnd f) := by
  intro d hd
  obtain ⟨tx, htx, he⟩ := List.mem_map.mp hd
  cases tx with
  | t0 m => exact h m htx
  | _ => simp [encodeTx] at he

/-- [core] a clean run returns exactly the Result the statement demands -/
theorem run_spec' (rnd : Rat → Rat) (info : PyDict) (txs : List Tx) (hc : CleanRun txs) :
    runNoFile rnd true true info txs = .ok (specResult rnd info txs) := by
  obtain ⟨res, h, hi, he, hl, hv⟩ := runNoFile_spec rnd info txs hc.wf hc.triNodup
  have hexp : res.experiment = wireDict rnd info := by
    have := h
    simp only [runNoFile, encode, Bool.false_eq_true, if_false, List.singleton_append, readLog, ne_eq, not_true_eq_false,
      interactions_encode rnd (.t0 info :: txs) hc.wf hc.triNodup] at this
    injection this with this
    rw [← this]
    simp only [lastExperiment, List.map_cons, encodeTx, List.foldl_cons]
    exact lastExperiment_foldl_noexp _ _ (encodeTx_not_experiment rnd true txs hc.noT0)
  rw [h]
  congr 1
  cases res
  simp only [specResult, Result.mk.injEq] at *
  refine ⟨hexp, ?_, ?_, ?_, hi⟩
  · rw [he]; exact compTable_encode rnd true .E (.t0 info :: txs) (hc.idNodup .E) (hc.keysOk .E)
  · rw [hl]; exact compTable_encode rnd true .L (.t0 info :: txs) (hc.idNodup .L) (hc.keysOk .L)
  · rw [hv]; exact compTable_encode rnd true .V (.t0 info :: txs) (hc.idNodup .V) (hc.keysOk .V)

theorem specResult_perm (rnd : Rat → Rat) (info : PyDict) (txs txs' : List Tx) (hp : txs.Perm txs') (hc : CleanRun txs) :
    specResult rnd info txs = specResult rnd info txs' := by
  simp only [specResult, specParams_perm rnd _ txs txs' hp (hc.idNodup _), specInteractions_perm rnd txs txs' hp hc.triNodup]

theorem cleanRun_perm (txs txs' : List Tx) (hp : txs.Perm txs') (hc : CleanRun txs) : CleanRun txs' where
  noT0 := fun m hm => hc.noT0 m (hp.mem_iff.mpr hm)
  wf := fun ir hir => hc.wf ir ((t4sOf_perm _ _ hp).mem_iff.mpr hir)
  triNodup := (((t4sOf_perm _ _ hp).map (·.1)).nodup_iff).mp hc.triNodup
  idNodup := fun t => (((paramsOf_perm t _ _ hp).map (·.1)).nodup_iff).mp (hc.idNodup t)
  keysOk := fun t ip hip => hc.keysOk t ip ((paramsOf_perm t _ _ hp).mem_iff.mpr hip)



/-! ### phase 2: `fl` is exact on 53-bit significands; `round5` is idempotent without a bound -/


theorem pow2_eq_zpow (e : Int) : pow2 e = (2 : Rat) ^ e := by
  unfold pow2
  by_cases h : 0 ≤ e
  · rw [if_pos h]
    obtain ⟨n, rfl⟩ := Int.eq_ofNat_of_zero_le h
    simp
  · rw [if_neg h]
    obtain ⟨n, hn⟩ : ∃ n : Nat, -e = (n : Int) := ⟨(-e).toNat, by omega⟩
    have he : e = -(n : Int) := by omega
    rw [hn, he, zpow_neg]
    simp

theorem pow2_pos (e : Int) : 0 < pow2 e := by rw [pow2_eq_zpow]; positivity

theorem pow2_add (a b : Int) : pow2 (a + b) = pow2 a * pow2 b := by
  simp only [pow2_eq_zpow]; exact zpow_add₀ (by norm_num) a b

theorem pow2_lt_pow2 {a b : Int} (h : a < b) : pow2 a < pow2 b := by
  simp only [pow2_eq_zpow]; exact zpow_lt_zpow_right₀ (by norm_num) h

theorem pow2_le_pow2 {a b : Int} (h : a ≤ b) : pow2 a ≤ pow2 b := by
  simp only [pow2_eq_zpow]; exact zpow_le_zpow_right₀ (by norm_num) h

theorem absR_eq_abs (x : Rat) : absR x = |x| := by
  unfold absR
  by_cases h : x < 0
  · rw [if_pos h, abs_of_neg h]
  · rw [if_neg h, abs_of_nonneg (not_lt.mp h)]

/-- `expo x` is the binary exponent of `x` -/
theorem expo_spec (x : Rat) (hx : x ≠ 0) : pow2 (expo x) ≤ |x| ∧ |x| < pow2 (expo x + 1) := by
  have hn : x.num.natAbs ≠ 0 := by simpa using Rat.num_ne_zero.mpr hx
  have hd : x.den ≠ 0 := x.den_nz
  have habs : |x| = (x.num.natAbs : Rat) / (x.den : Rat) := by
    conv_lhs => rw [← Rat.num_div_den x]
    rw [abs_div, Nat.abs_cast, ← Int.cast_abs, Int.abs_eq_natAbs]
    simp
  have hdpos : (0 : Rat) < x.den := by exact_mod_cast Nat.pos_of_ne_zero hd
  -- 2^a ≤ num < 2^(a+1), 2^b ≤ den < 2^(b+1)
  have ha1 : ((2 : Rat) ^ (Nat.log2 x.num.natAbs)) ≤ (x.num.natAbs : Rat) := by exact_mod_cast Nat.log2_self_le hn
  have ha2 : (x.num.natAbs : Rat) < (2 : Rat) ^ (Nat.log2 x.num.natAbs + 1) := by exact_mod_cast Nat.lt_log2_self
  have hb1 : ((2 : Rat) ^ (Nat.log2 x.den)) ≤ (x.den : Rat) := by exact_mod_cast Nat.log2_self_le hd
  have hb2 : (x.den : Rat) < (2 : Rat) ^ (Nat.log2 x.den + 1) := by exact_mod_cast Nat.lt_log2_self
  set a := Nat.log2 x.num.natAbs with ha
  set b := Nat.log2 x.den with hb
  have hpa : pow2 (a : Int) = (2 : Rat) ^ a := by rw [pow2_eq_zpow]; simp
  have hpb : pow2 (b : Int) = (2 : Rat) ^ b := by rw [pow2_eq_zpow]; simp
  have hpa1 : pow2 ((a : Int) + 1) = (2 : Rat) ^ (a + 1) := by rw [pow2_eq_zpow]; exact_mod_cast rfl
  have hpb1 : pow2 ((b : Int) + 1) = (2 : Rat) ^ (b + 1) := by rw [pow2_eq_zpow]; exact_mod_cast rfl
  -- lower: pow2 (a-b-1) < |x| ; upper: |x| < pow2 (a-b+1)
  have hlow : pow2 ((a : Int) - b - 1) < |x| := by
    rw [habs, lt_div_iff₀ hdpos]
    have : pow2 ((a : Int) - b - 1) * pow2 ((b : Int) + 1) = pow2 a := by rw [← pow2_add]; congr 1; ring
    calc pow2 ((a : Int) - b - 1) * (x.den : Rat) < pow2 ((a : Int) - b - 1) * pow2 ((b : Int) + 1) := by
          apply mul_lt_mul_of_pos_left _ (pow2_pos _); rw [hpb1]; exact hb2
      _ = pow2 a := this
      _ ≤ _ := by rw [hpa]; exact ha1
  have hup : |x| < pow2 ((a : Int) - b + 1) := by
    rw [habs, div_lt_iff₀ hdpos]
    have : pow2 ((a : Int) - b + 1) * pow2 (b : Int) = pow2 ((a : Int) + 1) := by rw [← pow2_add]; congr 1; ring
    calc (x.num.natAbs : Rat) < pow2 ((a : Int) + 1) := by rw [hpa1]; exact ha2
      _ = pow2 ((a : Int) - b + 1) * pow2 (b : Int) := this.symm
      _ ≤ pow2 ((a : Int) - b + 1) * (x.den : Rat) := by
          apply mul_le_mul_of_nonneg_left _ (le_of_lt (pow2_pos _)); rw [hpb]; exact hb1
  unfold expo
  simp only
  rw [absR_eq_abs]
  by_cases hc : pow2 ((a : Int) - (b : Int)) ≤ |x|
  · rw [if_pos hc]; exact ⟨hc, hup⟩
  · rw [if_neg hc]
    refine ⟨le_of_lt hlow, ?_⟩
    have : (a : Int) - b - 1 + 1 = (a : Int) - b := by ring
    rw [this]; exact not_le.mp hc

theorem expo_unique (x : Rat) (e : Int) (h1 : pow2 e ≤ |x|) (h2 : |x| < pow2 (e + 1)) : expo x = e := by
  have hx : x ≠ 0 := by
    rintro rfl; simp at h1; exact absurd h1 (not_le.mpr (pow2_pos e))
  obtain ⟨s1, s2⟩ := expo_spec x hx
  by_contra hne
  rcases lt_or_gt_of_ne hne with h | h
  · have : pow2 (expo x + 1) ≤ pow2 e := pow2_le_pow2 (by omega)
    linarith
  · have : pow2 (e + 1) ≤ pow2 (expo x) := pow2_le_pow2 (by omega)
    linarith


theorem pow2_zero : pow2 0 = 1 := by rw [pow2_eq_zpow]; simp

theorem pow2_natCast (n : Nat) : pow2 (n : Int) = ((2 ^ n : Nat) : Rat) := by rw [pow2_eq_zpow]; simp

theorem rhe_mem (x : Rat) : rhe x = x.floor ∨ (rhe x = x.floor + 1 ∧ (x.floor : Rat) < x) := by
  unfold rhe
  simp only
  by_cases h1 : x - (x.floor : Rat) < 1 / 2
  · left; rw [if_pos h1]
  · rw [if_neg h1]
    have hpos : (x.floor : Rat) < x := by
      have : (1:Rat)/2 ≤ x - x.floor := not_lt.mp h1
      linarith
    by_cases h2 : 1 / 2 < x - (x.floor : Rat)
    · right; rw [if_pos h2]; exact ⟨rfl, hpos⟩
    · rw [if_neg h2]
      by_cases h3 : x.floor % 2 = 0
      · left; rw [if_pos h3]
      · right; rw [if_neg h3]; exact ⟨rfl, hpos⟩

theorem rhe_le_of_le (x : Rat) (n : Int) (h : x ≤ n) : rhe x ≤ n := by
  have hf : x.floor ≤ n := by
    have : (x.floor : Rat) ≤ n := le_trans (Rat.floor_le x) h
    exact_mod_cast this
  rcases rhe_mem x with h1 | ⟨h1, h2⟩
  · rw [h1]; exact hf
  · rw [h1]
    have : (x.floor : Rat) < n := lt_of_lt_of_le h2 h
    have : x.floor < n := by exact_mod_cast this
    omega

theorem le_rhe_of_le (x : Rat) (n : Int) (h : (n : Rat) ≤ x) : n ≤ rhe x := by
  have hf : n ≤ x.floor := Rat.le_floor_iff.mpr h
  rcases rhe_mem x with h1 | ⟨h1, _⟩ <;> rw [h1] <;> omega

theorem natAbs_rhe_le (x : Rat) (n : Nat) (h : |x| ≤ n) : (rhe x).natAbs ≤ n := by
  have h1 := rhe_le_of_le x n (by have := le_abs_self x; push_cast; linarith)
  have h2 := le_rhe_of_le x (-(n : Int)) (by have := neg_abs_le x; push_cast; linarith)
  omega

/-- numbers with a significand below 2^53 are fixed by `fl` -/
theorem fl_repr (n : Int) (t : Int) (hn : n ≠ 0) (hb : n.natAbs < 2 ^ 53) : fl ((n : Rat) * pow2 t) = (n : Rat) * pow2 t := by
  have hpos : n.natAbs ≠ 0 := Int.natAbs_ne_zero.mpr hn
  have hnq : (n : Rat) ≠ 0 := by exact_mod_cast hn
  have hx : (n : Rat) * pow2 t ≠ 0 := mul_ne_zero hnq (ne_of_gt (pow2_pos t))
  set L := Nat.log2 n.natAbs with hL
  have habs : |(n : Rat) * pow2 t| = (n.natAbs : Rat) * pow2 t := by
    rw [abs_mul, abs_of_pos (pow2_pos t), ← Int.cast_abs, Int.abs_eq_natAbs]; simp
  have h1 : pow2 ((L : Int) + t) ≤ |(n : Rat) * pow2 t| := by
    rw [habs, pow2_add, pow2_natCast]
    apply mul_le_mul_of_nonneg_right _ (le_of_lt (pow2_pos t))
    exact_mod_cast Nat.log2_self_le hpos
  have h2 : |(n : Rat) * pow2 t| < pow2 ((L : Int) + t + 1) := by
    have : (L : Int) + t + 1 = ((L + 1 : Nat) : Int) + t := by push_cast; ring
    rw [habs, this, pow2_add, pow2_natCast]
    apply mul_lt_mul_of_pos_right _ (pow2_pos t)
    exact_mod_cast Nat.lt_log2_self
  have he := expo_unique _ _ h1 h2
  unfold fl
  rw [if_neg hx, he]
  unfold flCore
  have hlog : L < 53 := (Nat.log2_lt hpos).mpr hb
  obtain ⟨j, hj⟩ : ∃ j : Nat, (52 : Int) - L = (j : Int) := ⟨52 - L, by omega⟩
  have hsc : pow2 (52 - ((L : Int) + t)) = pow2 (j : Int) * pow2 (-t) := by rw [← pow2_add]; congr 1; omega
  have hinv : pow2 t * pow2 (-t) = 1 := by rw [← pow2_add]; simp [pow2_zero]
  have hmul : (n : Rat) * pow2 t * pow2 (52 - ((L : Int) + t)) = ((n * 2 ^ j : Int) : Rat) := by
    rw [hsc, pow2_natCast]; push_cast
    calc (n : Rat) * pow2 t * (2 ^ j * pow2 (-t)) = (n : Rat) * 2 ^ j * (pow2 t * pow2 (-t)) := by ring
      _ = _ := by rw [hinv]; ring
  rw [hmul, rhe_intCast, hsc, pow2_natCast]
  push_cast
  have h2j : ((2 : Rat) ^ j) ≠ 0 := by positivity
  have hpt : pow2 (-t) ≠ 0 := ne_of_gt (pow2_pos _)
  rw [div_eq_iff (mul_ne_zero h2j hpt)]
  calc (n : Rat) * 2 ^ j = (n : Rat) * 2 ^ j * (pow2 t * pow2 (-t)) := by rw [hinv, mul_one]
    _ = _ := by ring

/-- `fl x` has a significand of at most 53 bits -/
theorem fl_is_repr (x : Rat) (hx : x ≠ 0) : ∃ n t : Int, n ≠ 0 ∧ n.natAbs < 2 ^ 53 ∧ fl x = (n : Rat) * pow2 t := by
  obtain ⟨s1, s2⟩ := expo_spec x hx
  set e := expo x with he
  set m := rhe (x * pow2 (52 - e)) with hm
  have hinv : pow2 (52 - e) * pow2 (e - 52) = 1 := by rw [← pow2_add]; simp [pow2_zero]
  have hfl : fl x = (m : Rat) * pow2 (e - 52) := by
    unfold fl; rw [if_neg hx]; unfold flCore
    rw [← he, ← hm, div_eq_iff (ne_of_gt (pow2_pos _)), mul_assoc, mul_comm (pow2 (e - 52)), hinv, mul_one]
  have hlo : (2 : Rat) ^ 52 ≤ |x * pow2 (52 - e)| := by
    rw [abs_mul, abs_of_pos (pow2_pos _)]
    have : pow2 e * pow2 (52 - e) = (2 : Rat) ^ 52 := by
      rw [← pow2_add]; have : e + (52 - e) = ((52 : Nat) : Int) := by omega
      rw [this, pow2_natCast]; norm_num
    rw [← this]; exact mul_le_mul_of_nonneg_right s1 (le_of_lt (pow2_pos _))
  have hhi : |x * pow2 (52 - e)| < (2 : Rat) ^ 53 := by
    rw [abs_mul, abs_of_pos (pow2_pos _)]
    have : pow2 (e + 1) * pow2 (52 - e) = (2 : Rat) ^ 53 := by
      rw [← pow2_add]; have : e + 1 + (52 - e) = ((53 : Nat) : Int) := by omega
      rw [this, pow2_natCast]; norm_num
    rw [← this]; exact mul_lt_mul_of_pos_right s2 (pow2_pos _)
  have hmle : m.natAbs ≤ 2 ^ 53 := natAbs_rhe_le _ (2 ^ 53) (by push_cast; exact le_of_lt hhi)
  have hmne : m ≠ 0 := by
    intro h0
    -- |x·scale| ≥ 2^52 so the rounded value is at least 2^52 in magnitude
    rcases le_or_gt 0 (x * pow2 (52 - e)) with hp | hp
    · have := le_rhe_of_le (x * pow2 (52 - e)) (2 ^ 52) (by push_cast; rw [abs_of_nonneg hp] at hlo; exact hlo)
      rw [← hm, h0] at this; norm_num at this
    · have := rhe_le_of_le (x * pow2 (52 - e)) (-(2 ^ 52)) (by push_cast; rw [abs_of_neg hp] at hlo; linarith)
      rw [← hm, h0] at this; norm_num at this
  by_cases hlt : m.natAbs < 2 ^ 53
  · exact ⟨m, e - 52, hmne, hlt, hfl⟩
  · have heq : m.natAbs = 2 ^ 53 := by omega
    refine ⟨m / 2, e - 51, ?_, ?_, ?_⟩
    · omega
    · omega
    · rw [hfl]
      have hm2 : m = (m / 2) * 2 := by omega
      have : pow2 (e - 51) = 2 * pow2 (e - 52) := by
        have : e - 51 = 1 + (e - 52) := by ring
        rw [this, pow2_add]; congr 1
      rw [this]
      conv_lhs => rw [hm2]
      push_cast; ring

theorem round5_idem_all (q : Rat) : round5 (round5 q) = round5 q := by
  unfold round5
  have hcancel : ((rhe (fl (q * 100000)) : Int) : Rat) / 100000 * 100000 = ((rhe (fl (q * 100000)) : Int) : Rat) := by field_simp
  rw [hcancel]
  suffices h : fl ((rhe (fl (q * 100000)) : Int) : Rat) = ((rhe (fl (q * 100000)) : Int) : Rat) by rw [h, rhe_intCast]
  by_cases hx : q * 100000 = 0
  · have h0 : fl (0 : Rat) = 0 := by unfold fl; rw [if_pos rfl]
    have hr : rhe (0 : Rat) = 0 := by simpa using rhe_intCast 0
    rw [hx, h0, hr]; simpa using h0
  · obtain ⟨n, t, hn, hb, hfl⟩ := fl_is_repr _ hx
    rw [hfl]
    by_cases ht : 0 ≤ t
    · obtain ⟨j, rfl⟩ := Int.eq_ofNat_of_zero_le ht
      have hint : (n : Rat) * pow2 (j : Int) = ((n * 2 ^ j : Int) : Rat) := by rw [pow2_natCast]; push_cast; ring
      rw [hint, rhe_intCast, ← hint]
      exact fl_repr n j hn hb
    · apply fl_intCast
      have hle : |(n : Rat) * pow2 t| ≤ ((2 ^ 52 : Nat) : Rat) := by
        rw [abs_mul, abs_of_pos (pow2_pos t), ← Int.cast_abs, Int.abs_eq_natAbs]
        have h1 : pow2 t ≤ pow2 (-1) := pow2_le_pow2 (by omega)
        have h2 : pow2 (-1) = 1 / 2 := by rw [pow2_eq_zpow]; norm_num
        have h3 : ((n.natAbs : Int) : Rat) ≤ 2 ^ 53 := by exact_mod_cast le_of_lt hb
        have h4 : (0 : Rat) ≤ ((n.natAbs : Int) : Rat) := by positivity
        calc ((n.natAbs : Int) : Rat) * pow2 t ≤ 2 ^ 53 * (1 / 2) := by
              rw [← h2]; exact mul_le_mul h3 h1 (le_of_lt (pow2_pos _)) (by positivity)
          _ = _ := by norm_num
      have := natAbs_rhe_le _ _ hle
      omega


theorem run_order_invariant_aux (rnd : Rat → Rat) (info : PyDict) (txs txs' : List Tx) (hp : txs.Perm txs')
    (hc : CleanRun txs) : runNoFile rnd true true info txs = runNoFile rnd true true info txs' := by
  rw [run_spec' rnd info txs hc, run_spec' rnd info txs' (cleanRun_perm txs txs' hp hc), specResult_perm rnd info txs txs' hp hc]

/-! ### phase 2: a punched log that is completed by the resumed run -/
theorem punched_log_resume' (rnd : Rat → Rat) (info : PyDict) (txs keep txs₂ : List Tx) (hc : CleanRun txs)
    (hk : keep.Sublist txs) (hp : (keep ++ txs₂).Perm txs) :
    (fileAfter rnd true info none keep).Sublist (fileAfter rnd true info none txs)
    ∧ fromFile true (fileAfter rnd true info none keep ++ encode rnd true true txs₂) = .ok (specResult rnd info txs)
    ∧ fromFile true (fileAfter rnd true info none txs) = .ok (specResult rnd info txs) := by
  refine ⟨?_, ?_, ?_⟩
  · simp only [fileAfter, encode, Bool.false_eq_true, if_false, List.singleton_append, List.map_cons]
    exact ((hk.map _).cons_cons _).cons_cons _
  · have h : fromFile true (fileAfter rnd true info none keep ++ encode rnd true true txs₂)
        = runNoFile rnd true true info (keep ++ txs₂) := by
      simp only [fromFile, runNoFile, fileAfter, encode_append]
    rw [h, ← run_spec' rnd info txs hc]
    exact (run_order_invariant_aux rnd info txs (keep ++ txs₂) hp.symm hc).symm
  · exact run_spec' rnd info txs hc


/-! ### phase 2: `Table` column order and `Missing` padding -/


theorem addCols_mem (cols : List String) (g : List Row) (c : String) :
    c ∈ addCols cols g ↔ c ∈ cols ∨ ∃ r ∈ g, c ∈ rowKeys r := by
  unfold addCols
  simp only [List.mem_append, sortDedup_mem, List.mem_filter, List.mem_flatMap, Bool.not_eq_eq_eq_not, Bool.not_true,
    List.contains_eq_mem, decide_eq_false_iff_not]
  constructor
  · rintro (h | ⟨h, _⟩)
    · exact Or.inl h
    · exact Or.inr h
  · rintro (h | h)
    · exact Or.inl h
    · by_cases hc : c ∈ cols
      · exact Or.inl hc
      · exact Or.inr ⟨h, hc⟩

theorem addCols_nodup (cols : List String) (g : List Row) (h : cols.Nodup) : (addCols cols g).Nodup := by
  unfold addCols
  rw [List.nodup_append]
  refine ⟨h, (sortDedup_sorted _).imp (fun h => ne_of_lt h), ?_⟩
  intro a ha b hb
  rw [sortDedup_mem, List.mem_filter] at hb
  rintro rfl
  simp at hb
  exact hb.2 ha

theorem tableCols_prefix (init : List String) (groups : List (List Row)) : init <+: tableCols init groups := by
  unfold tableCols
  induction groups generalizing init with
  | nil => simp
  | cons g gs ih =>
    simp only [List.foldl_cons]
    exact (List.prefix_append init _).trans (ih (addCols init g))

theorem tableCols_nodup (init : List String) (groups : List (List Row)) (h : init.Nodup) : (tableCols init groups).Nodup := by
  unfold tableCols
  induction groups generalizing init with
  | nil => simpa
  | cons g gs ih => simp only [List.foldl_cons]; exact ih _ (addCols_nodup init g h)

theorem tableCols_mem (init : List String) (groups : List (List Row)) (c : String) :
    c ∈ tableCols init groups ↔ c ∈ init ∨ ∃ g ∈ groups, ∃ r ∈ g, c ∈ rowKeys r := by
  unfold tableCols
  induction groups generalizing init with
  | nil => simp
  | cons g gs ih =>
    simp only [List.foldl_cons, ih, addCols_mem, List.mem_cons]
    constructor
    · rintro ((h | h) | ⟨g', hg', h⟩)
      · exact Or.inl h
      · exact Or.inr ⟨g, Or.inl rfl, h⟩
      · exact Or.inr ⟨g', Or.inr hg', h⟩
    · rintro (h | ⟨g', (rfl | hg'), h⟩)
      · exact Or.inl (Or.inl h)
      · exact Or.inl (Or.inr h)
      · exact Or.inr ⟨g', hg', h⟩

theorem tables_observable_spec' (init : List String) (groups : List (List Row)) (hinit : init.Nodup) :
    init <+: (padTable init groups).columns ∧ (padTable init groups).columns.Nodup
    ∧ (∀ c, c ∈ (padTable init groups).columns ↔ c ∈ init ∨ ∃ g ∈ groups, ∃ r ∈ g, c ∈ rowKeys r)
    ∧ (padTable init groups).rows = groups.flatten.map (fun r => (padTable init groups).columns.map (fun c => r.lookup c))
    ∧ (∀ g ∈ groups, ∀ r ∈ g, ∀ k ∈ rowKeys r, k ∈ (padTable init groups).columns) := by
  refine ⟨tableCols_prefix init groups, tableCols_nodup init groups hinit, tableCols_mem init groups, rfl, ?_⟩
  intro g hg r hr k hk
  exact (tableCols_mem init groups k).mpr (Or.inr ⟨g, hg, r, hr, hk⟩)

theorem interGroups_flatten (fixed : Bool) (l : List (List Int × Packed)) :
    interTable fixed l = (interGroups fixed l).map List.flatten := by
  induction l with
  | nil => simp [interTable, interGroups, Except.map]
  | cons ic rest ih =>
    obtain ⟨ids, cols, n⟩ := ic
    match ids with
    | [e, l', v] =>
      simp only [interTable, interGroups, ih]
      cases h1 : triRows fixed e l' v cols n <;> cases h2 : interGroups fixed rest <;> simp [Except.map]
      rename_i rows more
      by_cases hr : rows.isEmpty
      · simp [List.isEmpty_iff.mp hr]
      · have : rows ≠ [] := fun e => hr (by simp [e])
        simp [this]
    | [] => simp [interTable, interGroups, Except.map]
    | [_] => simp [interTable, interGroups, Except.map]
    | [_, _] => simp [interTable, interGroups, Except.map]
    | _ :: _ :: _ :: _ :: _ => simp [interTable, interGroups, Except.map]

/-- the padded interactions table of `tablesOf` holds exactly the rows of `readLog`'s interactions, in order -/
theorem tablesOf_readLog (fixed : Bool) (file : List Rec) (res : Result) (h : readLog fixed file = .ok res) :
    ∃ groups, tablesOf fixed file = .ok [padTable ["environment_id"] (if res.environments.isEmpty then [] else [res.environments]),
        padTable ["learner_id"] (if res.learners.isEmpty then [] else [res.learners]),
        padTable ["evaluator_id"] (if res.evaluators.isEmpty then [] else [res.evaluators]),
        padTable idCols groups] ∧ groups.flatten = res.interactions := by
  match file, h with
  | .version n :: recs, h =>
    simp only [readLog] at h
    by_cases hn : n ≠ 4
    · simp [hn] at h
    · simp only [hn, if_false] at h
      rw [interGroups_flatten] at h
      cases hg : interGroups fixed (interRecs recs) with
      | error e => simp [hg, Except.map] at h
      | ok groups =>
        simp only [hg, Except.map] at h
        injection h with h
        subst h
        exact ⟨groups, by simp [tablesOf, hn, hg, idColName], rfl⟩



/-! ### phase 3: records logged more than once -/

section
variable {α β γ : Type} [DecidableEq α]

theorem upsert_map (f : β → γ) (k : α) (v : β) (l : List (α × β)) :
    upsert k (f v) (l.map (fun p => (p.1, f p.2))) = (upsert k v l).map (fun p => (p.1, f p.2)) := by
  induction l with
  | nil => simp [upsert]
  | cons p l ih =>
    obtain ⟨k', v'⟩ := p
    by_cases h : k' = k <;> simp [upsert, h, ih]

theorem foldl_upsert_map (f : β → γ) (l acc : List (α × β)) :
    (l.map (fun p => (p.1, f p.2))).foldl (fun a kv => upsert kv.1 kv.2 a) (acc.map (fun p => (p.1, f p.2)))
      = (l.foldl (fun a kv => upsert kv.1 kv.2 a) acc).map (fun p => (p.1, f p.2)) := by
  induction l generalizing acc with
  | nil => simp
  | cons p l ih => simp only [List.map_cons, List.foldl_cons, upsert_map, ih]

theorem lastWins_map (f : β → γ) (l : List (α × β)) :
    lastWins (l.map (fun p => (p.1, f p.2))) = (lastWins l).map (fun p => (p.1, f p.2)) := by
  simpa [lastWins] using foldl_upsert_map f l []

theorem lookup_upsert [BEq α] [LawfulBEq α] (k k' : α) (v : β) (l : List (α × β)) :
    (upsert k v l).lookup k' = if k' = k then some v else l.lookup k' := by
  induction l with
  | nil =>
    by_cases h : k' = k
    · subst h; simp [upsert, List.lookup]
    · have hb : (k' == k) = false := by simpa using h
      simp [upsert, List.lookup, h, hb]
  | cons p l ih =>
    obtain ⟨k₁, v₁⟩ := p
    by_cases h1 : k₁ = k
    · subst h1
      by_cases h : k' = k₁
      · subst h; simp [upsert, List.lookup]
      · have hb : (k' == k₁) = false := by simpa using h
        simp [upsert, List.lookup, h, hb]
    · by_cases h : k' = k
      · subst h
        have hb : (k' == k₁) = false := by simpa using fun e : k' = k₁ => h1 e.symm
        simp [upsert, h1, List.lookup, hb, ih]
      · by_cases h2 : k' = k₁
        · subst h2; simp [upsert, h1, List.lookup]
        · have hb : (k' == k₁) = false := by simpa using h2
          simp [upsert, h1, List.lookup, hb, ih, h]

theorem mem_upsert (k : α) (v : β) (l : List (α × β)) (p : α × β) (h : p ∈ upsert k v l) : p ∈ l ∨ p = (k, v) := by
  induction l with
  | nil => simp [upsert] at h; exact Or.inr h
  | cons q l ih =>
    obtain ⟨k₁, v₁⟩ := q
    by_cases h1 : k₁ = k
    · simp only [upsert, h1, if_true, List.mem_cons] at h
      rcases h with h | h
      · exact Or.inr (by rw [h])
      · exact Or.inl (List.mem_cons_of_mem _ h)
    · simp only [upsert, h1, if_false, List.mem_cons] at h
      rcases h with h | h
      · exact Or.inl (by simp [h])
      · rcases ih h with h | h
        · exact Or.inl (List.mem_cons_of_mem _ h)
        · exact Or.inr h

theorem mem_foldl_upsert (l acc : List (α × β)) (p : α × β)
    (h : p ∈ l.foldl (fun a kv => upsert kv.1 kv.2 a) acc) : p ∈ acc ∨ p ∈ l := by
  induction l generalizing acc with
  | nil => exact Or.inl h
  | cons q l ih =>
    simp only [List.foldl_cons] at h
    rcases ih _ h with h | h
    · rcases mem_upsert _ _ _ _ h with h | h
      · exact Or.inl h
      · exact Or.inr (by simp [h])
    · exact Or.inr (List.mem_cons_of_mem _ h)

theorem mem_lastWins (l : List (α × β)) (p : α × β) (h : p ∈ lastWins l) : p ∈ l := by
  rcases mem_foldl_upsert l [] p h with h | h
  · simp at h
  · exact h

/-- the value `lastWins` keeps for a key is the one of its last entry -/
theorem foldl_upsert_lookup [BEq α] [LawfulBEq α] (l acc : List (α × β)) (k : α) :
    (l.foldl (fun a kv => upsert kv.1 kv.2 a) acc).lookup k
      = match l.reverse.lookup k with | some v => some v | none => acc.lookup k := by
  induction l generalizing acc with
  | nil => simp
  | cons p l ih =>
    obtain ⟨k₁, v₁⟩ := p
    simp only [List.foldl_cons, ih, lookup_upsert, List.reverse_cons]
    cases hl : l.reverse.lookup k with
    | some v => simp [List.lookup_append, hl]
    | none =>
      by_cases h : k = k₁
      · subst h; simp [List.lookup_append, hl, List.lookup]
      · have : (k == k₁) = false := by simpa using h
        simp [List.lookup_append, hl, List.lookup, this, h]

theorem lastWins_lookup [BEq α] [LawfulBEq α] (l : List (α × β)) (k : α) :
    (lastWins l).lookup k = l.reverse.lookup k := by
  rw [lastWins, foldl_upsert_lookup]
  cases l.reverse.lookup k <;> simp

theorem upsert_keys_nodup (k : α) (v : β) (l : List (α × β)) (h : (l.map (·.1)).Nodup) : ((upsert k v l).map (·.1)).Nodup := by
  by_cases hk : k ∈ l.map (·.1)
  · have : (upsert k v l).map (·.1) = l.map (·.1) := by
      clear h
      induction l with
      | nil => simp at hk
      | cons p l ih =>
        obtain ⟨k₁, v₁⟩ := p
        by_cases h1 : k₁ = k
        · simp [upsert, h1]
        · have hk' : k ∈ l.map (·.1) := by
            simp only [List.map_cons, List.mem_cons] at hk
            rcases hk with hk | hk
            · exact absurd hk.symm h1
            · exact hk
          simp [upsert, h1, ih hk']
    rw [this]; exact h
  · rw [upsert_not_mem k v l hk]
    simp only [List.map_append, List.map_cons, List.map_nil]
    rw [List.nodup_append]
    refine ⟨h, by simp, ?_⟩
    intro a ha b hb
    simp only [List.mem_singleton] at hb
    subst hb
    rintro rfl
    exact hk ha

theorem lastWins_keys_nodup (l : List (α × β)) : ((lastWins l).map (·.1)).Nodup := by
  unfold lastWins
  suffices h : ∀ acc : List (α × β), (acc.map (·.1)).Nodup → ((l.foldl (fun a kv => upsert kv.1 kv.2 a) acc).map (·.1)).Nodup from h [] (by simp)
  induction l with
  | nil => intro acc h; simpa
  | cons p l ih => intro acc h; simp only [List.foldl_cons]; exact ih _ (upsert_keys_nodup _ _ _ h)
end

theorem foldl_mergeInter_eq (l acc : List (List Int × Packed)) (h3 : ∀ ic ∈ l, ic.1.length = 3) :
    l.foldl mergeInter acc = l.foldl (fun a kv => upsert kv.1 kv.2 a) acc := by
  induction l generalizing acc with
  | nil => rfl
  | cons ic l ih =>
    have hl : ic.1.length = 3 := h3 ic (by simp)
    simp only [List.foldl_cons]
    rw [ih _ (fun x hx => h3 x (by simp [hx]))]
    congr 1
    simp [mergeInter, hl]

/-- [phase 3] logs in which triples are recorded more than once: the last record of a triple counts -/
theorem interactions_encode_lw (rnd : Rat → Rat) (txs : List Tx) (hw : ∀ ir ∈ t4sOf txs, WellFormed ir) :
    interTable true (interRecs (txs.map (encodeTx rnd true))) = .ok (specInteractionsLW rnd txs) := by
  unfold interRecs specInteractionsLW
  rw [intersOf_encode]
  rw [foldl_mergeInter_eq _ [] (by intro ic hic; simp only [List.mem_map] at hic; obtain ⟨ir, hir, rfl⟩ := hic; exact hw ir hir)]
  have := lastWins_map (fun rows => packedOf rnd true rows) (t4sOf txs)
  simp only [lastWins] at this
  rw [this, sortBy_map (fun ir : List Int × List PyDict => (ir.1, packedOf rnd true ir.2)) ltTriP ltTri (by intro a b; rfl)]
  apply interTable_spec
  intro ir hir
  exact hw ir (mem_lastWins _ _ ((sortBy_perm ltTriP _).mem_iff.mp hir))

theorem lastWins_of_nodup (l : List (List Int × List PyDict)) (h : (l.map (·.1)).Nodup) : lastWins l = l := by
  unfold lastWins
  suffices hh : ∀ acc : List (List Int × List PyDict), (∀ ic ∈ l, ic.1 ∉ acc.map (·.1)) →
      l.foldl (fun a kv => upsert kv.1 kv.2 a) acc = acc ++ l by simpa using hh [] (by simp)
  induction l with
  | nil => intro acc _; simp
  | cons ic l ih =>
    intro acc hdis
    simp only [List.map_cons, List.nodup_cons] at h
    simp only [List.foldl_cons]
    rw [upsert_not_mem _ _ _ (hdis ic (by simp)), ih h.2]
    · simp
    · intro jc hj
      simp only [List.map_append, List.map_cons, List.map_nil, List.mem_append, List.mem_singleton, not_or]
      refine ⟨hdis jc (by simp [hj]), ?_⟩
      intro e
      exact h.1 (e ▸ List.mem_map_of_mem hj)




theorem mem_of_lookup {α β} [BEq α] [LawfulBEq α] (k : α) (v : β) (l : List (α × β)) (h : l.lookup k = some v) : (k, v) ∈ l := by
  induction l with
  | nil => simp at h
  | cons p l ih =>
    obtain ⟨k₁, v₁⟩ := p
    by_cases hk : k = k₁
    · subst hk; simp [List.lookup] at h; simp [h]
    · have hb : (k == k₁) = false := by simpa using hk
      simp [List.lookup, hb] at h
      exact List.mem_cons_of_mem _ (ih h)

def tupRow (r : Row) : Row := r.map (fun kv => (kv.1, tupTop kv.2))

def getRow (o : Option Row) : Row := match o with | some r => r | none => []

theorem mergeComp_lookup (acc : List (Int × Row)) (ip : Int × Row) (id : Int) :
    (mergeComp acc ip).lookup id
      = if id = ip.1 then some (update (getRow (acc.lookup ip.1)) (tupRow ip.2)) else acc.lookup id := by
  unfold mergeComp
  simp only
  rw [lookup_upsert]
  rfl

/-- the row kept for an id is the union, in log order, of all its records (on top of what was there) -/
theorem foldl_mergeComp_lookup (ps : List (Int × Row)) (acc : List (Int × Row)) (id : Int) :
    (ps.foldl mergeComp acc).lookup id
      = if (ps.filter (fun ip => ip.1 = id)) = [] then acc.lookup id
        else some ((ps.filter (fun ip => ip.1 = id)).foldl (fun r ip => update r (tupRow ip.2)) (getRow (acc.lookup id))) := by
  induction ps generalizing acc with
  | nil => simp
  | cons ip ps ih =>
    simp only [List.foldl_cons]
    rw [ih]
    by_cases h : ip.1 = id
    · have hf : (ip :: ps).filter (fun ip => decide (ip.1 = id)) = ip :: ps.filter (fun ip => decide (ip.1 = id)) := by simp [h]
      have hl : (mergeComp acc ip).lookup id = some (update (getRow (acc.lookup id)) (tupRow ip.2)) := by
        rw [mergeComp_lookup, if_pos h.symm, h]
      rw [hf, hl]
      simp only [List.foldl_cons, getRow, reduceCtorEq, if_false]
      by_cases he : ps.filter (fun ip => decide (ip.1 = id)) = []
      · simp [he]
      · simp [he]
    · have hf : (ip :: ps).filter (fun ip => decide (ip.1 = id)) = ps.filter (fun ip => decide (ip.1 = id)) := by simp [h]
      have hl : (mergeComp acc ip).lookup id = acc.lookup id := by
        rw [mergeComp_lookup, if_neg (fun e => h e.symm)]
      rw [hf, hl]

theorem mergeComp_keys_nodup (ps : List (Int × Row)) (acc : List (Int × Row)) (h : (acc.map (·.1)).Nodup) :
    ((ps.foldl mergeComp acc).map (·.1)).Nodup := by
  induction ps generalizing acc with
  | nil => simpa
  | cons ip ps ih => simp only [List.foldl_cons]; exact ih _ (upsert_keys_nodup _ _ _ h)

theorem tupRow_wireDict (rnd : Rat → Rat) (p : PyDict) : tupRow (wireDict rnd p) = normParams rnd p := normParams_eq rnd p

theorem unionParams_eq (rnd : Rat → Rat) (id : Int) (ps : List (Int × PyDict)) :
    ((ps.map (fun ip => (ip.1, wireDict rnd ip.2))).filter (fun ip => ip.1 = id)).foldl (fun r ip => update r (tupRow ip.2)) []
      = unionParams rnd id ps := by
  unfold unionParams
  rw [List.filter_map, List.foldl_map]
  simp only [Function.comp_def, tupRow_wireDict]

/-- [phase 3] every id recorded for table `t` has exactly one row: the union of its records in log order -/
theorem params_union' (rnd : Rat → Rat) (f : Bool) (t : Tbl) (txs : List Tx) (id : Int) (h : id ∈ (paramsOf t txs).map (·.1)) :
    (id, unionParams rnd id (paramsOf t txs)) ∈ compRows t (txs.map (encodeTx rnd f))
    ∧ ((compRows t (txs.map (encodeTx rnd f))).map (·.1)).Nodup := by
  unfold compRows
  rw [compsOf_encode]
  constructor
  · rw [(sortBy_perm ltId _).mem_iff]
    apply mem_of_lookup
    rw [foldl_mergeComp_lookup]
    have hne : ((paramsOf t txs).map (fun ip => (ip.1, wireDict rnd ip.2))).filter (fun ip => decide (ip.1 = id)) ≠ [] := by
      obtain ⟨ip, hip, rfl⟩ := List.mem_map.mp h
      intro e
      have : (ip.1, wireDict rnd ip.2) ∈ ((paramsOf t txs).map (fun ip => (ip.1, wireDict rnd ip.2))).filter (fun q => decide (q.1 = ip.1)) := by
        simp only [List.mem_filter, decide_eq_true_eq, and_true]
        exact List.mem_map_of_mem hip
      rw [e] at this; simp at this
    rw [if_neg hne]
    simp only [getRow, List.lookup_nil, unionParams_eq]
  · exact ((sortBy_perm ltId _).map (·.1)).nodup_iff.mpr (mergeComp_keys_nodup _ [] (by simp))


theorem runNoFile_lw (rnd : Rat → Rat) (info : PyDict) (txs : List Tx) (hw : ∀ ir ∈ t4sOf txs, WellFormed ir) :
    ∃ res, runNoFile rnd true true info txs = .ok res ∧ res.interactions = specInteractionsLW rnd txs := by
  have h := interactions_encode_lw rnd (.t0 info :: txs) hw
  simp only [runNoFile, encode, Bool.false_eq_true, if_false, List.singleton_append, readLog, ne_eq, not_true_eq_false, h]
  exact ⟨_, rfl, rfl⟩

theorem specInteractionsLW_eq (rnd : Rat → Rat) (txs : List Tx) (h : ((t4sOf txs).map (·.1)).Nodup) :
    specInteractionsLW rnd txs = specInteractions rnd txs := by
  unfold specInteractionsLW specInteractions
  rw [lastWins_of_nodup _ h]

/-! ### phase 4: translator tie — definitions regenerated from the coba source (`Generated/C07Consts.lean`) equal what the model uses -/
section Phase4
open Coba.Generated

theorem source_consts_match' :
    C07.encVersion = 4 ∧ C07.decVersion = C07.encVersion ∧ C07.resVersion = C07.encVersion ∧
    C07.encTags = [("T0", "experiment"), ("T1", "E"), ("T2", "L"), ("T3", "V"), ("T4", "I")] ∧
    C07.resTags = C07.encTags.map Prod.snd ∧
    C07.packedKey = "_packed" ∧ C07.countKey = "_n" ∧ C07.encKeyIsStr = true ∧ C07.encAbsentIsNone = true ∧
    C07.exemptCols = ["rewards"] ∧ C07.intCols = idCols ∧ C07.idAssigned = idCols ∧
    C07.paramCols = [Tbl.E, Tbl.L, Tbl.V].map idColName ∧ C07.indexFrom = 1 ∧ 10 ^ C07.precision = 100000 := by
  decide

theorem encode_uses_source_version' (rnd : Rat → Rat) (fixed : Bool) (txs : List Tx) :
    encode rnd fixed false txs = Rec.version C07.encVersion :: txs.map (encodeTx rnd fixed) := rfl

theorem readLog_version_gate' (fixed : Bool) (n : Int) (recs : List Rec) (h : n ≠ C07.resVersion) :
    readLog fixed (Rec.version n :: recs) = .error .stopIteration := by
  have h' : n ≠ 4 := h
  simp [readLog, h']

theorem round5_uses_source_precision' (q : Rat) :
    round5 q = (rhe (fl (q * ((10 ^ C07.precision : Nat) : Rat))) : Rat) / ((10 ^ C07.precision : Nat) : Rat) := by
  have : (10 ^ C07.precision : Nat) = 100000 := by decide
  rw [this]; simp [round5]

theorem normCell_uses_source_exempt' (rnd : Rat → Rat) (col : String) (v : Val) :
    normCell rnd col v = if col ∈ C07.exemptCols then normIn rnd v else normTop rnd v := by
  have : C07.exemptCols = ["rewards"] := by decide
  simp [normCell, this]

theorem tupleCols_uses_source_exempt' (cols : List (String × List Val)) :
    tupleColsPerCell cols = cols.map (fun c => (c.1, if c.1 ∈ C07.exemptCols then c.2 else c.2.map tupTop)) := by
  have : C07.exemptCols = ["rewards"] := by decide
  simp [tupleColsPerCell, this]

theorem idCells_uses_source_cols' (e l v : Int) (i : Nat) :
    (idCells e l v i).map Prod.fst = C07.idAssigned ∧ (idCells e l v (Int.toNat C07.indexFrom)).getLast? = some ("index", .int 1) := by
  exact ⟨rfl, rfl⟩
end Phase4


/-! ### phase 5: the padded tables of a clean run are `specTables`, whatever the order of the log -/

theorem interGroups_spec (rnd : Rat → Rat) (l : List (List Int × List PyDict)) (h : ∀ ir ∈ l, WellFormed ir) :
    interGroups true (l.map (fun ir => (ir.1, packedOf rnd true ir.2)))
      = .ok ((l.map (specRowsOf rnd)).filter (fun g => !g.isEmpty)) := by
  induction l with
  | nil => simp [interGroups]
  | cons ir l ih =>
    obtain ⟨ids, rows⟩ := ir
    have h3 : ids.length = 3 := h (ids, rows) (by simp)
    match ids, h3 with
    | [e, l', v], _ =>
      simp only [List.map_cons, interGroups, triRows_packedOf rnd e l' v rows, ih (fun x hx => h x (by simp [hx])), specRowsOf,
        List.filter_cons]
      by_cases hr : (specRows rnd e l' v rows).isEmpty <;> simp [hr]

theorem groups_encode (rnd : Rat → Rat) (txs : List Tx)
    (hw : ∀ ir ∈ t4sOf txs, WellFormed ir) (hnd : ((t4sOf txs).map (·.1)).Nodup) :
    interGroups true (interRecs (txs.map (encodeTx rnd true))) = .ok (specGroups rnd txs) := by
  unfold interRecs specGroups
  rw [intersOf_encode]
  rw [foldl_mergeInter_nodup _ [] (by intro ic hic; simp only [List.mem_map] at hic; obtain ⟨ir, hir, rfl⟩ := hic; exact hw ir hir)
        (by simpa [List.map_map, Function.comp_def] using hnd) (by simp)]
  rw [List.nil_append, sortBy_map (fun ir : List Int × List PyDict => (ir.1, packedOf rnd true ir.2)) ltTriP ltTri (by intro a b; rfl)]
  apply interGroups_spec
  intro ir hir
  exact hw ir ((sortBy_perm ltTriP _).mem_iff.mp hir)

theorem specGroups_flatten (rnd : Rat → Rat) (txs : List Tx) : (specGroups rnd txs).flatten = specInteractions rnd txs := by
  unfold specGroups specInteractions
  generalize sortBy ltTriP (t4sOf txs) = l
  induction l with
  | nil => simp
  | cons a l ih =>
    simp only [List.map_cons, List.filter_cons, List.flatMap_cons]
    by_cases hr : (specRowsOf rnd a).isEmpty
    · simp [ih, List.isEmpty_iff.mp hr]
    · simp [hr, ih]

theorem tablesOf_run (rnd : Rat → Rat) (info : PyDict) (txs : List Tx) (hc : CleanRun txs) :
    tablesOf true (encode rnd true false (.t0 info :: txs)) = .ok (specTables rnd txs) := by
  have hg := groups_encode rnd (.t0 info :: txs) hc.wf hc.triNodup
  have hE := compTable_encode rnd true .E (.t0 info :: txs) (hc.idNodup .E) (hc.keysOk .E)
  have hL := compTable_encode rnd true .L (.t0 info :: txs) (hc.idNodup .L) (hc.keysOk .L)
  have hV := compTable_encode rnd true .V (.t0 info :: txs) (hc.idNodup .V) (hc.keysOk .V)
  simp only [encode, Bool.false_eq_true, if_false, List.singleton_append, tablesOf, ne_eq, not_true_eq_false, hg, hE, hL, hV]
  rfl

theorem specTables_perm (rnd : Rat → Rat) (txs txs' : List Tx) (hp : txs.Perm txs') (hc : CleanRun txs) :
    specTables rnd txs = specTables rnd txs' := by
  simp only [specTables, specGroups, specParams_perm rnd _ txs txs' hp (hc.idNodup _),
    sortBy_eq_of_perm ltTriP ltTriP_asymm ltTriP_trans _ _ (t4sOf_perm _ _ hp) (ltTriP_anti _ hc.triNodup)]

theorem tables_order_invariant' (rnd : Rat → Rat) (info : PyDict) (txs txs' : List Tx) (hp : txs.Perm txs') (hc : CleanRun txs) :
    tablesOf true (fileAfter rnd true info none txs') = .ok (specTables rnd txs)
    ∧ tablesOf true (fileAfter rnd true info none txs) = .ok (specTables rnd txs) := by
  refine ⟨?_, tablesOf_run rnd info txs hc⟩
  rw [specTables_perm rnd txs txs' hp hc]
  exact tablesOf_run rnd info txs' (cleanRun_perm txs txs' hp hc)

theorem tables_punched_log' (rnd : Rat → Rat) (info : PyDict) (txs keep txs₂ : List Tx) (hc : CleanRun txs)
    (hp : (keep ++ txs₂).Perm txs) :
    tablesOf true (fileAfter rnd true info (some (fileAfter rnd true info none keep)) txs₂) = .ok (specTables rnd txs) := by
  have h : fileAfter rnd true info (some (fileAfter rnd true info none keep)) txs₂ = fileAfter rnd true info none (keep ++ txs₂) := by
    simp only [fileAfter, encode_append]
  rw [h]
  exact (tables_order_invariant' rnd info txs (keep ++ txs₂) hp.symm hc).1



theorem nodupB_iff {α} [DecidableEq α] (l : List α) : nodupB l = true ↔ l.Nodup := by
  induction l with
  | nil => simp [nodupB]
  | cons x xs ih => simp [nodupB, ih]

theorem cleanRunB_sound (txs : List Tx) (h : cleanRunB txs = true) : CleanRun txs := by
  simp only [cleanRunB, Bool.and_eq_true, List.all_eq_true, decide_eq_true_eq, nodupB_iff] at h
  obtain ⟨⟨⟨h0, hw⟩, hn⟩, ht⟩ := h
  refine ⟨?_, ?_, hn, ?_, ?_⟩
  · intro m hm
    have := h0 _ hm
    simp at this
  · intro ir hir; exact hw ir hir
  · intro t
    have := ht t (by cases t <;> simp)
    exact this.1
  · intro t ip hip
    have := ht t (by cases t <;> simp)
    exact this.2 ip hip

theorem cleanRunB_complete (txs : List Tx) (h : CleanRun txs) : cleanRunB txs = true := by
  simp only [cleanRunB, Bool.and_eq_true, List.all_eq_true, decide_eq_true_eq, nodupB_iff]
  refine ⟨⟨⟨?_, h.wf⟩, h.triNodup⟩, ?_⟩
  · intro t ht
    cases t with
    | t0 m => exact absurd ht (h.noT0 m)
    | _ => rfl
  · intro t _
    exact ⟨h.idNodup t, h.keysOk t⟩


/-! ### phase 5: `Result.__init__` caches / `full_name` -/

theorem cellAt_map (cols : List String) (f : String → Option Val) (c : String) :
    cellAt cols (cols.map f) c = if c ∈ cols then f c else none := by
  unfold cellAt
  induction cols with
  | nil => simp
  | cons d ds ih =>
    simp only [List.map_cons, List.zip_cons_cons, List.lookup_cons, List.mem_cons]
    by_cases h : c = d
    · subst h
      simp
      cases f c <;> rfl
    · have : (c == d) = false := by simpa using h
      simp only [this, h, false_or]
      exact ih

theorem lookup_none_of_not_key (r : Row) (c : String) (h : c ∉ rowKeys r) : r.lookup c = none :=
  lookup_not_mem c r h

theorem lrnNames_padTable (init : List String) (groups : List (List Row)) :
    lrnNames (padTable init groups)
      = groups.flatten.map (fun r => fullNameOf (padTable init groups).columns (fun c => r.lookup c)) := by
  simp only [lrnNames, padTable, List.map_map]
  apply List.map_congr_left
  intro r hr
  simp only [Function.comp]
  congr 1
  funext c
  rw [cellAt_map]
  split
  · rfl
  · rename_i hc
    symm
    apply lookup_none_of_not_key
    intro hk
    apply hc
    obtain ⟨g, hg, hrg⟩ := List.mem_flatten.mp hr
    exact (tableCols_mem init groups c).mpr (Or.inr ⟨g, hg, r, hrg, hk⟩)

theorem lookup_some_key (r : Row) (c : String) (v : Val) (h : r.lookup c = some v) : c ∈ rowKeys r := by
  by_contra hc
  rw [lookup_none_of_not_key r c hc] at h
  cases h

theorem nameParams_mem (cols : List String) (get : String → Option Val) (hget : ∀ c v, get c = some v → c ∈ cols) (k : String) (v : Val) :
    (k, v) ∈ nameParams cols get ↔ (k ≠ "" ∧ k ≠ "family" ∧ k ≠ "learner_id" ∧ get k = some v) := by
  simp only [nameParams, List.mem_filterMap]
  constructor
  · rintro ⟨c, hc, h⟩
    split at h
    · cases h
    · rename_i hne
      simp only [not_or] at hne
      cases hg : get c with
      | none => simp [hg] at h
      | some w =>
        simp only [hg, Option.map_some, Option.some.injEq, Prod.mk.injEq] at h
        obtain ⟨rfl, rfl⟩ := h
        exact ⟨hne.1, hne.2.1, hne.2.2, hg⟩
  · rintro ⟨h1, h2, h3, hg⟩
    refine ⟨k, hget k v hg, ?_⟩
    simp [h1, h2, h3, hg]

theorem nameParams_sublist (cols : List String) (get : String → Option Val) :
    ((nameParams cols get).map (·.1)).Sublist cols := by
  unfold nameParams
  induction cols with
  | nil => simp
  | cons c cs ih =>
    simp only [List.filterMap_cons]
    split
    · exact ih.cons _
    · rename_i b hb
      split at hb
      · cases hb
      · cases hg : get c with
        | none => simp [hg] at hb
        | some w =>
          simp only [hg, Option.map_some, Option.some.injEq] at hb
          subst hb
          simpa using ih.cons_cons c



/-! ### phase 5: record shapes (tag → shape) of encoder and reader as tables -/

theorem line_roundtrip_model (rnd : Rat → Rat) (fixed : Bool) (tx : Tx) :
    (encodeLine modelEncShapes rnd fixed tx).bind (decodeLine modelResShapes) = some (encodeTx rnd fixed tx) := by
  cases tx <;> rfl

theorem lines_roundtrip_model (rnd : Rat → Rat) (fixed : Bool) (txs : List Tx) :
    (encodeLines modelEncShapes rnd fixed txs).bind (decodeLines modelResShapes) = some (txs.map (encodeTx rnd fixed)) := by
  induction txs with
  | nil => rfl
  | cons tx txs ih =>
    have h1 := line_roundtrip_model rnd fixed tx
    simp only [encodeLines]
    cases he : encodeLine modelEncShapes rnd fixed tx with
    | none => simp [he] at h1
    | some l =>
      cases hes : encodeLines modelEncShapes rnd fixed txs with
      | none => simp [hes] at ih
      | some ls =>
        simp only [he, hes, Option.bind_some] at h1 ih ⊢
        simp only [decodeLines, h1, ih, List.map_cons]

theorem viaTables_eq (rnd : Rat → Rat) (fe fr : Bool) (info : PyDict) (txs : List Tx) :
    viaTables rnd fe fr info txs = some (runNoFile rnd fe fr info txs) := by
  have h := lines_roundtrip_model rnd fe (.t0 info :: txs)
  unfold viaTables
  cases he : encodeLines modelEncShapes rnd fe (.t0 info :: txs) with
  | none => simp [he] at h
  | some ls =>
    simp only [he, Option.bind_some] at h
    simp only [h, runNoFile, encode]
    rfl

section Phase5Shapes
open Coba.Generated
theorem source_shapes_match' : C07.encShapes = modelEncShapes ∧ C07.resShapes = modelResShapes := by
  constructor <;> decide
end Phase5Shapes

/-! ### phase 6: logs that record the same id several times — order of records of different ids is irrelevant -/
section Phase6

theorem sameKeyOrder_refl (a : List Rec) : SameKeyOrder a a := fun _ => rfl
theorem sameKeyOrder_symm {a b : List Rec} (h : SameKeyOrder a b) : SameKeyOrder b a := fun k => (h k).symm
theorem sameKeyOrder_trans {a b c : List Rec} (h1 : SameKeyOrder a b) (h2 : SameKeyOrder b c) : SameKeyOrder a c :=
  fun k => (h1 k).trans (h2 k)

theorem pullKey_sameKeyOrder (k : RecKey) (recs : List Rec) : SameKeyOrder recs (pullKey k recs) := by
  intro k'
  unfold pullKey
  rw [List.filter_append, List.filter_filter, List.filter_filter]
  by_cases h : k' = k
  · subst h
    have h1 : (recs.filter (fun r => decide (recKey r = k') && !decide (recKey r = k'))) = [] := by
      apply List.filter_eq_nil_iff.mpr; intro r _; simp
    rw [h1, List.append_nil]
    congr 1; funext r; simp
  · have h1 : (recs.filter (fun r => decide (recKey r = k') && decide (recKey r = k))) = [] := by
      apply List.filter_eq_nil_iff.mpr; intro r _
      by_cases hr : recKey r = k'
      · simp [hr, h]
      · simp [hr]
    rw [h1, List.nil_append]
    congr 1; funext r
    by_cases hr : recKey r = k'
    · simp [hr, h]
    · simp [hr]

theorem regroupBy_sameKeyOrder' (ks : List RecKey) (recs : List Rec) : SameKeyOrder recs (regroupBy ks recs) := by
  unfold regroupBy
  induction ks generalizing recs with
  | nil => exact sameKeyOrder_refl recs
  | cons k ks ih =>
    simp only [List.foldl_cons]
    exact sameKeyOrder_trans (pullKey_sameKeyOrder k recs) (ih _)

theorem regroupBy_perm (ks : List RecKey) (recs : List Rec) : (regroupBy ks recs).Perm recs := by
  unfold regroupBy
  induction ks generalizing recs with
  | nil => exact List.Perm.refl _
  | cons k ks ih =>
    simp only [List.foldl_cons]
    refine (ih _).trans ?_
    unfold pullKey
    exact List.filter_append_perm _ _

/-- the records of one id of table `t`, in log order, are those of the key `comp t id` -/
theorem compsOf_filter (t : Tbl) (id : Int) (recs : List Rec) :
    (compsOf t recs).filter (fun ip => decide (ip.1 = id)) = compsOf t (recs.filter (fun r => decide (recKey r = .comp t id))) := by
  induction recs with
  | nil => simp [compsOf]
  | cons r rs ih =>
    cases r with
    | version n => simp [compsOf, recKey, List.filter_cons, ih]
    | experiment d => simp [compsOf, recKey, List.filter_cons, ih]
    | inter ids c n => simp [compsOf, recKey, List.filter_cons, ih]
    | comp t' id' p =>
      by_cases ht : t' = t
      · by_cases hi : id' = id
        · subst ht; subst hi; simp [compsOf, recKey, List.filter_cons, ih]
        · subst ht; simp [compsOf, recKey, List.filter_cons, ih, hi]
      · simp [compsOf, recKey, List.filter_cons, ih, ht]

def keyed (l : List (List Int × Packed)) : List (List Int × Packed) := l.map (fun ic => (triKey ic.1, ic.2))

theorem intersOf_filter (k : List Int) (recs : List Rec) :
    (keyed (intersOf recs)).filter (fun ic => ic.1 == k) = keyed (intersOf (recs.filter (fun r => decide (recKey r = .inter k)))) := by
  induction recs with
  | nil => simp [intersOf, keyed]
  | cons r rs ih =>
    unfold keyed at ih ⊢
    cases r with
    | version n => simp [intersOf, recKey, List.filter_cons, ih]
    | experiment d => simp [intersOf, recKey, List.filter_cons, ih]
    | comp t' id' p => simp [intersOf, recKey, List.filter_cons, ih]
    | inter ids c n =>
      by_cases hk : triKey ids = k
      · simp [intersOf, recKey, List.filter_cons, ih, hk]
      · simp [intersOf, recKey, List.filter_cons, ih, hk]

theorem foldl_mergeInter_keyed (l acc : List (List Int × Packed)) :
    l.foldl mergeInter acc = (keyed l).foldl (fun a kv => upsert kv.1 kv.2 a) acc := by
  unfold keyed
  rw [List.foldl_map]
  rfl

theorem lookup_filter_key {κ β : Type} [BEq κ] [LawfulBEq κ] (l : List (κ × β)) (k : κ) :
    (l.filter (fun p => p.1 == k)).lookup k = l.lookup k := by
  induction l with
  | nil => rfl
  | cons p l ih =>
    obtain ⟨k₁, v₁⟩ := p
    by_cases h : k₁ = k
    · subst h; simp [List.filter_cons, List.lookup]
    · have hb : (k == k₁) = false := by simpa using (fun e : k = k₁ => h e.symm)
      simp [List.filter_cons, h, List.lookup, hb, ih]

/-- two dictionaries (distinct keys) with the same value for every key hold the same items -/
theorem perm_of_lookup_eq {κ β : Type} [BEq κ] [LawfulBEq κ] (a b : List (κ × β))
    (ha : (a.map (·.1)).Nodup) (hb : (b.map (·.1)).Nodup) (h : ∀ k, a.lookup k = b.lookup k) : a.Perm b := by
  have mem_iff : ∀ (l : List (κ × β)), (l.map (·.1)).Nodup → ∀ p : κ × β, p ∈ l ↔ l.lookup p.1 = some p.2 := by
    intro l
    induction l with
    | nil => intro _ p; simp
    | cons q l ih =>
      intro hn p
      obtain ⟨k₁, v₁⟩ := q
      obtain ⟨k, v⟩ := p
      simp only [List.map_cons, List.nodup_cons] at hn
      by_cases hk : k = k₁
      · subst hk
        simp only [List.mem_cons, List.lookup, beq_self_eq_true, Option.some.injEq, Prod.mk.injEq, true_and]
        constructor
        · rintro (h | h)
          · exact h.symm
          · exact absurd (List.mem_map_of_mem (f := (·.1)) h) hn.1
        · intro h; exact Or.inl h.symm
      · have hb : (k == k₁) = false := by simpa using hk
        simp only [List.mem_cons, Prod.mk.injEq, hk, false_and, false_or, List.lookup, hb]
        exact ih hn.2 (k, v)
  have na : a.Nodup := List.Nodup.of_map _ ha
  have nb : b.Nodup := List.Nodup.of_map _ hb
  rw [List.perm_ext_iff_of_nodup na nb]
  intro p
  rw [mem_iff a ha p, mem_iff b hb p, h]

theorem ltId_asymm (a b : Int × Row) (h : ltId a b = true) : ltId b a = false := by
  unfold ltId at *
  simp only [decide_eq_true_eq, decide_eq_false_iff_not] at *
  omega

theorem ltId_trans (a b c : Int × Row) (h1 : leOf ltId a b) (h2 : leOf ltId b c) : leOf ltId a c := by
  unfold leOf ltId at *
  simp only [decide_eq_false_iff_not] at *
  omega

theorem ltId_anti (l : List (Int × Row)) (hnd : (l.map (·.1)).Nodup) :
    ∀ a ∈ l, ∀ b ∈ l, leOf ltId a b → leOf ltId b a → a = b := by
  intro a ha b hb h1 h2
  unfold leOf ltId at *
  simp only [decide_eq_false_iff_not] at *
  have : a.1 = b.1 := by omega
  exact List.inj_on_of_nodup_map hnd ha hb this

theorem ltTri_asymm (a b : List Int × Packed) (h : ltTri a b = true) : ltTri b a = false := by
  unfold ltTri at *
  rw [ltIds_iff] at h
  rw [Bool.eq_false_iff, ne_eq, ltIds_iff]
  exact lt_asymm h

theorem ltTri_trans (a b c : List Int × Packed) (h1 : leOf ltTri a b) (h2 : leOf ltTri b c) : leOf ltTri a c := by
  unfold leOf ltTri at *
  rw [Bool.eq_false_iff, ne_eq, ltIds_iff] at *
  exact not_lt.mpr (le_trans (not_lt.mp h1) (not_lt.mp h2))

theorem ltTri_anti (l : List (List Int × Packed)) (hnd : (l.map (·.1)).Nodup) :
    ∀ a ∈ l, ∀ b ∈ l, leOf ltTri a b → leOf ltTri b a → a = b := by
  intro a ha b hb h1 h2
  unfold leOf ltTri at *
  rw [Bool.eq_false_iff, ne_eq, ltIds_iff] at *
  have : a.1 = b.1 := le_antisymm (not_lt.mp h1) (not_lt.mp h2)
  exact List.inj_on_of_nodup_map hnd ha hb this

theorem compRows_sameKeyOrder (t : Tbl) (a b : List Rec) (h : SameKeyOrder a b) : compRows t a = compRows t b := by
  unfold compRows
  have hnd : ∀ l : List (Int × Row), ((l.foldl mergeComp []).map (·.1)).Nodup := fun l => mergeComp_keys_nodup l [] (by simp)
  apply sortBy_eq_of_perm ltId ltId_asymm ltId_trans _ _ _ (ltId_anti _ (hnd _))
  apply perm_of_lookup_eq _ _ (hnd _) (hnd _)
  intro id
  rw [foldl_mergeComp_lookup, foldl_mergeComp_lookup, compsOf_filter, compsOf_filter, h (.comp t id)]

theorem upsert_fold_keys_nodup {κ β : Type} [DecidableEq κ] (l acc : List (κ × β)) (h : (acc.map (·.1)).Nodup) :
    ((l.foldl (fun a kv => upsert kv.1 kv.2 a) acc).map (·.1)).Nodup := by
  induction l generalizing acc with
  | nil => simpa
  | cons p l ih => simp only [List.foldl_cons]; exact ih _ (upsert_keys_nodup _ _ _ h)

theorem interRecs_sameKeyOrder (a b : List Rec) (h : SameKeyOrder a b) : interRecs a = interRecs b := by
  unfold interRecs
  rw [foldl_mergeInter_keyed, foldl_mergeInter_keyed]
  have hnd : ∀ l : List (List Int × Packed), ((l.foldl (fun a kv => upsert kv.1 kv.2 a) []).map (·.1)).Nodup :=
    fun l => upsert_fold_keys_nodup l [] (by simp)
  apply sortBy_eq_of_perm ltTri ltTri_asymm ltTri_trans _ _ _ (ltTri_anti _ (hnd _))
  apply perm_of_lookup_eq _ _ (hnd _) (hnd _)
  intro k
  rw [foldl_upsert_lookup, foldl_upsert_lookup]
  have e : ∀ recs : List Rec, (keyed (intersOf recs)).reverse.lookup k
      = (keyed (intersOf (recs.filter (fun r => decide (recKey r = .inter k))))).reverse.lookup k := by
    intro recs
    rw [← intersOf_filter, ← List.filter_reverse, lookup_filter_key]
  rw [e a, e b, h (.inter k)]

theorem lastExperiment_filter (recs : List Rec) :
    lastExperiment recs = lastExperiment (recs.filter (fun r => decide (recKey r = .experiment))) := by
  unfold lastExperiment
  generalize ([] : Row) = acc
  induction recs generalizing acc with
  | nil => rfl
  | cons r rs ih =>
    cases r <;> simp [List.filter_cons, recKey, ih]

theorem lastExperiment_sameKeyOrder (a b : List Rec) (h : SameKeyOrder a b) : lastExperiment a = lastExperiment b := by
  rw [lastExperiment_filter a, lastExperiment_filter b, h .experiment]

/-- [phase 6] the Result (rows of the four tables, `experiment`) and the padded tables of a log depend only on the relative order of the
records of each single key: any rearrangement that keeps, for every id, its records in their order reads back the same -/
theorem readLog_same_key_order' (fr : Bool) (n : Int) (a b : List Rec) (h : SameKeyOrder a b) :
    readLog fr (.version n :: a) = readLog fr (.version n :: b) ∧ tablesOf fr (.version n :: a) = tablesOf fr (.version n :: b) := by
  have hc : ∀ t, compTable t a = compTable t b := fun t => by unfold compTable; rw [compRows_sameKeyOrder t a b h]
  constructor
  · simp only [readLog, interRecs_sameKeyOrder a b h, lastExperiment_sameKeyOrder a b h, hc]
  · simp only [tablesOf, interRecs_sameKeyOrder a b h, hc]

theorem regroupLog_same' (fr : Bool) (recs : List Rec) :
    readLog fr (regroupLog recs) = readLog fr recs ∧ tablesOf fr (regroupLog recs) = tablesOf fr recs := by
  cases recs with
  | nil => exact ⟨rfl, rfl⟩
  | cons r rs =>
    cases r with
    | version n =>
      have := readLog_same_key_order' fr n rs _ (regroupBy_sameKeyOrder' (rs.map recKey) rs)
      exact ⟨this.1.symm, this.2.symm⟩
    | experiment d => exact ⟨rfl, rfl⟩
    | comp t id p => exact ⟨rfl, rfl⟩
    | inter ids c k => exact ⟨rfl, rfl⟩

theorem same_key_order_counterexample' :
    (readLog true [.version 4, .comp .L 0 [("x", .int 1)], .comp .L 0 [("x", .int 2)]]).toOption.map (·.learners)
        = some [[("learner_id", .int 0), ("x", .int 2)]]
    ∧ (readLog true [.version 4, .comp .L 0 [("x", .int 2)], .comp .L 0 [("x", .int 1)]]).toOption.map (·.learners)
        = some [[("learner_id", .int 0), ("x", .int 1)]] := by
  constructor <;> rfl

/-- [phase 6, key handling] field names / dictionary keys that are equal for Python (`1 == True == 1.0`) are different names on the wire -/
theorem python_equal_names_kept_apart' (a b c : Val) :
    pack [[(Key.int 1, a)], [(Key.bool true, b)], [(Key.other "1.0", c)]]
      = [("1", [a, .none, .none]), ("1.0", [.none, .none, c]), ("True", [.none, b, .none])]
    ∧ jsonify (.dict [(Key.int 1, a), (Key.bool true, b), (Key.other "1.0", c)])
      = .dict [(Key.str "1", jsonify a), (Key.str "true", jsonify b), (Key.str "1.0", jsonify c)] := by
  constructor
  · have e : strKeys [[(Key.int 1, a)], [(Key.bool true, b)], [(Key.other "1.0", c)]] = ["1", "1.0", "True"] := by
      simp only [strKeys, List.flatMap_cons, List.flatMap_nil, rowStrs, List.map_cons, List.map_nil, Key.pystr, List.append_nil, List.cons_append, List.nil_append]
      decide
    have h1 : toString (1 : Int) = "1" := by decide
    simp [pack, e, packWith, cellOf, lookupLast, Key.pystr, h1]
  · rfl

end Phase6

end Coba.C07
