/-
C02 — Interrupted experiments resume without losing or repeating work.
Property theorems only (helper lemmas live in `Lemmas/C02.lean`, definitions in `Model/C02.lean`).

Reading of the statement.  `w : World` is an experiment (its triples, the record every task
writes, the JSON codec).  A *log* is a list of records; `ValidLog w L` says `L` is something a
(possibly already interrupted and resumed) run of `w` can have written: it starts with the
version line, no id occurs twice, every record is one the experiment produces.  `cut w L k` is
the file a run leaves behind when it is killed after `k` bytes of `L` reached the disk — for
EVERY `k`, between two records and inside one.  `restore`/`finish`/`resume` with `Flags.fixed`
are `Experiment.run(result_file)` with fixes/C02-*.diff applied, with `Flags.cur` the code at
the pinned commit.  The records the resumed run appends may arrive in any order (`app` is any
permutation of the task outputs: any execution configuration).

The uninterrupted run is the special case "no file" (`uninterrupted_run`): its log is a
permutation of `w.universe`, so "equals the Result of an uninterrupted run" is
`F.Perm w.universe` + `bodies F = bodies w.universe` (TransactionResult folds per id).
-/
import CobaVerif.Lemmas.C02
import CobaVerif.Generated.C02ScanConsts
import CobaVerif.Generated.C02MaxChunker
import CobaVerif.Generated.C02SinkLoop
import CobaVerif.Generated.C02Config

namespace Coba.C02
open Ex

/-! ### byte level -/

/-- [core] a `k`-byte prefix of a log consists of the first `j` records, complete, followed by an
unterminated tail `p` that is a prefix (possibly all, possibly nothing) of record `j`; that is
also exactly what line splitting (DiskSource) sees -/
theorem prefix_lines (rs : List Bytes) (h : ∀ r ∈ rs, NoNL r) (k : Nat) :
    ∃ j p, (serialize rs).take k = serialize (rs.take j) ++ p ∧
      splitNL ((serialize rs).take k) = (rs.take j, p) ∧ NoNL p ∧
      (p = [] ∨ ∃ r, rs[j]? = some r ∧ p <+: r) := prefix_lines' rs h k

/-- [core] a proper prefix of a JSON array text is never accepted (bracket-depth argument on the
model's scanner): a torn record can not be mistaken for a record -/
theorem torn_never_valid (r p : Bytes) (h : balanced r = true) (hp : p <+: r) (hne : p ≠ r) :
    balanced p = false := balanced_prefix_free r p h hp hne

/-- the concrete codec/world the driver runs satisfies the hypotheses of the theorems below as
soon as the run-time check `tableWorldOK` (reported as `hyp` by the driver) holds -/
theorem table_world_ok (tbl : List (Rec × Bytes)) (ver exp : Rec) (triples : List (Nat × Nat × Nat))
    (h : tableWorldOK tbl ver exp triples = true) : (tableWorld tbl ver exp triples).OK :=
  tableWorld_OK tbl ver exp triples h

example : tableWorldOK Ex.tbl rVer rExp [(0, 0, 0)] = true := by decide

/-! ### MakeTasks -/

/-- skipping restored ids is exactly filtering the task list of a fresh run: ids do not depend on
what was restored -/
theorem skip_is_filter (fx : Bool) (K : List Rec) (ts : List (Nat × Nat × Nat)) :
    makeTasks fx K ts = (makeTasks false [] ts).filter (fun t => !done fx K t) := makeTasks_filter fx K ts

/-- an experiment that lists every triple once creates every task once -/
theorem tasks_listed_once (ts : List (Nat × Nat × Nat)) (h : ts.Nodup) : (makeTasks false [] ts).Nodup :=
  makeTasks_nodup' ts h

/-! ### the resume protocol, repaired code (`Flags.fixed`) -/

/-- [core] `restore_eq_prefix` + `torn tail never raises`: for every cut, restoring succeeds and
restores a prefix `K` of the log that contains every complete line; the file the new records are
appended to is the clean log of `K` (empty, or ending in a newline) -/
theorem restore_eq_prefix (w : World) (hw : w.OK) (L : List Rec) (hL : ValidLog w L) (k : Nat) :
    ∃ j p K, cut w L k = logFile w (L.take j) ++ p ∧
      (p = [] ∨ ∃ x, L[j]? = some x ∧ p <+: w.c.enc x) ∧
      restore Flags.fixed w.c (some (cut w L k)) = some ⟨logFile w K, K⟩ ∧
      K <+: L ∧ L.take j <+: K := restore_fixed Flags.fixed rfl w hw L hL k

/-- [core] the whole property for one resumption, for every cut `k` and every order `app` in
which the outputs of the remaining tasks arrive (code with all four repairs, `Flags.fixed`; NO hypothesis on row-less
evaluations any more — phase 2):
`append_on_fresh_line` (the final file is the clean log of `K ++ appended`),
the final read succeeds, the final log is again valid (`resume_closed`: so the theorem applies
to any later interruption of the resumed run as well), it is a permutation of what an
uninterrupted run writes (nothing lost, nothing twice), and no task that is run has its id among
the restored records -/
theorem resume_correct (w : World) (hw : w.OK) (L : List Rec) (hL : ValidLog w L) (k : Nat) :
    ∃ j p K, cut w L k = logFile w (L.take j) ++ p ∧
      (p = [] ∨ ∃ x, L[j]? = some x ∧ p <+: w.c.enc x) ∧ K <+: L ∧ L.take j <+: K ∧
      restore Flags.fixed w.c (some (cut w L k)) = some ⟨logFile w K, K⟩ ∧
      ∀ app, app.Perm ((makeTasks true K w.triples).filterMap w.out) →
        let o := finish w.c ⟨logFile w K, K⟩ (makeTasks true K w.triples)
          (preamble Flags.fixed w.ver w.exp K) app
        o.file = logFile w (K ++ o.appended) ∧
        o.final = some (K ++ o.appended) ∧
        ValidLog w (K ++ o.appended) ∧
        (K ++ o.appended).Perm w.universe ∧
        (∀ t ∈ o.tasks, ∀ r ∈ K, r.key ≠ t.key) := resume_correct' w hw L hL k

/-- the same for the code as committed in /repo (torn-tail, preamble and gz repair; `Flags.committed`): PARTIAL, under the
hypothesis `NonEmptyI` that `empty_rows_counterexample` shows to be necessary there -/
theorem resume_correct_committed (w : World) (hw : w.OK) (hI : NonEmptyI w) (L : List Rec) (hL : ValidLog w L) (k : Nat) :
    ∃ j p K, cut w L k = logFile w (L.take j) ++ p ∧
      (p = [] ∨ ∃ x, L[j]? = some x ∧ p <+: w.c.enc x) ∧ K <+: L ∧ L.take j <+: K ∧
      restore Flags.committed w.c (some (cut w L k)) = some ⟨logFile w K, K⟩ ∧
      ∀ app, app.Perm ((makeTasks false K w.triples).filterMap w.out) →
        let o := finish w.c ⟨logFile w K, K⟩ (makeTasks false K w.triples)
          (preamble Flags.committed w.ver w.exp K) app
        o.file = logFile w (K ++ o.appended) ∧
        o.final = some (K ++ o.appended) ∧
        ValidLog w (K ++ o.appended) ∧
        (K ++ o.appended).Perm w.universe ∧
        (∀ t ∈ o.tasks, ∀ r ∈ K, r.key ≠ t.key) := resume_correct_committed' w hw hI L hL k

/-- [core] `resume_eq_full`, `no_duplicate_I`, `append_on_fresh_line` for the run in task order
(what the driver executes): the resumed run returns a log `F` with the same records per id as
the uninterrupted run -/
theorem resume_eq_full (w : World) (hw : w.OK) (L : List Rec) (hL : ValidLog w L) (k : Nat) :
    ∃ o F, resume Flags.fixed w (some (cut w L k)) = some o ∧ o.final = some F ∧
      o.file = logFile w F ∧ F = o.restored.K ++ o.appended ∧ o.restored.K <+: L ∧
      ValidLog w F ∧ F.Perm w.universe ∧ (∀ key, bodies F key = bodies w.universe key) ∧
      (∀ t ∈ o.tasks, ∀ r ∈ o.restored.K, r.key ≠ t.key) := resume_eq' w hw L hL k

theorem resume_eq_full_committed (w : World) (hw : w.OK) (hI : NonEmptyI w) (L : List Rec) (hL : ValidLog w L) (k : Nat) :
    ∃ o F, resume Flags.committed w (some (cut w L k)) = some o ∧ o.final = some F ∧
      o.file = logFile w F ∧ F = o.restored.K ++ o.appended ∧ o.restored.K <+: L ∧
      ValidLog w F ∧ F.Perm w.universe ∧ (∀ key, bodies F key = bodies w.universe key) ∧
      (∀ t ∈ o.tasks, ∀ r ∈ o.restored.K, r.key ≠ t.key) := resume_eq_committed' w hw hI L hL k

/-- [core] `no_reeval`, literally: whatever record decodes from a complete line of the cut file,
no task of the resumed run carries its id — now without `NonEmptyI` (fixes/C02-finished-triples.diff) -/
theorem no_reeval (w : World) (hw : w.OK) (L : List Rec) (hL : ValidLog w L) (k : Nat) :
    ∃ R, restore Flags.fixed w.c (some (cut w L k)) = some R ∧
      ∀ l ∈ (splitNL (cut w L k)).1, ∀ r, w.c.dec l = some r →
        ∀ t ∈ makeTasks true R.K w.triples, t.key ≠ r.key := no_reeval' w hw L hL k

theorem no_reeval_committed (w : World) (hw : w.OK) (hI : NonEmptyI w) (L : List Rec) (hL : ValidLog w L) (k : Nat) :
    ∃ R, restore Flags.committed w.c (some (cut w L k)) = some R ∧
      ∀ l ∈ (splitNL (cut w L k)).1, ∀ r, w.c.dec l = some r →
        ∀ t ∈ makeTasks false R.K w.triples, t.key ≠ r.key := no_reeval_committed' w hw hI L hL k

/-- [phase 2] `resume_from_any_sublog`: take the log `full` of an uninterrupted run (any arrival order), keep the version
line first and ANY sub-multiset of the other records in ANY order (`Subperm`: not only a byte prefix — what a killed
multi-process run leaves; the experiment line may even be missing), cut that file at ANY byte `k`: it is a valid log, the
resumed run completes and returns a log with exactly the records of `full`, hence the uninterrupted Result, and re-runs no
restored id.  (C07's `punched_log_resume` is the matching statement about the decoded tables: kept records + appended
records a permutation of the full run's ⇒ `fromFile` gives `specResult`.) -/
theorem resume_from_any_sublog (w : World) (hw : w.OK) (full : List Rec) (hfull : full.Perm w.universe)
    (rest : List Rec) (hsub : (w.ver :: rest).Subperm full) (k : Nat) :
    ValidLog w (w.ver :: rest) ∧
    ∃ o F, resume Flags.fixed w (some (cut w (w.ver :: rest) k)) = some o ∧ o.final = some F ∧
      o.restored.K <+: (w.ver :: rest) ∧ F.Perm full ∧ (∀ key, bodies F key = bodies full key) ∧
      (∀ t ∈ o.tasks, ∀ r ∈ o.restored.K, r.key ≠ t.key) := resume_from_any_sublog' w hw full hfull rest hsub k

/-- [phase 2] `resume_chain`: any number of interruptions in a row (`Chain`: killed after `k₁` bytes, resumed, that run
killed after `k₂` bytes of what it would have written, resumed, …).  For every list of cut offsets a chain exists (no
resumption ever raises), every log along it is valid, and after at least one resumption the final log has exactly the
records of the uninterrupted run -/
theorem resume_chain (w : World) (hw : w.OK) (L : List Rec) (hL : ValidLog w L) :
    (∀ ks, ∃ F, Chain Flags.fixed w ks L F) ∧
    (∀ ks F, Chain Flags.fixed w ks L F → ValidLog w F ∧
      (ks ≠ [] → F.Perm w.universe ∧ ∀ key, bodies F key = bodies w.universe key)) :=
  resume_chain_gen' Flags.fixed rfl rfl w hw (Or.inl rfl) L hL

theorem resume_chain_committed (w : World) (hw : w.OK) (hI : NonEmptyI w) (L : List Rec) (hL : ValidLog w L) :
    (∀ ks, ∃ F, Chain Flags.committed w ks L F) ∧
    (∀ ks F, Chain Flags.committed w ks L F → ValidLog w F ∧
      (ks ≠ [] → F.Perm w.universe ∧ ∀ key, bodies F key = bodies w.universe key)) :=
  resume_chain_gen' Flags.committed rfl rfl w hw (Or.inr hI) L hL

/-- the Result is a function of the records per id; permuted duplicate-free logs agree on it -/
theorem result_eq_of_perm {F U : List Rec} (hp : F.Perm U) (hU : (U.map (·.key)).Nodup) (key : Key) :
    bodies F key = bodies U key := bodies_eq_of_perm' hp hU key

/-- the uninterrupted run (no result file), under every version of the code, writes a valid
log that is a permutation of `w.universe` (no hypothesis on row-less evaluations) -/
theorem uninterrupted_run (fl : Flags) (w : World) (hw : w.OK)
    (app : List Rec) (happ : app.Perm ((makeTasks fl.finishedFix [] w.triples).filterMap w.out)) :
    restore fl w.c none = some ⟨[], []⟩ ∧
    let o := finish w.c ⟨[], []⟩ (makeTasks fl.finishedFix [] w.triples) (preamble fl w.ver w.exp []) app
    o.file = logFile w o.appended ∧ o.final = some o.appended ∧ ValidLog w o.appended ∧
    o.appended.Perm w.universe := fresh_run' fl w hw app happ

/-! ### `.gz` result files at byte level (phase 2) -/

/-- a `k`-byte prefix of a `.gz` file is some complete members followed by a strictly torn one (or nothing) -/
theorem gz_cut_members (ms : List Member) (k : Nat) :
    ∃ j q, (flatM ms).take k = flatM (ms.take j) ++ q ∧
      (q = [] ∨ ∃ m, ms[j]? = some m ∧ q <+: m.bytes ∧ q ≠ m.bytes) := take_flatM ms k

/-- `gz_member_scan_spec`: under the stated zlib laws the member scan of `_drop_torn_tail` stops exactly after the last
complete member, so `f.truncate(good)` leaves the complete members and nothing else -/
theorem gz_member_scan_spec (scan : MScan) (all : List Member) (hl : MLaws scan all) (ms : List Member)
    (hms : ∀ m ∈ ms, m ∈ all) (q : Bytes) (hq : q = [] ∨ ∃ m ∈ all, q <+: m.bytes ∧ q ≠ m.bytes) :
    memberScan scan (flatM ms ++ q) = (flatM ms).length ∧ gzRepair scan (flatM ms ++ q) = flatM ms :=
  memberScan_spec' scan all hl ms hms q hq

/-- reading complete members gives their payloads; a file that ends in a torn member can not be read -/
theorem gz_read_spec (scan : MScan) (all : List Member) (hl : MLaws scan all) (ms : List Member)
    (hms : ∀ m ∈ ms, m ∈ all) : gunzip scan (flatM ms) = some (payloadsM ms) := gunzip_spec' scan all hl ms hms

theorem gz_torn_unreadable (fl : Flags) (hg : fl.repairGz = false) (scan : MScan) (ms : List Member)
    (hlaws : MLaws scan ms) (k : Nat) (j : Nat) (q : Bytes) (h1 : (flatM ms).take k = flatM (ms.take j) ++ q)
    (hq : ∃ m, ms[j]? = some m ∧ q <+: m.bytes ∧ q ≠ m.bytes) (hqne : q ≠ []) :
    gzText fl scan ((flatM ms).take k) = none := gz_torn_unreadable' fl hg scan ms hlaws k j q h1 hq hqne

/-- the driver's concrete scanner (table of the members of the real files) satisfies the laws when the run-time check
`memberTableOK` holds (no member empty, none a prefix of another) -/
theorem table_scan_laws (tbl : List Member) (h : memberTableOK tbl = true) : MLaws (tableScan tbl) tbl :=
  tableScan_laws tbl h

/-- [core, phase 2] `resume_correct` for `.gz` files, at byte level: the file holds the valid log `L` one member per
record (`PayloadLog`), is cut at ANY compressed byte `k`; the repair keeps exactly the complete members `ms.take j`,
reading gives the clean text of a prefix `L.take i` of the log, restoring it succeeds, and whatever members `msNew` the
resumed run appends for its records (any arrival order), the final file decompresses to the final file of the text-level
protocol, whose log is valid, a permutation of the uninterrupted one, with no restored id re-run -/
theorem gz_resume_correct (w : World) (hw : w.OK) (L : List Rec) (hL : ValidLog w L) (scan : MScan)
    (ms : List Member) (hlaws : MLaws scan ms) (hpl : PayloadLog w.c ms L) (k : Nat) :
    ∃ j i, memberScan scan ((flatM ms).take k) = (flatM (ms.take j)).length ∧
      gzRepair scan ((flatM ms).take k) = flatM (ms.take j) ∧
      gzText Flags.fixed scan ((flatM ms).take k) = some (logFile w (L.take i)) ∧
      restore Flags.fixed w.c (some (logFile w (L.take i))) = some ⟨logFile w (L.take i), L.take i⟩ ∧
      ∀ app, app.Perm ((makeTasks true (L.take i) w.triples).filterMap w.out) →
        ∀ msNew, PayloadLog w.c msNew (preamble Flags.fixed w.ver w.exp (L.take i) ++ app) →
          MLaws scan (ms.take j ++ msNew) →
          let o := finish w.c ⟨logFile w (L.take i), L.take i⟩ (makeTasks true (L.take i) w.triples)
            (preamble Flags.fixed w.ver w.exp (L.take i)) app
          gunzip scan (flatM (ms.take j) ++ flatM msNew) = some o.file ∧
          o.final = some (L.take i ++ o.appended) ∧
          ValidLog w (L.take i ++ o.appended) ∧
          (L.take i ++ o.appended).Perm w.universe ∧
          (∀ t ∈ o.tasks, ∀ r ∈ L.take i, r.key ≠ t.key) :=
  gz_resume_correct_gen' Flags.fixed rfl rfl rfl w hw (Or.inl rfl) L hL scan ms hlaws hpl k

/-! ### which files are gzip files (phase 2; translator obligation) -/

/-- the three predicates extracted from coba/pipes/sinks.py, coba/pipes/sources.py and coba/experiments/core.py on this
run are the same expression … -/
theorem gz_preds_equal : Coba.Generated.C02Gz.sinkPred = Coba.Generated.C02Gz.sourcePred ∧
    Coba.Generated.C02Gz.sourcePred = Coba.Generated.C02Gz.repairPred := gz_preds_equal'

/-- … hence sink, source and torn-tail repair agree on EVERY file name whether it is a gzip file -/
theorem gz_decision_consistent (name : Bytes) :
    Coba.Generated.C02Gz.sinkPred.eval name = Coba.Generated.C02Gz.sourcePred.eval name ∧
    Coba.Generated.C02Gz.sourcePred.eval name = Coba.Generated.C02Gz.repairPred.eval name :=
  gz_decision_consistent' name

/-- the same by evaluation on the table of generated name shapes -/
theorem gz_decision_table :
    nameShapes.map Coba.Generated.C02Gz.sourcePred.eval = nameShapes.map Coba.Generated.C02Gz.sinkPred.eval ∧
    nameShapes.map Coba.Generated.C02Gz.repairPred.eval = nameShapes.map Coba.Generated.C02Gz.sinkPred.eval :=
  gz_decision_table'

/-- what `".gz" in name` and `name.endswith(".gz")` give on those shapes (they differ on r.gz.bak, r.gzip, a.gz.d/r.log) -/
theorem gz_contains_table :
    nameShapes.map (GzPred.contains [46, 103, 122]).eval = [false, true, true, true, true, false, true, false, true] ∧
    nameShapes.map (GzPred.endsWith [46, 103, 122]).eval = [false, true, false, false, false, false, true, false, true] :=
  gz_contains_table'

/-- `.gz`: with the incomplete trailing member dropped (zlib trusted for "a truncated member
does not decompress completely") the file is a cut on a record boundary, so `resume_correct`
applies -/
theorem gz_cut_is_cut (w : World) (L : List Rec) (j : Nat) (torn : Bool) :
    ∃ k, gzView Flags.fixed (L.map w.c.enc) j torn = some (cut w L k) := gz_cut' w L j torn

/-! ### the code as it is (`Flags.cur`): partial, with the forced hypotheses and witnesses -/

/-
theorem resume_correct_cur_full : the statement of `resume_correct` with `Flags.cur`.
FALSE: see `torn_tail_counterexample`, `glued_record_counterexample`,
`empty_file_counterexample`, `version_only_counterexample`, `gz_torn_counterexample`.
-/

/-- the pinned code is correct when the cut falls on a record boundary (`logFile w K`, no tail)
and the experiment line was already written (`w.exp ∈ K`) -/
theorem resume_cur_partial (w : World) (hw : w.OK) (hI : NonEmptyI w) (K : List Rec) (hK : ValidLog w K)
    (hexp : w.exp ∈ K) (app : List Rec) (happ : app.Perm ((makeTasks false K w.triples).filterMap w.out)) :
    restore Flags.cur w.c (some (logFile w K)) = some ⟨logFile w K, K⟩ ∧
    let o := finish w.c ⟨logFile w K, K⟩ (makeTasks false K w.triples) (preamble Flags.cur w.ver w.exp K) app
    o.file = logFile w (K ++ o.appended) ∧ o.final = some (K ++ o.appended) ∧
    ValidLog w (K ++ o.appended) ∧ (K ++ o.appended).Perm w.universe ∧
    (∀ t ∈ o.tasks, ∀ r ∈ K, r.key ≠ t.key) := resume_cur_partial' w hw hI K hK hexp app happ

/-- the hypotheses of `resume_correct` are satisfiable: the example experiment meets all of them -/
theorem example_universe : Ex.w.universe = [rVer, rExp, rE, rL, rV, rI] := by decide

example : Ex.w.OK := table_world_ok _ _ _ _ (by decide)

example : NonEmptyI Ex.w := by
  intro r hr e l v hk
  rw [example_universe] at hr
  simp only [List.mem_cons, List.mem_nil_iff, or_false] at hr
  rcases hr with rfl | rfl | rfl | rfl | rfl | rfl <;> first | (simp [rVer, rExp, rE, rL, rV] at hk) | decide

example : ValidLog Ex.w Ex.log := by
  refine ⟨by decide, by decide, ?_⟩
  intro r hr; simp [Ex.log] at hr; exact hr.symm

example : ValidLog Ex.w [rVer, rExp, rE] ∧ Ex.w.exp ∈ [rVer, rExp, rE] := by
  refine ⟨⟨by decide, by decide, ?_⟩, by decide⟩
  intro r hr; simp at hr; exact hr.symm

/-- the example experiment: the uninterrupted run writes `[v] [x] [E] [L] [V] [I]`, one per line -/
theorem example_full_log : (resume Flags.cur Ex.w none).map (·.file) = some Ex.full := by decide

/-- C02-F1: cut inside a record (`…[E]\n[`): restoring raises (JSONDecodeError) -/
theorem torn_tail_counterexample : (resume Flags.cur Ex.w (some (Ex.full.take 10))).isNone = true := by decide

/-- C02-F2: cut just before a newline (`…[E]`): restoring works, the next record is glued onto
the unterminated line and the final read raises -/
theorem glued_record_counterexample :
    (resume Flags.cur Ex.w (some (Ex.full.take 11))).map (·.final) = some none := by decide

/-- C02-F3: the file exists but is empty (killed before the first flush): restoring raises -/
theorem empty_file_counterexample : (resume Flags.cur Ex.w (some [])).isNone = true := by decide

/-- C02-F4: killed between the version line and the experiment line: the experiment line is never
written, the final Result has lost the experiment's metadata -/
theorem version_only_counterexample :
    (resume Flags.cur Ex.w (some (Ex.full.take 4))).map (fun o => o.final.map (fun F => decide (rExp ∈ F)))
      = some (some false) := by decide

/-- C02-F5: a `.gz` log with an incomplete trailing member can not be read -/
theorem gz_torn_counterexample : gzView Flags.cur (Ex.log.map Ex.w.c.enc) 3 true = none := by decide

/-- the same inputs under the repaired code -/
theorem counterexamples_repaired :
    ((resume Flags.fixed Ex.w (some (Ex.full.take 10))).map (fun o => o.final.map (fun F => decide (F.Perm Ex.log)))) = some (some true) ∧
    ((resume Flags.fixed Ex.w (some (Ex.full.take 11))).map (fun o => o.final.map (fun F => decide (F.Perm Ex.log)))) = some (some true) ∧
    ((resume Flags.fixed Ex.w (some [])).map (fun o => o.final.map (fun F => decide (F.Perm Ex.log)))) = some (some true) ∧
    ((resume Flags.fixed Ex.w (some (Ex.full.take 4))).map (fun o => o.final.map (fun F => decide (F.Perm Ex.log)))) = some (some true) := by
  decide

/-! ### phase 3: maximal prefix, idempotence, entry point, end to end -/

/-- [phase 3] `restore_maximal_prefix`: `_drop_torn_tail` (byte level) followed by record decoding restores EXACTLY the
maximal prefix of complete records — `nCompleteB` counts the leading records whose text is completely present in the cut
file (a record whose newline is missing counts) — for every cut point `k`, and the file becomes the clean log of that prefix -/
theorem restore_maximal_prefix (w : World) (hw : w.OK) (L : List Rec) (hL : ValidLog w L) (k : Nat) :
    restore Flags.fixed w.c (some (cut w L k)) =
      some ⟨logFile w (L.take (nCompleteB w.c L (cut w L k))), L.take (nCompleteB w.c L (cut w L k))⟩ :=
  restore_maximal_prefix' Flags.fixed rfl w hw L hL k

/-- a cut of the example log inside its 4th record keeps 3 records; one byte before the 4th newline keeps 4 -/
example : nCompleteB Ex.w.c Ex.log (cut Ex.w Ex.log 13) = 3 ∧ nCompleteB Ex.w.c Ex.log (cut Ex.w Ex.log 15) = 4 ∧
    nCompleteB Ex.w.c Ex.log (cut Ex.w Ex.log 16) = 4 := by decide

/-- [phase 3] `resume_idempotent` (plain files): running the experiment again on a COMPLETE log restores all of it, appends
nothing, leaves the file byte-identical, returns the same log, and the only tasks it runs are those that never produce a
record (raising evaluations) — none at all when every task records (`resume_idempotent_all`) -/
theorem resume_idempotent (w : World) (hw : w.OK) (L : List Rec) (hL : ValidLog w L) (hfull : L.Perm w.universe) :
    ∃ o, resume Flags.fixed w (some (logFile w L)) = some o ∧ o.restored.K = L ∧ o.appended = [] ∧
      o.file = logFile w L ∧ o.final = some L ∧ (∀ t ∈ o.tasks, w.out t = none) :=
  resume_idempotent_gen' Flags.fixed rfl w hw (Or.inl rfl) L hL hfull

theorem resume_idempotent_committed (w : World) (hw : w.OK) (hI : NonEmptyI w) (L : List Rec) (hL : ValidLog w L)
    (hfull : L.Perm w.universe) :
    ∃ o, resume Flags.committed w (some (logFile w L)) = some o ∧ o.restored.K = L ∧ o.appended = [] ∧
      o.file = logFile w L ∧ o.final = some L ∧ (∀ t ∈ o.tasks, w.out t = none) :=
  resume_idempotent_gen' Flags.committed rfl w hw (Or.inr hI) L hL hfull

example : ValidLog Ex.w Ex.log ∧ Ex.log.Perm Ex.w.universe := by
  refine ⟨⟨by decide, by decide, ?_⟩, by rw [example_universe]; decide⟩
  intro r hr; simp [Ex.log] at hr; exact hr.symm

/-- the example: second run on the complete file runs no task and leaves the 24 bytes as they are -/
theorem resume_idempotent_example :
    (resume Flags.fixed Ex.w (some Ex.full)).map (fun o => (o.tasks, o.appended, decide (o.file = Ex.full))) =
      some ([], [], true) := by decide

/-- [phase 3] `resume_idempotent_gz`: for a complete `.gz` log the repair removes no byte, the text read is the log, and
after the run has appended its end-of-run member (empty payload: DiskSink opens and closes the file once more) the file is
the old bytes followed by that member and still reads as the same text.  (Byte-identity does not hold for `.gz`: the real
file grows by one empty gzip member per run; the harness checks exactly this.) -/
theorem resume_idempotent_gz (w : World) (L : List Rec) (scan : MScan) (ms : List Member) (e : Member)
    (he : e.payload = []) (hlaws : MLaws scan (ms ++ [e])) (hpl : PayloadLog w.c ms L) :
    gzRepair scan (flatM ms) = flatM ms ∧ gzText Flags.fixed scan (flatM ms) = some (logFile w L) ∧
    gunzip scan (flatM ms ++ e.bytes) = some (logFile w L) :=
  resume_idempotent_gz' Flags.fixed rfl w L scan ms e he hlaws hpl

/-- [phase 3] `entry_glue`: `Experiment.run(result_file)` as a function of the path: missing directory raises; no file = fresh
run; a name the gzip test rejects hands the bytes to the protocol unchanged; a name it accepts hands over the text of the
repaired members (or raises when they can not be read); `Result.from_file` on the file a run leaves is the Result it returned -/
theorem entry_glue (fl : Flags) (w : World) (isGz : GzPred) (scan : MScan) (name : Bytes) :
    (∀ file, runEntry fl w isGz scan ⟨name, false, file⟩ = none) ∧
    (runEntry fl w isGz scan ⟨name, true, none⟩ = resume fl w none) ∧
    (isGz.eval name = false → ∀ data, runEntry fl w isGz scan ⟨name, true, some data⟩ = resume fl w (some data)) ∧
    (isGz.eval name = true → ∀ data, runEntry fl w isGz scan ⟨name, true, some data⟩ =
        (gzText fl scan data).bind (fun text => resume fl w (some text))) ∧
    (isGz.eval name = false → ∀ R tasks pre app,
        fromFile w.c isGz scan name (finish w.c R tasks pre app).file = (finish w.c R tasks pre app).final) :=
  entry_glue' fl w isGz scan name

/-- [phase 3] `cut_resume_end_to_end`: at FILE level, over arbitrary cut sequences.  Start from the file of any valid log;
kill the run after `k₁` bytes, run again (any arrival order), kill that run after `k₂` bytes of the file it would have left,
… (`ByteChain`).  For every sequence such a chain exists (no run ever raises); every file on it is the clean log
`logFile w F` of a valid log (so every run's first write started on a fresh line), and after at least one run
`Result.from_file` decodes it to `F`, which has exactly the records of the uninterrupted run.  Each single step restores the
maximal prefix of complete records (`restore_maximal_prefix`) -/
theorem cut_resume_end_to_end (w : World) (hw : w.OK) (L : List Rec) (hL : ValidLog w L) :
    (∀ ks, ∃ h, ByteChain Flags.fixed w ks (logFile w L) h) ∧
    (∀ ks h, ByteChain Flags.fixed w ks (logFile w L) h → ∃ F, h = logFile w F ∧ ValidLog w F ∧
      (ks ≠ [] → decodeAll w.c h = some F ∧ F.Perm w.universe ∧ ∀ key, bodies F key = bodies w.universe key)) :=
  cut_resume_end_to_end_gen' Flags.fixed rfl rfl w hw (Or.inl rfl) L hL

/-! ### Phase 4: the member scan as written in the source (chunked reads), the shape test -/

/-- [phase 4] `chunk_scan_eq_member_scan`: the loop of `_drop_torn_tail` as it is written — `f.read(c)` chunks, a decompressor
fed chunk by chunk, `good = f.tell()-len(member.unused_data)`, `f.seek(good)`, break on `zlib.error` — computes, for EVERY
read size `c ≥ 1`, EVERY byte string and every streaming decompressor satisfying `ZLaws`, exactly the offset of the abstract
member split `memberScan` (on which `gz_member_scan_spec`, `gz_resume_correct`, `resume_idempotent_gz` are built) -/
theorem chunk_scan_eq_member_scan (z : ZScan) (hz : ZLaws z) (c : Nat) (hc : 1 ≤ c) (data : Bytes) :
    chunkScan z c data = memberScan (toMScan z) data :=
  chunk_scan_eq_member_scan' z hz c hc data

/-- [phase 4] chunk-size independence -/
theorem chunk_size_independent (z : ZScan) (hz : ZLaws z) (c₁ c₂ : Nat) (h₁ : 1 ≤ c₁) (h₂ : 1 ≤ c₂) (data : Bytes) :
    chunkScan z c₁ data = chunkScan z c₂ data :=
  (chunk_scan_eq_member_scan' z hz c₁ h₁ data).trans (chunk_scan_eq_member_scan' z hz c₂ h₂ data).symm

/-- [phase 4] `chunk_scan_spec`: on what a killed run leaves (complete members followed by a strictly torn one or nothing)
the loop as written stops exactly after the last complete member, for every read size ≥ 1; truncating there leaves exactly
the complete members -/
theorem chunk_scan_spec (z : ZScan) (hz : ZLaws z) (all : List Member) (hl : MLaws (toMScan z) all) (c : Nat) (hc : 1 ≤ c)
    (ms : List Member) (hms : ∀ m ∈ ms, m ∈ all) (q : Bytes) (hq : q = [] ∨ ∃ m ∈ all, q <+: m.bytes ∧ q ≠ m.bytes) :
    chunkScan z c (flatM ms ++ q) = (flatM ms).length ∧
      (flatM ms ++ q).take (chunkScan z c (flatM ms ++ q)) = flatM ms :=
  chunk_scan_spec' z hz all hl c hc ms hms q hq

/-- the hypothesis `1 ≤ c` is necessary: `f.read(0)` returns `b''` at once and everything is truncated -/
theorem chunk_zero_counterexample (z : ZScan) (data : Bytes) : chunkScan z 0 data = 0 := chunk_zero' z data

/-- [phase 4] the driver's streaming decompressor (table of the real file's members) satisfies `ZLaws` when `memberTableOK`
holds, and its one-shot form is the `tableScan` the other theorems are run with -/
theorem table_z_laws (tbl : List Member) (h : memberTableOK tbl = true) :
    ZLaws (tableZ tbl) ∧ toMScan (tableZ tbl) = tableScan tbl :=
  ⟨tableZ_laws' tbl h, toMScan_tableZ' tbl⟩

/-- non-vacuity: a two-member table, the file "member a, member b, two bytes of a", read 1, 2, 3 and 4096 bytes at a time -/
example : memberTableOK [⟨[1], [7, 8, 9]⟩, ⟨[], [5, 6]⟩] = true ∧
    ∀ c, 1 ≤ c → chunkScan (tableZ [⟨[1], [7, 8, 9]⟩, ⟨[], [5, 6]⟩]) c [7, 8, 9, 5, 6, 7, 8] = 5 := by
  refine ⟨by decide, fun c hc => ?_⟩
  rw [chunk_scan_eq_member_scan _ (table_z_laws [⟨[1], [7, 8, 9]⟩, ⟨[], [5, 6]⟩] (by decide)).1 c hc,
    (table_z_laws [⟨[1], [7, 8, 9]⟩, ⟨[], [5, 6]⟩] (by decide)).2]
  decide

/-- [phase 4] translator obligation: the read size and the decompressor parameters extracted from the CURRENT source are the
ones the model and the driver use (any read size ≥ 1 is covered by the theorem; 31 = gzip container, which `ZLaws` is about) -/
theorem scan_consts_as_modelled :
    1 ≤ Coba.Generated.C02Scan.readSize ∧ Coba.Generated.C02Scan.wbits = [31, 31] ∧
    Coba.Generated.C02Scan.loopShape = ["for:iter-read-sentinel-b''", "try:member.decompress(chunk)", "except:zlib.error:break",
      "if:member.eof", "good=f.tell()-len(member.unused_data)", "f.seek(good)", "member=zlib.decompressobj", "after:f.truncate(good)"] := by
  decide

/-- [phase 4] `resume_never_mismatch`: the shape test of `run` (`n_learners`/`n_environments` of the restored experiment
line against the experiment given) never fires on a log the experiment's own runs wrote — for every valid log, every cut:
the checked run IS the resumed run of `resume_correct` -/
theorem resume_never_mismatch (w : World) (hw : w.OK) (shapeOf : Rec → Option Nat × Option Nat)
    (hs : shapeOf w.exp = (some (givenShape w.triples).1, some (givenShape w.triples).2))
    (L : List Rec) (hL : ValidLog w L) (k : Nat) :
    ∃ o, resume Flags.fixed w (some (cut w L k)) = some o ∧
      resumeChecked Flags.fixed w shapeOf (givenShape w.triples) (some (cut w L k)) = some (false, o) :=
  resume_never_mismatch' w hw shapeOf hs L hL k

/-- [phase 4] no mismatch on ANY set of restored records of the own experiment (sparse logs, logs without experiment line) -/
theorem no_mismatch_own (w : World) (hw : w.OK) (shapeOf : Rec → Option Nat × Option Nat)
    (hs : shapeOf w.exp = (some (givenShape w.triples).1, some (givenShape w.triples).2))
    (K : List Rec) (hK : ∀ r ∈ K, r ∈ w.universe) :
    shapeMismatch shapeOf (givenShape w.triples) K = false :=
  no_mismatch_own' w hw shapeOf hs K hK

/-- [phase 4] a genuinely different shape is detected: when the last experiment line restored names both counts and one of
them differs from the experiment given, the test fires (the run then evaluates and writes nothing: `resumeChecked`) -/
theorem mismatch_raises (shapeOf : Rec → Option Nat × Option Nat) (given : Nat × Nat) (K : List Rec) (r : Rec)
    (hr : (K.filter (fun r => decide (r.key = Key.exp))).getLast? = some r) (nl ne : Nat)
    (hs : shapeOf r = (some nl, some ne)) (hne : nl ≠ given.1 ∨ ne ≠ given.2) :
    shapeMismatch shapeOf given K = true :=
  mismatch_raises' shapeOf given K r hr nl ne hs hne

/-- non-vacuity / the converse does not hold: a different experiment with the SAME counts passes the test
(1 learner, 1 environment: a log of experiment A is accepted by any experiment B of that shape) -/
example : shapeMismatch (fun _ => (some 1, some 1)) (givenShape [(5, 9, 0)]) [Ex.rVer, Ex.rExp] = false ∧
    shapeMismatch (fun _ => (some 1, some 1)) (givenShape [(5, 9, 0), (5, 8, 0)]) [Ex.rVer, Ex.rExp] = true := by decide

/-! ### Phase 4: universal newlines -/

/-- [phase 4] `universal_newlines_irrelevant`: when no record text holds a raw `\r` (json.dumps escapes it; the harness checks
every real record to be printable ASCII), reading ANY cut of the log with universal-newline translation — what DiskSource really
does — gives exactly what the `\n`-only reading of the other theorems gives -/
theorem universal_newlines_irrelevant (w : World) (L : List Rec) (h : ∀ r ∈ L, CR ∉ w.c.enc r) (k : Nat) :
    decodeAllU w.c (cut w L k) = decodeAll w.c (cut w L k) :=
  universal_newlines_irrelevant' w L h k

/-- the hypothesis is necessary: a record text `[\r]` is one line for the `\n`-only reader and two undecodable lines for the real one -/
theorem cr_counterexample :
    let c := tableCodec [(⟨.ver, 0, 0⟩, [91, 13, 93])]
    decodeAll c (serialize [[91, 13, 93]]) = some [⟨.ver, 0, 0⟩] ∧ decodeAllU c (serialize [[91, 13, 93]]) = none :=
  cr_counterexample'

/-! ### Phase 4: the order ChunkTasks / ProcessTasks give the tasks -/

/-- [phase 4] `run_order_perm`: whatever environments are chunk()ed and whatever `maxtasksperchunk`, the order in which
ChunkTasks + ProcessTasks run the tasks is a permutation of what MakeTasks emitted: no task lost, none run twice -/
theorem run_order_perm (chunkOf : Nat → Option Nat) (m : Nat) (tasks : List Task) : (runOrder chunkOf m tasks).Perm tasks :=
  runOrder_perm' chunkOf m tasks

/-- [phase 4] `resume_correct_run_order`: `resume_correct` instantiated with the order the real single-process pipeline
produces (records arrive in ChunkTasks/ProcessTasks order, not in MakeTasks order) -/
theorem resume_correct_run_order (w : World) (hw : w.OK) (L : List Rec) (hL : ValidLog w L) (k : Nat)
    (chunkOf : Nat → Option Nat) (m : Nat) :
    ∃ K, restore Flags.fixed w.c (some (cut w L k)) = some ⟨logFile w K, K⟩ ∧ K <+: L ∧
        let o := finish w.c ⟨logFile w K, K⟩ (makeTasks true K w.triples) (preamble Flags.fixed w.ver w.exp K)
          ((runOrder chunkOf m (makeTasks true K w.triples)).filterMap w.out)
        o.file = logFile w (K ++ o.appended) ∧ o.final = some (K ++ o.appended) ∧ ValidLog w (K ++ o.appended) ∧
        (K ++ o.appended).Perm w.universe ∧ (∀ t ∈ o.tasks, ∀ r ∈ K, r.key ≠ t.key) :=
  resume_correct_run_order' w hw L hL k chunkOf m

/-! ### Phase 4: `Result.from_file` on a cut file WITHOUT resuming

Reading of the statement: "a final record that was only partly written never makes the file unusable" is about the protocol
of the first sentence (running the experiment again with that file): `restore_eq_prefix`, `resume_correct`.  Reading the
file directly is a different entry point; what it does on each kind of cut is stated here.  Readable: a cut on a record
boundary (≥ 1 record) and a cut that only misses the final newline.  Raises: the empty file, and every cut strictly inside a
record.  After ANY `Experiment.run` on the file (`cut_resume_end_to_end`) it is readable again. -/

/-- [phase 4] `from_file_torn`: on a plain file that ends strictly inside a record `Result.from_file` raises (any line that
does not decode raises in TransactionDecode) — for every valid prefix `A`, every record `r`, every proper non-empty prefix `p` -/
theorem from_file_torn (w : World) (hw : w.OK) (isGz : GzPred) (scan : MScan) (name : Bytes) (hn : isGz.eval name = false)
    (A : List Rec) (hA : ∀ r ∈ A, r ∈ w.universe) (r : Rec) (hr : r ∈ w.universe) (p : Bytes) (hp : p <+: w.c.enc r)
    (hne : p ≠ []) (hpr : p ≠ w.c.enc r) :
    fromFile w.c isGz scan name (logFile w A ++ p) = none := by
  simpa [fromFile, hn] using from_file_torn' w hw A hA r hr p hp hne hpr

/-- [phase 4] `from_file_unterminated`: a cut that only misses the newline of the last record is readable, all records included -/
theorem from_file_unterminated (w : World) (hw : w.OK) (isGz : GzPred) (scan : MScan) (name : Bytes) (hn : isGz.eval name = false)
    (A : List Rec) (hA : ∀ r ∈ A, r ∈ w.universe) (r : Rec) (hr : r ∈ w.universe)
    (hver : ∀ x, (A ++ [r]).head? = some x → x.key = Key.ver) :
    fromFile w.c isGz scan name (logFile w A ++ w.c.enc r) = some (A ++ [r]) := by
  simpa [fromFile, hn] using from_file_unterminated' w hw A hA r hr hver

/-- the witness: 10 bytes of the example log (cut inside the third record) — reading it directly raises, resuming it works -/
theorem from_file_torn_counterexample :
    decodeAll Ex.w.c (Ex.full.take 10) = none ∧ (restore Flags.fixed Ex.w.c (some (Ex.full.take 10))).isSome = true := by decide

/-! ### the hypothesis `NonEmptyI` is necessary for the committed code (finding C02-F6; repair proposed in phase 2) -/

/-
theorem resume_correct_committed_full : `resume_correct_committed` without `hI : NonEmptyI w`.
FALSE: MakeTasks learns the finished triples from the rows of the interactions table, and an `I` record without rows
contributes none.  With fixes/C02-finished-triples.diff (`Flags.fixed`) the hypothesis is gone: `resume_correct`.
-/

/-- C02-F6: an evaluation that yields no rows is recorded as `["I",[0,0,0],{"_packed":{}}]`;
resuming from the COMPLETE log evaluates that triple again and records it a second time -/
theorem empty_rows_counterexample :
    (resume Flags.committed Ex.w0 (some Ex.full0)).map (fun o => (o.tasks, o.final.map keysNodup))
      = some ([Task.eval 0 0 0], some false) := by decide

/-- the same input with the finished-triples repair: nothing is run, nothing is recorded twice -/
theorem empty_rows_repaired :
    (resume Flags.fixed Ex.w0 (some Ex.full0)).map (fun o => (o.tasks, o.final.map keysNodup))
      = some ([], some true) := by decide

/-! ### Phase 5: size thresholds as theorems — `maxtasksperchunk`, one gzip member per record, read windows; shape test -/

/-- [phase 5] `resume_chunking_complete`: for EVERY `maxtasksperchunk = k ≥ 1` and every list of (remaining) tasks — whether or
not `k` divides their number — `_max_chunker` loses and repeats nothing: the sub-chunks concatenated are the list itself, none
is empty or longer than `k`, and all but the last hold exactly `k` tasks -/
theorem resume_chunking_complete (k : Nat) (hk : 1 ≤ k) (l : List Task) :
    (batches k l).flatten = l ∧ (∀ b ∈ batches k l, b ≠ [] ∧ b.length ≤ k) ∧ (∀ b ∈ (batches k l).dropLast, b.length = k) :=
  resume_chunking_complete' k hk l

example : batches 2 [Task.penv 0, Task.eval 0 0 0, Task.eval 0 1 0] = [[Task.penv 0, Task.eval 0 0 0], [Task.eval 0 1 0]] := by decide

/-- [phase 5] the same for the whole ChunkTasks step of a resumed run: whatever was restored (`K`), whichever environments are
chunk()ed and whatever `k` (0 = no limit), every task MakeTasks emitted is in exactly one chunk -/
theorem resume_chunking_no_task_twice (chunkOf : Nat → Option Nat) (k : Nat) (K : List Rec) (triples : List (Nat × Nat × Nat))
    (h : (makeTasks true K triples).Nodup) :
    (chunkTasks chunkOf k (makeTasks true K triples)).flatten.Perm (makeTasks true K triples) ∧
    (chunkTasks chunkOf k (makeTasks true K triples)).flatten.Nodup :=
  resume_chunks_nodup' chunkOf k K triples h

example : (makeTasks true [] [(0, 0, 0), (0, 1, 0)]).Nodup := by decide

/-- [phase 5] `_max_chunker` run as the small program the translator extracts from the source (`islice` batches in a
`while batch != []` loop) yields exactly the model's `batches`, for every `max_tasks` (0 = None) and every task list -/
theorem max_chunker_prog_eq_batches (m : Nat) (l : List Task) : runChunker maxChunkerProg m l = batches m l :=
  max_chunker_prog_eq_batches' m l

/-- [phase 5, translator obligation] the program extracted from the CURRENT source of `ChunkTasks._max_chunker` is the one the
model runs, nothing in the function was inexpressible, `__init__` stores `max_tasks or None` and `_chunks` passes it on -/
theorem max_chunker_as_modelled :
    Coba.Generated.C02Chunker.prog = maxChunkerProg ∧ Coba.Generated.C02Chunker.unknown = [] ∧
    Coba.Generated.C02Chunker.maxTasksInit = "max_tasks or None" ∧ Coba.Generated.C02Chunker.maxTasksArg = "self._max_tasks" := by
  decide

/-- [phase 5] `gz_member_per_record`: `DiskSink.write` with `batch=1` opens and closes the file once per line — every record is
its own gzip member — and once more for an empty batch after the last line (the empty member every run leaves) -/
theorem gz_member_per_record (lines : List Bytes) : sinkWrite 1 lines = lines.map (fun x => [x]) ++ [[]] :=
  gz_member_per_record' lines

/-- [phase 5] for every batch size (0 = None) the write loop writes every line exactly once, in order -/
theorem sink_write_complete (b : Nat) (lines : List Bytes) : (sinkWrite b lines).flatten = lines :=
  sink_write_complete' b lines

/-- [phase 5, translator obligation] `Experiment.run` builds `DiskSink(result_file, batch=1)` and the write loop of the CURRENT
source has the statements `sinkWrite` mirrors (the `with self:` inside the `while`, one write + flush per line, `_get_batch` =
`islice(lines, self._batch)`, `_unfinished` = not started or a full batch) -/
theorem sink_loop_as_modelled :
    Coba.Generated.C02Sink.batch = 1 ∧
    Coba.Generated.C02Sink.loopShape = ["while:self._unfinished(batch)", "batch=self._get_batch(lines)", "with-self-inside-while",
      "for-line-inside-with", "write:(line+'\\n').encode", "flush-after-each-write", "get_batch:islice(lines,self._batch)",
      "get_batch:list-when-batch", "unfinished:batch-is-None", "unfinished:list-of-len==self._batch", "unfinished:or"] := by
  decide

/-- [phase 5] `drop_torn_tail_window_independent`: a torn-tail repair that inspects only the last `W` bytes of a plain file
truncates/terminates at the same point as the committed one (which reads the whole file) for EVERY `W` whose window still
contains a newline, or covers the file — whatever the length of the records before it -/
theorem drop_torn_tail_window_independent (c : Codec) (W : Nat) (file : Bytes)
    (h : NL ∈ file.drop (file.length - W) ∨ file.length ≤ W) : repairWin c W file = repair c file :=
  drop_torn_tail_window_independent' c W file h

example : NL ∈ ([91, 93, 10, 91] : Bytes).drop (([91, 93, 10, 91] : Bytes).length - 2) := by decide

/-- the hypothesis is necessary — a final record longer than the window: the windowed repair leaves the head of the torn record
in the file and every later read raises (the 64 KiB mutant of round a); with a window that reaches the newline it is right -/
theorem window_counterexample :
    let c := tableCodec [(⟨.ver, 0, 0⟩, [91, 93])]
    let file : Bytes := [91, 93, 10, 91, 91, 91, 91]
    repair c file = [91, 93, 10] ∧ decodeAll c (repair c file) = some [⟨.ver, 0, 0⟩] ∧
    repairWin c 2 file = [91, 93, 10, 91, 91] ∧ decodeAll c (repairWin c 2 file) = none ∧
    repairWin c 5 file = repair c file :=
  window_counterexample'

/-- [phase 5] the shape test counts learners and environments only: replacing the evaluators of the triples (more, fewer,
others) leaves (`n_learners`, `n_environments`) as they are — with `no_mismatch_own` the test can not fire on such a re-run -/
theorem shape_ignores_evaluators (ts : List (Nat × Nat × Nat)) (g : Nat × Nat × Nat → Nat) :
    givenShape (ts.map (fun t => (t.1, t.2.1, g t))) = givenShape ts :=
  shape_ignores_evaluators' ts g

/-! ### Phase 5: multi-process runs — what the order of the records can be -/

/-- [phase 5] `multiprocess_order`: whatever the workers' schedule, when the records arrive as ANY interleaving of the per-chunk
sequences (each chunk is run by one worker in ProcessTasks order and the queues keep each producer's order), every chunk's
records appear in the file in ProcessTasks order (per-chunk FIFO) and the resumed run is correct as in `resume_correct` -/
theorem multiprocess_order (w : World) (hw : w.OK) (L : List Rec) (hL : ValidLog w L) (k : Nat)
    (chunkOf : Nat → Option Nat) (m : Nat) :
    ∃ K, restore Flags.fixed w.c (some (cut w L k)) = some ⟨logFile w K, K⟩ ∧ K <+: L ∧
      ∀ app, Merge ((chunkTasks chunkOf m (makeTasks true K w.triples)).map (fun c => (processOrder c).filterMap w.out)) app →
        (∀ c ∈ chunkTasks chunkOf m (makeTasks true K w.triples), ((processOrder c).filterMap w.out).Sublist app) ∧
        let o := finish w.c ⟨logFile w K, K⟩ (makeTasks true K w.triples) (preamble Flags.fixed w.ver w.exp K) app
        o.file = logFile w (K ++ o.appended) ∧ o.final = some (K ++ o.appended) ∧ ValidLog w (K ++ o.appended) ∧
        (K ++ o.appended).Perm w.universe ∧ (∀ t ∈ o.tasks, ∀ r ∈ K, r.key ≠ t.key) :=
  multiprocess_order' w hw L hL k chunkOf m

/-- [phase 5] an interleaving loses and invents nothing and keeps every sequence's order -/
theorem merge_perm_sublist {α : Type} (ls : List (List α)) (out : List α) (h : Merge ls out) :
    out.Perm ls.flatten ∧ ∀ l ∈ ls, l.Sublist out :=
  ⟨merge_perm' ls out h, merge_sublist' ls out h⟩

/-- the hypothesis of `multiprocess_order` is satisfiable: the single-process order is one of the interleavings -/
theorem merge_sequential {α : Type} (ls : List (List α)) : Merge ls ls.flatten :=
  merge_flatten' ls

/-! ### Phase 6: "re-runs using ANY execution configuration" — including the process-global one

The three settings of a run can come from an earlier `.config()` call, from the arguments of `run()` and from the process-global
`CobaContext.experiment`.  `runCfg` is the value `run` ends up with (`self.config(args…)` overwrites, then the property falls back
to the context).  The resumed run is correct for EVERY combination of the three sources. -/

/-- [phase 6] `run_cfg_spec`: the setting a run works with is the argument of `run()` when one is given, else the process-global
`CobaContext.experiment` value; what an earlier `.config()` call stored never matters (`run` overwrites it) -/
theorem run_cfg_spec (r : CfgRoute) :
    (∀ a, r.arg = some a → runCfg r = a) ∧ (r.arg = none → runCfg r = r.ctx) ∧
    (∀ s', runCfg ⟨s', r.arg, r.ctx⟩ = runCfg r) :=
  ⟨fun a h => by rw [runCfg_eq', h], fun h => by rw [runCfg_eq', h], fun s' => runCfg_stored_irrelevant' s' r.stored r.arg r.ctx⟩

/-- [phase 6] `resume_correct_any_config`: for every valid log, every cut, every chunk()ing of the environments and EVERY way the
configuration reaches the run (`cfg`: stored / argument / process-global, for each of the three settings): the records may arrive
in the single-process order of that configuration or as ANY interleaving of its chunks (multi-process) — the resumed run is
correct as in `resume_correct` -/
theorem resume_correct_any_config (w : World) (hw : w.OK) (L : List Rec) (hL : ValidLog w L) (k : Nat)
    (chunkOf : Nat → Option Nat) (cfg : RunConfig) :
    ∃ K, restore Flags.fixed w.c (some (cut w L k)) = some ⟨logFile w K, K⟩ ∧ K <+: L ∧
      (∀ app, (app = (runOrderCfg chunkOf cfg (makeTasks true K w.triples)).filterMap w.out ∨
               Merge ((chunkTasks chunkOf (runCfg cfg.mt) (makeTasks true K w.triples)).map
                 (fun c => (processOrder c).filterMap w.out)) app) →
        let o := finish w.c ⟨logFile w K, K⟩ (makeTasks true K w.triples) (preamble Flags.fixed w.ver w.exp K) app
        o.file = logFile w (K ++ o.appended) ∧ o.final = some (K ++ o.appended) ∧ ValidLog w (K ++ o.appended) ∧
        (K ++ o.appended).Perm w.universe ∧ (∀ t ∈ o.tasks, ∀ r ∈ K, r.key ≠ t.key)) :=
  resume_correct_any_config' w hw L hL k chunkOf cfg

/-- non-vacuity / the quirk made visible: `.config(maxtasksperchunk=5)` followed by `run()` without arguments under a context
that says 2 runs with 2; with `run(maxtasksperchunk=3)` it runs with 3; multi-processing is decided on the effective values -/
example : runCfg ⟨some 5, none, 2⟩ = 2 ∧ runCfg ⟨some 5, some 3, 2⟩ = 3 ∧ runCfg ⟨none, some 0, 2⟩ = 0 ∧
    isMultiproc (runCfg ⟨some 4, none, 1⟩) (runCfg ⟨none, none, 0⟩) = false ∧
    isMultiproc (runCfg ⟨none, none, 2⟩) 0 = true ∧ isMultiproc 1 (runCfg ⟨none, some 1, 0⟩) = true := by decide

/-- [phase 6, translator obligation] the CURRENT source of `Experiment.config`, the three properties and the head of
`Experiment.run` has the statements `configCall` / `cfgProp` / `runCfg` / `isMultiproc` mirror (found by `ast` on every run) -/
theorem config_route_as_modelled :
    Coba.Generated.C02Config.shape = ["config:self._processes=processes", "config:self._maxchunksperchild=maxchunksperchild",
      "config:self._maxtasksperchunk=maxtasksperchunk", "prop:processes", "prop:maxchunksperchild", "prop:maxtasksperchunk",
      "run:defaults-None", "run:self.config(processes,maxchunksperchild,maxtasksperchunk)", "run:mp,mc,mt=properties",
      "run:is_multiproc=mp>1 or mc!=0", "run:ChunkTasks(mt)", "run:CobaMultiprocessor(_,mp,mc,_)"] := by
  decide

end Coba.C02
