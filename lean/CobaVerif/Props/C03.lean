/-
C03 — Each evaluation is isolated from every other evaluation.
Property theorems only; the model is shared with C01 (Model/C01.lean, Lemmas/C01.lean).

`evalS c seed (e,l,v)` is "evaluating a pristine copy of learner `l` on environment `e` alone with
evaluator `v`".  `(run …).rowsOf key` are the rows the Result holds for a triple of ids, `numbered
rows` are rows with their 1-based index, `runLog` holds the tasks whose exception was logged.
-/
import CobaVerif.Lemmas.C01

namespace Coba.C03
open Coba.C01

variable {S P Row : Type}

/-- `t4_rows_eq_evalS`: in every configuration and schedule, the rows recorded for a listed triple
are those of evaluating it alone on a pristine learner (none if that evaluation raises) -/
theorem t4_rows_eq_evalS (c : Comps S P Row) (cfg : Cfg) (picks : List Nat) (seed : Nat) (ts : List Triple)
    (t : Triple) (ht : t ∈ ts) :
    (run c cfg picks seed ts).rowsOf (idKey ts t) =
      match evalS c seed t with
      | .ok rows => numbered rows
      | .error _ => [] := rowsOf_run' c cfg picks seed ts t ht

/-- the experiment that lists only this triple (ids (0,0,0)) records exactly `evalS` -/
theorem rows_alone (c : Comps S P Row) (cfg : Cfg) (picks : List Nat) (seed : Nat) (t : Triple) :
    (run c cfg picks seed [t]).rowsOf (0, 0, 0) =
      match evalS c seed t with
      | .ok rows => numbered rows
      | .error _ => [] := by
  have := rowsOf_run' c cfg picks seed [t] t (List.mem_singleton.2 rfl)
  rwa [idKey_singleton] at this

/-- the rows of a triple do not depend on which other triples the experiment contains, on their
order, on the configuration or on the schedule -/
theorem rows_independent_of_other_triples (c : Comps S P Row) (cfg cfg' : Cfg) (picks picks' : List Nat)
    (seed : Nat) (ts ts' : List Triple) (t : Triple) (ht : t ∈ ts) (ht' : t ∈ ts') :
    (run c cfg picks seed ts).rowsOf (idKey ts t) = (run c cfg' picks' seed ts').rowsOf (idKey ts' t) := by
  rw [rowsOf_run' c cfg picks seed ts t ht, rowsOf_run' c cfg' picks' seed ts' t ht']

/-- `failing_triple_only`: a triple whose evaluation raises is reported in the log and loses its own
rows; every other listed triple keeps exactly its rows -/
theorem failing_triple_only (c : Comps S P Row) (cfg : Cfg) (picks : List Nat) (seed : Nat) (ts : List Triple)
    (t : Triple) (ht : t ∈ ts) (e : Err) (hfail : evalS c seed t = .error e) :
    (run c cfg picks seed ts).rowsOf (idKey ts t) = [] ∧
    Task.eval (idKey ts t).1 t.1 (idKey ts t).2.1 t.2.1 (idKey ts t).2.2 t.2.2 (decide (lrnCount ts t.2.1 > 1))
      ∈ runLog c cfg picks seed ts ∧
    ∀ t' ∈ ts, ∀ rows, evalS c seed t' = .ok rows → (run c cfg picks seed ts).rowsOf (idKey ts t') = numbered rows := by
  refine ⟨?_, failing_logged c cfg picks seed ts t ht e hfail, ?_⟩
  · rw [rowsOf_run' c cfg picks seed ts t ht, hfail]
  · intro t' ht' rows hok
    rw [rowsOf_run' c cfg picks seed ts t' ht', hok]

/-- nothing else is logged as a failed evaluation: a logged evaluation task is a listed triple
whose evaluation (alone, pristine learner) raises -/
theorem logged_only_failing (c : Comps S P Row) (cfg : Cfg) (picks : List Nat) (seed : Nat) (ts : List Triple)
    (ei e li l vi v : Nat) (cp : Bool) (h : Task.eval ei e li l vi v cp ∈ runLog c cfg picks seed ts) :
    (e, l, v) ∈ ts ∧ ∃ err, evalS c seed (e, l, v) = .error err := logged_failing c cfg picks seed ts ei e li l vi v cp h

/-- `pristine`: every evaluation of a run starts from the pristine state of its learner — the events
of the run are, each once, the events of the tasks on pristine learner cells -/
theorem pristine (c : Comps S P Row) (cfg : Cfg) (picks : List Nat) (seed : Nat) (ts : List Triple) :
    (runEvents c cfg picks seed ts).1.Perm ((makeTasks .none ts).map (pristineEv c seed)) :=
  runEvents_perm c cfg picks seed ts

/-- a learner cell is evaluated in place only if the object is listed once; otherwise `copy` is set
and a deep copy is evaluated -/
theorem copy_iff_shared (ts : List Triple) {ei e li l vi v : Nat} {cp : Bool}
    (h : Task.eval ei e li l vi v cp ∈ makeTasks .none ts) : cp = decide (lrnCount ts l > 1) :=
  (mem_makeTasks_eval h).2.2

/-- the invariant behind it, for one address space (the caller's process, or one unpickled chunk) -/
theorem pristine_address_space (c : Comps S P Row) (seed : Nat) (h : Heap S) (tasks : List Task)
    (hA : ∀ t ∈ tasks, ∀ l, t.uses l → h l = c.init l) (hN : AtMostOnce tasks) :
    (runSeq c seed h tasks).1 = tasks.map (pristineEv c seed) :=
  pristine_address_space' c seed h tasks hA hN

/-- `user_objects`: a learner object listed for several environments or evaluators carries nothing
over — it is still pristine after the run -/
theorem user_objects (c : Comps S P Row) (cfg : Cfg) (picks : List Nat) (seed : Nat) (ts : List Triple)
    (l : Nat) (h : lrnCount ts l > 1) : (runEvents c cfg picks seed ts).2 l = c.init l :=
  user_objects' c cfg picks seed ts l (Or.inl h)

end Coba.C03
