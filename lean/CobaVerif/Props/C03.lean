/-
C03 — Each evaluation is isolated from every other evaluation.
Property theorems only; the model is shared with C01 (Model/C01.lean, Lemmas/C01.lean).

`evalS c seed (e,l,v)` is "evaluating a pristine copy of learner `l` on environment `e` alone with
evaluator `v`".  `(run …).rowsOf key` are the rows the Result holds for a triple of ids, `numbered
rows` are rows with their 1-based index, `runLog` holds the tasks whose exception was logged.
-/
import CobaVerif.Lemmas.C01

namespace Coba.C03
open Coba.C01

variable {S P Row : Type}

/-- `t4_rows_eq_evalS`: in every configuration and schedule, the rows recorded for a listed triple
are those of evaluating it alone on a pristine learner (none if that evaluation raises) -/
theorem t4_rows_eq_evalS (c : Comps S P Row) (cfg : Cfg) (picks : List Nat) (seed : Nat) (ts : List Triple)
    (t : Triple) (ht : t ∈ ts) :
    (run c cfg picks seed ts).rowsOf (idKey ts t) =
      match evalS c seed t with
      | .ok rows => numbered rows
      | .error _ => [] := rowsOf_run' c cfg picks seed ts t ht

/-- the experiment that lists only this triple (ids (0,0,0)) records exactly `evalS` -/
theorem rows_alone (c : Comps S P Row) (cfg : Cfg) (picks : List Nat) (seed : Nat) (t : Triple) :
    (run c cfg picks seed [t]).rowsOf (0, 0, 0) =
      match evalS c seed t with
      | .ok rows => numbered rows
      | .error _ => [] := by
  have := rowsOf_run' c cfg picks seed [t] t (List.mem_singleton.2 rfl)
  rwa [idKey_singleton] at this

/-- the rows of a triple do not depend on which other triples the experiment contains, on their
order, on the configuration or on the schedule -/
theorem rows_independent_of_other_triples (c : Comps S P Row) (cfg cfg' : Cfg) (picks picks' : List Nat)
    (seed : Nat) (ts ts' : List Triple) (t : Triple) (ht : t ∈ ts) (ht' : t ∈ ts') :
    (run c cfg picks seed ts).rowsOf (idKey ts t) = (run c cfg' picks' seed ts').rowsOf (idKey ts' t) := by
  rw [rowsOf_run' c cfg picks seed ts t ht, rowsOf_run' c cfg' picks' seed ts' t ht']

/-- `failing_triple_only`: a triple whose evaluation raises is reported in the log and loses its own
rows; every other listed triple keeps exactly its rows -/
theorem failing_triple_only (c : Comps S P Row) (cfg : Cfg) (picks : List Nat) (seed : Nat) (ts : List Triple)
    (t : Triple) (ht : t ∈ ts) (e : Err) (hfail : evalS c seed t = .error e) :
    (run c cfg picks seed ts).rowsOf (idKey ts t) = [] ∧
    Task.eval (idKey ts t).1 t.1 (idKey ts t).2.1 t.2.1 (idKey ts t).2.2 t.2.2 (decide (lrnCount ts t.2.1 > 1))
      ∈ runLog c cfg picks seed ts ∧
    ∀ t' ∈ ts, ∀ rows, evalS c seed t' = .ok rows → (run c cfg picks seed ts).rowsOf (idKey ts t') = numbered rows := by
  refine ⟨?_, failing_logged c cfg picks seed ts t ht e hfail, ?_⟩
  · rw [rowsOf_run' c cfg picks seed ts t ht, hfail]
  · intro t' ht' rows hok
    rw [rowsOf_run' c cfg picks seed ts t' ht', hok]

/-- nothing else is logged as a failed evaluation: a logged evaluation task is a listed triple
whose evaluation (alone, pristine learner) raises -/
theorem logged_only_failing (c : Comps S P Row) (cfg : Cfg) (picks : List Nat) (seed : Nat) (ts : List Triple)
    (ei e li l vi v : Nat) (cp : Bool) (h : Task.eval ei e li l vi v cp ∈ runLog c cfg picks seed ts) :
    (e, l, v) ∈ ts ∧ ∃ err, evalS c seed (e, l, v) = .error err := logged_failing c cfg picks seed ts ei e li l vi v cp h

/-- `pristine`: every evaluation of a run starts from the pristine state of its learner — the events
of the run are, each once, the events of the tasks on pristine learner cells -/
theorem pristine (c : Comps S P Row) (cfg : Cfg) (picks : List Nat) (seed : Nat) (ts : List Triple) :
    (runEvents c cfg picks seed ts).1.Perm ((makeTasks .none ts).map (pristineEv c seed)) :=
  runEvents_perm c cfg picks seed ts

/-- a learner cell is evaluated in place only if the object is listed once; otherwise `copy` is set
and a deep copy is evaluated -/
theorem copy_iff_shared (ts : List Triple) {ei e li l vi v : Nat} {cp : Bool}
    (h : Task.eval ei e li l vi v cp ∈ makeTasks .none ts) : cp = decide (lrnCount ts l > 1) :=
  (mem_makeTasks_eval h).2.2

/-- the invariant behind it, for one address space (the caller's process, or one unpickled chunk) -/
theorem pristine_address_space (c : Comps S P Row) (seed : Nat) (h : Heap S) (tasks : List Task)
    (hA : ∀ t ∈ tasks, ∀ l, t.uses l → h l = c.init l) (hN : AtMostOnce tasks) :
    (runSeq c seed h tasks).1 = tasks.map (pristineEv c seed) :=
  pristine_address_space' c seed h tasks hA hN

/-- `user_objects`: a learner object listed for several environments or evaluators carries nothing
over — it is still pristine after the run -/
theorem user_objects (c : Comps S P Row) (cfg : Cfg) (picks : List Nat) (seed : Nat) (ts : List Triple)
    (l : Nat) (h : lrnCount ts l > 1) : (runEvents c cfg picks seed ts).2 l = c.init l :=
  user_objects' c cfg picks seed ts l (Or.inl h)


/-! ## phase 2: the log at full strength, process-level state, un-copyable learners -/

/-- `log_exact`: in every configuration and schedule the log holds, each exactly once, precisely the tasks
that raise on pristine objects — a parameter task whose `params` raises, an evaluation task whose evaluation
raises (at whatever position: the evaluator itself, the environment's read, the learner's predict or learn
— `eval` is an arbitrary function) — and nothing else -/
theorem log_exact (c : Comps S P Row) (cfg : Cfg) (picks : List Nat) (seed : Nat) (ts : List Triple) :
    (runLog c cfg picks seed ts).Perm ((makeTasks .none ts).filter (fun t => t.fails c seed)) :=
  runLog_exact' c cfg picks seed ts

/-- an environment whose `params` raises is reported in the log and loses only its own parameter row;
no interaction row is lost (`params_failure_keeps_rows`) -/
theorem env_params_failure (c : Comps S P Row) (cfg : Cfg) (picks : List Nat) (seed : Nat) (ts : List Triple)
    (e : Nat) (he : e ∈ envsOf ts) (err : Err) (hf : c.envParams e = .error err) :
    Task.env (idOf (envsOf ts) e) e ∈ runLog c cfg picks seed ts ∧
    ∀ p, (idOf (envsOf ts) e, p) ∉ (run c cfg picks seed ts).envs := env_params_failure' c cfg picks seed ts e he err hf

theorem lrn_params_failure (c : Comps S P Row) (cfg : Cfg) (picks : List Nat) (seed : Nat) (ts : List Triple)
    (l : Nat) (hl : l ∈ lrnsOf ts) (err : Err) (hf : c.lrnParams l = .error err) :
    Task.lrn (idOf (lrnsOf ts) l) l ∈ runLog c cfg picks seed ts ∧
    ∀ p, (idOf (lrnsOf ts) l, p) ∉ (run c cfg picks seed ts).lrns := lrn_params_failure' c cfg picks seed ts l hl err hf

theorem val_params_failure (c : Comps S P Row) (cfg : Cfg) (picks : List Nat) (seed : Nat) (ts : List Triple)
    (v : Nat) (hv : v ∈ valsOf ts) (err : Err) (hf : c.valParams v = .error err) :
    Task.val (idOf (valsOf ts) v) v ∈ runLog c cfg picks seed ts ∧
    ∀ p, (idOf (valsOf ts) v, p) ∉ (run c cfg picks seed ts).vals := val_params_failure' c cfg picks seed ts v hv err hf

theorem params_failure_keeps_rows (c : Comps S P Row) (cfg : Cfg) (picks : List Nat) (seed : Nat) (ts : List Triple)
    (t : Triple) (ht : t ∈ ts) :
    (run c cfg picks seed ts).rowsOf (idKey ts t) =
      match evalS c seed t with
      | .ok rows => numbered rows
      | .error _ => [] := params_failure_keeps_rows' c cfg picks seed ts t ht

section phase2
variable {G : Type}

/-- `t4_rows_eq_evalS` with process state: under `ProcessLocalClean` the rows of a listed triple are those of
evaluating it in a fresh process on a pristine learner (none when that raises, or when no pristine copy
of a shared learner can be made) -/
theorem t4_rows_process_state (cp : CompsP G S P Row) (Clean : G → Prop) (hc : ProcessLocalClean cp Clean)
    (cfg : Cfg) (sched : Sched) (seed : Nat) (ts : List Triple) (t : Triple) (ht : t ∈ ts) :
    (runP cp cfg sched seed ts).rowsOf (idKey ts t) =
      match evalS (cp.clean ts) seed t with
      | .ok rows => numbered rows
      | .error _ => [] := rowsOf_runP' hc cfg sched seed ts t ht

/-- `rows_alone` with process state -/
theorem rows_alone_process_state (cp : CompsP G S P Row) (Clean : G → Prop) (hc : ProcessLocalClean cp Clean)
    (cfg : Cfg) (sched : Sched) (seed : Nat) (t : Triple) :
    (runP cp cfg sched seed [t]).rowsOf (0, 0, 0) =
      match (cp.evalP cp.σ0 t.2.2 t.1 (cp.init t.2.1) (effSeedP cp seed t.2.2)).1.1 with
      | .ok rows => numbered rows
      | .error _ => [] := rows_alone_P' hc cfg sched seed t

/-- the log with process state, exactly -/
theorem log_exact_process_state (cp : CompsP G S P Row) (Clean : G → Prop) (hc : ProcessLocalClean cp Clean)
    (cfg : Cfg) (sched : Sched) (seed : Nat) (ts : List Triple) :
    (runLogP cp cfg sched seed ts).Perm ((makeTasks .none ts).filter (fun t => t.fails (cp.clean ts) seed)) :=
  runLogP_exact' hc cfg sched seed ts

/-- `copy_error_logged_per_triple`: a learner object that cannot be deep-copied and is listed in several
triples: each of its triples is reported in the log and has no rows; every triple of a learner that is
not blocked keeps exactly the rows of its evaluation in a fresh process on a pristine learner -/
theorem copy_error_logged_per_triple (cp : CompsP G S P Row) (Clean : G → Prop) (hc : ProcessLocalClean cp Clean)
    (cfg : Cfg) (sched : Sched) (seed : Nat) (ts : List Triple) (t : Triple) (ht : t ∈ ts)
    (hb : cp.blocked ts t.2.1 = true) :
    Task.eval (idKey ts t).1 t.1 (idKey ts t).2.1 t.2.1 (idKey ts t).2.2 t.2.2 (decide (lrnCount ts t.2.1 > 1))
      ∈ runLogP cp cfg sched seed ts ∧
    (runP cp cfg sched seed ts).rowsOf (idKey ts t) = [] ∧
    ∀ t' ∈ ts, cp.blocked ts t'.2.1 = false → ∀ rows,
      (cp.evalP cp.σ0 t'.2.2 t'.1 (cp.init t'.2.1) (effSeedP cp seed t'.2.2)).1.1 = .ok rows →
      (runP cp cfg sched seed ts).rowsOf (idKey ts t') = numbered rows :=
  copy_error_logged_per_triple' hc cfg sched seed ts t ht hb

/-- isolation needs the process-state hypothesis: with `leakyComps` the rows of the second triple in the
two-triple experiment are not the rows it gets alone -/
theorem isolation_forced_counterexample :
    (runP leakyComps ⟨1, 0, 0⟩ ⟨[], []⟩ 1 leakyTriples).rowsOf (1, 1, 0) = [(1, 11)] ∧
    (runP leakyComps ⟨1, 0, 0⟩ ⟨[], []⟩ 1 [(1, 1, 0)]).rowsOf (0, 0, 0) = [(1, 10)] := by
  decide +kernel

end phase2


/-! ## phase 3: failures are local -/

/-- the interactions table row by row: exactly the numbered rows of the listed triples whose evaluation (alone,
pristine learner) does not raise, under their first-appearance ids — in every configuration and schedule -/
theorem interactions_exact (c : Comps S P Row) (cfg : Cfg) (picks : List Nat) (seed : Nat) (ts : List Triple)
    (k : Key3) (i : Nat) (row : Row) :
    (k, i, row) ∈ (run c cfg picks seed ts).ints ↔
      ∃ t ∈ ts, ∃ rows, evalS c seed t = .ok rows ∧ k = idKey ts t ∧ (i, row) ∈ numbered rows :=
  mem_ints_iff' c cfg picks seed ts k i row

/-- `failure_local`: for any triple list and whatever set of its triples fails (wherever the exception is raised
inside the evaluation: `eval` is arbitrary), in every configuration and schedule the Result holds exactly the rows
of the non-failing triples, each row being a row of that triple's alone run (under any configuration) -/
theorem failure_local (c : Comps S P Row) (cfg cfg' : Cfg) (picks picks' : List Nat) (seed : Nat) (ts : List Triple)
    (k : Key3) (i : Nat) (row : Row) :
    (k, i, row) ∈ (run c cfg picks seed ts).ints ↔
      ∃ t ∈ ts, (∃ rows, evalS c seed t = .ok rows) ∧ k = idKey ts t ∧
        (i, row) ∈ (run c cfg' picks' seed [t]).rowsOf (0, 0, 0) :=
  failure_local' c cfg picks seed ts cfg' picks' k i row

/-! ## phase 5: isolation of the PMF / learning_info learner objects of the SequentialCB experiment model -/

section phase5
variable {σ V R : Type} [DecidableEq V] [Coba.C06.RewardFn R V]

/-- the rows of a triple of an experiment over SequentialCB with PMF-answering / info-writing learner objects do not
depend on which other triples the experiment lists, on their order, on the configuration or on the schedule: the
generator of a PMF learner's `SafeLearner` and the `learning_info` channel are not shared between evaluations -/
theorem sequentialCB_ext_rows_isolated (w : SeqWorldX σ V R P) (cfg cfg' : Cfg) (picks picks' : List Nat)
    (seed : Nat) (ts ts' : List Triple) (t : Triple) (ht : t ∈ ts) (ht' : t ∈ ts') :
    (run (seqCompsX w) cfg picks seed ts).rowsOf (idKey ts t) =
      (run (seqCompsX w) cfg' picks' seed ts').rowsOf (idKey ts' t) :=
  rows_independent_of_other_triples (seqCompsX w) cfg cfg' picks picks' seed ts ts' t ht ht'

/-- … and equal the rows of the experiment that lists this triple alone -/
theorem sequentialCB_ext_rows_alone (w : SeqWorldX σ V R P) (cfg cfg' : Cfg) (picks picks' : List Nat)
    (seed : Nat) (ts : List Triple) (t : Triple) (ht : t ∈ ts) :
    (run (seqCompsX w) cfg picks seed ts).rowsOf (idKey ts t) =
      (run (seqCompsX w) cfg' picks' seed [t]).rowsOf (0, 0, 0) := by
  have h := rows_independent_of_other_triples (seqCompsX w) cfg cfg' picks picks' seed ts [t] t ht
    (List.mem_singleton.2 rfl)
  rwa [idKey_singleton] at h

end phase5

section phase6
variable {σ V R : Type} [DecidableEq V] [Coba.C06.RewardFn R V]

/-- the rows of a triple of an experiment over SequentialCB and RejectionCB objects do not depend on which other triples
the experiment lists, on their order, on the configuration or on the schedule: the generator of a RejectionCB, its sorted
ratio list `Q` and its multiplier `c` live inside one `evaluate` call and are not shared between evaluations -/
theorem rejectionCB_rows_isolated (w : SeqWorldR σ V R P) (cfg cfg' : Cfg) (picks picks' : List Nat)
    (seed : Nat) (ts ts' : List Triple) (t : Triple) (ht : t ∈ ts) (ht' : t ∈ ts') :
    (run (seqCompsR w) cfg picks seed ts).rowsOf (idKey ts t) =
      (run (seqCompsR w) cfg' picks' seed ts').rowsOf (idKey ts' t) :=
  rows_independent_of_other_triples (seqCompsR w) cfg cfg' picks picks' seed ts ts' t ht ht'

/-- … and equal the rows of the experiment that lists this triple alone -/
theorem rejectionCB_rows_alone (w : SeqWorldR σ V R P) (cfg cfg' : Cfg) (picks picks' : List Nat)
    (seed : Nat) (ts : List Triple) (t : Triple) (ht : t ∈ ts) :
    (run (seqCompsR w) cfg picks seed ts).rowsOf (idKey ts t) =
      (run (seqCompsR w) cfg' picks' seed [t]).rowsOf (0, 0, 0) := by
  have h := rows_independent_of_other_triples (seqCompsR w) cfg cfg' picks picks' seed ts [t] t ht
    (List.mem_singleton.2 rfl)
  rwa [idKey_singleton] at h

end phase6

end Coba.C03
