/-
C17 — Indexed table queries return exactly what a full scan would.

Property theorems only; helper lemmas live in `Lemmas/C17.lean`, the executable model and the
specification in `Model/C17.lean`.  `cfg : Cfg` says which of the proposed repairs
(`fixes/C17-*.diff`) the modelled code contains; `Cfg.unfixed` is the pinned tree, `Cfg.fixed` the
tree with all of them.  The theorems hold for every `cfg`; what differs is how much the
well-formedness check `whereWF cfg …` has to exclude (each exclusion has a `_counterexample`).
-/
import CobaVerif.Lemmas.C17

namespace Coba.C17

/-! ## bisect on a sorted segment -/

/-- `bisect_left(c, v, lo, hi)` on a sorted segment of mutually comparable cells returns the
position that separates the cells smaller than `v` from the others -/
theorem bisect_left_spec (xs : List Cell) (v : Cell) (lo hi : Nat) (hle : lo ≤ hi) (hhi : hi ≤ xs.length)
    (hs : SortedSeg xs lo hi) (hc : CmpSeg xs lo hi v) :
    ∃ k, bisectLeft (listGet xs) v lo hi = .ok k ∧ lo ≤ k ∧ k ≤ hi ∧
      (∀ i, lo ≤ i → i < k → (cellAt xs i).key.lt v.key = true) ∧
      (∀ i, k ≤ i → i < hi → (cellAt xs i).key.lt v.key = false) :=
  bisectLeft_spec (listGet xs) xs (listGet_of_lt xs) v lo hi hle hhi hs hc

/-- `bisect_right`: separates the cells not greater than `v` from the greater ones -/
theorem bisect_right_spec (xs : List Cell) (v : Cell) (lo hi : Nat) (hle : lo ≤ hi) (hhi : hi ≤ xs.length)
    (hs : SortedSeg xs lo hi) (hc : CmpSeg xs lo hi v) :
    ∃ k, bisectRight (listGet xs) v lo hi = .ok k ∧ lo ≤ k ∧ k ≤ hi ∧
      (∀ i, lo ≤ i → i < k → v.key.lt (cellAt xs i).key = false) ∧
      (∀ i, k ≤ i → i < hi → v.key.lt (cellAt xs i).key = true) :=
  bisectRight_spec (listGet xs) xs (listGet_of_lt xs) v lo hi hle hhi hs hc

/-- `my_bisect_left` / `my_bisect_right` (with their `c[l]==a` / `c[h-1]==a` shortcuts) find the same
cuts on a list, a `SliceView` or a `ListView`, provided the segment is not empty or the empty-segment
guard (P12) is present -/
theorem my_bisect_spec (cfg : Cfg) (s : Seq) (xs : List Cell) (hsh : s.Shows xs)
    (v : Cell) (lo hi : Nat) (hle : lo ≤ hi) (hhi : hi ≤ xs.length) (hne : cfg.guardEmpty = true ∨ lo < hi)
    (hs : SortedSeg xs lo hi) (hc : CmpSeg xs lo hi v) (hnn : NoNoneSeg xs lo hi) (hv : v.key ≠ .none) :
    ∃ bl br, myBisectLeft cfg s v lo hi = .ok bl ∧ myBisectRight cfg s v lo hi = .ok br ∧ Cuts xs v lo hi bl br :=
  cuts_of_bisect cfg s xs hsh v lo hi hle hhi hne hs hc hnn hv

/-- P12: without the guard an empty segment raises `IndexError` -/
theorem my_bisect_empty_counterexample :
    myBisectLeft Cfg.unfixed { base := [], sel := .all } (.int 1) 0 0 = .error .indexError ∧
    myBisectLeft Cfg.fixed { base := [], sel := .all } (.int 1) 0 0 = .ok 0 := by decide +kernel

/-! ## `_compare`: the bisect path selects what the scan path selects -/

/-- On a whole sorted column, for every operator `= != < <= > >= in !in`, the ranges computed by
bisection expand to exactly the row numbers the scan returns (in order, once each). -/
theorem compare_bisect_eq_scan (cfg : Cfg) (s : Seq) (xs : List Cell) (hsh : s.Shows xs) (op : Op) (a : ArgV)
    (hshape : argShape op a = true)
    (hok : ProbeOK cfg xs 0 xs.length (probesOf a)) (hcmp : allComparable (probesOf a) = true)
    (hdup : op = .isin → cfg.dedupIn = true ∨ (probesOf a).Pairwise (fun u v => u.key ≠ v.key))
    (hcell : ∀ c ∈ xs, CellOK op a c) (hle : leGeOK cfg op a xs) :
    ∃ rs, compareBisect cfg s 0 xs.length op a = .ok rs ∧ compareScan cfg xs op a = .ok (rs.flatMap rangeOf) :=
  compare_bisect_eq_scan' cfg s xs hsh op a hshape hok hcmp hdup hcell hle

/-- the hypotheses are satisfiable: column `[1,1,2,Missing]`, `in [2,1]` -/
example : ∃ rs, compareBisect Cfg.unfixed { base := [.int 1, .int 1, .int 2, .missing], sel := .all } 0 4 .isin (.coll [.int 2, .int 1]) = .ok rs ∧
    compareScan Cfg.unfixed [.int 1, .int 1, .int 2, .missing] .isin (.coll [.int 2, .int 1]) = .ok (rs.flatMap rangeOf) :=
  ⟨[(0, 2), (2, 3)], by decide +kernel⟩

/-! ## `where` -/

/-- **where = plain filter.**  For a well-formed call (`whereWF`, a decidable check listing the
forced hypotheses) on a table or on a `where` result, with any number of keywords given
positionally, as `{op: value}` or as callables, on indexed and unindexed columns:
if the plain row-by-row evaluation `whereS` of the documented conditions is defined and keeps the
rows `rs`, then `Table.where` succeeds and the table it returns shows exactly `rs` (same order,
same multiplicity), with the same columns and indexes. -/
theorem where_eq_spec (cfg : Cfg) (t : Table) (pos : Option Op) (kws : List (Nat × Arg))
    (R rs : List (List Cell)) (hwf : whereWF cfg t pos kws = true) (hR : t.rows = .ok R)
    (hspec : whereS { columns := t.columns, rows := R } (kws.map (condOf pos)) = .ok rs) :
    ∃ t', t.pwhere cfg Option.none pos kws = .ok t' ∧ t'.rows = .ok rs ∧
      t'.columns = t.columns ∧ t'.indexes = t.indexes :=
  where_eq_spec' cfg t pos kws R rs hwf hR hspec

/-- a table used by the examples: columns a,b; indexed by a; rows (1,5) (1,6) (2,5) (Missing,7) -/
def exT : Table :=
  { columns := [0, 1], data := [(0, [.int 1, .int 1, .int 2, .missing]), (1, [.int 5, .int 6, .int 5, .int 7])],
    sel := .all, indexes := [0] }

/-- the hypotheses of `where_eq_spec` are satisfiable, already for the pinned tree: two keywords,
one on the indexed column (bisect) and one on the other (scan) -/
example : whereWF Cfg.unfixed exT Option.none [(1, .val (.scalar (.int 6))), (0, .dict .ge (.scalar (.int 2)))] = true := by
  decide +kernel

/-- **where with a row predicate** keeps exactly the rows the predicate accepts -/
theorem where_pred_eq_spec (cfg : Cfg) (t : Table) (N : Nat) (hok : t.OK N) (hne : t.columns ≠ []) (p : RowPred)
    (pos : Option Op) (kws : List (Nat × Arg)) (R : List (List Cell)) (hR : t.rows = .ok R) :
    ∃ t', t.pwhere cfg (some p) pos kws = .ok t' ∧ t'.rows = .ok (R.filter p.eval) ∧
      t'.columns = t.columns ∧ t'.indexes = t.indexes ∧ t'.OK N :=
  where_pred_eq_spec' cfg t N hok hne p pos kws R hR

/-! ### each conjunct of `whereWF` is needed (pinned tree = `Cfg.unfixed`) -/

def rowsOf (r : Except Err Table) : Except Err (List (List Cell)) :=
  match r with
  | .ok t => t.rows
  | .error e => .error e

/-- P8: repeated probes of `in` on an indexed column repeat the rows -/
theorem where_duplicate_probes_counterexample :
    rowsOf (exT.pwhere Cfg.unfixed Option.none Option.none [(0, .val (.coll [.int 1, .int 1]))])
      = .ok [[.int 1, .int 5], [.int 1, .int 6], [.int 1, .int 5], [.int 1, .int 6]] ∧
    whereS { columns := [0, 1], rows := [[.int 1, .int 5], [.int 1, .int 6], [.int 2, .int 5], [.missing, .int 7]] }
      [condOf Option.none (0, .val (.coll [.int 1, .int 1]))] = .ok [[.int 1, .int 5], [.int 1, .int 6]] ∧
    whereWF Cfg.unfixed exT Option.none [(0, .val (.coll [.int 1, .int 1]))] = false ∧
    whereWF Cfg.fixed exT Option.none [(0, .val (.coll [.int 1, .int 1]))] = true := by decide +kernel

/-- P9: `{'!in': [5]}` on an unindexed column returns every row -/
theorem where_notin_dict_counterexample :
    rowsOf (exT.pwhere Cfg.unfixed Option.none Option.none [(1, .dict .notin (.coll [.int 5]))])
      = .ok [[.int 1, .int 5], [.int 1, .int 6], [.int 2, .int 5], [.missing, .int 7]] ∧
    whereS { columns := [0, 1], rows := [[.int 1, .int 5], [.int 1, .int 6], [.int 2, .int 5], [.missing, .int 7]] }
      [condOf Option.none (1, .dict .notin (.coll [.int 5]))] = .ok [[.int 1, .int 6], [.missing, .int 7]] ∧
    whereWF Cfg.unfixed exT Option.none [(1, .dict .notin (.coll [.int 5]))] = false ∧
    whereWF Cfg.fixed exT Option.none [(1, .dict .notin (.coll [.int 5]))] = true := by decide +kernel

/-- P10: the `<` of the first keyword is applied to the second one -/
theorem where_operator_leak_counterexample :
    rowsOf (exT.pwhere Cfg.unfixed Option.none Option.none [(0, .dict .lt (.scalar (.int 1))), (1, .val (.scalar (.int 6)))])
      = .ok [[.int 1, .int 5], [.int 2, .int 5]] ∧
    whereS { columns := [0, 1], rows := [[.int 1, .int 5], [.int 1, .int 6], [.int 2, .int 5], [.missing, .int 7]] }
      ([(0, .dict .lt (.scalar (.int 1))), (1, .val (.scalar (.int 6)))].map (condOf Option.none)) = .ok [[.int 1, .int 6]] ∧
    whereWF Cfg.unfixed exT Option.none [(0, .dict .lt (.scalar (.int 1))), (1, .val (.scalar (.int 6)))] = false ∧
    whereWF Cfg.fixed exT Option.none [(0, .dict .lt (.scalar (.int 1))), (1, .val (.scalar (.int 6)))] = true := by decide +kernel

/-- a table with a `Missing` cell in an unindexed column -/
def exM : Table :=
  { columns := [0, 1], data := [(0, [.int 1, .int 2]), (1, [.int 5, .missing])], sel := .all, indexes := [] }

/-- P11: `<=` on an unindexed column containing `Missing` raises `TypeError` -/
theorem where_le_missing_counterexample :
    rowsOf (exM.pwhere Cfg.unfixed Option.none Option.none [(1, .dict .le (.scalar (.int 5)))]) = .error .typeError ∧
    whereS { columns := [0, 1], rows := [[.int 1, .int 5], [.int 2, .missing]] }
      [condOf Option.none (1, .dict .le (.scalar (.int 5)))] = .ok [[.int 1, .int 5]] ∧
    whereWF Cfg.unfixed exM Option.none [(1, .dict .le (.scalar (.int 5)))] = false ∧
    whereWF Cfg.fixed exM Option.none [(1, .dict .le (.scalar (.int 5)))] = true := by decide +kernel

/-- the empty table indexed by its only column -/
def exE : Table := { columns := [0], data := [(0, [])], sel := .all, indexes := [0] }

/-- P12: `where` on an indexed column of an empty table raises `IndexError` -/
theorem where_empty_indexed_counterexample :
    rowsOf (exE.pwhere Cfg.unfixed Option.none Option.none [(0, .val (.scalar (.int 1)))]) = .error .indexError ∧
    whereS { columns := [0], rows := [] } [condOf Option.none (0, .val (.scalar (.int 1)))] = .ok [] ∧
    whereWF Cfg.unfixed exE Option.none [(0, .val (.scalar (.int 1)))] = false ∧
    whereWF Cfg.fixed exE Option.none [(0, .val (.scalar (.int 1)))] = true := by decide +kernel

/-- rows 3,1 indexed by a, then 2,0 inserted: `_indexes` still says a -/
def exStale : Table := { columns := [0], data := [(0, [.int 1, .int 3, .int 2, .int 0])], sel := .all, indexes := [0] }

/-- P13 (in every tree): on rows that are not in index order the bisection answers wrongly -/
theorem where_stale_index_counterexample :
    rowsOf (exStale.pwhere Cfg.fixed Option.none Option.none [(0, .val (.scalar (.int 0)))])
      = .ok [[.int 1], [.int 3], [.int 2], [.int 0]] ∧
    whereS { columns := [0], rows := [[.int 1], [.int 3], [.int 2], [.int 0]] }
      [condOf Option.none (0, .val (.scalar (.int 0)))] = .ok [[.int 0]] ∧
    whereWF Cfg.fixed exStale Option.none [(0, .val (.scalar (.int 0)))] = false := by decide +kernel

/-- (in every tree) a probe that cannot be ordered against the cells raises `TypeError` on an
indexed column while the plain evaluation of `=` finds no row -/
theorem where_incomparable_probe_counterexample :
    rowsOf (exT.pwhere Cfg.fixed Option.none Option.none [(0, .val (.scalar (.str [113])))]) = .error .typeError ∧
    whereS { columns := [0, 1], rows := [[.int 1, .int 5], [.int 1, .int 6], [.int 2, .int 5], [.missing, .int 7]] }
      [condOf Option.none (0, .val (.scalar (.str [113])))] = .ok [] ∧
    whereWF Cfg.fixed exT Option.none [(0, .val (.scalar (.str [113])))] = false := by decide +kernel

/-- (in every tree) `None` as a probe of `!in` is taken for the sentinel: every row comes twice -/
theorem where_none_probe_counterexample :
    rowsOf (exT.pwhere Cfg.fixed Option.none (some .notin) [(0, .val (.coll [.none]))])
      = .ok [[.int 1, .int 5], [.int 1, .int 6], [.int 2, .int 5], [.missing, .int 7],
             [.int 1, .int 5], [.int 1, .int 6], [.int 2, .int 5], [.missing, .int 7]] ∧
    whereS { columns := [0, 1], rows := [[.int 1, .int 5], [.int 1, .int 6], [.int 2, .int 5], [.missing, .int 7]] }
      [condOf (some .notin) (0, .val (.coll [.none]))] = .ok [[.int 1, .int 5], [.int 1, .int 6], [.int 2, .int 5]] ∧
    whereWF Cfg.fixed exT (some .notin) [(0, .val (.coll [.none]))] = false := by decide +kernel

/-- (in every tree) `> Missing`: the scan says `Missing > Missing`, the bisection does not -/
theorem where_missing_probe_counterexample :
    rowsOf (exT.pwhere Cfg.fixed Option.none Option.none [(0, .dict .gt (.scalar .missing))]) = .ok [] ∧
    whereS { columns := [0, 1], rows := [[.int 1, .int 5], [.int 1, .int 6], [.int 2, .int 5], [.missing, .int 7]] }
      [condOf Option.none (0, .dict .gt (.scalar .missing))] = .ok [[.missing, .int 7]] ∧
    whereWF Cfg.fixed exT Option.none [(0, .dict .gt (.scalar .missing))] = false := by decide +kernel

end Coba.C17
