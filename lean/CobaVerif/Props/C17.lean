/-
C17 — Indexed table queries return exactly what a full scan would.

Property theorems only; helper lemmas live in `Lemmas/C17.lean`, the executable model and the
specification in `Model/C17.lean`.  `cfg : Cfg` says which of the proposed repairs
(`fixes/C17-*.diff`) the modelled code contains; `Cfg.unfixed` is the pinned tree, `Cfg.fixed` the
tree with all of them.  The theorems hold for every `cfg`; what differs is how much the
well-formedness check `whereWF cfg …` has to exclude (each exclusion has a `_counterexample`).
-/
import CobaVerif.Lemmas.C17

namespace Coba.C17

/-! ## bisect on a sorted segment -/

/-- `bisect_left(c, v, lo, hi)` on a sorted segment of mutually comparable cells returns the
position that separates the cells smaller than `v` from the others -/
theorem bisect_left_spec (xs : List Cell) (v : Cell) (lo hi : Nat) (hle : lo ≤ hi) (hhi : hi ≤ xs.length)
    (hs : SortedSeg xs lo hi) (hc : CmpSeg xs lo hi v) :
    ∃ k, bisectLeft (listGet xs) v lo hi = .ok k ∧ lo ≤ k ∧ k ≤ hi ∧
      (∀ i, lo ≤ i → i < k → (cellAt xs i).key.lt v.key = true) ∧
      (∀ i, k ≤ i → i < hi → (cellAt xs i).key.lt v.key = false) :=
  bisectLeft_spec (listGet xs) xs (listGet_of_lt xs) v lo hi hle hhi hs hc

/-- `bisect_right`: separates the cells not greater than `v` from the greater ones -/
theorem bisect_right_spec (xs : List Cell) (v : Cell) (lo hi : Nat) (hle : lo ≤ hi) (hhi : hi ≤ xs.length)
    (hs : SortedSeg xs lo hi) (hc : CmpSeg xs lo hi v) :
    ∃ k, bisectRight (listGet xs) v lo hi = .ok k ∧ lo ≤ k ∧ k ≤ hi ∧
      (∀ i, lo ≤ i → i < k → v.key.lt (cellAt xs i).key = false) ∧
      (∀ i, k ≤ i → i < hi → v.key.lt (cellAt xs i).key = true) :=
  bisectRight_spec (listGet xs) xs (listGet_of_lt xs) v lo hi hle hhi hs hc

/-- `my_bisect_left` / `my_bisect_right` (with their `c[l]==a` / `c[h-1]==a` shortcuts) find the same
cuts on a list, a `SliceView` or a `ListView`, provided the segment is not empty or the empty-segment
guard (P12) is present -/
theorem my_bisect_spec (cfg : Cfg) (s : Seq) (xs : List Cell) (hsh : s.Shows xs)
    (v : Cell) (lo hi : Nat) (hle : lo ≤ hi) (hhi : hi ≤ xs.length) (hne : cfg.guardEmpty = true ∨ lo < hi)
    (hs : SortedSeg xs lo hi) (hc : CmpSeg xs lo hi v) (hnn : NoNoneSeg xs lo hi) (hv : v.key ≠ .none) :
    ∃ bl br, myBisectLeft cfg s v lo hi = .ok bl ∧ myBisectRight cfg s v lo hi = .ok br ∧ Cuts xs v lo hi bl br :=
  cuts_of_bisect cfg s xs hsh v lo hi hle hhi hne hs hc hnn hv

/-- P12: without the guard an empty segment raises `IndexError` -/
theorem my_bisect_empty_counterexample :
    myBisectLeft Cfg.unfixed { base := [], sel := .all } (.int 1) 0 0 = .error .indexError ∧
    myBisectLeft Cfg.fixed { base := [], sel := .all } (.int 1) 0 0 = .ok 0 := by decide +kernel

/-! ## `_compare`: the bisect path selects what the scan path selects -/

/-- On a whole sorted column, for every operator `= != < <= > >= in !in`, the ranges computed by
bisection expand to exactly the row numbers the scan returns (in order, once each). -/
theorem compare_bisect_eq_scan (cfg : Cfg) (s : Seq) (xs : List Cell) (hsh : s.Shows xs) (op : Op) (a : ArgV)
    (hshape : argShape op a = true)
    (hok : ProbeOK cfg xs 0 xs.length (probesOf a)) (hcmp : allComparable (probesOf a) = true)
    (hdup : op = .isin → cfg.dedupIn = true ∨ (probesOf a).Pairwise (fun u v => u.key ≠ v.key))
    (hcell : ∀ c ∈ xs, CellOK op a c) (hle : leGeOK cfg op a xs) :
    ∃ rs, compareBisect cfg s 0 xs.length op a = .ok rs ∧ compareScan cfg xs op a = .ok (rs.flatMap rangeOf) :=
  compare_bisect_eq_scan' cfg s xs hsh op a hshape hok hcmp hdup hcell hle

/-- the hypotheses are satisfiable: column `[1,1,2,Missing]`, `in [2,1]` -/
example : ∃ rs, compareBisect Cfg.unfixed { base := [.int 1, .int 1, .int 2, .missing], sel := .all } 0 4 .isin (.coll [.int 2, .int 1]) = .ok rs ∧
    compareScan Cfg.unfixed [.int 1, .int 1, .int 2, .missing] .isin (.coll [.int 2, .int 1]) = .ok (rs.flatMap rangeOf) :=
  ⟨[(0, 2), (2, 3)], by decide +kernel⟩

/-! ## `where` -/

/-
theorem where_eq_spec_full (cfg : Cfg) (t : Table) (pos : Option Op) (kws : List (Nat × Arg)) (R rs) :
    t.rows = .ok R → whereS ⟨t.columns, R⟩ (kws.map (condOf pos)) = .ok rs →
    ∃ t', t.pwhere cfg none pos kws = .ok t' ∧ t'.rows = .ok rs
-- FALSE for the code as it is, in the pinned tree (P8…P12, see the `_counterexample`s below) and, for
-- the conjuncts marked "every tree", also with all proposed repairs: rows not in index order after
-- insert-after-index (P13, recorded), a probe that cannot be ordered against an indexed column,
-- `None` / `Missing` probes.  `match` is outside the theorem altogether (regular expressions are
-- not modelled beyond literal patterns; correspondence-checked only).  Hence the `_partial` form with
-- the explicit decidable hypothesis `whereWF`.
-/

/-- **where = plain filter.**  For a well-formed call (`whereWF`, a decidable check listing the
forced hypotheses) on a table or on a `where` result, with any number of keywords given
positionally, as `{op: value}` or as callables, on indexed and unindexed columns:
if the plain row-by-row evaluation `whereS` of the documented conditions is defined and keeps the
rows `rs`, then `Table.where` succeeds and the table it returns shows exactly `rs` (same order,
same multiplicity), with the same columns and indexes. -/
theorem where_eq_spec_partial (cfg : Cfg) (t : Table) (pos : Option Op) (kws : List (Nat × Arg))
    (R rs : List (List Cell)) (hwf : whereWF cfg t pos kws = true) (hR : t.rows = .ok R)
    (hspec : whereS { columns := t.columns, rows := R } (kws.map (condOf pos)) = .ok rs) :
    ∃ t', t.pwhere cfg Option.none pos kws = .ok t' ∧ t'.rows = .ok rs ∧
      t'.columns = t.columns ∧ t'.indexes = t.indexes :=
  where_eq_spec' cfg t pos kws R rs hwf hR hspec

/-- a table used by the examples: columns a,b; indexed by a; rows (1,5) (1,6) (2,5) (Missing,7) -/
def exT : Table :=
  { columns := [0, 1], data := [(0, [.int 1, .int 1, .int 2, .missing]), (1, [.int 5, .int 6, .int 5, .int 7])],
    sel := .all, indexes := [0] }

/-- the hypotheses of `where_eq_spec_partial` are satisfiable, already for the pinned tree: two keywords,
one on the indexed column (bisect) and one on the other (scan) -/
example : whereWF Cfg.unfixed exT Option.none [(1, .val (.scalar (.int 6))), (0, .dict .ge (.scalar (.int 2)))] = true := by
  decide +kernel

/-- **where with a row predicate** keeps exactly the rows the predicate accepts -/
theorem where_pred_eq_spec (cfg : Cfg) (t : Table) (N : Nat) (hok : t.OK N) (hne : t.columns ≠ []) (p : RowPred)
    (pos : Option Op) (kws : List (Nat × Arg)) (R : List (List Cell)) (hR : t.rows = .ok R) :
    ∃ t', t.pwhere cfg (some p) pos kws = .ok t' ∧ t'.rows = .ok (R.filter p.eval) ∧
      t'.columns = t.columns ∧ t'.indexes = t.indexes ∧ t'.OK N :=
  where_pred_eq_spec' cfg t N hok hne p pos kws R hR

/-! ### each conjunct of `whereWF` is needed (pinned tree = `Cfg.unfixed`) -/

def rowsOf (r : Except Err Table) : Except Err (List (List Cell)) :=
  match r with
  | .ok t => t.rows
  | .error e => .error e

/-- P8: repeated probes of `in` on an indexed column repeat the rows -/
theorem where_duplicate_probes_counterexample :
    rowsOf (exT.pwhere Cfg.unfixed Option.none Option.none [(0, .val (.coll [.int 1, .int 1]))])
      = .ok [[.int 1, .int 5], [.int 1, .int 6], [.int 1, .int 5], [.int 1, .int 6]] ∧
    whereS { columns := [0, 1], rows := [[.int 1, .int 5], [.int 1, .int 6], [.int 2, .int 5], [.missing, .int 7]] }
      [condOf Option.none (0, .val (.coll [.int 1, .int 1]))] = .ok [[.int 1, .int 5], [.int 1, .int 6]] ∧
    whereWF Cfg.unfixed exT Option.none [(0, .val (.coll [.int 1, .int 1]))] = false ∧
    whereWF Cfg.fixed exT Option.none [(0, .val (.coll [.int 1, .int 1]))] = true := by decide +kernel

/-- P9: `{'!in': [5]}` on an unindexed column returns every row -/
theorem where_notin_dict_counterexample :
    rowsOf (exT.pwhere Cfg.unfixed Option.none Option.none [(1, .dict .notin (.coll [.int 5]))])
      = .ok [[.int 1, .int 5], [.int 1, .int 6], [.int 2, .int 5], [.missing, .int 7]] ∧
    whereS { columns := [0, 1], rows := [[.int 1, .int 5], [.int 1, .int 6], [.int 2, .int 5], [.missing, .int 7]] }
      [condOf Option.none (1, .dict .notin (.coll [.int 5]))] = .ok [[.int 1, .int 6], [.missing, .int 7]] ∧
    whereWF Cfg.unfixed exT Option.none [(1, .dict .notin (.coll [.int 5]))] = false ∧
    whereWF Cfg.fixed exT Option.none [(1, .dict .notin (.coll [.int 5]))] = true := by decide +kernel

/-- P10: the `<` of the first keyword is applied to the second one -/
theorem where_operator_leak_counterexample :
    rowsOf (exT.pwhere Cfg.unfixed Option.none Option.none [(0, .dict .lt (.scalar (.int 1))), (1, .val (.scalar (.int 6)))])
      = .ok [[.int 1, .int 5], [.int 2, .int 5]] ∧
    whereS { columns := [0, 1], rows := [[.int 1, .int 5], [.int 1, .int 6], [.int 2, .int 5], [.missing, .int 7]] }
      ([(0, .dict .lt (.scalar (.int 1))), (1, .val (.scalar (.int 6)))].map (condOf Option.none)) = .ok [[.int 1, .int 6]] ∧
    whereWF Cfg.unfixed exT Option.none [(0, .dict .lt (.scalar (.int 1))), (1, .val (.scalar (.int 6)))] = false ∧
    whereWF Cfg.fixed exT Option.none [(0, .dict .lt (.scalar (.int 1))), (1, .val (.scalar (.int 6)))] = true := by decide +kernel

/-- a table with a `Missing` cell in an unindexed column -/
def exM : Table :=
  { columns := [0, 1], data := [(0, [.int 1, .int 2]), (1, [.int 5, .missing])], sel := .all, indexes := [] }

/-- P11: `<=` on an unindexed column containing `Missing` raises `TypeError` -/
theorem where_le_missing_counterexample :
    rowsOf (exM.pwhere Cfg.unfixed Option.none Option.none [(1, .dict .le (.scalar (.int 5)))]) = .error .typeError ∧
    whereS { columns := [0, 1], rows := [[.int 1, .int 5], [.int 2, .missing]] }
      [condOf Option.none (1, .dict .le (.scalar (.int 5)))] = .ok [[.int 1, .int 5]] ∧
    whereWF Cfg.unfixed exM Option.none [(1, .dict .le (.scalar (.int 5)))] = false ∧
    whereWF Cfg.fixed exM Option.none [(1, .dict .le (.scalar (.int 5)))] = true := by decide +kernel

/-- the empty table indexed by its only column -/
def exE : Table := { columns := [0], data := [(0, [])], sel := .all, indexes := [0] }

/-- P12: `where` on an indexed column of an empty table raises `IndexError` -/
theorem where_empty_indexed_counterexample :
    rowsOf (exE.pwhere Cfg.unfixed Option.none Option.none [(0, .val (.scalar (.int 1)))]) = .error .indexError ∧
    whereS { columns := [0], rows := [] } [condOf Option.none (0, .val (.scalar (.int 1)))] = .ok [] ∧
    whereWF Cfg.unfixed exE Option.none [(0, .val (.scalar (.int 1)))] = false ∧
    whereWF Cfg.fixed exE Option.none [(0, .val (.scalar (.int 1)))] = true := by decide +kernel

/-- rows 3,1 indexed by a, then 2,0 inserted: `_indexes` still says a -/
def exStale : Table := { columns := [0], data := [(0, [.int 1, .int 3, .int 2, .int 0])], sel := .all, indexes := [0] }

/-- P13: on rows that are not in index order the bisection answers wrongly (whatever the tree: `where`
trusts `_indexes`).  With the repaired `insert` no history reaches such a table: `inv_reachable`. -/
theorem where_stale_index_counterexample :
    rowsOf (exStale.pwhere Cfg.fixed Option.none Option.none [(0, .val (.scalar (.int 0)))])
      = .ok [[.int 1], [.int 3], [.int 2], [.int 0]] ∧
    whereS { columns := [0], rows := [[.int 1], [.int 3], [.int 2], [.int 0]] }
      [condOf Option.none (0, .val (.scalar (.int 0)))] = .ok [[.int 0]] ∧
    whereWF Cfg.fixed exStale Option.none [(0, .val (.scalar (.int 0)))] = false := by decide +kernel

/-- a probe that cannot be ordered against the cells raises `TypeError` on an indexed column while
the plain evaluation of `=` finds no row; with `fixes/C17-where-incomparable-probe.diff` the
`TypeError` of the bisection is caught and the scan answers -/
theorem where_incomparable_probe_counterexample :
    rowsOf (exT.pwhere Cfg.committed Option.none Option.none [(0, .val (.scalar (.str [113])))]) = .error .typeError ∧
    whereS { columns := [0, 1], rows := [[.int 1, .int 5], [.int 1, .int 6], [.int 2, .int 5], [.missing, .int 7]] }
      [condOf Option.none (0, .val (.scalar (.str [113])))] = .ok [] ∧
    whereWF Cfg.committed exT Option.none [(0, .val (.scalar (.str [113])))] = false ∧
    rowsOf (exT.pwhere Cfg.fixed Option.none Option.none [(0, .val (.scalar (.str [113])))]) = .ok [] := by decide +kernel

/-- `None` as a probe of `!in` is taken for the sentinel: every row comes twice; with
`fixes/C17-notin-none-probe.diff` (a private sentinel) the answer is the plain one -/
theorem where_none_probe_counterexample :
    rowsOf (exT.pwhere Cfg.committed Option.none (some .notin) [(0, .val (.coll [.none]))])
      = .ok [[.int 1, .int 5], [.int 1, .int 6], [.int 2, .int 5], [.missing, .int 7],
             [.int 1, .int 5], [.int 1, .int 6], [.int 2, .int 5], [.missing, .int 7]] ∧
    whereS { columns := [0, 1], rows := [[.int 1, .int 5], [.int 1, .int 6], [.int 2, .int 5], [.missing, .int 7]] }
      [condOf (some .notin) (0, .val (.coll [.none]))] = .ok [[.int 1, .int 5], [.int 1, .int 6], [.int 2, .int 5]] ∧
    whereWF Cfg.committed exT (some .notin) [(0, .val (.coll [.none]))] = false ∧
    rowsOf (exT.pwhere Cfg.fixed Option.none (some .notin) [(0, .val (.coll [.none]))])
      = .ok [[.int 1, .int 5], [.int 1, .int 6], [.int 2, .int 5]] := by decide +kernel

/-- (in every tree) `> Missing`: the scan says `Missing > Missing`, the bisection does not -/
theorem where_missing_probe_counterexample :
    rowsOf (exT.pwhere Cfg.fixed Option.none Option.none [(0, .dict .gt (.scalar .missing))]) = .ok [] ∧
    whereS { columns := [0, 1], rows := [[.int 1, .int 5], [.int 1, .int 6], [.int 2, .int 5], [.missing, .int 7]] }
      [condOf Option.none (0, .dict .gt (.scalar .missing))] = .ok [[.missing, .int 7]] ∧
    whereWF Cfg.fixed exT Option.none [(0, .dict .gt (.scalar .missing))] = false := by decide +kernel

/-! ## `index` -/

/-
theorem index_spec_full (cfg : Cfg) (t : Table) (indx : List Nat) (R) : t.rows = .ok R →
    ∃ t' R', t.index cfg indx = .ok t' ∧ t'.rows = .ok R' ∧ R'.Perm R ∧ (R' in index order)
-- FALSE: `index('a','a')` alters rows in the pinned tree (P14), `index` with the column tuple the
-- table already carries returns at once even if rows were inserted since (P13, every tree), cells
-- that cannot be ordered make `sorted` raise, and `1`/`1.0` may change places between rows that
-- agree on an earlier index column (so `Perm` holds only up to `==`).  Hence `_partial` with `indexWF`.
-/

/-- **index reorders, and orders.**  For a well-formed call (`indexWF`: a table that owns its lists,
distinct index columns that differ from the current `_indexes`, cells of each index column
mutually comparable and not `None`) `Table.index` succeeds, keeps the columns, reports the
requested indexes, and the rows it shows afterwards are the rows before in the order `perm`
(a permutation): cell by cell equal up to Python's `==` (`1` and `1.0` may change places inside a
group of an earlier index column), exactly equal in every column that is not an index column; and
they are in non-decreasing lexicographic order of the index columns. -/
theorem index_spec_partial (cfg : Cfg) (t : Table) (indx : List Nat) (hwf : indexWF cfg t indx = true) :
    ∃ (t' : Table) (perm : List Nat) (R R' : List (List Cell)), t.index cfg indx = .ok t' ∧ t.rows = .ok R ∧ t'.rows = .ok R' ∧
      t'.columns = t.columns ∧ t'.indexes = effIndex cfg t indx ∧
      R'.length = R.length ∧ perm.Perm (List.range R.length) ∧
      (∀ i, i < R.length → (R'.getD i []).map Cell.key = (R.getD (perm.getD i 0) []).map Cell.key) ∧
      (∀ i, i < R.length → ∀ k, k < t.columns.length → t.columns.getD k 0 ∉ effIndex cfg t indx →
        (R'.getD i []).getD k .missing = (R.getD (perm.getD i 0) []).getD k .missing) ∧
      (∀ i j, i < j → j < R.length →
        lexLt (idxPositions t.columns (effIndex cfg t indx)) (R'.getD j []) (R'.getD i []) = false) :=
  index_spec_partial_aux cfg t indx hwf

/-- **index is stable**: rows that tie on every index column (the lexicographic comparison says
"not smaller" in both directions) keep the relative order they had before -/
theorem index_stable (cfg : Cfg) (t : Table) (indx : List Nat) (hwf : indexWF cfg t indx = true) :
    ∃ (t' : Table) (perm : List Nat) (R R' : List (List Cell)), t.index cfg indx = .ok t' ∧ t.rows = .ok R ∧ t'.rows = .ok R' ∧
      perm.Perm (List.range R.length) ∧
      (∀ i, i < R.length → (R'.getD i []).map Cell.key = (R.getD (perm.getD i 0) []).map Cell.key) ∧
      (∀ i j, i < j → j < R.length →
        lexLt (idxPositions t.columns (effIndex cfg t indx)) (R'.getD i []) (R'.getD j []) = false → perm.getD i 0 < perm.getD j 0) :=
  index_stable_aux cfg t indx hwf

/-- **index = the stable lexicographic sort** (`indexS`, the specification): up to Python's `==`
cell by cell, the rows after `index` are the rows before sorted stably by the index columns.
(Repeated column names are ignored by the repaired code: `effIndex`; in the pinned tree `indexWF`
excludes them, see `index_duplicate_columns_counterexample`.) -/
theorem index_eq_spec (cfg : Cfg) (t : Table) (indx : List Nat) (hwf : indexWF cfg t indx = true) :
    ∃ (t' : Table) (R R' : List (List Cell)), t.index cfg indx = .ok t' ∧ t.rows = .ok R ∧ t'.rows = .ok R' ∧
      R'.map (List.map Cell.key) = (indexS (idxPositions t.columns (effIndex cfg t indx)) R).map (List.map Cell.key) :=
  index_eq_spec_aux cfg t indx hwf

/-- rows (2,x) (1,y) (3,z) (1,w), not indexed -/
def exU : Table :=
  { columns := [0, 1], data := [(0, [.int 2, .int 1, .int 3, .int 1]), (1, [.str [120], .str [121], .str [122], .str [119]])],
    sel := .all, indexes := [] }

/-- the hypotheses are satisfiable: two index columns -/
example : indexWF Cfg.unfixed exU [0, 1] = true := by decide +kernel

/-- P14: `index('a','a')` in the pinned tree permutes column a twice: (2,x) (1,y) (3,z) (1,w) becomes
(1,y) (1,x) (2,z) (3,w) — three rows of the result were not in the table -/
theorem index_duplicate_columns_counterexample :
    rowsOf (exU.index Cfg.unfixed [0, 0]) = .ok [[.int 1, .str [121]], [.int 1, .str [120]], [.int 2, .str [122]], [.int 3, .str [119]]] ∧
    indexWF Cfg.unfixed exU [0, 0] = false ∧ indexWF Cfg.fixed exU [0, 0] = true ∧
    rowsOf (exU.index Cfg.fixed [0, 0]) = .ok [[.int 1, .str [121]], [.int 1, .str [119]], [.int 2, .str [120]], [.int 3, .str [122]]] := by
  decide +kernel

/-- P13 (every tree): `index('a')` on a table whose `_indexes` is already `('a',)` returns at once,
whatever order the rows are in -/
theorem index_noop_on_stale_counterexample :
    rowsOf (exStale.index Cfg.fixed [0]) = .ok [[.int 1], [.int 3], [.int 2], [.int 0]] ∧
    indexWF Cfg.fixed exStale [0] = false := by decide +kernel

/-! ## lohis, `groupby`, and chains of operations -/

/-- **lohis.**  On a well-formed table (or `where` result) whose rows are in index order
(`Indexed`), `_calc_lohis` succeeds and the segments recorded for the `j`-th index column are
consecutive and cover all rows (`segs`), rows inside a segment agree on the first `j` index columns
(`agree`), rows of different segments are strictly ordered by them (`strict`); from the second
column on no segment is empty, and the first column has the single segment `(0, len)`. -/
theorem lohis_correct (cfg : Cfg) (t : Table) (N : Nat) (hok : t.OK N) (hix : Indexed t N) (hne : t.indexes ≠ []) :
    ∃ lohis, t.calcLohis cfg = .ok lohis ∧
      ∀ j (hj : j < t.indexes.length), ∃ segs, dictGet lohis t.indexes[j] = .ok segs ∧
        StageInv (Kt t) (t.m N) (t.indexes.take j) (List.range (t.m N)) segs ∧ (0 < j → ∀ p ∈ segs, p.1 < p.2) ∧
        (j = 0 → segs = [(0, t.m N)]) :=
  lohis_correct' cfg t N hok hix hne

/-- the hypotheses `t.OK N` and `Indexed t N` are satisfiable (and decidable: `tableOKB`, `indexedB`):
the example table, and a two-row view of it -/
example : exT.OK 4 ∧ Indexed exT 4 := ⟨tableOKB_sound (by decide +kernel), indexedB_sound (by decide +kernel)⟩

example : Table.OK { exT with sel := .list [1, 3] } 4 ∧ Indexed { exT with sel := .list [1, 3] } 4 :=
  ⟨tableOKB_sound (by decide +kernel), indexedB_sound (by decide +kernel)⟩

/-- **groupby partitions exactly by the index prefix.**  `groupby(level, 'count')` on a table in
index order yields one group per segment `[lo,hi)`; the segments are consecutive and cover the rows
`0 … len`; all rows of a group agree (up to `==`) on the first `level` index columns; rows of
different groups are strictly ordered by those columns (so no two groups share a prefix); for
`level ≥ 1` no group is empty; the reported index is the prefix of the group's first row and the
count its size. -/
theorem groupby_partition (cfg : Cfg) (t : Table) (N : Nat) (hok : t.OK N) (hix : Indexed t N)
    (level : Nat) (hlev : level < t.indexes.length) :
    ∃ segs : List (Nat × Nat),
      t.groupby cfg level .count = .ok (segs.map (fun p =>
        GroupOut.cnt ((t.indexes.take level).map (fun d => cellAt (t.vcol d) p.1)) (p.2 - p.1))) ∧
      Segs segs 0 (t.m N) ∧
      (∀ d ∈ t.indexes.take level, ∀ p ∈ segs, ∀ i j, p.1 ≤ i → i < p.2 → p.1 ≤ j → j < p.2 → Kt t d i = Kt t d j) ∧
      (∀ p ∈ segs, ∀ i j, i < p.2 → p.2 ≤ j → j < t.m N → lexLtK (Kt t) (t.indexes.take level) i j = true) ∧
      (0 < level → ∀ p ∈ segs, p.1 < p.2) := by
  obtain ⟨segs, hs, hne, e⟩ := groupby_count_spec' cfg t N hok hix level hlev
  refine ⟨segs, e, hs.segs, ?_, ?_, hne⟩
  · intro d hd p hp i j a b c e'
    have hb := hs.segs.bounds p hp
    have := hs.agree d hd p hp i j a b c e'
    rwa [getD_range _ i (by omega), getD_range _ j (by omega)] at this
  · intro p hp i j a b c
    have := hs.strict p hp i j a b c
    rwa [getD_range _ i (by omega), getD_range _ j c] at this

/-- **index establishes index order** (so that everything above applies to what `index` returns) -/
theorem index_establishes_order (cfg : Cfg) (t : Table) (N : Nat) (hok : t.OK N) (hsel : t.sel = .all) (indx : List Nat)
    (hne : indx ≠ []) (hdata : t.data ≠ []) (hnd : (effIndex cfg t indx).Nodup) (hdiff : t.indexes ≠ effIndex cfg t indx)
    (hcols : ∀ d ∈ effIndex cfg t indx, IdxColOK t N d) :
    ∃ t', t.index cfg indx = .ok t' ∧ t'.OK N ∧ Indexed t' N :=
  index_indexed cfg t N hok hsel indx hne hdata hnd hdiff hcols

/-- **where on a table in index order** (what `index` returned, or a `where` result of such a table —
where-of-where): no hypothesis about lohis or sortedness is left, only the probes matter
(`KwOKIdx`: not `None`, comparable with the column, no repeated probes for `in` in a tree without
the P8 repair, no `Missing` probe under an order comparison, table not empty without the P12
repair, `<=`/`>=` on an unindexed column do not meet `Missing` without the P11 repair) and the
P10 condition `NoLeak`.  The result shows exactly the plain filter and is again well-formed and in
index order, so the theorem applies to it again. -/
theorem where_of_where (cfg : Cfg) (t : Table) (N : Nat) (hok : t.OK N) (hix : Indexed t N) (pos : Option Op)
    (kws : List (Nat × Arg)) (hne : kws ≠ []) (hkw : ∀ kw ∈ kws, KwOKIdx cfg t (t.m N) pos kw) (hleak : NoLeak cfg kws)
    (R rs : List (List Cell)) (hR : t.rows = .ok R)
    (hspec : whereS { columns := t.columns, rows := R } (kws.map (condOf pos)) = .ok rs) :
    ∃ t', t.pwhere cfg Option.none pos kws = .ok t' ∧ t'.rows = .ok rs ∧
      t'.columns = t.columns ∧ t'.indexes = t.indexes ∧ t'.OK N ∧ Indexed t' N :=
  where_indexed' cfg t N hok hix pos kws hne hkw hleak R rs hR hspec

/-- view of a view: the rows of a table seen through an increasing selection of row numbers are the
selected rows, whatever the table itself is a view of (`composeSel` = `View.__init__` on a `View`,
including the `_try_slice` shortcut) -/
theorem view_compose (t : Table) (N : Nat) (hok : t.OK N) (select : List Nat)
    (hinc : StrictInc select) (hlt : ∀ i ∈ select, i < t.m N) :
    ∃ sel', composeSel t.sel select = .ok sel' ∧ Table.OK { t with sel := sel' } N ∧
      ∀ k, k < select.length → Table.rowAt { t with sel := sel' } k = t.rowAt (select.getD k 0) := by
  obtain ⟨sel', e, hidx, hselok⟩ := composeSel_spec t.sel N hok.sel select hinc (fun i hi => by simpa [Table.m] using hlt i hi)
  exact ⟨sel', e, ⟨hok.len, hok.cols, hselok⟩, fun k hk => rowAt_view t N hok sel' select hidx hlt k hk⟩

/-! ## `insert` -/

/-- **insert(rows)** on a table that owns its lists and has no index (or in a tree without the insert
repair, where `_indexes` is simply kept - which is exactly why insert-after-index left a table that
claimed an order it did not have: P13): afterwards the table shows the old rows followed by the
inserted ones, unchanged.  For an indexed table in the repaired tree see `insert_eq_spec` and
`insert_keeps_index_order`. -/
theorem insert_rows (cfg : Cfg) (t : Table) (N : Nat) (hok : t.OK N) (hsel : t.sel = .all)
    (hnd : t.columns.Nodup) (hcne : t.columns ≠ []) (hkeys : ∀ p ∈ t.data, p.1 ∈ t.columns)
    (hni : cfg.resortInsert = false ∨ t.indexes = [])
    (r : List Cell) (rs : List (List Cell)) (hlen : ∀ x ∈ r :: rs, x.length = t.columns.length)
    (R : List (List Cell)) (hR : t.rows = .ok R) :
    ∃ t', t.insert cfg (.rows (r :: rs)) = .ok t' ∧ t'.rows = .ok (R ++ (r :: rs)) ∧
      t'.columns = t.columns ∧ t'.indexes = t.indexes ∧ t'.OK (N + (r :: rs).length) :=
  insert_rows_plain' cfg t N hok hsel hnd hcne hkeys hni r rs hlen R hR

/-- index, then insert: what the table shows and what `_indexes` says -/
def indexThenInsert (cfg : Cfg) : Except Err (List (List Cell)) × List Nat :=
  match ({ columns := [0], data := [(0, [.int 3, .int 1])], sel := .all, indexes := [] } : Table).index cfg [0] with
  | .ok t => (match t.insert cfg (.rows [[.int 2], [.int 0]]) with
              | .ok t' => (t'.rows, t'.indexes)
              | .error e => (.error e, []))
  | .error e => (.error e, [])

/-- P13 in one line of evaluation: index, insert, and the table is `exStale`; with
`fixes/C17-insert-keeps-index-order.diff` the rows are in index order again -/
theorem insert_after_index_counterexample :
    indexThenInsert Cfg.committed = (.ok [[.int 1], [.int 3], [.int 2], [.int 0]], [0]) ∧
    indexThenInsert Cfg.fixed = (.ok [[.int 0], [.int 1], [.int 2], [.int 3]], [0]) := by decide +kernel

/-! ## `insert` in all three shapes, and the refinement over histories -/

/-- **insert = `insertSpec`** for rows, dict rows and a column mapping, under the decidable `insertWF`:
the table owns its lists; rows are as long as the (distinct) columns; the value lists of a mapping
are equally long; new columns are appended in sorted order, old rows padded with `Missing` there,
new rows padded with `Missing` for the columns they do not mention (`insertS`).  A table without
index, or a tree without the insert repair: the rows afterwards are exactly `insertS` (last
conjunct).  An indexed table in the repaired tree (`insertWF` then asks that it is in index order
and that the cells of its index columns, new ones included, can be ordered and are not `None`): the
rows afterwards are the stable sort of `insertS` by the index columns, up to `==` cell by cell, and
the table is in index order (`Indexed`). -/
theorem insert_eq_spec (cfg : Cfg) (t : Table) (d : InsertData) (hwf : insertWF cfg t d = true) :
    ∃ t' R R', t.rows = .ok R ∧ t.insert cfg d = .ok t' ∧ t'.columns = (insertSpec cfg t.columns t.indexes R d).1 ∧
      t'.rows = .ok R' ∧ R'.map (List.map Cell.key) = (insertSpec cfg t.columns t.indexes R d).2.map (List.map Cell.key) ∧
      t'.indexes = t.indexes ∧ InsertOK t' (tableN t + d.size) ∧
      (cfg.resortInsert = true → t.indexes ≠ [] → Indexed t' (tableN t + d.size)) ∧
      ((cfg.resortInsert = false ∨ t.indexes = []) → R' = (insertS t.columns R d).2) :=
  insert_eq_spec' cfg t d hwf

/-- insert of a column mapping (first pair `q0`, all value lists as long as its list) -/
theorem insert_mapping_rows (cfg : Cfg) (t : Table) (N : Nat) (h : InsertOK t N)
    (hni : cfg.resortInsert = false ∨ t.indexes = []) (q0 : Nat × List Cell) (cs : List (Nat × List Cell))
    (hk : ∀ q ∈ q0 :: cs, q.2.length = q0.2.length)
    (hcne : t.columns ++ newColsOf t.columns ((q0 :: cs).map (·.1)) ≠ [])
    (R : List (List Cell)) (hR : t.rows = .ok R) :
    ∃ t', t.insert cfg (.cols (q0 :: cs)) = .ok t' ∧ t'.columns = (insertColsS t.columns R (q0 :: cs) q0.2.length).1 ∧
      t'.rows = .ok (insertColsS t.columns R (q0 :: cs) q0.2.length).2 ∧ t'.indexes = t.indexes ∧ InsertOK t' (N + q0.2.length) :=
  insert_mapping_plain' cfg t N h hni q0 cs hk hcne R hR

/-- insert of a sequence of dict rows: every dict becomes one row (`d.get(k, Missing)`) -/
theorem insert_dicts_rows (cfg : Cfg) (t : Table) (N : Nat) (h : InsertOK t N)
    (hni : cfg.resortInsert = false ∨ t.indexes = []) (d0 : List (Nat × Cell)) (ds : List (List (Nat × Cell)))
    (hpad : cfg.dictLen = true ∨ dictsToCols (d0 :: ds) ≠ [])
    (hcne : t.columns ++ newColsOf t.columns ((d0 :: ds).flatMap (fun d => d.map (·.1))) ≠ [])
    (R : List (List Cell)) (hR : t.rows = .ok R) :
    ∃ t', t.insert cfg (.dicts (d0 :: ds)) = .ok t' ∧ t'.columns = (insertDictsS t.columns R (d0 :: ds)).1 ∧
      t'.rows = .ok (insertDictsS t.columns R (d0 :: ds)).2 ∧ t'.indexes = t.indexes ∧ InsertOK t' (N + (d0 :: ds).length) :=
  insert_dicts_plain' cfg t N h hni d0 ds hpad hcne R hR

/-- the pinned tree pads one row for any number of key-less dicts (`dat_len = 1 if not data`) -/
theorem insert_empty_dicts_counterexample :
    rowsOf (exM.insert Cfg.unfixed (.dicts [[], []])) = .ok [[.int 1, .int 5], [.int 2, .missing], [.missing, .missing]] ∧
    (insertS [0, 1] [[.int 1, .int 5], [.int 2, .missing]] (.dicts [[], []])).2
      = [[.int 1, .int 5], [.int 2, .missing], [.missing, .missing], [.missing, .missing]] ∧
    insertWF Cfg.unfixed exM (.dicts [[], []]) = false ∧ insertWF Cfg.fixed exM (.dicts [[], []]) = true := by
  decide +kernel

/-- **refinement over arbitrary histories.**  For every sequence `ops` of `insert` (any shape),
`index`, `where` (keywords or a row predicate; each `where` continues with its result, so chains are
where-of-where), `copy`: if every operation meets its decidable side conditions when its turn comes
(`WFL` = `insertWF` / `indexWF` / `whereWF` + "the plain evaluation is defined", evaluated along the
run), then the code's run succeeds, the specification machine's run succeeds
(`runLS`: append the normalised rows / stable lexicographic sort / plain filter / nothing), and the
two final tables have the same columns, the same index columns, and the same rows in the same order
up to Python's `==` cell by cell (`AbsT.eqv`).  `where_eq_spec_partial`, `where_pred_eq_spec`,
`index_eq_spec`, `insert_eq_spec` are the one-operation instances.  Not covered: several live
objects sharing storage (`copy_shares_storage_counterexample`), `groupby` (an observation, see
`groupby_partition`), `match`. -/
theorem ops_refine (cfg : Cfg) (ops : List LOp) (t : Table) (a : AbsT) (hwf : WFL cfg t ops = true)
    (hrel : AbsT.eqv t.abs a) :
    ∃ t' a', runL cfg t ops = .ok t' ∧ runLS cfg a ops = .ok a' ∧ AbsT.eqv t'.abs a' :=
  ops_refine' cfg ops t a hwf hrel

/-- the side conditions are satisfiable along a history with every kind of operation: a table
without columns, dict rows, a column mapping, rows, index, where, where-of-where, copy, row predicate -/
example : WFL Cfg.fixed (Init.columns []).table
    [.insert (.dicts [[(0, .int 2), (1, .str [120])], [(0, .int 1)]]),
     .insert (.cols [(0, [.int 3, .int 1]), (2, [.flt (1/2), .int 7])]),
     .insert (.rows [[.int 2, .str [121], .missing]]),
     .index [0, 1],
     .whereK Option.none [(0, .dict .ge (.scalar (.int 2)))],
     .whereK (some .isin) [(1, .val (.coll [.str [120], .str [121]]))],
     .copy,
     .whereP (.cell 0 (.eqv (.int 2)))] = true := by decide +kernel

/-! ## The repaired `insert`: rows stay in index order, in every reachable state

`Inv t`: the table is well-formed, its index columns are columns, and the rows it shows are in
non-decreasing lexicographic order of the index columns, whose cells can be ordered and are not
`None` (`Indexed`; nothing to ask of a table without index).  The side conditions `opOK` / `OKL`
below speak about the data only - shapes, cells and probes that can be ordered, no `None`; unlike
`opWF` / `WFL` they neither ask that the segments `_calc_lohis` finds are sorted runs nor that
`index` names other columns than the current index. -/

/-- a table without index satisfies the invariant (every freshly made table) -/
theorem inv_init (t : Table) (hok : t.OK (tableN t)) (h : t.indexes = []) : Inv t :=
  inv_of_no_index t hok h

/-- **insert keeps the rows in index order** (`fixes/C17-insert-keeps-index-order.diff`): it looks at
the rows from the last old one on; still in order, nothing happens; out of order, the table is
sorted again (P13, P7 in `known/C17.json`) -/
theorem insert_keeps_index_order (cfg : Cfg) (hfix : cfg.resortInsert = true) (t : Table) (d : InsertData)
    (hinv : Inv t) (h : insertOK cfg t d = true) : ∃ t', t.insert cfg d = .ok t' ∧ Inv t' :=
  inv_insert cfg hfix t d hinv h

/-- **every operation keeps the invariant**: `insert` (any shape), `index`, `where` (keywords or row
predicate; the result is a view), `copy` -/
theorem inv_step (cfg : Cfg) (hfix : cfg.resortInsert = true) (t : Table) (op : LOp) (hinv : Inv t)
    (hok : opOK cfg t op = true) : ∃ t', stepL cfg t op = .ok t' ∧ Inv t' :=
  inv_step' cfg hfix t op hinv hok

/-- **the invariant holds in every reachable state** -/
theorem inv_reachable (cfg : Cfg) (hfix : cfg.resortInsert = true) (t0 : Table) (ops : List LOp) (hinv : Inv t0)
    (hok : OKL cfg t0 ops = true) : ∃ t, runL cfg t0 ops = .ok t ∧ Inv t :=
  inv_reachable' cfg hfix t0 ops hinv hok

/-- **refinement over arbitrary histories, repaired tree**: as `ops_refine`, with the data-only side
conditions `OKL` in place of `WFL`, from any table that satisfies the invariant; `index` by the
current index columns is covered (the rows are in that order already) -/
theorem ops_inv_refine (cfg : Cfg) (hfix : cfg.resortInsert = true) (ops : List LOp) (t : Table) (a : AbsT)
    (hinv : Inv t) (hok : OKL cfg t ops = true) (hrel : AbsT.eqv t.abs a) :
    ∃ t' a', runL cfg t ops = .ok t' ∧ runLS cfg a ops = .ok a' ∧ AbsT.eqv t'.abs a' ∧ Inv t' :=
  ops_inv_refine' cfg hfix ops t a hinv hok hrel

/-- **indexed query = full scan in every reachable state.**  `t` is whatever a history of inserts,
index calls, wheres and copies made of a table `t0` that satisfies the invariant (e.g. a new table);
a `where` with keywords on `t` returns exactly the rows the plain row-by-row evaluation keeps.
There is no hypothesis about the state of the index: `whereOK` asks the column to exist, the argument
to have the shape of its operator, probes of an indexed column to be orderable against its cells and
each other and not `None` / (under an order comparison) `Missing`, distinct for `in` unless P8 is
repaired, and `<=`/`>=` on an unindexed column not to meet `Missing` unless P11 is repaired. -/
theorem where_reachable_eq_scan (cfg : Cfg) (hfix : cfg.resortInsert = true) (t0 : Table) (ops : List LOp) (hinv : Inv t0)
    (hok : OKL cfg t0 ops = true) (t : Table) (hrun : runL cfg t0 ops = .ok t)
    (pos : Option Op) (kws : List (Nat × Arg)) (R rs : List (List Cell)) (hw : whereOK cfg t pos kws = true)
    (hR : t.rows = .ok R) (hspec : whereS { columns := t.columns, rows := R } (kws.map (condOf pos)) = .ok rs) :
    ∃ t', t.pwhere cfg Option.none pos kws = .ok t' ∧ t'.rows = .ok rs ∧
      t'.columns = t.columns ∧ t'.indexes = t.indexes :=
  where_reachable' cfg hfix t0 ops hinv hok t hrun pos kws R rs hw hR hspec

/-- the P13 history meets the data-only side conditions in the repaired tree (index, insert out of
order, index by the same column again, where on the indexed column), and does not meet `WFL` in the
committed tree -/
example : OKL Cfg.fixed (Init.columns [0]).table
    [.insert (.rows [[.int 3], [.int 1]]), .index [0], .insert (.rows [[.int 2], [.int 0]]), .index [0],
     .whereK Option.none [(0, .val (.scalar (.int 0)))]] = true ∧
  WFL Cfg.committed (Init.columns [0]).table
    [.insert (.rows [[.int 3], [.int 1]]), .index [0], .insert (.rows [[.int 2], [.int 0]]),
     .whereK Option.none [(0, .val (.scalar (.int 0)))]] = false := by decide +kernel

/-! ## `match` -/

/-- **match on a homogeneous column** (all cells strings, or all cells numbers; pattern a number or a
metacharacter-free string): the rows `_compare` selects are exactly those whose cell matches under
the cell-by-cell reading `matchCell`.  The hypothesis is forced: see the two counterexamples. -/
theorem where_match_eq_spec (cfg : Cfg) (col : List Cell) (arg : Cell) (harg : isNumber arg = true ∨ isStr arg = true)
    (hh : homogB col = true) (hne : cfg.matchEmpty = true ∨ col ≠ []) :
    compareScan cfg col .mtch (.scalar arg) = scanFilter 0 col (fun c => .ok (matchCell arg c)) :=
  where_match_eq_spec' cfg col arg harg hh hne

/-- a string column with a `Missing` cell (ragged insert): `match` raises `TypeError`; not with
`fixes/C17-match-per-cell.diff` -/
theorem where_match_missing_counterexample :
    compareScan Cfg.committed [.str [120], .missing] .mtch (.scalar (.str [120])) = .error .typeError ∧
    scanFilter 0 [.str [120], .missing] (fun c => .ok (matchCell (.str [120]) c)) = .ok [0] ∧
    homogB [.str [120], .missing] = false ∧
    compareScan Cfg.fixed [.str [120], .missing] .mtch (.scalar (.str [120])) = .ok [0] := by decide +kernel

/-- the column's first cell decides how every cell is compared: with `Missing` first the cells are
matched as `str(cell)`, and `str(Missing) = 'None'` contains the pattern `on`; not with
`fixes/C17-match-per-cell.diff` -/
theorem where_match_first_cell_counterexample :
    compareScan Cfg.committed [.missing, .str [111, 110]] .mtch (.scalar (.str [111, 110])) = .ok [0, 1] ∧
    scanFilter 0 [.missing, .str [111, 110]] (fun c => .ok (matchCell (.str [111, 110]) c)) = .ok [1] ∧
    homogB [.missing, .str [111, 110]] = false ∧
    compareScan Cfg.fixed [.missing, .str [111, 110]] .mtch (.scalar (.str [111, 110])) = .ok [1] := by decide +kernel

/-- **match, repaired**: with the per-cell decision `match` is `matchCell` on every column, mixed or not -/
theorem where_match_per_cell (cfg : Cfg) (hfix : cfg.matchPerCell = true) (col : List Cell) (arg : Cell) :
    compareScan cfg col .mtch (.scalar arg) = scanFilter 0 col (fun c => .ok (matchCell arg c)) :=
  where_match_per_cell' cfg hfix col arg

/-- the hypotheses are satisfiable: `'x12y'` contains the number 12 between non-digits, `'121'` does not -/
example : compareScan Cfg.unfixed [.str [120, 49, 50, 121], .str [49, 50, 49]] .mtch (.scalar (.int 12)) = .ok [0] := by
  decide +kernel

/-- equal numbers written differently are different patterns (`f'{arg}'` of the probe of the call,
the dot unescaped): `match 1` finds `'1'`, `'v1'`, `'1.0'`, `'1x0'`; `match 1.0` finds `'1.0'`, `'1x0'` and
neither `'1'` nor `'v1'` - whatever was asked before -/
theorem match_probe_spelling_example :
    [[49], [118, 49], [49, 46, 48], [49, 120, 48], [49, 49]].map (fun s => matchCell (.int 1) (.str s)) = [true, true, true, true, false] ∧
    [[49], [118, 49], [49, 46, 48], [49, 120, 48], [49, 49]].map (fun s => matchCell (.flt 1) (.str s)) = [false, false, true, true, false] ∧
    matchCell (.flt 1) (.int 1) = true ∧ matchCell (.int 1) (.flt 1) = true := by decide +kernel

/-! ## `copy` and shared storage -/

/-- **queries through one object never change another.**  Every table object of a run shows the
column lists of the first one (`copy` keeps the very dict, `where` a `View` of it); `where`,
`groupby`, `copy` and listing, applied to any of them, leave every existing object exactly as it was. -/
theorem copy_independent (cfg : Cfg) (ts : List (Option Table)) (op : TOp) (hop : op.mutates = false)
    (i : Nat) (hi : i < ts.length) : (step cfg ts op).1[i]? = ts[i]? :=
  step_query_preserves cfg ts op hop i hi

/-- (every tree) `insert` / `index` are *not* independent: `t=…index('a'); c=t.copy(); c.index('b')`
reorders what `t` shows while `t` keeps `_indexes=('a',)`, and `c.insert(..)` adds the rows to `t`
(recorded findings C17-F19/F20; `test_copy` pins the sharing: `assertIs(table._data, tcopy._data)`).
`run` = initial table, insert 4 rows, index a, copy, index the copy by b, look at the original. -/
theorem copy_shares_storage_counterexample :
    (run Cfg.fixed (.columns [0, 1])
      [.insert 0 (.rows [[.int 1, .str [122]], [.int 2, .str [120]], [.int 1, .str [121]], [.int 3, .str [119]]]),
       .index 0 [0], .copy 0, .index 1 [1], .peek 0]).getLast? =
      some (.table [[.int 3, .str [119]], [.int 2, .str [120]], [.int 1, .str [121]], [.int 1, .str [122]]] [0, 1] [0]) := by
  decide +kernel


/-! ## Phase 4: several live objects (views / copies of one storage), each with its own `_lohis` cache -/

/-- **one step of the machine with caches keeps the invariant of every fresh live object**: `stepC` runs
`insert` / `index` / `where` / `groupby` / `copy` / listing through ANY of the live objects; each object
carries its own memoised `_lohis` (`None` / `{}` / dict; `where` and `groupby` fill it, `insert` resets it,
`index` recomputes it, `copy` hands it on). `Good cfg o`: if no OTHER object has mutated the shared lists since
`o` was made (`o.fresh`), `o.t` satisfies `Inv` and a truthy cache equals `_calc_lohis()` of the table now.
Operations on stale objects need no side condition and claim nothing (findings C17-F19/F20). -/
theorem multi_inv_step (cfg : Cfg) (hfix : cfg.resortInsert = true) (os : List (Option CObj)) (op : TOp)
    (hg : AllGood cfg os) (hok : opOKC cfg os op = true) : AllGood cfg (stepC cfg os op).1 :=
  multi_inv_step' cfg hfix os op hg hok

/-- … hence in every state any interleaved history over several objects reaches -/
theorem multi_inv_reachable (cfg : Cfg) (hfix : cfg.resortInsert = true) (os : List (Option CObj)) (ops : List TOp)
    (hg : AllGood cfg os) (hok : OKC cfg os ops = true) : AllGood cfg (finalC cfg os ops) :=
  multi_inv_reachable' cfg hfix os ops hg hok

/-- **indexed query = full scan for every live object after every history over several objects**: start
from one table, run any interleaving of inserts / index / where / where-of-where / groupby / copy through
any of the objects made on the way (`OKC`: the data-only side conditions of `opOK`, asked only of operations
on fresh objects). Then every live object `o` that no other object has mutated under answers `where(**kws)`
— computed with the lohis it has CACHED (`effLohis`, `pwhereWith`) — with exactly the rows of the plain
row-by-row filter of what it shows. -/
theorem where_every_live_object (cfg : Cfg) (hfix : cfg.resortInsert = true) (init : Init) (ops : List TOp)
    (hinv : Inv init.table) (hok : OKC cfg (initC init) ops = true)
    (o : CObj) (hlive : some o ∈ finalC cfg (initC init) ops) (hfresh : o.fresh = true)
    (pos : Option Op) (kws : List (Nat × Arg)) (R rs : List (List Cell)) (hw : whereOK cfg o.t pos kws = true)
    (hR : o.t.rows = .ok R) (hspec : whereS { columns := o.t.columns, rows := R } (kws.map (condOf pos)) = .ok rs) :
    ∃ l t', effLohis cfg o.t o.cache = .ok l ∧ o.t.pwhereWith cfg l pos kws = .ok t' ∧ t'.rows = .ok rs ∧
      t'.columns = o.t.columns ∧ t'.indexes = o.t.indexes :=
  where_every_live_object' cfg hfix init ops hinv hok o hlive hfresh pos kws R rs hw hR hspec

/-- a history over three objects (table, its copy, a view of the copy; insert through the copy, queries
through all) meets `OKC`, and the copy and the view are fresh at the end while the original is stale -/
example : OKC Cfg.fixed (initC (.columns [0, 1]))
    [.insert 0 (.rows [[.int 2, .str [120]], [.int 1, .str [121]]]), .index 0 [0], .whr 0 Option.none Option.none [(0, .val (.scalar (.int 1)))],
     .copy 0, .insert 2 (.rows [[.int 0, .str [122]]]), .whr 2 Option.none (some .le) [(0, .val (.scalar (.int 1)))],
     .groupby 2 0 .count, .whr 3 Option.none Option.none [(1, .val (.scalar (.str [122])))]] = true ∧
    (finalC Cfg.fixed (initC (.columns [0, 1]))
    [.insert 0 (.rows [[.int 2, .str [120]], [.int 1, .str [121]]]), .index 0 [0], .whr 0 Option.none Option.none [(0, .val (.scalar (.int 1)))],
     .copy 0, .insert 2 (.rows [[.int 0, .str [122]]]), .whr 2 Option.none (some .le) [(0, .val (.scalar (.int 1)))],
     .groupby 2 0 .count, .whr 3 Option.none Option.none [(1, .val (.scalar (.str [122])))]]).map (fun o => o.map (·.fresh)) =
      [some false, some false, some true, some true, some true] := by decide +kernel

/-- queries through a coherent cache are the queries of the cache-free model every earlier theorem is about -/
theorem cached_query_eq (cfg : Cfg) (t : Table) (c : Option Lohis) (hc : Coh cfg t c) (l : Lohis)
    (hl : effLohis cfg t c = .ok l) (pos : Option Op) (kws : List (Nat × Arg)) (level : Nat) (select : Select) :
    t.pwhereWith cfg l pos kws = t.pwhere cfg Option.none pos kws ∧ t.groupbyWith l level select = t.groupby cfg level select :=
  cached_query_eq' cfg t c hc l hl pos kws level select

/-- (every tree) a stale cache answers wrongly — C17-F20 inside the machine with caches: the copy inserts
`[0]`,`[5]`... here: `t` indexed by a, queried (cache filled), copy, insert through the copy; the original's
cached lohis do not cover the new row, `t.where(a=5)` finds nothing although `t` shows the row -/
theorem stale_cache_counterexample :
    (runC Cfg.fixed (.columns [0])
      [.insert 0 (.rows [[.int 1], [.int 2]]), .index 0 [0], .copy 0, .insert 1 (.rows [[.int 5]]),
       .peek 0, .whr 0 Option.none Option.none [(0, .val (.scalar (.int 5)))]]).drop 5 =
      [.table [[.int 1], [.int 2], [.int 5]] [0] [0], .table [] [0] [0]] := by decide +kernel

/-! ## Phase 4: the operator table is the source's -/

/-- **translator obligation**: the operator set of `where(comparison=Literal[…])`, the keys `_compare`
unpacks from `{op: value}`, the operators `where` never bisects (`match`), and for every operator block of
`_compare` the `my_bisect_left/right` calls of its bisect branch, the cell comparison of its scan branch
and the `c is not None` guard — as extracted from coba/results/core.py by `pre_build` (Python `ast`) into
`Generated/C17Ops.lean` on every run — are the model's operator table. -/
theorem ops_table_eq_source :
    Coba.Generated.C17.extracted = true ∧
    Coba.Generated.C17.whereLiteral = Op.all.map Op.sym ∧
    Coba.Generated.C17.unpackKeys = Op.all.map Op.sym ∧
    Coba.Generated.C17.noBisectOps = [Op.sym .mtch] ∧
    Coba.Generated.C17.compareTable = opTable :=
  ops_table_eq_source'

/-- the bisect calls `opTable` lists for `<`, `<=`, `>=`, `>` are the ones the model's `_compare` makes -/
theorem opTable_bisect_calls (cfg : Cfg) (s : Seq) (lo hi : Nat) (v : Cell) :
    compareBisect cfg s lo hi .lt (.scalar v) = (myBisectLeft cfg s v lo hi).map (fun l => [(lo, l)]) ∧
    compareBisect cfg s lo hi .le (.scalar v) = (myBisectRight cfg s v lo hi).map (fun h => [(lo, h)]) ∧
    compareBisect cfg s lo hi .ge (.scalar v) = (myBisectLeft cfg s v lo hi).map (fun l => [(l, hi)]) ∧
    compareBisect cfg s lo hi .gt (.scalar v) = (myBisectRight cfg s v lo hi).map (fun h => [(h, hi)]) :=
  opTable_bisect_calls' cfg s lo hi v


/-! ## Phase 4 (continued): the comparison `sorted()` and the bisection use -/

/-- **mixed-class TypeError, exactly**: Python's `a < b` on cells raises iff neither side is `Missing` and the
two are not both numbers (int / float together) or both strings (`None` is comparable with nothing, not even itself) -/
theorem pyLt_raises_iff (a b : Cell) :
    pyLt a b = .error .typeError ↔
      (a.key ≠ .missing ∧ b.key ≠ .missing ∧ ¬ (a.key.rank = b.key.rank ∧ a.key.rank ≤ 1)) :=
  pyLt_raises_iff' a b

/-- **on each comparable class `<` never raises and is a strict total preorder up to `==`**: irreflexive, transitive,
and two cells neither of which is smaller than the other are `==` -/
theorem pyLt_class_order (a b c : Cell) (hab : a.key.rank = b.key.rank) (hbc : b.key.rank = c.key.rank) (hcl : a.key.rank ≤ 1) :
    pyLt a a = .ok false ∧
    (pyLt a b = .ok true → pyLt b c = .ok true → pyLt a c = .ok true) ∧
    (pyLt a b = .ok false → pyLt b a = .ok false → pyEq a b = true) ∧
    (∃ r, pyLt a b = .ok r) :=
  pyLt_class_order' a b c hab hbc hcl

/-- the hypotheses are met by `1`, `1.0`, `2` (one class) -/
example : (Cell.int 1).key.rank = (Cell.flt 1).key.rank ∧ (Cell.flt 1).key.rank = (Cell.int 2).key.rank ∧ (Cell.int 1).key.rank ≤ 1 := by decide


/-! ## Phase 5: `sorted()` is no longer an assumption -/

/-- **`sorted(vs)` as a comparison sort**: a stable insertion sort that only ever asks Python's raising `<` (`pyLt`; a `TypeError`
of any comparison it makes aborts the sort) returns, for EVERY list of cells (`Missing` included), exactly what the model's
`pySorted` says: `TypeError` iff two members at different places are incomparable, otherwise the stable arrangement. -/
theorem sorted_comparison_sort_eq (vs : List Cell) : pySortedE vs = pySorted vs :=
  pySortedE_eq' vs

/-- the same for `sorted(rows, key=k)` on row numbers (what `index` and `_in_index_order` call) -/
theorem sortedBy_comparison_sort_eq (k : Nat → Cell) (xs : List Nat) : pySortedByE k xs = pySortedBy k xs :=
  pySortedByE_eq' k xs

/-- **TypeError iff two members are incomparable**: the comparison sort raises exactly when some `a` before some `b`
in the list has `a < b` raise (by `pyLt_raises_iff`: neither is `Missing` and they are not both numbers or both strings) -/
theorem sorted_raises_iff (vs : List Cell) :
    pySortedE vs = .error .typeError ↔ ¬ vs.Pairwise (fun a b => ∃ r, pyLt a b = .ok r) :=
  sorted_raises_iff' vs

/-- the only error a sort can end with is the `TypeError` of a comparison -/
theorem sorted_error_is_typeError (vs : List Cell) (e : Err) (h : pySortedE vs = .error e) : e = .typeError :=
  sortE_err (fun c : Cell => c) vs e h

/-- both branches occur: `[2, Missing, 1.0, 1]` sorts stably to `[1.0, 1, 2, Missing]`; `[1, Missing, 'a']` raises although the two
incomparable members are never neighbours; `[None]` sorts, `[None, None]` raises -/
example : pySortedE [.int 2, .missing, .flt 1, .int 1] = .ok [.flt 1, .int 1, .int 2, .missing] ∧
    pySortedE [.int 1, .missing, .str [97]] = .error .typeError ∧
    pySortedE [.none] = .ok [.none] ∧ pySortedE [.none, .none] = .error .typeError := by decide


/-! ## Phase 5: `View` objects observed separately -/

/-- **`len`, `to_dicts` and column access of any well-formed table or view refine the `Sel` model**: `len(t)` is the number of selected rows,
`t.to_dicts()` is, row by row, the columns zipped with the row the table shows (`rowAt`, the same rows `list(t)` gives: `Table.OK.rows_eq`), and `t[c]` is a
`list` / `SliceView` / `ListView` according to the selection, of that length, listing exactly the selected cells of the stored column, first cell included -/
theorem view_observables (t : Table) (N : Nat) (hok : t.OK N) (hne : t.columns ≠ []) :
    t.len = .ok (t.m N) ∧
    t.toDicts = .ok ((List.range (t.m N)).map (fun i => t.columns.zip (t.rowAt i))) ∧
    ∀ c ∈ t.columns, ∃ o, t.colObs c = .ok o ∧ o.kind = t.sel.kind ∧ o.len = t.m N ∧ o.items = .ok (t.vcol c) ∧
      (0 < t.m N → o.first = .ok (cellAt (t.vcol c) 0)) :=
  view_observables' t N hok hne

/-- **view of a view** (what `where` on a where-result builds, `_try_slice` included): through an increasing selection of row numbers of ANY table or view,
`len` is the number of selected rows and `to_dicts` gives exactly the selected rows' dicts of the parent, in order -/
theorem view_of_view_observables (t : Table) (N : Nat) (hok : t.OK N) (hne : t.columns ≠ []) (select : List Nat)
    (hinc : StrictInc select) (hlt : ∀ i ∈ select, i < t.m N) :
    ∃ sel', composeSel t.sel select = .ok sel' ∧
      Table.len { t with sel := sel' } = .ok select.length ∧
      Table.toDicts { t with sel := sel' } = .ok (select.map (fun i => t.columns.zip (t.rowAt i))) :=
  view_of_view_observables' t N hok hne select hinc hlt

/-- a ListView of a SliceView: rows 1 and 3 of the slice `[1,5)` of a five-row table are stored rows 2 and 4 -/
example : (composeSel (.slice 1 5) [1, 3] = .ok (.list [2, 4])) ∧ (composeSel (.slice 1 5) [1, 2] = .ok (.slice 2 4)) ∧
    Table.toDicts { columns := [0], data := [(0, [.int 5, .int 6, .int 7, .int 8, .int 9])], sel := .list [2, 4], indexes := [] }
      = .ok [[(0, .int 7)], [(0, .int 9)]] := by decide


/-! ## Phase 6: the sort calls of `class Table`, tied to the source -/

/-- **translator obligation**: every `sorted(...)` / in-place `.sort(...)` call inside `class Table` — the method it
stands in, what it sorts, its `key=`, and whether `reverse=` or anything else is given — as extracted from
coba/results/core.py by `pre_build` (Python `ast`) into `Generated/C17Sorts.lean` on every run, is the list of
sorts the model makes (`sortSitesModel`): `insert` (new column names), `_in_index_order` (last index column of
the new rows), `index` (a segment of row numbers by the cell of the current column), `where` (the row numbers
of several keywords), `_compare` `in` and `!in` (the probes); all ascending, no other key, none in place. -/
theorem sort_sites_eq_source :
    Coba.Generated.C17.sortSitesExtracted = true ∧
    Coba.Generated.C17.sortSites = sortSitesModel :=
  sort_sites_eq_source'

/-- at those sites the model calls the ascending `pySorted` / `pySortedBy` with exactly that key — which by
`sorted_comparison_sort_eq` / `sortedBy_comparison_sort_eq` is the comparison sort with Python's raising `<` -/
theorem sort_sites_model_calls (cfg : Cfg) (s : Seq) (lo hi : Nat) (vs : List Cell) (c : List Cell)
    (k : Nat → Cell) (rest : List (Nat × Nat)) (perm : List Nat) :
    (sortedFrom c lo hi = match pySortedBy (cellAt c) (List.range' lo (hi - lo)) with
        | .error _ => .cannot
        | .ok p => if p = List.range' lo (hi - lo) then .le else .gt) ∧
    (sortSegments k ((lo, hi) :: rest) perm =
        (pySortedBy k ((perm.drop lo).take (hi - lo))).bind
          (fun seg => sortSegments k rest (perm.take lo ++ seg ++ perm.drop hi))) ∧
    (compareBisect cfg s lo hi .isin (.coll vs) =
        (pySorted vs).bind (fun vs0 =>
          (if cfg.dedupIn then dedupAdj vs0 else vs0).mapM (fun v => do
            let l ← myBisectLeft cfg s v lo hi; let h ← myBisectRight cfg s v lo hi; pure (l, h)))) ∧
    (compareBisect cfg s lo hi .notin (.coll vs) =
        (pySorted vs).bind (fun vs' =>
          (notinPairs cfg vs').mapM (fun (p : Option Cell × Option Cell) => do
            let l ← match p.1 with | Option.none => pure lo | some v0 => myBisectRight cfg s v0 lo hi
            let h ← match p.2 with | Option.none => pure hi | some v1 => myBisectLeft cfg s v1 lo hi
            pure (l, h)))) :=
  sort_sites_model_calls' cfg s lo hi vs c k rest perm


/-! ## Phase 6: finding C17-F21 — a `None` cell next to `Missing` cells in an index column -/

/-- `Table(columns=[0,1]).index(0,1).insert([[None,2],[Missing,1]])` -/
def insertNoneMissing (cfg : Cfg) : Except Err Table :=
  (({ columns := [0, 1], data := [(0, []), (1, [])], sel := .all, indexes := [] } : Table).index cfg [0, 1]).bind
    (fun t => t.insert cfg (.rows [[.none, .int 2], [.missing, .int 1]]))

/-- what that table claims as its index, what it shows, and what `where(c=1)` on it returns -/
def insertNoneMissingObs (cfg : Cfg) : List Nat × Except Err (List (List Cell)) × Except Err (List (List Cell)) :=
  match insertNoneMissing cfg with
  | .ok t => (t.indexes, t.rows, rowsOf (t.pwhere cfg Option.none Option.none [(1, .val (.scalar (.int 1)))]))
  | .error e => ([], .error e, .error e)

/-- **the hypothesis "no `None` in an index column" (`insertOK` / `Indexed`) of `insert_keeps_index_order`,
`where_reachable_eq_scan` is forced, also in the tree with every repair** (C17-F21): `_in_index_order` judges the new
rows with `<` only and `None < Missing` is `True` (`MissingType.__gt__`), so the index `(0,1)` is kept with the rows
`(None,2)`, `(Missing,1)`; `None == Missing` puts both into one group of column 0, inside which column 1 is not
sorted, and the bisecting `where(c=1)` returns both rows where the plain filter keeps only `(Missing,1)`.
Replayed on the real code by the known case C17-F21. -/
theorem insert_none_next_to_missing_counterexample :
    insertNoneMissingObs Cfg.fixed
      = ([0, 1], .ok [[.none, .int 2], [.missing, .int 1]], .ok [[.none, .int 2], [.missing, .int 1]]) ∧
    whereS { columns := [0, 1], rows := [[.none, .int 2], [.missing, .int 1]] }
      [condOf Option.none (1, .val (.scalar (.int 1)))] = .ok [[.missing, .int 1]] ∧
    insertOK Cfg.fixed { columns := [0, 1], data := [(0, []), (1, [])], sel := .all, indexes := [0, 1] }
      (.rows [[.none, .int 2], [.missing, .int 1]]) = false := by decide +kernel

end Coba.C17
