/-
C17 — Indexed table queries return exactly what a full scan would.  (work in progress)
-/
import CobaVerif.Lemmas.C17

namespace Coba.C17

theorem placeholder : True := trivial

end Coba.C17
