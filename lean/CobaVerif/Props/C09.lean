/-
C09 — Ordering and selection filters keep exactly the interactions they promise.
Property theorems only (helper lemmas live in `Lemmas/C09.lean`).  Everything is stated over an
arbitrary element type `α` (interactions are opaque) and arbitrary accessors.
-/
import CobaVerif.Lemmas.C09
import CobaVerif.Generated.C09Shortcuts

namespace Coba.C09

/-! ### Shuffle, Riffle: a permutation fully determined by the seed -/

/-- `pipes.Shuffle`: the output is a permutation of the input — every seed state, every list -/
theorem shuffle_perm {α} (s : Nat) (xs : List α) : (pShuffle s xs).Perm xs := pShuffle_perm' s xs

/-- `environments.Shuffle` (plain or logged first interaction): a permutation of the input -/
theorem env_shuffle_perm {α} (isLogged : α → Bool) (sPlain sLogged : Nat) (xs : List α) :
    (eShuffle isLogged sPlain sLogged xs).Perm xs := eShuffle_perm' isLogged sPlain sLogged xs

/-- determined by the seed: *which* rearrangement is applied depends on the seed state and the
length only, never on what the interactions contain (the filter commutes with every relabelling
`f` of the elements).  The model is a function, so equal seeds/inputs give equal outputs. -/
theorem shuffle_det {α β} (f : α → β) (s : Nat) (xs : List α) :
    pShuffle s (xs.map f) = (pShuffle s xs).map f := pShuffle_map' f s xs

/-- `Riffle(spacing, seed)`: a permutation of the input, for every spacing and seed -/
theorem riffle_perm {α} (spacing s : Nat) (xs : List α) : (riffle spacing s xs).Perm xs :=
  riffle_perm' spacing s xs

theorem riffle_det {α β} (f : α → β) (spacing s : Nat) (xs : List α) :
    riffle spacing s (xs.map f) = (riffle spacing s xs).map f := riffle_map' f spacing s xs

/-! ### Sort: the stable ordering by the chosen context keys -/

/-- the order `sorted` establishes on key tuples is a total preorder -/
theorem key_order_total (a b : Key) : keyLe a b = true ∨ keyLe b a = true := keyLe_total' a b
theorem key_order_trans (a b c : Key) (h1 : keyLe a b = true) (h2 : keyLe b c = true) :
    keyLe a c = true := keyLe_trans' a b c h1 h2

/-- `Sort(*keys)`: when every interaction has the chosen keys (`kf` = its key tuple) the filter
succeeds and its output is a permutation of the input, ordered by the key tuples, and *stable*:
two interactions `a` before `b` in the input with `key a ≤ key b` are in that order in the output -/
theorem sort_stable_sorted_perm {α} (hasCtx : α → Bool) (ctx : α → Ctx) (keys : List Val)
    (kf : α → Key) (x : α) (xs : List α) (hc : hasCtx x = true)
    (hk : ∀ a ∈ x :: xs, sortKey keys (ctx x).isSparse (ctx a) = .ok (kf a)) :
    ∃ out, sortF hasCtx ctx keys (x :: xs) = .ok out ∧ out.Perm (x :: xs) ∧
      out.Pairwise (fun a b => keyLe (kf a) (kf b) = true) ∧
      (∀ a b, keyLe (kf a) (kf b) = true → [a, b].Sublist (x :: xs) → [a, b].Sublist out) :=
  sort_spec' hasCtx ctx keys kf x xs hc hk

/-- stability, the usual way: the interactions sharing one key tuple `k` come out in exactly
their input order -/
theorem sort_stable_classes {α} (hasCtx : α → Bool) (ctx : α → Ctx) (keys : List Val)
    (kf : α → Key) (x : α) (xs : List α) (hc : hasCtx x = true)
    (hk : ∀ a ∈ x :: xs, sortKey keys (ctx x).isSparse (ctx a) = .ok (kf a)) (k : Key) :
    ∃ out, sortF hasCtx ctx keys (x :: xs) = .ok out ∧
      out.filter (fun a => decide (kf a = k)) = (x :: xs).filter (fun a => decide (kf a = k)) :=
  sort_class' hasCtx ctx keys kf x xs hc hk k

/-- whatever `Sort` returns (also when interactions have no context and are passed through) is a
permutation of its input; the empty input gives the empty output -/
theorem sort_perm {α} (hasCtx : α → Bool) (ctx : α → Ctx) (keys : List Val) (xs out : List α)
    (h : sortF hasCtx ctx keys xs = .ok out) : out.Perm xs := sortF_perm' hasCtx ctx keys xs out h

theorem sort_no_context_passthrough {α} (hasCtx : α → Bool) (ctx : α → Ctx) (keys : List Val)
    (x : α) (xs : List α) (hc : hasCtx x = false) : sortF hasCtx ctx keys (x :: xs) = .ok (x :: xs) :=
  sort_passthrough' hasCtx ctx keys x xs hc

/-- the hypotheses of `sort_stable_sorted_perm` are satisfiable: dense contexts sorted on index 0 -/
example : sortF (fun _ => true) (fun (n : Nat) => Ctx.dense [.num (3 - n), .str [97]]) [.num 0] [0, 1, 2]
    = .ok [2, 1, 0] := by decide +kernel

/-! ### Take, Slice -/

/-- `Take(count, strict)` is the prefix the property promises, for every count (incl. `None`,
0, more than the length) and both modes -/
theorem take_spec {α} (count : Option Nat) (strict : Bool) (xs : List α) :
    take count strict xs = takeSpec count strict xs := take_eq_spec' count strict xs

/-- non-strict: exactly the first `min n N` interactions -/
theorem take_prefix {α} (n : Nat) (xs : List α) :
    take (some n) false xs = xs.take n ∧ (take (some n) false xs).length = min n xs.length :=
  take_prefix' n xs

/-- strict: all `n` or nothing -/
theorem take_strict {α} (n : Nat) (xs : List α) :
    take (some n) true xs = (if n ≤ xs.length then xs.take n else []) ∧
    ((take (some n) true xs).length = n ∨ take (some n) true xs = []) := take_strict' n xs

/-- `Slice(start, stop, step)` keeps exactly the interactions at the indices
`start ≤ i < stop`, `step ∣ i - start`, in order — all `start`/`stop` incl. `None`, all steps ≥ 1 -/
theorem slice_spec {α} (start stop : Option Nat) (step : Nat) (hstep : 0 < step) (xs : List α) :
    slice start stop step xs = sliceSpec start stop step xs := slice_eq_spec' start stop step hstep xs

example : slice (some 1) (some 6) 2 [10, 11, 12, 13, 14, 15, 16] = [11, 13, 15] := by decide

/-! ### Reservoir (for EVERY sequence of skip counts / slots the float code could produce) -/

/-- the sample has the promised size: `min(n,N)`; `None`: everything; strict: `n` or nothing -/
theorem reservoir_size {α} (count : Option Nat) (strict : Bool) (s : Nat) (steps : List Step)
    (xs out : List α) (h : reservoir count strict s steps xs = .ok out) :
    out.length = reservoirSize count strict xs.length := (reservoir_spec' count strict s steps xs out h).2

/-- the sample is made of input interactions taken at *distinct positions*: it is a permutation
of a sublist of the input (`Subperm`) -/
theorem reservoir_sub {α} (count : Option Nat) (strict : Bool) (s : Nat) (steps : List Step)
    (xs out : List α) (h : reservoir count strict s steps xs = .ok out) : out.Subperm xs :=
  (reservoir_spec' count strict s steps xs out h).1

/-- in particular: distinct interactions in, distinct interactions out (run it on positions) -/
theorem reservoir_positions_nodup {α} (count : Option Nat) (strict : Bool) (s : Nat) (steps : List Step)
    (xs out : List α) (h : reservoir count strict s steps xs = .ok out) (hn : xs.Nodup) : out.Nodup :=
  subperm_nodup (reservoir_spec' count strict s steps xs out h).1 hn

/-- strict: exactly `n` or nothing -/
theorem reservoir_strict {α} (n s : Nat) (steps : List Step) (xs out : List α)
    (h : reservoir (some n) true s steps xs = .ok out) : out.length = n ∨ out = [] :=
  reservoir_strict' n s steps xs out h

/-- no exception, provided no loop iteration's float computation raises (and the slots are inside
the reservoir); `steps` only has to be longer than the input.
The full statement (no hypothesis on the steps) is a statement about IEEE `log`/`pow` and is not
modelled: see notes/C09.md (`W` underflow). -/
theorem reservoir_total_partial {α} (count : Option Nat) (strict : Bool) (s : Nat) (steps : List Step)
    (xs : List α) (hs : ∀ n, count = some n → ∀ st ∈ steps, st.okFor n = true)
    (hl : xs.length < steps.length) : ∃ out, reservoir count strict s steps xs = .ok out :=
  reservoir_total' count strict s steps xs hs hl

/-- the hypothesis is necessary: an iteration that raises makes the filter raise (on the unfixed
code this is `Reservoir(2, seed=1022902634)`, whose 2nd uniform is exactly 0: finding C09-F1) -/
theorem reservoir_total_counterexample :
    reservoir (some 2) false 0 [.raise .zeroDivision] [1, 2, 3] = .error .zeroDivision := by
  decide +kernel

example : ∃ out, reservoir (some 2) false 5 [.skip 0 1, .skip 1 0, .skip 0 0, .skip 0 0, .skip 0 0, .skip 0 0]
    [1, 2, 3, 4, 5] = .ok out :=
  reservoir_total_partial _ _ _ _ _ (by intro n hn st hst; cases hn; revert st hst; decide) (by decide)

/-! ### Where -/

/-- `Where`: the environment is passed through or dropped entirely according to the bounds on its
number of interactions and on the feature count of its first context; only interactions whose
action count is within bounds are kept — two-sided ranges, either bound open, exact values -/
theorem where_spec {α} (fetLen : α → Nat) (nAct : α → Nat) (nInt nActB nFet : Range) (xs : List α) :
    whereF fetLen nAct nInt nActB nFet xs = whereSpec fetLen nAct nInt nActB nFet xs :=
  whereF_eq_spec' fetLen nAct nInt nActB nFet xs

/-- peeking `max+1` interactions decides both bounds exactly -/
theorem where_peek_exact (mn mx : Option Nat) (n : Nat) :
    inMinMax (min (peekCount (mn, mx)) (n + 1)) mn mx = inMinMax (n + 1) mn mx := peek_inMinMax mn mx n

/-- …whereas peeking `min+1` (the code before fix C09-F3) lets 10 interactions pass `(1,3)` -/
theorem where_min_first_counterexample :
    inMinMax (min (peekCountMinFirst (some 1, some 3)) 10) (some 1) (some 3) = true ∧
    inMinMax 10 (some 1) (some 3) = false := by decide

/-! ### Batch ∘ Unbatch, Cache, Chunk, Params, Identity: identities -/

/-- `Batch._batched` cuts the sequence into consecutive pieces: concatenated they are the input,
none is empty, none is longer than the batch size -/
theorem batch_chunks {α} (k : Nat) (hk : 0 < k) (xs : List α) :
    (chunks k xs).flatten = xs ∧ ∀ b ∈ chunks k xs, 0 < b.length ∧ b.length ≤ k :=
  ⟨chunks_flatten' k xs, chunks_len' k hk xs⟩

/- full statement (no hypothesis on the key sets):
   theorem batch_unbatch_id_full (size) (xs : List (Rec V)) : ∃ bs, batchF size xs = .ok bs ∧ unbatchF bs = xs
   is false: `Batch` takes the key set from the first interaction only — see the counterexamples. -/
/-- `Unbatch ∘ Batch size = id` for interactions of one kind (all carry the key list `ks`,
a non-empty dict), every batch size incl. 0/None -/
theorem batch_unbatch_id_partial {V} (size : Nat) (ks : List String) (hne : ks ≠ []) (xs : List (Rec V))
    (hu : uniformKeys ks xs) : ∃ bs, batchF size xs = .ok bs ∧ unbatchF bs = xs :=
  batch_unbatch_id' size ks hne xs hu

example : uniformKeys ["context", "actions"] [[("context", 1), ("actions", 2)], [("context", 3), ("actions", 4)]] :=
  ⟨by decide, by decide⟩

/-- the hypothesis is necessary: a key the first interaction lacks is silently dropped … -/
theorem batch_unbatch_id_counterexample :
    ∃ bs, batchF 2 [[("a", 1)], [("a", 2), ("b", 3)]] = .ok bs ∧ unbatchF bs = [[("a", 1)], [("a", 2)]] :=
  ⟨_, rfl, rfl⟩

/-- … and a key a later interaction lacks raises `KeyError` -/
theorem batch_unbatch_id_counterexample2 :
    batchF 2 [[("a", 1), ("b", 3)], [("a", 2)]] = (.error .keyError : Except Err (List (Batched Nat))) := rfl

/-- `Cache`: every read of one Cache object — first or later, after complete or abandoned reads —
delivers exactly the items (the first `k` of them when the caller stops after `k`) -/
theorem cache_identity {α} (nSlice : Nat) (items : List α) (reads : List (Option Nat)) :
    cacheRun nSlice items none reads = reads.map (readSpec items) :=
  cacheRun_spec nSlice items none trivial reads

/-- `Identity`, `Chunk`, `Params` return what they are given -/
theorem identities {α} (xs : List α) : identityF xs = xs := rfl

/-! ### None of the filters alters the content of an interaction:
each one commutes with every function applied to the elements -/

theorem content_preserved {α β} (f : α → β) (xs : List α) :
    (∀ s, pShuffle s (xs.map f) = (pShuffle s xs).map f) ∧
    (∀ c strict, take c strict (xs.map f) = (take c strict xs).map f) ∧
    (∀ a b st, slice a b st (xs.map f) = (slice a b st xs).map f) ∧
    (∀ c strict s steps, reservoir c strict s steps (xs.map f) = (reservoir c strict s steps xs).map (List.map f)) ∧
    (∀ sp s, riffle sp s (xs.map f) = (riffle sp s xs).map f) ∧
    (∀ (fetLen nAct : β → Nat) nInt nActB nFet,
      whereF fetLen nAct nInt nActB nFet (xs.map f) = (whereF (fetLen ∘ f) (nAct ∘ f) nInt nActB nFet xs).map f) ∧
    (∀ {K} (le : K → K → Bool) (key : β → K), sortBy le key (xs.map f) = (sortBy le (key ∘ f) xs).map f) :=
  ⟨fun s => pShuffle_map' f s xs, fun c st => take_map' f c st xs, fun a b st => slice_map' f a b st xs,
   fun c st s steps => reservoir_map' f c st s steps xs, fun sp s => riffle_map' f sp s xs,
   fun fl na ni nb nf => whereF_map' f fl na ni nb nf xs, fun le key => sortBy_map' f le key xs⟩

/-! # Phase 2 -/

/-! ### BatchSafe -/

/-- `BatchSafe(F)` for EVERY filter `F` on interactions: nothing in, nothing out; on un-batched
input it is `F`; on input batched by `Batch(size)` (interactions of one kind) it is
`Batch(min size N) ∘ F ∘ Unbatch` — the filter sees the plain interactions and its output is
re-batched with the size of the first batch; an error of `F` is passed on -/
theorem batchsafe_eq_plain {V} (F : List (Rec V) → Except Err (List (Rec V))) :
    (batchSafe (liftF F) [] = .ok []) ∧
    (∀ recs : List (Rec V), recs ≠ [] →
      batchSafe (liftF F) (recs.map .plain) = (match F recs with | .error e => .error e | .ok ys => .ok (ys.map .plain))) ∧
    (∀ (size : Nat) (ks : List String) (recs : List (Rec V)) (bs : List (Batched V)),
      0 < size → ks ≠ [] → recs ≠ [] → uniformKeys ks recs → batchF size recs = .ok bs →
      batchSafe (liftF F) bs = (match F recs with | .error e => .error e | .ok ys => batchF (min size recs.length) ys)) :=
  batchsafe_eq_plain' F

example : batchSafe (liftF (fun recs : List (Rec Nat) => .ok (recs.take 1)))
    [.batch [("a", [1, 2]), ("b", [3, 4])], .batch [("a", [5]), ("b", [6])]] = .ok [.batch [("a", [1]), ("b", [3])]] := rfl

/-! ### Collections of environments -/

/-- `Environments(env_0, env_1, …).<shortcut>()` gives every environment its own filter object:
in any history of (complete or abandoned) reads of the pipelines, in any order, what environment
`k` delivers is exactly what its reads deliver when it is alone with a fresh filter object -/
theorem collection_pointwise {σ E β} (f : Filt σ E β) (envs : Nat → E) (h : List (Nat × Option Nat)) (k : Nat) :
    ((runColl f envs (fun _ => f.init) h).filter (·.1 = k)).map (·.2)
      = runAlone f (envs k) f.init ((h.filter (·.1 = k)).map (·.2)) :=
  collection_pointwise' f envs (fun _ => f.init) h k

/-- hence `.cache()` / `.chunk()` on a collection: every read of environment `k` delivers
environment `k`'s own interactions (their first `c` when abandoned after `c`) -/
theorem collection_cache {α} (nSlice : Nat) (envs : Nat → List α) (h : List (Nat × Option Nat)) (k : Nat) :
    ((runColl (cacheFilt nSlice) envs (fun _ => none) h).filter (·.1 = k)).map (·.2)
      = ((h.filter (·.1 = k)).map (·.2)).map (readSpec (envs k)) := collection_cache' nSlice envs h k

/-- and every stateless shortcut: each read of environment `k` is its own filter applied to its
own interactions -/
theorem collection_stateless {E α} (F : E → Except Err (List α)) (envs : Nat → E)
    (h : List (Nat × Option Nat)) (k : Nat) :
    ((runColl (statelessFilt F) envs (fun _ => ()) h).filter (·.1 = k)).map (·.2)
      = ((h.filter (·.1 = k)).map (·.2)).map (fun c => ((statelessFilt F).read () (envs k) c).2) :=
  collection_stateless' F envs h k

/-- the freshness is necessary: ONE Cache object shared by two environments hands the first
environment's interactions to the second (the seeded mutant m3) -/
theorem collection_shared_cache_counterexample :
    runShared (cacheFilt 25) (fun k => if k = 0 then [1, 2] else [3]) none [(0, none), (1, none)]
      = [(0, [1, 2]), (1, [1, 2])] := shared_cex

/-! ### Sort without keys on sparse contexts; missing keys -/

/-- with no keys a sparse context is ordered by the tuple of its key NAMES in insertion order
(`tuple(dict)`), not by its values -/
theorem sort_sparse_no_keys_order (b : Bool) (kvs : List (Val × Val)) :
    sortKey [] b (.sparse kvs) = .ok (kvs.map (·.1)) := sort_sparse_nokeys_key' b kvs

/-- so interactions whose contexts carry the same names, whatever the values, come out in input
order: `Sort()` is the identity on them -/
theorem sort_sparse_no_keys_same_names {α} (hasCtx : α → Bool) (ctx : α → Ctx) (names : List Val)
    (x : α) (xs : List α) (hc : hasCtx x = true)
    (hn : ∀ a ∈ x :: xs, ∃ kvs, ctx a = .sparse kvs ∧ kvs.map (·.1) = names) :
    sortF hasCtx ctx [] (x :: xs) = .ok (x :: xs) := sort_sparse_nokeys_same_names' hasCtx ctx names x xs hc hn

/-- witness: contexts `{'a':3}, {'a':2}, {'a':1}` are left in that order -/
theorem sort_sparse_no_keys_ignores_values :
    sortF (fun _ => true) (fun (n : Nat) => Ctx.sparse [(.str [97], .num (3 - n))]) [] [0, 1, 2] = .ok [0, 1, 2] := by
  decide +kernel

/-- `Sort` never orders by a partial key: if it returns, every interaction had every chosen key -/
theorem sort_ok_all_keys_present {α} (hasCtx : α → Bool) (ctx : α → Ctx) (keys : List Val)
    (x : α) (xs out : List α) (hc : hasCtx x = true) (h : sortF hasCtx ctx keys (x :: xs) = .ok out) :
    ∀ a ∈ x :: xs, ∃ k, sortKey keys (ctx x).isSparse (ctx a) = .ok k := sort_ok_all_keys' hasCtx ctx keys x xs out hc h

/-- a key missing from a sparse context counts as 0 -/
theorem sort_sparse_missing_key_default (keys : List Val) (hk : keys ≠ []) (kvs : List (Val × Val)) :
    sortKey keys true (.sparse kvs)
      = .ok (keys.map (fun k => match lookupVal k kvs with | some v => v | none => .num 0)) :=
  sort_sparse_missing_key' keys hk kvs

/-- an index missing from a dense context raises `IndexError` -/
theorem sort_dense_missing_key_raises (k : Nat) (vs : List Val) (h : vs.length ≤ k) :
    sortKey [.num (k : Rat)] false (.dense vs) = .error .indexError := sort_dense_short' k vs h

/-! ### Reservoir with the actual formulas -/

/-- under the stated laws of the arithmetic (`FloatLaws`: uniforms, powers, products and `1-W`
stay strictly between 0 and 1, where `log` is defined and non-zero) `Reservoir` never raises, for
every count, mode, seed state and input: the loop's own guard removes zero uniforms, `W` stays in
(0,1), so `log(r2)/log(1-W)` is defined.  `nT` triples must outnumber the input (the code's
stream is endless). -/
theorem reservoir_total_under_laws {R α} (ops : FloatOps R) (U : R → Prop) (laws : FloatLaws ops U)
    (count : Option Nat) (strict : Bool) (s nT : Nat) (xs : List α)
    (hl : ∀ n, count = some n → xs.length < ((triples (reservoirState count s xs) nT).filter guardOk).length) :
    ∃ out, reservoirF ops count strict s nT xs = .ok out := reservoirF_total' ops U laws count strict s nT xs hl

/-- the same for an arbitrary stream of uniform triples -/
theorem reservoir_total_any_uniforms {R α} (ops : FloatOps R) (U : R → Prop) (laws : FloatLaws ops U)
    (n : Nat) (strict : Bool) (s : Nat) (ts : List (Nat × Nat × Nat)) (xs : List α)
    (hts : ∀ t ∈ ts, t.1 < C05.M ∧ t.2.1 < C05.M ∧ t.2.2 < C05.M)
    (hl : xs.length < (ts.filter guardOk).length) :
    ∃ out, reservoir (some n) strict s (floatSteps ops n ops.one ts) xs = .ok out :=
  reservoir_total_laws' ops U laws n strict s ts xs hts hl

/-- the laws are satisfiable (exact rational arithmetic, `U x := 0 < x < 1`) -/
theorem float_laws_satisfiable : FloatLaws ratOps (fun x : Rat => 0 < x ∧ x < 1) := ratOps_laws

/-- the law that IEEE doubles break is `oneMinus_unit`: once `W < 2^-53` the difference `1-W` is
1, its logarithm 0, and the loop raises `ZeroDivisionError` (two uniforms `2^-30` in a row with
count 1; the first skip alone is 1 073 741 819 items, which is why no real stream gets there) -/
theorem reservoir_underflow_counterexample :
    floatSteps roundingOps 1 roundingOps.one [(1, 5, 5), (1, 5, 5)]
      = [.skip 1073741819 0, .raise .zeroDivision] := by decide +kernel

/-! ### Seeds of every kind -/

/-- for an `int`, integral `float`, or any other (`str`-normalised) seed: Shuffle, environment
Shuffle and Riffle return permutations -/
theorem seeded_perm {α} (isLogged : α → Bool) (sd lsd : Seed) (sp : Nat) (xs : List α) :
    (shuffleSeeded sd xs).Perm xs ∧ (eShuffleSeeded isLogged sd lsd xs).Perm xs ∧ (riffleSeeded sp sd xs).Perm xs :=
  seeded_perm' isLogged sd lsd sp xs

/-- …and which rearrangement / sample they produce depends on the normalised seed and the length
only (they commute with every relabelling of the interactions) — Shuffle, Riffle, environment
Shuffle and Reservoir with the float formulas -/
theorem seeded_det {α β} (f : α → β) (sd lsd : Seed) (xs : List α) :
    shuffleSeeded sd (xs.map f) = (shuffleSeeded sd xs).map f ∧
    (∀ sp, riffleSeeded sp sd (xs.map f) = (riffleSeeded sp sd xs).map f) ∧
    (∀ isLogged : β → Bool,
      eShuffleSeeded isLogged sd lsd (xs.map f) = (eShuffleSeeded (isLogged ∘ f) sd lsd xs).map f) ∧
    (∀ {R} (ops : FloatOps R) c strict nT,
      reservoirF ops c strict sd.norm nT (xs.map f) = (reservoirF ops c strict sd.norm nT xs).map (List.map f)) :=
  seeded_det' f sd lsd xs

/-- integer seeds that agree modulo 2^30 are the same seed -/
theorem seed_int_congr (a b : Int) (h : a % (C05.M : Int) = b % (C05.M : Int)) :
    Seed.norm (.int a) = Seed.norm (.int b) := seed_int_congr' a b h

/-! # Phase 3 -/

/-! ### BatchSafe on any sequence of batches (even or not), the falsy first batch -/

/-- whatever the batch boundaries of the input: if the first batch is non-empty, `BatchSafe(G)` is
`Batch(size of the FIRST batch) ∘ F ∘ Unbatch` (`G` = the inner filter, `F` what it does on
un-batched interactions) -/
theorem batchsafe_first_batch_size {V} (G : List (Batched V) → Except Err (List (Batched V)))
    (F : List (Rec V) → Except Err (List (Rec V))) (hG : agreesOnPlain G F)
    (k : String) (vs : List V) (cols : List (String × List V)) (rest : List (Batched V)) (hvs : vs ≠ []) :
    batchSafe G (.batch ((k, vs) :: cols) :: rest)
      = (match F (unbatchF (.batch ((k, vs) :: cols) :: rest)) with
         | .error e => .error e
         | .ok ys => batchF vs.length ys) := batchSafe_first_batch' G F hG k vs cols rest hvs

/-- `unbatch (BatchSafe(F) batches) = F (unbatch batches)` whenever `F`'s output is of one kind
(one key set) — any batch boundaries in the input -/
theorem batchsafe_unbatch {V} (G : List (Batched V) → Except Err (List (Batched V)))
    (F : List (Rec V) → Except Err (List (Rec V))) (hG : agreesOnPlain G F)
    (k : String) (vs : List V) (cols : List (String × List V)) (rest : List (Batched V)) (hvs : vs ≠ [])
    (ys : List (Rec V)) (hF : F (unbatchF (.batch ((k, vs) :: cols) :: rest)) = .ok ys)
    (ks : List String) (hne : ks ≠ []) (hu : uniformKeys ks ys) :
    ∃ out, batchSafe G (.batch ((k, vs) :: cols) :: rest) = .ok out ∧ unbatchF out = ys :=
  batchSafe_unbatch' G F hG k vs cols rest hvs ys hF ks hne hu

/-- in particular for the selection / ordering filters (output made of input interactions):
`unbatch (BatchSafe(F) (Batch(k) xs)) = F xs` -/
theorem batchsafe_selection {V} (G : List (Batched V) → Except Err (List (Batched V)))
    (F : List (Rec V) → Except Err (List (Rec V))) (hG : agreesOnPlain G F)
    (size : Nat) (hs : 0 < size) (ks : List String) (hne : ks ≠ []) (recs : List (Rec V)) (hr : recs ≠ [])
    (hu : uniformKeys ks recs) (bs : List (Batched V)) (hb : batchF size recs = .ok bs)
    (ys : List (Rec V)) (hF : F recs = .ok ys) (hsel : ∀ y ∈ ys, y ∈ recs) :
    ∃ out, batchSafe G bs = .ok out ∧ unbatchF out = ys :=
  batchSafe_selection' G F hG size hs ks hne recs hr hu bs hb ys hF hsel

/-- the hypotheses are satisfiable: `Take(1)` on two batches of two -/
example : ∃ out, batchSafe (liftF (fun recs : List (Rec Nat) => .ok (recs.take 1)))
    [.batch [("a", [1, 2])], .batch [("a", [3, 4])]] = .ok out ∧ unbatchF out = [[("a", 1)]] :=
  batchsafe_selection _ _ (liftF_agrees _) 2 (by decide) ["a"] (by decide)
    [[("a", 1)], [("a", 2)], [("a", 3)], [("a", 4)]] (by decide) ⟨by decide, by decide⟩ _ rfl _ rfl (by decide)

/-- the quirk: a first interaction that is not batched or whose first value is an EMPTY batch makes
`batch_size` falsy — the inner filter is applied to the interactions as they are -/
theorem batchsafe_falsy_first {V} (G : List (Batched V) → Except Err (List (Batched V)))
    (first : Batched V) (rest : List (Batched V)) (h : firstBatchSize first = 0) :
    batchSafe G (first :: rest) = G (first :: rest) := batchSafe_falsy_first' G first rest h

/-- …so with an empty first batch `Take(1)` takes one *batch* (the empty one): the un-batched result
is empty although `Take(1)` of the three interactions is not -/
theorem batchsafe_empty_first_batch_counterexample :
    batchSafe (fun xs : List (Batched Nat) => .ok (xs.take 1)) [emptyBatch ["a"], .batch [("a", [1, 2, 3])]]
      = .ok [emptyBatch ["a"]] ∧
    unbatchF [(emptyBatch ["a"] : Batched Nat)] = [] ∧
    (unbatchF [(emptyBatch ["a"] : Batched Nat), .batch [("a", [1, 2, 3])]]).take 1 = [[("a", 1)]] := ⟨rfl, rfl, rfl⟩

/-- uneven batches are regrouped by the size of the first one (C04-F7): `BatchSafe(Identity)` turns
batches of 2 and 5 into 2, 2, 2, 1 — same interactions, other boundaries -/
theorem batchsafe_uneven_regroups_counterexample :
    batchSafe (fun xs : List (Batched Nat) => .ok xs) [.batch [("a", [1, 2])], .batch [("a", [3, 4, 5, 6, 7])]]
      = .ok [.batch [("a", [1, 2])], .batch [("a", [3, 4])], .batch [("a", [5, 6])], .batch [("a", [7])]] := rfl

/-! ### Several filters per shortcut: environments × filters -/

/-- `Environments.filter([f_0 … f_{m-1}])` on `n` environments: member `i*m + j` is environment `i`
behind filter `j` (the order the code produces) -/
theorem product_member_order (nEnv nFilt i j : Nat) (hi : i < nEnv) (hj : j < nFilt) :
    (productMembers nEnv nFilt)[i * nFilt + j]? = some (i, j) := productMembers_get' nEnv nFilt i j hi hj

/-- `shuffle(seeds=…)` re-orders the members by seed, stably: the same members, ascending seeds,
members of equal seed in environment order -/
theorem shuffle_member_order (seedOf : Nat → Nat) (nEnv nFilt : Nat) :
    (sortedMembers seedOf nEnv nFilt).Perm (productMembers nEnv nFilt) ∧
    (sortedMembers seedOf nEnv nFilt).Pairwise (fun a b => seedOf a.2 ≤ seedOf b.2) ∧
    (∀ a b, seedOf a.2 ≤ seedOf b.2 → [a, b].Sublist (productMembers nEnv nFilt) →
      [a, b].Sublist (sortedMembers seedOf nEnv nFilt)) := sortedMembers_spec' seedOf nEnv nFilt

/-- in any history of reads of the members, member `m = (i, j)` delivers filter `j` applied to
environment `i` alone (its first `k` interactions when the read is abandoned after `k`) -/
theorem collection_product {E Φ α} (apply : Φ → E → Except Err (List α)) (envs : Nat → E) (filters : Nat → Φ)
    (members : List (Nat × Nat)) (dflt : Nat × Nat) (h : List (Nat × Option Nat)) (m i j : Nat)
    (hm : members[m]? = some (i, j)) :
    ((runColl (statelessFilt (fun p : E × Φ => apply p.2 p.1)) (memberEnv envs filters members dflt) (fun _ => ()) h).filter (·.1 = m)).map (·.2)
      = ((h.filter (·.1 = m)).map (·.2)).map (fun c => match c with
          | none => apply (filters j) (envs i)
          | some k => match apply (filters j) (envs i) with | .ok l => .ok (l.take k) | .error e => .error e) :=
  collection_product' apply envs filters members dflt h m i j hm

example : (productMembers 2 3)[1 * 3 + 2]? = some (1, 2) := product_member_order 2 3 1 2 (by decide) (by decide)
example : sortedMembers (fun j => [5, 1, 5].getD j 0) 2 3 = [(0, 1), (1, 1), (0, 0), (0, 2), (1, 0), (1, 2)] := by decide

/-! ### Unbatch on arbitrary input -/

/-- nothing batched in the first interaction: everything is passed through untouched (also batches
that come later) -/
theorem unbatch_plain_first (first : CRec) (rest : List CRec)
    (h : first.find? (fun kv => kv.2.isBatch) = none) : unbatchG (first :: rest) = .ok (first :: rest) :=
  unbatchG_plain_first' first rest h

/- full statement (no hypothesis on the interactions):
   theorem unbatch_rows_full : unbatchG rs = .ok (rs.flatMap rows)   -- kept, ordered, row by row
   is false for mixed sequences: see the three counterexamples below. -/
/-- every interaction fully batched (all cells columns of one length, each interaction its own
size) and carrying the first batched key of the first: Unbatch delivers, interaction by interaction
and in order, the rows of the transposition -/
theorem unbatch_rows_partial (first : CRec) (rest : List CRec) (size : CRec → Nat) (bk : String) (c0 : Cell)
    (hfirst : first.find? (fun kv => kv.2.isBatch) = some (bk, c0))
    (h : ∀ r ∈ first :: rest, wfBatch r (size r) ∧ ∃ c, lookupCell bk r = some c) :
    unbatchG (first :: rest) = .ok ((first :: rest).flatMap (fun r => rowsSpec r (size r))) :=
  unbatchG_wf' first rest size bk c0 hfirst h

example : unbatchG [[("c", .col [.atom 1, .atom 2]), ("r", .col [.atom 5, .atom 6])], [("c", .col [.atom 3]), ("r", .col [.atom 7])]]
    = .ok [[("c", .val (.atom 1)), ("r", .val (.atom 5))], [("c", .val (.atom 2)), ("r", .val (.atom 6))], [("c", .val (.atom 3)), ("r", .val (.atom 7))]] := rfl

/-- excluded input 1: an un-batched interaction after a batched first one whose value under the
batched key is a sequence is cut into one "interaction" per element (and a sequence-valued cell
of a batched interaction is indexed too: `'xy'` becomes `'x'`, `'y'`) -/
theorem unbatch_mixed_counterexample :
    unbatchG [[("c", .col [.atom 1, .atom 2]), ("n", .val (.seq [.atom 7, .atom 8]))],
              [("c", .val (.seq [.atom 3, .atom 4, .atom 5])), ("n", .val (.atom 9))]]
      = .ok [[("c", .val (.atom 1)), ("n", .val (.atom 7))], [("c", .val (.atom 2)), ("n", .val (.atom 8))],
             [("c", .val (.atom 3)), ("n", .val (.atom 9))], [("c", .val (.atom 4)), ("n", .val (.atom 9))],
             [("c", .val (.atom 5)), ("n", .val (.atom 9))]] := rfl

/-- excluded input 2: …and raises `TypeError` when that value is a number (`len` is outside the `try`) -/
theorem unbatch_mixed_counterexample2 :
    unbatchG [[("c", .col [.atom 1])], [("c", .val (.atom 3))]] = .error .typeError := rfl

/-- excluded input 3: a batch after an un-batched first interaction is not unbatched at all -/
theorem unbatch_mixed_counterexample3 :
    unbatchG [[("c", .val (.atom 1))], [("c", .col [.atom 3, .atom 4])]]
      = .ok [[("c", .val (.atom 1))], [("c", .col [.atom 3, .atom 4])]] := rfl

/-! ### Phase 4: selecting filters behind a shared `.cache()` / `.chunk()` -/

/-- any history of reads of pipelines `cached environment → D_i` that share ONE Cache object, each
read pulling `need_i` items from the cache and then abandoning its generator: read `i` delivers
`D_i` applied to the first `need_i` interactions (all of them for `none`) — whatever was read,
completed or abandoned before -/
theorem cached_pipeline_reads {α β} (nSlice : Nat) (items : List α) (reads : List (Option Nat × (List α → β))) :
    cachedRun nSlice items none reads = reads.map (fun r => r.2 (readSpec items r.1)) :=
  cachedRun_spec nSlice items none trivial reads

/-- hence, when every downstream filter only depends on the prefix it pulls, every read delivers
its own filter applied to ALL interactions of the environment -/
theorem cached_pipeline_exact {α β} (nSlice : Nat) (items : List α) (reads : List (Option Nat × (List α → β)))
    (hp : ∀ r ∈ reads, r.2 (readSpec items r.1) = r.2 items) :
    cachedRun nSlice items none reads = reads.map (fun r => r.2 items) := cachedRun_full nSlice items reads hp

/-- `Take(count, strict)` pulls `count` items and depends on nothing else -/
theorem take_need {α} (count : Option Nat) (strict : Bool) (items : List α) :
    take count strict (readSpec items (takeNeed count)) = take count strict items := take_need' count strict items

/-- `Slice(start, stop, step)` pulls `stop` items and depends on nothing else -/
theorem slice_need {α} (start stop : Option Nat) (step : Nat) (items : List α) :
    slice start stop step (readSpec items (sliceNeed stop)) = slice start stop step items :=
  slice_need' start stop step items

/-- the hypothesis of `cached_pipeline_exact` is met by a history mixing `take(3)` and complete reads -/
example : cachedRun 25 (List.range 60) none [(takeNeed (some 3), take (some 3) false), (none, identityF)]
    = [[0, 1, 2], List.range 60] := by decide

/-- the seeded change of round g (abandoned read seals the partial cache): 25 of 60 on the next read -/
theorem cache_sealing_counterexample :
    cacheRunSealing 25 (List.range 60) none [some 1, none] = [[0], List.range 25] := sealing_cex

/-! ### Phase 5: random / ordering filters behind shared caches, several environments -/

/-- several environments, each behind its own Cache object, any number of downstream pipelines per
environment, ANY history of reads (each pulling `need` items and then leaving — closed, dropped or
alive): every read delivers its filter applied to the first `need` interactions of ITS OWN
environment, whatever was read of this or any other environment before -/
theorem multi_cached_reads {α β} (nSlice : Nat) (envs : Nat → List α) (reads : List (Nat × Option Nat × (List α → β))) :
    multiCachedRun nSlice envs (fun _ => none) reads = reads.map (fun r => r.2.2 (readSpec (envs r.1) r.2.1)) :=
  multiCachedRun_spec nSlice envs (fun _ => none) (fun _ => trivial) reads

/-- whole-input branches (Shuffle / Sort / Reservoir: generators that materialise their input at the
first `next`; Riffle: materialises when the pipeline is read; Reservoir(0): never reads) behind the
shared caches, with the amount each read pulls computed by the model (`pullNeed`): every read in
every history delivers `branchSpec` — the filter on ALL interactions of its own environment, cut
after the `k` items the consumer took -/
theorem cached_random_branches {α} (nSlice : Nat) (envs : Nat → List α) (reads : List (BranchRead α)) :
    branchRun nSlice envs reads = reads.map (branchSpec envs) := branchRun_spec nSlice envs reads

/-- in particular every COMPLETE read of such a branch delivers exactly the filter's result on the
environment's interactions — the same at every point of every history (so: determined by the seed),
errors of the filter (Sort on a missing key) included -/
theorem cached_random_complete_reads {α} (nSlice : Nat) (envs : Nat → List α) (reads : List (BranchRead α))
    (i : Nat) (hi : i < reads.length) (hk : reads[i].k = none) (hp : reads[i].pull ≠ .never) :
    (branchRun nSlice envs reads)[i]? = some (reads[i].F (envs reads[i].env)) :=
  branchRun_complete nSlice envs reads i hi hk hp

/-- `Pull.never` is right for `Reservoir(0)`: its result does not depend on the input -/
theorem reservoir_zero_never_pulls {R α} (ops : FloatOps R) (strict : Bool) (s nT : Nat) (xs : List α) :
    reservoirF ops (some 0) strict s nT xs = .ok [] := reservoirF_zero ops strict s nT xs

/-- two environments (60 and 3 interactions, `Cache(25)`): `riffle` of env 0 abandoned at once, a shuffle of
env 1 never started, `take`-like consumer of 2 of a riffle, then complete reads — hypotheses of
`cached_random_complete_reads` met at index 3 -/
example : (branchRun 25 (fun e => if e = 0 then List.range 60 else [100, 101, 102])
      [⟨0, .eager, some 0, fun xs => .ok (riffleSeeded 3 (.int 1) xs)⟩,
       ⟨1, .onFirst, some 0, fun xs => .ok (shuffleSeeded (.int 5) xs)⟩,
       ⟨1, .onFirst, some 2, fun xs => .ok (shuffleSeeded (.int 5) xs)⟩,
       ⟨0, .eager, none, fun xs => .ok (riffleSeeded 3 (.int 1) xs)⟩])[3]?
    = some (.ok (riffleSeeded 3 (.int 1) (List.range 60))) :=
  cached_random_complete_reads _ _ _ 3 (by decide) rfl (by decide)

/-! ### Phase 5: Reservoir raises exactly when the run-time check on lengths fails -/

/-- for every count, mode, seed state, step list and input: `Reservoir.filter` returns iff
`reservoirOk` (a Boolean computed from the steps and the input LENGTH only) holds.  This replaces the
universally quantified hypotheses of `reservoir_total_partial` / `reservoir_total_under_laws` by one
that the driver evaluates on the IEEE steps of every generated case (`runok`), and is an equivalence -/
theorem reservoir_total_iff_checked {α} (count : Option Nat) (strict : Bool) (s : Nat) (steps : List Step) (xs : List α) :
    (∃ out, reservoir count strict s steps xs = .ok out) ↔ reservoirOk count steps xs.length = true :=
  reservoir_ok_iff count strict s steps xs

/-- the same for the filter with the float formulas built in -/
theorem reservoirF_total_iff_checked {R α} (ops : FloatOps R) (n : Nat) (strict : Bool) (s nT : Nat) (xs : List α) :
    (∃ out, reservoirF ops (some n) strict s nT xs = .ok out) ↔
      reservoirOk (some n) (floatSteps ops n ops.one (triples (reservoirState (some n) s xs) nT)) xs.length = true :=
  reservoirF_ok_iff ops n strict s nT xs

example : reservoirOk (some 2) [.skip 0 1, .skip 1 0, .skip 5 0] 5 = true := by decide
/-- the check is necessary: the underflow run of `reservoir_underflow_counterexample` fails it -/
theorem reservoir_check_counterexample :
    reservoirOk (some 1) [.skip 3 0, .raise .zeroDivision] 10 = false ∧
    reservoir (some 1) false 0 [.skip 3 0, .raise .zeroDivision] (List.range 10) = .error .zeroDivision := by
  decide +kernel

/-! ### Phase 4: translator tie — the shortcut table of `Environments` -/

/-- the shortcut → filter-class(arguments) table and the constructor signatures extracted from the
current coba source are the ones the model assumes (a shortcut wired to another filter, with
swapped / dropped arguments or changed defaults breaks this obligation) -/
theorem shortcuts_wired_as_modelled :
    Coba.Generated.C09.extracted = true ∧ Coba.Generated.C09.shortcuts = shortcutTable
      ∧ Coba.Generated.C09.ctors = ctorTable := by decide

/-- under that table every argument of a selecting / ordering shortcut reaches the constructor
parameter of its name: `take(n, strict)` is `Take(count := n, strict := strict)`, … -/
theorem shortcut_arguments_reach_their_parameters :
    let f := feeds Coba.Generated.C09.shortcuts Coba.Generated.C09.ctors
    f "take" "Take" "count" = some "$n_interactions" ∧ f "take" "Take" "strict" = some "$strict"
    ∧ f "slice" "Slice" "start" = some "$start" ∧ f "slice" "Slice" "stop" = some "$stop" ∧ f "slice" "Slice" "step" = some "$step"
    ∧ f "reservoir" "Reservoir" "count" = some "$n_interactions" ∧ f "reservoir" "Reservoir" "strict" = some "$strict"
    ∧ f "reservoir" "Reservoir" "seed" = some "each($seeds)"
    ∧ f "where" "Where" "n_interactions" = some "$n_interactions" ∧ f "where" "Where" "n_actions" = some "$n_actions"
    ∧ f "where" "Where" "n_features" = some "$n_features"
    ∧ f "riffle" "Riffle" "spacing" = some "$spacing" ∧ f "riffle" "Riffle" "seed" = some "$seed"
    ∧ f "shuffle" "Shuffle" "seed" = some "each($seeds)" ∧ f "sort" "Sort" "*keys" = some "*$keys"
    ∧ f "batch" "Batch" "batch_size" = some "$batch_size" ∧ f "cache" "Cache" "n_slice" = some "25"
    ∧ f "take" "Slice" "start" = none := by decide

/-! ### Phase 5: translator tie — the control flow of `Environments.shuffle` and `Environments.chunk` -/

/-- the statement lists extracted from the current source are the programs the model assumes -/
theorem shuffle_chunk_programs_as_modelled :
    Coba.Generated.C09.shuffleProgram = shuffleProgram ∧ Coba.Generated.C09.chunkProgram = chunkProgram := by decide

/-- the EXTRACTED `shuffle` program, run by the model's interpreter, computes the model's seed list for
every call form: `n=k` → `range(k)` (`[1]` for 0), `seed=v`/`seeds=v` → `[v]` (0 stays 0), a list /
positional seeds → flattened one level, nothing → `[1]` -/
theorem shuffle_program_computes_seeds (c : ShuffleCall) :
    runShuffle c 20 Coba.Generated.C09.shuffleProgram none = some (shuffleSeeds c) :=
  shuffle_chunk_programs_as_modelled.1 ▸ runShuffle_model c

/-- the EXTRACTED `chunk` program appends `Chunk` and, iff `cache`, a `Cache` to every environment -/
theorem chunk_program_computes_filters (cache : Bool) :
    runChunk cache Coba.Generated.C09.chunkProgram = some (chunkFilters cache) :=
  shuffle_chunk_programs_as_modelled.2 ▸ runChunk_model cache

/-- `shuffle` always builds at least one Shuffle filter per environment -/
theorem shuffle_seeds_nonempty (c : ShuffleCall) : shuffleSeeds c ≠ [] := shuffleSeeds_ne_nil c

/-- `chunk(cache)` is an identity on the interaction sequence for both values of `cache`, in every
history of complete and abandoned reads -/
theorem chunk_reads {α} (cache : Bool) (nSlice : Nat) (items : List α) (reads : List (Option Nat)) :
    chunkRun cache nSlice items reads = reads.map (readSpec items) := chunkRun_spec cache nSlice items reads

example : runShuffle (.kwRow [.seq [4, 2], .num 3]) 20 shuffleProgram none = some [4, 2, 3] := by decide
/-- an edit of the control flow is noticed: without the `[1]` default the program no longer computes the model's seeds -/
theorem shuffle_program_counterexample :
    runShuffle (.args []) 20 ((shuffleProgram.take 5) ++ (shuffleProgram.drop 7)) none = some [] ∧ shuffleSeeds (.args []) = [1] := by
  decide

/-! ### Phase 6: pipelines of several filters (composition depth / position, nested `Pipes.join`) -/

/-- `Pipes.join` of already joined pipes, to any nesting depth: running the spliced filter list (what
`FiltersFilter.filter` / `SourceFilters.read` do) is running every argument as a unit, left to right -/
theorem join_nested_is_sequential {α : Type} (p : Pipe α) (xs : List α) : p.runFlat xs = p.run xs :=
  pipe_flat_eq_run' p xs

/-- position independence: in a pipeline `fs ++ gs` the filters `gs` see exactly what `fs` alone delivers and behave
as they would at the head of a pipeline (so the 2nd, 3rd … filter of a kind is the same function as the 1st) -/
theorem pipeline_append {R α : Type} (ops : FloatOps R) (A : Acc α) (nT : Nat) (fs gs : List FOp) (xs : List α) :
    pipeline ops A nT (fs ++ gs) xs =
      (match pipeline ops A nT fs xs with | .ok ys => pipeline ops A nT gs ys | .error e => .error e) :=
  pipeline_append' ops A nT fs gs xs

/-- EVERY pipeline of C09 filters (any kinds, any parameters, any length, any arithmetic in Reservoir) that returns
delivers input interactions taken at distinct positions: a permutation of a sub-list of its input -/
theorem pipeline_keeps_inputs {R α : Type} (ops : FloatOps R) (A : Acc α) (nT : Nat) (fs : List FOp)
    (xs ys : List α) (h : pipeline ops A nT fs xs = .ok ys) : ys.Subperm xs := pipeline_subperm' ops A nT fs xs ys h

/-- a pipeline of selecting filters only (Take, Slice, Where, Identity) keeps the input order -/
theorem pipeline_selecting_keeps_order {R α : Type} (ops : FloatOps R) (A : Acc α) (nT : Nat) (fs : List FOp)
    (hs : ∀ op ∈ fs, op.selecting = true) (xs ys : List α) (h : pipeline ops A nT fs xs = .ok ys) : ys.Sublist xs :=
  pipeline_selecting_sublist' ops A nT fs hs xs ys h

/-- a pipeline of ordering filters only (Shuffle, Riffle, Sort, Identity) delivers a permutation of its input -/
theorem pipeline_ordering_perm {R α : Type} (ops : FloatOps R) (A : Acc α) (nT : Nat) (fs : List FOp)
    (hs : ∀ op ∈ fs, op.ordering = true) (xs ys : List α) (h : pipeline ops A nT fs xs = .ok ys) : ys.Perm xs :=
  pipeline_ordering_perm' ops A nT fs hs xs ys h

/-- the 2nd Take: `take(a).take(b)` is `take(min a b)` -/
theorem take_take {R α : Type} (ops : FloatOps R) (A : Acc α) (nT : Nat) (a b : Nat) (xs : List α) :
    pipeline ops A nT [.take (some a) false, .take (some b) false] xs = pipeline ops A nT [.take (some (min a b)) false] xs :=
  take_take' ops A nT a b xs

/-- the hypotheses are satisfiable / the definitions compute: take(4) → slice(1,None,2) → strict take(2) on six interactions -/
example : pipeline ratOps (⟨fun _ => false, fun _ => false, fun _ => Ctx.none, fun _ => 0⟩ : Acc Nat) 12
    [.take (some 4) false, .slice (some 1) none 2, .take (some 2) true] [10, 11, 12, 13, 14, 15] = .ok [11, 13] := by decide
example : (Pipe.joined [.joined [.one (fun xs => .ok (xs.take 2))], .one (fun (xs : List Nat) => .ok xs.reverse)]).runFlat [1, 2, 3]
    = .ok [2, 1] := by decide
/-- the order hypothesis of `pipeline_selecting_keeps_order` is forced: a second strict Take after a Take is not the
Take of the minimum (it delivers nothing), and a Riffle in the pipeline breaks the order -/
theorem take_take_strict_counterexample :
    pipeline ratOps (⟨fun _ => false, fun _ => false, fun _ => Ctx.none, fun _ => 0⟩ : Acc Nat) 12
      [.take (some 2) false, .take (some 3) true] [0, 1, 2, 3] = .ok [] ∧
    pipeline ratOps (⟨fun _ => false, fun _ => false, fun _ => Ctx.none, fun _ => 0⟩ : Acc Nat) 12
      [.take (some 2) true] [0, 1, 2, 3] = .ok [0, 1] := by decide

/-! ### Phase 6: translator tie — the statements of `FiltersFilter.__init__/filter`, `SourceFilters.__init__/read` and
`Environments.filter`, read off the current source on every run -/

/-- the extracted constructor bodies (the splice of already joined arguments, meaning `Pipe.filtersL`) and the body of
`Environments.filter` (meaning `productMembers`) are the statements the model assumes -/
theorem pipeline_code_as_modelled :
    Coba.Generated.C09.filtersFilterInit = joinInitProgram "self._filters" ∧
    Coba.Generated.C09.sourceFiltersInit = joinInitProgram "self._pipes" ∧
    Coba.Generated.C09.environmentsFilter = envFilterProgram := by decide

/-- the EXTRACTED bodies of `FiltersFilter.filter` (argument `items`) and `SourceFilters.read`, run by the model's
interpreter, compute `chainF` of the pipe's filters for every filter list and every input: each filter once, in
order, on what the one before delivered, the first exception ends the run.  (Proved on the extracted statements
themselves, so a renaming of the loop / data variables in the source keeps it provable; for the model's own copies of
the two programs see `runPipeProgram_filter_model'` / `runPipeProgram_read_model'`.) -/
theorem pipe_programs_compute_chain {α : Type} (fs : List (List α → Except Err (List α))) (input : List α) :
    runPipeProgram fs input Coba.Generated.C09.filtersFilterFilter [("items", .ok input)] = some (chainF fs input) ∧
    runPipeProgram fs input Coba.Generated.C09.sourceFiltersRead [] = some (chainF fs input) := by
  constructor <;>
    simp [runPipeProgram, Coba.Generated.C09.filtersFilterFilter, Coba.Generated.C09.sourceFiltersRead, loopFilters, List.lookup]

/-- an edit of the loop is noticed: a body that hands its argument back without the loop does not compute the pipeline -/
theorem pipe_program_counterexample :
    runPipeProgram [fun (xs : List Nat) => .ok (xs.take 1)] [0, 1] [(0, "return", "items", "")] [("items", .ok [0, 1])] = some (.ok [0, 1]) ∧
    chainF [fun (xs : List Nat) => .ok (xs.take 1)] [0, 1] = .ok [0] := by decide

/-- no pipeline of C09 filters alters the content of an interaction, and which interactions it keeps / where it puts them
depends on the attributes the filters read (`A`), the parameters and the positions only: the whole pipeline commutes with
every relabelling `f` of the interactions (accessors relabelled accordingly), exceptions included -/
theorem pipeline_content_preserved {R α β : Type} (ops : FloatOps R) (A : Acc β) (f : α → β) (nT : Nat) (fs : List FOp) (xs : List α) :
    pipeline ops A nT fs (xs.map f) =
      (pipeline ops ⟨A.isLogged ∘ f, A.hasCtx ∘ f, A.ctx ∘ f, A.nAct ∘ f⟩ nT fs xs).map (List.map f) :=
  pipeline_map' ops A f nT fs xs

/-- Sort alone commutes with every relabelling as well (was missing from `content_preserved`) -/
theorem sort_content_preserved {α β} (f : α → β) (hasCtx : β → Bool) (ctx : β → Ctx) (keys : List Val) (xs : List α) :
    sortF hasCtx ctx keys (xs.map f) = (sortF (hasCtx ∘ f) (ctx ∘ f) keys xs).map (List.map f) :=
  sortF_map' f hasCtx ctx keys xs

end Coba.C09
