/-
C07 — The result log faithfully records what evaluators produced.
Property theorems only (helper lemmas live in `Lemmas/C07.lean`, the model in `Model/C07.lean`).

Reading of the statement.  `Tx` = what `ProcessTasks` emits (T0…T4), `encode` = `TransactionEncode`,
`readLog` = `TransactionResult ∘ TransactionDecode`; the flag `true` selects the repaired code of
`fixes/C07-*.diff`, `false` the pinned commit.  The documented normalisation is `normIn` (nested
values: floats rounded, sequences lists, keys strings), `normTop` (a table cell: top-level sequence a
tuple), `normRow` (absent fields None, field names `str`), `normParams`.  `specInteractions` /
`specParams` are the tables the statement demands.
-/
import CobaVerif.Lemmas.C07

namespace Coba.C07

/-! ### values: minimize ∘ json ∘ list2tuple is the documented normalisation -/

/-- what is written and read back for a nested value is its normal form (floats rounded to 5
decimals, every sequence a list, every key a string) — for every value and every rounding function -/
theorem wire_normalises (rnd : Rat → Rat) (v : Val) : wire rnd v = normIn rnd v := wire_eq rnd v

/-- … and after `tuple(v) if isinstance(v,list)` a table cell is `normTop`: top-level sequences are tuples -/
theorem cell_normalises (rnd : Rat → Rat) (v : Val) : tupTop (wire rnd v) = normTop rnd v := tupTop_wire rnd v

/-- `minimize` is idempotent wherever the float rounding is idempotent on the value's float leaves -/
theorem minimize_idempotent (rnd : Rat → Rat) (v : Val) (h : ∀ q ∈ fltLeaves v, rnd (rnd q) = rnd q) :
    minimize rnd (minimize rnd v) = minimize rnd v := minimize_idem rnd v h

/-- for the concrete `round(v*10**5)/10**5` (binary64 product, ties to even): idempotent as long as the
rounded numerator is below 2^53 (|v| < 9·10^10).  The unbounded statement is believed true but not
proved (it needs `fl ∘ fl = fl`).
-- theorem minimize_idempotent_full (v : Val) : minimize round5 (minimize round5 v) = minimize round5 v -/
theorem minimize_idempotent_partial (v : Val)
    (h : ∀ q ∈ fltLeaves v, (rhe (fl (q * 100000))).natAbs < 2 ^ 53) :
    minimize round5 (minimize round5 v) = minimize round5 v :=
  minimize_idem round5 v (fun q hq => round5_idem q (h q hq))

/-- [phase 2] the unbounded statement: `round(v*10**5)/10**5` (binary64 product, ties to even, any magnitude in the
normal range) is idempotent, hence so is `minimize` — for every value -/
theorem minimize_idempotent_full (v : Val) : minimize round5 (minimize round5 v) = minimize round5 v :=
  minimize_idem round5 v (fun q _ => round5_idem_all q)

theorem round5_idempotent (q : Rat) : round5 (round5 q) = round5 q := round5_idem_all q

/-- the model's `fl` is the identity on every number with a significand below 2^53 (i.e. on the doubles) and its
result always is such a number -/
theorem fl_exact_on_doubles (n t : Int) (hn : n ≠ 0) (hb : n.natAbs < 2 ^ 53) :
    fl ((n : Rat) * pow2 t) = (n : Rat) * pow2 t := fl_repr n t hn hb

theorem fl_yields_double (x : Rat) (hx : x ≠ 0) :
    ∃ n t : Int, n ≠ 0 ∧ n.natAbs < 2 ^ 53 ∧ fl x = (n : Rat) * pow2 t := fl_is_repr x hx

/-- [phase 2] reward objects are covered by `wire_normalises`: what is written and read back is the registered json
form `{name: state}` -/
example (rnd : Rat → Rat) : wire rnd (.list [.reward "L1" (.flt (1/4)), .flt (1/3)])
    = .list [.dict [(.str "L1", .flt (1/4))], minFlt rnd (1/3)] := by
  simp [wire, minimize, minimizeL, jsonify, jsonifyL, jsonify_minFlt]

example : ∀ q ∈ fltLeaves (.tup [.flt (1234565 / 1000000), .dict [(.int 1, .flt (1/3))]]),
    (rhe (fl (q * 100000))).natAbs < 2 ^ 53 := by decide +kernel

/-- integers below 2^53 are binary64 numbers -/
theorem fl_fixes_small_integers (k : Int) (h : k.natAbs < 2 ^ 53) : fl (k : Rat) = k := fl_intCast k h

/-! ### one transaction: packing, unpacking, numbering -/

/-- column packing and row unpacking are inverse for rows with heterogeneous key sets: every row
comes back with every field name of the transaction, absent ones as None (`cellOf`) -/
theorem pack_unpack (rows : List PyDict) :
    unpackN rows.length (pack rows) = rows.map (fun r => (strKeys rows).map (fun s => (s, cellOf s r))) :=
  unpackN_packF cellOf (strKeys rows) rows

/-- the field names of a transaction are exactly the `str` of the rows' keys, each once, sorted -/
theorem strKeys_spec (rows : List PyDict) :
    (∀ s, s ∈ strKeys rows ↔ ∃ r ∈ rows, ∃ kv ∈ r, kv.1.pystr = s) ∧ (strKeys rows).Pairwise (· < ·) := by
  refine ⟨fun s => ?_, sortDedup_sorted _⟩
  simp [strKeys, sortDedup_mem, rowStrs]

/-- [core, phase 2: full strength] one evaluation through the encoder, the json layer and the reader gives exactly the
evaluator's rows, in order, numbered, normalised — for ALL row lists, rows without any field included (their number
travels as `_n`, `fixes/C07-rows-without-fields.diff`) -/
theorem roundtrip_normalise (rnd : Rat → Rat) (e l v : Int) (rows : List PyDict) :
    triRows true e l v (packedOf rnd true rows).1 (packedOf rnd true rows).2 = .ok (specRows rnd e l v rows) :=
  triRows_packedOf rnd e l v rows

/-- a log written before that repair carries no `_n` (`n = 0`): right exactly when some row has a field or there
is no row (`empty_rows_dropped_counterexample`, finding C07-F5 on the pinned code) -/
theorem roundtrip_normalise_partial (rnd : Rat → Rat) (e l v : Int) (rows : List PyDict)
    (h : strKeys rows ≠ [] ∨ rows = []) :
    triRows true e l v (wireCols rnd (pack rows)) 0 = .ok (specRows rnd e l v rows) :=
  triRows_pack' rnd e l v rows h

example : strKeys [[(Key.str "a", Val.int 1)], [(Key.int 2, Val.none)]] ≠ [] ∨
    [[(Key.str "a", Val.int 1)], [(Key.int 2, Val.none)]] = ([] : List PyDict) := by
  left; decide

/-- rows without any field are dropped: one empty row is yielded, the table gets no row, the
specification demands one (the row holding just the ids and index 1) -/
theorem empty_rows_dropped_counterexample (rnd : Rat → Rat) :
    triRows true 0 0 0 (wireCols rnd (pack [[]])) 0 = .ok [] ∧ specRows rnd 0 0 0 [[]] = [idCells 0 0 0 1] :=
  empty_rows_dropped rnd

/-- the rows of an evaluation are numbered 1..N in the order they were yielded, N is the number of
rows yielded, and every row carries the ids of its triple -/
theorem index_1_N (rnd : Rat → Rat) (e l v : Int) (rows : List PyDict) :
    (specRows rnd e l v rows).length = rows.length
    ∧ (specRows rnd e l v rows).map (fun r => r.lookup "index")
        = (List.range' 1 rows.length).map (fun (j : Nat) => some (Val.int (j : Int)))
    ∧ ∀ r ∈ specRows rnd e l v rows, r.lookup "environment_id" = some (Val.int e)
        ∧ r.lookup "learner_id" = some (Val.int l) ∧ r.lookup "evaluator_id" = some (Val.int v) := by
  refine ⟨?_, ?_, number_ids e l v 1 _⟩
  · simp [specRows, number_length]
  · simpa [specRows] using number_index e l v 1 (rows.map (normRow rnd (strKeys rows)))

/-! ### the pinned commit's two deviations -/

/-- pinned `packed_list2tuple` (decision by the first row of a column) equals the per-cell conversion
exactly under `firstRowDecides`.
-- theorem first_row_tuple_full (cols) : tupleColsFirstRow cols = .ok (tupleColsPerCell cols) -/
theorem first_row_tuple_partial (cols : Cols) (h : firstRowDecides cols = true) :
    tupleColsFirstRow cols = .ok (tupleColsPerCell cols) := first_row_tuple_partial' cols h

example : firstRowDecides [("a", [Val.list [Val.int 1], Val.list []]), ("b", [Val.none, Val.str "x"]),
    ("rewards", [Val.none, Val.list []])] = true := by decide

/-- first row None, later row a list: the list stays a list -/
theorem first_row_tuple_counterexample :
    tupleColsFirstRow [("a", [Val.none, Val.list [Val.int 1]])]
      ≠ .ok (tupleColsPerCell [("a", [Val.none, Val.list [Val.int 1]])]) := first_row_tuple_counterexample'

/-- first row a list, later row None: `tuple(None)` raises — the log can no longer be read -/
theorem first_row_tuple_typeError_counterexample :
    tupleColsFirstRow [("a", [Val.list [Val.int 1], Val.none])] = .error .typeError := first_row_tuple_typeError'

/-- end to end on the pinned reader: an evaluator yields `{'a':[1]}` then `{}`; every route raises -/
theorem first_row_crash_counterexample (rnd : Rat → Rat) :
    runNoFile rnd true false [] [.t4 [0, 0, 0] [[(.str "a", .list [.int 1])], []]] = .error .typeError := by
  rfl

/-- pinned `TransactionEncode` packing equals the repaired one whenever `str` is injective on the field
names of the transaction (rows being dicts).
-- theorem packAsIs_full (rows) : packAsIs rows = pack rows -/
theorem packAsIs_partial (rows : List PyDict) (hc : NoStrCollision rows) (hr : RowsNodup rows) :
    packAsIs rows = pack rows := packAsIs_eq_pack rows hc hr

example : NoStrCollision [[(Key.str "a", Val.int 1), (Key.bool true, Val.none)], [(Key.none, Val.nan)]] := by
  intro k₁ h₁ k₂ h₂
  simp [unionKeys, insertKey] at h₁ h₂
  rcases h₁ with rfl | rfl | rfl <;> rcases h₂ with rfl | rfl | rfl <;> simp [Key.pystr]

/-- field names `True` and `'True'` of two rows share one column: 4 cells for 2 rows -/
theorem packAsIs_collision_counterexample :
    packAsIs [[(Key.bool true, Val.int 1)], [(Key.str "True", Val.int 2)]]
      = [("True", [Val.int 1, Val.none, Val.none, Val.int 2])]
    ∧ pack [[(Key.bool true, Val.int 1)], [(Key.str "True", Val.int 2)]] = [("True", [Val.int 1, Val.int 2])] := by
  constructor
  · have h1 : (Key.str "True" == Key.bool true) = false := by decide
    have h2 : (Key.bool true == Key.str "True") = false := by decide
    simp [packAsIs, unionKeys, insertKey, sortByStr, insertByStr, dedupFirst, rowGet, Key.pystr, List.lookup, h1, h2]
  · simp [pack, packWith, strKeys, sortDedup, insertStr, rowStrs, cellOf, lookupLast, Key.pystr]

/-- hence on such transactions the pinned encoder writes what the repaired one writes -/
theorem encodeTx_pinned_eq_repaired (rnd : Rat → Rat) (ids : List Int) (rows : List PyDict)
    (hc : NoStrCollision rows) (hr : RowsNodup rows) :
    encodeTx rnd false (.t4 ids rows) = encodeTx rnd true (.t4 ids rows) := by
  simp [encodeTx, packAsIs_eq_pack rows hc hr]

/-! ### whole logs -/

/-- after a run the interactions table holds, for the evaluations ordered by their ids, exactly the
rows each evaluator yielded (in order, numbered 1..N, normalised) — for every list of transactions
with distinct, well-formed evaluation records -/
theorem interactions_roundtrip (rnd : Rat → Rat) (info : PyDict) (txs : List Tx)
    (hw : ∀ ir ∈ t4sOf txs, WellFormed ir) (hnd : ((t4sOf txs).map (·.1)).Nodup) :
    ∃ res, runNoFile rnd true true info txs = .ok res ∧ res.interactions = specInteractions rnd txs := by
  obtain ⟨res, h, hi, _⟩ := runNoFile_spec rnd info txs hw hnd
  exact ⟨res, h, hi⟩

/-- no evaluation is lost or duplicated by the ordering step -/
theorem order_by_ids_perm (txs : List Tx) : (sortBy ltTriP (t4sOf txs)).Perm (t4sOf txs) := sortBy_perm _ _

/-- the environments / learners / evaluators tables hold exactly each component's params (id column
first, values normalised, keys as json strings), ordered by id — for distinct ids and params whose
keys stay distinct as strings and differ from the id column -/
theorem params_roundtrip (rnd : Rat → Rat) (fixed : Bool) (t : Tbl) (txs : List Tx)
    (hid : ((paramsOf t txs).map (·.1)).Nodup)
    (hk : ∀ ip ∈ paramsOf t txs, (ip.2.map (·.1.json)).Nodup ∧ idColName t ∉ ip.2.map (·.1.json)) :
    compTable t (txs.map (encodeTx rnd fixed)) = specParams rnd t txs := compTable_encode rnd fixed t txs hid hk

/-- … and these are the tables of the returned Result -/
theorem params_tables_of_run (rnd : Rat → Rat) (info : PyDict) (txs : List Tx)
    (hw : ∀ ir ∈ t4sOf txs, WellFormed ir) (hnd : ((t4sOf txs).map (·.1)).Nodup) :
    ∃ res, runNoFile rnd true true info txs = .ok res
      ∧ res.environments = compTable .E ((Tx.t0 info :: txs).map (encodeTx rnd true))
      ∧ res.learners = compTable .L ((Tx.t0 info :: txs).map (encodeTx rnd true))
      ∧ res.evaluators = compTable .V ((Tx.t0 info :: txs).map (encodeTx rnd true)) := by
  obtain ⟨res, h, _, he, hl, hv⟩ := runNoFile_spec rnd info txs hw hnd
  exact ⟨res, h, he, hl, hv⟩

/-- the three routes are one function of the transactions: running with a fresh file is running
without a file; `Result.from_file` on the written file is what `run` returned; and a restored run
(file written by a first run over `txs₁`, second run appending `txs₂`) is a single run over
`txs₁ ++ txs₂` — for every encoder/reader variant, all transactions, all rounding functions -/
theorem routes_agree (rnd : Rat → Rat) (fe fr : Bool) (info : PyDict) (txs₁ txs₂ : List Tx) :
    runFile rnd fe fr info none txs₁ = runNoFile rnd fe fr info txs₁
    ∧ fromFile fr (fileAfter rnd fe info none txs₁) = runFile rnd fe fr info none txs₁
    ∧ runFile rnd fe fr info (some (fileAfter rnd fe info none txs₁)) txs₂ = runNoFile rnd fe fr info (txs₁ ++ txs₂)
    ∧ fromFile fr (fileAfter rnd fe info (some (fileAfter rnd fe info none txs₁)) txs₂)
        = runFile rnd fe fr info (some (fileAfter rnd fe info none txs₁)) txs₂ := by
  refine ⟨rfl, rfl, ?_, rfl⟩
  simp only [runFile, runNoFile, fileAfter, encode_append]

/-! ### the Result of a run, as the statement demands it -/

/-- [core] for every clean run (`CleanRun`: what MakeTasks/ProcessTasks emit — each component and each
triple once, well-formed evaluation records, params keys distinct as strings) the returned Result is
exactly `specResult`: the interactions table holds, per triple in id order, exactly the yielded rows in
order, numbered 1..N, normalised; the three params tables hold exactly the params; `experiment` is the
preamble.  For all rounding functions, all values, all row shapes. -/
theorem run_spec (rnd : Rat → Rat) (info : PyDict) (txs : List Tx) (hc : CleanRun txs) :
    runNoFile rnd true true info txs = .ok (specResult rnd info txs) := run_spec' rnd info txs hc

example : CleanRun [.t1 0 [(.str "a", .tup [.int 1])], .t2 0 [], .t3 0 [(.bool true, .flt (1/3))],
    .t4 [0, 0, 0] [[(.str "x", .flt (1/3))], [(.none, .nan)]], .t4 [0, 0, 1] [[], []]] where
  noT0 := by intro m hm; simp at hm
  wf := by
    intro ir hir
    simp only [t4sOf, List.mem_cons, List.mem_nil_iff, or_false] at hir
    rcases hir with rfl | rfl <;> rfl
  triNodup := by simp [t4sOf]
  idNodup := by intro t; cases t <;> simp [paramsOf]
  keysOk := by
    intro t ip hip
    cases t <;> simp [paramsOf] at hip <;> subst hip <;> simp [Key.json, idColName]

/-- the order in which transactions reach the log is immaterial -/
theorem run_order_invariant (rnd : Rat → Rat) (info : PyDict) (txs txs' : List Tx) (hp : txs.Perm txs')
    (hc : CleanRun txs) : runNoFile rnd true true info txs = runNoFile rnd true true info txs' := by
  rw [run_spec' rnd info txs hc, run_spec' rnd info txs' (cleanRun_perm txs txs' hp hc), specResult_perm rnd info txs txs' hp hc]

/-- restored runs: a first run logging `txs₁` and a second run appending `txs₂` return the Result of a
single fresh run (with or without a file) that emits the same transactions in any order `txs` -/
theorem routes_agree_restored (rnd : Rat → Rat) (info : PyDict) (txs₁ txs₂ txs : List Tx)
    (hp : txs.Perm (txs₁ ++ txs₂)) (hc : CleanRun txs) :
    runFile rnd true true info (some (fileAfter rnd true info none txs₁)) txs₂ = runNoFile rnd true true info txs
    ∧ fromFile true (fileAfter rnd true info (some (fileAfter rnd true info none txs₁)) txs₂) = runNoFile rnd true true info txs := by
  have h := (routes_agree rnd true true info txs₁ txs₂).2.2
  rw [h.2, h.1, run_order_invariant rnd info txs (txs₁ ++ txs₂) hp hc]
  exact ⟨rfl, rfl⟩

/-- the evaluations appear in the interactions table in increasing order of their id triples -/
theorem order_by_ids (txs : List Tx) :
    (sortBy ltTriP (t4sOf txs)).Pairwise (fun a b => ¬ b.1 < a.1) := by
  have h := sortBy_sorted ltTriP ltTriP_asymm ltTriP_trans (t4sOf txs)
  refine h.imp ?_
  intro a b hab
  unfold leOf ltTriP at hab
  rw [Bool.eq_false_iff, ne_eq, ltIds_iff] at hab
  exact hab

/-- [phase 2] `punched_log_resume`: take the log of a clean run, delete ANY records from it (the version and experiment
lines stay; `keep` is an arbitrary sublist, not only a prefix — C02's `resume_eq_full` covers byte prefixes and shows that the
records kept plus the records the resumed run appends are a permutation of the full run's), let the resumed run append
`txs₂` so that nothing is missing or doubled: the decoded Result is the uninterrupted one, which is `specResult` -/
theorem punched_log_resume (rnd : Rat → Rat) (info : PyDict) (txs keep txs₂ : List Tx) (hc : CleanRun txs)
    (hk : keep.Sublist txs) (hp : (keep ++ txs₂).Perm txs) :
    (fileAfter rnd true info none keep).Sublist (fileAfter rnd true info none txs)
    ∧ fromFile true (fileAfter rnd true info none keep ++ encode rnd true true txs₂) = .ok (specResult rnd info txs)
    ∧ fromFile true (fileAfter rnd true info none txs) = .ok (specResult rnd info txs) :=
  punched_log_resume' rnd info txs keep txs₂ hc hk hp

/-- [phase 2] `tables_observable_spec`: what `Table.columns` / `Table.to_dicts()` expose beyond the rows.  For a table created
with `init` columns into which groups of rows are inserted one after the other: the initial columns come first, no column
twice, the columns are exactly the initial ones and every field of every row (so no field is lost), every row shows, per
column, its value for that field and `Missing` (`none`) where it has none -/
theorem tables_observable_spec (init : List String) (groups : List (List Row)) (hinit : init.Nodup) :
    init <+: (padTable init groups).columns ∧ (padTable init groups).columns.Nodup
    ∧ (∀ c, c ∈ (padTable init groups).columns ↔ c ∈ init ∨ ∃ g ∈ groups, ∃ r ∈ g, c ∈ rowKeys r)
    ∧ (padTable init groups).rows = groups.flatten.map (fun r => (padTable init groups).columns.map (fun c => r.lookup c))
    ∧ (∀ g ∈ groups, ∀ r ∈ g, ∀ k ∈ rowKeys r, k ∈ (padTable init groups).columns) :=
  tables_observable_spec' init groups hinit

/-- [phase 2] the four `Table`s of a decoded log are the padded views of exactly the rows of `readLog`'s Result: params tables
are one insertion of all rows, the interactions table one insertion per evaluation record (in id order) -/
theorem tables_of_result (fixed : Bool) (file : List Rec) (res : Result) (h : readLog fixed file = .ok res) :
    ∃ groups, tablesOf fixed file = .ok [padTable ["environment_id"] (if res.environments.isEmpty then [] else [res.environments]),
        padTable ["learner_id"] (if res.learners.isEmpty then [] else [res.learners]),
        padTable ["evaluator_id"] (if res.evaluators.isEmpty then [] else [res.evaluators]),
        padTable idCols groups] ∧ groups.flatten = res.interactions := tablesOf_readLog fixed file res h

/-! ### phase 3: records that are logged more than once -/

/-- [phase 3] `lastWins` (a Python dict filled by `d[k] = v`): the value kept for a key is the one of its last entry, every key
is kept once, nothing is invented; on a list with distinct keys it changes nothing -/
theorem lastWins_spec (l : List (List Int × List PyDict)) :
    (∀ k, (lastWins l).lookup k = l.reverse.lookup k) ∧ ((lastWins l).map (·.1)).Nodup ∧ (∀ p ∈ lastWins l, p ∈ l)
    ∧ ((l.map (·.1)).Nodup → lastWins l = l) :=
  ⟨lastWins_lookup l, lastWins_keys_nodup l, mem_lastWins l, lastWins_of_nodup l⟩

/-- [phase 3] `CleanRun.triNodup` lifted for the interactions table: for ANY list of transactions with well-formed evaluation
records — a triple may be logged twice or more (restored runs before 6c776fe, concurrent writers) — the table holds, per triple
in id order, exactly the rows of the LAST record of that triple.  (`interactions_roundtrip` is the special case of distinct triples,
see `specInteractionsLW_clean`.) -/
theorem interactions_last_wins (rnd : Rat → Rat) (info : PyDict) (txs : List Tx) (hw : ∀ ir ∈ t4sOf txs, WellFormed ir) :
    ∃ res, runNoFile rnd true true info txs = .ok res ∧ res.interactions = specInteractionsLW rnd txs :=
  runNoFile_lw rnd info txs hw

example : ∀ ir ∈ t4sOf [.t4 [0, 0, 0] [[(.str "a", .int 1)]], .t1 0 [], .t4 [0, 0, 0] [[(.str "a", .int 2)], []]], WellFormed ir := by
  intro ir hir
  simp only [t4sOf, List.mem_cons, List.mem_nil_iff, or_false] at hir
  rcases hir with rfl | rfl <;> rfl

theorem specInteractionsLW_clean (rnd : Rat → Rat) (txs : List Tx) (h : ((t4sOf txs).map (·.1)).Nodup) :
    specInteractionsLW rnd txs = specInteractions rnd txs := specInteractionsLW_eq rnd txs h

/-- [phase 3] `CleanRun.idNodup` lifted for the params tables: for ANY list of transactions, every id recorded for table `t` has
exactly one row, and it is the union, in log order, of all records of that id (`rows[id].update(params)`: later values win,
fields recorded only earlier stay) — for the pinned and the repaired encoder -/
theorem params_union (rnd : Rat → Rat) (fixed : Bool) (t : Tbl) (txs : List Tx) (id : Int) (h : id ∈ (paramsOf t txs).map (·.1)) :
    (id, unionParams rnd id (paramsOf t txs)) ∈ compRows t (txs.map (encodeTx rnd fixed))
    ∧ ((compRows t (txs.map (encodeTx rnd fixed))).map (·.1)).Nodup := params_union' rnd fixed t txs id h

example : (3 : Int) ∈ (paramsOf .E [.t1 3 [(.str "a", .int 1)], .t2 3 [], .t1 3 [(.str "b", .tup [])]]).map (·.1) := by
  simp [paramsOf]


/-! ### phase 4: translator tie.  `Generated/C07Consts.lean` is rewritten on every run from the CURRENT coba source (Python `ast`);
these obligations fail to compile as soon as the source's constants / key lists / dispatch tags differ from the model's. -/
section Phase4
open Coba.Generated

/-- [phase 4] what the source says equals what the model uses: log version written = accepted by decoder = accepted by reader = 4,
the T0..T4 -> record-tag dispatch of the encoder and the tags the reader tests, the `_packed` / `_n` keys (same literal on both
sides), `str(key)` field names, absent -> None, the exempt column list of `packed_list2tuple`, the `Table(columns=…)` literals,
the id columns assigned after unpacking (in source order), index from 1, `minimize`'s default precision 5 -/
theorem source_consts_match :
    C07.encVersion = 4 ∧ C07.decVersion = C07.encVersion ∧ C07.resVersion = C07.encVersion ∧
    C07.encTags = [("T0", "experiment"), ("T1", "E"), ("T2", "L"), ("T3", "V"), ("T4", "I")] ∧
    C07.resTags = C07.encTags.map Prod.snd ∧
    C07.packedKey = "_packed" ∧ C07.countKey = "_n" ∧ C07.encKeyIsStr = true ∧ C07.encAbsentIsNone = true ∧
    C07.exemptCols = ["rewards"] ∧ C07.intCols = idCols ∧ C07.idAssigned = idCols ∧
    C07.paramCols = [Tbl.E, Tbl.L, Tbl.V].map idColName ∧ C07.indexFrom = 1 ∧ 10 ^ C07.precision = 100000 := source_consts_match'

/-- [phase 4] the model's encoder writes the source's version line -/
theorem encode_uses_source_version (rnd : Rat → Rat) (fixed : Bool) (txs : List Tx) :
    encode rnd fixed false txs = Rec.version C07.encVersion :: txs.map (encodeTx rnd fixed) := encode_uses_source_version' rnd fixed txs

/-- [phase 4] the model's reader rejects every version but the source's -/
theorem readLog_version_gate (fixed : Bool) (n : Int) (recs : List Rec) (h : n ≠ C07.resVersion) :
    readLog fixed (Rec.version n :: recs) = .error .stopIteration := readLog_version_gate' fixed n recs h

example : (3 : Int) ≠ C07.resVersion := by decide

/-- [phase 4] `round5` is `round(v*P)/P` for the source's `P = 10**precision` -/
theorem round5_uses_source_precision (q : Rat) :
    round5 q = (rhe (fl (q * ((10 ^ C07.precision : Nat) : Rat))) : Rat) / ((10 ^ C07.precision : Nat) : Rat) :=
  round5_uses_source_precision' q

/-- [phase 4] the specification's and the reader's exemption from the tuple conversion is the source's list -/
theorem exempt_uses_source_list (rnd : Rat → Rat) (col : String) (v : Val) (cols : List (String × List Val)) :
    normCell rnd col v = (if col ∈ C07.exemptCols then normIn rnd v else normTop rnd v)
    ∧ tupleColsPerCell cols = cols.map (fun c => (c.1, if c.1 ∈ C07.exemptCols then c.2 else c.2.map tupTop)) :=
  ⟨normCell_uses_source_exempt' rnd col v, tupleCols_uses_source_exempt' cols⟩

/-- [phase 4] the id cells prepended to every row are the source's `packed[name] = …` assignments, in source order, index from the source's start -/
theorem idCells_uses_source_cols (e l v : Int) (i : Nat) :
    (idCells e l v i).map Prod.fst = C07.idAssigned ∧ (idCells e l v (Int.toNat C07.indexFrom)).getLast? = some ("index", .int 1) :=
  idCells_uses_source_cols' e l v i

end Phase4

/-! ### phase 5: the tables as `Table` exposes them do not depend on the order of the log -/

/-- [phase 5] the padded tables (column order + `Missing` cells) of a clean run are exactly `specTables`: each params table is one
insertion of `specParams`, the interactions table one insertion per triple (in id order) of its `specRows` — this replaces the
existential grouping of `tables_of_result` by the explicit one -/
theorem tables_spec (rnd : Rat → Rat) (info : PyDict) (txs : List Tx) (hc : CleanRun txs) :
    tablesOf true (fileAfter rnd true info none txs) = .ok (specTables rnd txs) := tablesOf_run rnd info txs hc

/-- [phase 5] `tablesOf` order independence: for ANY permutation `txs'` of a clean run's transactions the four padded tables —
column order and `Missing` padding included — are those of `txs` -/
theorem tables_order_invariant (rnd : Rat → Rat) (info : PyDict) (txs txs' : List Tx) (hp : txs.Perm txs') (hc : CleanRun txs) :
    tablesOf true (fileAfter rnd true info none txs') = .ok (specTables rnd txs)
    ∧ tablesOf true (fileAfter rnd true info none txs) = .ok (specTables rnd txs) :=
  tables_order_invariant' rnd info txs txs' hp hc

/-- [phase 5] … and so are the tables of a restored run on any kept part of the log (`keep`) that appends the rest (`txs₂`), in any order -/
theorem tables_punched_log (rnd : Rat → Rat) (info : PyDict) (txs keep txs₂ : List Tx) (hc : CleanRun txs)
    (hp : (keep ++ txs₂).Perm txs) :
    tablesOf true (fileAfter rnd true info (some (fileAfter rnd true info none keep)) txs₂) = .ok (specTables rnd txs) :=
  tables_punched_log' rnd info txs keep txs₂ hc hp

/-- [phase 5] the specified insertion groups hold exactly the specified interaction rows, in order; no group is empty -/
theorem specGroups_spec (rnd : Rat → Rat) (txs : List Tx) :
    (specGroups rnd txs).flatten = specInteractions rnd txs ∧ ∀ g ∈ specGroups rnd txs, g ≠ [] := by
  refine ⟨specGroups_flatten rnd txs, ?_⟩
  intro g hg
  simp only [specGroups, List.mem_filter, Bool.not_eq_eq_eq_not, Bool.not_true] at hg
  intro e; simp [e] at hg

/-- a late column: the second triple (in id order) brings field `b`; logged first or last, `b` is the last column and the first
triple's row shows `Missing` there -/
example : (match tablesOf true (fileAfter round5 true [] none [.t4 [0, 0, 1] [[(.str "b", .int 2)]], .t4 [0, 0, 0] [[(.str "c", .int 1)]]]) with
      | .ok ts => ts.map (fun t => (t.columns, t.rows.map (fun r => r.map Option.isSome)))
      | .error _ => [])
    = [(["environment_id"], []), (["learner_id"], []), (["evaluator_id"], []),
       (["environment_id", "learner_id", "evaluator_id", "index", "c", "b"],
        [[true, true, true, true, true, false], [true, true, true, true, false, true]])] := by decide +kernel

/-- [phase 5] `CleanRun` is decidable: the executable test the driver reports is exact -/
theorem cleanRunB_iff (txs : List Tx) : cleanRunB txs = true ↔ CleanRun txs :=
  ⟨cleanRunB_sound txs, cleanRunB_complete txs⟩

/-! ### phase 5: `Result.__init__` — the learner cache and `full_name` are functions of the padded learners table -/

/-- [phase 5] `full_name_spec`: for a table built by inserting `groups` into `init` columns, the `full_name` ingredients of every row are
computed from that row's OWN fields (the `Missing` padding for other learners' columns never shows); the `k=v` parts are exactly the
row's fields other than `''`, `family`, `learner_id`, each with its value, and they follow the table's column order -/
theorem full_name_spec (init : List String) (groups : List (List Row)) :
    lrnNames (padTable init groups) = groups.flatten.map (fun r => fullNameOf (padTable init groups).columns (fun c => r.lookup c))
    ∧ (∀ r ∈ groups.flatten, ∀ k v, (k, v) ∈ nameParams (padTable init groups).columns (fun c => r.lookup c)
        ↔ (k ≠ "" ∧ k ≠ "family" ∧ k ≠ "learner_id" ∧ r.lookup k = some v))
    ∧ (∀ r : Row, ((nameParams (padTable init groups).columns (fun c => r.lookup c)).map (·.1)).Sublist (padTable init groups).columns) := by
  refine ⟨lrnNames_padTable init groups, ?_, fun r => nameParams_sublist _ _⟩
  intro r hr k v
  apply nameParams_mem
  intro c w hc
  obtain ⟨g, hg, hrg⟩ := List.mem_flatten.mp hr
  exact (tableCols_mem init groups c).mpr (Or.inr ⟨g, hg, r, hrg, lookup_some_key r c w hc⟩)

/-- [phase 5] hence for a clean run the learner cache does not depend on the order of the log either: it is that of `specTables` -/
theorem full_name_order_invariant (rnd : Rat → Rat) (info : PyDict) (txs txs' : List Tx) (hp : txs.Perm txs') (hc : CleanRun txs) :
    (tablesOf true (fileAfter rnd true info none txs')).map (fun ts => ts.map lrnNames)
      = .ok ((specTables rnd txs).map lrnNames) := by
  rw [(tables_order_invariant' rnd info txs txs' hp hc).1]; rfl

/-- two learners with different fields: each name lists its own fields only; `vw` needs family, args and seed -/
example : (lrnNames (padTable ["learner_id"] [[[("learner_id", .int 0), ("family", .str "vw"), ("args", .str "--cb 2"), ("seed", .int 1)],
      [("learner_id", .int 1), ("family", .str "eps"), ("epsilon", .flt (1/10))]]])).map (fun o => o.map (fun n => (n.params.map (·.1), n.vw)))
    = [some (["args", "seed"], true), some (["epsilon"], false)] := by decide +kernel

/-! ### phase 5: translator — the record-writing / record-reading dispatch read off the source as tables -/
section Phase5Shapes
open Coba.Generated

/-- [phase 5] the (transaction tag → record tag, elements written) table of `TransactionEncode.filter` and the (record tag → variable, `trx[k]` read)
table of `TransactionResult.filter`, both regenerated from the CURRENT source on every run, are the model's -/
theorem source_shapes_match : C07.encShapes = modelEncShapes ∧ C07.resShapes = modelResShapes := source_shapes_match'

/-- [phase 5] round trip over the EXTRACTED tables: the line the source's encoder table writes for a transaction, read through the source's reader
table, is exactly the record of the model's encoder (`encodeTx`) — for every transaction, both encoder variants, every rounding function -/
theorem line_roundtrip_source (rnd : Rat → Rat) (fixed : Bool) (tx : Tx) :
    (encodeLine C07.encShapes rnd fixed tx).bind (decodeLine C07.resShapes) = some (encodeTx rnd fixed tx) := by
  rw [source_shapes_match'.1, source_shapes_match'.2]; exact line_roundtrip_model rnd fixed tx

/-- [phase 5] … and for whole logs -/
theorem log_roundtrip_source (rnd : Rat → Rat) (fixed : Bool) (txs : List Tx) :
    (encodeLines C07.encShapes rnd fixed txs).bind (decodeLines C07.resShapes) = some (txs.map (encodeTx rnd fixed)) := by
  rw [source_shapes_match'.1, source_shapes_match'.2]; exact lines_roundtrip_model rnd fixed txs

/-- [phase 5] hence a clean run written and read through the source's tables (version line from the source) is `specResult` -/
theorem run_spec_via_source_tables (rnd : Rat → Rat) (info : PyDict) (txs : List Tx) (hc : CleanRun txs) :
    ((encodeLines C07.encShapes rnd true (.t0 info :: txs)).bind (decodeLines C07.resShapes)).map
        (fun recs => readLog true (Rec.version C07.encVersion :: recs)) = some (.ok (specResult rnd info txs)) := by
  rw [log_roundtrip_source, Option.map_some, ← run_spec' rnd info txs hc]; rfl

end Phase5Shapes

/-! ### phase 6: order independence for logs in which the SAME id is recorded several times

Phase 3 left open: "invariant under permutations that keep the relative order of the records of each id".  `SameKeyOrder a b` says exactly
that (for every dictionary entry of `TransactionResult` — experiment, (table, id), id triple — the records going to it are the same and in
the same order); no hypothesis on the records themselves (any ids, any number of repeats, pinned or repaired reader). -/
section Phase6

/-- [phase 6] the Result and the padded tables read from a log depend only on the relative order of the records of each single id -/
theorem same_key_order_invariant (fr : Bool) (n : Int) (a b : List Rec) (h : SameKeyOrder a b) :
    readLog fr (.version n :: a) = readLog fr (.version n :: b) ∧ tablesOf fr (.version n :: a) = tablesOf fr (.version n :: b) :=
  readLog_same_key_order' fr n a b h

/-- the hypothesis is needed: swapping two records of the SAME id changes the learners table (later values win) -/
theorem same_key_order_counterexample :
    (readLog true [.version 4, .comp .L 0 [("x", .int 1)], .comp .L 0 [("x", .int 2)]]).toOption.map (·.learners)
        = some [[("learner_id", .int 0), ("x", .int 2)]]
    ∧ (readLog true [.version 4, .comp .L 0 [("x", .int 2)], .comp .L 0 [("x", .int 1)]]).toOption.map (·.learners)
        = some [[("learner_id", .int 0), ("x", .int 1)]] := same_key_order_counterexample'

/-- non-vacuity: a rearrangement that moves a record of learner 1 between the two records of learner 0 -/
example : SameKeyOrder [.comp .L 0 [("x", .int 1)], .comp .L 0 [("x", .int 2)], .comp .L 1 []]
                       [.comp .L 0 [("x", .int 1)], .comp .L 1 [], .comp .L 0 [("x", .int 2)]] := by
  intro k
  by_cases h0 : k = .comp .L 0
  · subst h0; simp [recKey]
  · by_cases h1 : k = .comp .L 1
    · subst h1; simp [recKey]
    · have e0 : ¬ RecKey.comp .L 0 = k := fun e => h0 e.symm
      have e1 : ¬ RecKey.comp .L 1 = k := fun e => h1 e.symm
      simp [recKey, e0, e1]

/-- `regroupBy ks` (pull the records of every key of `ks` to the front, one key after the other) keeps every id's records in order
and loses / duplicates nothing -/
theorem regroupBy_sameKeyOrder (ks : List RecKey) (recs : List Rec) :
    SameKeyOrder recs (regroupBy ks recs) ∧ (regroupBy ks recs).Perm recs :=
  ⟨regroupBy_sameKeyOrder' ks recs, regroupBy_perm ks recs⟩

/-- the grouped log the driver evaluates (and the harness writes to disk) reads back as the original one -/
theorem regroupLog_same (fr : Bool) (recs : List Rec) :
    readLog fr (regroupLog recs) = readLog fr recs ∧ tablesOf fr (regroupLog recs) = tablesOf fr recs :=
  regroupLog_same' fr recs

/-- [phase 6, key handling] `1`, `True` and `1.0` are equal as Python dictionary keys but are three field names for the encoder (`str(k)`:
`'1'`, `'True'`, `'1.0'`, each row filling only its own column) and three keys for json (`'1'`, `'true'`, `'1.0'`) — the general statements are
`pack_unpack` / `strKeys_spec` / `wire_normalises`, which speak about `str(key)` resp. the json key only; this is the concrete instance the harness
family `key:python-equal-names` replays on the real code -/
theorem python_equal_names_kept_apart (a b c : Val) :
    pack [[(Key.int 1, a)], [(Key.bool true, b)], [(Key.other "1.0", c)]]
      = [("1", [a, .none, .none]), ("1.0", [.none, .none, c]), ("True", [.none, b, .none])]
    ∧ jsonify (.dict [(Key.int 1, a), (Key.bool true, b), (Key.other "1.0", c)])
      = .dict [(Key.str "1", jsonify a), (Key.str "true", jsonify b), (Key.str "1.0", jsonify c)] :=
  python_equal_names_kept_apart' a b c

end Phase6

end Coba.C07
