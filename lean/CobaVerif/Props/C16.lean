/-
C16 — Built-in learners always return a valid, self-consistent distribution.
Property theorems only (helper lemmas live in `Lemmas/C16.lean`, the model in `Model/C16.lean`).

Reading of the statement.  A learner is offered a duplicate-free, non-empty list of actions
(actions = their `==`-classes).  `Valid pmf n`: `pmf` has `n` entries, all `≥ 0`, summing to 1.
Every theorem below holds for EVERY float-rounding function `fl` (the running means are computed
through it) and EVERY UCB index `val` (mean + exploration bonus), so no property of floating point,
`log` or `sqrt` is assumed.
-/
import CobaVerif.Lemmas.C16
import CobaVerif.Lemmas.C16Real
import CobaVerif.Lemmas.C16Gen
import CobaVerif.Lemmas.C16Safe
import CobaVerif.Lemmas.C16Float

namespace Coba.C16
open Coba.C05 (next)

/-- epsilon-greedy: for any table of values (any history), any ε ∈ [0,1] and any non-empty action
list the pmf is a distribution (ties share 1-ε equally, ε is spread uniformly) -/
theorem eps_pmf_dist (st : Eps) (actions : List Act) (h0 : 0 ≤ st.eps) (h1 : st.eps ≤ 1) (hne : actions ≠ []) :
    Valid (st.pmf actions) actions.length := Eps.pmf_valid st actions h0 h1 hne

example : (0 : Rat) ≤ (0 : Rat) ∧ (0 : Rat) ≤ 1 ∧ ([3, 5] : List Act) ≠ [] := by simp

/-- UCB: for every index function (∀ bonus), in every state whose dictionaries are consistent
(`Ucb.Inv`, an invariant of `learn`: `ucb_learn_total`), the pmf is defined (no KeyError, no log 0,
no division by 0) and is a distribution: uniform on the never-observed actions, else on the arg-max set -/
theorem ucb_pmf_dist (val : Act → Rat) (st : Ucb) (actions : List Act) (hinv : st.Inv)
    (hne : actions ≠ []) (hnd : actions.Nodup) :
    ∃ pmf, st.pmf val actions = .ok pmf ∧ Valid pmf actions.length := Ucb.pmf_valid val st actions hinv hne hnd

example : Ucb.Inv {} := Ucb.inv_init

/-- Fixed (a pmf of the right length) and Random -/
theorem fixed_random_dist (val : Act → Rat) (actions : List Act) (hne : actions ≠ []) (hnd : actions.Nodup) :
    (∀ p : List Rat, (∀ x ∈ p, 0 ≤ x) → p.sum = 1 → p.length = actions.length →
      ∃ pmf, (Kind.fixed p).pmf val actions = .ok pmf ∧ Valid pmf actions.length) ∧
    (∃ pmf, Kind.random.pmf val actions = .ok pmf ∧ Valid pmf actions.length) :=
  ⟨fun p h1 h2 h3 => Kind.pmf_valid val (.fixed p) actions ⟨h1, h2⟩ hne hnd (by intro m hm; cases hm; exact h3),
   Kind.pmf_valid val .random actions trivial hne hnd (by intro m hm; cases hm)⟩

/-- `score(context, actions, a)` is the entry of the current pmf at `a`'s position … -/
theorem score_eq_pmf (val : Act → Rat) (L : Learner) (actions : List Act) (a : Act) (pmf : List Rat)
    (hpmf : L.kind.pmf val actions = .ok pmf) (hlen : pmf.length = actions.length) (ha : a ∈ actions) :
    ∃ p, L.score val actions a = .ok p ∧ pmf[actions.idxOf a]? = some p :=
  Learner.score_eq val L actions a pmf hpmf hlen ha

/-- … so over a duplicate-free action list the score vector IS the pmf: non-negative, sums to 1 -/
theorem score_vector_is_pmf (val : Act → Rat) (L : Learner) (actions : List Act) (hinv : L.kind.Inv)
    (hne : actions ≠ []) (hnd : actions.Nodup) (hfit : Fits L.kind.arity actions.length) :
    ∃ pmf, Valid pmf actions.length ∧ actions.map (fun a => L.score val actions a) = pmf.map Except.ok := by
  obtain ⟨pmf, hp, hv⟩ := Kind.pmf_valid val L.kind actions hinv hne hnd hfit
  exact ⟨pmf, hv, Learner.scores_eq_pmf val L actions pmf hp hv.1 hnd⟩

/-- `predict` returns an offered action (index `i < n`) together with exactly the probability the
current pmf gives it, and that probability is strictly positive (uses C05's weighted choice, full
strength since `choice` no longer returns zero-weight members); one uniform is consumed -/
theorem predict_mem_pos (val : Act → Rat) (L : Learner) (actions : List Act) (hinv : L.kind.Inv)
    (hne : actions ≠ []) (hnd : actions.Nodup) (hfit : Fits L.kind.arity actions.length) :
    ∃ i p pmf, L.predict val actions = .ok ({ L with rng := next L.rng }, i, p, pmf) ∧
      L.kind.pmf val actions = .ok pmf ∧ Valid pmf actions.length ∧ i < actions.length ∧ pmf[i]? = some p ∧ 0 < p :=
  Learner.predict_ok val L actions hinv hne hnd hfit

/-- `learn` never raises — for never-seen actions, actions that are no longer offered, any reward,
under any Misguided wrappers — and leaves a learner that can predict (`Kind.Inv` is what
`predict_mem_pos` needs) -/
theorem learn_total (fl : Rat → Rat) (L : Learner) (a : Act) (r : Rat) (hinv : L.kind.Inv) :
    ∃ L', L.learn fl a r = .ok L' ∧ L'.kind.Inv ∧ L'.kind.arity = L.kind.arity := Learner.learn_ok fl L a r hinv

theorem ucb_learn_total (fl : Rat → Rat) (st : Ucb) (a : Act) (r : Rat) (hinv : st.Inv) :
    ∃ st', st.learn fl a r = .ok st' ∧ st'.Inv := Ucb.learn_total fl st a r hinv

/-- whole histories: from any valid learner, for every rounding function, every UCB index and
every sequence of in-quantifier calls, no call raises and every answer is what the property demands -/
theorem run_valid (fl : Rat → Rat) (val : Nat → Act → Rat) (ops : List Op) (k : Nat) (L : Learner)
    (hinv : L.kind.Inv) (hops : ∀ op ∈ ops, OpOk L.kind.arity op) :
    List.Forall₂ OutOk ops (runL fl val k L ops) := runL_valid fl val ops k L hinv hops

example : (Kind.eps { eps := 1 / 10 }).Inv ∧ (Kind.ucb {}).Inv ∧ Kind.random.Inv ∧ (Kind.fixed [1 / 4, 3 / 4]).Inv := by
  refine ⟨by norm_num [Kind.Inv], Ucb.inv_init, trivial, ?_⟩
  norm_num [Kind.Inv]

/-- Corral's pmf over the actions is the mixture of its base learners' choices: non-negative and
with the same total as the smoothed weights (every base learner chose an offered action) -/
theorem corral_pmf_dist (pbars : List Rat) (bacts actions : List Act) (hnd : actions.Nodup)
    (hlen : bacts.length = pbars.length) (hb : ∀ b ∈ bacts, b ∈ actions)
    (hpos : ∀ p ∈ pbars, 0 ≤ p) (hsum : pbars.sum = 1) :
    Valid (corralPmf pbars bacts actions) actions.length := corralPmf_valid pbars bacts actions hnd hlen hb hpos hsum

/-- one Corral update with ANY multiplier λ for which `update(λ)` is defined (all denominators
`1/p_i + η_i(ℓ_i - λ)` positive, i.e. λ left of the first pole — the loop invariant of the repaired
search) keeps every weight and smoothed weight strictly positive and summing to 1, the learning
rates positive; it does not raise for rewards in [0,1] and a non-zero probability -/
theorem corral_step_pos (c : Corral) (bacts : List Act) (a : Act) (r p lam : Rat) (hinv : c.Inv)
    (hlen : bacts.length = c.ps.length) (hr0 : 0 ≤ r) (hr1 : r ≤ 1) (hp : p ≠ 0)
    (hlam : ∃ raw, omdRaw c.ps c.etas (corralLosses bacts a r p) lam = some raw) :
    ∃ c', c.learnWith bacts a r p lam = .ok c' ∧ c'.Inv ∧ c'.ps.length = c.ps.length :=
  Corral.learnWith_ok c bacts a r p lam hinv hlen hr0 hr1 hp hlam

/-- the multiplier the repaired bisection returns always satisfies that condition … -/
theorem omd_search_valid (ps etas losses : List Rat) (hp : ∀ p ∈ ps, 0 < p) (he : ∀ e ∈ etas, 0 ≤ e) :
    ∃ raw, omdRaw ps etas losses (omdLambda ps etas losses) = some raw := omdLambda_valid ps etas losses hp he

/-- … hence `learn` never raises and never leaves Corral unable to predict -/
theorem corral_learn_total (c : Corral) (bacts : List Act) (a : Act) (r p : Rat) (hinv : c.Inv)
    (hlen : bacts.length = c.ps.length) (hr0 : 0 ≤ r) (hr1 : r ≤ 1) (hp : p ≠ 0) :
    ∃ c', c.learn bacts a r p = .ok c' ∧ c'.Inv ∧ c'.ps.length = c.ps.length :=
  Corral.learn_ok c bacts a r p hinv hlen hr0 hr1 hp

/-- the weights are a distribution to (better than) the 1e-4 the property allows -/
theorem corral_sum_tol (c : Corral) (h : c.Inv) :
    |c.ps.sum - 1| ≤ 1 / 10000 ∧ |c.pbars.sum - 1| ≤ 1 / 10000 := Corral.Inv.sum_tol c h

/-- a fresh CorralLearner satisfies the invariant (M ≥ 1 base learners, η > 0, γ = 1/T ∈ [0,1], β > 0) -/
theorem corral_init_inv (fl : Rat → Rat) (M : Nat) (eta gamma beta : Rat) (imp : Bool) (rng : Nat)
    (hM : M ≠ 0) (hfl : fl (1 / (M : Rat)) = 1 / (M : Rat)) (heta : 0 < eta) (hg0 : 0 ≤ gamma) (hg1 : gamma ≤ 1) (hb : 0 < beta) :
    (Corral.init fl M eta gamma beta imp rng).Inv := Corral.init_inv fl M eta gamma beta imp rng hM hfl heta hg0 hg1 hb

/-- whole Corral histories (base learners' choices arbitrary among the offered actions): every
visited state has strictly positive weights summing to 1, no call raises, every predict returns an
offered action with its strictly positive mixture probability -/
theorem corral_run_valid (ops : List COp) (c : Corral) (hinv : c.Inv) (hops : ∀ op ∈ ops, COpOk c.ps.length op) :
    List.Forall₂ (fun op co => co.1.Inv ∧ OutOkC op co.2) ops (runC c ops) := runC_valid ops c hinv hops

/-- the search's bracket: at `min(losses)` the new weights sum to at most the old total … -/
theorem omd_bracket_low (ps etas losses : List Rat) (lam : Rat) (hp : ∀ p ∈ ps, 0 < p)
    (he : ∀ e ∈ etas, 0 ≤ e) (hl : ∀ l ∈ losses, lam ≤ l) (h1 : etas.length = ps.length) (h2 : losses.length = ps.length) :
    ((omdDenoms ps etas losses lam).map (fun d => 1 / d)).sum ≤ ps.sum := omd_sum_le_of_le ps etas losses lam hp he hl h1 h2

/-- … and at `max(losses)`, if still left of the first pole, to at least the old total -/
theorem omd_bracket_high (ps etas losses : List Rat) (lam : Rat) (hp : ∀ p ∈ ps, 0 < p)
    (he : ∀ e ∈ etas, 0 ≤ e) (hl : ∀ l ∈ losses, l ≤ lam) (hd : ∀ d ∈ omdDenoms ps etas losses lam, 0 < d)
    (h1 : etas.length = ps.length) (h2 : losses.length = ps.length) :
    ps.sum ≤ ((omdDenoms ps etas losses lam).map (fun d => 1 / d)).sum := omd_sum_ge_of_ge ps etas losses lam hp he hl hd h1 h2

/-- the hypothesis of `corral_step_pos` is necessary, and the UNREPAIRED `_log_barrier_omd` violated
it: its shortcut `lmbda = max_loss` only tested that the sum rounds to 1.  Witness (replayed on the
real code by the harness, known finding C16-F1): weights (0.99999, 5e-6, 5e-6), losses (1e9, 0, 1e9),
η = 1 — at λ = max_loss the sum rounds to 1 yet the second weight is negative. -/
theorem corral_unguarded_shortcut_counterexample :
    let ps : List Rat := [99999 / 100000, 1 / 200000, 1 / 200000]
    let etas : List Rat := [1, 1, 1]
    let losses : List Rat := [1000000000, 0, 1000000000]
    let new := (omdDenoms ps etas losses 1000000000).map (fun d => 1 / d)
    (∀ p ∈ ps, 0 < p) ∧ ps.sum = 1 ∧ rounds1 new.sum = true ∧ (∃ x ∈ new, x < 0) ∧
      omdRaw ps etas losses 1000000000 = none := omd_shortcut_witness

/-! ## Phase 2 -/

/-- `f(λ) = Σ 1/(1/p_i + η_i(ℓ_i-λ))` over ℝ is the model's `update` sum (cast) … -/
theorem omd_model_is_barrier (ps etas losses : List Rat) (lam : Rat) :
    barrier (tris ps etas losses) (lam : ℝ) = ((((omdDenoms ps etas losses lam).map (fun d => 1 / d)).sum : Rat) : ℝ) :=
  barrier_tris ps etas losses lam

/-- … and `update(λ)` is defined exactly left of every pole `ℓ_i + 1/(p_i η_i)` -/
theorem omd_defined_iff_below (ps etas losses : List Rat) (lam : Rat) (hp : ∀ p ∈ ps, 0 < p) (he : ∀ e ∈ etas, 0 < e) :
    Below (tris ps etas losses) (lam : ℝ) ↔ ∀ d ∈ omdDenoms ps etas losses lam, 0 < d :=
  below_tris_iff ps etas losses lam hp he

/-- **the first bracket has a root, and only one** (IVT + strict monotonicity over ℝ): for positive
weights summing to 1 and positive learning rates there is exactly one real multiplier left of every
pole with `f = 1`, and it lies between the smallest and the largest loss — the interval the repaired
`_log_barrier_omd` bisects.  (f is continuous and strictly increasing there, `f(min ℓ) ≤ Σp`, and
`f ≥ 1` is reached before the first pole.) -/
theorem first_bracket_has_root (ps etas losses : List Rat) (hne : ps ≠ []) (h1 : etas.length = ps.length)
    (h2 : losses.length = ps.length) (hp : ∀ p ∈ ps, 0 < p) (he : ∀ e ∈ etas, 0 < e) (hsum : ps.sum = 1) :
    ∃ x : ℝ, Below (tris ps etas losses) x ∧ barrier (tris ps etas losses) x = 1 ∧
      (∀ y, Below (tris ps etas losses) y → barrier (tris ps etas losses) y = 1 → y = x) ∧
      (∃ m ∈ tris ps etas losses, (∀ t ∈ tris ps etas losses, m.2.2 ≤ t.2.2) ∧ m.2.2 ≤ x) ∧
      (∃ M ∈ tris ps etas losses, (∀ t ∈ tris ps etas losses, t.2.2 ≤ M.2.2) ∧ x ≤ M.2.2) :=
  first_bracket_root_model ps etas losses hne h1 h2 hp he hsum

/-- **termination of the repaired bisection** over any linearly ordered carrier `F` with a strictly
monotone rank into ℕ (IEEE doubles ordered by value), ANY midpoint that stays inside the bracket
(`fl((l+r)/2)` does, rounding being monotone), ANY exit test, probe and decision rule: the loop
leaves by one of its own exits within `rank r - rank l + 1` iterations (for doubles: at most the
number of doubles strictly inside the bracket, plus one). -/
theorem bisect_terminates {F α} [LinearOrder F] (mid : F → F → F) (done : α → Bool) (probe : F → Option α) (tooBig : α → Bool)
    (rank : F → Nat) (hrank : StrictMono rank) (hmid : ∀ l r, l ≤ r → l ≤ mid l r ∧ mid l r ≤ r) (fuel : Nat)
    (l r : F) (cur : α) (hlr : l ≤ r) (hfuel : rank r - rank l < fuel) :
    (bisect mid done probe tooBig fuel l r cur).2 = true :=
  bisect_halts mid done probe tooBig rank hrank hmid fuel l r cur hlr hfuel

example : StrictMono (fun i : Fin 1000 => i.val) ∧
    ∀ l r : Fin 1000, l ≤ r → l ≤ (⟨(l.val + r.val) / 2, by omega⟩ : Fin 1000) ∧ (⟨(l.val + r.val) / 2, by omega⟩ : Fin 1000) ≤ r := by
  refine ⟨fun a b h => h, ?_⟩
  intro l r h
  have : l.val ≤ r.val := h
  constructor
  · show l.val ≤ (l.val + r.val) / 2; omega
  · show (l.val + r.val) / 2 ≤ r.val; omega

/-- and whatever happens it only ever holds a multiplier it has probed successfully -/
theorem bisect_keeps_valid {F α} [DecidableEq F] (mid : F → F → F) (done : α → Bool) (probe : F → Option α) (tooBig : α → Bool)
    (fuel : Nat) (l r : F) (cur : α) (h : probe l = some cur) :
    probe (bisect mid done probe tooBig fuel l r cur).1.1 = some (bisect mid done probe tooBig fuel l r cur).1.2 :=
  bisect_inv mid done probe tooBig fuel l r cur h

/-- **nested compositions**: at every nesting depth `n` (plain learners; Misguided Corrals over
plain learners; Corrals over those; …) `predict` returns an offered action with a positive
probability and `learn` does not raise and keeps the invariant — under the FORCED HYPOTHESIS
`accepts`: every Corral at or below the learner is handed a reward in [0,1] (after its Misguided
wrappers) and a non-zero probability (`towerLaws`/`corralLaws` spell it out). -/
theorem corral_nested_valid (fl : Rat → Rat) (n : Nat) :
    (∀ s actions, (towerLaws fl n).inv s → actions ≠ [] → actions.Nodup → (towerLaws fl n).fits s actions.length →
      ∃ s' a p, (tower fl n).predict s actions = .ok (s', a, p) ∧ (towerLaws fl n).inv s' ∧ (towerLaws fl n).ready s' ∧
        a ∈ actions ∧ 0 < p ∧ (∀ m, (towerLaws fl n).fits s m → (towerLaws fl n).fits s' m)) ∧
    (∀ s a r p, (towerLaws fl n).inv s → (towerLaws fl n).ready s → (towerLaws fl n).accepts s a r p →
      ∃ s', (tower fl n).learn s a r p = .ok s' ∧ (towerLaws fl n).inv s' ∧ (∀ m, (towerLaws fl n).fits s m → (towerLaws fl n).fits s' m)) :=
  ⟨(towerLaws fl n).predict_ok, (towerLaws fl n).learn_ok⟩

/-- the hypothesis is necessary, and importance mode violates it for an inner Corral: reward 1 at
probability 1/2 reaches the base learner that chose the played action as 2, which a Corral rejects
(`assert 0 <= reward <= 1`; replayed on the real code) -/
theorem corral_importance_feedback_unbounded :
    corralFeedback true [0] [1] 0 1 (1 / 2) = [(0, 2, 1)] ∧
      ∀ (c : Corral) (bacts : List Act) (a : Act) (p : Rat), c.learn bacts a 2 p = .error .assertion :=
  importance_feedback_unbounded

/-- UCB1 initialisation: while an offered action has never been observed, exactly the never-observed
actions carry probability, uniformly — for every index function -/
theorem ucb_never_observed_first (val : Act → Rat) (st : Ucb) (actions : List Act) (hnd : actions.Nodup)
    (h : ∃ a ∈ actions, dhas st.m a = false) :
    st.pmf val actions = .ok (actions.map (fun a =>
      if dhas st.m a = false then 1 / ((actions.filter (fun a => !dhas st.m a)).length : Rat) else 0)) :=
  Ucb.pmf_never_first val st actions hnd h

/-- epsilon-greedy: each of the `k` greedy actions (maximal `_Q`) carries `(1-ε)/k + ε/n`, every other `ε/n` -/
theorem eps_greedy_argmax_mass (st : Eps) (actions : List Act) (hne : actions ≠ []) :
    ∃ (M : Rat) (k : Nat), (∀ a ∈ actions, st.q a ≤ M) ∧ (∃ a ∈ actions, st.q a = M) ∧
      k = (actions.filter (fun a => decide (st.q a = M))).length ∧ 0 < k ∧
      st.pmf actions = actions.map (fun a =>
        if st.q a = M then (1 - st.eps) / (k : Rat) + st.eps / (actions.length : Rat) else st.eps / (actions.length : Rat)) :=
  Eps.pmf_shape st actions hne

/-- `MisguidedLearner.learn` teaches the wrapped learner `shifter + scaler*reward` (as computed in
floating point) and changes nothing else … -/
theorem misguided_learn (fl : Rat → Rat) (L : Learner) (sh sc : Rat) (a : Act) (r : Rat) :
    ({ L with mis := (sh, sc) :: L.mis }).learn fl a r =
      (match L.learn fl a (fl (sh + fl (sc * r))) with
       | .ok L' => .ok { L' with mis := (sh, sc) :: L'.mis }
       | .error e => .error e) := Learner.learn_misguided fl L sh sc a r

/-- … and its `predict` / `score` are the wrapped learner's -/
theorem misguided_predict (val : Act → Rat) (L : Learner) (m : List (Rat × Rat)) (actions : List Act) :
    ({ L with mis := m }).predict val actions =
      (match L.predict val actions with
       | .ok (L', i, p, pmf) => .ok ({ L' with mis := m }, i, p, pmf)
       | .error e => .error e) := Learner.predict_misguided val L m actions

theorem misguided_score (val : Act → Rat) (L : Learner) (m : List (Rat × Rat)) (actions : List Act) (a : Act) :
    ({ L with mis := m }).score val actions a = L.score val actions a := Learner.score_misguided val L m actions a

/-- `PMFInfoPredictor.predict` (Corral): an offered action with its strictly positive mixture probability … -/
theorem corral_predict_mem_pos (c : Corral) (actions bacts : List Act) (hinv : c.Inv)
    (hnd : actions.Nodup) (hlen : bacts.length = c.ps.length) (hb : ∀ b ∈ bacts, b ∈ actions) :
    ∃ i p, c.predict actions bacts = .ok ({ c with rng := next c.rng }, i, p, corralPmf c.pbars bacts actions) ∧
      Valid (corralPmf c.pbars bacts actions) actions.length ∧ i < actions.length ∧
      (corralPmf c.pbars bacts actions)[i]? = some p ∧ 0 < p := Corral.predict_ok c actions bacts hinv hnd hlen hb

/-- … and `PMFInfoPredictor.score` indexes the same pmf -/
theorem corral_score_eq_pmf (c : Corral) (actions bacts : List Act) (a : Act) (ha : a ∈ actions) :
    ∃ p, c.score actions bacts a = .ok p ∧ (corralPmf c.pbars bacts actions)[actions.idxOf a]? = some p :=
  Corral.score_eq c actions bacts a ha

/-- termination restricted to a sub-carrier `D` of the multipliers (the doubles inside ℚ): the rounded
midpoint maps `D` to `D` and stays in the bracket, `rank` is strictly monotone on `D` -/
theorem bisect_terminates_on {F α} [LinearOrder F] (mid : F → F → F) (done : α → Bool) (probe : F → Option α) (tooBig : α → Bool)
    (D : F → Prop) (rank : F → Nat) (hrank : ∀ x y, D x → D y → x < y → rank x < rank y)
    (hmid : ∀ l r, D l → D r → l ≤ r → D (mid l r) ∧ l ≤ mid l r ∧ mid l r ≤ r) (fuel : Nat)
    (l r : F) (cur : α) (hl : D l) (hr : D r) (hlr : l ≤ r) (hfuel : rank r - rank l < fuel) :
    (bisect mid done probe tooBig fuel l r cur).2 = true :=
  bisect_halts_on mid done probe tooBig D rank hrank hmid fuel l r cur hl hr hlr hfuel

/-- the float-faithful `_log_barrier_omd` (`omdF`: every operation through `fl`, CPython's compensated
`sum`, the same `bisect` loop; with `fl = flDouble` its output equals the real function's, checked on
every generated Corral update): for EVERY `fl` the returned weights are `fl(w/total)` of an
`update(λ)` whose rounded denominators are all positive … -/
theorem omd_float_from_probed (fl : Rat → Rat) (fuel : Nat) (ps etas losses : List Rat) (ws : List Rat) (h : Bool)
    (hne : losses ≠ []) (hres : omdF fl fuel ps etas losses = some (ws, h)) :
    ∃ lam cur, omdRawF fl ps etas losses lam = some cur ∧ ws = cur.map (fun p => fl (p / pySum fl cur)) :=
  omdF_from_probed fl fuel ps etas losses ws h hne hres

/-- … and on the doubles the loop halts by its own exits within `rank(max ℓ) - rank(min ℓ) + 1` iterations -/
theorem omd_float_halts (fl : Rat → Rat) (fuel : Nat) (ps etas : List Rat) (l0 : Rat) (ls : List Rat)
    (D : Rat → Prop) (rank : Rat → Nat) (hrank : ∀ x y, D x → D y → x < y → rank x < rank y)
    (hmid : ∀ l r, D l → D r → l ≤ r → D (fl (fl (l + r) / 2)) ∧ l ≤ fl (fl (l + r) / 2) ∧ fl (fl (l + r) / 2) ≤ r)
    (hlo : D (minOf l0 ls)) (hhi : D (maxOf l0 ls)) (hfuel : rank (maxOf l0 ls) - rank (minOf l0 ls) < fuel) :
    ∀ ws h, omdF fl fuel ps etas (l0 :: ls) = some (ws, h) → h = true :=
  omdF_halts fl fuel ps etas l0 ls D rank hrank hmid hlo hhi hfuel

/-- `OnlineVariance` (Welford) over exact arithmetic never reports a negative variance (`M2` grows by
`δ²(1-1/n) ≥ 0`): the fact BanditUCB's index needs under its `sqrt`.  (A sum-of-squares variant does
not have it in floating point; the float claim for Welford — `δ` and `δ₂` have the same sign under
monotone rounding — is trusted and checked on every generated UCB history.) -/
theorem welford_var_nonneg (vs : List Rat) :
    0 ≤ (Welford.run (fun x => x) vs).m2 ∧ ∀ x, (Welford.run (fun x => x) vs).var = some x → 0 ≤ x :=
  Welford.var_nonneg vs

/-- with `t ≥ 1`, `s ≥ 1` (`ucb_pmf_dist`'s invariant) and `var ≥ 0` both `sqrt` arguments of the UCB index are
non-negative: the bonus the model leaves arbitrary is then a well-defined real number -/
theorem ucb_index_args_nonneg (t s : ℕ) (ht : 1 ≤ t) (hs : 1 ≤ s) (var : ℝ) (hvar : 0 ≤ var) :
    0 ≤ 2 * Real.log t / s ∧ 0 ≤ Real.log t / s * min (1 / 4) (var + Real.sqrt (2 * Real.log t / s)) :=
  ucb_index_args_nonneg' t s ht hs var hvar

/-! ## Phase 3 -/

/-- **the float weights**: under the standard model of floating point (`FlRel u fl`: every operation
is rounded with relative error ≤ u) the pmf of every built-in plain learner AS THE IMPLEMENTATION
COMPUTES IT (`Kind.pmfF`: every operation of the source line through `fl`; with `flDouble` it equals
the real `score` bit for bit on every generated call) has non-negative entries whose sum lies in
`[(1-u)^4, (1+u)^4]` — four roundings deep, independent of the number of actions -/
theorem float_pmf_sum {u : Rat} {fl : Rat → Rat} (h : FlRel u fl) (hu : u ≤ 1) (val : Act → Rat) (k : Kind) (actions : List Act)
    (hinv : k.Inv) (hne : actions ≠ []) (hnd : actions.Nodup) (hfit : Fits k.arity actions.length) :
    (∀ p ∈ k.pmfF fl val actions, 0 ≤ p) ∧ (1 - u) ^ 4 ≤ (k.pmfF fl val actions).sum ∧ (k.pmfF fl val actions).sum ≤ (1 + u) ^ 4 :=
  Kind.pmfF_sum h hu val k actions hinv hne hnd hfit

example : FlRel (1 / 2 ^ 53) (fun x => x * (1 + 1 / 2 ^ 53)) := flRel_example

/-- for binary64 (u = 2^-53) that is inside the 1e-4 of the property (and the 1e-3 of coba's own
`possible_pmf` check) by eleven orders of magnitude -/
theorem float_pmf_sum_double {fl : Rat → Rat} (h : FlRel (1 / 2 ^ 53) fl) (val : Act → Rat) (k : Kind) (actions : List Act)
    (hinv : k.Inv) (hne : actions ≠ []) (hnd : actions.Nodup) (hfit : Fits k.arity actions.length) :
    (∀ p ∈ k.pmfF fl val actions, 0 ≤ p) ∧ |(k.pmfF fl val actions).sum - 1| ≤ 1 / 10000 :=
  Kind.pmfF_tol h val k actions hinv hne hnd hfit

/- FULL STATEMENT (not proved): for the weights `omdF fl … = some (ws, _)` of the float-faithful Corral update,
   `FlRel (1/2^53) fl → |ws.sum - 1| ≤ 1/10000`.
   Proved part: the normalisation step `[p/total for p in new_ps]`, given that `total` is within relative τ of the true
   sum.  MISSING: a bound τ for CPython's compensated `sum` (`pySum`, Neumaier) under `FlRel` — observed ≤ 2^-52. -/
theorem corral_float_weights_sum_partial {u τ : Rat} {fl : Rat → Rat} (h : FlRel u fl) (hu : u ≤ 1) (cur : List Rat) (total : Rat)
    (hpos : ∀ x ∈ cur, 0 < x) (hne : cur ≠ []) (hτ0 : 0 ≤ τ) (hτ1 : τ < 1) (htot : |total - cur.sum| ≤ τ * cur.sum) :
    (∀ w ∈ cur.map (fun p => fl (p / total)), 0 ≤ w) ∧
      (1 - u) / (1 + τ) ≤ (cur.map (fun p => fl (p / total))).sum ∧ (cur.map (fun p => fl (p / total))).sum ≤ (1 + u) / (1 - τ) :=
  normaliseF_sum h hu cur total hpos hne hτ0 hτ1 htot

example : (∀ x ∈ ([1 / 2, 1 / 4] : List Rat), 0 < x) ∧ |(3 / 4 : Rat) - ([1 / 2, 1 / 4] : List Rat).sum| ≤ 0 * ([1 / 2, 1 / 4] : List Rat).sum := by
  norm_num

/-- **action identity**: the dictionary key `make_hashable` computes is the same for two offered
actions exactly when their CONTENTS are equal, whatever the container flavour (list, tuple,
HashableDense, coba's Dense rows; dict, OrderedDict, MappingProxyType/UserDict, coba's Sparse rows,
HashableSparse) — the justification for modelling an action as a natural number -/
theorem make_hashable_respects_eq (a b : PyAct) : Key.same (makeHashable a) (makeHashable b) = contentsEq a b :=
  makeHashable_contents a b

/-- Python `==` between two offered objects implies one key … -/
theorem py_eq_implies_same_key (a b : PyAct) (h : pyEq a b = true) : Key.same (makeHashable a) (makeHashable b) = true :=
  pyEq_imp_same_key a b h

/-- … and one key implies `==` except for exactly two flavour pairs: list vs tuple, OrderedDict vs OrderedDict -/
theorem same_key_implies_py_eq_except (a b : PyAct) (h : Key.same (makeHashable a) (makeHashable b) = true) :
    pyEq a b = true ∨
      (∃ xs ys, (a = .dense .list xs ∧ b = .dense .tuple ys) ∨ (a = .dense .tuple xs ∧ b = .dense .list ys)) ∨
      (∃ kv kw, a = .sparse .odict kv ∧ b = .sparse .odict kw) := same_key_imp_pyEq a b h

/-- both exceptions are real (replayed on the real objects by the corpus witness `keyeq_sweep`, 3310 pairs):
`[1,2] == (1,2)` is False yet both have the key `HashableDense((1,2))` — an action list holding both is not a set
of distinct actions for the learners (BanditUCB then scores each with 1.0) -/
theorem make_hashable_flavour_counterexample :
    (Key.same (makeHashable (.dense .list [.num 1, .num 2])) (makeHashable (.dense .tuple [.num 1, .num 2])) = true ∧
      pyEq (.dense .list [.num 1, .num 2]) (.dense .tuple [.num 1, .num 2]) = false) ∧
    (Key.same (makeHashable (.sparse .odict [(.str "a", .num 1), (.str "b", .num 2)]))
        (makeHashable (.sparse .odict [(.str "b", .num 2), (.str "a", .num 1)])) = true ∧
      pyEq (.sparse .odict [(.str "a", .num 1), (.str "b", .num 2)]) (.sparse .odict [(.str "b", .num 2), (.str "a", .num 1)]) = false) :=
  same_key_not_pyEq_witness

/-! ## Phase 4 -/

/-- translator obligation: `precision = 4` of `_log_barrier_omd`, the `float(2*M)` initial rho and the accepted `mode`
strings, re-extracted from coba/learners/corral.py on every run (`Generated/C16CorralConsts.lean`), are what the model uses
(`rounds1` = `round(.,precision) == 1`, `Corral.init`) -/
theorem corral_consts_match :
    (∀ y : Rat, rounds1 y = (decide (1 - 5 / (10 : Rat) ^ (Coba.Generated.C16.omdPrecision + 1) < y) &&
        decide (y < 1 + 5 / (10 : Rat) ^ (Coba.Generated.C16.omdPrecision + 1)))) ∧
    (∀ (fl : Rat → Rat) (M : Nat) (eta gamma beta : Rat) (imp : Bool) (rng : Nat),
        (Corral.init fl M eta gamma beta imp rng).rhos = List.replicate M ((Coba.Generated.C16.rhoFactor : Rat) * (M : Rat))) ∧
    Coba.Generated.C16.modes = ["importance", "off-policy"] := corral_consts_match'

/-- offered lists with EQUAL members (no `Nodup`): every learner but BanditUCB (Fixed, Random, ε-greedy — `Kind.positional`) returns a
drawn POSITION `i` of the offered list together with exactly the weight its pmf gives that position, and that weight is > 0 — never the
weight of another, merely equal, member (round g: C05-gm2 looked the probability up by value) -/
theorem predict_positional_with_equal_members (val : Act → Rat) (L : Learner) (actions : List Act) (hinv : L.kind.Inv)
    (hne : actions ≠ []) (hpos : L.kind.positional = true) (hfit : Fits L.kind.arity actions.length) :
    ∃ i p pmf, L.predict val actions = .ok ({ L with rng := Coba.C05.next L.rng }, i, p, pmf) ∧
      L.kind.pmf val actions = .ok pmf ∧ Valid pmf actions.length ∧ i < actions.length ∧ pmf[i]? = some p ∧ 0 < p :=
  Learner.predict_ok_dups val L actions hinv hne hpos hfit

/-- the hypotheses are satisfiable by a list with equal members: `FixedLearner([0, 1/4, 3/4])` offered `[7, 3, 7]` -/
example : (Kind.fixed [0, 1/4, 3/4]).positional = true ∧ ([7, 3, 7] : List Act) ≠ [] ∧ ¬ ([7, 3, 7] : List Act).Nodup := by decide

/-! ## Phase 4 (continued) -/

/-- BanditUCB over a list with EQUAL members (no `Nodup`): the pmf is always defined (no KeyError / log 0 / division by 0), has one entry per
position, every entry is in [0,1] and the total is ≥ 1 — so `choicew` can always draw and reports a positive weight — and it is a proper
distribution (`Valid`, sum = 1) as soon as every offered action has been observed. PARTIAL with respect to validity: while an offered action is
unobserved AND occurs twice the total exceeds 1 (`ucb_equal_members_counterexample`), which is why the property speaks of action SETS. -/
theorem ucb_pmf_equal_members_partial (val : Act → Rat) (st : Ucb) (actions : List Act) (hinv : st.Inv) (hne : actions ≠ []) :
    ∃ pmf, st.pmf val actions = .ok pmf ∧ Drawable pmf actions.length ∧
      ((∀ a ∈ actions, dhas st.m a = true) → Valid pmf actions.length) :=
  Ucb.pmf_equal_members' val st actions hinv hne

/-- `Nodup` is necessary for BanditUCB: a fresh learner offered `[a, a, b]` scores `[1/2, 1/2, 1/2]` (`len(set(...))` counts `a` once);
replayed on the real code by the corpus witness `ucb_equal_members` -/
theorem ucb_equal_members_counterexample (val : Act → Rat) : Ucb.pmf val {} [0, 0, 1] = .ok [1/2, 1/2, 1/2] :=
  ucb_equal_members_witness val

/-- **SafeLearner around a learner of this property** (Corral wraps every base learner in one; an experiment wraps every learner), composed
from C15's model of `SafeLearner.predict` (`pred_format`, `_parse_pred`; Model/C15 unchanged): a learner that answers an unbatched call with
`(the pick-th offered object, probability)` — with kwargs (`kw = true`: Corral's `{'info': …}`) or without — gets back from the SafeLearner
exactly that object, that probability and that kwargs object, on the first call (format detection) and on every later one (`Inv`), for the
pinned and the repaired SafeLearner (`fx`). So "SafeLearner is the identity on (action, probability)" is a theorem, no longer an assumption. -/
theorem safe_wrapper_identity (fx : Coba.C15.Fixes) (kw : Bool) (pol : Coba.C15.Policy) (st : Coba.C15.State) (c : Coba.C15.PyVal)
    (as : List Coba.C15.PyVal) (hinv : Coba.C15.Inv (safeSpec kw) false st)
    (hpick : (pol c as).pick < as.length) (hobj : as.all (fun a => !Coba.C15.isLrn a) = true) (hp : (pol c as).p.isDict = false) :
    Coba.C15.predictCore fx (Coba.C15.scripted (safeSpec kw) pol) st (.single c as) =
      .ok (⟨as.getD (pol c as).pick .none, (pol c as).p, if kw then Coba.C15.kwDict (pol c as) else Coba.C15.emptyKw⟩,
           Coba.C15.stAfter (safeSpec kw) false st st.rng) :=
  safe_wrapper_identity' fx kw pol st c as hinv hpick hobj hp

/-- the hypotheses are satisfiable: a fresh SafeLearner, two offered strings, the learner picks the second with probability 1/4 -/
example : Coba.C15.Inv (safeSpec false) false (Coba.C15.initState 1) ∧
    ([Coba.C15.PyVal.str (.ext 0) "a", .str (.ext 1) "b"].all (fun a => !Coba.C15.isLrn a)) = true := by
  exact ⟨Or.inl ⟨rfl, rfl⟩, by decide⟩

/-- `accepts` is no extra hypothesis at the depth the property speaks about ("Corral over any of them"): for a Corral (under any Misguided
wrappers) over plain learners it is EXACTLY the property's own precondition — the reward Corral sees is in [0,1] and the probability is not 0.
(Deeper nestings keep the hypothesis: `corral_importance_feedback_unbounded`.) -/
theorem corral_over_plain_accepts_iff (fl : Rat → Rat) (s : (corralOver fl (leafBase fl)).σ) (a : Act) (r p : Rat) :
    (corralLaws fl (leafLaws fl)).accepts s a r p ↔ (0 ≤ misguide fl s.mis r ∧ misguide fl s.mis r ≤ 1 ∧ p ≠ 0) :=
  corral_over_plain_accepts_iff' fl s a r p

/-- translator obligations, re-extracted with `ast` from coba/safety.py and coba/learners/bandit.py on every run
(`Generated/C16BanditConsts.lean`): SafeLearner's `a in [0,1]` list is what C15's `makeSafe` rewrites; `possible_pmf`'s `abs_tol` is the
model's 1/1000; BanditEpsilon's default ε lies in [0,1] (hypothesis of `eps_pmf_dist`); UCB's variance cap is 1/4 -/
theorem bandit_consts_match :
    (∀ (k : Nat) (i : Int), Coba.C15.makeSafe k (.int i) =
        if i ∈ Coba.Generated.C16.safeInts then Coba.C15.PyVal.flt (.safe k) (i : Rat) else Coba.C15.PyVal.int i) ∧
    ((Coba.Generated.C16.possiblePmfTolNum : Rat) / Coba.Generated.C16.possiblePmfTolDen = 1 / 1000) ∧
    ((0 : Rat) ≤ (Coba.Generated.C16.epsDefaultNum : Rat) / Coba.Generated.C16.epsDefaultDen ∧
        (Coba.Generated.C16.epsDefaultNum : Rat) / Coba.Generated.C16.epsDefaultDen ≤ 1) ∧
    ((Coba.Generated.C16.ucbVarCapNum : Rat) / Coba.Generated.C16.ucbVarCapDen = 1 / 4) := bandit_consts_match'

/-! ## Phase 5: `CorralLearner.learn` in floats -/

/-- **p̄-smoothing through `fl`**: `[(1-self._gamma)*p + self._gamma*1/len(self._base_lrns) for p in self._ps]` operation by operation
(`smoothF`, five roundings per entry, three deep; with `flDouble` equal to the real `_p_bars` bit for bit on every generated `learn`): under
the float law `FlRel u fl`, u < 1, for EVERY γ ∈ [0,1] (every T ≥ 1, including T = ∞ → γ = 0 and T = 1 → γ = 1) and every strictly positive
weight vector, every smoothed weight is STRICTLY positive and their sum lies within `(1±u)^3` of `(1-γ)Σp + γ` (= 1 when Σp = 1) -/
theorem pbar_smoothing_float_simplex {u : Rat} {fl : Rat → Rat} (h : FlRel u fl) (hu : u < 1) (gamma : Rat) (g0 : 0 ≤ gamma) (g1 : gamma ≤ 1)
    (ps : List Rat) (hne : ps ≠ []) (hpos : ∀ p ∈ ps, 0 < p) :
    (∀ q ∈ smoothF fl gamma ps.length ps, 0 < q) ∧
      (1 - u) ^ 3 * ((1 - gamma) * ps.sum + gamma) ≤ (smoothF fl gamma ps.length ps).sum ∧
      (smoothF fl gamma ps.length ps).sum ≤ (1 + u) ^ 3 * ((1 - gamma) * ps.sum + gamma) :=
  smoothF_simplex h hu gamma g0 g1 ps hne hpos

/-- the hypotheses are satisfiable (exact arithmetic is a float law with u = 0 whose `sum` is exact) -/
example : FlRel 0 (fun x => x) ∧ SumRel 0 (fun x => x) := ⟨flRel_id, sumRel_id⟩

/- FULL STATEMENT (not proved): the next two theorems without the hypothesis `SumRel τ fl`.
   MISSING (as for `corral_float_weights_sum_partial`): an error bound τ for CPython's compensated `sum` (`pySum`, Neumaier) under
   `FlRel` — a bound independent of the length does not follow from `FlRel` alone (the compensation term is itself rounded); observed ≤ 2^-52
   on every generated update.  Everything else of `learn` is covered: losses, root search, normalisation, smoothing, η/ρ schedule. -/

/-- **one float-faithful `learn` keeps the weights in the float simplex, for all T**: `Corral.learnF` is `CorralLearner.learn`'s state update
operation by operation through `fl` (`loss/probability*(A==action)`, the float root search `omdF`, `[p/total …]`, the p̄-smoothing, the η/ρ
schedule; with `flDouble` whole histories equal the real `_ps/_p_bars/_etas/_rhos` bit for bit, driver op `corral_runF`).  Whenever it returns,
the new state again has all weights, all smoothed weights and all learning rates STRICTLY positive (`CorralF.Inv`), Σ`_ps` ∈
[(1-u)/(1+τ), (1+u)/(1-τ)] and Σ`_p_bars` within `(1±u)^3` of `(1-γ)Σ_ps + γ` (`SimplexF`) — for every γ ∈ [0,1], β > 0, reward, probability,
base-learner choices, from ANY state satisfying the invariant (not only states whose weights sum to 1: nothing accumulates over rounds) -/
theorem corral_float_learn_simplex_partial {u τ : Rat} {fl : Rat → Rat} (h : FlRel u fl) (hu : u < 1) (hs : SumRel τ fl) (hτ0 : 0 ≤ τ) (hτ1 : τ < 1)
    (fuel : Nat) (c : Corral) (hinv : CorralF.Inv c) (g0 : 0 ≤ c.gamma) (g1 : c.gamma ≤ 1) (hb : 0 < c.beta)
    (bacts : List Act) (hlen : bacts.length = c.ps.length) (a : Act) (r p : Rat) (c' : Corral) (hh : Bool)
    (hres : c.learnF fl fuel bacts a r p = .ok (c', hh)) :
    CorralF.Inv c' ∧ SimplexF u τ c' ∧ c'.gamma = c.gamma ∧ c'.beta = c.beta ∧ c'.ps.length = c.ps.length :=
  Corral.learnF_inv h hu hs hτ0 hτ1 fuel c hinv g0 g1 hb bacts hlen a r p c' hh hres

/-- **whole float histories**: every state the float-faithful Corral visits along ANY sequence of `learn` calls (any length, any rewards /
probabilities / base choices) is in the float simplex; by induction over the history with `corral_float_learn_simplex_partial` -/
theorem corral_float_run_simplex_partial {u τ : Rat} {fl : Rat → Rat} (h : FlRel u fl) (hu : u < 1) (hs : SumRel τ fl) (hτ0 : 0 ≤ τ) (hτ1 : τ < 1)
    (fuel : Nat) (ops : List (List Act × Act × Rat × Rat)) (c : Corral) (hinv : CorralF.Inv c) (g0 : 0 ≤ c.gamma) (g1 : c.gamma ≤ 1)
    (hb : 0 < c.beta) (hops : ∀ o ∈ ops, o.1.length = c.ps.length) :
    ∀ x ∈ runCF fl fuel c ops, ∀ c' hh, x = .ok (c', hh) → CorralF.Inv c' ∧ SimplexF u τ c' :=
  runCF_inv h hu hs hτ0 hτ1 fuel ops c hinv g0 g1 hb hops

/-- the history may start at `CorralLearner(M base learners, eta > 0)`'s initial state -/
theorem corral_float_init_inv {u : Rat} {fl : Rat → Rat} (h : FlRel u fl) (hu : u < 1) (M : Nat) (hM : 0 < M) (eta gamma beta : Rat)
    (heta : 0 < eta) (imp : Bool) (rng : Nat) : CorralF.Inv (Corral.init fl M eta gamma beta imp rng) :=
  Corral.init_invF h hu M hM eta gamma beta heta imp rng

/-- binary64 (u = 2^-53) with a `sum` accurate to 2^-50: "in the float simplex" means both Σ`_ps` and Σ`_p_bars` within 1e-4 of 1 — the
property's own accuracy clause, with an order of magnitude to spare -/
theorem corral_float_simplex_double (c : Corral) (g0 : 0 ≤ c.gamma) (g1 : c.gamma ≤ 1) (hS : SimplexF (1 / 2 ^ 53) (1 / 2 ^ 50) c) :
    |c.ps.sum - 1| ≤ 1 / 10000 ∧ |c.pbars.sum - 1| ≤ 1 / 10000 :=
  simplexF_double c g0 g1 hS

/-- **`accepts` is decidable at every depth**: the forced hypothesis of `corral_nested_valid` is, for every nesting depth n, exactly the
executable recursive predicate `acceptsB` (reward after the Misguided wrappers in [0,1], probability ≠ 0, and recursively for every base
learner with the feedback its Corral hands it: `reward·1[A_j = action]/probability` in importance mode, the reward passed through in
off-policy mode).  The driver evaluates `acceptsB flDouble 2` on every nested Corral round and the harness compares it with whether the real
`learn` raises the AssertionError of an inner Corral. -/
theorem accepts_iff_acceptsB (fl : Rat → Rat) (n : Nat) (s : (tower fl n).σ) (a : Act) (r p : Rat) :
    (towerLaws fl n).accepts s a r p ↔ acceptsB fl n s a r p = true :=
  accepts_iff_acceptsB' fl n s a r p

/-- the importance-mode witness of `corral_importance_feedback_unbounded` through the predicate: an importance Corral over a Corral, the inner
one chose the played action, reward 1 at probability 1/2 → not accepted; the same composition off-policy → accepted -/
example : acceptsB (fun x => x) 2 (accTop true) 0 1 (1 / 2) = false ∧ acceptsB (fun x => x) 2 (accTop false) 0 1 (1 / 2) = true := by
  decide +kernel

/-- **off-policy feedback passes the reward through** (generalises `corral_over_plain_accepts_iff` from plain base learners to ANY base
learners): an off-policy Corral that has predicted accepts (a, r, p) ⇔ its own reward r' (after its wrappers) is in [0,1], p ≠ 0 and EVERY
base learner accepts the very same (a, r', p) -/
theorem corral_over_any_offpolicy_accepts_iff (fl : Rat → Rat) {B : Base} (h : B.Laws) (s : (corralOver fl B).σ) (a : Act) (r p : Rat)
    (hoff : s.c.importance = false) (hlen : s.lastActs.length = s.bases.length) :
    (corralLaws fl h).accepts s a r p ↔
      (0 ≤ misguide fl s.mis r ∧ misguide fl s.mis r ≤ 1 ∧ p ≠ 0 ∧ ∀ b ∈ s.bases, h.accepts b a (misguide fl s.mis r) p) :=
  offpolicy_accepts_iff' fl h s a r p hoff hlen

/-- hence in a tower of ANY depth whose Corrals all run off-policy without Misguided wrappers the forced hypothesis disappears: the property's
own precondition (reward in [0,1], probability ≠ 0) is enough for `learn` to succeed at every level (`corral_nested_valid`) -/
theorem corral_offpolicy_tower_accepts (fl : Rat → Rat) (n : Nat) (s : (tower fl n).σ) (a : Act) (r p : Rat)
    (hs : offPolicyPlain fl n s) (h0 : 0 ≤ r) (h1 : r ≤ 1) (hp : p ≠ 0) : (towerLaws fl n).accepts s a r p :=
  offpolicy_tower_accepts' fl n s a r p hs h0 h1 hp

/-- **rejected feedback raises** (phase 6; the converse of `corral_nested_valid`'s learn clause): at every nesting depth, from every state with the
invariants, feedback the decidable predicate `acceptsB` REJECTS makes `learn` raise, and what it raises is the Corral's own `assert 0 <= reward <= 1`
(AssertionError) or the division by a zero probability (ZeroDivisionError) — never anything else, never a silent return.  The harness executes the
real `learn` on every rejected round and demands the exception (`A:corral-accepts-impl`). -/
theorem rejected_feedback_raises (fl : Rat → Rat) (n : Nat) (s : (tower fl n).σ) (a : Act) (r p : Rat)
    (hinv : (towerLaws fl n).inv s) (hready : (towerLaws fl n).ready s) (hrej : acceptsB fl n s a r p = false) :
    ∃ e, (tower fl n).learn s a r p = .error e ∧ (e = .assertion ∨ e = .zeroDivision) :=
  rejected_learn_raises_kind' fl n s a r p hinv hready hrej

/-- the hypotheses are satisfiable: an importance Corral over an importance Corral over a RandomLearner, all having predicted, reward 1 at p = 1/2 -/
example : (towerLaws (fun x => x) 2).inv rejTop ∧ (towerLaws (fun x => x) 2).ready rejTop ∧ acceptsB (fun x => x) 2 rejTop 0 1 (1 / 2) = false :=
  rejTop_ok

/-- **`learn` succeeds exactly for accepted feedback**: with `corral_nested_valid` (⇐) and `rejected_feedback_raises` (⇒) the forced hypothesis of
nesting is not merely sufficient but the exact domain of `learn`, at every depth and for every rounding function -/
theorem tower_learn_ok_iff_accepts (fl : Rat → Rat) (n : Nat) (s : (tower fl n).σ) (a : Act) (r p : Rat)
    (hinv : (towerLaws fl n).inv s) (hready : (towerLaws fl n).ready s) :
    (∃ s', (tower fl n).learn s a r p = .ok s') ↔ acceptsB fl n s a r p = true :=
  tower_learn_ok_iff' fl n s a r p hinv hready

/-- **a string action keeps its own table entry** (phase 6, round i "key handling"): for every string s and every offered object x of the action
model (number, bool, string, dense or sparse in any flavour) the learners' table key of the string `s` equals the key of x, and Python `==` holds,
ONLY when x is that very string — never when s merely is the `str()` / `repr()` of x or of x's key (`1` vs `'1'`, `'a'` vs `"'a'"`, `[1, 2]` vs
`'(1, 2)'`).  The catalogue pairs `COLLIDE_STR` are swept against the real `make_hashable` by `keyeq_sweep` and offered side by side by the generators. -/
theorem string_action_own_key (s : String) (x : PyAct) :
    (Key.same (makeHashable (.scalar (.str s))) (makeHashable x) = true ↔ x = .scalar (.str s)) ∧
    (pyEq (.scalar (.str s)) x = true ↔ x = .scalar (.str s)) :=
  ⟨str_key_same_iff' s x, str_py_eq_iff' s x⟩

/-- the memoised state `stAfter` of `safe_wrapper_identity`, field by field — what the harness reads off the real SafeLearner after the first
`predict` of every SafeLearner-wrapped case: `_pred_batch == 'not'`, `_pred_kwargs == kw` (False for the plain learners, True for Corral's
`{'info': …}`), `_pred_format == 'AP'` -/
theorem safe_state_after (kw : Bool) (st : Coba.C15.State) :
    (Coba.C15.stAfter (safeSpec kw) false st st.rng).layout = some Coba.C15.BLayout.not ∧
    (Coba.C15.stAfter (safeSpec kw) false st st.rng).hasKw = kw ∧
    (Coba.C15.stAfter (safeSpec kw) false st st.rng).fmt = some ⟨Coba.C15.Kind.AP, false⟩ ∧
    (Coba.C15.stAfter (safeSpec kw) false st st.rng).method = some 1 :=
  safe_state_after' kw st

/-- **translator obligations, update expressions**: `harness/props/c16.py` re-translates on every run (Python `ast`) the p̄-smoothing, the ρ threshold
and the new ρ of `CorralLearner.learn`, BanditEpsilon's `alpha` and `Q` update and BanditUCB's running mean from the repo under test into `Ex`
programs (`Generated/C16Exprs.lean`).  Their float evaluation `Ex.evalF fl` (every `+ - * /` rounded, int literals exact) IS what the model's
`pbarF`, `etaRhoF`, `Eps.learn`, `Ucb.learn` compute, for every `fl`: an edit of one of these source expressions breaks this proof. -/
theorem update_exprs_match (fl : Rat → Rat) :
    (∀ (gamma p : Rat) (M : Nat), Ex.evalF fl [gamma, p, (M : Rat)] Coba.Generated.C16.pbarExpr = pbarF fl gamma M p) ∧
    (∀ (beta pb e rh : Rat) (pbs es rhs : List Rat), etaRhoF fl beta (pb :: pbs) (e :: es) (rh :: rhs) =
        if rh < Ex.evalF fl [pb] Coba.Generated.C16.rhoThrExpr
        then (fl (e * beta) :: (etaRhoF fl beta pbs es rhs).1, Ex.evalF fl [pb] Coba.Generated.C16.rhoNewExpr :: (etaRhoF fl beta pbs es rhs).2)
        else (e :: (etaRhoF fl beta pbs es rhs).1, rh :: (etaRhoF fl beta pbs es rhs).2)) ∧
    (∀ (st : Eps) (a : Act) (r : Rat), (Eps.learn fl st a r).Q =
        dset st.Q a (Ex.evalF fl [Ex.evalF fl [(st.n a : Rat)] Coba.Generated.C16.epsAlphaExpr, st.q a, r] Coba.Generated.C16.epsQExpr)) ∧
    (∀ (st : Ucb) (a : Act) (r mv : Rat) (sv : Nat), dget st.m a = some mv → dget st.s a = some sv → sv ≠ 0 →
        Ucb.learn fl st a r =
          .ok { t := st.t + 1, m := dset st.m a (Ex.evalF fl [(sv : Rat), mv, r] Coba.Generated.C16.ucbMeanExpr), s := dset st.s a (sv + 1) }) :=
  update_exprs_match' fl

end Coba.C16
