/-
C16 — Built-in learners always return a valid, self-consistent distribution.
Property theorems only (helper lemmas live in `Lemmas/C16.lean`, the model in `Model/C16.lean`).

Reading of the statement.  A learner is offered a duplicate-free, non-empty list of actions
(actions = their `==`-classes).  `Valid pmf n`: `pmf` has `n` entries, all `≥ 0`, summing to 1.
Every theorem below holds for EVERY float-rounding function `fl` (the running means are computed
through it) and EVERY UCB index `val` (mean + exploration bonus), so no property of floating point,
`log` or `sqrt` is assumed.
-/
import CobaVerif.Lemmas.C16

namespace Coba.C16
open Coba.C05 (next)

/-- epsilon-greedy: for any table of values (any history), any ε ∈ [0,1] and any non-empty action
list the pmf is a distribution (ties share 1-ε equally, ε is spread uniformly) -/
theorem eps_pmf_dist (st : Eps) (actions : List Act) (h0 : 0 ≤ st.eps) (h1 : st.eps ≤ 1) (hne : actions ≠ []) :
    Valid (st.pmf actions) actions.length := Eps.pmf_valid st actions h0 h1 hne

example : (0 : Rat) ≤ (0 : Rat) ∧ (0 : Rat) ≤ 1 ∧ ([3, 5] : List Act) ≠ [] := by simp

/-- UCB: for every index function (∀ bonus), in every state whose dictionaries are consistent
(`Ucb.Inv`, an invariant of `learn`: `ucb_learn_total`), the pmf is defined (no KeyError, no log 0,
no division by 0) and is a distribution: uniform on the never-observed actions, else on the arg-max set -/
theorem ucb_pmf_dist (val : Act → Rat) (st : Ucb) (actions : List Act) (hinv : st.Inv)
    (hne : actions ≠ []) (hnd : actions.Nodup) :
    ∃ pmf, st.pmf val actions = .ok pmf ∧ Valid pmf actions.length := Ucb.pmf_valid val st actions hinv hne hnd

example : Ucb.Inv {} := Ucb.inv_init

/-- Fixed (a pmf of the right length) and Random -/
theorem fixed_random_dist (val : Act → Rat) (actions : List Act) (hne : actions ≠ []) (hnd : actions.Nodup) :
    (∀ p : List Rat, (∀ x ∈ p, 0 ≤ x) → p.sum = 1 → p.length = actions.length →
      ∃ pmf, (Kind.fixed p).pmf val actions = .ok pmf ∧ Valid pmf actions.length) ∧
    (∃ pmf, Kind.random.pmf val actions = .ok pmf ∧ Valid pmf actions.length) :=
  ⟨fun p h1 h2 h3 => Kind.pmf_valid val (.fixed p) actions ⟨h1, h2⟩ hne hnd (by intro m hm; cases hm; exact h3),
   Kind.pmf_valid val .random actions trivial hne hnd (by intro m hm; cases hm)⟩

/-- `score(context, actions, a)` is the entry of the current pmf at `a`'s position … -/
theorem score_eq_pmf (val : Act → Rat) (L : Learner) (actions : List Act) (a : Act) (pmf : List Rat)
    (hpmf : L.kind.pmf val actions = .ok pmf) (hlen : pmf.length = actions.length) (ha : a ∈ actions) :
    ∃ p, L.score val actions a = .ok p ∧ pmf[actions.idxOf a]? = some p :=
  Learner.score_eq val L actions a pmf hpmf hlen ha

/-- … so over a duplicate-free action list the score vector IS the pmf: non-negative, sums to 1 -/
theorem score_vector_is_pmf (val : Act → Rat) (L : Learner) (actions : List Act) (hinv : L.kind.Inv)
    (hne : actions ≠ []) (hnd : actions.Nodup) (hfit : Fits L.kind.arity actions.length) :
    ∃ pmf, Valid pmf actions.length ∧ actions.map (fun a => L.score val actions a) = pmf.map Except.ok := by
  obtain ⟨pmf, hp, hv⟩ := Kind.pmf_valid val L.kind actions hinv hne hnd hfit
  exact ⟨pmf, hv, Learner.scores_eq_pmf val L actions pmf hp hv.1 hnd⟩

/-- `predict` returns an offered action (index `i < n`) together with exactly the probability the
current pmf gives it, and that probability is strictly positive (uses C05's weighted choice, full
strength since `choice` no longer returns zero-weight members); one uniform is consumed -/
theorem predict_mem_pos (val : Act → Rat) (L : Learner) (actions : List Act) (hinv : L.kind.Inv)
    (hne : actions ≠ []) (hnd : actions.Nodup) (hfit : Fits L.kind.arity actions.length) :
    ∃ i p pmf, L.predict val actions = .ok ({ L with rng := next L.rng }, i, p, pmf) ∧
      L.kind.pmf val actions = .ok pmf ∧ Valid pmf actions.length ∧ i < actions.length ∧ pmf[i]? = some p ∧ 0 < p :=
  Learner.predict_ok val L actions hinv hne hnd hfit

/-- `learn` never raises — for never-seen actions, actions that are no longer offered, any reward,
under any Misguided wrappers — and leaves a learner that can predict (`Kind.Inv` is what
`predict_mem_pos` needs) -/
theorem learn_total (fl : Rat → Rat) (L : Learner) (a : Act) (r : Rat) (hinv : L.kind.Inv) :
    ∃ L', L.learn fl a r = .ok L' ∧ L'.kind.Inv ∧ L'.kind.arity = L.kind.arity := Learner.learn_ok fl L a r hinv

theorem ucb_learn_total (fl : Rat → Rat) (st : Ucb) (a : Act) (r : Rat) (hinv : st.Inv) :
    ∃ st', st.learn fl a r = .ok st' ∧ st'.Inv := Ucb.learn_total fl st a r hinv

/-- whole histories: from any valid learner, for every rounding function, every UCB index and
every sequence of in-quantifier calls, no call raises and every answer is what the property demands -/
theorem run_valid (fl : Rat → Rat) (val : Nat → Act → Rat) (ops : List Op) (k : Nat) (L : Learner)
    (hinv : L.kind.Inv) (hops : ∀ op ∈ ops, OpOk L.kind.arity op) :
    List.Forall₂ OutOk ops (runL fl val k L ops) := runL_valid fl val ops k L hinv hops

example : (Kind.eps { eps := 1 / 10 }).Inv ∧ (Kind.ucb {}).Inv ∧ Kind.random.Inv ∧ (Kind.fixed [1 / 4, 3 / 4]).Inv := by
  refine ⟨by norm_num [Kind.Inv], Ucb.inv_init, trivial, ?_⟩
  norm_num [Kind.Inv]

/-- Corral's pmf over the actions is the mixture of its base learners' choices: non-negative and
with the same total as the smoothed weights (every base learner chose an offered action) -/
theorem corral_pmf_dist (pbars : List Rat) (bacts actions : List Act) (hnd : actions.Nodup)
    (hlen : bacts.length = pbars.length) (hb : ∀ b ∈ bacts, b ∈ actions)
    (hpos : ∀ p ∈ pbars, 0 ≤ p) (hsum : pbars.sum = 1) :
    Valid (corralPmf pbars bacts actions) actions.length := corralPmf_valid pbars bacts actions hnd hlen hb hpos hsum

/-- one Corral update with ANY multiplier λ for which `update(λ)` is defined (all denominators
`1/p_i + η_i(ℓ_i - λ)` positive, i.e. λ left of the first pole — the loop invariant of the repaired
search) keeps every weight and smoothed weight strictly positive and summing to 1, the learning
rates positive; it does not raise for rewards in [0,1] and a non-zero probability -/
theorem corral_step_pos (c : Corral) (bacts : List Act) (a : Act) (r p lam : Rat) (hinv : c.Inv)
    (hlen : bacts.length = c.ps.length) (hr0 : 0 ≤ r) (hr1 : r ≤ 1) (hp : p ≠ 0)
    (hlam : ∃ raw, omdRaw c.ps c.etas (corralLosses bacts a r p) lam = some raw) :
    ∃ c', c.learnWith bacts a r p lam = .ok c' ∧ c'.Inv ∧ c'.ps.length = c.ps.length :=
  Corral.learnWith_ok c bacts a r p lam hinv hlen hr0 hr1 hp hlam

/-- the multiplier the repaired bisection returns always satisfies that condition … -/
theorem omd_search_valid (ps etas losses : List Rat) (hp : ∀ p ∈ ps, 0 < p) (he : ∀ e ∈ etas, 0 ≤ e) :
    ∃ raw, omdRaw ps etas losses (omdLambda ps etas losses) = some raw := omdLambda_valid ps etas losses hp he

/-- … hence `learn` never raises and never leaves Corral unable to predict -/
theorem corral_learn_total (c : Corral) (bacts : List Act) (a : Act) (r p : Rat) (hinv : c.Inv)
    (hlen : bacts.length = c.ps.length) (hr0 : 0 ≤ r) (hr1 : r ≤ 1) (hp : p ≠ 0) :
    ∃ c', c.learn bacts a r p = .ok c' ∧ c'.Inv ∧ c'.ps.length = c.ps.length :=
  Corral.learn_ok c bacts a r p hinv hlen hr0 hr1 hp

/-- the weights are a distribution to (better than) the 1e-4 the property allows -/
theorem corral_sum_tol (c : Corral) (h : c.Inv) :
    |c.ps.sum - 1| ≤ 1 / 10000 ∧ |c.pbars.sum - 1| ≤ 1 / 10000 := Corral.Inv.sum_tol c h

/-- a fresh CorralLearner satisfies the invariant (M ≥ 1 base learners, η > 0, γ = 1/T ∈ [0,1], β > 0) -/
theorem corral_init_inv (fl : Rat → Rat) (M : Nat) (eta gamma beta : Rat) (imp : Bool) (rng : Nat)
    (hM : M ≠ 0) (hfl : fl (1 / (M : Rat)) = 1 / (M : Rat)) (heta : 0 < eta) (hg0 : 0 ≤ gamma) (hg1 : gamma ≤ 1) (hb : 0 < beta) :
    (Corral.init fl M eta gamma beta imp rng).Inv := Corral.init_inv fl M eta gamma beta imp rng hM hfl heta hg0 hg1 hb

/-- whole Corral histories (base learners' choices arbitrary among the offered actions): every
visited state has strictly positive weights summing to 1, no call raises, every predict returns an
offered action with its strictly positive mixture probability -/
theorem corral_run_valid (ops : List COp) (c : Corral) (hinv : c.Inv) (hops : ∀ op ∈ ops, COpOk c.ps.length op) :
    List.Forall₂ (fun op co => co.1.Inv ∧ OutOkC op co.2) ops (runC c ops) := runC_valid ops c hinv hops

/-- the search's bracket: at `min(losses)` the new weights sum to at most the old total … -/
theorem omd_bracket_low (ps etas losses : List Rat) (lam : Rat) (hp : ∀ p ∈ ps, 0 < p)
    (he : ∀ e ∈ etas, 0 ≤ e) (hl : ∀ l ∈ losses, lam ≤ l) (h1 : etas.length = ps.length) (h2 : losses.length = ps.length) :
    ((omdDenoms ps etas losses lam).map (fun d => 1 / d)).sum ≤ ps.sum := omd_sum_le_of_le ps etas losses lam hp he hl h1 h2

/-- … and at `max(losses)`, if still left of the first pole, to at least the old total -/
theorem omd_bracket_high (ps etas losses : List Rat) (lam : Rat) (hp : ∀ p ∈ ps, 0 < p)
    (he : ∀ e ∈ etas, 0 ≤ e) (hl : ∀ l ∈ losses, l ≤ lam) (hd : ∀ d ∈ omdDenoms ps etas losses lam, 0 < d)
    (h1 : etas.length = ps.length) (h2 : losses.length = ps.length) :
    ps.sum ≤ ((omdDenoms ps etas losses lam).map (fun d => 1 / d)).sum := omd_sum_ge_of_ge ps etas losses lam hp he hl hd h1 h2

/-- the hypothesis of `corral_step_pos` is necessary, and the UNREPAIRED `_log_barrier_omd` violated
it: its shortcut `lmbda = max_loss` only tested that the sum rounds to 1.  Witness (replayed on the
real code by the harness, known finding C16-F1): weights (0.99999, 5e-6, 5e-6), losses (1e9, 0, 1e9),
η = 1 — at λ = max_loss the sum rounds to 1 yet the second weight is negative. -/
theorem corral_unguarded_shortcut_counterexample :
    let ps : List Rat := [99999 / 100000, 1 / 200000, 1 / 200000]
    let etas : List Rat := [1, 1, 1]
    let losses : List Rat := [1000000000, 0, 1000000000]
    let new := (omdDenoms ps etas losses 1000000000).map (fun d => 1 / d)
    (∀ p ∈ ps, 0 < p) ∧ ps.sum = 1 ∧ rounds1 new.sum = true ∧ (∃ x ∈ new, x < 0) ∧
      omdRaw ps etas losses 1000000000 = none := omd_shortcut_witness

end Coba.C16
