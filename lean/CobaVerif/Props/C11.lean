/-
C11 — Scale and Impute apply exactly the statistics of their fitting window.
Property theorems only (helper lemmas live in `Lemmas/C11.lean`; the model and the specification
predicates `ScaleCellSpec`, `ShiftStat`, `ScaleStat`, `ImpStat`, `IsMin`, `IsMedian`, `IsQuantile`,
`IsMode`, `Imputable`, `StatsDefined` in `Model/C11.lean`).

Reading of the statement.  A feature is a column: index `k` of dense contexts, key `k` of sparse
contexts (an absent key counts as the number 0 in statistics and is never materialised), the context
itself for scalar contexts.  Its fitting window is the column restricted to the first `using`
interactions (`window`).  `ScaleCellSpec sd cfg w v out` says: a number `x` becomes
`(x+shift)*scale` with the documented statistics of the non-missing window values `nums w`
(`None`, `nan` and strings take no part); anything else is unchanged.  `sd` stands for
`statistics.stdev` (needs a square root): every theorem holds for every `sd`.
-/
import CobaVerif.Lemmas.C11

namespace Coba.C11

/-! ## the statistics are the documented ones -/

/-- `min`/`max` of the window really are its least / greatest element -/
theorem min_max_spec (xs : List Rat) (m : Rat) :
    (minL xs = some m → IsMin xs m) ∧ (maxL xs = some m → IsMax xs m) := ⟨minL_isMin, maxL_isMax⟩

/-- `median` is the middle element of the sorted data or the mean of the two middle ones -/
theorem median_spec (xs : List Rat) (m : Rat) (h : median xs = some m) : IsMedian xs m := median_isMedian h

/-- coba.statistics.percentile (unweighted) is linear interpolation between closest ranks: for sorted-by-the-code
data of at least two values and `0 ≤ p ≤ 1` it never fails and returns the `p`-quantile -/
theorem percentile_spec (xs : List Rat) (p : Rat) (hn : 2 ≤ xs.length) (hp0 : 0 ≤ p) (hp1 : p ≤ 1) :
    ∃ q, percentile (isort xs) p = some q ∧ IsQuantile xs p q := percentile_isQuantile xs p hn hp0 hp1

/-- coba.statistics.iqr never fails; it is 0 for fewer than two values and `Q3 − Q1` otherwise -/
theorem iqr_spec (xs : List Rat) :
    ∃ d, iqr xs = some d ∧
      ((xs.length ≤ 1 ∧ d = 0) ∨
       (2 ≤ xs.length ∧ ∃ a b, IsQuantile xs (1/4) a ∧ IsQuantile xs (3/4) b ∧ d = b - a)) :=
  let ⟨d, hd⟩ := iqr_isSome xs; ⟨d, hd, iqr_sound hd⟩

/-- `_get_shift_and_scale`: whenever parameters are produced they are the documented statistics of the
non-missing window values — for every shift ∈ {number,min,mean,median} and scale ∈ {number,minmax,std,iqr,maxabs} -/
theorem fit_eq_spec (sd : List Rat → Rat) (cfg : Cfg) (w : List Val) (s f : Rat) (h : fit sd cfg w = some (s, f)) :
    ShiftStat cfg.shift (nums w) s ∧ ScaleStat sd cfg.scale (nums w) s f := fit_sound h

/-- … and parameters are produced whenever the window column holds no string and the statistics exist -/
theorem fit_defined (sd : List Rat → Rat) (cfg : Cfg) (w : List Val)
    (hstr : w.any Val.isStr = false) (hdef : StatsDefined cfg w) : ∃ s f, fit sd cfg w = some (s, f) :=
  fit_isSome sd cfg w hstr hdef

/-! ## Scale -/

/-- dense contexts: every cell of a numeric feature (no string in its window, first-interaction value a
number or `None`) whose statistics exist meets the cell specification — for all shift × scale combinations,
all windows, missing values anywhere including the first interaction -/
theorem scale_eq_spec (sd : List Rat → Rat) (cfg : Cfg) (rows : List (List Val)) (first : List Val)
    (i k : Nat) (v : Val)
    (hfirst : rows.head? = some first) (hv : denseCell rows i k = some v)
    (hpot : potDense first k = true)
    (hstr : (col k (window cfg.usingN rows)).any Val.isStr = false)
    (hdef : StatsDefined cfg (col k (window cfg.usingN rows))) :
    ∃ out, denseCell (scaleDense sd cfg rows) i k = some out ∧
      ScaleCellSpec sd cfg (col k (window cfg.usingN rows)) v out :=
  scale_dense_eq_spec' sd cfg rows first i k v hfirst hv hpot hstr hdef

example : ∃ out, denseCell (scaleDense (fun _ => 1) ⟨.min, .minmax, none⟩ [[.nil], [.num 2], [.num 4]]) 2 0 = some out ∧
    ScaleCellSpec (fun _ => 1) ⟨.min, .minmax, none⟩ [.nil, .num 2, .num 4] (.num 4) out :=
  scale_eq_spec _ _ _ [.nil] 2 0 (.num 4) rfl rfl rfl rfl
    ⟨by simp [nums, Val.num?, col, window], by simp [nums, Val.num?, col, window]⟩

/-- dense contexts: strings, `None` and `nan` are never touched, wherever they are; the number of
interactions and of features is unchanged; a feature whose first-interaction value is a string is left alone -/
theorem scale_untouched (sd : List Rat → Rat) (cfg : Cfg) (rows : List (List Val)) :
    (∀ i k v, denseCell rows i k = some v → v.isNum = false → denseCell (scaleDense sd cfg rows) i k = some v) ∧
    (∀ first i k, rows.head? = some first → potDense first k = false →
        denseCell (scaleDense sd cfg rows) i k = denseCell rows i k) ∧
    (scaleDense sd cfg rows).length = rows.length ∧
    (∀ i : Nat, ((scaleDense sd cfg rows)[i]?).map List.length = (rows[i]?).map List.length) :=
  ⟨fun i k v hv hn => scale_dense_untouched' sd cfg rows i k v hv hn,
   fun first i k hf hp => scale_dense_nonpotential' sd cfg rows first i k hf hp,
   (scale_dense_shape' sd cfg rows).1, (scale_dense_shape' sd cfg rows).2⟩

/-- scalar contexts -/
theorem scale_scalar_eq_spec (sd : List Rat → Rat) (cfg : Cfg) (rows : List Val) (i : Nat) (v : Val)
    (hv : rows[i]? = some v)
    (hstr : (window cfg.usingN rows).any Val.isStr = false)
    (hdef : StatsDefined cfg (window cfg.usingN rows)) :
    ∃ out, (scaleScalar sd cfg rows)[i]? = some out ∧ ScaleCellSpec sd cfg (window cfg.usingN rows) v out :=
  scale_scalar_eq_spec' sd cfg rows i v hv hstr hdef

theorem scale_scalar_untouched (sd : List Rat → Rat) (cfg : Cfg) (rows : List Val) :
    (∀ (i : Nat) (v : Val), rows[i]? = some v → v.isNum = false → (scaleScalar sd cfg rows)[i]? = some v) ∧
    (scaleScalar sd cfg rows).length = rows.length :=
  ⟨fun i v hv hn => scale_scalar_untouched' sd cfg rows i v hv hn, scale_scalar_length' sd cfg rows⟩

/- theorem scale_sparse_eq_spec_full: the same without `hpot` (i.e. also for keys that first occur after the
   window).  False for the code: see `scale_sparse_key_outside_window_counterexample` (finding C11-F9). -/
/-- sparse contexts (shift 0), statistics over the window with an absent key counting as 0.
Partial: the key must occur in the fitting window (and not hold a string in the first interaction) —
this is `hpot` -/
theorem scale_sparse_eq_spec_partial (sd : List Rat → Rat) (cfg : Cfg) (rows : List SCtx) (first : SCtx)
    (i : Nat) (k : String) (v : Val)
    (hfirst : rows.head? = some first) (h0 : cfg.shift = .num 0)
    (hv : sparseCell rows i k = some v)
    (hpot : potSparse first (window cfg.usingN rows) k = true)
    (hstr : ((window cfg.usingN rows).map (getD0 k)).any Val.isStr = false)
    (hdef : StatsDefined cfg ((window cfg.usingN rows).map (getD0 k))) :
    ∃ outs out, scaleSparse sd cfg rows = .ok outs ∧ sparseCell outs i k = some out ∧
      ScaleCellSpec sd cfg ((window cfg.usingN rows).map (getD0 k)) v out :=
  scale_sparse_eq_spec' sd cfg rows first i k v hfirst h0 hv hpot hstr hdef

example : ∃ outs out, scaleSparse (fun _ => 1) ⟨.num 0, .maxabs, some 2⟩ [[("a", .num 1)], [("b", .num 4)], [("b", .num 2)]] = .ok outs ∧
    sparseCell outs 2 "b" = some out ∧
    ScaleCellSpec (fun _ => 1) ⟨.num 0, .maxabs, some 2⟩ [.num 0, .num 4] (.num 2) out :=
  scale_sparse_eq_spec_partial _ _ _ [("a", .num 1)] 2 "b" (.num 2) rfl rfl rfl (by decide) (by decide)
    ⟨trivial, by simp [nums, Val.num?, getD0, window, List.lookup]⟩

/-- finding C11-F9: `Scale(0, 2, using=1)` on `{a:1},{b:3}` leaves `b = 3` although the documented value
(given numbers need no window) is 6 — so `hpot` above cannot be dropped -/
theorem scale_sparse_key_outside_window_counterexample :
    let cfg : Cfg := ⟨.num 0, .num 2, some 1⟩
    let rows : List SCtx := [[("a", .num 1)], [("b", .num 3)]]
    ∀ sd : List Rat → Rat,
      (∃ outs, scaleSparse sd cfg rows = .ok outs ∧ sparseCell outs 1 "b" = some (.num 3)) ∧
      (∀ out, ScaleCellSpec sd cfg ((window cfg.usingN rows).map (getD0 "b")) (.num 3) out → out = .num 6) :=
  scale_key_outside_window_witness

/-- sparse contexts: non-numbers are untouched, no key appears or disappears, and a non-zero shift is rejected -/
theorem scale_sparse_untouched (sd : List Rat → Rat) (cfg : Cfg) (rows : List SCtx) (first : SCtx)
    (hfirst : rows.head? = some first) :
    (cfg.shift = .num 0 →
      (∀ i k v, sparseCell rows i k = some v → v.isNum = false →
        ∃ outs, scaleSparse sd cfg rows = .ok outs ∧ sparseCell outs i k = some v) ∧
      (∃ outs, scaleSparse sd cfg rows = .ok outs ∧
        outs.map (fun c => c.map Prod.fst) = rows.map (fun c => c.map Prod.fst))) ∧
    (cfg.shift ≠ .num 0 → scaleSparse sd cfg rows = .error .cobaException) :=
  ⟨fun h0 => ⟨fun i k v hv hn => scale_sparse_untouched' sd cfg rows first i k v hfirst h0 hv hn,
              scale_sparse_keys' sd cfg rows first hfirst h0⟩,
   fun h0 => scale_sparse_rejects' sd cfg rows (by intro h; simp [h] at hfirst) h0⟩

/-- the three kinds of context agree: scalar contexts behave as dense contexts with one feature, and a
sparse context behaves as its dense embedding (absent key = 0) on every key that occurs in the window -/
theorem scale_containers_agree (sd : List Rat → Rat) (cfg : Cfg) :
    (∀ rows : List Val, cfg.usingN ≠ some 0 →
      scaleDense sd cfg (rows.map (fun v => [v])) = (scaleScalar sd cfg rows).map (fun v => [v])) ∧
    (∀ (rows : List SCtx) (first : SCtx) (keys : List String) (i j : Nat) (k : String) (v : Val),
      rows.head? = some first → cfg.shift = .num 0 → keys[j]? = some k → sparseCell rows i k = some v →
      (window cfg.usingN rows).any (hasKey k) = true →
      ∃ outs, scaleSparse sd cfg rows = .ok outs ∧
        sparseCell outs i k = denseCell (scaleDense sd cfg (rows.map (embed keys))) i j) :=
  ⟨fun rows hu => scale_scalar_dense_agree' sd cfg rows hu,
   fun rows first keys i j k v hf h0 hk hv ho => scale_sparse_dense_agree' sd cfg rows first keys i j k v hf h0 hk hv ho⟩

/-! ## the fitting window -/

/-- `using = None` is the whole stream, `using ≥ N` is the same as `None`, and with `using = len(w)` on
`w ++ rest` everything is determined by `w`: each interaction (inside or after the window) is transformed by
the row function fitted on `w` alone -/
theorem window_semantics (sd : List Rat → Rat) (sh : Shift) (sc : Scl) :
    (∀ (rows : List (List Val)) (n : Nat), rows.length ≤ n →
      scaleDense sd ⟨sh, sc, some n⟩ rows = scaleDense sd ⟨sh, sc, none⟩ rows) ∧
    (∀ (first : List Val) (w rest : List (List Val)), w.head? = some first →
      scaleDense sd ⟨sh, sc, some w.length⟩ (w ++ rest) = (w ++ rest).map (denseRow sd ⟨sh, sc, some w.length⟩ first w)) ∧
    (∀ (rows : List Val) (n : Nat), rows.length ≤ n →
      scaleScalar sd ⟨sh, sc, some n⟩ rows = scaleScalar sd ⟨sh, sc, none⟩ rows) ∧
    (∀ (w rest : List Val),
      scaleScalar sd ⟨sh, sc, some w.length⟩ (w ++ rest) = (w ++ rest).map (applyOpt (fit sd ⟨sh, sc, some w.length⟩ w))) ∧
    (∀ (rows : List SCtx) (n : Nat), rows.length ≤ n →
      scaleSparse sd ⟨sh, sc, some n⟩ rows = scaleSparse sd ⟨sh, sc, none⟩ rows) ∧
    (∀ (first : SCtx) (w rest : List SCtx), w.head? = some first → sh = .num 0 →
      scaleSparse sd ⟨sh, sc, some w.length⟩ (w ++ rest) = .ok ((w ++ rest).map (sparseRow sd ⟨sh, sc, some w.length⟩ first w))) :=
  ⟨fun rows n h => scaleDense_using_ge' sd sh sc n rows h,
   fun first w rest hw => scaleDense_window' sd _ first w rest hw rfl,
   fun rows n h => scaleScalar_using_ge' sd sh sc n rows h,
   fun w rest => scaleScalar_window' sd _ w rest rfl,
   fun rows n h => scaleSparse_using_ge' sd sh sc n rows h,
   fun first w rest hw h0 => scaleSparse_window' sd _ first w rest hw rfl h0⟩

theorem impute_window_semantics (st : Stat) (ind : Bool) :
    (∀ (rows : List (List Val)) (n : Nat), rows.length ≤ n → imputeDense st ind (some n) rows = imputeDense st ind none rows) ∧
    (∀ (first : List Val) (w rest : List (List Val)), w.head? = some first →
      imputeDense st ind (some w.length) (w ++ rest) = (w ++ rest).map (imputeDenseRow st ind first w)) ∧
    (∀ (rows : List SCtx) (n : Nat), rows.length ≤ n → imputeSparse st ind (some n) rows = imputeSparse st ind none rows) ∧
    (∀ (rows : List Val) (n : Nat), rows.length ≤ n → imputeScalar st ind (some n) rows = imputeScalar st ind none rows) :=
  ⟨fun rows n h => imputeDense_using_ge' st ind n rows h,
   fun first w rest hw => imputeDense_window' st ind first w rest hw,
   fun rows n h => imputeSparse_using_ge' st ind n rows h,
   fun rows n h => imputeScalar_using_ge' st ind n rows h⟩

/-! ## Impute -/

/-- `_get_imputation`: an imputation, when produced, is the mean / median / a mode of the non-missing window
values, and it is produced for every imputable feature -/
theorem imputation_spec (st : Stat) (w : List Val) :
    (∀ m, getImp st w = some m → ImpStat st (present w) m) ∧ (Imputable st w → ∃ m, getImp st w = some m) :=
  ⟨fun _ h => getImp_sound h, getImp_isSome⟩

/-- dense contexts: every missing value (`None`) of an imputable feature — wherever it is, including the first
interaction — is replaced by that feature's statistic over the window -/
theorem impute_eq_spec (st : Stat) (ind : Bool) (u : Option Nat) (rows : List (List Val)) (first : List Val)
    (i k : Nat) (hfirst : rows.head? = some first) (hu : u ≠ some 0) (hk : k < first.length)
    (hv : denseCell rows i k = some .nil)
    (himp : Imputable st (col k (window u rows))) :
    ∃ m, denseCell (imputeDense st ind u rows) i k = some m ∧ ImpStat st (present (col k (window u rows))) m :=
  impute_dense_eq_spec' st ind u rows first i k hfirst hu hk hv himp

example : ∃ m, denseCell (imputeDense .mean true none [[.nil], [.num 2], [.num 4]]) 0 0 = some m ∧
    ImpStat .mean (present [.nil, .num 2, .num 4]) m :=
  impute_eq_spec .mean true none _ [.nil] 0 0 rfl (by simp) (by simp) rfl ⟨by decide, by decide⟩

/-- no non-missing value is changed or moved (dense and sparse contexts; scalar: `impute_scalar_spec`) -/
theorem impute_nonmissing_fixed (st : Stat) (ind : Bool) (u : Option Nat) :
    (∀ (rows : List (List Val)) i k v, denseCell rows i k = some v → v ≠ .nil →
      denseCell (imputeDense st ind u rows) i k = some v) ∧
    (∀ (rows : List SCtx) i k v, sparseCell rows i k = some v → v ≠ .nil →
      sparseCell (imputeSparse st ind u rows) i k = some v) :=
  ⟨fun rows i k v hv hn => impute_dense_nonmissing_fixed' st ind u rows i k v hv hn,
   fun rows i k v hv hn => impute_sparse_nonmissing_fixed' st ind u rows i k v hv hn⟩

/-- the missingness indicators: each result row is the (imputed) features followed by exactly one 0/1 feature
per imputable column that has a missing value in the window (none when `indicator=False`), in column order;
the indicator is 1 iff the row's own value in that column was missing -/
theorem impute_indicator (st : Stat) (ind : Bool) (u : Option Nat) (rows : List (List Val)) (first row : List Val)
    (i : Nat) (hfirst : rows.head? = some first) (hrow : rows[i]? = some row) :
    ∃ out, (imputeDense st ind u rows)[i]? = some out ∧
      out.length = row.length + (denseBins st ind first (window u rows)).length ∧
      (∀ j k, (denseBins st ind first (window u rows))[j]? = some k →
        out[row.length + j]? = some (bit (row[k]? == some Val.nil))) ∧
      (∀ k, k ∈ denseBins st ind first (window u rows) ↔
        (ind = true ∧ k < first.length ∧ (denseImp st first (window u rows) k).isSome = true ∧
          (col k (window u rows)).any Val.isNil = true)) :=
  impute_dense_indicator' st ind u rows first row i hfirst hrow

theorem impute_no_indicator (st : Stat) (u : Option Nat) (rows : List (List Val)) :
    (imputeDense st false u rows).map List.length = rows.map List.length ∧
    (imputeDense st false u rows).length = rows.length :=
  ⟨impute_dense_no_indicator' st u rows, impute_dense_length' st false u rows⟩

/-- scalar contexts: the result is the list of imputed scalars, or of `[value, indicator]` pairs when
`indicator=True` and the window has a missing value; a missing value becomes the window statistic -/
theorem impute_scalar_spec (st : Stat) (ind : Bool) (u : Option Nat) (rows : List Val) :
    ((ind && (window u rows).any Val.isNil) = false →
      imputeScalar st ind u rows = .scalars (rows.map (imputeCell (getImp st (window u rows))))) ∧
    ((ind && (window u rows).any Val.isNil) = true →
      imputeScalar st ind u rows = .pairs (rows.map (fun v => [imputeCell (getImp st (window u rows)) v, bit v.isNil]))) ∧
    (∀ v, (v ≠ .nil → imputeCell (getImp st (window u rows)) v = v) ∧
      (v = .nil → Imputable st (window u rows) →
        ∃ m, imputeCell (getImp st (window u rows)) v = m ∧ ImpStat st (present (window u rows)) m)) :=
  ⟨impute_scalar_spec' st ind u rows, impute_scalar_indicator' st ind u rows, fun v => imputeCell_spec st _ v⟩

/- theorem impute_sparse_eq_spec_full: the same without `hkey`.  False for the code: see
   `impute_sparse_key_outside_window_counterexample` (finding C11-F10). -/
/-- sparse contexts, statistics over the window with an absent key counting as 0.  Partial: the key must occur
in the window (`hkey`) -/
theorem impute_sparse_eq_spec_partial (st : Stat) (ind : Bool) (u : Option Nat) (rows : List SCtx) (first : SCtx)
    (i : Nat) (k : String) (hfirst : rows.head? = some first)
    (hv : sparseCell rows i k = some .nil)
    (hkey : impSparseKey st first (window u rows) k = true)
    (himp : Imputable st (sparseCol k (window u rows))) :
    ∃ m, sparseCell (imputeSparse st ind u rows) i k = some m ∧
      ImpStat st (present (sparseCol k (window u rows))) m :=
  impute_sparse_eq_spec' st ind u rows first i k hfirst hv hkey himp

example : ∃ m, sparseCell (imputeSparse .median false none [[("a", .nil)], [("a", .num 2)], []]) 0 "a" = some m ∧
    ImpStat .median (present (sparseCol "a" [[("a", .nil)], [("a", .num 2)], []])) m :=
  impute_sparse_eq_spec_partial .median false none _ [("a", .nil)] 0 "a" rfl rfl (by decide) ⟨by decide, by decide⟩

/-- finding C11-F10: `Impute('mean', using=1)` on `{a:1},{b:None}` keeps the `None` although the window
statistic of `b` (absent = 0) is 0 — so `hkey` above cannot be dropped -/
theorem impute_sparse_key_outside_window_counterexample :
    let rows : List SCtx := [[("a", .num 1)], [("b", .nil)]]
    sparseCell (imputeSparse .mean false (some 1) rows) 1 "b" = some .nil ∧
    (∀ m, ImpStat .mean (present (sparseCol "b" (window (some 1) rows))) m → m = .num 0) :=
  impute_key_outside_window_witness

/-- sparse contexts: a result row is the (imputed) context followed by one `<key>_is_missing` 0/1 entry per
imputable key that occurs with a missing value in the window; 1 iff this row's value under the key was missing -/
theorem impute_sparse_indicator (st : Stat) (ind : Bool) (u : Option Nat) (rows : List SCtx) (first c : SCtx)
    (i : Nat) (hfirst : rows.head? = some first) (hrow : rows[i]? = some c) :
    (imputeSparse st ind u rows)[i]? = some
      (c.map (fun kv => (kv.1, imputeCell (sparseImp st first (window u rows) kv.1) kv.2))
        ++ (sparseBins st ind first (window u rows)).map
            (fun k => (k ++ "_is_missing", bit (c.lookup k == some Val.nil)))) ∧
    (∀ k, k ∈ sparseBins st ind first (window u rows) ↔
      (ind = true ∧ (window u rows).any (hasKey k) = true ∧ (sparseImp st first (window u rows) k).isSome = true ∧
        ((window u rows).filterMap (fun c => c.lookup k)).any Val.isNil = true)) :=
  impute_sparse_indicator' st ind u rows first c i hfirst hrow

/-- `Environments.impute(stats)`: the statistics of a list are applied one after the other, each to the
result of the previous one -/
theorem impute_list_sequential (st : Stat) (stats : List Stat) (ind : Bool) (u : Option Nat) (c : Ctxs) :
    envImpute [] ind u c = c ∧
    envImpute (st :: stats) ind u c = envImpute stats ind u (imputeCtxs st ind u c) :=
  ⟨rfl, rfl⟩

end Coba.C11
