/-
C11 — Scale and Impute apply exactly the statistics of their fitting window.
Property theorems only (helper lemmas live in `Lemmas/C11.lean`; the model and the specification
predicates `ScaleCellSpec`, `ShiftStat`, `ScaleStat`, `ImpStat`, `IsMin`, `IsMedian`, `IsQuantile`,
`IsMode`, `Imputable`, `StatsDefined` in `Model/C11.lean`).

Reading of the statement.  A feature is a column: index `k` of dense contexts, key `k` of sparse
contexts (an absent key counts as the number 0 in statistics and is never materialised), the context
itself for scalar contexts.  Its fitting window is the column restricted to the first `using`
interactions (`window`).  `ScaleCellSpec sd cfg w v out` says: a number `x` becomes
`(x+shift)*scale` with the documented statistics of the non-missing window values `nums w`
(`None`, `nan` and strings take no part); anything else is unchanged.  `sd` stands for
`statistics.stdev` (needs a square root): every theorem holds for every `sd`.
-/
import CobaVerif.Lemmas.C11

namespace Coba.C11

/-! ## the statistics are the documented ones -/

/-- `min`/`max` of the window really are its least / greatest element -/
theorem min_max_spec (xs : List Rat) (m : Rat) :
    (minL xs = some m → IsMin xs m) ∧ (maxL xs = some m → IsMax xs m) := ⟨minL_isMin, maxL_isMax⟩

/-- `median` is the middle element of the sorted data or the mean of the two middle ones -/
theorem median_spec (xs : List Rat) (m : Rat) (h : median xs = some m) : IsMedian xs m := median_isMedian h

/-- coba.statistics.percentile (unweighted) is linear interpolation between closest ranks: for sorted-by-the-code
data of at least two values and `0 ≤ p ≤ 1` it never fails and returns the `p`-quantile -/
theorem percentile_spec (xs : List Rat) (p : Rat) (hn : 2 ≤ xs.length) (hp0 : 0 ≤ p) (hp1 : p ≤ 1) :
    ∃ q, percentile (isort xs) p = some q ∧ IsQuantile xs p q := percentile_isQuantile xs p hn hp0 hp1

/-- coba.statistics.iqr never fails; it is 0 for fewer than two values and `Q3 − Q1` otherwise -/
theorem iqr_spec (xs : List Rat) :
    ∃ d, iqr xs = some d ∧
      ((xs.length ≤ 1 ∧ d = 0) ∨
       (2 ≤ xs.length ∧ ∃ a b, IsQuantile xs (1/4) a ∧ IsQuantile xs (3/4) b ∧ d = b - a)) :=
  let ⟨d, hd⟩ := iqr_isSome xs; ⟨d, hd, iqr_sound hd⟩

/-- `_get_shift_and_scale`: whenever parameters are produced they are the documented statistics of the
non-missing window values — for every shift ∈ {number,min,mean,median} and scale ∈ {number,minmax,std,iqr,maxabs} -/
theorem fit_eq_spec (sd : List Rat → Rat) (cfg : Cfg) (w : List Val) (s f : Rat) (h : fit sd cfg w = some (s, f)) :
    ShiftStat cfg.shift (nums w) s ∧ ScaleStat sd cfg.scale (nums w) s f := fit_sound h

/-- … and parameters are produced whenever the window column holds no string and the statistics exist -/
theorem fit_defined (sd : List Rat → Rat) (cfg : Cfg) (w : List Val)
    (hstr : w.any Val.isStr = false) (hdef : StatsDefined cfg w) : ∃ s f, fit sd cfg w = some (s, f) :=
  fit_isSome sd cfg w hstr hdef

/-! ## Scale -/

/-- dense contexts: every cell of a numeric feature (no string in its window, first-interaction value a
number or `None`) whose statistics exist meets the cell specification — for all shift × scale combinations,
all windows, missing values anywhere including the first interaction -/
theorem scale_eq_spec (sd : List Rat → Rat) (cfg : Cfg) (rows : List (List Val)) (first : List Val)
    (i k : Nat) (v : Val)
    (hfirst : rows.head? = some first) (hv : denseCell rows i k = some v)
    (hpot : potDense first k = true)
    (hstr : (col k (window cfg.usingN rows)).any Val.isStr = false)
    (hdef : StatsDefined cfg (col k (window cfg.usingN rows))) :
    ∃ out, denseCell (scaleDense sd cfg rows) i k = some out ∧
      ScaleCellSpec sd cfg (col k (window cfg.usingN rows)) v out :=
  scale_dense_eq_spec' sd cfg rows first i k v hfirst hv hpot hstr hdef

example : ∃ out, denseCell (scaleDense (fun _ => 1) ⟨.min, .minmax, none⟩ [[.nil], [.num 2], [.num 4]]) 2 0 = some out ∧
    ScaleCellSpec (fun _ => 1) ⟨.min, .minmax, none⟩ [.nil, .num 2, .num 4] (.num 4) out :=
  scale_eq_spec _ _ _ [.nil] 2 0 (.num 4) rfl rfl rfl rfl
    ⟨by simp [nums, Val.num?, col, window], by simp [nums, Val.num?, col, window]⟩

/-- dense contexts: strings, `None` and `nan` are never touched, wherever they are; the number of
interactions and of features is unchanged; a feature whose first-interaction value is a string is left alone -/
theorem scale_untouched (sd : List Rat → Rat) (cfg : Cfg) (rows : List (List Val)) :
    (∀ i k v, denseCell rows i k = some v → v.isNum = false → denseCell (scaleDense sd cfg rows) i k = some v) ∧
    (∀ first i k, rows.head? = some first → potDense first k = false →
        denseCell (scaleDense sd cfg rows) i k = denseCell rows i k) ∧
    (scaleDense sd cfg rows).length = rows.length ∧
    (∀ i : Nat, ((scaleDense sd cfg rows)[i]?).map List.length = (rows[i]?).map List.length) :=
  ⟨fun i k v hv hn => scale_dense_untouched' sd cfg rows i k v hv hn,
   fun first i k hf hp => scale_dense_nonpotential' sd cfg rows first i k hf hp,
   (scale_dense_shape' sd cfg rows).1, (scale_dense_shape' sd cfg rows).2⟩

/-- scalar contexts -/
theorem scale_scalar_eq_spec (sd : List Rat → Rat) (cfg : Cfg) (rows : List Val) (i : Nat) (v : Val)
    (hv : rows[i]? = some v)
    (hstr : (window cfg.usingN rows).any Val.isStr = false)
    (hdef : StatsDefined cfg (window cfg.usingN rows)) :
    ∃ out, (scaleScalar sd cfg rows)[i]? = some out ∧ ScaleCellSpec sd cfg (window cfg.usingN rows) v out :=
  scale_scalar_eq_spec' sd cfg rows i v hv hstr hdef

theorem scale_scalar_untouched (sd : List Rat → Rat) (cfg : Cfg) (rows : List Val) :
    (∀ (i : Nat) (v : Val), rows[i]? = some v → v.isNum = false → (scaleScalar sd cfg rows)[i]? = some v) ∧
    (scaleScalar sd cfg rows).length = rows.length :=
  ⟨fun i v hv hn => scale_scalar_untouched' sd cfg rows i v hv hn, scale_scalar_length' sd cfg rows⟩

/-- sparse contexts (shift 0), statistics over the window with an absent key counting as 0 — for EVERY key whose
first-interaction value is not a string (`hpot`), whether or not it occurs in the fitting window: a key absent
from the whole window has an all-zero window column (full strength since fix C11-scale-sparse-key-outside-window) -/
theorem scale_sparse_eq_spec (sd : List Rat → Rat) (cfg : Cfg) (rows : List SCtx) (first : SCtx)
    (i : Nat) (k : String) (v : Val)
    (hfirst : rows.head? = some first) (h0 : cfg.shift = .num 0)
    (hv : sparseCell rows i k = some v)
    (hpot : potSparse first k = true)
    (hstr : ((window cfg.usingN rows).map (getD0 k)).any Val.isStr = false)
    (hdef : StatsDefined cfg ((window cfg.usingN rows).map (getD0 k))) :
    ∃ outs out, scaleSparse sd cfg rows = .ok outs ∧ sparseCell outs i k = some out ∧
      ScaleCellSpec sd cfg ((window cfg.usingN rows).map (getD0 k)) v out :=
  scale_sparse_eq_spec' sd cfg rows first i k v hfirst h0 hv hpot hstr hdef

/-- the former finding C11-F9 as an instance: `Scale(0, 2, using=1)` on `{a:1},{b:3}` scales `b` -/
example : ∃ outs out, scaleSparse (fun _ => 1) ⟨.num 0, .num 2, some 1⟩ [[("a", .num 1)], [("b", .num 3)]] = .ok outs ∧
    sparseCell outs 1 "b" = some out ∧
    ScaleCellSpec (fun _ => 1) ⟨.num 0, .num 2, some 1⟩ [.num 0] (.num 3) out :=
  scale_sparse_eq_spec _ _ _ [("a", .num 1)] 1 "b" (.num 3) rfl rfl rfl (by decide) (by decide) ⟨trivial, trivial⟩

example : ∃ outs out, scaleSparse (fun _ => 1) ⟨.num 0, .maxabs, some 2⟩ [[("a", .num 1)], [("b", .num 4)], [("b", .num 2)]] = .ok outs ∧
    sparseCell outs 2 "b" = some out ∧
    ScaleCellSpec (fun _ => 1) ⟨.num 0, .maxabs, some 2⟩ [.num 0, .num 4] (.num 2) out :=
  scale_sparse_eq_spec _ _ _ [("a", .num 1)] 2 "b" (.num 2) rfl rfl rfl (by decide) (by decide)
    ⟨trivial, by simp [nums, Val.num?, getD0, window, List.lookup]⟩

/-- sparse contexts: non-numbers are untouched, no key appears or disappears, and a non-zero shift is rejected -/
theorem scale_sparse_untouched (sd : List Rat → Rat) (cfg : Cfg) (rows : List SCtx) (first : SCtx)
    (hfirst : rows.head? = some first) :
    (cfg.shift = .num 0 →
      (∀ i k v, sparseCell rows i k = some v → v.isNum = false →
        ∃ outs, scaleSparse sd cfg rows = .ok outs ∧ sparseCell outs i k = some v) ∧
      (∃ outs, scaleSparse sd cfg rows = .ok outs ∧
        outs.map (fun c => c.map Prod.fst) = rows.map (fun c => c.map Prod.fst))) ∧
    (cfg.shift ≠ .num 0 → scaleSparse sd cfg rows = .error .cobaException) :=
  ⟨fun h0 => ⟨fun i k v hv hn => scale_sparse_untouched' sd cfg rows first i k v hfirst h0 hv hn,
              scale_sparse_keys' sd cfg rows first hfirst h0⟩,
   fun h0 => scale_sparse_rejects' sd cfg rows (by intro h; simp [h] at hfirst) h0⟩

/-- the three kinds of context agree: scalar contexts behave as dense contexts with one feature (phase 3: stated for
streams whose first context is not a string — with the exact model of windows holding strings the scalar path, which
always fits, and the dense path, which takes its potential keys from the first context, differ on a MIXED column that
starts with a string: see `scale_scalar_dense_mixed_counterexample`; the earlier hypothesis `using ≠ 0` is no longer
needed), and a
sparse context behaves as its dense embedding (absent key = 0) on every key -/
theorem scale_containers_agree (sd : List Rat → Rat) (cfg : Cfg) :
    (∀ rows : List Val, (∀ v0, rows.head? = some v0 → v0.isStr = false) →
      scaleDense sd cfg (rows.map (fun v => [v])) = (scaleScalar sd cfg rows).map (fun v => [v])) ∧
    (∀ (rows : List SCtx) (first : SCtx) (keys : List String) (i j : Nat) (k : String) (v : Val),
      rows.head? = some first → cfg.shift = .num 0 → keys[j]? = some k → sparseCell rows i k = some v →
      ∃ outs, scaleSparse sd cfg rows = .ok outs ∧
        sparseCell outs i k = denseCell (scaleDense sd cfg (rows.map (embed keys))) i j) :=
  ⟨fun rows hs => scale_scalar_dense_agree' sd cfg rows hs,
   fun rows first keys i j k v hf h0 hk hv => scale_sparse_dense_agree' sd cfg rows first keys i j k v hf h0 hk hv⟩

/-! ## the fitting window -/

/-- `using = None` is the whole stream, `using ≥ N` is the same as `None`, and with `using = len(w)` on
`w ++ rest` everything is determined by `w`: each interaction (inside or after the window) is transformed by
the row function fitted on `w` alone -/
theorem window_semantics (sd : List Rat → Rat) (sh : Shift) (sc : Scl) :
    (∀ (rows : List (List Val)) (n : Nat), rows.length ≤ n →
      scaleDense sd ⟨sh, sc, some n⟩ rows = scaleDense sd ⟨sh, sc, none⟩ rows) ∧
    (∀ (first : List Val) (w rest : List (List Val)), w.head? = some first →
      scaleDense sd ⟨sh, sc, some w.length⟩ (w ++ rest) = (w ++ rest).map (denseRow sd ⟨sh, sc, some w.length⟩ first w)) ∧
    (∀ (rows : List Val) (n : Nat), rows.length ≤ n →
      scaleScalar sd ⟨sh, sc, some n⟩ rows = scaleScalar sd ⟨sh, sc, none⟩ rows) ∧
    (∀ (w rest : List Val),
      scaleScalar sd ⟨sh, sc, some w.length⟩ (w ++ rest) = (w ++ rest).map (applyOpt (fit sd ⟨sh, sc, some w.length⟩ w))) ∧
    (∀ (rows : List SCtx) (n : Nat), rows.length ≤ n →
      scaleSparse sd ⟨sh, sc, some n⟩ rows = scaleSparse sd ⟨sh, sc, none⟩ rows) ∧
    (∀ (first : SCtx) (w rest : List SCtx), w.head? = some first → sh = .num 0 →
      scaleSparse sd ⟨sh, sc, some w.length⟩ (w ++ rest) = .ok ((w ++ rest).map (sparseRow sd ⟨sh, sc, some w.length⟩ first w))) :=
  ⟨fun rows n h => scaleDense_using_ge' sd sh sc n rows h,
   fun first w rest hw => scaleDense_window' sd _ first w rest hw rfl,
   fun rows n h => scaleScalar_using_ge' sd sh sc n rows h,
   fun w rest => scaleScalar_window' sd _ w rest rfl,
   fun rows n h => scaleSparse_using_ge' sd sh sc n rows h,
   fun first w rest hw h0 => scaleSparse_window' sd _ first w rest hw rfl h0⟩

theorem impute_window_semantics (st : Stat) (ind : Bool) :
    (∀ (rows : List (List Val)) (n : Nat), rows.length ≤ n → imputeDense st ind (some n) rows = imputeDense st ind none rows) ∧
    (∀ (first : List Val) (w rest : List (List Val)), w.head? = some first →
      imputeDense st ind (some w.length) (w ++ rest) = (w ++ rest).map (imputeDenseRow st ind first w)) ∧
    (∀ (rows : List SCtx) (n : Nat), rows.length ≤ n → imputeSparse st ind (some n) rows = imputeSparse st ind none rows) ∧
    (∀ (rows : List Val) (n : Nat), rows.length ≤ n → imputeScalar st ind (some n) rows = imputeScalar st ind none rows) :=
  ⟨fun rows n h => imputeDense_using_ge' st ind n rows h,
   fun first w rest hw => imputeDense_window' st ind first w rest hw,
   fun rows n h => imputeSparse_using_ge' st ind n rows h,
   fun rows n h => imputeScalar_using_ge' st ind n rows h⟩

/-! ## Impute -/

/-- `_get_imputation`: an imputation, when produced, is the mean / median / a mode of the non-missing window
values, and it is produced for every imputable feature -/
theorem imputation_spec (st : Stat) (w : List Val) :
    (∀ m, getImp st w = some m → ImpStat st (present w) m) ∧ (Imputable st w → ∃ m, getImp st w = some m) :=
  ⟨fun _ h => getImp_sound h, getImp_isSome⟩

/-- dense contexts: every missing value (`None` or `nan`) of an imputable feature — wherever it is, including the
first interaction — is replaced by that feature's statistic over the non-missing values of the window -/
theorem impute_eq_spec (st : Stat) (ind : Bool) (u : Option Nat) (rows : List (List Val)) (first : List Val)
    (i k : Nat) (v : Val) (hfirst : rows.head? = some first) (hu : u ≠ some 0) (hk : k < first.length)
    (hv : denseCell rows i k = some v) (hmiss : v.isMiss = true)
    (himp : Imputable st (col k (window u rows))) :
    ∃ m, denseCell (imputeDense st ind u rows) i k = some m ∧ ImpStat st (present (col k (window u rows))) m :=
  impute_dense_eq_spec' st ind u rows first i k v hfirst hu hk hv hmiss himp

example : ∃ m, denseCell (imputeDense .mean true none [[.nil], [.num 2], [.nan], [.num 4]]) 2 0 = some m ∧
    ImpStat .mean (present [.nil, .num 2, .nan, .num 4]) m :=
  impute_eq_spec .mean true none _ [.nil] 2 0 .nan rfl (by simp) (by simp) rfl rfl ⟨by decide, by decide⟩

/-- no non-missing value is changed or moved (dense and sparse contexts; scalar: `impute_scalar_spec`).  For sparse
contexts the key must not itself be the indicator name `<b>_is_missing` of a window key `b`: the code writes the
indicators with `dict.update`, which overwrites such a feature (seen by the correspondence check on two-pass lists) -/
theorem impute_nonmissing_fixed (st : Stat) (ind : Bool) (u : Option Nat) :
    (∀ (rows : List (List Val)) i k v, denseCell rows i k = some v → v.isMiss = false →
      denseCell (imputeDense st ind u rows) i k = some v) ∧
    (∀ (rows : List SCtx) i k v, sparseCell rows i k = some v → v.isMiss = false →
      (∀ b ∈ sparseBins ind (window u rows), b ++ "_is_missing" ≠ k) →
      sparseCell (imputeSparse st ind u rows) i k = some v) :=
  ⟨fun rows i k v hv hn => impute_dense_nonmissing_fixed' st ind u rows i k v hv hn,
   fun rows i k v hv hn hf => impute_sparse_nonmissing_fixed' st ind u rows i k v hv hn hf⟩

/-- the missingness indicators: each result row is the (imputed) features followed by exactly one 0/1 feature
per column that has a missing value (`None`/`nan`) in the window — imputable or not, as for scalar contexts —
(none when `indicator=False`), in column order; the indicator is 1 iff the row's own value in that column was missing -/
theorem impute_indicator (st : Stat) (ind : Bool) (u : Option Nat) (rows : List (List Val)) (first row : List Val)
    (i : Nat) (hfirst : rows.head? = some first) (hrow : rows[i]? = some row) :
    ∃ out, (imputeDense st ind u rows)[i]? = some out ∧
      out.length = row.length + (denseBins ind first (window u rows)).length ∧
      (∀ j k, (denseBins ind first (window u rows))[j]? = some k →
        out[row.length + j]? = some (bit (missAt row[k]?))) ∧
      (∀ k, k ∈ denseBins ind first (window u rows) ↔
        (ind = true ∧ k < first.length ∧ (col k (window u rows)).any Val.isMiss = true)) :=
  impute_dense_indicator' st ind u rows first row i hfirst hrow

theorem impute_no_indicator (st : Stat) (u : Option Nat) (rows : List (List Val)) :
    (imputeDense st false u rows).map List.length = rows.map List.length ∧
    (imputeDense st false u rows).length = rows.length :=
  ⟨impute_dense_no_indicator' st u rows, impute_dense_length' st false u rows⟩

/-- scalar contexts: the result is the list of imputed scalars, or of `[value, indicator]` pairs when
`indicator=True` and the window has a missing value; a missing value becomes the window statistic -/
theorem impute_scalar_spec (st : Stat) (ind : Bool) (u : Option Nat) (rows : List Val) :
    ((ind && (window u rows).any Val.isMiss) = false →
      imputeScalar st ind u rows = .scalars (rows.map (imputeCell (getImp st (window u rows))))) ∧
    ((ind && (window u rows).any Val.isMiss) = true →
      imputeScalar st ind u rows = .pairs (rows.map (fun v => [imputeCell (getImp st (window u rows)) v, bit v.isMiss]))) ∧
    (∀ v, (v.isMiss = false → imputeCell (getImp st (window u rows)) v = v) ∧
      (v.isMiss = true → Imputable st (window u rows) →
        ∃ m, imputeCell (getImp st (window u rows)) v = m ∧ ImpStat st (present (window u rows)) m)) :=
  ⟨impute_scalar_spec' st ind u rows, impute_scalar_indicator' st ind u rows, fun v => imputeCell_spec st _ v⟩

/-- sparse contexts, statistics over the window with an absent key counting as 0 — for every key that is imputable
by the statistic (`hkey`: not a string in the first interaction for mean/median), whether or not it occurs in the
window (full strength since fix C11-impute-sparse-key-outside-window) -/
theorem impute_sparse_eq_spec (st : Stat) (ind : Bool) (u : Option Nat) (rows : List SCtx) (first : SCtx)
    (i : Nat) (k : String) (v : Val) (hfirst : rows.head? = some first)
    (hv : sparseCell rows i k = some v) (hmiss : v.isMiss = true)
    (hkey : impSparseKey st first k = true)
    (himp : Imputable st (sparseCol k (window u rows)))
    (hfresh : ∀ b ∈ sparseBins ind (window u rows), b ++ "_is_missing" ≠ k) :
    ∃ m, sparseCell (imputeSparse st ind u rows) i k = some m ∧
      ImpStat st (present (sparseCol k (window u rows))) m :=
  impute_sparse_eq_spec' st ind u rows first i k v hfirst hv hmiss hkey himp hfresh

example : ∃ m, sparseCell (imputeSparse .median false none [[("a", .nil)], [("a", .num 2)], []]) 0 "a" = some m ∧
    ImpStat .median (present (sparseCol "a" [[("a", .nil)], [("a", .num 2)], []])) m :=
  impute_sparse_eq_spec .median false none _ [("a", .nil)] 0 "a" .nil rfl rfl rfl (by decide) ⟨by decide, by decide⟩
    (by simp [sparseBins])

/-- the former finding C11-F10 as an instance: `Impute('mean', using=1)` on `{a:1},{b:None}` imputes the window
statistic of `b` (absent = 0) -/
example : ∃ m, sparseCell (imputeSparse .mean false (some 1) [[("a", .num 1)], [("b", .nil)]]) 1 "b" = some m ∧
    ImpStat .mean (present (sparseCol "b" [[("a", .num 1)]])) m :=
  impute_sparse_eq_spec .mean false (some 1) _ [("a", .num 1)] 1 "b" .nil rfl rfl rfl (by decide) ⟨by decide, by decide⟩
    (by simp [sparseBins])

/-- sparse contexts: a result row is the (imputed) context into which one `<key>_is_missing` 0/1 entry per key with a
missing value (`None`/`nan`) in the window is written (`dict.update`: appended, or overwriting an entry of that name);
every such entry is present and is the missingness bit of this row under a window key with that indicator name -/
theorem impute_sparse_indicator (st : Stat) (ind : Bool) (u : Option Nat) (rows : List SCtx) (first c : SCtx)
    (i : Nat) (hfirst : rows.head? = some first) (hrow : rows[i]? = some c) :
    (imputeSparse st ind u rows)[i]? = some
      ((sparseBins ind (window u rows)).foldl
        (fun acc k => upsert acc (k ++ "_is_missing") (bit (missAt (c.lookup k))))
        (c.map (fun kv => (kv.1, imputeCell (sparseImp st first (window u rows) kv.1) kv.2)))) ∧
    (∀ k, k ∈ sparseBins ind (window u rows) ↔
      (ind = true ∧ (window u rows).any (hasKey k) = true ∧
        ((window u rows).filterMap (fun c => c.lookup k)).any Val.isMiss = true)) ∧
    (∀ b ∈ sparseBins ind (window u rows), ∃ b' ∈ sparseBins ind (window u rows),
      b' ++ "_is_missing" = b ++ "_is_missing" ∧
      (imputeSparseRow st ind first (window u rows) c).lookup (b ++ "_is_missing") = some (bit (missAt (c.lookup b')))) :=
  ⟨(impute_sparse_indicator' st ind u rows first c i hfirst hrow).1,
   (impute_sparse_indicator' st ind u rows first c i hfirst hrow).2,
   fun b hb => impute_sparse_indicator_value' st ind first _ c b hb⟩

/-- `Environments.impute(stats)`: the statistics of a list are applied one after the other, each to the
result of the previous one -/
theorem impute_list_sequential (st : Stat) (stats : List Stat) (ind : Bool) (u : Option Nat) (c : Ctxs) :
    envImpute [] ind u c = c ∧
    envImpute (st :: stats) ind u c = envImpute stats ind u (imputeCtxs st ind u c) :=
  ⟨rfl, rfl⟩

/-! ## `std` characterised inside ℚ (no abstract square-root function in the conclusion) -/

/-- the sample variance the reciprocal square root is taken of is non-negative -/
theorem variance_nonneg_spec (xs : List Rat) (h : 2 ≤ xs.length) : 0 ≤ variance xs := variance_nonneg xs h

/-- there is at most one non-negative `f` with `f²·v = 1` -/
theorem invSqrt_unique (v f g : Rat) (hf : IsInvSqrt v f) (hg : IsInvSqrt v g) : f = g := invSqrt_unique' hf hg

/-- the 1e-6 guard on the deviation is the 1e-12 guard on the variance -/
theorem std_guard_iff (sd : List Rat → Rat) (xs : List Rat) (h : SqrtExact sd xs) :
    sd xs < 1 / 1000000 ↔ variance xs < 1 / 1000000000000 := guard_iff_variance h

/-- `_get_shift_and_scale` with every statistic characterised without a function parameter: when the square-root
routine is exact on the window's numbers (hypothesis only for `std`), the scale for `std` is THE non-negative `f`
with `f²·var = 1` (var = sample variance, `n−1`), or 1 below the guard -/
theorem fit_eq_spec_q (sd : List Rat → Rat) (cfg : Cfg) (w : List Val) (s f : Rat) (h : fit sd cfg w = some (s, f))
    (hx : cfg.scale = .std → SqrtExact sd (nums w)) :
    ShiftStat cfg.shift (nums w) s ∧ ScaleStatQ cfg.scale (nums w) s f := fit_sound_q h hx

example : SqrtExact (fun _ => 2) [1, 3, 5] := by
  refine ⟨by norm_num, ?_⟩
  simp [variance, sumL]
  norm_num

/-- for a square-root routine with relative error `δ` (`sd² = var·(1+δ)`, e.g. IEEE `sqrt`: |δ| ≤ 2^-51) the scale
for `std` satisfies `f²·var·(1+δ) = 1` exactly -/
theorem std_scale_within (sd : List Rat → Rat) (xs : List Rat) (s f δ : Rat) (hx : SqrtWithin sd xs δ)
    (hg : ¬ sd xs < 1 / 1000000) (h : ScaleStat sd .std xs s f) :
    0 ≤ f ∧ f * f * variance xs * (1 + δ) = 1 := std_scale_within' sd xs s f δ hx hg h

/-- every cell theorem above transfers: a cell meeting `ScaleCellSpec sd` meets the parameter-free `ScaleCellSpecQ` -/
theorem scale_cell_spec_q (sd : List Rat → Rat) (cfg : Cfg) (w : List Val) (v out : Val)
    (h : ScaleCellSpec sd cfg w v out) (hx : cfg.scale = .std → SqrtExact sd (nums w)) :
    ScaleCellSpecQ cfg w v out := cellSpec_to_Q h hx

/-- dense contexts, parameter-free form of `scale_eq_spec` -/
theorem scale_eq_spec_q (sd : List Rat → Rat) (cfg : Cfg) (rows : List (List Val)) (first : List Val)
    (i k : Nat) (v : Val)
    (hfirst : rows.head? = some first) (hv : denseCell rows i k = some v)
    (hpot : potDense first k = true)
    (hstr : (col k (window cfg.usingN rows)).any Val.isStr = false)
    (hdef : StatsDefined cfg (col k (window cfg.usingN rows)))
    (hx : cfg.scale = .std → SqrtExact sd (nums (col k (window cfg.usingN rows)))) :
    ∃ out, denseCell (scaleDense sd cfg rows) i k = some out ∧
      ScaleCellSpecQ cfg (col k (window cfg.usingN rows)) v out :=
  let ⟨out, h1, h2⟩ := scale_dense_eq_spec' sd cfg rows first i k v hfirst hv hpot hstr hdef
  ⟨out, h1, cellSpec_to_Q h2 hx⟩

/-! ## one filter object on several sequences; collections of environments -/

/-- a `Scale`/`Impute` object keeps no fitted state: whatever sequences it filtered before (and whatever its
`_times` bookkeeping has become), its result on sequence `b` is the result of a fresh object on `b` alone -/
theorem filter_stateless {κ α β : Type} (f : κ → α → β) (o : Obj κ) (before : List (List Nat × α))
    (dt : List Nat) (b : α) (times' : List Nat) :
    ((Obj.run f o (before ++ [(dt, b)])).2).getLast? = some (f o.cfg b) ∧
    ((Obj.run f o (before ++ [(dt, b)])).2).getLast? = some ((Obj.call f ⟨o.cfg, times'⟩ dt b).2) :=
  filter_stateless' f o before dt b times'

/-- all results of one object over a list of sequences are the pointwise results -/
theorem filter_run_pointwise {κ α β : Type} (f : κ → α → β) (o : Obj κ) (calls : List (List Nat × α)) :
    (Obj.run f o calls).1.cfg = o.cfg ∧ (Obj.run f o calls).2 = calls.map (fun c => f o.cfg c.2) :=
  Obj.run_spec f o calls

/-- `Environments([envA, envB, …]).scale(...)/.impute(...)`: reading the environments in any order, any number of
times, each read returns the pipeline of the filters' functions applied to that environment's own interactions -/
theorem collection_pointwise {κ : Type} (f : κ → Ctxs → Except Err Ctxs) (c : Coll κ) (order : List (List Nat × Nat)) :
    (Coll.reads f c order).2 =
      order.map (fun di => (c.srcs[di.2]?).map (fun src => pipe f (c.objs.map (·.cfg)) (.ok src))) :=
  collection_pointwise' f c order

/-- the pipelines of the two calls: one `Scale`; one `Impute` per statistic, i.e. `envImpute` -/
theorem collection_pipelines (sd : List Rat → Rat) (cfg : Cfg) (stats : List Stat) (ind : Bool) (u : Option Nat) (c : Ctxs) :
    pipe (scaleCtxs sd) [cfg] (.ok c) = scaleCtxs sd cfg c ∧
    pipe imputeF (stats.map (fun st => (st, ind, u))) (.ok c) = .ok (envImpute stats ind u c) :=
  ⟨pipe_scale sd cfg c, pipe_impute stats ind u c⟩

/-! ## phase 3 — mixed-type columns, the empty window, targets, argument glue, sparse completion -/

/-- `Scale(1, 2)` on the mixed scalar stream `'x', 3` scales the 3 (the scalar path fits whatever the first context is),
the dense one-feature stream `('x',), (3,)` leaves it (column 0 is not a potential key): the hypothesis of
`scale_containers_agree` is necessary.  Mixed columns are outside the property's quantifier; replayed on the code. -/
theorem scale_scalar_dense_mixed_counterexample :
    scaleScalar (fun _ => 1) ⟨.num 1, .num 2, none⟩ [.str "x", .num 3] = [.str "x", .num 8] ∧
    scaleDense (fun _ => 1) ⟨.num 1, .num 2, none⟩ [[.str "x"], [.num 3]] = [[.str "x"], [.num 3]] :=
  scalar_dense_mixed_witness

/-- a window holding a string (mixed or string column): `_get_shift_and_scale` succeeds exactly when nothing has to
look at the values — given numeric shift with a given numeric scale, or with `iqr` of at most one non-missing value
(scale 1) — and then returns exactly those parameters; every other configuration raises `TypeError` inside and yields
no parameters (the column is left alone).  No totalised default: the guard is an `iff`. -/
theorem fit_string_window (sd : List Rat → Rat) (cfg : Cfg) (w : List Val) (h : w.any Val.isStr = true) (s f : Rat) :
    fit sd cfg w = some (s, f) ↔
      ∃ a, cfg.shift = .num a ∧ s = a ∧
        ((∃ b, cfg.scale = .num b ∧ f = b) ∨ (cfg.scale = .iqr ∧ presentCount w ≤ 1 ∧ f = 1)) :=
  fit_string_window' sd cfg w h s f

example : fit (fun _ => 1) ⟨.num 2, .iqr, none⟩ [.nil, .str "x"] = some (2, 1) := by decide
example : fit (fun _ => 1) ⟨.num 2, .iqr, none⟩ [.num 3, .str "x"] = none := by decide

/-- the cell formula of the dense path with NO hypothesis on types: every cell is `applyOpt` of the parameters fitted on
its window column if the first context allows the column, else untouched — so in a mixed column numbers are scaled
(by `fit_string_window`'s parameters), strings/None/nan never -/
theorem scale_cell_formula (sd : List Rat → Rat) (cfg : Cfg) (rows : List (List Val)) (first : List Val)
    (hfirst : rows.head? = some first) (i k : Nat) :
    denseCell (scaleDense sd cfg rows) i k =
      (denseCell rows i k).map (applyOpt (if potDense first k then fit sd cfg (col k (window cfg.usingN rows)) else none)) :=
  scaleDense_cell sd cfg rows first hfirst i k

/-- `using = 0` on dense contexts (outside the property's quantifier, modelled exactly): with two or more potential keys
nothing is fitted and the interactions pass unchanged; otherwise, and for every `using ≠ 0`, `scaleDense` applies -/
theorem scale_dense_zero_window (sd : List Rat → Rat) (cfg : Cfg) :
    (∀ rows, cfg.usingN ≠ some 0 → scaleDenseFull sd cfg rows = scaleDense sd cfg rows) ∧
    (∀ first rest, cfg.usingN = some 0 →
      scaleDenseFull sd cfg (first :: rest) = if 2 ≤ potCount first then first :: rest else scaleDense sd cfg (first :: rest)) :=
  ⟨fun rows hu => scaleDenseFull_eq' sd cfg rows hu, fun first rest hu => scaleDenseFull_zero' sd cfg first rest hu⟩

/-- the `target` of a `Scale` object only gates the sparse-shift rejection: for target "context" the filter is
`scaleCtxs`; for any other target the context is scaled all the same, sparse contexts without the rejection; and with
shift 0 the two coincide -/
theorem scale_target_semantics (sd : List Rat → Rat) (sc : ScaleCfg) (c : Ctxs) :
    (sc.target = "context" → scaleFilter sd sc c = scaleCtxs sd sc.cfg c) ∧
    (sc.target ≠ "context" → scaleFilter sd sc c = match c with
      | .sparse rows => .ok (.sparse (scaleSparseRows sd sc.cfg rows))
      | c => scaleCtxs sd sc.cfg c) ∧
    (∀ rows, sc.cfg.shift = .num 0 → scaleSparse sd sc.cfg rows = .ok (scaleSparseRows sd sc.cfg rows)) :=
  ⟨scaleFilter_context' sd sc c, scaleFilter_other' sd sc c, fun rows h0 => scaleSparse_eq_rows' sd sc.cfg rows h0⟩

/-- `std` under a square-root routine with relative error `δ`, complete: the code's guard `sd < 1e-6` is exactly
`var·(1+δ) < 1e-12`, below it the scale is 1, otherwise `f ≥ 0` and `f²·var·(1+δ) = 1` -/
theorem std_scale_within_cases (sd : List Rat → Rat) (xs : List Rat) (s f δ : Rat) (hx : SqrtWithin sd xs δ)
    (h : ScaleStat sd .std xs s f) :
    2 ≤ xs.length ∧
    ((variance xs * (1 + δ) < 1 / 1000000000000 ∧ f = 1) ∨
     (1 / 1000000000000 ≤ variance xs * (1 + δ) ∧ 0 ≤ f ∧ f * f * variance xs * (1 + δ) = 1)) :=
  std_scale_within_cases' sd xs s f δ hx h

example : SqrtWithin (fun _ => 2) [1, 3, 5] 0 := by
  refine ⟨by norm_num, ?_⟩
  simp [variance, sumL]
  norm_num

/-- `Environments.scale(shift, scale, targets, using)`: one `Scale` per target, each configured with exactly the
arguments — a given `0` shift, `0` scale or `using=0` is kept (nothing is replaced through truthiness) — and an omitted
keyword takes the documented default (`"min"`, `"minmax"`, `"context"`, `None`) -/
theorem env_scale_config (a : ScaleArgs) :
    (∀ sh sc ts u, envScaleFilters ⟨some sh, some sc, some ts, some u⟩ = ts.map (fun t => ⟨⟨sh, sc, u⟩, t⟩)) ∧
    envScaleFilters ⟨none, none, none, none⟩ = [⟨⟨.min, .minmax, none⟩, "context"⟩] ∧
    (envScaleFilters a).map (·.target) = (match a.targets with | some ts => ts | none => ["context"]) ∧
    (∀ k ∈ envScaleFilters a,
      (∀ sh, a.shift = some sh → k.cfg.shift = sh) ∧ (a.shift = none → k.cfg.shift = .min) ∧
      (∀ sc, a.scale = some sc → k.cfg.scale = sc) ∧ (a.scale = none → k.cfg.scale = .minmax) ∧
      (∀ u, a.usingA = some u → k.cfg.usingN = u) ∧ (a.usingA = none → k.cfg.usingN = none)) :=
  ⟨envScaleFilters_given, envScaleFilters_defaults, envScaleFilters_targets a, envScaleFilters_fields a⟩

example : envScaleFilters ⟨some (.num 0), some (.num 0), some ["context", "context"], some (some 0)⟩ =
    [⟨⟨.num 0, .num 0, some 0⟩, "context"⟩, ⟨⟨.num 0, .num 0, some 0⟩, "context"⟩] := rfl

/-- `Environments.impute(stats, indicator, using)`: one `Impute` per statistic in order, `indicator=False` and
`using=0` kept, defaults `"mean"`, `True`, `None` -/
theorem env_impute_config (a : ImputeArgs) :
    (∀ ss b u, envImputeFilters ⟨some ss, some b, some u⟩ = ss.map (fun st => (st, b, u))) ∧
    envImputeFilters ⟨none, none, none⟩ = [(.mean, true, none)] ∧
    (∀ k ∈ envImputeFilters a,
      (∀ b, a.indicator = some b → k.2.1 = b) ∧ (a.indicator = none → k.2.1 = true) ∧
      (∀ u, a.usingA = some u → k.2.2 = u) ∧ (a.usingA = none → k.2.2 = none)) :=
  ⟨envImputeFilters_given, envImputeFilters_defaults, envImputeFilters_fields a⟩

/-- what `Environments(env).scale(**args)` does to an environment's contexts is the pipeline of the configured filters -/
theorem env_scale_behaviour (sd : List Rat → Rat) (a : ScaleArgs) (c : Ctxs) :
    envScale sd a c = pipe (scaleFilter sd) (envScaleFilters a) (.ok c) := envScale_eq_pipe sd a c

/-- the sparse default-zero completion: Impute's window column of a sparse key (present values, then one 0 per context
lacking the key) is a permutation of the dense-embedding column (0 in place), and mean, median and the set of modes over
the non-missing values are the same for both — for every window, keys missing in any rows -/
theorem sparse_completion (st : Stat) (k : String) (win : List SCtx) :
    (sparseCol k win).Perm (win.map (getD0 k)) ∧
    (∀ m, ImpStat st (present (sparseCol k win)) m ↔ ImpStat st (present (win.map (getD0 k))) m) :=
  ⟨sparseCol_perm k win, sparse_completion_stat' st k win⟩


/-! ## phase 4 — exception values inside `_get_shift_and_scale`, ragged dense rows, option tables tied to the source -/

/-- `fit` (parameters or `None`) is `fitE` — the body of the `try` with the exception it raises — with the exception
forgotten; and the only class the handler `except (TypeError,ValueError)` does not catch (`IndexError`, from `percentile`)
never arises, so `_get_shift_and_scale` never lets an exception out: for every window, configuration and `sd` -/
theorem fit_exception_values (sd : List Rat → Rat) (cfg : Cfg) (w : List Val) :
    fit sd cfg w = (match fitE sd cfg w with | .ok p => some p | .error _ => none) ∧
    fitE sd cfg w ≠ .error .indexError ∧
    getShiftAndScale scaleHandlers sd cfg w = .ok (fit sd cfg w) :=
  ⟨fit_eq_fitE' sd cfg w, fitE_no_indexError' sd cfg w, getShiftAndScale_eq' sd cfg w⟩

/-- `TypeError` exactly for a window holding a string, unless nothing looks at the values (numeric shift with numeric
scale, or with `iqr` of at most one non-missing value) -/
theorem fit_type_error_iff (sd : List Rat → Rat) (cfg : Cfg) (w : List Val) :
    fitE sd cfg w = .error .typeError ↔
      w.any Val.isStr = true ∧
        ¬ ∃ a, cfg.shift = .num a ∧ ((∃ b, cfg.scale = .num b) ∨ (cfg.scale = .iqr ∧ presentCount w ≤ 1)) :=
  fitE_typeError' sd cfg w

/-- plain `ValueError` (`min()`/`max()` of an empty list) exactly for a string-free window without numbers under shift
`min`, or under a numeric shift with `minmax`/`maxabs` -/
theorem fit_value_error_iff (sd : List Rat → Rat) (cfg : Cfg) (w : List Val) :
    fitE sd cfg w = .error .valueError ↔
      w.any Val.isStr = false ∧ nums w = [] ∧
        (cfg.shift = .min ∨ ((∃ a, cfg.shift = .num a) ∧ (cfg.scale = .minmax ∨ cfg.scale = .maxabs))) :=
  fitE_valueError' sd cfg w

/-- `statistics.StatisticsError` exactly for a string-free window that is empty under `mean`/`median`, or has fewer than
two numbers under `std` (when the shift did not fail first) -/
theorem fit_statistics_error_iff (sd : List Rat → Rat) (cfg : Cfg) (w : List Val) :
    fitE sd cfg w = .error .statisticsError ↔
      w.any Val.isStr = false ∧
        ((nums w = [] ∧ (cfg.shift = .mean ∨ cfg.shift = .median)) ∨
         (((∃ a, cfg.shift = .num a) ∨ nums w ≠ []) ∧ cfg.scale = .std ∧ (nums w).length < 2)) :=
  fitE_statisticsError' sd cfg w

example : fitE (fun _ => 1) ⟨.min, .minmax, none⟩ [.num 3, .str "x"] = .error .typeError := by decide
example : fitE (fun _ => 1) ⟨.min, .minmax, none⟩ [.nil, .nan] = .error .valueError := by decide
example : fitE (fun _ => 1) ⟨.mean, .minmax, none⟩ [.nil] = .error .statisticsError := by decide
example : fitE (fun _ => 1) ⟨.min, .std, none⟩ [.num 3, .nil] = .error .statisticsError := by decide
example : fitE (fun _ => 1) ⟨.num 2, .iqr, none⟩ [.nil, .str "x"] = .ok (2, 1) := by decide

/-- a handler that caught `TypeError` only would let the `ValueError` of an all-missing window out of the function
(boundary of `fit_exception_values`: the handler tuple matters) -/
theorem narrow_handler_counterexample :
    getShiftAndScale ["TypeError"] (fun _ => 1) ⟨.min, .minmax, none⟩ [.nil, .nan] = .error .valueError := by decide

/-- ragged dense rows are OUTSIDE the property's quantifier (a feature is a column of every interaction); the model says
what the code does: on rectangular data — every context as long as the first — no `IndexError` can arise and the filter is
`scaleDenseFull` (all theorems above apply) -/
theorem scale_dense_rectangular (sd : List Rat → Rat) (cfg : Cfg) (rows : List (List Val)) (h : Rect rows = true) :
    scaleDenseE sd cfg rows = .ok (scaleDenseFull sd cfg rows) := scaleDenseE_rect' sd cfg rows h

example : Rect [[.num 1, .str "a"], [.nil, .str "b"]] = true := by decide

/-- the hypothesis `Rect` is necessary: a short row inside the window raises `IndexError`; a short row after the window
raises it only if the missing column got parameters (`std` of one value gives none → pass-through) -/
theorem scale_dense_ragged_counterexample :
    scaleDenseE (fun _ => 1) ⟨.num 0, .num 2, none⟩ [[.num 1, .num 2], [.num 3]] = .error .indexError ∧
    scaleDenseE (fun _ => 1) ⟨.num 0, .num 2, some 1⟩ [[.num 1, .str "x", .num 5], [.num 2]] = .error .indexError ∧
    scaleDenseE (fun _ => 1) ⟨.num 0, .std, some 1⟩ [[.num 1, .str "x", .num 5], [.num 2]] =
      .ok [[.num 1, .str "x", .num 5], [.num 2]] := by decide +kernel

/-- the option tables: a string is accepted by the model's table iff it is one of the listed names -/
theorem option_tables (s : String) :
    (shiftOfName s = none ↔ s ∉ shiftNames) ∧ (sclOfName s = none ↔ s ∉ scaleNames) ∧ (statOfName s = none ↔ s ∉ statNames) :=
  ⟨shiftOfName_none_iff' s, sclOfName_none_iff' s, statOfName_none_iff' s⟩

/-- TRANSLATOR OBLIGATION.  What `harness/props/c11.py` extracts from the CURRENT source with `ast` — the accepted
`shift`/`scale`/`stat` strings (the constructors' asserts), the dispatch of `_shift_value`/`_scale_value`/`_get_imputation`
(option string → functions called), the degenerate-feature threshold and the `except` tuple of `_get_shift_and_scale` —
equals the model's tables -/
theorem options_match_source :
    Coba.Generated.C11.shiftAccepted = shiftNames ∧ Coba.Generated.C11.scaleAccepted = scaleNames ∧
    Coba.Generated.C11.statAccepted = statNames ∧ Coba.Generated.C11.shiftDispatch = shiftTable ∧
    Coba.Generated.C11.scaleDispatch = sclTable ∧ Coba.Generated.C11.statDispatch = statTable ∧
    Coba.Generated.C11.guard = guardThreshold ∧ Coba.Generated.C11.handlers = scaleHandlers := options_match_source'

/-- TRANSLATOR OBLIGATION.  The keyword defaults of `Scale.__init__`, `Environments.scale`, `Impute.__init__` and
`Environments.impute` in the source are the ones the model's argument glue uses for omitted keywords -/
theorem defaults_match_source :
    Coba.Generated.C11.ctorScale.tuple = (scaleCtorCfg ⟨none, none, none, none⟩).tuple ∧
    Coba.Generated.C11.envScale.map ScaleCfg.tuple = (envScaleFilters ⟨none, none, none, none⟩).map ScaleCfg.tuple ∧
    [Coba.Generated.C11.ctorImpute] = envImputeFilters ⟨none, none, none⟩ ∧
    Coba.Generated.C11.envImpute = envImputeFilters ⟨none, none, none⟩ := defaults_match_source'

/-- the guard of `_scale_value` in terms of the extracted threshold -/
theorem guard_threshold (nd : Rat × Rat) : guardDiv nd = if nd.2 < guardThreshold then nd.1 else nd.1 / nd.2 :=
  guardDiv_threshold' nd


/-! ## phase 4 (continued) — which columns get scaled / imputed (mixed-type columns included); the square root -/

/-- parameters exist for a window column exactly when none of the three exception conditions (`TypeErrCond`,
`ValueErrCond`, `StatErrCond` — the right-hand sides of `fit_type_error_iff` …) holds -/
theorem fit_defined_iff (sd : List Rat → Rat) (cfg : Cfg) (w : List Val) :
    (fit sd cfg w).isSome = true ↔ ¬ TypeErrCond cfg w ∧ ¬ ValueErrCond cfg w ∧ ¬ StatErrCond cfg w :=
  fit_isSome_iff' sd cfg w

/-- WHICH DENSE COLUMNS GET SCALED, for every table (mixed-type columns included).  The code's decision procedure is
`denseDecision` (it IS what `denseRow` applies, first conjunct, by `rfl`): potential key from the FIRST context, parameters
from the WINDOW column.  It decides "scale" iff the first context's cell exists and is not a string (None/nan/number) and
the window column raises none of the three exceptions; a decided column has every number `x ↦ (x+s)·f` and everything
else untouched, an undecided one is untouched -/
theorem scale_dense_column_iff (sd : List Rat → Rat) (cfg : Cfg) (first : List Val) (win : List (List Val)) (k : Nat) :
    (∀ row, denseRow sd cfg first win row = row.mapIdx (fun k v => applyOpt (denseDecision sd cfg first win k) v)) ∧
    ((denseDecision sd cfg first win k).isSome = true ↔
      (∃ v, first[k]? = some v ∧ v.isStr = false) ∧
        ¬ TypeErrCond cfg (col k win) ∧ ¬ ValueErrCond cfg (col k win) ∧ ¬ StatErrCond cfg (col k win)) ∧
    (∀ v, (denseDecision sd cfg first win k = none → applyOpt (denseDecision sd cfg first win k) v = v) ∧
      (∀ s f, denseDecision sd cfg first win k = some (s, f) →
        (∀ x, v = .num x → applyOpt (denseDecision sd cfg first win k) v = .num ((x + s) * f)) ∧
        (v.isNum = false → applyOpt (denseDecision sd cfg first win k) v = v))) :=
  ⟨fun row => denseRow_decision sd cfg first win row, denseDecision_isSome_iff' sd cfg first win k,
   fun v => applyOpt_decision _ v⟩

/-- a mixed column that starts with a number and holds a string in the window IS scaled under numeric shift and scale … -/
example : denseDecision (fun _ => 1) ⟨.num 1, .num 2, none⟩ [.num 3] [[.num 3], [.str "x"]] 0 = some (1, 2) := by decide +kernel
/-- … and is NOT under a named statistic, nor when it starts with the string -/
example : denseDecision (fun _ => 1) ⟨.min, .num 2, none⟩ [.num 3] [[.num 3], [.str "x"]] 0 = none := by decide +kernel
example : denseDecision (fun _ => 1) ⟨.num 1, .num 2, none⟩ [.str "x"] [[.str "x"], [.num 3]] 0 = none := by decide +kernel

/-- the same for sparse keys: decided iff the first context does not hold a string under the key (absent counts as fine)
and the window column (absent = 0) raises none of the exceptions -/
theorem scale_sparse_column_iff (sd : List Rat → Rat) (cfg : Cfg) (first : SCtx) (win : List SCtx) (k : String) :
    (∀ c, sparseRow sd cfg first win c = c.map (fun kv => (kv.1, applyOpt (sparseDecision sd cfg first win kv.1) kv.2))) ∧
    ((sparseDecision sd cfg first win k).isSome = true ↔
      (∀ v, first.lookup k = some v → v.isStr = false) ∧
        ¬ TypeErrCond cfg (win.map (getD0 k)) ∧ ¬ ValueErrCond cfg (win.map (getD0 k)) ∧ ¬ StatErrCond cfg (win.map (getD0 k))) :=
  ⟨fun c => sparseRow_decision sd cfg first win c, sparseDecision_isSome_iff' sd cfg first win k⟩

/-- WHICH COLUMNS GET IMPUTED: `_get_imputation` yields a value iff the window column is `Imputable` (a non-missing value
exists and, for mean/median, all non-missing values are numbers — so a MIXED column is imputed by `mode` only); the dense
path additionally asks the FIRST context's cell not to be a string (mean/median) resp. to exist (mode); the sparse path asks
that of the first context's entry under the key, if there is one -/
theorem impute_column_iff (st : Stat) :
    (∀ w, (getImp st w).isSome = true ↔ Imputable st w) ∧
    (∀ (first : List Val) (win : List (List Val)) (k : Nat), (denseImp st first win k).isSome = true ↔
      (match st with | .mode => k < first.length | _ => ∃ v, first[k]? = some v ∧ v.isStr = false) ∧
        Imputable st (col k win)) ∧
    (∀ (first : SCtx) (win : List SCtx) (k : String), (sparseImp st first win k).isSome = true ↔
      (match st with | .mode => True | _ => ∀ v, first.lookup k = some v → v.isStr = false) ∧
        Imputable st (sparseCol k win)) :=
  ⟨getImp_isSome_iff' st, denseImp_isSome_iff' st, sparseImp_isSome_iff' st⟩

example : (denseImp .mode [.str "a"] [[.str "a"], [.num 1], [.nil]] 0).isSome = true := by decide +kernel
example : (denseImp .mean [.num 2] [[.num 2], [.str "a"], [.nil]] 0).isSome = false := by decide +kernel

/-- `scale_containers_agree` WITHOUT its hypothesis, as an iff: scalar contexts and dense contexts with one feature give
the same result exactly when the first context is not a string or the scalar path changes nothing (no parameters, or no
number they move).  So the hypothesis cannot be lifted: `scale_scalar_dense_mixed_counterexample` (replayed on the code by
the corpus cases tagged `agree:mixed-first-string`) is an instance of the right-hand side failing -/
theorem scale_scalar_dense_agree_iff (sd : List Rat → Rat) (cfg : Cfg) (v0 : Val) (rest : List Val) :
    scaleDense sd cfg ((v0 :: rest).map (fun v => [v])) = (scaleScalar sd cfg (v0 :: rest)).map (fun v => [v]) ↔
      (v0.isStr = false ∨ ∀ v ∈ v0 :: rest, applyOpt (fit sd cfg (window cfg.usingN (v0 :: rest))) v = v) :=
  scale_scalar_dense_agree_iff' sd cfg v0 rest

/-- the integer square root with sticky bit of CPython's `statistics` is exact on perfect squares -/
theorem isqrt_rto_exact (a m : Nat) (hm : 0 < m) : isqrtRto (a * a * m) m = a := isqrtRto_exact' a m hm

/-- THE SQUARE ROOT.  `pySd` is what `statistics.stdev` computes (`_float_sqrt_of_frac` on the exact sample variance, before
the final correctly rounded int/int division — exact whenever the numerator fits 53 bits).  It satisfies `SqrtExact`, the
hypothesis of `fit_eq_spec_q`, on every data set whose sample variance is the square of a rational `r ≥ 0` whose denominator
divides `r.num·2^s` (`s` the routine's scaling shift, ≥ 54 for modest data: every dyadic `r` with ≤ 54 fractional bits) -/
theorem sqrt_exact_perfect_square (xs : List Rat) (r : Rat) (hr : 0 ≤ r) (hv : variance xs = r * r)
    (hq : pySqrtShift (r.num.toNat * r.num.toNat) (r.den * r.den) < 0)
    (hd : r.den ∣ r.num.toNat * 2 ^ (-(pySqrtShift (r.num.toNat * r.num.toNat) (r.den * r.den))).toNat) :
    SqrtExact pySd xs := sqrt_exact_perfect_square' xs r hr hv hq hd

/-- the hypotheses are met by `[1, 3, 5]` (variance 4 = 2²) and by `[1/4, 3/4]` … (variance 1/8 is not a square:) `[0, 3/2, 3]`
(variance 9/4 = (3/2)²) -/
example : SqrtExact pySd [1, 3, 5] :=
  sqrt_exact_perfect_square [1, 3, 5] 2 (by decide +kernel) (by decide +kernel) (by decide +kernel) (by decide +kernel)
example : SqrtExact pySd [0, 3 / 2, 3] :=
  sqrt_exact_perfect_square [0, 3 / 2, 3] (3 / 2) (by decide +kernel) (by decide +kernel) (by decide +kernel) (by decide +kernel)

/-- outside perfect squares the routine is NOT exact (ℚ has no √2): `SqrtExact` fails for `[0, 2]` (variance 2) -/
theorem sqrt_exact_counterexample : ¬ SqrtExact pySd [0, 2] := by
  unfold SqrtExact
  decide +kernel

/-! ### phase 5 — size and even/odd thresholds of the statistics; first-seen mode -/

/-- QUARTILE RANKS.  On sorted data of at least two values `percentile` at `1/4` and `3/4` is `quarterAt`: rank `q(n−1) / 4`
(natural-number division), the value there when `q(n−1) % 4 = 0`, otherwise the two neighbouring order statistics with weights
`1 − r/4`, `r/4` (`r` the remainder) — no floor of a rational left in the statement -/
theorem percentile_quarter (s : List Rat) (q : Nat) (hq : q = 1 ∨ q = 3) (hn : 2 ≤ s.length) :
    percentile s ((q : Rat) / 4) = quarterAt s q := percentile_quarter' s q hq hn

/-- `iqr` of at least two values is the difference of the two `quarterAt` values of the sorted data -/
theorem iqr_quarters (xs : List Rat) (hn : 2 ≤ xs.length) :
    iqr xs = match quarterAt (isort xs) 1, quarterAt (isort xs) 3 with
      | some a, some b => some (b - a)
      | _, _ => none := iqr_quarters' xs hn

/-- EVEN number of values (every even `n ≥ 2`): `n−1` is odd, so neither quartile rank is whole — both quartiles are proper
interpolations between two neighbouring order statistics, with weights `r/4`, `r ∈ {1,3}` -/
theorem iqr_even_interpolates (xs : List Rat) (hn : 2 ≤ xs.length) (he : xs.length % 2 = 0) :
    ∃ a b c d, (isort xs)[(xs.length - 1) / 4]? = some a ∧ (isort xs)[(xs.length - 1) / 4 + 1]? = some b ∧
      (isort xs)[3 * (xs.length - 1) / 4]? = some c ∧ (isort xs)[3 * (xs.length - 1) / 4 + 1]? = some d ∧
      (xs.length - 1) % 4 ≠ 0 ∧ 3 * (xs.length - 1) % 4 ≠ 0 ∧
      iqr xs = some (((1 - ((3 * (xs.length - 1) % 4 : Nat) : Rat) / 4) * c + ((3 * (xs.length - 1) % 4 : Nat) : Rat) / 4 * d)
                   - ((1 - (((xs.length - 1) % 4 : Nat) : Rat) / 4) * a + (((xs.length - 1) % 4 : Nat) : Rat) / 4 * b)) :=
  iqr_even_interpolates' xs hn he

example : iqr [8, 1, 4, 2] = some ((1 - 1 / 4) * 4 + 1 / 4 * 8 - ((1 - 3 / 4) * 1 + 3 / 4 * 2)) := by decide +kernel

/-- `n ≡ 1 (mod 4)` values (5, 9, 13, …): both ranks are whole — the interquartile range is the plain difference of the order
statistics of rank `3(n−1)/4` and `(n−1)/4` -/
theorem iqr_whole_ranks (xs : List Rat) (hn : 2 ≤ xs.length) (h4 : xs.length % 4 = 1) :
    ∃ a c, (isort xs)[(xs.length - 1) / 4]? = some a ∧ (isort xs)[3 * (xs.length - 1) / 4]? = some c ∧ iqr xs = some (c - a) :=
  iqr_whole_ranks' xs hn h4

example : iqr [16, 1, 4, 2, 8] = some (8 - 2) := by decide +kernel

/-- the size thresholds of `iqr`: no value / one value → 0 (`len(values) <= 1`); two values → half their distance -/
theorem iqr_small : iqr [] = some 0 ∧ (∀ a, iqr [a] = some 0) ∧ (∀ a b, iqr [a, b] = some (absR (b - a) / 2)) := iqr_small'

/-- `statistics.median` at its smallest sizes and, for every non-empty data set, by parity of the count: odd → the middle order
statistic, even → the mean of the two middle ones -/
theorem median_small : median [] = none ∧ (∀ a, median [a] = some a) ∧ (∀ a b, median [a, b] = some ((a + b) / 2)) := median_small'

theorem median_parity (xs : List Rat) (hn : xs ≠ []) :
    (xs.length % 2 = 1 → ∃ a, (isort xs)[xs.length / 2]? = some a ∧ median xs = some a) ∧
    (xs.length % 2 = 0 → ∃ a b, (isort xs)[xs.length / 2 - 1]? = some a ∧ (isort xs)[xs.length / 2]? = some b ∧
        median xs = some ((a + b) / 2)) := median_parity' xs hn

/-- FIRST-SEEN MODE.  The value `mode` returns splits the data as `pre ++ m :: post` where every value of `pre` occurs strictly
less often than `m` (so `m` is the FIRST value reaching the maximal count — not the smallest, not the last) and no value of
`post` occurs more often -/
theorem mode_first_seen {vs : List Val} {m : Val} (h : mode vs = some m) :
    ∃ pre post, vs = pre ++ m :: post ∧ (∀ v ∈ pre, count v vs < count m vs) ∧ (∀ v ∈ post, count v vs ≤ count m vs) :=
  mode_first_seen' h

/-- …equivalently: among the values of maximal count, `m` has the least index of first occurrence -/
theorem mode_not_before {vs : List Val} {m : Val} (h : mode vs = some m) (v : Val) (hv : v ∈ vs)
    (hc : count v vs = count m vs) : vs.idxOf m ≤ vs.idxOf v := mode_not_before' h v hv hc

/-- first seen ≠ smallest, ties, mixed strings and numbers -/
example : mode [.num 3, .num 1, .num 1, .num 3] = some (.num 3) := by decide +kernel
example : mode [.str "b", .num 1, .str "a", .num 1, .str "b"] = some (.str "b") := by decide +kernel
example : mode [.num 2, .str "a", .str "a", .num 2, .str "a"] = some (.str "a") := by decide +kernel

/-! ### phase 5 — translator tie from constants to BODIES: the statistic bodies as expression programs -/

/-- the model's `percentile` IS the expression program `pctProg` (the three early returns, `i = p·(len−1)`, `I = int(i)`,
`values[I]` if `i == I`, else `w = i − I`, `(1−w)·values[I] + w·values[I+1]`, Python indexing and `int`), for every non-empty
list and every `p ≥ 0` -/
theorem percentile_program (s : List Rat) (p : Rat) (hp : 0 ≤ p) (hs : s ≠ []) : pctProg.run s p = percentile s p :=
  percentile_program' s p hp hs

example : pctProg.run [1, 2, 4, 8] (1 / 4) = some ((1 - 3 / 4) * 1 + 3 / 4 * 2) := by decide +kernel

/-- the model's `iqr` IS the program `iqrProg` (`len(values) <= 1 → 0`, percentiles `[1/4, 3/4]` of the sorted values bound to
two names, second minus first), for every list -/
theorem iqr_program (xs : List Rat) : iqrProg.run xs = iqr xs := iqr_program' xs

/-- the application expression `(x + shift) * scale` evaluates to what `applyVal` writes; `sum(values)/len(values)` is `mean` -/
theorem apply_program (x s f : Rat) :
    applyExpr.eval [("x", x), ("shift", s), ("scale", f)] [] = some ((x + s) * f) ∧ applyVal (s, f) (.num x) = .num ((x + s) * f) :=
  apply_program' x s f

theorem mean_program (xs : List Rat) : meanExpr.eval [] xs = mean xs := mean_program' xs

/-- TRANSLATOR OBLIGATION: the programs extracted from the CURRENT source (`Generated/C11Programs.lean`: bodies of
`coba.statistics.percentile`/`iqr`, every `… = (… + shift) * scale` assignment of `Scale.filter`, the `"mean"` branch of
`Impute._get_imputation`) are the model's programs — with the four theorems above: the source bodies compute the model's functions -/
theorem programs_match_source :
    Coba.Generated.C11.pctSrc = pctProg ∧ Coba.Generated.C11.iqrSrc = iqrProg ∧
    (Coba.Generated.C11.applySrc ≠ [] ∧ ∀ e ∈ Coba.Generated.C11.applySrc, e = applyExpr) ∧ Coba.Generated.C11.meanSrc = meanExpr :=
  programs_match_source'

/-! ### phase 6 — histories of partial, abandoned and interleaved reads of generators from the same filter object(s) -/

/-- ANY history of `open` / `next` / `close` over any number of generators created from the same shared filter objects
(one `Scale`/`Impute` object, or the pipeline of an `Environments.scale|impute` call), started in any state that a cursor
list describes: every output (yielded interaction, StopIteration, exception, close) is the output of the CURSOR machine,
in which generator `g` is nothing but a position in the fixed result `pipeRows f cfgs src_g` of ITS OWN sequence — no
fitted statistic is shared between frames, abandoned frames leave nothing behind, `_times` never matters -/
theorem generator_histories {κ : Type} (f : κ → Ctxs → Except Err Ctxs) (srcs : List Ctxs) (s : GenSt κ) (cs : List Cur)
    (ops : List (List Nat × GenOp)) (hg : s.gens = cs.map (Cur.conc (pipeRows f (s.objs.map (·.cfg))))) :
    (GenSt.run f srcs s ops).2 = (curRun (pipeRows f (s.objs.map (·.cfg))) srcs cs (ops.map (·.2))).2 :=
  generator_histories' f srcs s cs ops hg

/-- the hypothesis holds at the start (no generator created yet), for any objects with any `_times` -/
theorem generator_histories_init {κ : Type} (f : κ → Ctxs → Except Err Ctxs) (srcs : List Ctxs) (objs : List (Obj κ))
    (ops : List (List Nat × GenOp)) :
    (GenSt.run f srcs ⟨objs, []⟩ ops).2 = (curRun (pipeRows f (objs.map (·.cfg))) srcs [] (ops.map (·.2))).2 :=
  generator_histories_init' f srcs objs ops

/-- and in the middle of a history: one frame suspended after its first interaction, one abandoned -/
example : ([Gen.running [Row.scalar (.num 5)], Gen.done] : List Gen) =
    ([⟨.scalar [.num 1, .num 5], some 1⟩, ⟨.scalar [.nil], none⟩] : List Cur).map
      (Cur.conc (pipeRows imputeF ([] : List ImpCfg))) := by
  simp [Cur.conc, pipeRows, pipe, Except.map, Ctxs.rowList]

/-- in the cursor machine an operation on one generator touches no other cursor (so what `next g'` yields later is decided
by the operations on `g'` alone) -/
theorem cursor_frame (F : Ctxs → Except Err (List Row)) (srcs : List Ctxs) (cs : List Cur) (op : GenOp) (g' : Nat)
    (hlt : g' < cs.length) (hne : op ≠ .next g' ∧ op ≠ .close g') :
    (curStep F srcs cs op).1[g']? = cs[g']? :=
  cursor_frame' F srcs cs op g' hlt hne

example : (0 : Nat) < ([⟨.scalar [], some 0⟩] : List Cur).length ∧ (GenOp.next 1 ≠ .next 0 ∧ GenOp.next 1 ≠ .close 0) := by
  refine ⟨by simp, by simp, by simp⟩

/-- the fixed result lists the cursors point into: `Scale` → rows of `scaleCtxs`, `Environments.impute(stats)` → rows of
`envImpute` (so all cell theorems above apply to every interaction yielded in any history) -/
theorem generator_pipelines (sd : List Rat → Rat) (cfg : Cfg) (stats : List Stat) (ind : Bool) (u : Option Nat) (c : Ctxs) :
    pipeRows (scaleCtxs sd) [cfg] c = (scaleCtxs sd cfg c).map Ctxs.rowList ∧
    pipeRows imputeF (stats.map (fun st => (st, ind, u))) c = .ok (envImpute stats ind u c).rowList :=
  generator_pipelines' sd cfg stats ind u c

end Coba.C11
