import CobaVerif.Lemmas.C11
namespace Coba.C11
theorem placeholder : window (α := Nat) none [] = [] := rfl
end Coba.C11
