/-
C19 — Shared caches never expose partial entries and always release their locks.
Property theorems only (helper lemmas live in `Lemmas/C19.lean`, the model in `Model/C19.lean`).

`Reachable idx progs s`: `s` is reached from the initial state (array all 0, cache empty) by any
number of atomic steps of any callers in any order — i.e. for all interleavings, all numbers of
callers, all programs (`get_set` with a getter that succeeds or raises, nested with-blocks that
are left normally or by an exception, `rmv`), all key→index maps `idx` (equal / distinct / colliding).
-/
import CobaVerif.Lemmas.C19

namespace Coba.C19

/-- the inductive invariant: `array i = -1` iff exactly one caller holds the write lock of index
`i` and nobody reads it, otherwise `array i` is the number of read holds; `_locks` agrees with what
each caller holds; keys inside a with-block are cached; inner-cache facts at each program point -/
theorem inv {idx : Nat → Nat} {progs : List (List (List Instr))} {s : St}
    (h : Reachable idx progs s) : Inv idx s := inv_reachable h

/-- while a caller writes or removes key `k` (it is in a phase holding the write lock), it holds
no read lock on that index itself, and no other caller reads or writes any key of that index:
an entry is never read while it is written or removed, and two writers never populate one key -/
theorem mutual_exclusion {idx : Nat → Nat} {progs : List (List (List Instr))} {s : St}
    (h : Reachable idx progs s) {i j : Nat} {c d : Caller} {k : Nat}
    (hi : s.cs[i]? = some c) (hj : s.cs[j]? = some d) (hne : j ≠ i) (hw : c.pc.writeKey = some k) :
    (∀ k' ∈ c.reads, idx k' ≠ idx k) ∧ (∀ k' ∈ d.reads, idx k' ≠ idx k) ∧
    (∀ k', d.pc.writeKey = some k' → idx k' ≠ idx k) := mutual_exclusion' h hi hj hne hw

/-- inner-cache operations happen only under the matching lock: a read of the entry (`cget`, and
the with-body that follows `enter`) under a read lock on the key, populate / failed populate /
remove under its write lock; and they see / produce exactly the stated cache contents -/
theorem cache_ops_under_lock {idx : Nat → Nat} {progs : List (List (List Instr))} {s s' : St} {i : Nat} {ev : Ev}
    (h : Reachable idx progs s) (hs : step idx s i = some (ev, s')) :
    ∃ c, s.cs[i]? = some c ∧
      (∀ k v, ev = .cget k v → k ∈ c.reads ∧ s.cache k = some v) ∧
      (∀ k v, ev = .enter k v → k ∈ c.reads ∧ s.cache k = some v) ∧
      (∀ k v, ev = .cpop k v → c.pc.writeKey = some k ∧ s.cache k = none ∧ s'.cache = upd s.cache k (some v)) ∧
      (∀ k, ev = .cpopFail k → c.pc.writeKey = some k ∧ s.cache k = none ∧ s'.cache = s.cache) ∧
      (∀ k b, ev = .crmv k b → c.pc.writeKey = some k ∧ b = (s.cache k).isSome ∧ s'.cache = upd s.cache k none) :=
  step_facts (inv_reachable h) hs

/-- single flight, step form: a getter is only ever called for a key that is not cached -/
theorem single_flight {idx : Nat → Nat} {progs : List (List (List Instr))} {s s' : St} {i : Nat} {ev : Ev} {k : Nat}
    (h : Reachable idx progs s) (hs : step idx s i = some (ev, s')) (hev : (∃ v, ev = .cpop k v) ∨ ev = .cpopFail k) :
    s.cache k = none := single_flight' h hs hev

/-- single flight, trace form: along every schedule from the initial state, the number of completed
getter runs for key `k` equals the number of removals of `k` plus one if `k` is cached at the end —
the getter completes at most once per key while the entry stays cached -/
theorem single_flight_trace (idx : Nat → Nat) (progs : List (List (List Instr))) (sched : List Nat) (k : Nat) :
    popCount k (run idx (init progs) sched).2 =
      rmvCount k (run idx (init progs) sched).2 + cachedN (run idx (init progs) sched).1.cache k :=
  single_flight_trace_init idx progs sched k

/-- complete values: the value a caller receives on entering its with-block is the entry currently
in the cache -/
theorem complete_values {idx : Nat → Nat} {progs : List (List (List Instr))} {s s' : St} {i : Nat} {k v : Nat}
    (h : Reachable idx progs s) (hs : step idx s i = some (.enter k v, s')) : s.cache k = some v := complete_values' h hs

/-- … and every entry of the cache is the complete result of a successful getter of the programs
(`P k v` := some program contains `get_set k` with a getter returning `v`) -/
theorem values_are_getter_results {P : Nat → Nat → Prop} {idx : Nat → Nat} {progs : List (List (List Instr))} {s : St}
    (hP : ∀ p ∈ progs, ∀ seg ∈ p, ∀ ins ∈ seg, instrP P ins) (h : Reachable idx progs s) :
    ∀ k v, s.cache k = some v → P k v := (prov_reachable hP h).2

/-- after all callers have left (normally or through an exception in a getter or a body) no lock
remains: the array is all zero and every `_locks` entry is zero -/
theorem locks_released {idx : Nat → Nat} {progs : List (List (List Instr))} {s : St}
    (h : Reachable idx progs s) (ht : s.allTerminal = true) :
    (∀ i, s.arr i = 0) ∧ ∀ (j : Nat) (c : Caller), s.cs[j]? = some c → ∀ k, c.book k = 0 :=
  locks_released_core (inv_reachable h) ht

/-- a getter that raises leaves the key absent (nothing is stored that could be served later) -/
theorem getter_failure_clean {idx : Nat → Nat} {progs : List (List (List Instr))} {s s' : St} {i k : Nat}
    (h : Reachable idx progs s) (hs : step idx s i = some (.cpopFail k, s')) :
    s'.cache = s.cache ∧ s'.cache k = none := getter_failure_clean' h hs

/-- an inner-cache `rmv` that raises happens under the write lock of the key and changes neither the
cache nor the array; the caller then releases the write lock (`rmHRelW`) and unwinds, so
`locks_released`, `no_caller_stuck` and `progress_bounded` cover the exception path of `rmv` as well -/
theorem rmv_failure_clean {idx : Nat → Nat} {progs : List (List (List Instr))} {s s' : St} {i k : Nat}
    (h : Reachable idx progs s) (hs : step idx s i = some (.crmvFail k, s')) :
    s'.cache = s.cache ∧ s'.arr = s.arr ∧ ∃ c, s.cs[i]? = some c ∧ c.pc.writeKey = some k := rmv_failure_clean' h hs

/-- a caller that has not finished always has a step (possibly a failed lock guard) -/
theorem no_caller_stuck {idx : Nat → Nat} {progs : List (List (List Instr))} {s : St} {i : Nat} {c : Caller}
    (h : Reachable idx progs s) (hi : s.cs[i]? = some c) (hnt : c.terminal = false) : (step idx s i).isSome :=
  no_stuck_core (inv_reachable h) hi hnt

/- theorem deadlock_free_full (hW : ∀ p ∈ progs, WellNested idx p = true) (h : Reachable idx progs s)
     (hnt : s.allTerminal = false) : ∃ i ev s', step idx s i = some (ev, s') ∧ ev ≠ .spin
   is FALSE for the code as it is: `cross_nesting_counterexample` (known finding C19-F1). -/

/-- deadlock freedom under the lock-hierarchy hypothesis `Hier` (a nested operation targets a key
the caller already reads or a key with a larger index than all it holds — this implies the
property's own exclusion `WellNested`): while some caller has not finished, some caller can take
a step that is not a failed lock guard -/
theorem deadlock_free_partial {idx : Nat → Nat} {progs : List (List (List Instr))} {s : St}
    (hH : ∀ p ∈ progs, Hier idx p = true) (h : Reachable idx progs s) (hnt : s.allTerminal = false) :
    ∃ i ev s', step idx s i = some (ev, s') ∧ ev ≠ .spin := deadlock_free_partial' hH h hnt

theorem never_deadlocked {idx : Nat → Nat} {progs : List (List (List Instr))} {s : St}
    (hH : ∀ p ∈ progs, Hier idx p = true) (h : Reachable idx progs s) : s.deadlocked idx = false :=
  never_deadlocked' hH h

/-- `Hier` is satisfiable by programs with real nesting, re-entrant reads and rmv of a key being read -/
example : Hier (fun k => k) [[.getSet 0 (.ok 1), .getSet 0 (.ok 2), .getSet 1 .fail, .exit, .rmv 0 false false, .exit], [.rmv 1 true true]] = true := by decide

/-- `Hier` is necessary: two well-nested callers (no collisions at all) that each read one key
and remove the other one's key reach a state where both wait forever (known finding C19-F1;
the same schedule is replayed on the real code by the harness) -/
theorem cross_nesting_counterexample :
    (∀ p ∈ cexProgs, WellNested cexIdx p = true) ∧
    (run cexIdx (init cexProgs) cexSched).1.deadlocked cexIdx = true := cross_nesting_counterexample'

/-- the property's own exclusion is necessary (documented design limit, not a finding): one caller
nesting `get_set` on two different keys with the same index waits for itself -/
theorem nested_collision_counterexample :
    (run (fun _ => 0) (init selfProgs) (List.replicate 18 0)).1.deadlocked (fun _ => 0) = true :=
  nested_collision_counterexample'


/-- the array cell counts simultaneous read holds exactly and without bound (the model's cell is an
`Int`): while a caller has `n` re-entrant reads of `k` open, the slot equals the total number of read
holds on the index and is at least `n`.  The real cell is a C `short`; that it can hold the number
of simultaneous readers is in the trusted base and probed by the harness up to 400 -/
theorem slot_counts_readers {idx : Nat → Nat} {progs : List (List (List Instr))} {s : St}
    (h : Reachable idx progs s) {j : Nat} {c : Caller} {k : Nat} (hj : s.cs[j]? = some c) (hk : k ∈ c.stack) :
    s.arr (idx k) = (s.R idx (idx k) : Int) ∧ (c.stack.count k : Int) ≤ s.arr (idx k) := slot_counts_readers' h hj hk

/-- 200 nested re-entrant reads by one caller: every acquisition is granted, the slot reads 200 at
the deepest point and 0 when all blocks are left -/
example : (run id (init (nestProgs 200)) (List.replicate (5 * 200 + 6) 0)).1.arr 0 = 200 ∧
    (run id (init (nestProgs 200)) (List.replicate (7 * 200 + 6) 0)).1.arr 0 = 0 ∧
    (run id (init (nestProgs 200)) (List.replicate (7 * 200 + 6) 0)).1.allTerminal = true ∧
    ((run id (init (nestProgs 200)) (List.replicate (7 * 200 + 6) 0)).2.filter (fun e => e.2 == Ev.spin)).length = 0 := by
  decide +kernel

/-- bounded progress: every step that is not a failed lock guard strictly decreases the variant
`St.measure`; a failed guard leaves the state unchanged.  With `deadlock_free_partial`: under weak
fairness every caller terminates after at most `(init progs).measure` effective steps -/
theorem progress_bounded {idx : Nat → Nat} {progs : List (List (List Instr))} {s s' : St} {i : Nat} {ev : Ev}
    (h : Reachable idx progs s) (hs : step idx s i = some (ev, s')) :
    (ev ≠ .spin → s'.measure < s.measure) ∧ (ev = .spin → s' = s) := progress_core (inv_reachable h) hs


/-! Phase 2: liveness on infinite runs, wait-for graph, the repaired code -/

/-- fairness-level liveness: on every infinite schedule that gives every caller a turn again and
again, a `Hier` system reaches the all-terminal state after finitely many ticks and stays there
— no caller waits forever (`runN` = state after n ticks of the infinite schedule `σ`) -/
theorem fair_termination {idx : Nat → Nat} {progs : List (List (List Instr))} (hH : ∀ p ∈ progs, Hier idx p = true)
    (σ : Nat → Nat) (hfair : FairSched progs.length σ) :
    ∃ n, ∀ m, n ≤ m → (runN idx (init progs) σ m).allTerminal = true := fair_termination' hH σ hfair

/-- a deadlock (some caller unfinished, no caller has a step other than a failed lock guard) is a
cycle in the wait-for graph: callers each waiting for a lock the next one holds -/
theorem deadlock_has_cycle {idx : Nat → Nat} {progs : List (List (List Instr))} {s : St}
    (h : Reachable idx progs s) (hd : s.deadlocked idx = true) : ∃ i, WaitPath idx s i i := deadlock_has_cycle' h hd

/-- an outgoing wait-for edge blocks a caller: its only step is a failed lock guard -/
theorem waiter_blocked {idx : Nat → Nat} {progs : List (List (List Instr))} {s s' : St} {i j : Nat} {ev : Ev}
    (h : Reachable idx progs s) (hw : waitsFor idx s i j = true) (hs : step idx s i = some (ev, s')) : ev = .spin :=
  waiter_blocked' h hw hs

/-- deadlock ⇔ somebody is unfinished and every unfinished caller has an outgoing wait-for edge
(so nestings are deadlock-free exactly as long as the wait-for graph keeps a caller without one) -/
theorem deadlock_iff_all_wait {idx : Nat → Nat} {progs : List (List (List Instr))} {s : St}
    (h : Reachable idx progs s) :
    s.deadlocked idx = true ↔
      s.allTerminal = false ∧ ∀ (i : Nat) (c : Caller), s.cs[i]? = some c → c.terminal = false →
        ∃ j, waitsFor idx s i j = true := deadlock_iff_all_wait' h

/-- known finding C19-F1 is exactly a 2-cycle: caller 0 reads key 0 and waits for the write lock of
key 1, caller 1 reads key 1 and waits for the write lock of key 0 -/
theorem f1_is_two_cycle :
    waitsFor cexIdx (run cexIdx (init cexProgs) cexSched).1 0 1 = true ∧
    waitsFor cexIdx (run cexIdx (init cexProgs) cexSched).1 1 0 = true := f1_is_two_cycle'

/-- the code with `fixes/C19-nested-write-wait-raises.diff` (a write-lock request made inside a
with-block raises the documented CobaException instead of waiting) cannot deadlock, whatever the
programs nest — neither `Hier` nor the property's own exclusion `WellNested` is needed -/
theorem deadlock_free_repaired {idx : Nat → Nat} {progs : List (List (List Instr))} {s : St}
    (h : ReachableR idx progs s) (hnt : s.allTerminal = false) :
    ∃ i ev s', step idx s i = some (ev, s') ∧ ev ≠ .spin := deadlock_free_repaired' h hnt

theorem fair_termination_repaired {idx : Nat → Nat} {progs : List (List (List Instr))}
    (σ : Nat → Nat) (hfair : FairSched progs.length σ) :
    ∃ n, ∀ m, n ≤ m → (runN idx (initR progs) σ m).allTerminal = true := fair_termination_repaired' σ hfair

/-- the invariant and lock release hold for the repaired code as well -/
theorem inv_repaired {idx : Nat → Nat} {progs : List (List (List Instr))} {s : St}
    (h : ReachableR idx progs s) : Inv idx s := (reachableR_inv h).1

theorem locks_released_repaired {idx : Nat → Nat} {progs : List (List (List Instr))} {s : St}
    (h : ReachableR idx progs s) (ht : s.allTerminal = true) :
    (∀ i, s.arr i = 0) ∧ ∀ (j : Nat) (c : Caller), s.cs[j]? = some c → ∀ k, c.book k = 0 :=
  locks_released_repaired' h ht

/-- the F1 programs and schedule on the repaired code: nobody is left waiting and all finish -/
theorem f1_repaired :
    (run cexIdx (initR cexProgs) cexSched).1.deadlocked cexIdx = false ∧
    (run cexIdx (initR cexProgs) (cexSched ++ List.replicate 4 0 ++ List.replicate 12 1)).1.allTerminal = true := f1_repaired'

/-! DiskCacher (file system as a map) -/

/-- DiskCacher under concurrency: while a writer is between creating the entry's file (`ccreate`)
and closing it (`cpop` / `cpopFail`), the entry does not count as cached, no other caller has it
open — in an operation or in a with-body —, nobody else writes or removes a key of that slot,
and no step of another caller opens or receives it: no partial file is ever read -/
theorem disk_no_partial_read {idx : Nat → Nat} {progs : List (List (List Instr))} {s : St}
    (h : Reachable idx progs s) {i j : Nat} {c d : Caller} {k : Nat} {g : Getter}
    (hi : s.cs[i]? = some c) (hpc : c.pc = .gsPopW k g) (hj : s.cs[j]? = some d) (hne : j ≠ i) :
    s.cache k = none ∧ k ∉ d.reads ∧ d.pc.writeKey ≠ some k ∧
    ∀ ev s', step idx s j = some (ev, s') → ∀ v, ev ≠ .cget k v ∧ ev ≠ .enter k v :=
  disk_no_partial_read' h hi hpc hj hne

/-- a getter / write that fails part-way removes the partial file and raises -/
theorem write_failure_removes (fs : Fs) (key : Nat) (w : Write)
    (hw : (∃ b, w = .cutAfter b) ∨ w = .failBefore) (habs : fs key = none ∨ fs key = some []) :
    (diskGetSet fs key w).2 = .raised ∧ (diskGetSet fs key w).1 key = none := write_failure_removes' fs key w hw habs

/-- a zero-length file behaves exactly like an absent one -/
theorem zero_length_is_absent (fs : Fs) (key : Nat) (w : Write) (h : fs key = some []) :
    (diskGetSet fs key w).2 = (diskGetSet (upd fs key none) key w).2 ∧
    (diskGetSet fs key w).1 key = (diskGetSet (upd fs key none) key w).1 key := zero_length_is_absent' fs key w h

/-- what is served is a non-empty file already on disk or the complete output of this call's writer -/
theorem disk_served_complete (fs : Fs) (key : Nat) (w : Write) (bytes : List Nat)
    (h : (diskGetSet fs key w).2 = .value bytes) :
    (fs key = some bytes ∧ bytes ≠ []) ∨ w = .complete bytes := disk_served_complete' fs key w bytes h

/- theorem zero_length_is_absent_concurrent_full (fs key w) : concDiskGetSet fs key w = diskGetSet fs key w
   is FALSE for the code as it is: `concurrent_zero_length_counterexample` (known finding C19-F3). -/

/-- through ConcurrentCacher a DiskCacher behaves as on its own, provided the file is not zero-length -/
theorem zero_length_is_absent_concurrent_partial (fs : Fs) (key : Nat) (w : Write) (h : fs key ≠ some []) :
    concDiskGetSet fs key w = diskGetSet fs key w := conc_disk_eq' fs key w h

/-- the hypothesis is necessary: a zero-length file (left by a crash) makes
`ConcurrentCacher(DiskCacher).get_set` raise instead of re-populating, whatever the getter does
(the file is gone afterwards, so the next call works) — known finding C19-F3 -/
theorem concurrent_zero_length_counterexample (fs : Fs) (key : Nat) (w : Write) (h : fs key = some []) :
    (concDiskGetSet fs key w).2 = .raised ∧ (concDiskGetSet fs key w).1 key = none :=
  conc_zero_length_counterexample' fs key w h

/-- OpenmlSource.read hands back every permit of the download semaphore it takes, on every path
(source cached before, cached by a peer while waiting in `acquire()`, not cached; the `finally:` covers
normal, raising and abandoned reads), and takes at most one -/
theorem semaphore_balanced (hasSem cached1 cached2 : Bool) :
    (openmlSem hasSem cached1 cached2).acquires = (openmlSem hasSem cached1 cached2).releases ∧
    (openmlSem hasSem cached1 cached2).acquires ≤ 1 := semaphore_balanced' hasSem cached1 cached2

/-! Phase 3 -/

/-- DiskCacher inside the transition system: a DiskCacher writes in place, so between `ccreate` and
`cpop`/`cpopFail` a half-written file exists and an UNLOCKED `exists()` (the `key in self` of `rmv`,
instruction flag `o`) can answer True for it.  Every theorem of this file is proved for every value of
that flag.  And no partial entry is ever exposed, for every interleaving: whenever a caller opens an entry
(`cget`) or receives it (`enter`), nobody is between creating and closing that entry's file, and the
value is the complete cached one -/
theorem no_partial_exposed {idx : Nat → Nat} {progs : List (List (List Instr))} {s s' : St} {j : Nat} {ev : Ev} {k v : Nat}
    (h : Reachable idx progs s) (hs : step idx s j = some (ev, s')) (hev : ev = .cget k v ∨ ev = .enter k v) :
    partialWriter s k = false ∧ s.cache k = some v := no_partial_exposed' h hs hev

/-- the interleaving that does let the unlocked membership test see a half-written file (replayed
against the real ConcurrentCacher + DiskCacher under the controlled scheduler): the test answers True
while the entry is not cached, the remover then waits for the writer and removes the complete entry -/
theorem partial_file_seen_by_rmv :
    partialWriter (run id (init seenProgs) (List.replicate 8 0 ++ [1, 1])).1 0 = true ∧
    (run id (init seenProgs) (List.replicate 8 0 ++ [1, 1])).1.cache 0 = none ∧
    (run id (init seenProgs) seenSched).2.getLast? = some (1, .contains 0 true) ∧
    (run id (init seenProgs) (seenSched ++ [1] ++ List.replicate 5 0 ++ List.replicate 3 1)).1.allTerminal = true ∧
    (run id (init seenProgs) (seenSched ++ [1] ++ List.replicate 5 0 ++ List.replicate 3 1)).1.cache 0 = none ∧
    (run id (init seenProgs) (seenSched ++ [1] ++ List.replicate 5 0 ++ List.replicate 3 1)).1.arr 0 = 0 :=
  partial_file_seen_by_rmv'

/-- a static, program-level criterion weaker than `Hier`: an ACYCLIC STATIC LOCK ORDER.  `ord` ranks the
keys consistently with the lock slots (`idx a = idx b → ord a = ord b`) and every nested operation of every
program targets a key the caller already holds or a key of higher rank than everything it holds
(`Hier ord`; such an `ord` exists iff the graph "held slot → requested slot" over all nested operations of
all programs has no cycle — the harness computes it by topological sorting).  `Hier idx` is the special
case `ord = idx`.  Then: no deadlock, no cycle in the wait-for graph of any reachable state, and fair termination -/
theorem deadlock_free_ranked {idx ord : Nat → Nat} {progs : List (List (List Instr))} {s : St}
    (hord : ∀ a b, idx a = idx b → ord a = ord b) (hH : ∀ p ∈ progs, Hier ord p = true)
    (h : Reachable idx progs s) (hnt : s.allTerminal = false) :
    ∃ i ev s', step idx s i = some (ev, s') ∧ ev ≠ .spin := deadlock_free_ranked' hord hH h hnt

theorem no_wait_cycle_ranked {idx ord : Nat → Nat} {progs : List (List (List Instr))} {s : St}
    (hord : ∀ a b, idx a = idx b → ord a = ord b) (hH : ∀ p ∈ progs, Hier ord p = true)
    (h : Reachable idx progs s) (i : Nat) : ¬ WaitPath idx s i i := no_wait_cycle_ranked' hord hH h i

theorem fair_termination_ranked {idx ord : Nat → Nat} {progs : List (List (List Instr))}
    (hord : ∀ a b, idx a = idx b → ord a = ord b) (hH : ∀ p ∈ progs, Hier ord p = true)
    (σ : Nat → Nat) (hfair : FairSched progs.length σ) :
    ∃ n, ∀ m, n ≤ m → (runN idx (init progs) σ m).allTerminal = true := fair_termination_ranked' hord hH σ hfair

/-- programs that are not `Hier` for the slot order (5 is held while 2 is requested) but have an acyclic
static lock order (rank 5 ↦ 0, 2 ↦ 1, 1 ↦ 2), including a nested rmv -/
example : (∀ p ∈ [[[Instr.getSet 5 (.ok 1), .getSet 2 (.ok 2), .exit, .exit]], [[.getSet 2 (.ok 3), .rmv 1 false false, .exit]]],
      Hier (fun k => if k = 5 then 0 else if k = 2 then 1 else 2) p = true) ∧
    Hier id [[Instr.getSet 5 (.ok 1), .getSet 2 (.ok 2), .exit, .exit]] = false := by decide

/-- any sequence of OpenmlSource reads (data-id or task-id sources; cached before / by a peer during
`acquire()` / downloaded through `_http_request`; ending normally, raising or abandoned) against a
semaphore with at least one permit never has to wait for ever and leaves the number of free permits unchanged -/
theorem semaphore_sequence_balanced (p : Nat) (hp : 1 ≤ p) (rs : List (Bool × Bool × Bool)) : semRun p rs = some p :=
  semaphore_sequence_balanced' p hp rs

example : semRun 3 [(true, false, true), (true, false, false), (true, true, true), (false, false, false)] = some 3 := by decide


/-! Phase 4 -/

/-! #### the DiskCacher write as several steps inside the scheduled system

`DSt` = lock-protocol state + files.  On its turn a caller takes its next protocol step (`DAct.base`) or, while it is the
writer of an entry, writes one more chunk / closes the file (`DAct.chunk b`, `DAct.close`): open-truncate (`ccreate`, the file
exists and is zero-length), chunk, …, close, return (`cpop`) are separate steps of the schedule and every other caller can run
between any two of them.  `enc v` = the chunks of value `v` (arbitrary). -/

/-- every schedule of the file-level system is a schedule of the lock protocol: all theorems above (mutual exclusion,
single flight, lock release, deadlock freedom, …) hold with the write split into open / chunks / close -/
theorem chunked_write_projects {enc : Nat → List Nat} {idx : Nat → Nat} {progs : List (List (List Instr))} {s : DSt}
    (h : DReachable enc idx progs s) : Reachable idx progs s.base := dreachable_base h

/-- files and cache agree in every reachable state: the file of a cached entry is closed and holds all chunks of the value;
a key that is neither cached nor being written has no file (a failed write leaves nothing behind) -/
theorem chunked_files_consistent {enc : Nat → List Nat} {idx : Nat → Nat} {progs : List (List (List Instr))} {s : DSt}
    (h : DReachable enc idx progs s) (k : Nat) :
    (∀ v, s.base.cache k = some v → s.file k = .closed (enc v)) ∧
    (s.base.cache k = none → partialWriter s.base k = false → s.file k = .absent) := dinv_reachable h k

/-- under ConcurrentCacher no reader observes a partial entry, for every schedule of protocol steps, chunk writes and
closes: whenever a caller opens (`cget`) or receives (`enter`) an entry, its file is closed and complete — not zero-length,
not half-written —, nobody is writing it, and what `DiskCacher.get_set(key, None)` finds on disk is the complete content -/
theorem chunked_no_partial_read {enc : Nat → List Nat} {idx : Nat → Nat} {progs : List (List (List Instr))}
    {s s' : DSt} {j : Nat} {ev : Ev} {obs : Option DiskRead} {k v : Nat}
    (h : DReachable enc idx progs s) (hs : dstep enc idx s j .base = some (.base ev obs, s'))
    (hev : ev = .cget k v ∨ ev = .enter k v) :
    s.file k = .closed (enc v) ∧ partialWriter s.base k = false ∧ (ev = .cget k v → obs = some (.complete (enc v))) :=
  chunked_no_partial_read' h hs hev

/-- the writer's intermediate steps are private: a chunk / close step changes only the file of the key the stepping caller is
populating, the entry is not cached then, and no other caller holds that entry open or writes / removes it -/
theorem chunk_steps_exclusive {enc : Nat → List Nat} {idx : Nat → Nat} {progs : List (List (List Instr))}
    {s s' : DSt} {i : Nat} {a : DAct} {ev : DEv} (h : DReachable enc idx progs s) (ha : a ≠ .base)
    (hs : dstep enc idx s i a = some (ev, s')) :
    ∃ k, (ev = .close k ∨ ∃ b, ev = .chunk k b) ∧ s'.base = s.base ∧ (∀ k', k' ≠ k → s'.file k' = s.file k') ∧
      s.base.cache k = none ∧
      ∀ j d, s.base.cs[j]? = some d → j ≠ i → k ∉ d.reads ∧ d.pc.writeKey ≠ some k := chunk_steps_exclusive' h ha hs

/-- non-vacuity, and what the locks are for: after the writer's open-truncate the file is zero-length — a bare
`DiskCacher.get_set` would REMOVE it under the writer (`diskRead … = .zeroLength`) — but the reader's only step is a refused
read lock; it stays refused between the chunks and the close, and afterwards the reader finds the complete content.  A wrong /
early chunk, an early close and an early return are not steps of a successful writer (same schedule replayed on the real code) -/
theorem chunked_write_example :
    (drun chunkEnc id (dinit chunkProgs) chunkSched1).1.file 0 = .opened [] ∧
    diskRead ((drun chunkEnc id (dinit chunkProgs) chunkSched1).1.file 0) = .zeroLength ∧
    (drun chunkEnc id (dinit chunkProgs) chunkSched1).2.getLast? = some (1, .base .spin none) ∧
    ((drun chunkEnc id (dinit chunkProgs) chunkSched2).2.filter (fun e => e.1 == 1)).map (·.2) =
      [.base .nextSeg none, .base .begin none, .base .spin none, .base .spin none, .base .spin none, .base .spin none,
       .base (.acqR 0) none, .base (.contains 0 true) none, .base (.cget 0 7) (some (.complete [1, 2]))] ∧
    (dstep chunkEnc id (drun chunkEnc id (dinit chunkProgs) chunkSched1).1 0 (.chunk 2)).isNone = true ∧
    (dstep chunkEnc id (drun chunkEnc id (dinit chunkProgs) chunkSched1).1 0 .close).isNone = true ∧
    (dstep chunkEnc id (drun chunkEnc id (dinit chunkProgs) chunkSched1).1 0 .base).isNone = true := chunked_write_example'

/-! #### the download semaphore as an interleaving system

Any number of callers, each a sequence of `OpenmlSource.read`s (`SRead`: cached at the first check / at the re-check after
`acquire()` / the download or its consumer raises), one atomic step per semaphore operation or check; `SReachable permits progs s`
= reached by any schedule. -/

/-- never more than `permits` callers hold a permit, hence never more than `permits` simultaneous downloads: free permits +
holders = permits in every reachable state -/
theorem semaphore_never_exceeds_permits {permits : Nat} {progs : List (List SRead)} {s : SSt}
    (h : SReachable permits progs s) :
    s.free + s.holders = permits ∧ s.downloads ≤ s.holders ∧ s.holders ≤ permits := semaphore_bound' h

/-- every acquire is released on every path (peer cached it meanwhile, download finished, download or consumer raised): when all
callers are done all permits are back -/
theorem semaphore_all_released {permits : Nat} {progs : List (List SRead)} {s : SSt}
    (h : SReachable permits progs s) (ht : s.allTerminal = true) : s.free = permits := semaphore_all_released' h ht

/-- with at least one permit nobody waits forever: while somebody is unfinished, some caller has a step other than waiting in `acquire()` -/
theorem semaphore_deadlock_free {permits : Nat} {progs : List (List SRead)} {s : SSt} (hp : 1 ≤ permits)
    (h : SReachable permits progs s) (hnt : s.allTerminal = false) :
    ∃ i ev s', sstep s i = some (ev, s') ∧ ev ≠ .wait := semaphore_deadlock_free' hp h hnt

/-- … and every such step decreases the variant, waiting changes nothing: under weak fairness every read ends -/
theorem semaphore_progress_bounded {s s' : SSt} {i : Nat} {ev : SEv} (hs : sstep s i = some (ev, s')) :
    (ev ≠ .wait → s'.measure < s.measure) ∧ (ev = .wait → s' = s) := semaphore_progress' hs

/-- three callers on one permit (cached / peer-cached / raising reads): one gets in, two wait, all finish, the permit is back -/
example : (srun (sinit 1 semProgs) [0, 1, 2, 0, 1, 2, 0, 0, 0, 1, 1, 1, 2, 2, 2, 2, 0, 0, 0, 0]).1.free = 1 ∧
    (srun (sinit 1 semProgs) [0, 1, 2, 0, 1, 2, 0, 0, 0, 1, 1, 1, 2, 2, 2, 2, 0, 0, 0, 0]).1.allTerminal = true ∧
    (srun (sinit 1 semProgs) [0, 1, 2, 0, 1, 2]).2 = [(0, .request), (1, .request), (2, .request), (0, .acquire), (1, .wait), (2, .wait)] ∧
    (srun (sinit 1 semProgs) [0, 1, 2, 0, 1, 2]).1.holders = 1 := semaphore_example'

/-- `1 ≤ permits` is necessary: with a zero-permit semaphore an uncached read waits forever -/
theorem semaphore_zero_permits_counterexample :
    (srun (sinit 0 [[⟨false, false, false⟩]]) [0, 0, 0]).2 = [(0, .request), (0, .wait), (0, .wait)] ∧
    (srun (sinit 0 [[⟨false, false, false⟩]]) [0, 0, 0]).1.allTerminal = false := semaphore_zero_permits_counterexample'


/-! ### Phase 5: get_set-only programs on collision-free keys (ghost-clock refinement) -/

/-- the ghost-clock system refines `St` in both directions: its reachable states project to reachable states of the lock
protocol, and every reachable state of the lock protocol is the projection of a reachable instrumented state -/
theorem ghost_refines {idx : Nat → Nat} {progs : List (List (List Instr))} :
    (∀ g, GReachable idx progs g → Reachable idx progs g.base) ∧
    (∀ s, Reachable idx progs s → ∃ g, GReachable idx progs g ∧ g.base = s) :=
  ⟨fun _ h => ghost_projects' h, fun _ h => ghost_lifts' h⟩

/-- the clock invariant of get_set-only programs, for every schedule: a cached key was populated in the past; a caller between
its miss of `k` and the write lock of `k` missed in the past, later than the populate of every key of its with-stack, and —
if `k` got cached meanwhile — earlier than the populate of `k` -/
theorem ghost_invariant {idx : Nat → Nat} {progs : List (List (List Instr))} {g : GSt}
    (hP : ∀ p ∈ progs, GetSetOnly p = true) (h : GReachable idx progs g) :
    (∀ k v, g.base.cache k = some v → g.tp k < g.clock) ∧
    (∀ (j : Nat) (c : Caller), g.base.cs[j]? = some c → ∀ k, c.pc.missKey = some k →
      g.tm j < g.clock ∧ (∀ k' ∈ c.stack, g.tp k' < g.tm j) ∧ (∀ v, g.base.cache k = some v → g.tm j < g.tp k)) :=
  ⟨(ginv_reachable hP h).pop, (ginv_reachable hP h).miss⟩

/-- along a wait-for edge whose target waits itself the miss time strictly increases (collision-free keys, no rmv) -/
theorem ghost_stamps_increase {idx : Nat → Nat} {progs : List (List (List Instr))} {g : GSt}
    (hcf : CollisionFree idx progs = true) (hP : ∀ p ∈ progs, GetSetOnly p = true) (h : GReachable idx progs g)
    {i j m : Nat} (hij : waitsFor idx g.base i j = true) (hjm : waitsFor idx g.base j m = true) : gRank g i < gRank g j :=
  ghost_edge_lt (collisionFree_inj hcf) (keys_reachable progKeys_mem (ghost_projects' h)) (inv_reachable (ghost_projects' h)) (noRmv_reachable hP (ghost_projects' h)) (ginv_reachable hP h) hij hjm

/-- goal 3 of phase 4: programs that only use `get_set` (any nesting, any lock order — also cyclic ones —, getters and bodies
that raise) on keys without slot collisions (`CollisionFree`: no two different keys of the programs share a slot) never have a cycle in the wait-for graph, in any reachable state of any schedule -/
theorem no_wait_cycle_getset_only {idx : Nat → Nat} {progs : List (List (List Instr))} {s : St}
    (hcf : CollisionFree idx progs = true) (hP : ∀ p ∈ progs, GetSetOnly p = true)
    (h : Reachable idx progs s) (i : Nat) : ¬ WaitPath idx s i i := no_wait_cycle_getset_only' hcf hP h i

/-- … hence no deadlock: while somebody is unfinished some caller has a step that is not a failed lock guard -/
theorem deadlock_free_getset_only {idx : Nat → Nat} {progs : List (List (List Instr))} {s : St}
    (hcf : CollisionFree idx progs = true) (hP : ∀ p ∈ progs, GetSetOnly p = true)
    (h : Reachable idx progs s) (hnt : s.allTerminal = false) :
    ∃ i ev s', step idx s i = some (ev, s') ∧ ev ≠ .spin := deadlock_free_getset_only_step' hcf hP h hnt

/-- … and under every fair infinite schedule all callers finish -/
theorem fair_termination_getset_only {idx : Nat → Nat} {progs : List (List (List Instr))}
    (hcf : CollisionFree idx progs = true) (hP : ∀ p ∈ progs, GetSetOnly p = true)
    (σ : Nat → Nat) (hfair : FairSched progs.length σ) :
    ∃ n, ∀ m, n ≤ m → (runN idx (init progs) σ m).allTerminal = true := fair_termination_getset_only' hcf hP σ hfair

/-- non-vacuity: the crossing programs (A `with gs 0: with gs 1`, B `with gs 1: with gs 0`) are get_set-only, have NO
acyclic static lock order (`deadlock_free_ranked` does not apply for any rank), and the instrumented run finishes / keeps
its stamps consistent in the state where both have entered their first key and ask for the other one -/
example : (∀ p ∈ crossProgs, GetSetOnly p = true) ∧ CollisionFree id crossProgs = true ∧ (∀ ord : Nat → Nat, ¬ (∀ p ∈ crossProgs, Hier ord p = true)) ∧
    (grun id (ginit crossProgs) (List.replicate 11 0 ++ List.replicate 11 1 ++ List.replicate 12 0 ++ List.replicate 12 1)).base.allTerminal = true ∧
    (grun id (ginit crossProgs) (List.replicate 11 0 ++ List.replicate 11 1 ++ [0, 0, 0, 1, 1, 1])).stampsOK [0, 1] = true := ghost_example'

/-- collision-freeness is necessary (second form of known finding C19-F1; `GetSetOnly` without it): two get_set-only,
`WellNested` callers on two colliding pairs of keys reach a deadlock with the 2-cycle 0→1→0; with `rmv` the hypothesis
`GetSetOnly` is necessary by `cross_nesting_counterexample` (no collisions there) -/
theorem getset_only_collision_counterexample :
    (∀ p ∈ collProgs, GetSetOnly p = true ∧ WellNested collIdx p = true) ∧ CollisionFree collIdx collProgs = false ∧
    (run collIdx (init collProgs) collSched).1.deadlocked collIdx = true ∧
    waitsFor collIdx (run collIdx (init collProgs) collSched).1 0 1 = true ∧
    waitsFor collIdx (run collIdx (init collProgs) collSched).1 1 0 = true := getset_only_collision_counterexample'


/-! ### Phase 5: progress of the file-level (chunked write) system -/

/-- invariant behind writer progress: while a successful getter's entry is being written, its file is open holding a prefix of the
entry's chunks, or already closed holding all of them -/
theorem writer_file_invariant {enc : Nat → List Nat} {idx : Nat → Nat} {progs : List (List (List Instr))} {s : DSt}
    (h : DReachable enc idx progs s) {j : Nat} {c : Caller} {k v : Nat} (hj : s.base.cs[j]? = some c) (hpc : c.pc = .gsPopW k (.ok v)) :
    (∃ w, s.file k = .opened w ∧ w.isPrefixOf (enc v) = true) ∨ s.file k = .closed (enc v) := winv_reachable h j c k v hj hpc

/-- goal 2: in every reachable state of the file-level system, for every schedule, the writer of an entry (a caller at `gsPopW`)
has an enabled step that is not a failed guard: the next chunk, the close, the return of the complete entry, or the failure -/
theorem writer_progress {enc : Nat → List Nat} {idx : Nat → Nat} {progs : List (List (List Instr))} {s : DSt}
    {i : Nat} {c : Caller} {k : Nat} {g : Getter} (h : DReachable enc idx progs s)
    (hi : s.base.cs[i]? = some c) (hpc : c.pc = .gsPopW k g) :
    ∃ a ev s', dstep enc idx s i a = some (ev, s') ∧ (∀ e o, ev = .base e o → e ≠ .spin) := writer_progress' h hi hpc

/-- nobody is ever stuck in the file-level system: every unfinished caller has an enabled action -/
theorem chunked_no_caller_stuck {enc : Nat → List Nat} {idx : Nat → Nat} {progs : List (List (List Instr))} {s : DSt}
    {i : Nat} {c : Caller} (h : DReachable enc idx progs s) (hi : s.base.cs[i]? = some c) (hnt : c.terminal = false) :
    ∃ a ev s', dstep enc idx s i a = some (ev, s') := chunked_no_caller_stuck' h hi hnt

/-- deadlock freedom of the file-level system under an acyclic static lock order (`Hier idx` is `ord = idx`) … -/
theorem chunked_deadlock_free {enc : Nat → List Nat} {idx ord : Nat → Nat} {progs : List (List (List Instr))} {s : DSt}
    (hord : ∀ a b, idx a = idx b → ord a = ord b) (hH : ∀ p ∈ progs, Hier ord p = true)
    (h : DReachable enc idx progs s) (hnt : s.base.allTerminal = false) :
    ∃ i a ev s', dstep enc idx s i a = some (ev, s') ∧ (∀ e o, ev = .base e o → e ≠ .spin) := chunked_deadlock_free' hord hH h hnt

/-- … and for get_set-only programs on collision-free keys -/
theorem chunked_deadlock_free_getset_only {enc : Nat → List Nat} {idx : Nat → Nat} {progs : List (List (List Instr))} {s : DSt}
    (hcf : CollisionFree idx progs = true) (hP : ∀ p ∈ progs, GetSetOnly p = true)
    (h : DReachable enc idx progs s) (hnt : s.base.allTerminal = false) :
    ∃ i a ev s', dstep enc idx s i a = some (ev, s') ∧ (∀ e o, ev = .base e o → e ≠ .spin) :=
  chunked_deadlock_free_getset_only' hcf hP h hnt

/-- variant of the file-level system: a protocol step that is not a failed guard decreases `St.measure`; a chunk / close step
leaves the protocol state alone and, for a successful getter, strictly decreases what is left to write (`writeLeft` = missing
chunks + the close).  (A FAILING getter may write any number of chunks before it raises in this model, so termination of the
file-level system needs the getter to stop eventually — see `chunked_fair_termination_full` in the notes.) -/
theorem chunked_progress_bounded {enc : Nat → List Nat} {idx : Nat → Nat} {progs : List (List (List Instr))} {s s' : DSt}
    {i : Nat} {a : DAct} {ev : DEv} (h : DReachable enc idx progs s) (hs : dstep enc idx s i a = some (ev, s')) :
    (∀ e o, ev = .base e o → e ≠ .spin → s'.base.measure < s.base.measure) ∧
    (a ≠ .base → s'.base = s.base ∧
      ∀ c k v, s.base.cs[i]? = some c → c.pc = .gsPopW k (.ok v) → writeLeft enc s' i < writeLeft enc s i) :=
  chunked_progress_bounded' h hs

/-- non-vacuity: a writer in the middle of its entry (one of two chunks written) — the reader can only spin, the writer moves -/
example : (dstep chunkEnc id (drun chunkEnc id (dinit chunkProgs) (chunkSched1 ++ [(0, .chunk 1)])).1 0 (.chunk 2)).isSome = true ∧
    (dstep chunkEnc id (drun chunkEnc id (dinit chunkProgs) (chunkSched1 ++ [(0, .chunk 1)])).1 0 .close).isSome = false ∧
    ((dstep chunkEnc id (drun chunkEnc id (dinit chunkProgs) (chunkSched1 ++ [(0, .chunk 1)])).1 1 .base).map (·.1)) = some (.base .spin none) := by
  decide


/-- translator obligation (regenerated from the source on every run): the semaphore CobaMultiprocessor installs has the
permits the model assumes and at least one (so `semaphore_deadlock_free` applies), every slot number a `digestBytes`-byte
digest can take lies inside the shared lock table, and both equal the model's constants -/
theorem generated_consts_match :
    Generated.openmlPermits = modelPermits ∧ Generated.digestBytes = modelDigestBytes ∧ Generated.lockTableSize = modelSlots ∧
    256 ^ Generated.digestBytes ≤ Generated.lockTableSize ∧ 1 ≤ Generated.openmlPermits := generated_consts_match'

/-- translator obligation (phase 5, `Generated/C19Protocol.lean` is regenerated from `coba/context/cachers.py` with `ast` on every run):
along every path of `ConcurrentCacher.get_set` (hit / miss → populate / miss → somebody else populated / getter raises → handler) and
of `rmv` (absent / removed / inner rmv raises) the source makes exactly the calls, in exactly the order, of the model's `step` run -/
theorem generated_call_order :
    (∀ in1 in2 fails, Generated.getSetPath in1 in2 fails = modelGetSetPath in1 in2 fails) ∧
    (∀ inSelf fails, Generated.rmvPath inSelf fails = modelRmvPath inSelf fails) ∧ Generated.protocolExtracted = true :=
  generated_call_order'

/-- … and the lock blocks of `stepC` ARE the extracted ones: `_acquire_read_lock` (guard, `_array` and `_locks` updates, else wait),
`_acquire_write_lock` (guard true / false), `_switch_write_to_read_lock`, `_release_write_lock`, `_release_read_lock` — for all states -/
theorem generated_lock_blocks (idx : Nat → Nat) (arr : Nat → Int) (cache : Nat → Option Nat)
    (k : Nat) (g : Getter) (v : Nat) (cur : List Instr) (rest : List (List Instr)) (stack : List Nat) (book : Nat → Int) (tn : Bool) :
    stepC idx arr cache ⟨.gsAcqR k g, cur, rest, stack, book, tn⟩ =
      (if guardHolds Generated.acqReadGuard (arr (idx k)) then
        some (.acqR k, upd arr (idx k) (applyUpd Generated.acqReadArray (arr (idx k))), cache,
              ⟨.gsChk1 k g, cur, rest, stack, upd book k (applyUpd Generated.acqReadLocks (book k)), tn⟩)
       else some (.spin, arr, cache, ⟨.gsAcqR k g, cur, rest, stack, book, tn⟩)) ∧
    (guardHolds Generated.acqWriteGuard (arr (idx k)) = true →
      stepC idx arr cache ⟨.gsAcqW k g, cur, rest, stack, book, tn⟩ =
        some (.acqW k, upd arr (idx k) (applyUpd Generated.acqWriteArray (arr (idx k))), cache,
              ⟨.gsChk2 k g, cur, rest, stack, upd book k (applyUpd Generated.acqWriteLocks (book k)), tn⟩)) ∧
    (guardHolds Generated.acqWriteGuard (arr (idx k)) = false → tn = false →
      stepC idx arr cache ⟨.gsAcqW k g, cur, rest, stack, book, tn⟩ = some (.spin, arr, cache, ⟨.gsAcqW k g, cur, rest, stack, book, tn⟩)) ∧
    stepC idx arr cache ⟨.gsSwB k v, cur, rest, stack, book, tn⟩ =
      some (.sw k, upd arr (idx k) (applyUpd Generated.switchArray (arr (idx k))), cache,
            ⟨.gsEnter k v, cur, rest, stack, upd book k (applyUpd Generated.switchLocks (book k)), tn⟩) ∧
    stepC idx arr cache ⟨.rmRelW k, cur, rest, stack, book, tn⟩ =
      some (.relW k, upd arr (idx k) (applyUpd Generated.relWriteArray (arr (idx k))), cache,
            ⟨.idle, cur, rest, stack, upd book k (applyUpd Generated.relWriteLocks (book k)), tn⟩) ∧
    stepC idx arr cache ⟨.exRel, cur, rest, k :: stack, book, tn⟩ =
      some (.relR k, upd arr (idx k) (applyUpd Generated.relReadArray (arr (idx k))), cache,
            ⟨.idle, cur, rest, stack, upd book k (applyUpd Generated.relReadLocks (book k)), tn⟩) :=
  generated_lock_blocks' idx arr cache k g v cur rest stack book tn


/-- translator obligation (round h): the file of an entry is named by the key ITSELF (`f"{key}.gz"`) and the lock slot is the hash of
`str(key)` — the two sites agree on key identity, which is what lets the model index files (`DSt.file`) and locks by the same keys.
A normalising file name (`key.strip()`, `key.lower()`, …) breaks this obligation (and is caught by the twin-key runs). -/
theorem generated_key_identity :
    Generated.cacheNameKeyExpr = modelCacheNameKeyExpr ∧ Generated.cacheNameSuffix = modelCacheNameSuffix ∧
    Generated.indexKeyExpr = modelIndexKeyExpr := generated_key_identity'


/-- … hence for the library's own semaphore: never more than its 3 permits are held, and nobody waits forever -/
theorem semaphore_library_instance {progs : List (List SRead)} {s : SSt} (h : SReachable Generated.openmlPermits progs s) :
    s.holders ≤ 3 ∧ (s.allTerminal = false → ∃ i ev s', sstep s i = some (ev, s') ∧ ev ≠ .wait) :=
  ⟨(semaphore_bound' h).2.2, semaphore_deadlock_free' generated_consts_match'.2.2.2.2 h⟩


/-! ## Phase 6: typed keys — the lock slot is a function of the entry only if `str()` respects the inner cacher's key equality -/

/-- if keys that the inner cacher treats as one entry (`ident`) always get one lock slot (`slotsRespectEq`), the slots the code computes
(`slotOf h r` = hash of `str(key)`) are given by ONE key→index map on entries, `idxOf h reps` — so the real system on these keys is an
instance of the transition system and every theorem above applies to it -/
theorem typed_keys_slot_function_partial {h : Nat → Nat} {reps : List KeyRep} (hr : slotsRespectEq h reps = true) :
    ∀ r ∈ reps, idxOf h reps r.ident = slotOf h r := idxOf_slot' hr

/-- … in particular mutual exclusion in terms of the slots the code computes: while a caller holds the write lock for the entry of key `a`
(populate / remove), no key `b` in use that any other caller reads or writes (or that the writer itself reads) has `a`'s slot, hence none is
`a`'s entry — for every interleaving, any number of callers, any programs -/
theorem typed_keys_exclusion_partial {h : Nat → Nat} {reps : List KeyRep} (hr : slotsRespectEq h reps = true)
    {progs : List (List (List Instr))} {s : St} (hs : Reachable (idxOf h reps) progs s)
    {i j : Nat} {c d : Caller} {a : KeyRep} (ha : a ∈ reps)
    (hi : s.cs[i]? = some c) (hj : s.cs[j]? = some d) (hne : j ≠ i) (hw : c.pc.writeKey = some a.ident) :
    ∀ b ∈ reps, (b.ident ∈ d.reads ∨ d.pc.writeKey = some b.ident ∨ b.ident ∈ c.reads) → slotOf h b ≠ slotOf h a ∧ b.ident ≠ a.ident :=
  typed_keys_exclusion' hr hs ha hi hj hne hw

/-- the hypothesis is satisfiable and non-trivial: `1` and `"1"` (two entries, one text → one slot), `"a"`, `"b"` -/
example : slotsRespectEq (fun t => t % 7) [⟨0, 0⟩, ⟨1, 0⟩, ⟨2, 5⟩, ⟨3, 12⟩] = true := by decide

/-- the hypothesis is necessary (C19-F4): the keys `1` and `1.0` are ONE entry of a MemoryCacher (`1 == 1.0`, same hash) but have two texts
("1", "1.0") and so two slots; then no key→index map on entries gives the slots the code uses — the two callers lock different slots for the
same entry (replayed on the real code: both getters run at the same time) -/
theorem typed_keys_counterexample :
    slotsRespectEq id [⟨1, 1⟩, ⟨1, 2⟩] = false ∧
    ¬ ∃ idx : Nat → Nat, ∀ r ∈ [(⟨1, 1⟩ : KeyRep), ⟨1, 2⟩], idx r.ident = slotOf id r := typed_keys_counterexample'


/-- translator obligation (phase 6): every subscript of and membership test on MemoryCacher's dict, as extracted from the current source, uses
the key ITSELF — the inner cacher's notion of "one entry" is the key's own equality, which is what `KeyRep.ident` stands for in
`typed_keys_slot_function_partial`. Storing under `str(key)`, `repr(key)`, … breaks this obligation. -/
theorem generated_memory_key_identity :
    Generated.memoryKeysExtracted = true ∧ Generated.memoryKeyExprs ≠ [] ∧ ∀ e ∈ Generated.memoryKeyExprs, e = modelMemoryKeyExpr :=
  generated_memory_key_identity'

end Coba.C19
