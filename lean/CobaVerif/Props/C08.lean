import CobaVerif.Lemmas.C08
namespace Coba.C08
theorem init_main (c : Cfg) : (init c).main = .waitEvent := init_main' c
end Coba.C08
