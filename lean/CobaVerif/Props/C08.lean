/-
C08 — Multi-process filtering delivers every output exactly once and never hangs.
Property theorems only (model: `Model/C08.lean`, proofs: `Lemmas/C08.lean`).

The model is a labelled transition system (`enabled`, `step`) over the atomic steps of
`Multiprocessor.filter`; a *schedule* is any sequence of enabled actions, so every theorem below
quantifies over all interleavings of loader, workers (incl. retiring/replaced ones), callbacks and
the caller, over all `n ≥ 1`, all `maxtasksperchild`, all item lists and all sets of raising items.
`Reachable c s` = `s` is reached from `init c` by some schedule.  `outcome s` = what the caller
sees (`ok outs` / `raised e outs` / `closed outs` after an early abandon).
-/
import CobaVerif.Lemmas.C08
import CobaVerif.Generated.C08Callback
import CobaVerif.Generated.C08ReadWait

namespace Coba.C08

/-! ### the inductive invariant -/

theorem inv_init (c : Cfg) (hn : 0 < c.n) : Inv c (init c) := inv_init' c hn

theorem inv_step (c : Cfg) (s : State) (a : Action) (hI : Inv c s) (h : enabled c s a = true) :
    Inv c (step c s a) := inv_step' c s a hI h

theorem inv_reachable (c : Cfg) (hn : 0 < c.n) (s : State) (h : Reachable c s) : Inv c s :=
  inv_reachable' c hn s h

/-! ### every output exactly once -/

/-- no item raises and every item can be pickled ⇒ a finished (not abandoned) call returned normally and handed over exactly the
multiset of outputs the wrapped filter produces item by item -/
theorem exactly_once (c : Cfg) (hn : 0 < c.n) (s : State) (hr : Reachable c s) (hd : s.main = .done)
    (hab : s.abandoned = false) (hne : ∀ x ∈ c.items, x.err = none ∧ x.perr = none) :
    ∃ outs, outcome s = .ok outs ∧ outs.Perm (allOuts c) := exactly_once' c hn s hr hd hab hne

/-- whenever the call returns normally nothing was dropped: all outputs were delivered and no item raised -/
theorem ok_complete (c : Cfg) (hn : 0 < c.n) (s : State) (hr : Reachable c s) (hd : s.main = .done)
    (outs : List Nat) (ho : outcome s = .ok outs) : outs.Perm (allOuts c) ∧ allErrs c = [] :=
  ok_complete' c hn s hr hd outs ho

/-- at every moment of every schedule (also when the call ends by an error or is abandoned) no
output has been delivered more often than the filter produced it -/
theorem never_duplicated (c : Cfg) (hn : 0 < c.n) (s : State) (hr : Reachable c s) (o : Nat) :
    s.recv.count o ≤ (allOuts c).count o := never_duplicated' c hn s hr o

/-! ### errors surface -/

/-- some item raises (or cannot be pickled: `Pickler`'s CobaException in the loader thread) ⇒ a finished (not
abandoned) call raised, and what it raised is one of those errors -/
theorem error_surfaces (c : Cfg) (hn : 0 < c.n) (s : State) (hr : Reachable c s) (hd : s.main = .done)
    (hab : s.abandoned = false) (x : ItemSpec) (hx : x ∈ c.items) (hxe : x.err ≠ none ∨ x.perr ≠ none) :
    ∃ e outs, outcome s = .raised e outs ∧ e ∈ allErrs c := error_surfaces' c hn s hr hd hab x hx hxe

/-- the call never raises anything but an error of the wrapped filter -/
theorem raised_genuine (c : Cfg) (hn : 0 < c.n) (s : State) (hr : Reachable c s)
    (e : Nat) (outs : List Nat) (ho : outcome s = .raised e outs) : e ∈ allErrs c :=
  raised_genuine' c hn s hr e outs ho

/-! ### never hangs -/

/-- as long as the call has not finished some step other than "the caller gives up" is enabled -/
theorem deadlock_free (c : Cfg) (hn : 0 < c.n) (s : State) (hr : Reachable c s) (hnd : s.main ≠ .done) :
    ∃ a, a ≠ Action.cAbandon ∧ enabled c s a = true := deadlock_free' c hn s hr hnd

/-- a natural-number measure strictly decreases on every enabled step (from any state) -/
theorem variant_decreases (c : Cfg) (s : State) (a : Action) (h : enabled c s a = true) :
    mu c (step c s a) < mu c s := mu_decreases' c s a h

/-- hence every schedule is finite: no run is longer than `mu (init c)` … -/
theorem terminates (c : Cfg) (tr : List Action) (s : State) (h : runTrace c (init c) tr = some s) :
    tr.length ≤ mu c (init c) := terminates' c tr s h

/-- … and a schedule that cannot be extended has finished the call (no fairness assumption needed) -/
theorem reaches_done (c : Cfg) (hn : 0 < c.n) (tr : List Action) (s : State)
    (h : runTrace c (init c) tr = some s)
    (hstuck : ∀ a, a ≠ Action.cAbandon → enabled c s a = false) : s.main = .done :=
  reaches_done' c hn tr s h hstuck

/-! ### abandoning the output early -/

/-- the caller may give up after any output; its `finally` block never blocks (the final step is
enabled in every state of that phase) and the call ends without raising, whatever the workers do -/
theorem abandon_terminates (c : Cfg) (s : State) (hc : s.main = .consuming) :
    enabled c s .cAbandon = true ∧
    (∀ s', s'.main = .fin → enabled c s' .mDone = true) ∧
    outcome (step c (step c s .cAbandon) .mDone) = .closed s.recv := abandon_terminates' c s hc

/-- stronger: in ANY `consuming` state the caller's own steps alone (`finishSeq`: give up, drain both queues, return) are a
possible schedule — no other thread has to move; when it returns both queues are empty (no queue keeps a reference to an
item or output), nothing is raised, the workers are left exactly as they were: none of them can take anything any more, and
those waiting on the in-queue are parked (the real code leaves them as daemon processes until the parent exits) -/
theorem abandon_returns (c : Cfg) (s : State) (hc : s.main = .consuming) :
    ∃ s', runTrace c s (finishSeq s) = some s' ∧ s'.main = .done ∧ s'.inq = [] ∧ s'.outq = []
      ∧ outcome s' = .closed s.recv ∧ s'.ws = s.ws ∧ (∀ w, enabled c s' (.wGet w) = false)
      ∧ (∀ w k, s.ws[w]? = some (.run k [] none) → mayTake c k = true → parked c s' w = true) :=
  abandon_returns' c s hc

/-- `commState` (a worker busy, an item queued, the caller consuming) is such a state -/
example : commState.main = .consuming ∧ commState.inq.length = 0 ∧ (finishSeq commState).length = 2 := by decide

/-! ### maxtasksperchild -/

/-- with `maxtasksperchild = m > 0` no worker process has ever taken more than `m` items -/
theorem max_tasks_respected (c : Cfg) (hn : 0 < c.n) (hm : 0 < c.m) (s : State) (hr : Reachable c s)
    (w k : Nat) (p : List Nat) (e : Option Nat) (h : s.ws[w]? = some (.run k p e)) : k ≤ c.m :=
  max_tasks' c hn hm s hr w k p e h

/-! ### the in-process path (`n_processes = 1`, `maxtasksperchild = 0`) -/

theorem inproc_exact (items : List ItemSpec) (h : ∀ x ∈ items, x.err = none) :
    inproc items = (items.flatMap (·.outs), none) := inproc_ok' items h

theorem inproc_error_surfaces (items : List ItemSpec) (x : ItemSpec) (hx : x ∈ items) (hxe : x.err ≠ none) :
    ∃ e, (inproc items).2 = some e ∧ e ∈ items.filterMap (·.err) := inproc_err' items x hx hxe

theorem inproc_never_duplicated (items : List ItemSpec) :
    (inproc items).1.Sublist (items.flatMap (·.outs)) := inproc_sublist' items

/-! ### several calls on one Multiprocessor object -/

/-- every call starts from `init`, whatever the previous call left on the object … -/
theorem call_starts_fresh (o : Obj) (c : Cfg) : startCall o c = init c := startCall_eq_init' o c

/-- … so in a history of calls on one object the k-th call's outcome is its single-call outcome
(and every single-call theorem above applies to it) -/
theorem calls_independent (o : Obj) (calls : List (Cfg × List Action)) :
    runHistory o calls = singleCalls calls := calls_independent' o calls

/-- the reset is necessary: in the variant that keeps `_exceptions` across calls (object left with error 0 by an
earlier call), a call on a stream for which the filter never raises ends by raising error 0, and the worker that
retired at maxtasksperchild is not replaced (the schedule below is not even possible from `init`) -/
theorem stale_exceptions_counterexample :
    (runTrace staleCfg (startCallStale staleObj staleCfg) staleTrace).map (fun s => (s.main, outcome s))
        = some (Phase.done, Outcome.raised 0 [7])
      ∧ allErrs staleCfg = [] ∧ runTrace staleCfg (init staleCfg) staleTrace = none :=
  stale_exceptions_counterexample'

/-! ### put time-outs: an environment action that the current code never enables -/

/-- the code passes no timeout to `put` ⇒ the system extended by "a timed put gives up" has exactly the runs of the
base system, so nothing is ever dropped: every theorem above applies to `ReachableT` states -/
theorem no_timeouts_no_drops (c : Cfg) (h : c.timeouts = false) (s : State) (hr : ReachableT c s) : Reachable c s :=
  no_timeouts_no_drops' c h s hr

/-- the termination measure also decreases on the extra action -/
theorem variant_decreases_ext (c : Cfg) (s : State) (a : ActionT) (h : enabledT c s a = true) :
    mu c (stepT c s a) < mu c s := mu_putTimeout' c s a h

/-- with time-outs on the loader's put (and `Full` swallowed) a call can return normally with an output missing -/
theorem timeouts_can_drop_counterexample :
    (runTraceT toCfg (init toCfg) toTrace).map (fun s => (s.main, outcome s)) = some (Phase.done, Outcome.ok [1, 2])
      ∧ allOuts toCfg = [1, 2, 3] := timeouts_can_drop'

/-! ### CobaMultiprocessor around Multiprocessor -/

/-- the empty-input guard looks at the first element but hands the inner Multiprocessor a stream that still yields
everything, also when the input is a one-shot iterator; outputs and an early abandon pass through unchanged -/
theorem wrapper_preserves_outputs {α} (it : List α) (boot : Nat → Bool) (o : Outcome) (outs : List Nat) :
    wrapperInput it = it ∧
    (o = .ok outs → wrapOutcome boot o = .ok outs) ∧ (o = .closed outs → wrapOutcome boot o = .closed outs) :=
  ⟨wrapper_input' it, wrapper_preserves_outputs' boot o outs⟩

/-- the wrapper's shortcut returns nothing exactly for the empty stream — whatever the items are (falsy, `None`, …) -/
theorem wrapper_guard {α} (it : List α) : wrapperSkips it = true ↔ it = [] := wrapper_guard' it

/-- testing the first item against `None` instead drops a whole stream that starts with a `None` item -/
theorem wrapper_guard_counterexample :
    wrapperSkips [none, some 1, some 2] = false ∧ wrapperSkipsStale [none, some 1, some 2] = true :=
  wrapper_guard_counterexample'

/-- an error `e` of the inner call is re-raised unchanged unless it is one the wrapper turns into `CobaExit` -/
theorem wrapper_error_translation (boot : Nat → Bool) (e : Nat) (outs : List Nat) :
    wrapOutcome boot (.raised e outs) = (if boot e then .exit e outs else .raised e outs) :=
  wrapper_error_translation' boot e outs

/-- when none of the filter's own errors is of the translated kind (the fixed code: only the "bootstrapping phase"
RuntimeError of a missing `__main__` guard is), the wrapper changes no outcome of any reachable state -/
theorem wrapper_transparent (boot : Nat → Bool) (c : Cfg) (hn : 0 < c.n) (s : State) (hr : Reachable c s)
    (hb : ∀ e ∈ allErrs c, boot e = false) :
    wrapOutcome boot (outcome s) = (match outcome s with
      | .ok o => .ok o | .closed o => .closed o | .raised e o => .raised e o) :=
  wrapper_transparent' boot c hn s hr hb

/-- the guard must pass on the re-chained stream: passing the original one-shot iterator loses the first item -/
theorem wrapper_oneshot_counterexample :
    wrapperInput [1, 2, 3] = [1, 2, 3] ∧ wrapperInputStale [1, 2, 3] = [2, 3] := wrapper_oneshot_counterexample'

/-! ### independent steps commute (justifies the sleep-set reduction of the schedule enumeration) -/

/-- two steps related by `indep` that are both possible in a state can be taken in either order: each stays possible
after the other and both orders reach the same state -/
theorem step_comm (c : Cfg) (s : State) (a b : Action) (hi : indep a b = true)
    (ha : enabled c s a = true) (hb : enabled c s b = true) :
    enabled c (step c s a) b = true ∧ enabled c (step c s b) a = true ∧ step c (step c s a) b = step c (step c s b) a :=
  step_comm' c s a b hi ha hb

/-- hence schedules that differ only by swapping adjacent independent steps reach the same state (same outcome): it is
enough to enumerate one representative per equivalence class -/
theorem swap_adjacent (c : Cfg) (s : State) (a b : Action) (rest : List Action) (hi : indep a b = true)
    (ha : enabled c s a = true) (hb : enabled c s b = true) :
    runTrace c s (a :: b :: rest) = runTrace c s (b :: a :: rest) := swap_adjacent' c s a b rest hi ha hb

/-- a concrete instance: a worker's put and the loader's put are independent and both enabled; a worker's put and the
caller's get (both on the out-queue) are not related by `indep` -/
example : indep (.wPut 0) .loadPut = true ∧ enabled commCfg commState (.wPut 0) = true ∧ enabled commCfg commState .loadPut = true
      ∧ indep (.wPut 0) .cGet = false := step_comm_example'

/-! ### phase 4: a larger independence table (`wPut`–`cGet`, `loadPut`–`wGet`) -/

/-- `indep2` = `indep` plus a worker's put with the caller's get and the loader's put with a worker's get: whenever both steps of
such a pair are possible (so the queue they share is not empty, resp. neither empty nor full) either order is possible and both
orders reach the same state -/
theorem step_comm2 (c : Cfg) (s : State) (a b : Action) (hi : indep2 a b = true)
    (ha : enabled c s a = true) (hb : enabled c s b = true) :
    enabled c (step c s a) b = true ∧ enabled c (step c s b) a = true ∧ step c (step c s a) b = step c (step c s b) a :=
  step_comm2' c s a b hi ha hb

theorem swap_adjacent2 (c : Cfg) (s : State) (a b : Action) (rest : List Action) (hi : indep2 a b = true)
    (ha : enabled c s a = true) (hb : enabled c s b = true) :
    runTrace c s (a :: b :: rest) = runTrace c s (b :: a :: rest) := swap_adjacent2' c s a b rest hi ha hb

/-- the two new pairs are in, two takers / two putters of one queue stay dependent -/
example : indep2 (.wPut 0) .cGet = true ∧ indep (.wPut 0) .cGet = false ∧ indep2 .loadPut (.wGet 1) = true ∧ indep2 (.wGet 0) (.wGet 1) = false
      ∧ indep2 (.wPut 0) (.wPut 1) = false := indep2_example'

/-! ### phase 4: worker processes that die (exit code ≠ 0, `_main_err`) — `enabledF`/`stepF`, any finite number of faults -/

/-- without faults the extended system is the base system: every theorem above applies to it -/
theorem no_faults_refines (c : Cfg) (s : FState) (hr : ReachableF c 0 s) :
    Reachable c s.b ∧ s.mainErr = false ∧ s.crashed = [] ∧ s.skipped = false ∧ s.budget = 0 := no_faults_refines' c s hr

/-- never hangs, with faults: the measure `muF` strictly decreases on EVERY step of the extended system (a crash included) … -/
theorem variant_decreases_faults (c : Cfg) (s : FState) (a : ActionF) (h : enabledF c s a = true) :
    muF c (stepF c s a) < muF c s := muF_decreases' c s a h

/-- … so for every number of faults `f` and every schedule (crashes at any moment, of any lineage, before or after the caller woke up)
the run is finite, with an explicit bound; and in its `finally` block the caller's last step is always possible -/
theorem terminates_faults (c : Cfg) (f : Nat) (tr : List ActionF) (s : FState) (h : runTraceF c (initF c f) tr = some s) :
    tr.length ≤ mu c (init c) + 3 * f := terminates_faults' c f tr s h

theorem fin_can_finish_faults (c : Cfg) (s : FState) (h : s.b.main = .fin) : enabledF c s (.base .mDone) = true :=
  fin_can_finish_faults' c s h

/-- maxtasksperchild, for every schedule INCLUDING restarts after retirements, errors of other lineages and crashed processes:
no process incarnation has taken more than `m` items.  (`MaxK` is inductive on its own: `maxk_step`, no other invariant, no `0 < n`.) -/
theorem max_tasks_respected_faults (c : Cfg) (hm : 0 < c.m) (f : Nat) (s : FState) (hr : ReachableF c f s)
    (w k : Nat) (p : List Nat) (e : Option Nat) (h : s.b.ws[w]? = some (.run k p e)) : k ≤ c.m :=
  max_tasks_faults' c hm f s hr w k p e h

theorem max_tasks_inductive (c : Cfg) (s : State) (a : Action) (h : MaxK c s) (he : enabled c s a = true) : MaxK c (step c s a) :=
  maxk_step c s a h he

/- FULL statements (not provable: false for the code, recorded finding C08-F5):
   theorem exactly_once_faults_full  (f) (hr : ReachableF c f s) … : ∃ outs, outcome s.b = .ok outs ∧ outs.Perm (allOuts c)
   theorem error_surfaces_faults_full (f) (hr : ReachableF c f s) … : "outcome = ok ⇒ nothing lost"
   The callback of a process with exit code ≠ 0 records no error, so the item the process held is lost and the call returns normally. -/

/-- proved part: with the forced hypothesis "no fault happens" (`f = 0`) -/
theorem exactly_once_faults_partial (c : Cfg) (hn : 0 < c.n) (s : FState) (hr : ReachableF c 0 s) (hd : s.b.main = .done)
    (hab : s.b.abandoned = false) (hne : ∀ x ∈ c.items, x.err = none ∧ x.perr = none) :
    ∃ outs, outcome s.b = .ok outs ∧ outs.Perm (allOuts c) := exactly_once_faults_partial' c hn s hr hd hab hne

theorem error_surfaces_faults_partial (c : Cfg) (hn : 0 < c.n) (s : FState) (hr : ReachableF c 0 s) (hd : s.b.main = .done)
    (hab : s.b.abandoned = false) (x : ItemSpec) (hx : x ∈ c.items) (hxe : x.err ≠ none ∨ x.perr ≠ none) :
    ∃ e outs, outcome s.b = .raised e outs ∧ e ∈ allErrs c := error_surfaces_faults_partial' c hn s hr hd hab x hx hxe

/-- the hypothesis is necessary: ONE crash (lineage 0 dies holding item 0) and the call ends normally with `[2]` of `[1, 2]`,
no error recorded — the schedule the harness replays on the real code (known finding C08-F5) -/
theorem exactly_once_faults_counterexample :
    (runTraceF crashCfg (initF crashCfg 1) crashTrace).map (fun s => (s.b.main, outcome s.b, s.lostOuts, s.mainErr))
      = some (Phase.done, Outcome.ok [2], [1], true) ∧ allOuts crashCfg = [1, 2] ∧ allErrs crashCfg = [] := crash_loses_item'

/-- a crash before the caller woke from `event.wait()`: `_main_err` is seen, no further process is started, the call returns `[]` -/
theorem crash_before_event_skips_counterexample :
    (runTraceF skipCfg (initF skipCfg 1) skipTrace).map (fun s => (s.b.main, outcome s.b, s.skipped, s.lostOuts, enabledF skipCfg s (.base (.wBegin 1))))
      = some (Phase.done, Outcome.ok [], true, [1], false) := crash_before_event_skips'

/-! ### phase 5: the fault extension completed — deadlock-freedom, "a stuck state is done", nothing twice, for ANY number of crashes

`FInv` (Lemmas): `_n_procs` = number of non-dead lineages, pill accounting, "out pill at `_n_procs` = 0", the event/first-lineage
rule in its crash form (lineage 0 is `spawned`, or it crashed and its callback — which sets the event — is pending), "skipped ⇒
the caller is in `finally`", and conservation of every output INCLUDING what dead processes held (`lostOuts`).  It is inductive
for `stepF` without conservation of errors (which crashes break: finding C08-F5). -/

/-- never hangs, with crashes: in every reachable state of the extended system (any budget of crashes, any schedule) in which the
call has not returned, some step of the CODE is possible — not a further crash, not the caller giving up -/
theorem deadlock_free_faults (c : Cfg) (hn : 0 < c.n) (f : Nat) (s : FState) (hr : ReachableF c f s) (hnd : s.b.main ≠ .done) :
    ∃ a : Action, a ≠ .cAbandon ∧ enabledF c s (.base a) = true := deadlock_free_faults' c hn f s hr hnd

/-- with `terminates_faults`: every schedule with crashes is finite, and one the code cannot extend has finished the call -/
theorem reaches_done_faults (c : Cfg) (hn : 0 < c.n) (f : Nat) (tr : List ActionF) (s : FState)
    (h : runTraceF c (initF c f) tr = some s)
    (hstuck : ∀ a : Action, a ≠ .cAbandon → enabledF c s (.base a) = false) : s.b.main = .done :=
  reaches_done_faults' c hn f tr s h hstuck

/-- the same with the executable predicate the driver evaluates on every replayed killed-worker trace -/
theorem stuck_done_faults (c : Cfg) (hn : 0 < c.n) (f : Nat) (s : FState) (hr : ReachableF c f s)
    (hst : stuckF c s = true) : s.b.main = .done := stuck_done_faults' c hn f s hr hst

/-- none duplicated, with crashes (also after errors / abandon): what the caller has been handed PLUS what dead processes held
never exceeds the multiset of outputs — so a crash can lose outputs but never makes one appear twice -/
theorem never_duplicated_faults (c : Cfg) (hn : 0 < c.n) (f : Nat) (s : FState) (hr : ReachableF c f s) (o : Nat) :
    s.b.recv.count o + s.lostOuts.count o ≤ (allOuts c).count o := never_duplicated_faults' c hn f s hr o

/-- conservation with crashes: every copy of an output is with the caller, in a queue, pending in a process, in an item not yet
processed, drained — or was held by a process that died -/
theorem outputs_accounted_faults (c : Cfg) (hn : 0 < c.n) (f : Nat) (s : FState) (hr : ReachableF c f s) (o : Nat) :
    outTotal o s.b + s.lostOuts.count o = (allOuts c).count o := outputs_accounted_faults' c hn f s hr o

/-- a run in which no crash HAPPENED (the budget is untouched) is a run of the base system, whatever the budget was -/
theorem no_crash_refines (c : Cfg) (f : Nat) (s : FState) (hr : ReachableF c f s) (hb : s.budget = f) :
    Reachable c s.b ∧ s.mainErr = false ∧ s.crashed = [] ∧ s.skipped = false := no_crash_refines' c f s hr hb

/-- `exactly_once_faults_partial` as strong as it can be: the environment MAY crash processes (any budget `f`); if it did not in
this run, the complete multiset is delivered.  The hypothesis `s.budget = f` cannot be dropped (`exactly_once_faults_counterexample`),
nor replaced by "recv + lost = all" (`crash_strands_items_counterexample`). -/
theorem exactly_once_nocrash_partial (c : Cfg) (hn : 0 < c.n) (f : Nat) (s : FState) (hr : ReachableF c f s) (hb : s.budget = f)
    (hd : s.b.main = .done) (hab : s.b.abandoned = false) (hne : ∀ x ∈ c.items, x.err = none ∧ x.perr = none) :
    ∃ outs, outcome s.b = .ok outs ∧ outs.Perm (allOuts c) := exactly_once_nocrash_partial' c hn f s hr hb hd hab hne

theorem error_surfaces_nocrash_partial (c : Cfg) (hn : 0 < c.n) (f : Nat) (s : FState) (hr : ReachableF c f s) (hb : s.budget = f)
    (hd : s.b.main = .done) (hab : s.b.abandoned = false) (x : ItemSpec) (hx : x ∈ c.items) (hxe : x.err ≠ none ∨ x.perr ≠ none) :
    ∃ e outs, outcome s.b = .raised e outs ∧ e ∈ allErrs c := error_surfaces_nocrash_partial' c hn f s hr hb hd hab x hx hxe

/-- with ONE process a crash also strands what is still queued: n = 1, m = 2, two items, the process dies holding item 0 — the call returns
`[]` normally; output 1 was held by the dead process, output 2 was never produced (its item is drained from the in-queue), so
"delivered + held by dead processes" is strictly less than all outputs: `never_duplicated_faults` cannot be an equality -/
theorem crash_strands_items_counterexample :
    (runTraceF strandCfg (initF strandCfg 1) strandTrace).map
        (fun s => (s.b.main, outcome s.b, s.lostOuts, s.b.dropIn.length, stuckF strandCfg s))
      = some (Phase.done, Outcome.ok [], [1], 1, true) ∧ allOuts strandCfg = [1, 2] := crash_strands_items'

/-- non-vacuity of `stuck_done_faults` / `deadlock_free_faults`: right after the crash of the only process the state is reachable, not
done, not stuck (the dead process' callback is the enabled step); the complete schedule ends stuck and done -/
example :
    (runTraceF strandCfg (initF strandCfg 1) (strandTrace.take 8)).map (fun s => (s.b.main, stuckF strandCfg s, enabledF strandCfg s (.base (.wCallback 0))))
      = some (Phase.consuming, false, true) := by decide

/-! ### phase 4: `read_wait=True` — `enabledR`/`stepR` (keys in the out-queue, processes that wait for the caller) -/

/-- every run with `read_wait` (either value of the flag) is, after erasing the key steps, a run of the base system: the base part of
every reachable state is `Reachable`.  Hence `exactly_once`, `ok_complete`, `never_duplicated`, `error_surfaces`, `raised_genuine`,
`max_tasks_respected` hold verbatim for `s.b` with `read_wait=True` (delaying a callback until the caller has read the key is one
of the schedules the base theorems already quantify over). -/
theorem readwait_refines (c : Cfg) (rw : Bool) (s : RState) (hr : ReachableR c rw s) : Reachable c s.b :=
  readwait_refines' c rw s hr

/-- with `read_wait=False` no process ever waits for the caller -/
theorem no_readwait_no_keys (c : Cfg) (s : RState) (hr : ReachableR c false s) : s.keyPending = [] ∧ s.keyWait = [] :=
  no_readwait_no_keys' c s hr

/-- never hangs with `read_wait`: `muR` strictly decreases on every step (key steps included), for every schedule … -/
theorem variant_decreases_readwait (c : Cfg) (rw : Bool) (s : RState) (a : ActionR) (h : enabledR c s a = true) :
    muR c (stepR c rw s a) < muR c s := muR_decreases' c rw s a h

/-- … so every schedule is finite, with an explicit bound -/
theorem terminates_readwait (c : Cfg) (rw : Bool) (tr : List ActionR) (s : RState) (h : runTraceR c rw (initR c) tr = some s) :
    tr.length ≤ 6 * mu c (init c) := terminates_readwait' c rw tr s h

/-- the key layer's invariant: the base out-queue is the real one without the keys, and (while the caller is active) the key of
every process that waits for the caller is still in the out-queue -/
theorem readwait_inv (c : Cfg) (rw : Bool) (s : RState) (hr : ReachableR c rw s) :
    s.b.outq = s.routq.filterMap ROut.proj ∧ (s.b.active = true → ∀ w ∈ s.keyWait, ROut.key w ∈ s.routq) :=
  rinv_reachable c rw s hr

/-- never hangs with `read_wait`: as long as the call has not finished, some step other than "the caller gives up" is possible —
a process that waits for the caller has its key in the out-queue, and the caller can always take the head of that queue -/
theorem deadlock_free_readwait (c : Cfg) (hn : 0 < c.n) (rw : Bool) (s : RState) (hr : ReachableR c rw s) (hnd : s.b.main ≠ .done) :
    ∃ a, a ≠ ActionR.base .cAbandon ∧ enabledR c s a = true := deadlock_free_readwait' c hn rw s hr hnd

/-- with `terminates_readwait`: every schedule is finite and one that cannot be extended has finished the call (phase `done`),
where by `readwait_refines` + `exactly_once` / `error_surfaces` the outcome is the complete multiset, or the filter's error is raised -/
theorem reaches_done_readwait (c : Cfg) (hn : 0 < c.n) (rw : Bool) (s : RState) (hr : ReachableR c rw s)
    (hstuck : ∀ a, a ≠ ActionR.base .cAbandon → enabledR c s a = false) : s.b.main = .done :=
  reaches_done_readwait' c hn rw s hr hstuck

/-- non-vacuity: n = 1, m = 1, one item, `read_wait=True`: after the worker wrote its key its callback has to wait (the base system
would allow it), and the complete schedule ends `ok [1]` with every key consumed -/
example :
    (runTraceR rwCfg true (initR rwCfg) rwTrace1).map (fun s => (s.routq, s.keyWait, enabledR rwCfg s (.base (.wCallback 0)), enabled rwCfg s.b (.wCallback 0)))
      = some ([ROut.val 1, ROut.key 0], [0], false, true)
    ∧ (runTraceR rwCfg true (initR rwCfg) (rwTrace1 ++ rwTrace2)).map (fun s => (s.b.main, outcome s.b, s.routq, s.keyPending, s.keyWait))
      = some (Phase.done, Outcome.ok [1], [], [], []) := readwait_example'

/-! ### phase 5: crash × `read_wait` — `enabledRF`/`stepRF` (a process dies while it waits for the caller) -/

/-- never hangs (termination part): `muR` strictly decreases on every step of the combined system, the crash of a waiting process
included (it leaves `keyWait`), whatever the crash budget … -/
theorem variant_decreases_rf (c : Cfg) (rw : Bool) (s : RFState) (a : ActionRF) (h : enabledRF c s a = true) :
    muR c (stepRF c rw s a).r < muR c s.r := muRF_decreases' c rw s a h

/-- … so every schedule with `read_wait` and any number of crashes of waiting processes has at most `6·mu(init)` steps -/
theorem terminates_rf (c : Cfg) (rw : Bool) (f : Nat) (tr : List ActionRF) (s : RFState)
    (h : runTraceRF c rw (initRF c f) tr = some s) : tr.length ≤ 6 * mu c (init c) := terminates_rf' c rw f tr s h

/-- a process that waits for the caller holds no output: conservation of every output survives its crash … -/
theorem outputs_conserved_rf (c : Cfg) (rw : Bool) (f : Nat) (s : RFState) (hr : ReachableRF c rw f s) (o : Nat) :
    outTotal o s.r.b = sumOver (fun x => x.outs.count o) c.items := outC_rf c rw f s hr o

/-- … hence nothing is delivered twice, in every reachable state, with `read_wait` and crashes of waiting processes -/
theorem never_duplicated_rf (c : Cfg) (rw : Bool) (f : Nat) (s : RFState) (hr : ReachableRF c rw f s) (o : Nat) :
    s.r.b.recv.count o ≤ (allOuts c).count o := never_duplicated_rf' c rw f s hr o

/-- non-vacuity: n = 1, m = 1, one item, `read_wait`: the process retires, writes its key and dies while waiting — its callback is
no longer held back, sets `_main_err`, does NOT replace the lineage (un-poisoned though it was), `_n_procs` = 0, the pill follows
the stale key; the caller reads the output, the key (`.set()` on an event nobody waits on), the pill: `ok [1]` -/
example :
    (runTraceRF rwCfg true (initRF rwCfg 1) (rfTrace.take (rwTrace1.length + 1))).map
        (fun s => (s.mainErr, s.r.keyWait, s.crashedK, enabledRF rwCfg s (.r (.base (.wCallback 0))))) = some (false, [], [0], true)
    ∧ (runTraceRF rwCfg true (initRF rwCfg 1) rfTrace).map (fun s => (s.mainErr, s.r.keyWait, s.r.b.nprocs, s.r.routq)) = some (true, [], 0, [])
    ∧ (runTraceRF rwCfg true (initRF rwCfg 1) rfTrace).map (fun s => (s.r.b.main, outcome s.r.b, s.budget)) = some (Phase.done, Outcome.ok [1], 0) := crash_keywait_example'

/-! ### phase 4: translator obligations — `Generated/C08Callback.lean` is re-extracted from coba/pipes/multiprocessing.py (Python `ast`)
on every run; the model's steps are what the CURRENT source says (an edit of these expressions breaks one of these proofs) -/

open Coba.Generated.C08 in
theorem generated_cap (c : Cfg) : cap c = capFactor * c.n := rfl

open Coba.Generated.C08 in
theorem generated_init (c : Cfg) : (init c).nprocs = initProcs c.n := rfl

open Coba.Generated.C08 in
theorem generated_pills (c : Cfg) (s : State) : (step c s .loadFinish).todo = List.replicate (pillsWritten s.nprocs) none := rfl

open Coba.Generated.C08 in
theorem generated_callback (c : Cfg) (s : State) (w : Nat) (p : Bool) (e : Option Nat) (hw : s.ws[w]? = some (.exited p e)) :
    step c s (.wCallback w) =
      (if restartCond p (s.excs ++ e.toList).isEmpty true then { s with excs := s.excs ++ e.toList, ws := s.ws.set w .spawned }
       else { s with excs := s.excs ++ e.toList, ws := s.ws.set w .dead, nprocs := afterExit s.nprocs,
                     outq := if pillCond (afterExit s.nprocs) then s.outq ++ [none] else s.outq }) := by
  cases p <;> simp [step, hw, restartCond, afterExit, pillCond]

open Coba.Generated.C08 in
theorem generated_crash_no_restart : ∀ p b : Bool, restartCond p b false = false := by decide

open Coba.Generated.C08 in
theorem generated_consumes (c : Cfg) (s : FState) :
    (stepF c s (.base .mEvent)).b.main = (if consumes s.mainErr then Phase.consuming else Phase.fin) := by
  cases h : s.mainErr <;> simp [stepF, step, consumes, h]

/-! ### phase 6: the read_wait protocol of `MyProcessLine` is the program `workerProgram`, and the R layer executes it

`workerProgram hasWait` = `MyProcessLine.run` (`runLine`; iff `start` created `_wait`: `writeKey`, `waitCaller`), `startRegisters` = the test in
`MyProcessLine.start`, `callerSets` = the caller's dispatch test.  The `generated_*` obligations below tie them to the CURRENT source
(`Generated/C08ReadWait.lean`, re-extracted on every run); the harness executes the real `start`/`run` (cases `rwproto`). -/

/-- `runLine` → `writeKey`: when the line of lineage `w` ends (pill, error, `Slice` exhausted) under read_wait, the process is at `writeKey`
and has NOT exited (its callback is blocked) -/
theorem readwait_program_line_end (c : Cfg) (s : RState) (a : Action) (w : Nat) (h : lineEnds s.b a = some w) :
    rwPc (stepR c true s (.base a)) w = 1 ∧ enabledR c (stepR c true s (.base a)) (.base (.wCallback w)) = false :=
  readwait_program_line_end' c s a w h

/-- without a store (`read_wait=False`: `workerProgram false = [runLine]`) a base step never makes a process wait -/
theorem readwait_program_no_store (c : Cfg) (s : RState) (a : Action) :
    (stepR c false s (.base a)).keyPending = s.keyPending ∧ (stepR c false s (.base a)).keyWait = s.keyWait :=
  readwait_program_no_store' c s a

/-- `writeKey`: possible at once (the out queue is unbounded), the key goes BEHIND everything already in the out queue (so behind all
outputs of this process), the process is then in `waitCaller`, nothing else changes -/
theorem readwait_program_write_key (c : Cfg) (rw : Bool) (s : RState) (w : Nat) (h : rwPc s w = 1) :
    enabledR c s (.wKey w) = true ∧ (stepR c rw s (.wKey w)).routq = s.routq ++ [.key w]
    ∧ (stepR c rw s (.wKey w)).keyWait.contains w = true ∧ (stepR c rw s (.wKey w)).b = s.b :=
  readwait_program_write_key' c rw s w h

/-- as long as the program of `w` has not ended (pc ≠ 0) the process has not exited: `filter_finished_or_failed` cannot run for it -/
theorem readwait_program_blocks_exit (c : Cfg) (s : RState) (w : Nat) (h : rwPc s w ≠ 0) :
    enabledR c s (.base (.wCallback w)) = false := readwait_program_blocks_exit' c s w h

/-- `waitCaller` returns only through the caller: no step other than `cKey` takes a lineage out of `keyWait` -/
theorem readwait_program_wait_released_by_caller (c : Cfg) (rw : Bool) (s : RState) (a : ActionR) (w : Nat)
    (ha : a ≠ .cKey) (hw : s.keyWait.contains w = true) : (stepR c rw s a).keyWait.contains w = true :=
  readwait_program_wait_released_by_caller' c rw s a w ha hw

/-- the caller's dispatch IS `callerSets`: a key at the head ⇒ `.set()` (step `cKey`), anything else ⇒ `yield` (step `cGet`) -/
theorem readwait_caller_dispatch (c : Cfg) (s : RState) :
    enabledR c s .cKey = (s.b.main == .consuming && callerSets true (isKeyHead s.routq))
    ∧ enabledR c s (.base .cGet) = (enabled c s.b .cGet && !callerSets true (isKeyHead s.routq)) :=
  readwait_caller_dispatch' c s

/-- `read_waiters[i].set()` releases exactly the owner of the key, consumes the key, yields nothing -/
theorem readwait_caller_sets_owner (c : Cfg) (rw : Bool) (s : RState) (w : Nat) (rest : List ROut) (h : s.routq = .key w :: rest) :
    (stepR c rw s .cKey).routq = rest ∧ (stepR c rw s .cKey).keyWait.contains w = false ∧ (stepR c rw s .cKey).b.recv = s.b.recv
    ∧ ∀ w', w' ≠ w → (stepR c rw s .cKey).keyWait.contains w' = s.keyWait.contains w' :=
  readwait_caller_sets_owner' c rw s w rest h

/-- the hypotheses are satisfiable / the programs are what the comments say -/
example :
    (workerProgram true).map RWOp.code = [0, 1, 2] ∧ (workerProgram false).map RWOp.code = [0]
    ∧ rwPc { b := init rwCfg, routq := [], keyPending := [0], keyWait := [] } 0 = 1
    ∧ rwPc (stepR rwCfg true { b := init rwCfg, routq := [], keyPending := [0], keyWait := [] } (.wKey 0)) 0 = 2 :=
  readwait_program_example'

/-- translator obligations (source ↦ model): `MyProcessLine.run` is `workerProgram` … -/
theorem generated_worker_program (hasWait : Bool) :
    Coba.Generated.C08RW.workerProgramCodes hasWait = (workerProgram hasWait).map RWOp.code := by cases hasWait <;> rfl

/-- … `MyProcessLine.start` registers iff a store was handed in (also an EMPTY one), before the process is started, and removes the
store from the object that is pickled into the child … -/
theorem generated_start_registers (store nonEmpty : Bool) :
    Coba.Generated.C08RW.startRegisters store nonEmpty = startRegisters store nonEmpty
    ∧ Coba.Generated.C08RW.registersBeforeStart = true ∧ Coba.Generated.C08RW.storeRemoved = true := by
  cases store <;> cases nonEmpty <;> decide

/-- … and the caller's dispatch is `callerSets`, its key branch exactly `read_waiters[i].set()`, its else branch exactly `yield i` -/
theorem generated_caller_dispatch (rw isKey : Bool) :
    Coba.Generated.C08RW.callerSets rw isKey = callerSets rw isKey
    ∧ Coba.Generated.C08RW.callerKeyAction = 1 ∧ Coba.Generated.C08RW.callerElseYields = true := by
  cases rw <;> cases isKey <;> decide

/-! ### phase 6: histories in which the calls on one object are ALIVE AT THE SAME TIME (read / read a sibling / abandon / read again)

`Action2`, `enabled2`, `step2`, `runTrace2`, `Reachable2` (Model/C08.lean): the joint system of two calls on the same object, for ALL
interleavings of their loaders, workers, callbacks and of the caller's pulls from the two generators. -/

/-- every joint run projects to a run of each call on its own: so every single-call theorem (`exactly_once`, `ok_complete`, `never_duplicated`,
`error_surfaces`, `raised_genuine`, `max_tasks_respected`, …) holds for each of the calls, whatever the sibling does -/
theorem overlapping_calls_project (c1 c2 : Cfg) (tr : List Action2) (s t : State × State) (h : runTrace2 c1 c2 s tr = some t) :
    runTrace c1 s.1 (proj1 tr) = some t.1 ∧ runTrace c2 s.2 (proj2 tr) = some t.2 := overlapping_calls_project' c1 c2 tr s t h

theorem overlapping_calls_reachable (c1 c2 : Cfg) (s : State × State) (h : Reachable2 c1 c2 s) :
    Reachable c1 s.1 ∧ Reachable c2 s.2 := overlapping_calls_reachable' c1 c2 s h

/-- a step of one call neither enables nor disables a step of the other, and the two commute -/
theorem overlapping_calls_no_interference (c1 c2 : Cfg) (s : State × State) (a b : Action) :
    enabled2 c1 c2 (step2 c1 c2 s (.first a)) (.second b) = enabled2 c1 c2 s (.second b)
    ∧ enabled2 c1 c2 (step2 c1 c2 s (.second b)) (.first a) = enabled2 c1 c2 s (.first a)
    ∧ step2 c1 c2 (step2 c1 c2 s (.first a)) (.second b) = step2 c1 c2 (step2 c1 c2 s (.second b)) (.first a) :=
  overlapping_calls_no_interference' c1 c2 s a b

/-- the sibling delivers every output exactly once, whatever the first call does meanwhile (runs, raises, is abandoned, is never read again) -/
theorem overlapping_calls_exactly_once (c1 c2 : Cfg) (hn : 0 < c2.n) (s : State × State) (hr : Reachable2 c1 c2 s)
    (hd : s.2.main = .done) (hab : s.2.abandoned = false) (hne : ∀ x ∈ c2.items, x.err = none ∧ x.perr = none) :
    ∃ outs, outcome s.2 = .ok outs ∧ outs.Perm (allOuts c2) := overlapping_calls_exactly_once' c1 c2 hn s hr hd hab hne

/-- never hangs: as long as one of the two calls has not returned, a step of the code (not "the caller gives up") is possible … -/
theorem overlapping_calls_deadlock_free (c1 c2 : Cfg) (hn1 : 0 < c1.n) (hn2 : 0 < c2.n) (s : State × State) (hr : Reachable2 c1 c2 s)
    (hnd : s.1.main ≠ .done ∨ s.2.main ≠ .done) :
    ∃ a, a ≠ Action2.first .cAbandon ∧ a ≠ Action2.second .cAbandon ∧ enabled2 c1 c2 s a = true :=
  overlapping_calls_deadlock_free' c1 c2 hn1 hn2 s hr hnd

/-- … and every joint schedule is finite: the sum of the two measures strictly decreases on every step -/
theorem overlapping_calls_variant (c1 c2 : Cfg) (s : State × State) (a : Action2) (h : enabled2 c1 c2 s a = true) :
    mu c1 (step2 c1 c2 s a).1 + mu c2 (step2 c1 c2 s a).2 < mu c1 s.1 + mu c2 s.2 := overlapping_calls_variant' c1 c2 s a h

/-- the hypotheses are satisfiable: two one-item calls (n = 1, m = 1) alive together, the sibling is read first; both end `ok [1]` -/
example :
    (runTrace2 exOv exOv (init exOv, init exOv) exOvTrace).map (fun s => (outcome s.1, outcome s.2)) = some (.ok [1], .ok [1]) :=
  overlapping_calls_example'

/-! ### the hypotheses are satisfiable: complete schedules observed on the real code
(logged by the harness from `Multiprocessor.filter` under the controlled scheduler) -/

/-- fewer items than processes (n = 3, one item) -/
def exFew : Cfg := { n := 3, m := 0, items := [{ id := 0, outs := [7], err := none }] }
def exFewTrace : List Action := [.wBegin 0, .mEvent, .wBegin 2, .loadTake, .wBegin 1, .loadPut, .wGet 0, .wPut 0, .cGet, .loadFinish, .loadTake, .loadPut, .loadTake, .wGet 1, .wCallback 1, .loadPut, .loadTake, .wGet 2, .loadPut, .wCallback 2, .wGet 0, .wCallback 0, .cGet, .mDone]
example : (runTrace exFew (init exFew) exFewTrace).map outcome = some (.ok [7]) := by decide

/-- item count an exact multiple of maxtasksperchild (n = 2, m = 2, four items) -/
def exMult : Cfg := { n := 2, m := 2, items := [{ id := 0, outs := [1], err := none }, { id := 1, outs := [2], err := none }, { id := 2, outs := [3, 3], err := none }, { id := 3, outs := [4], err := none }] }
def exMultTrace : List Action := [.wBegin 0, .mEvent, .wBegin 1, .loadTake, .loadPut, .loadTake, .wGet 0, .wPut 0, .cGet, .loadPut, .loadTake, .wGet 0, .wPut 0, .wRetire 0, .cGet, .wCallback 0, .loadPut, .loadTake, .loadPut, .wGet 1, .wPut 1, .loadFinish, .loadTake, .cGet, .wBegin 0, .wGet 0, .wPut 0, .cGet, .loadPut, .loadTake, .wPut 1, .loadPut, .wGet 1, .wCallback 1, .wGet 0, .wCallback 0, .cGet, .cGet, .mDone]
example : (runTrace exMult (init exMult) exMultTrace).map outcome = some (.ok [1, 2, 3, 4, 3]) := by decide

/-- m = 1: every item is handled by a fresh process -/
def exOne : Cfg := { n := 1, m := 1, items := [{ id := 0, outs := [1], err := none }, { id := 1, outs := [2], err := none }] }
def exOneTrace : List Action := [.wBegin 0, .mEvent, .loadTake, .loadPut, .loadTake, .wGet 0, .loadPut, .wPut 0, .wRetire 0, .loadFinish, .loadTake, .loadPut, .cGet, .wCallback 0, .wBegin 0, .wGet 0, .wPut 0, .wRetire 0, .wCallback 0, .cGet, .wBegin 0, .wGet 0, .wCallback 0, .cGet, .mDone]
example : (runTrace exOne (init exOne) exOneTrace).map outcome = some (.ok [1, 2]) := by decide

/-- an item raises: the call raises that error (after delivering what was produced) -/
def exErr : Cfg := { n := 2, m := 1, items := [{ id := 0, outs := [1], err := some 0 }, { id := 1, outs := [2], err := none }, { id := 2, outs := [3], err := none }] }
def exErrTrace : List Action := [.wBegin 0, .mEvent, .wBegin 1, .loadTake, .loadPut, .loadTake, .wGet 0, .wPut 0, .wRaise 0, .loadPut, .loadTake, .wGet 1, .loadPut, .cGet, .loadFinish, .loadTake, .wPut 1, .wRetire 1, .wCallback 1, .wCallback 0, .wBegin 1, .wGet 1, .loadPut, .loadTake, .cGet, .wPut 1, .wRetire 1, .loadPut, .wCallback 1, .cGet, .cGet, .drainIn, .drainIn, .mDone]
example : (runTrace exErr (init exErr) exErrTrace).map outcome = some (.raised 0 [1, 2, 3]) := by decide

/-- the caller abandons after the first output -/
def exAb : Cfg := { n := 2, m := 0, items := [{ id := 0, outs := [1], err := none }, { id := 1, outs := [2], err := none }, { id := 2, outs := [3], err := none }] }
def exAbTrace : List Action := [.wBegin 0, .mEvent, .wBegin 1, .loadTake, .loadPut, .loadTake, .wGet 0, .wPut 0, .cGet, .cAbandon, .mDone]
example : (runTrace exAb (init exAb) exAbTrace).map outcome = some (.closed [1]) := by decide

end Coba.C08
