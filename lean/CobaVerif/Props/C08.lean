/-
C08 — Multi-process filtering delivers every output exactly once and never hangs.
Property theorems only (model: `Model/C08.lean`, proofs: `Lemmas/C08.lean`).

The model is a labelled transition system (`enabled`, `step`) over the atomic steps of
`Multiprocessor.filter`; a *schedule* is any sequence of enabled actions, so every theorem below
quantifies over all interleavings of loader, workers (incl. retiring/replaced ones), callbacks and
the caller, over all `n ≥ 1`, all `maxtasksperchild`, all item lists and all sets of raising items.
`Reachable c s` = `s` is reached from `init c` by some schedule.  `outcome s` = what the caller
sees (`ok outs` / `raised e outs` / `closed outs` after an early abandon).
-/
import CobaVerif.Lemmas.C08

namespace Coba.C08

/-! ### the inductive invariant -/

theorem inv_init (c : Cfg) (hn : 0 < c.n) : Inv c (init c) := inv_init' c hn

theorem inv_step (c : Cfg) (s : State) (a : Action) (hI : Inv c s) (h : enabled c s a = true) :
    Inv c (step c s a) := inv_step' c s a hI h

theorem inv_reachable (c : Cfg) (hn : 0 < c.n) (s : State) (h : Reachable c s) : Inv c s :=
  inv_reachable' c hn s h

/-! ### every output exactly once -/

/-- no item raises and every item can be pickled ⇒ a finished (not abandoned) call returned normally and handed over exactly the
multiset of outputs the wrapped filter produces item by item -/
theorem exactly_once (c : Cfg) (hn : 0 < c.n) (s : State) (hr : Reachable c s) (hd : s.main = .done)
    (hab : s.abandoned = false) (hne : ∀ x ∈ c.items, x.err = none ∧ x.perr = none) :
    ∃ outs, outcome s = .ok outs ∧ outs.Perm (allOuts c) := exactly_once' c hn s hr hd hab hne

/-- whenever the call returns normally nothing was dropped: all outputs were delivered and no item raised -/
theorem ok_complete (c : Cfg) (hn : 0 < c.n) (s : State) (hr : Reachable c s) (hd : s.main = .done)
    (outs : List Nat) (ho : outcome s = .ok outs) : outs.Perm (allOuts c) ∧ allErrs c = [] :=
  ok_complete' c hn s hr hd outs ho

/-- at every moment of every schedule (also when the call ends by an error or is abandoned) no
output has been delivered more often than the filter produced it -/
theorem never_duplicated (c : Cfg) (hn : 0 < c.n) (s : State) (hr : Reachable c s) (o : Nat) :
    s.recv.count o ≤ (allOuts c).count o := never_duplicated' c hn s hr o

/-! ### errors surface -/

/-- some item raises (or cannot be pickled: `Pickler`'s CobaException in the loader thread) ⇒ a finished (not
abandoned) call raised, and what it raised is one of those errors -/
theorem error_surfaces (c : Cfg) (hn : 0 < c.n) (s : State) (hr : Reachable c s) (hd : s.main = .done)
    (hab : s.abandoned = false) (x : ItemSpec) (hx : x ∈ c.items) (hxe : x.err ≠ none ∨ x.perr ≠ none) :
    ∃ e outs, outcome s = .raised e outs ∧ e ∈ allErrs c := error_surfaces' c hn s hr hd hab x hx hxe

/-- the call never raises anything but an error of the wrapped filter -/
theorem raised_genuine (c : Cfg) (hn : 0 < c.n) (s : State) (hr : Reachable c s)
    (e : Nat) (outs : List Nat) (ho : outcome s = .raised e outs) : e ∈ allErrs c :=
  raised_genuine' c hn s hr e outs ho

/-! ### never hangs -/

/-- as long as the call has not finished some step other than "the caller gives up" is enabled -/
theorem deadlock_free (c : Cfg) (hn : 0 < c.n) (s : State) (hr : Reachable c s) (hnd : s.main ≠ .done) :
    ∃ a, a ≠ Action.cAbandon ∧ enabled c s a = true := deadlock_free' c hn s hr hnd

/-- a natural-number measure strictly decreases on every enabled step (from any state) -/
theorem variant_decreases (c : Cfg) (s : State) (a : Action) (h : enabled c s a = true) :
    mu c (step c s a) < mu c s := mu_decreases' c s a h

/-- hence every schedule is finite: no run is longer than `mu (init c)` … -/
theorem terminates (c : Cfg) (tr : List Action) (s : State) (h : runTrace c (init c) tr = some s) :
    tr.length ≤ mu c (init c) := terminates' c tr s h

/-- … and a schedule that cannot be extended has finished the call (no fairness assumption needed) -/
theorem reaches_done (c : Cfg) (hn : 0 < c.n) (tr : List Action) (s : State)
    (h : runTrace c (init c) tr = some s)
    (hstuck : ∀ a, a ≠ Action.cAbandon → enabled c s a = false) : s.main = .done :=
  reaches_done' c hn tr s h hstuck

/-! ### abandoning the output early -/

/-- the caller may give up after any output; its `finally` block never blocks (the final step is
enabled in every state of that phase) and the call ends without raising, whatever the workers do -/
theorem abandon_terminates (c : Cfg) (s : State) (hc : s.main = .consuming) :
    enabled c s .cAbandon = true ∧
    (∀ s', s'.main = .fin → enabled c s' .mDone = true) ∧
    outcome (step c (step c s .cAbandon) .mDone) = .closed s.recv := abandon_terminates' c s hc

/-- stronger: in ANY `consuming` state the caller's own steps alone (`finishSeq`: give up, drain both queues, return) are a
possible schedule — no other thread has to move; when it returns both queues are empty (no queue keeps a reference to an
item or output), nothing is raised, the workers are left exactly as they were: none of them can take anything any more, and
those waiting on the in-queue are parked (the real code leaves them as daemon processes until the parent exits) -/
theorem abandon_returns (c : Cfg) (s : State) (hc : s.main = .consuming) :
    ∃ s', runTrace c s (finishSeq s) = some s' ∧ s'.main = .done ∧ s'.inq = [] ∧ s'.outq = []
      ∧ outcome s' = .closed s.recv ∧ s'.ws = s.ws ∧ (∀ w, enabled c s' (.wGet w) = false)
      ∧ (∀ w k, s.ws[w]? = some (.run k [] none) → mayTake c k = true → parked c s' w = true) :=
  abandon_returns' c s hc

/-- `commState` (a worker busy, an item queued, the caller consuming) is such a state -/
example : commState.main = .consuming ∧ commState.inq.length = 0 ∧ (finishSeq commState).length = 2 := by decide

/-! ### maxtasksperchild -/

/-- with `maxtasksperchild = m > 0` no worker process has ever taken more than `m` items -/
theorem max_tasks_respected (c : Cfg) (hn : 0 < c.n) (hm : 0 < c.m) (s : State) (hr : Reachable c s)
    (w k : Nat) (p : List Nat) (e : Option Nat) (h : s.ws[w]? = some (.run k p e)) : k ≤ c.m :=
  max_tasks' c hn hm s hr w k p e h

/-! ### the in-process path (`n_processes = 1`, `maxtasksperchild = 0`) -/

theorem inproc_exact (items : List ItemSpec) (h : ∀ x ∈ items, x.err = none) :
    inproc items = (items.flatMap (·.outs), none) := inproc_ok' items h

theorem inproc_error_surfaces (items : List ItemSpec) (x : ItemSpec) (hx : x ∈ items) (hxe : x.err ≠ none) :
    ∃ e, (inproc items).2 = some e ∧ e ∈ items.filterMap (·.err) := inproc_err' items x hx hxe

theorem inproc_never_duplicated (items : List ItemSpec) :
    (inproc items).1.Sublist (items.flatMap (·.outs)) := inproc_sublist' items

/-! ### several calls on one Multiprocessor object -/

/-- every call starts from `init`, whatever the previous call left on the object … -/
theorem call_starts_fresh (o : Obj) (c : Cfg) : startCall o c = init c := startCall_eq_init' o c

/-- … so in a history of calls on one object the k-th call's outcome is its single-call outcome
(and every single-call theorem above applies to it) -/
theorem calls_independent (o : Obj) (calls : List (Cfg × List Action)) :
    runHistory o calls = singleCalls calls := calls_independent' o calls

/-- the reset is necessary: in the variant that keeps `_exceptions` across calls (object left with error 0 by an
earlier call), a call on a stream for which the filter never raises ends by raising error 0, and the worker that
retired at maxtasksperchild is not replaced (the schedule below is not even possible from `init`) -/
theorem stale_exceptions_counterexample :
    (runTrace staleCfg (startCallStale staleObj staleCfg) staleTrace).map (fun s => (s.main, outcome s))
        = some (Phase.done, Outcome.raised 0 [7])
      ∧ allErrs staleCfg = [] ∧ runTrace staleCfg (init staleCfg) staleTrace = none :=
  stale_exceptions_counterexample'

/-! ### put time-outs: an environment action that the current code never enables -/

/-- the code passes no timeout to `put` ⇒ the system extended by "a timed put gives up" has exactly the runs of the
base system, so nothing is ever dropped: every theorem above applies to `ReachableT` states -/
theorem no_timeouts_no_drops (c : Cfg) (h : c.timeouts = false) (s : State) (hr : ReachableT c s) : Reachable c s :=
  no_timeouts_no_drops' c h s hr

/-- the termination measure also decreases on the extra action -/
theorem variant_decreases_ext (c : Cfg) (s : State) (a : ActionT) (h : enabledT c s a = true) :
    mu c (stepT c s a) < mu c s := mu_putTimeout' c s a h

/-- with time-outs on the loader's put (and `Full` swallowed) a call can return normally with an output missing -/
theorem timeouts_can_drop_counterexample :
    (runTraceT toCfg (init toCfg) toTrace).map (fun s => (s.main, outcome s)) = some (Phase.done, Outcome.ok [1, 2])
      ∧ allOuts toCfg = [1, 2, 3] := timeouts_can_drop'

/-! ### CobaMultiprocessor around Multiprocessor -/

/-- the empty-input guard looks at the first element but hands the inner Multiprocessor a stream that still yields
everything, also when the input is a one-shot iterator; outputs and an early abandon pass through unchanged -/
theorem wrapper_preserves_outputs {α} (it : List α) (boot : Nat → Bool) (o : Outcome) (outs : List Nat) :
    wrapperInput it = it ∧
    (o = .ok outs → wrapOutcome boot o = .ok outs) ∧ (o = .closed outs → wrapOutcome boot o = .closed outs) :=
  ⟨wrapper_input' it, wrapper_preserves_outputs' boot o outs⟩

/-- the wrapper's shortcut returns nothing exactly for the empty stream — whatever the items are (falsy, `None`, …) -/
theorem wrapper_guard {α} (it : List α) : wrapperSkips it = true ↔ it = [] := wrapper_guard' it

/-- testing the first item against `None` instead drops a whole stream that starts with a `None` item -/
theorem wrapper_guard_counterexample :
    wrapperSkips [none, some 1, some 2] = false ∧ wrapperSkipsStale [none, some 1, some 2] = true :=
  wrapper_guard_counterexample'

/-- an error `e` of the inner call is re-raised unchanged unless it is one the wrapper turns into `CobaExit` -/
theorem wrapper_error_translation (boot : Nat → Bool) (e : Nat) (outs : List Nat) :
    wrapOutcome boot (.raised e outs) = (if boot e then .exit e outs else .raised e outs) :=
  wrapper_error_translation' boot e outs

/-- when none of the filter's own errors is of the translated kind (the fixed code: only the "bootstrapping phase"
RuntimeError of a missing `__main__` guard is), the wrapper changes no outcome of any reachable state -/
theorem wrapper_transparent (boot : Nat → Bool) (c : Cfg) (hn : 0 < c.n) (s : State) (hr : Reachable c s)
    (hb : ∀ e ∈ allErrs c, boot e = false) :
    wrapOutcome boot (outcome s) = (match outcome s with
      | .ok o => .ok o | .closed o => .closed o | .raised e o => .raised e o) :=
  wrapper_transparent' boot c hn s hr hb

/-- the guard must pass on the re-chained stream: passing the original one-shot iterator loses the first item -/
theorem wrapper_oneshot_counterexample :
    wrapperInput [1, 2, 3] = [1, 2, 3] ∧ wrapperInputStale [1, 2, 3] = [2, 3] := wrapper_oneshot_counterexample'

/-! ### independent steps commute (justifies the sleep-set reduction of the schedule enumeration) -/

/-- two steps related by `indep` that are both possible in a state can be taken in either order: each stays possible
after the other and both orders reach the same state -/
theorem step_comm (c : Cfg) (s : State) (a b : Action) (hi : indep a b = true)
    (ha : enabled c s a = true) (hb : enabled c s b = true) :
    enabled c (step c s a) b = true ∧ enabled c (step c s b) a = true ∧ step c (step c s a) b = step c (step c s b) a :=
  step_comm' c s a b hi ha hb

/-- hence schedules that differ only by swapping adjacent independent steps reach the same state (same outcome): it is
enough to enumerate one representative per equivalence class -/
theorem swap_adjacent (c : Cfg) (s : State) (a b : Action) (rest : List Action) (hi : indep a b = true)
    (ha : enabled c s a = true) (hb : enabled c s b = true) :
    runTrace c s (a :: b :: rest) = runTrace c s (b :: a :: rest) := swap_adjacent' c s a b rest hi ha hb

/-- a concrete instance: a worker's put and the loader's put are independent and both enabled; a worker's put and the
caller's get (both on the out-queue) are not related by `indep` -/
example : indep (.wPut 0) .loadPut = true ∧ enabled commCfg commState (.wPut 0) = true ∧ enabled commCfg commState .loadPut = true
      ∧ indep (.wPut 0) .cGet = false := step_comm_example'

/-! ### the hypotheses are satisfiable: complete schedules observed on the real code
(logged by the harness from `Multiprocessor.filter` under the controlled scheduler) -/

/-- fewer items than processes (n = 3, one item) -/
def exFew : Cfg := { n := 3, m := 0, items := [{ id := 0, outs := [7], err := none }] }
def exFewTrace : List Action := [.wBegin 0, .mEvent, .wBegin 2, .loadTake, .wBegin 1, .loadPut, .wGet 0, .wPut 0, .cGet, .loadFinish, .loadTake, .loadPut, .loadTake, .wGet 1, .wCallback 1, .loadPut, .loadTake, .wGet 2, .loadPut, .wCallback 2, .wGet 0, .wCallback 0, .cGet, .mDone]
example : (runTrace exFew (init exFew) exFewTrace).map outcome = some (.ok [7]) := by decide

/-- item count an exact multiple of maxtasksperchild (n = 2, m = 2, four items) -/
def exMult : Cfg := { n := 2, m := 2, items := [{ id := 0, outs := [1], err := none }, { id := 1, outs := [2], err := none }, { id := 2, outs := [3, 3], err := none }, { id := 3, outs := [4], err := none }] }
def exMultTrace : List Action := [.wBegin 0, .mEvent, .wBegin 1, .loadTake, .loadPut, .loadTake, .wGet 0, .wPut 0, .cGet, .loadPut, .loadTake, .wGet 0, .wPut 0, .wRetire 0, .cGet, .wCallback 0, .loadPut, .loadTake, .loadPut, .wGet 1, .wPut 1, .loadFinish, .loadTake, .cGet, .wBegin 0, .wGet 0, .wPut 0, .cGet, .loadPut, .loadTake, .wPut 1, .loadPut, .wGet 1, .wCallback 1, .wGet 0, .wCallback 0, .cGet, .cGet, .mDone]
example : (runTrace exMult (init exMult) exMultTrace).map outcome = some (.ok [1, 2, 3, 4, 3]) := by decide

/-- m = 1: every item is handled by a fresh process -/
def exOne : Cfg := { n := 1, m := 1, items := [{ id := 0, outs := [1], err := none }, { id := 1, outs := [2], err := none }] }
def exOneTrace : List Action := [.wBegin 0, .mEvent, .loadTake, .loadPut, .loadTake, .wGet 0, .loadPut, .wPut 0, .wRetire 0, .loadFinish, .loadTake, .loadPut, .cGet, .wCallback 0, .wBegin 0, .wGet 0, .wPut 0, .wRetire 0, .wCallback 0, .cGet, .wBegin 0, .wGet 0, .wCallback 0, .cGet, .mDone]
example : (runTrace exOne (init exOne) exOneTrace).map outcome = some (.ok [1, 2]) := by decide

/-- an item raises: the call raises that error (after delivering what was produced) -/
def exErr : Cfg := { n := 2, m := 1, items := [{ id := 0, outs := [1], err := some 0 }, { id := 1, outs := [2], err := none }, { id := 2, outs := [3], err := none }] }
def exErrTrace : List Action := [.wBegin 0, .mEvent, .wBegin 1, .loadTake, .loadPut, .loadTake, .wGet 0, .wPut 0, .wRaise 0, .loadPut, .loadTake, .wGet 1, .loadPut, .cGet, .loadFinish, .loadTake, .wPut 1, .wRetire 1, .wCallback 1, .wCallback 0, .wBegin 1, .wGet 1, .loadPut, .loadTake, .cGet, .wPut 1, .wRetire 1, .loadPut, .wCallback 1, .cGet, .cGet, .drainIn, .drainIn, .mDone]
example : (runTrace exErr (init exErr) exErrTrace).map outcome = some (.raised 0 [1, 2, 3]) := by decide

/-- the caller abandons after the first output -/
def exAb : Cfg := { n := 2, m := 0, items := [{ id := 0, outs := [1], err := none }, { id := 1, outs := [2], err := none }, { id := 2, outs := [3], err := none }] }
def exAbTrace : List Action := [.wBegin 0, .mEvent, .wBegin 1, .loadTake, .loadPut, .loadTake, .wGet 0, .wPut 0, .cGet, .cAbandon, .mDone]
example : (runTrace exAb (init exAb) exAbTrace).map outcome = some (.closed [1]) := by decide

end Coba.C08
