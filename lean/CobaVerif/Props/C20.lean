/-
C20 — Feature interaction encoding equals the mathematical polynomial expansion.
Property theorems only (helper lemmas live in `Lemmas/C20.lean`).

`encode Cfg.fixed` is the model of `InteractionsEncoder(...).encode(...)` with the three proposed
repairs (fixes/C20-*.diff); `encode Cfg.current` mirrors the unchanged tree and is the subject of
the `_counterexample` theorems.  `mul`/`one` are arbitrary: `*`/`1` for values, `++`/`""` for names.
-/
import CobaVerif.Lemmas.C20
import CobaVerif.Generated.C20Callers
import CobaVerif.Generated.C20LinAlg

namespace Coba.C20

deriving instance DecidableEq for Except

/-! ### The combinations: each unordered combination of features once -/

/-- `multichoose k xs` (the order of `itertools.combinations_with_replacement`) lists only
size-`k` combinations of members of `xs` … -/
theorem combos_sound {α : Type} (k : Nat) (xs c : List α) (h : c ∈ multichoose k xs) :
    c.length = k ∧ ∀ a ∈ c, a ∈ xs := multichoose_sound k xs c h

/-- … every multiset of `k` members of `xs` is listed … -/
theorem combos_complete {α : Type} [DecidableEq α] (xs : List α) (k : Nat) (m : Multiset α)
    (hk : Multiset.card m = k) (hm : ∀ a ∈ m, a ∈ xs) :
    ∃ c ∈ multichoose k xs, Multiset.ofList c = m := multichoose_complete xs k m hk hm

/-- … and, for distinct features, no unordered combination is listed twice. -/
theorem combos_once {α : Type} (k : Nat) (xs : List α) (h : xs.Nodup) :
    ((multichoose k xs).map Multiset.ofList).Nodup := multichoose_nodup k xs h

/-- the number of degree-`k` monomials over `n` features is `C(n+k-1, k)`, for every `n`, `k` -/
theorem monos_count {α : Type} (mul : α → α → α) (one : α) (k : Nat) (xs : List α) :
    (monos mul one k xs).length = Nat.choose (xs.length + k - 1) k := monos_length' mul one k xs

/-- a monomial's value is the product of its features -/
theorem mono_value (c : List Rat) : monoProd ratMul 1 c = c.prod := monoProd_eq_prod c

/-! ### `_pows` -/

/-- [core] with the corrected `starts` recurrence, `_pows(values, degree)[k]` is exactly the list
of degree-`k` monomials in `combinations_with_replacement` order — every length, every degree -/
theorem pows_eq_monos {α : Type} (mul : α → α → α) (one : α) (xs : List α) (hne : xs ≠ [])
    (d k : Nat) (hk : k ≤ d) :
    (pows true mul one xs d)[k]? = some (monos mul one k xs) := pows_getElem? mul one xs hne d k hk

theorem pows_all {α : Type} (mul : α → α → α) (one : α) (xs : List α) (hne : xs ≠ []) (d : Nat) :
    pows true mul one xs d = (List.range (d + 1)).map (fun k => monos mul one k xs) :=
  pows_eq mul one xs hne d

example : ([2, 3, 5] : List Int) ≠ [] ∧ 4 ≤ 4 := by decide

/-- `_pows` of no values is `[]` (both recurrences) -/
theorem pows_nil {α : Type} (b : Bool) (mul : α → α → α) (one : α) (d : Nat) :
    pows b mul one [] d = [] := rfl

def imul (a b : Int) : Int := a * b

/-- the CURRENT recurrence `accumulate(starts[:1]+starts[-1:]+starts[1:-1])` is wrong from
three features at degree four on … -/
theorem pows_counterexample :
    (pows false imul 1 [2, 3, 5] 4)[4]? ≠ some (monos imul 1 4 [2, 3, 5]) := by decide

/-- … it yields 14 of the 15 monomials (`5^4` is missing) … -/
theorem pows_counterexample_count :
    ((pows false imul 1 [2, 3, 5] 4)[4]?).map List.length = some 14
      ∧ (monos imul 1 4 [2, 3, 5]).length = 15 := by decide

/-- … and from four features at degree three on (21 entries, `3·5·7` twice). -/
theorem pows_counterexample_n4_d3 :
    (pows false imul 1 [2, 3, 5, 7] 3)[3]? ≠ some (monos imul 1 3 [2, 3, 5, 7])
      ∧ ((pows false imul 1 [2, 3, 5, 7] 3)[3]?).map List.length = some 21 := by decide

/-! ### `_cross` -/

/-- [core] a term's entries are the full outer product (left factor major) of the monomials of
its namespaces, provided the powers were computed to a sufficient degree; a term naming an empty
namespace contributes nothing -/
theorem cross_eq_outer {α : Type} (mul : α → α → α) (one : α) (F : Char → List α) (M : Char → Nat)
    (cp : List (Char × Nat)) (hne : cp ≠ []) (h : ∀ kp ∈ cp, 1 ≤ kp.2 ∧ kp.2 ≤ M kp.1) :
    cross mul (fun c => pows true mul one (F c) (M c)) cp
      = .ok (outerAll mul (cp.map (fun kp => monos mul one kp.2 (F kp.1)))) :=
  cross_eq mul one F M cp hne h

example : ([('x', 2), ('a', 1)] : List (Char × Nat)) ≠ [] ∧
    ∀ kp ∈ ([('x', 2), ('a', 1)] : List (Char × Nat)), 1 ≤ kp.2 ∧ kp.2 ≤ (fun _ => 2) kp.1 := by decide

/-- `Counter(term)` reads a term as namespace factors with multiplicity, in order of first
occurrence (`xax` is `x²·a`) -/
theorem counter_factors (t : List Char) :
    counter t = (dedupFirst t).map (fun c => (c, t.count c)) := counter_eq_factors t

/-! ### `encode` -/

/-- [core] for every list of interaction terms (each naming at least one namespace) and numeric
constants, and every assignment of dense vectors, sparse mappings, scalars, strings, `None`,
`[]` or nothing to the namespaces, `encode` succeeds and returns exactly `encodeS`: the constant
first, then per distinct term in the order given the outer product of the monomials — a vector
for dense inputs, a mapping from concatenated feature names to products otherwise -/
theorem encode_eq_spec (is : List Inter) (kw : List (Char × NsVal))
    (hne : ∀ t ∈ strTerms is, t ≠ []) : encode Cfg.fixed is kw = .ok (encodeS is kw) :=
  encode_eq_spec' is kw hne

example : ∀ t ∈ strTerms [.num 1, .term ['x', 'x', 'a'], .term ['a']], t ≠ [] := by decide

/-- one encoder object used for any sequence of calls (any mixture of dense, sparse and string
arguments, repeated or changed between calls): every call returns the specification of its own
arguments, independently of the calls before it -/
theorem encode_history_eq_spec (is : List Inter) (calls : List (List (Char × NsVal)))
    (hne : ∀ t ∈ strTerms is, t ≠ []) :
    encodeHistory Cfg.fixed is calls = calls.map (fun kw => .ok (encodeS is kw)) :=
  encode_history_eq_spec' is calls hne

/-- the error branch: a term that names no namespace (`''`) makes `encode` raise IndexError -/
theorem encode_empty_term_error (is : List Inter) (kw : List (Char × NsVal))
    (h : [] ∈ strTerms is) : encode Cfg.fixed is kw = .error .indexError :=
  encode_empty_term_error' is kw h

/-- dense inputs, distinct terms: the vector spelled out -/
theorem encode_dense_eq_spec (is : List Inter) (kw : List (Char × NsVal))
    (hne : ∀ t ∈ strTerms is, t ≠ []) (hnd : (strTerms is).Nodup) (hd : isSparseCall kw = false) :
    encode Cfg.fixed is kw
      = .ok (.dense ((if constant is ≠ 0 then [constant is] else [])
          ++ (strTerms is).flatMap (termS ratMul 1 (featsDense kw)))) :=
  encode_dense_eq_spec' is kw hne hnd hd

/-- sparse / string-valued inputs: the mapping is `dict` of the (name, value) monomials … -/
theorem encode_sparse_eq_spec (is : List Inter) (kw : List (Char × NsVal))
    (hne : ∀ t ∈ strTerms is, t ≠ []) (hs : isSparseCall kw = true) :
    encode Cfg.fixed is kw
      = .ok (.sparse (
          let enc := dictOf (termsS pairMul pairOne (featsSparse kw) (dedupFirst (strTerms is)))
          if constant is ≠ 0 then dictSet "const" (constant is) enc else enc)) :=
  encode_sparse_eq_spec' is kw hne hs

/-- … whose keys are the concatenated names of the participating features … -/
theorem encode_sparse_keys (F : Char → List (String × Rat)) (ts : List (List Char)) :
    (termsS pairMul pairOne F ts).map (·.1) = termsS strMul "" (fun c => (F c).map (·.1)) ts :=
  termsS_map pairMul pairOne strMul "" (·.1) (fun _ _ => rfl) rfl F ts

/-- … and whose values are the corresponding products of the feature values; -/
theorem encode_sparse_vals (F : Char → List (String × Rat)) (ts : List (List Char)) :
    (termsS pairMul pairOne F ts).map (·.2) = termsS ratMul 1 (fun c => (F c).map (·.2)) ts :=
  termsS_map pairMul pairOne ratMul 1 (·.2) (fun _ _ => rfl) rfl F ts

/-- when the names are distinct nothing is merged by `dict` -/
theorem dict_distinct_keys (l : List (String × Rat)) (h : (l.map (·.1)).Nodup) : dictOf l = l :=
  dictOf_of_nodup_keys l h

/-- dense and sparse presentations of the same feature values give the same numbers: the dense
vector is the list of values of the sparse entries (before equal names are merged) -/
theorem dense_sparse_agree (is : List Inter) (kwd kws : List (Char × NsVal))
    (hne : ∀ t ∈ strTerms is, t ≠ [])
    (hd : isSparseCall kwd = false) (hs : isSparseCall kws = true)
    (hsame : ∀ c, featsDense kwd c = (featsSparse kws c).map (·.2)) :
    ∃ entries : List (String × Rat),
      encode Cfg.fixed is kws
        = .ok (.sparse (if constant is ≠ 0 then dictSet "const" (constant is) (dictOf entries) else dictOf entries)) ∧
      encode Cfg.fixed is kwd
        = .ok (.dense (if constant is ≠ 0 then constant is :: entries.map (·.2) else entries.map (·.2))) :=
  dense_sparse_agree' is kwd kws hne hd hs hsame

/-- the hypotheses are met by `x=[2,3]` versus `x={'p':2,'q':3}` -/
example : isSparseCall [('x', NsVal.dense [.num 2, .num 3])] = false
    ∧ isSparseCall [('x', NsVal.sparse [(.str "p", .num 2), (.str "q", .num 3)])] = true
    ∧ ∀ c, featsDense [('x', .dense [.num 2, .num 3])] c
        = (featsSparse [('x', .sparse [(.str "p", .num 2), (.str "q", .num 3)])] c).map (·.2) := by
  refine ⟨by decide, by decide, ?_⟩
  intro c
  by_cases h : 'x' = c
  · subst h; decide +kernel
  · simp [featsDense, featsSparse, nsVal, dictGet, h, denseVals, sparseFeats_none]

/-- a worked instance of the whole pipeline: `InteractionsEncoder([1,'xxa','a']).encode(x=[2,3], a={'k':'v', 3:7})` -/
example : encode Cfg.fixed [.num 1, .term ['x', 'x', 'a'], .term ['a']]
    [('x', .dense [.num 2, .num 3]), ('a', .sparse [(.str "k", .str "v"), (.int 3, .num 7)])]
    = .ok (.sparse [("x0x0akv", 4), ("x0x0a3", 28), ("x0x1akv", 6), ("x0x1a3", 42), ("x1x1akv", 9),
        ("x1x1a3", 63), ("akv", 1), ("a3", 7), ("const", 1)]) := by decide +kernel

/-- scalar, empty, `None` and absent namespaces: the result depends on the keyword arguments
only through the features of each namespace … -/
theorem encode_depends_on_features (is : List Inter) (kw kw' : List (Char × NsVal))
    (hs : isSparseCall kw = isSparseCall kw')
    (hd : ∀ c, featsDense kw c = featsDense kw' c)
    (hf : ∀ c, featsSparse kw c = featsSparse kw' c) : encodeS is kw = encodeS is kw' :=
  encodeS_congr is kw kw' hs hd hf

/-- … and a scalar has the features of the one-element vector, `None` / absent those of `[]` -/
theorem scalar_none_empty (c : Char) (it : Item) (kw : List (Char × NsVal)) :
    denseVals (.scalar it) = denseVals (.dense [it])
    ∧ sparseFeats c (.scalar it) = sparseFeats c (.dense [it])
    ∧ denseVals .none = denseVals (.dense []) ∧ sparseFeats c .none = sparseFeats c (.dense [])
    ∧ (dictGet c kw = none → featsDense kw c = [] ∧ featsSparse kw c = []) :=
  scalar_none_empty' c it kw

/-! ### The unchanged tree (recorded findings; each witness is replayed on the real code) -/

/-- C20-F1 at the `encode` level: `InteractionsEncoder(['xxxx']).encode(x=[2,3,5])` has 14 entries -/
theorem encode_pows_counterexample :
    encode Cfg.current [.term ['x', 'x', 'x', 'x']] [('x', .dense [.num 2, .num 3, .num 5])]
      ≠ .ok (encodeS [.term ['x', 'x', 'x', 'x']] [('x', .dense [.num 2, .num 3, .num 5])]) := by
  decide +kernel

/-- C20-F2: `InteractionsEncoder([1,1,'x','a']).encode(x=[2],a=[3])` loses the `x` term, because
`_cross_pows` is keyed by the leading entries of `interactions` (here `1` twice) -/
theorem crosspows_zip_counterexample :
    encode Cfg.current [.num 1, .num 1, .term ['x'], .term ['a']]
        [('x', .dense [.num 2]), ('a', .dense [.num 3])] = .ok (.dense [2, 3])
    ∧ encodeS [.num 1, .num 1, .term ['x'], .term ['a']]
        [('x', .dense [.num 2]), ('a', .dense [.num 3])] = .dense [2, 2, 3] := by decide +kernel

/-- C20-F3: `InteractionsEncoder(['xa']).encode(x=[2])` raises KeyError for the absent namespace -/
theorem absent_namespace_counterexample :
    encode Cfg.current [.term ['x', 'a']] [('x', .dense [.num 2])] = .error .keyError
    ∧ encodeS [.term ['x', 'a']] [('x', .dense [.num 2])] = .dense [] := by decide +kernel

/-! ### Phase 2: length, distinct names, callers, floating point -/

/-- the dense vector has `(1 if the constant is non-zero) + Σ_terms Π_namespaces C(n+p-1, p)` entries -/
theorem encode_length_spec (is : List Inter) (kw : List (Char × NsVal))
    (hne : ∀ t ∈ strTerms is, t ≠ []) (hd : isSparseCall kw = false) :
    ∃ vs, encode Cfg.fixed is kw = .ok (.dense vs) ∧ vs.length = encodeLen is kw :=
  encode_length_spec' is kw hne hd

/-- `chooseNat` (import-free, used by `encodeLen`) is the binomial coefficient -/
theorem encode_length_choose (n k : Nat) : chooseNat n k = Nat.choose n k := chooseNat_eq n k

/- theorem encode_sparse_faithful_full: "the mapping contains every (name, product) monomial" is FALSE
   without a hypothesis: names are built by plain concatenation, which is not injective (recorded
   findings C20-F4/C20-F5, `sparse_key_collision_counterexample`, `feature_name_collision_counterexample`). -/

/-- [partial: needs distinct names] when the concatenated names of the monomials (and `const`) are
pairwise distinct, the mapping is exactly the list of (name, product) monomials: every participating
combination is identified by its key and carries its product -/
theorem encode_sparse_faithful_partial (is : List Inter) (kw : List (Char × NsVal))
    (hne : ∀ t ∈ strTerms is, t ≠ []) (hs : isSparseCall kw = true)
    (hk : ((termsS pairMul pairOne (featsSparse kw) (dedupFirst (strTerms is))).map (·.1)
            ++ (if constant is ≠ 0 then ["const"] else [])).Nodup) :
    encode Cfg.fixed is kw = .ok (.sparse (termsS pairMul pairOne (featsSparse kw) (dedupFirst (strTerms is))
            ++ (if constant is ≠ 0 then [("const", constant is)] else []))) :=
  encode_sparse_faithful_partial' is kw hne hs hk

example : ((termsS pairMul pairOne (featsSparse [('x', .sparse [(.str "p", .num 2), (.str "q", .num 3)])])
    (dedupFirst (strTerms [.term ['x'], .term ['x', 'x']]))).map (fun p : String × Rat => p.1) ++ []).Nodup := by decide +kernel

/-- the hypothesis is necessary (C20-F4): `InteractionsEncoder(['x','xx']).encode(x={'1':2,'1x1':3})` has five
monomials but four keys — `x1x1` is both the feature `1x1` (value 3) and the square of `1` (value 4) -/
theorem sparse_key_collision_counterexample :
    encode Cfg.fixed [.term ['x'], .term ['x', 'x']] [('x', .sparse [(.str "1", .num 2), (.str "1x1", .num 3)])]
      = .ok (.sparse [("x1", 2), ("x1x1", 4), ("x1x1x1", 6), ("x1x1x1x1", 9)])
    ∧ (termsS pairMul pairOne (featsSparse [('x', .sparse [(.str "1", .num 2), (.str "1x1", .num 3)])])
        [['x'], ['x', 'x']]).length = 5 := by decide +kernel

/-- when the prefixed names of a namespace's features are distinct none of them is merged -/
theorem sparse_feats_distinct (c : Char) (v : NsVal) (h : (rawNames c v).Nodup) :
    sparseFeats c v = (makeDict v).map (fun kv => (String.singleton c ++ (handleEntry kv).1.fmt, (handleEntry kv).2)) :=
  sparseFeats_of_distinct c v h

/-- … and that hypothesis is necessary too (C20-F5): `encode(x={1:2,'1':3})` keeps one feature `x1` of two -/
theorem feature_name_collision_counterexample :
    encode Cfg.fixed [.term ['x']] [('x', .sparse [(.int 1, .num 2), (.str "1", .num 3)])]
      = .ok (.sparse [("x1", 3)]) := by decide +kernel

/-- translator obligation: the default term lists found in linucb.py, lints.py, synthetics.py and
offline.py (re-extracted on every run), as given and as rewritten for an empty context / no context or
action features, name only `x`/`a` and contain no empty term — the hypotheses of `encode_eq_spec` -/
theorem callers_wellformed :
    wellformedTerms (learnerTerms true Coba.Generated.C20.linucbFeatures) = true
    ∧ wellformedTerms (learnerTerms false Coba.Generated.C20.linucbFeatures) = true
    ∧ wellformedTerms (learnerTerms true Coba.Generated.C20.lintsFeatures) = true
    ∧ wellformedTerms (learnerTerms false Coba.Generated.C20.lintsFeatures) = true
    ∧ wellformedTerms (syntheticTerms 1 1 Coba.Generated.C20.syntheticFeatures) = true
    ∧ wellformedTerms (syntheticTerms 0 1 Coba.Generated.C20.syntheticFeatures) = true
    ∧ wellformedTerms (syntheticTerms 1 0 Coba.Generated.C20.syntheticFeatures) = true
    ∧ wellformedTerms Coba.Generated.C20.offlineFeatures = true := by decide +kernel

/-- for EVERY `features` argument the term list the learners build for an empty context has no empty term -/
theorem learner_terms_nonempty (fs : List Inter) : ∀ t ∈ strTerms (learnerTerms false fs), t ≠ [] :=
  learner_terms_nonempty' fs

/-- for EVERY `reward_features` argument and feature counts the synthetic simulation's term list has no empty term -/
theorem synthetic_terms_nonempty (nCtx nAct : Nat) (fs : List (List Char)) :
    ∀ t ∈ strTerms (syntheticTerms nCtx nAct fs), t ≠ [] := synthetic_terms_nonempty' nCtx nAct fs

/-- hence those calls always return the specification, whatever context / action is passed -/
theorem learner_encode_eq_spec (fs : List Inter) (kw : List (Char × NsVal)) :
    encode Cfg.fixed (learnerTerms false fs) kw = .ok (encodeS (learnerTerms false fs) kw) :=
  learner_encode_eq_spec' fs kw

theorem synthetic_encode_eq_spec (nCtx nAct : Nat) (fs : List (List Char)) (kw : List (Char × NsVal)) :
    encode Cfg.fixed (syntheticTerms nCtx nAct fs) kw = .ok (encodeS (syntheticTerms nCtx nAct fs) kw) :=
  synthetic_encode_eq_spec' nCtx nAct fs kw

/-- and a well-formed list (e.g. every default, by `callers_wellformed`) does so as given -/
theorem wellformed_encode_eq_spec (is : List Inter) (kw : List (Char × NsVal)) (h : wellformedTerms is = true) :
    encode Cfg.fixed is kw = .ok (encodeS is kw) := wellformed_encode_eq_spec' is kw h

/-- the encoder with ANY multiplication of values (exact or rounding) is the specification with that multiplication -/
theorem encode_any_mul_eq_spec (vmul : Rat → Rat → Rat) (is : List Inter) (kw : List (Char × NsVal))
    (hne : ∀ t ∈ strTerms is, t ≠ []) : encodeG vmul Cfg.fixed is kw = .ok (encodeSG vmul is kw) :=
  encodeG_eq_spec vmul is kw hne

/-- floating point, standard model (dense): if every multiplication returns the exact product times `1+ε`,
`|ε| ≤ u ≤ 1`, and `·1` is exact, then — for all such multiplications — every entry of the computed vector
equals the exact monomial up to `d-1` roundings, `d` = the largest term degree -/
theorem encode_float_model {u : Rat} {fmul : Rat → Rat → Rat} (hf : FloatMul u fmul) (h0 : 0 ≤ u) (h1 : u ≤ 1)
    (is : List Inter) (kw : List (Char × NsVal))
    (hne : ∀ t ∈ strTerms is, t ≠ []) (hd : isSparseCall kw = false) :
    ∃ vs vs' : List Rat,
      encodeG fmul Cfg.fixed is kw = .ok (.dense ((if constant is ≠ 0 then [constant is] else []) ++ vs)) ∧
      encode Cfg.fixed is kw = .ok (.dense ((if constant is ≠ 0 then [constant is] else []) ++ vs')) ∧
      List.Forall₂ (Approx u (maxDeg is - 1)) vs vs' :=
  encode_float_model' hf h0 h1 is kw hne hd

/-- … (sparse): the same names, and every value up to `d-1` roundings -/
theorem encode_float_model_sparse {u : Rat} {fmul : Rat → Rat → Rat} (hf : FloatMul u fmul) (h0 : 0 ≤ u) (h1 : u ≤ 1)
    (is : List Inter) (kw : List (Char × NsVal))
    (hne : ∀ t ∈ strTerms is, t ≠ []) (hs : isSparseCall kw = true) :
    ∃ kvs kvs' : List (String × Rat),
      encodeG fmul Cfg.fixed is kw = .ok (.sparse kvs) ∧ encode Cfg.fixed is kw = .ok (.sparse kvs') ∧
      List.Forall₂ (PairRel (Approx u (maxDeg is - 1))) kvs kvs' :=
  encode_float_model_sparse' hf h0 h1 is kw hne hs

/-- `m` roundings mean a relative error of at most `(1+u)^m - 1` (what the harness checks with `u = 2^-53`) -/
theorem float_model_rel_error {u : Rat} (h0 : 0 ≤ u) (h1 : u ≤ 1) {m : Nat} {x y : Rat} (h : Approx u m x y) :
    |x - y| ≤ ((1 + u) ^ m - 1) * |y| := approx_abs h0 h1 h

/-- the hypotheses are satisfiable: exact multiplication is a `FloatMul` for every `u ≥ 0`, and `u = 2^-53` qualifies -/
example : FloatMul (1 / 2 ^ 53) ratMul ∧ (0 : Rat) ≤ 1 / 2 ^ 53 ∧ (1 : Rat) / 2 ^ 53 ≤ 1 :=
  ⟨floatMul_exact _ (by norm_num), u53_ok.1, u53_ok.2⟩

/-! ### Phase 3: exact float products, order of the term list, argument shapes -/

/-- exactly representable products are returned exactly (what correct rounding gives) ⇒ on inputs `m·2^e` with
`|m| ≤ M`, `|e| ≤ E`, `M^d ≤ 2^53`, `d·E ≤ 970` (d = largest term degree) the float encoder IS the exact encoder:
no rounding at all, dense and sparse — this replaces the assumed `FloatMul` law on the dyadic value pools -/
theorem encode_float_exact_dyadic {fmul : Rat → Rat → Rat} (hf : ExactOn fmul) (M E : Nat) (hM : 1 ≤ M)
    (is : List Inter) (kw : List (Char × NsVal)) (hne : ∀ t ∈ strTerms is, t ≠ [])
    (hb : M ^ maxDeg is ≤ 2 ^ 53) (he : maxDeg is * E ≤ 970)
    (hd : ∀ c, ∀ v ∈ featsDense kw c, Dy M E v) (hs : ∀ c, ∀ p ∈ featsSparse kw c, Dy M E p.2) :
    encodeG fmul Cfg.fixed is kw = encode Cfg.fixed is kw :=
  encode_float_exact_dyadic' hf M E hM is kw hne hb he hd hs

/-- the hypotheses are met by `x=[1.5, 2.75]` under `'xxx'` with `M = 11`, `E = 2`; exact multiplication is an `ExactOn` -/
example : ExactOn ratMul
    ∧ (∀ c, ∀ v ∈ featsDense [('x', .dense [.num (3 / 2), .num (11 / 4)])] c, Dy 11 2 v)
    ∧ (∀ c, ∀ p ∈ featsSparse [('x', .dense [.num (3 / 2), .num (11 / 4)])] c, Dy 11 2 p.2)
    ∧ 11 ^ maxDeg [.term ['x', 'x', 'x']] ≤ 2 ^ 53 ∧ maxDeg [.term ['x', 'x', 'x']] * 2 ≤ 970 :=
  ⟨exactOn_ratMul, dyadic_example⟩

/-- the general form: any multiplication that is exact on a degree-graded family of numbers containing the inputs -/
theorem encode_float_exact_graded {P : Nat → Rat → Prop} {D : Nat} {fmul : Rat → Rat → Rat} (hg : Graded P D fmul)
    (is : List Inter) (kw : List (Char × NsVal)) (hne : ∀ t ∈ strTerms is, t ≠ []) (hD : maxDeg is ≤ D)
    (hd : ∀ c, ∀ v ∈ featsDense kw c, P 1 v) (hs : ∀ c, ∀ p ∈ featsSparse kw c, P 1 p.2) :
    encodeG fmul Cfg.fixed is kw = encode Cfg.fixed is kw := encode_graded_exact hg is kw hne hD hd hs

/-- the order in which a caller lists its (distinct) terms only permutes the encoding … -/
theorem encode_terms_order_perm {α : Type} (mul : α → α → α) (one : α) (F : Char → List α) {ts ts' : List (List Char)}
    (h : ts.Perm ts') : (termsS mul one F ts).Perm (termsS mul one F ts') := termsS_perm mul one F h

/-- … so a linear consumer whose weights are attached to the features (LinUCB's `theta @ features`, weights and
features laid out by the same encoder) computes the same score for every order of the term list — the learners'
`list(set(…))` order is unobservable for such a consumer -/
theorem linear_consumer_order_invariant (w : String → Rat) (F : Char → List (String × Rat)) {ts ts' : List (List Char)}
    (h : ts.Perm ts') :
    ((termsS pairMul pairOne F ts).map (fun kv => w kv.1 * kv.2)).sum
      = ((termsS pairMul pairOne F ts').map (fun kv => w kv.1 * kv.2)).sum := named_score_order_invariant w F h

example : (['a'] :: [['a', 'x']] : List (List Char)).Perm [['a', 'x'], ['a']] := List.Perm.swap _ _ _

/-- translator obligation (shapes): with the treatments of the term argument extracted from the source, every
accepted shape of `reward_features` — a bare str (ONE term), a list, a tuple — reaches the encoder as the term list
the caller means, through `Environments.from_linear_synthetic` and through the constructor -/
theorem synthetic_entry_shapes (s : Shape) :
    normalise (Coba.Generated.C20.envNorms ++ Coba.Generated.C20.syntheticNorms) s = s.meaning
    ∧ normalise Coba.Generated.C20.syntheticNorms s = s.meaning := by cases s <;> exact ⟨rfl, rfl⟩

/-- the learners accept sequences (`features: Sequence[str]`): lists and tuples reach the encoder unchanged -/
theorem learner_entry_shapes (ts : List Inter) :
    normalise Coba.Generated.C20.linucbNorms (.list ts) = ts ∧ normalise Coba.Generated.C20.linucbNorms (.tuple ts) = ts
    ∧ normalise Coba.Generated.C20.lintsNorms (.list ts) = ts ∧ normalise Coba.Generated.C20.lintsNorms (.tuple ts) = ts :=
  ⟨rfl, rfl, rfl, rfl⟩

/-- why the obligation matters (round d): a `list(...)` before the constructor splits a bare str into characters -/
theorem shape_listof_counterexample :
    normalise [Norm.listOf, Norm.wrapStr] (.str ['x', 'a']) ≠ (Shape.str ['x', 'a']).meaning := normalise_listOf_splits

/-! ## LinUCB (coba/learners/linucb.py `learn`, `_pmf`): the order of the encoded features is unobservable -/

/-- the dot product does not depend on the common layout of its two arguments -/
theorem dotQ_perm {p : List Nat} {n : Nat} (hp : p.Perm (List.range n)) {u v : List Rat}
    (hu : u.length = n) (hv : v.length = n) : dotQ (permV p u) (permV p v) = dotQ u v := dotQ_perm' hp hu hv

/-- matrix-vector product commutes with re-laying out rows, columns and the vector -/
theorem matVecQ_perm {p : List Nat} {n : Nat} (hp : p.Perm (List.range n)) {M : List (List Rat)}
    {f : List Rat} (hM : M.length = n) (hrows : ∀ row ∈ M, row.length = n) (hf : f.length = n) :
    matVecQ (permM p M) (permV p f) = permV p (matVecQ M f) := matVecQ_perm' hp hM hrows hf

/-- the initial state is well-formed (θ has d entries, A⁻¹ is d×d) -/
theorem init_wf (d : Nat) : (LinState.init d).WF d := init_wf' d

/-- `learn` keeps the dimensions -/
theorem learn_wf {n : Nat} {s : LinState} (hs : s.WF n) {f : List Rat} (r : Rat) : (s.learn f r).WF n :=
  learn_wf' hs r

/-- a re-laid-out state has the dimensions of the layout -/
theorem perm_wf {n : Nat} {p : List Nat} (hp : p.length = n) (s : LinState) : (s.perm p).WF n := perm_wf' hp s

/-- one `learn` call commutes with the layout: learning the re-laid-out features in the re-laid-out state gives
the re-laid-out new state (θ and A⁻¹ exactly, over ℚ) -/
theorem learn_perm {n : Nat} {s : LinState} (hs : s.WF n) {f : List Rat} (hf : f.length = n)
    {p : List Nat} (hp : p.Perm (List.range n)) (r : Rat) :
    (s.perm p).learn (permV p f) r = (s.learn f r).perm p := learn_perm' hs hf hp r

/-- `_pmf`'s point estimate θ·f and confidence term fᵀA⁻¹f are layout independent -/
theorem score_perm {n : Nat} {s : LinState} (hs : s.WF n) {f : List Rat} (hf : f.length = n)
    {p : List Nat} (hp : p.Perm (List.range n)) : (s.perm p).score (permV p f) = s.score f := score_perm' hs hf hp

/-- the initial state (zeros, identity) looks the same in every layout -/
theorem init_perm {d : Nat} {p : List Nat} (hp : p.Perm (List.range d)) :
    (LinState.init d).perm p = LinState.init d := init_perm' hp

/-- MAIN: for EVERY history of `learn` / `predict` calls on a fresh learner, laying the d encoded features out in
another order `p` (what a different order of the interaction terms does, `encode_terms_order_perm`) leaves every
point estimate and every confidence bound of every prediction unchanged, and the final state is the re-laid-out
final state -/
theorem linucb_perm_equivariant (d : Nat) (p : List Nat) (events : List LinEvent)
    (hp : p.Perm (List.range d)) (hev : ∀ e ∈ events, e.WF d) :
    (linRun (LinState.init d) (events.map (LinEvent.perm p))).1 = (linRun (LinState.init d) events).1
    ∧ (linRun (LinState.init d) (events.map (LinEvent.perm p))).2
        = (linRun (LinState.init d) events).2.perm p := linucb_perm_equivariant' d p events hp hev

/-- every re-ordering of a vector is a re-layout by an index permutation `p` (the form `linucb_perm_equivariant` uses) -/
theorem perm_index_exists {l l' : List Rat} (h : l.Perm l') :
    ∃ p : List Nat, p.Perm (List.range l.length) ∧ l' = permV p l := perm_index_exists' h

/-- … in particular listing the interaction terms in another order re-lays the dense numeric encoding out by an
index permutation of its positions (`encode_terms_order_perm` in index form), so `linucb_perm_equivariant` applies -/
theorem encode_terms_order_index_perm (mul : Rat → Rat → Rat) (one : Rat) (F : Char → List Rat)
    {ts ts' : List (List Char)} (h : ts.Perm ts') :
    ∃ p : List Nat, p.Perm (List.range (termsS mul one F ts).length)
      ∧ termsS mul one F ts' = permV p (termsS mul one F ts) := encode_terms_order_index_perm' mul one F h

/-- the hypotheses of `linucb_perm_equivariant` are satisfiable: d = 3, p = [2,0,1], two learns and a predict -/
example : [2, 0, 1].Perm (List.range 3) ∧
    ∀ e ∈ [LinEvent.learn [1, 2, 3] 1, .learn [0, 1, (1 : Rat) / 2] 0, .predict [[1, 0, 0], [0, 1, 1]]], e.WF 3 :=
  linucb_example_hyps

/-- … and on that history the two runs' predictions agree by evaluation, with non-trivial values -/
example :
    (linRun (LinState.init 3) ([LinEvent.learn [1, 2, 3] 1, .learn [0, 1, (1 : Rat) / 2] 0,
        .predict [[1, 0, 0], [0, 1, 1]]].map (LinEvent.perm [2, 0, 1]))).1
      = (linRun (LinState.init 3) [LinEvent.learn [1, 2, 3] 1, .learn [0, 1, (1 : Rat) / 2] 0,
        .predict [[1, 0, 0], [0, 1, 1]]]).1
    ∧ (linRun (LinState.init 3) [LinEvent.learn [1, 2, 3] 1, .learn [0, 1, (1 : Rat) / 2] 0,
        .predict [[1, 0, 0], [0, 1, 1]]]).1 ≠ [[(0, 1), (0, 2)]] := linucb_example_values

/-! ### Phase 4: IEEE double rounding as an explicit model (`fl53`, `fmul53` in Model) — `ExactOn` proved, not assumed -/

/-- round-to-nearest-even to `prec ≥ 1` significant bits returns every number `m·2^e` with `|m| ≤ 2^prec` unchanged -/
theorem roundSig_representable (prec : Nat) (hp : 1 ≤ prec) (q : Rat) (m e : Int) (hm : |m| ≤ (2 : Int) ^ prec)
    (hq : q = (m : Rat) * (2 : Rat) ^ e) : roundSig prec q = q := roundSig_exact prec hp q m e hm hq

/-- the modelled double multiplication `fmul53 a b = fl53 (a·b)` (the function the driver op "fl53" ties to CPython's
`float.__mul__` product by product) returns every product that is itself a double exactly: `ExactOn` holds for it -/
theorem exactOn_fl53 : ExactOn fmul53 := exactOn_fmul53

/-- `encode_float_exact_dyadic` with the assumption discharged: for ALL term lists with non-empty terms and ALL keyword
arguments whose feature values are `m·2^e` with `|m| ≤ M`, `|e| ≤ E`, `M^d ≤ 2^53`, `d·E ≤ 970` (d = largest term
degree), the encoder run with modelled IEEE double multiplication IS the exact encoder, dense and sparse -/
theorem encode_float53_exact_dyadic (M E : Nat) (hM : 1 ≤ M)
    (is : List Inter) (kw : List (Char × NsVal)) (hne : ∀ t ∈ strTerms is, t ≠ [])
    (hb : M ^ maxDeg is ≤ 2 ^ 53) (he : maxDeg is * E ≤ 970)
    (hd : ∀ c, ∀ v ∈ featsDense kw c, Dy M E v) (hs : ∀ c, ∀ p ∈ featsSparse kw c, Dy M E p.2) :
    encodeG fmul53 Cfg.fixed is kw = encode Cfg.fixed is kw :=
  encode_float53_exact_dyadic' M E hM is kw hne hb he hd hs

/-- the hypotheses are met by `x=[1.5, 2.75]` under `'xxx'` with `M = 11`, `E = 2` -/
example : (∀ t ∈ strTerms [.term ['x', 'x', 'x']], t ≠ [])
    ∧ (∀ c, ∀ v ∈ featsDense [('x', .dense [.num (3 / 2), .num (11 / 4)])] c, Dy 11 2 v)
    ∧ (∀ c, ∀ p ∈ featsSparse [('x', .dense [.num (3 / 2), .num (11 / 4)])] c, Dy 11 2 p.2)
    ∧ 11 ^ maxDeg [.term ['x', 'x', 'x']] ≤ 2 ^ 53 ∧ maxDeg [.term ['x', 'x', 'x']] * 2 ≤ 970 :=
  ⟨by decide, dyadic_example⟩

/-- the rounding branch of the model is real: 0.1 (the double) times 3 is rounded to the double 0.30000000000000004,
not returned as the exact product -/
example : fmul53 (3602879701896397 / 36028797018963968) 3 = 1351079888211149 / 4503599627370496
    ∧ (3602879701896397 / 36028797018963968 : Rat) * 3 ≠ 1351079888211149 / 4503599627370496 :=
  ⟨by decide +kernel, by decide +kernel⟩

/-! ### Phase 4: exactly when the sparse mapping is faithful (`sparseMonos`, `collides` in Model) -/

/-- `dict(pairs)` has as many entries as there are pairs exactly when no two pairs share a key -/
theorem dictOf_length_eq_iff_nodup (l : List (String × Rat)) :
    (dictOf l).length = l.length ↔ (l.map (·.1)).Nodup := dictOf_length_eq_iff_nodup' l

/-- `dict(pairs)` never holds a key twice -/
theorem dictOf_keys_nodup (l : List (String × Rat)) : ((dictOf l).map (·.1)).Nodup := dictOf_keys_nodup' l

/-- `collides` says what it should: two different positions of the list of named monomials carry the same name -/
theorem collides_iff (is : List Inter) (kw : List (Char × NsVal)) :
    collides is kw = true ↔ ¬ ((sparseMonos is kw).map (·.1)).Nodup := hasDup_iff _

/-- [exact characterisation] for every term list (terms non-empty) and every sparse / string-valued call, `encode`
returns a mapping `d`, and: `d` contains every named monomial `(concatenated name, product)` of the call AND has as
many keys as there are monomials  ⇔  no two monomials (the constant entry included) share a name.  So name
collisions are the ONLY way the sparse encoding loses or merges a monomial (findings C20-F4/F5) -/
theorem sparse_faithful_iff (is : List Inter) (kw : List (Char × NsVal))
    (hne : ∀ t ∈ strTerms is, t ≠ []) (hs : isSparseCall kw = true) :
    ∃ d, encode Cfg.fixed is kw = .ok (.sparse d) ∧
      (((∀ kv ∈ sparseMonos is kw, kv ∈ d) ∧ d.length = (sparseMonos is kw).length)
        ↔ ((sparseMonos is kw).map (·.1)).Nodup) :=
  sparse_faithful_iff' is kw hne hs

/-- the same as a dichotomy on the decidable predicate `collides`: the returned mapping never holds a key twice; without
a collision it IS the list of named monomials; with a collision it has strictly fewer entries than there are monomials -/
theorem sparse_faithful_iff_collides (is : List Inter) (kw : List (Char × NsVal))
    (hne : ∀ t ∈ strTerms is, t ≠ []) (hs : isSparseCall kw = true) :
    ∃ d, encode Cfg.fixed is kw = .ok (.sparse d) ∧ (d.map (·.1)).Nodup ∧
      (collides is kw = false → d = sparseMonos is kw) ∧
      (collides is kw = true → d.length < (sparseMonos is kw).length) :=
  sparse_faithful_iff_collides' is kw hne hs

/-- non-vacuity: `InteractionsEncoder(['x','xx']).encode(x={'p':2,'q':3})` is a sparse call with non-empty terms and
five monomials without collision -/
example : (∀ t ∈ strTerms [.term ['x'], .term ['x', 'x']], t ≠ [])
    ∧ isSparseCall [('x', .sparse [(.str "p", .num 2), (.str "q", .num 3)])] = true
    ∧ collides [.term ['x'], .term ['x', 'x']] [('x', .sparse [(.str "p", .num 2), (.str "q", .num 3)])] = false
    ∧ (sparseMonos [.term ['x'], .term ['x', 'x']] [('x', .sparse [(.str "p", .num 2), (.str "q", .num 3)])]).length = 5 := by
  decide +kernel

/-- the C20-F4 witness `InteractionsEncoder(['x','xx']).encode(x={'1':2,'1x1':3})` is on the colliding side: the
names of its five monomials are not pairwise distinct (`x1x1` occurs twice), so four keys are returned -/
theorem sparse_faithful_iff_counterexample :
    collides [.term ['x'], .term ['x', 'x']] [('x', .sparse [(.str "1", .num 2), (.str "1x1", .num 3)])] = true
    ∧ (sparseMonos [.term ['x'], .term ['x', 'x']] [('x', .sparse [(.str "1", .num 2), (.str "1x1", .num 3)])]).map (·.1)
        = ["x1", "x1x1", "x1x1", "x1x1x1", "x1x1x1x1"] := by
  decide +kernel

/-- translator obligation (LinUCB): the body of `LinUCBLearner.learn`, read off the CURRENT source statement by statement
(`r = θ @ f`, `w = A⁻¹ @ f`, `v = w @ f`, the two Sherman–Morrison assignments; numpy `@`, `np.outer`, broadcasting `+ - * /`),
computes exactly the model's `LinState.learn` for every state, feature vector and reward — an edit of those lines breaks this -/
theorem linucb_learn_source (s : LinState) (f : List Rat) (r : Rat) :
    runLearn Coba.Generated.C20.linucbLearn s f r [] = some (s.learn f r) := learn_prog_sound rfl

/-- … and so does the body of `LinTSLearner.learn` (same update, `_mu_hat` / `_B_inv`, assignments in the other order) -/
theorem lints_learn_source (s : LinState) (f : List Rat) (r : Rat) :
    runLearn Coba.Generated.C20.lintsLearn s f r [] = some (s.learn f r) := learn_prog_sound rfl

/-- hence every history run with the programs read off the source ends in the model's final state
(so `linucb_perm_equivariant` is a statement about the source's update rule) -/
theorem learn_source_history (s : LinState) (es : List LinEvent) :
    linRunProg Coba.Generated.C20.linucbLearn s es = some (linRun s es).2
    ∧ linRunProg Coba.Generated.C20.lintsLearn s es = some (linRun s es).2 :=
  ⟨linRunProg_eq linucb_learn_source s es, linRunProg_eq lints_learn_source s es⟩

/-! ### Phase 4: the input shapes the property names, as instances of `encode_eq_spec` -/

/-- (i) one namespace dense, the other sparse: the call is a sparse call and the result is the MAPPING of the
specification (the dense namespace's features are named by position, see the example) -/
theorem encode_mixed_sparse_dense_eq_spec (is : List Inter) (c d : Char) (its : List Item) (kvs : List (Key × Item))
    (hne : ∀ t ∈ strTerms is, t ≠ []) :
    encode Cfg.fixed is [(c, .dense its), (d, .sparse kvs)]
      = .ok (.sparse (
          let enc := dictOf (termsS pairMul pairOne (featsSparse [(c, .dense its), (d, .sparse kvs)]) (dedupFirst (strTerms is)))
          if constant is ≠ 0 then dictSet "const" (constant is) enc else enc)) :=
  encode_mixed_sparse_dense_eq_spec' is c d its kvs hne

/-- `InteractionsEncoder(['xa']).encode(x=[2,3], a={'k':5})` -/
example : encode Cfg.fixed [.term ['x', 'a']] [('x', .dense [.num 2, .num 3]), ('a', .sparse [(.str "k", .num 5)])]
    = .ok (.sparse [("x0ak", 10), ("x1ak", 15)]) := by decide +kernel

/-- (ii) a string-valued feature `{k: s}` of namespace `c` is one-hot: it contributes the key `c ++ k ++ s` with value 1 -/
theorem encode_string_feature_onehot (c : Char) (k : Key) (s : String) :
    encode Cfg.fixed [.term [c]] [(c, .sparse [(k, .str s)])] = .ok (.sparse [(String.singleton c ++ (k.fmt ++ s), 1)]) :=
  encode_string_feature_onehot' c k s

/-- … at the level of the namespace's named features, for a mapping entry and for a bare string (key `"0"`) -/
theorem string_feature_names (c : Char) (k : Key) (s : String) :
    sparseFeats c (.sparse [(k, .str s)]) = [(String.singleton c ++ (k.fmt ++ s), 1)]
    ∧ sparseFeats c (.scalar (.str s)) = [(String.singleton c ++ ("0" ++ s), 1)] :=
  ⟨sparseFeats_string_item c k s, sparseFeats_string_scalar c s⟩

/-- `InteractionsEncoder(['a']).encode(a={'k':'v'})` and `.encode(a='red')` -/
example : encode Cfg.fixed [.term ['a']] [('a', .sparse [(.str "k", .str "v")])] = .ok (.sparse [("akv", 1)])
    ∧ encode Cfg.fixed [.term ['a']] [('a', .scalar (.str "red"))] = .ok (.sparse [("a0red", 1)]) := by decide +kernel

/-- (iii) a term with a repeated letter, `ccd` (such as `'xxa'`): the degree-2 monomials of `c` (each unordered pair
once, `monos_count`/`combos_sound`) times the features of `d`, left factor major — as a spec-level identity for every
multiplication, and for the encoder on dense inputs -/
theorem encode_repeated_letter_term (c d : Char) (h : c ≠ d) (kw : List (Char × NsVal)) (hd : isSparseCall kw = false) :
    encode Cfg.fixed [.term [c, c, d]] kw
      = .ok (.dense (outer ratMul (monos ratMul 1 2 (featsDense kw c)) (monos ratMul 1 1 (featsDense kw d)))) :=
  encode_repeated_letter_term' c d h kw hd

theorem term_repeated_letter {α : Type} (mul : α → α → α) (one : α) (F : Char → List α) (c d : Char) (h : c ≠ d) :
    termS mul one F [c, c, d] = outer mul (monos mul one 2 (F c)) (monos mul one 1 (F d)) :=
  termS_repeated_letter mul one F c d h

/-- `InteractionsEncoder(['xxa']).encode(x=[2,3], a=[5])`: x0², x0·x1, x1² (three, not four), each times a0 -/
example : 'x' ≠ 'a' ∧ isSparseCall [('x', .dense [.num 2, .num 3]), ('a', .dense [.num 5])] = false
    ∧ encode Cfg.fixed [.term ['x', 'x', 'a']] [('x', .dense [.num 2, .num 3]), ('a', .dense [.num 5])]
      = .ok (.dense [20, 30, 45]) := by decide +kernel

/-! ### Phase 4: collisions at the level of feature names -/

/-- the name of a monomial (a list of features) is the plain concatenation of its features' names, nothing else -/
theorem mono_name_concat (c : List String) :
    (monoProd strMul "" c).toList = (c.map String.toList).flatten := monoName_toList c

/-- hence two monomials carry the same name exactly when the concatenations of their feature names are the same
characters — a collision is two DIFFERENT feature lists `c ≠ c'` with this property (concatenation is not injective) -/
theorem mono_name_collision_iff (c c' : List String) :
    monoProd strMul "" c = monoProd strMul "" c' ↔ (c.map String.toList).flatten = (c'.map String.toList).flatten :=
  monoName_eq_iff c c'

/-- concatenation of blocks of one common length `L ≥ 1` is injective -/
theorem concat_equal_length_injective {α : Type} (L : Nat) (hL : 1 ≤ L) (a b : List (List α))
    (ha : ∀ x ∈ a, x.length = L) (hb : ∀ x ∈ b, x.length = L) (h : a.flatten = b.flatten) : a = b :=
  flatten_inj_of_equal_length L hL a b ha hb h

/-- [structural no-collision condition, checkable on the inputs] when the prefixed feature names of a namespace are
pairwise distinct and all have one common length `L ≥ 1`, the names of its monomials of ALL degrees `0..d` (what the
terms `x`, `xx`, `xxx`, … contribute) are pairwise distinct: no collision within or across degrees -/
theorem mono_names_distinct_of_equal_length (L : Nat) (hL : 1 ≤ L) (names : List String)
    (hnd : names.Nodup) (hlen : ∀ s ∈ names, s.length = L) (d : Nat) :
    ((List.range (d + 1)).flatMap (fun k => monos strMul "" k names)).Nodup :=
  monos_names_nodup_of_equal_length' L hL names hnd hlen d

/-- the hypotheses are met by the names `xp`, `xq` (L = 2) … -/
example : 1 ≤ 2 ∧ ["xp", "xq"].Nodup ∧ ∀ s ∈ ["xp", "xq"], s.length = 2 := by decide +kernel

/-- … and the equal-length hypothesis cannot be dropped: the distinct names `x1`, `x1x1` (C20-F4) collide across degrees 1 and 2 -/
theorem mono_names_equal_length_counterexample :
    ["x1", "x1x1"].Nodup ∧ ¬ ((List.range 3).flatMap (fun k => monos strMul "" k ["x1", "x1x1"])).Nodup := by
  decide +kernel

/-! ### Phase 4: the rounding error of the explicit double model -/

/-- rounding to `prec` significant bits moves a number by at most `2^-prec` of its size (every rational, no exponent limits) -/
theorem roundSig_relative_error (prec : Nat) (q : Rat) : |roundSig prec q - q| ≤ |q| / 2 ^ prec := roundSig_rel_err prec q

/-- the modelled double product is within relative error `2^-53` of the exact product — the `ε` clause of `FloatMul (2^-53)` -/
theorem fmul53_relative_error (a b : Rat) : |fmul53 a b - a * b| ≤ |a * b| / 2 ^ 53 := fmul53_rel_err a b

/-- `FloatMul`'s other clause (`fmul a 1 = a` for EVERY rational `a`) does not hold for a rounding multiplication:
`fmul53 (1/3) 1 ≠ 1/3`. It holds on doubles (`exactOn_fl53`); `FloatMul` as phrased is only met by multiplications
that are exact on non-representable arguments, so the float-model theorems apply to `fmul53` only with that clause
restricted to representable numbers (open) -/
theorem floatMul_fmul53_counterexample : ¬ FloatMul (1 / 2 ^ 53) fmul53 := floatMul_fmul53_fails

/-! ### Phase 5 (goal 1): the float model instantiated with the rounding multiplication `fmul53` -/

/-- the float model with `x·1 = x` demanded only on the numbers satisfying `R`: ∀ multiplications with relative error
≤ u per product that return `x·1 = x` for every `R`-number, ∀ term lists, ∀ dense calls whose feature values are
`R`-numbers: every entry is the exact monomial up to `d-1` roundings (`encode_float_model` is the case `R = True`) -/
theorem encode_float_model_on {R : Rat → Prop} {u : Rat} {fmul : Rat → Rat → Rat} (hf : FloatMulOn R u fmul)
    (h0 : 0 ≤ u) (h1 : u ≤ 1) (is : List Inter) (kw : List (Char × NsVal))
    (hne : ∀ t ∈ strTerms is, t ≠ []) (hd : isSparseCall kw = false) (hR : ∀ c, ∀ v ∈ featsDense kw c, R v) :
    ∃ vs vs' : List Rat,
      encodeG fmul Cfg.fixed is kw = .ok (.dense ((if constant is ≠ 0 then [constant is] else []) ++ vs)) ∧
      encode Cfg.fixed is kw = .ok (.dense ((if constant is ≠ 0 then [constant is] else []) ++ vs')) ∧
      List.Forall₂ (Approx u (maxDeg is - 1)) vs vs' :=
  encode_float_model_on' hf h0 h1 is kw hne hd hR

/-- the rounding multiplication satisfies the restricted law with `u = 2^-53`: `fmul53 a 1 = a` for every double `a`
(`Rep53`: integer significand of at most 53 bits, any exponent) and relative error ≤ 2^-53 for EVERY pair of rationals -/
theorem floatMulOn_fmul53 : FloatMulOn Rep53 (1 / 2 ^ 53) fmul53 := floatMulOn_fmul53'

/-- **goal 1** (dense): ∀ term lists without an empty term, ∀ dense calls whose feature values are doubles: the encoder
computed with IEEE round-to-nearest-even multiplication (`fmul53`, no exponent range) returns the constant unchanged and
every other entry equal to the exact monomial times δ, `(1-2^-53)^(d-1) ≤ δ ≤ (1+2^-53)^(d-1)`, d = largest term degree.
No hypothesis on the multiplication is left — `floatMul_fmul53_counterexample`'s gap is closed -/
theorem encode_float_fmul53 (is : List Inter) (kw : List (Char × NsVal))
    (hne : ∀ t ∈ strTerms is, t ≠ []) (hd : isSparseCall kw = false) (hR : ∀ c, ∀ v ∈ featsDense kw c, Rep53 v) :
    ∃ vs vs' : List Rat,
      encodeG fmul53 Cfg.fixed is kw = .ok (.dense ((if constant is ≠ 0 then [constant is] else []) ++ vs)) ∧
      encode Cfg.fixed is kw = .ok (.dense ((if constant is ≠ 0 then [constant is] else []) ++ vs')) ∧
      List.Forall₂ (Approx (1 / 2 ^ 53) (maxDeg is - 1)) vs vs' :=
  encode_float_model_on' floatMulOn_fmul53' u53_ok.1 u53_ok.2 is kw hne hd hR

/-- **goal 1** (sparse / string-valued calls): the same names, every value up to `d-1` roundings of `fmul53` -/
theorem encode_float_fmul53_sparse (is : List Inter) (kw : List (Char × NsVal))
    (hne : ∀ t ∈ strTerms is, t ≠ []) (hs : isSparseCall kw = true) (hR : ∀ c, ∀ p ∈ featsSparse kw c, Rep53 p.2) :
    ∃ kvs kvs' : List (String × Rat),
      encodeG fmul53 Cfg.fixed is kw = .ok (.sparse kvs) ∧ encode Cfg.fixed is kw = .ok (.sparse kvs') ∧
      List.Forall₂ (PairRel (Approx (1 / 2 ^ 53) (maxDeg is - 1))) kvs kvs' :=
  encode_float_model_on_sparse' floatMulOn_fmul53' u53_ok.1 u53_ok.2 is kw hne hs hR

/-- the unrestricted law implies the restricted one for every `R`, and the restricted one with `R = True` is the old one -/
theorem floatMulOn_generalises {u : Rat} {fmul : Rat → Rat → Rat} :
    (FloatMul u fmul → ∀ R, FloatMulOn R u fmul) ∧ (FloatMulOn (fun _ => True) u fmul → FloatMul u fmul) :=
  ⟨fun h R => floatMulOn_of_floatMul R h, floatMul_of_floatMulOn_true⟩

/-- non-vacuity: the double nearest to 0.1 is `Rep53`; the restriction is needed (`fmul53 (1/3) 1 ≠ 1/3`), and
`'xx'` on `x=[0.1]` rounds: the float encoder returns the double 0.010000000000000002, not the exact square -/
example : Rep53 (3602879701896397 / 36028797018963968) ∧ ¬ (fmul53 (1 / 3) 1 = 1 / 3) := rep53_example
example : encodeG fmul53 Cfg.fixed [.term ['x', 'x']] [('x', .dense [.num (3602879701896397 / 36028797018963968)])]
      = .ok (.dense [1441151880758559 / 144115188075855872])
    ∧ encode Cfg.fixed [.term ['x', 'x']] [('x', .dense [.num (3602879701896397 / 36028797018963968)])]
      ≠ .ok (.dense [1441151880758559 / 144115188075855872]) := by decide +kernel

/-! ### Phase 5 (goal 2): `_pmf` of both learners read off the source (`Generated/C20LinAlg.lean`) -/

/-- translator obligation (LinUCB): the body of `LinUCBLearner._pmf`, read off the CURRENT source (`θ @ F`,
`einsum('ij,ij->j', A⁻¹ @ F, F)`, `est + α·np.sqrt(bounds)`, `np.where(values == np.amax(values))[0]`, the returned
comprehension), computes for EVERY state, every list of action feature vectors, every α and every square-root function the
model's `LinState.pmf`: the uniform distribution on the maximisers of `θ·f + α·√(fᵀA⁻¹f)` — an edit of those lines breaks this -/
theorem linucb_predict_source (sq : Rat → Rat) (s : LinState) (fs : List (List Rat)) (alpha : Rat) :
    runPredict sq Coba.Generated.C20.linucbPredict Coba.Generated.C20.linucbPredictLhs Coba.Generated.C20.linucbPredictTop s fs alpha
      = some (s.pmf sq alpha fs) := predict_prog_sound rfl

/-- … and the body of `LinTSLearner._pmf` in the branch `self._v == 0` (`μ̂ @ F`, `.round(5)` on both sides of the comparison),
for every rounding function -/
theorem lints_predict_source (rnd : Rat → Rat) (s : LinState) (fs : List (List Rat)) (alpha : Rat) :
    runPredict rnd Coba.Generated.C20.lintsPredict Coba.Generated.C20.lintsPredictLhs Coba.Generated.C20.lintsPredictTop s fs alpha
      = some (s.pmfTS rnd fs) := predictTS_prog_sound rfl

/-- the one unary numpy function of each body is the one the model means (`np.sqrt` / `.round(5)`), and the bodies were read -/
theorem predict_source_functions :
    Coba.Generated.C20.linucbPredictFn = "sqrt" ∧ Coba.Generated.C20.lintsPredictFn = "round5"
    ∧ Coba.Generated.C20.predictExtracted = true := by decide

/-- hence every prediction of every history, computed with the programs read off the source, is the model's -/
theorem predict_source_history (g : Rat → Rat) (alpha : Rat) (s : LinState) (es : List LinEvent) :
    linRunPredict (fun s fs => runPredict g Coba.Generated.C20.linucbPredict Coba.Generated.C20.linucbPredictLhs
        Coba.Generated.C20.linucbPredictTop s fs alpha) s es = linRunPredict (fun s fs => some (s.pmf g alpha fs)) s es
    ∧ linRunPredict (fun s fs => runPredict g Coba.Generated.C20.lintsPredict Coba.Generated.C20.lintsPredictLhs
        Coba.Generated.C20.lintsPredictTop s fs alpha) s es = linRunPredict (fun s fs => some (s.pmfTS g fs)) s es :=
  ⟨linRunPredict_congr (fun s fs => linucb_predict_source g s fs alpha) s es,
   linRunPredict_congr (fun s fs => lints_predict_source g s fs alpha) s es⟩

/-- the selection step returns a probability distribution over the actions … -/
theorem pmf_sum_one (vals : List Rat) (h : vals ≠ []) :
    (pmfOfValues vals).sum = 1 ∧ (pmfOfValues vals).length = vals.length := ⟨pmf_sum_one' vals h, pmf_length' vals⟩

/-- … action i gets `1/#{j | vals j = vals i}` when no action has a larger value and 0 otherwise (ties share uniformly) -/
theorem pmf_entry (vals : List Rat) (i : Nat) (hi : i < vals.length) :
    (pmfOfValues vals)[i]'(by rw [pmf_length']; exact hi)
      = if ∀ w ∈ vals, w ≤ vals[i] then 1 / ((vals.countP (fun w => w = vals[i]) : Nat) : Rat) else 0 := pmf_entry' vals i hi

/-- … so the support is exactly the set of maximisers -/
theorem pmf_support_argmax (vals : List Rat) (i : Nat) (hi : i < vals.length) :
    0 < (pmfOfValues vals)[i]'(by rw [pmf_length']; exact hi) ↔ ∀ w ∈ vals, w ≤ vals[i] := pmf_entry_pos' vals i hi

/-- LinTS compares `est.round(5)` with `np.amax(est).round(5)`: for a monotone rounding and at least one action that is the
uniform distribution on the maximisers of the ROUNDED estimates -/
theorem pmfTS_eq_pmfOfValues (rnd : Rat → Rat) (hg : ∀ a b, a ≤ b → rnd a ≤ rnd b) (s : LinState)
    (fs : List (List Rat)) (h : fs ≠ []) :
    s.pmfTS rnd fs = pmfOfValues (fs.map (fun f => rnd (s.score f).1)) := pmfTS_eq_pmfOfValues' rnd hg s fs h

/-- LinUCB's whole prediction (not only the scores, `score_perm`) is independent of the layout of the encoded features -/
theorem linucb_pmf_perm {n : Nat} {s : LinState} (hs : s.WF n) {fs : List (List Rat)} (hf : ∀ f ∈ fs, f.length = n)
    {p : List Nat} (hp : p.Perm (List.range n)) (sq : Rat → Rat) (alpha : Rat) :
    (s.perm p).pmf sq alpha (fs.map (permV p)) = s.pmf sq alpha fs := pmf_perm' hs hf hp sq alpha

/-- non-vacuity / ties: three actions, two of them maximal → [1/2, 0, 1/2]; identity is a monotone rounding -/
example : pmfOfValues [3, 1, 3] = [1 / 2, 0, 1 / 2] ∧ ([3, 1, 3] : List Rat) ≠ [] := by decide +kernel
example : ∀ a b : Rat, a ≤ b → id a ≤ id b := fun _ _ h => h
example : (LinState.init 2).WF 2 ∧ [1, 0].Perm (List.range 2) :=
  ⟨init_wf 2, by decide⟩

/-! ### Phase 5 (goal 3): the equal-length no-collision condition for `outerAll` and whole calls -/

/-- [whole call, at the level of names] `F c` = the feature names of namespace `c`. If for every namespace named by a term
the names are pairwise distinct, have one common length `L ≥ 1` and start with the namespace letter, and no two terms are
the same up to regrouping of their letters (`canonTerm`: `xax ↦ xxa`), then the names of ALL monomials of ALL terms
(`outerAll` over several namespaces included) are pairwise distinct, and each name's length is a multiple of `L` -/
theorem terms_names_distinct_of_equal_length (F : Char → List String) (L : Nat) (hL : 1 ≤ L) (ts : List (List Char))
    (hF : ∀ t ∈ ts, ∀ c ∈ t, (F c).Nodup)
    (hlen : ∀ t ∈ ts, ∀ c ∈ t, ∀ s ∈ F c, s.length = L)
    (hhd : ∀ t ∈ ts, ∀ c ∈ t, ∀ s ∈ F c, hd s = some c)
    (hts : (ts.map canonTerm).Nodup) :
    (termsS strMul "" F ts).Nodup ∧ ∀ n ∈ termsS strMul "" F ts, L ∣ n.length :=
  termsS_names_nodup F L hL ts hF hlen hhd hts

/-- in the model every prefixed feature name starts with its namespace letter (so that hypothesis is free) -/
theorem feature_names_start_with_namespace (kw : List (Char × NsVal)) (c : Char) :
    ∀ p ∈ featsSparse kw c, hd p.1 = some c := featsSparse_hd kw c

/-- [whole call] for every term list and every call: all feature names of the namespaces named by the terms have one
common length `L ≥ 1`, no two terms coincide up to regrouping, and the constant is absent or `L ∤ 5` (`const` has five
characters) ⇒ no two named monomials of the call (the constant entry included) share a name -/
theorem sparse_call_no_collision (L : Nat) (hL : 1 ≤ L) (is : List Inter) (kw : List (Char × NsVal))
    (hlen : ∀ t ∈ strTerms is, ∀ c ∈ t, ∀ p ∈ featsSparse kw c, p.1.length = L)
    (hts : ((dedupFirst (strTerms is)).map canonTerm).Nodup)
    (hconst : constant is = 0 ∨ 5 % L ≠ 0) :
    ((sparseMonos is kw).map (·.1)).Nodup :=
  sparse_call_no_collision' L hL is kw hlen (fun _ _ c _ p hp => featsSparse_hd kw c p hp) hts hconst

/-- … as the decidable predicate the driver evaluates, combined with `sparse_faithful_iff_collides`: when `equalLenOK`
holds, a sparse call (terms non-empty) returns EXACTLY the list of its named monomials — nothing lost, nothing merged -/
theorem sparse_call_faithful_of_equal_length (L : Nat) (is : List Inter) (kw : List (Char × NsVal))
    (hne : ∀ t ∈ strTerms is, t ≠ []) (hs : isSparseCall kw = true) (h : equalLenOK L is kw = true) :
    collides is kw = false ∧ encode Cfg.fixed is kw = .ok (.sparse (sparseMonos is kw)) := by
  have hc := equalLenOK_no_collision' L is kw h
  obtain ⟨d, hd, _, h1, _⟩ := sparse_faithful_iff_collides' is kw hne hs
  exact ⟨hc, by rw [hd, h1 hc]⟩

/-- non-vacuity: `['x','xa','xxa']` on `x={'p':2,'q':3}, a={'k':5}` (names `xp`,`xq`,`ak`, L = 2) meets the condition -/
example : equalLenOK 2 [.term ['x'], .term ['x', 'a'], .term ['x', 'x', 'a']]
      [('x', .sparse [(.str "p", .num 2), (.str "q", .num 3)]), ('a', .sparse [(.str "k", .num 5)])] = true
    ∧ callL [.term ['x'], .term ['x', 'a'], .term ['x', 'x', 'a']]
      [('x', .sparse [(.str "p", .num 2), (.str "q", .num 3)]), ('a', .sparse [(.str "k", .num 5)])] = 2 := by decide +kernel

/-- each hypothesis is needed: (i) two terms equal up to regrouping (`xxa`, `xax`) list the same monomials twice;
(ii) with `L = 5` the feature `c`+`onst` is named like the constant entry; (equal lengths: `sparse_faithful_iff_counterexample`) -/
theorem sparse_call_no_collision_counterexample :
    collides [.term ['x', 'x', 'a'], .term ['x', 'a', 'x']]
      [('x', .sparse [(.str "p", .num 2)]), ('a', .sparse [(.str "k", .num 5)])] = true
    ∧ collides [.num 1, .term ['c']] [('c', .sparse [(.str "onst", .num 2)])] = true := by decide +kernel

/-! ## Phase 6: ownership histories (the caller edits what it shares with the encoder) -/

/-- for EVERY history of caller steps around one encoder — `encode` calls interleaved, in any order and number, with
in-place edits of the term list the caller passed to the constructor and with overwriting of results it was handed —
the k-th `encode` call returns the specification of the terms the encoder was CONSTRUCTED with and of its own
arguments; and the encoder's own term lists are, at the end, still the constructor's -/
theorem own_history_eq_spec (is : List Inter) (ops : List OwnOp) (hne : ∀ t ∈ strTerms is, t ≠ []) :
    (ownRun OwnCfg.code Cfg.fixed is ops).1 = (ownCalls ops).map (fun kw => .ok (encodeS is kw))
    ∧ (ownRun OwnCfg.code Cfg.fixed is ops).2.encTerms = is :=
  own_history_eq_spec' is ops hne

/-- … for every configuration of the three repairs and from every state: the returned values are the call-by-call
values for the encoder's own terms, which no step changes -/
theorem own_history_callwise (cfg : Cfg) (ops : List OwnOp) (s : OwnState) :
    (ownRunFrom OwnCfg.code cfg s ops).1 = (ownCalls ops).map (encode cfg s.encTerms)
    ∧ (ownRunFrom OwnCfg.code cfg s ops).2.encTerms = s.encTerms :=
  ownRunFrom_code' cfg ops s

/-- the caller ends up holding exactly one result per `encode` call (edits never add or drop one) -/
theorem own_results_length (oc : OwnCfg) (cfg : Cfg) (ops : List OwnOp) (s : OwnState) :
    (ownRunFrom oc cfg s ops).2.results.length = s.results.length + (ownCalls ops).length :=
  own_results_length' oc cfg ops s

/-- non-vacuity: a history with both kinds of edits between two calls -/
example : (ownRun OwnCfg.code Cfg.fixed [.num 1, .term ['x', 'a']]
      [.encode [('x', .dense [.num 2, .num 3]), ('a', .dense [.num 5])], .editResult 0 (.dense []), .editTerms [],
       .encode [('x', .dense [.num 2]), ('a', .scalar (.num 7))]]).1
    = [.ok (.dense [1, 10, 15]), .ok (.dense [1, 14])] := by decide +kernel

/-- the copy made by the constructor is needed: an encoder that KEEPS the caller's list (`copyTerms := false`) returns,
after the caller appended `'xx'` to its list, the expansion of the edited list (`[2,4]`) — the code's constructor copies
(`[2]`). The witness is a corpus case replayed on the real code. -/
theorem own_keep_terms_counterexample :
    (ownRun ⟨false⟩ Cfg.fixed [.term ['x']]
        [.editTerms [.term ['x'], .term ['x', 'x']], .encode [('x', .dense [.num 2])]]).1
      = [.ok (.dense [2, 4])]
    ∧ (ownRun OwnCfg.code Cfg.fixed [.term ['x']]
        [.editTerms [.term ['x'], .term ['x', 'x']], .encode [('x', .dense [.num 2])]]).1
      = [.ok (.dense [2])] :=
  own_keep_terms_counterexample'

/-- translator obligation (phase 6): what `pre_build` reads off the CURRENT `coba/encodings.py` — the constructor uses its
term-list parameter only as the iterable of comprehensions / copying calls (never stores it), and `encode` returns a newly
built list / dict that it does not keep — is the ownership configuration the model runs (`OwnCfg.code`, fresh result slots in
`OwnState.step`). An encoder that keeps the caller's list, or memoises the object it hands out, breaks this. -/
theorem own_source :
    OwnCfg.code = ⟨Coba.Generated.C20.initCopiesTerms⟩ ∧ Coba.Generated.C20.encodeReturnsFresh = true
    ∧ Coba.Generated.C20.ownershipExtracted = true :=
  ⟨rfl, rfl, rfl⟩

/-- … hence the history theorem holds for the configuration read off the source -/
theorem own_source_history (is : List Inter) (ops : List OwnOp) (hne : ∀ t ∈ strTerms is, t ≠ []) :
    (ownRun ⟨Coba.Generated.C20.initCopiesTerms⟩ Cfg.fixed is ops).1 = (ownCalls ops).map (fun kw => .ok (encodeS is kw)) :=
  (own_history_eq_spec' is ops hne).1

end Coba.C20
