/-
C20 — Feature interaction encoding equals the mathematical polynomial expansion.
Property theorems only (helper lemmas live in `Lemmas/C20.lean`).

`encode Cfg.fixed` is the model of `InteractionsEncoder(...).encode(...)` with the three proposed
repairs (fixes/C20-*.diff); `encode Cfg.current` mirrors the unchanged tree and is the subject of
the `_counterexample` theorems.  `mul`/`one` are arbitrary: `*`/`1` for values, `++`/`""` for names.
-/
import CobaVerif.Lemmas.C20
import CobaVerif.Generated.C20Callers

namespace Coba.C20

deriving instance DecidableEq for Except

/-! ### The combinations: each unordered combination of features once -/

/-- `multichoose k xs` (the order of `itertools.combinations_with_replacement`) lists only
size-`k` combinations of members of `xs` … -/
theorem combos_sound {α : Type} (k : Nat) (xs c : List α) (h : c ∈ multichoose k xs) :
    c.length = k ∧ ∀ a ∈ c, a ∈ xs := multichoose_sound k xs c h

/-- … every multiset of `k` members of `xs` is listed … -/
theorem combos_complete {α : Type} [DecidableEq α] (xs : List α) (k : Nat) (m : Multiset α)
    (hk : Multiset.card m = k) (hm : ∀ a ∈ m, a ∈ xs) :
    ∃ c ∈ multichoose k xs, Multiset.ofList c = m := multichoose_complete xs k m hk hm

/-- … and, for distinct features, no unordered combination is listed twice. -/
theorem combos_once {α : Type} (k : Nat) (xs : List α) (h : xs.Nodup) :
    ((multichoose k xs).map Multiset.ofList).Nodup := multichoose_nodup k xs h

/-- the number of degree-`k` monomials over `n` features is `C(n+k-1, k)`, for every `n`, `k` -/
theorem monos_count {α : Type} (mul : α → α → α) (one : α) (k : Nat) (xs : List α) :
    (monos mul one k xs).length = Nat.choose (xs.length + k - 1) k := monos_length' mul one k xs

/-- a monomial's value is the product of its features -/
theorem mono_value (c : List Rat) : monoProd ratMul 1 c = c.prod := monoProd_eq_prod c

/-! ### `_pows` -/

/-- [core] with the corrected `starts` recurrence, `_pows(values, degree)[k]` is exactly the list
of degree-`k` monomials in `combinations_with_replacement` order — every length, every degree -/
theorem pows_eq_monos {α : Type} (mul : α → α → α) (one : α) (xs : List α) (hne : xs ≠ [])
    (d k : Nat) (hk : k ≤ d) :
    (pows true mul one xs d)[k]? = some (monos mul one k xs) := pows_getElem? mul one xs hne d k hk

theorem pows_all {α : Type} (mul : α → α → α) (one : α) (xs : List α) (hne : xs ≠ []) (d : Nat) :
    pows true mul one xs d = (List.range (d + 1)).map (fun k => monos mul one k xs) :=
  pows_eq mul one xs hne d

example : ([2, 3, 5] : List Int) ≠ [] ∧ 4 ≤ 4 := by decide

/-- `_pows` of no values is `[]` (both recurrences) -/
theorem pows_nil {α : Type} (b : Bool) (mul : α → α → α) (one : α) (d : Nat) :
    pows b mul one [] d = [] := rfl

def imul (a b : Int) : Int := a * b

/-- the CURRENT recurrence `accumulate(starts[:1]+starts[-1:]+starts[1:-1])` is wrong from
three features at degree four on … -/
theorem pows_counterexample :
    (pows false imul 1 [2, 3, 5] 4)[4]? ≠ some (monos imul 1 4 [2, 3, 5]) := by decide

/-- … it yields 14 of the 15 monomials (`5^4` is missing) … -/
theorem pows_counterexample_count :
    ((pows false imul 1 [2, 3, 5] 4)[4]?).map List.length = some 14
      ∧ (monos imul 1 4 [2, 3, 5]).length = 15 := by decide

/-- … and from four features at degree three on (21 entries, `3·5·7` twice). -/
theorem pows_counterexample_n4_d3 :
    (pows false imul 1 [2, 3, 5, 7] 3)[3]? ≠ some (monos imul 1 3 [2, 3, 5, 7])
      ∧ ((pows false imul 1 [2, 3, 5, 7] 3)[3]?).map List.length = some 21 := by decide

/-! ### `_cross` -/

/-- [core] a term's entries are the full outer product (left factor major) of the monomials of
its namespaces, provided the powers were computed to a sufficient degree; a term naming an empty
namespace contributes nothing -/
theorem cross_eq_outer {α : Type} (mul : α → α → α) (one : α) (F : Char → List α) (M : Char → Nat)
    (cp : List (Char × Nat)) (hne : cp ≠ []) (h : ∀ kp ∈ cp, 1 ≤ kp.2 ∧ kp.2 ≤ M kp.1) :
    cross mul (fun c => pows true mul one (F c) (M c)) cp
      = .ok (outerAll mul (cp.map (fun kp => monos mul one kp.2 (F kp.1)))) :=
  cross_eq mul one F M cp hne h

example : ([('x', 2), ('a', 1)] : List (Char × Nat)) ≠ [] ∧
    ∀ kp ∈ ([('x', 2), ('a', 1)] : List (Char × Nat)), 1 ≤ kp.2 ∧ kp.2 ≤ (fun _ => 2) kp.1 := by decide

/-- `Counter(term)` reads a term as namespace factors with multiplicity, in order of first
occurrence (`xax` is `x²·a`) -/
theorem counter_factors (t : List Char) :
    counter t = (dedupFirst t).map (fun c => (c, t.count c)) := counter_eq_factors t

/-! ### `encode` -/

/-- [core] for every list of interaction terms (each naming at least one namespace) and numeric
constants, and every assignment of dense vectors, sparse mappings, scalars, strings, `None`,
`[]` or nothing to the namespaces, `encode` succeeds and returns exactly `encodeS`: the constant
first, then per distinct term in the order given the outer product of the monomials — a vector
for dense inputs, a mapping from concatenated feature names to products otherwise -/
theorem encode_eq_spec (is : List Inter) (kw : List (Char × NsVal))
    (hne : ∀ t ∈ strTerms is, t ≠ []) : encode Cfg.fixed is kw = .ok (encodeS is kw) :=
  encode_eq_spec' is kw hne

example : ∀ t ∈ strTerms [.num 1, .term ['x', 'x', 'a'], .term ['a']], t ≠ [] := by decide

/-- one encoder object used for any sequence of calls (any mixture of dense, sparse and string
arguments, repeated or changed between calls): every call returns the specification of its own
arguments, independently of the calls before it -/
theorem encode_history_eq_spec (is : List Inter) (calls : List (List (Char × NsVal)))
    (hne : ∀ t ∈ strTerms is, t ≠ []) :
    encodeHistory Cfg.fixed is calls = calls.map (fun kw => .ok (encodeS is kw)) :=
  encode_history_eq_spec' is calls hne

/-- the error branch: a term that names no namespace (`''`) makes `encode` raise IndexError -/
theorem encode_empty_term_error (is : List Inter) (kw : List (Char × NsVal))
    (h : [] ∈ strTerms is) : encode Cfg.fixed is kw = .error .indexError :=
  encode_empty_term_error' is kw h

/-- dense inputs, distinct terms: the vector spelled out -/
theorem encode_dense_eq_spec (is : List Inter) (kw : List (Char × NsVal))
    (hne : ∀ t ∈ strTerms is, t ≠ []) (hnd : (strTerms is).Nodup) (hd : isSparseCall kw = false) :
    encode Cfg.fixed is kw
      = .ok (.dense ((if constant is ≠ 0 then [constant is] else [])
          ++ (strTerms is).flatMap (termS ratMul 1 (featsDense kw)))) :=
  encode_dense_eq_spec' is kw hne hnd hd

/-- sparse / string-valued inputs: the mapping is `dict` of the (name, value) monomials … -/
theorem encode_sparse_eq_spec (is : List Inter) (kw : List (Char × NsVal))
    (hne : ∀ t ∈ strTerms is, t ≠ []) (hs : isSparseCall kw = true) :
    encode Cfg.fixed is kw
      = .ok (.sparse (
          let enc := dictOf (termsS pairMul pairOne (featsSparse kw) (dedupFirst (strTerms is)))
          if constant is ≠ 0 then dictSet "const" (constant is) enc else enc)) :=
  encode_sparse_eq_spec' is kw hne hs

/-- … whose keys are the concatenated names of the participating features … -/
theorem encode_sparse_keys (F : Char → List (String × Rat)) (ts : List (List Char)) :
    (termsS pairMul pairOne F ts).map (·.1) = termsS strMul "" (fun c => (F c).map (·.1)) ts :=
  termsS_map pairMul pairOne strMul "" (·.1) (fun _ _ => rfl) rfl F ts

/-- … and whose values are the corresponding products of the feature values; -/
theorem encode_sparse_vals (F : Char → List (String × Rat)) (ts : List (List Char)) :
    (termsS pairMul pairOne F ts).map (·.2) = termsS ratMul 1 (fun c => (F c).map (·.2)) ts :=
  termsS_map pairMul pairOne ratMul 1 (·.2) (fun _ _ => rfl) rfl F ts

/-- when the names are distinct nothing is merged by `dict` -/
theorem dict_distinct_keys (l : List (String × Rat)) (h : (l.map (·.1)).Nodup) : dictOf l = l :=
  dictOf_of_nodup_keys l h

/-- dense and sparse presentations of the same feature values give the same numbers: the dense
vector is the list of values of the sparse entries (before equal names are merged) -/
theorem dense_sparse_agree (is : List Inter) (kwd kws : List (Char × NsVal))
    (hne : ∀ t ∈ strTerms is, t ≠ [])
    (hd : isSparseCall kwd = false) (hs : isSparseCall kws = true)
    (hsame : ∀ c, featsDense kwd c = (featsSparse kws c).map (·.2)) :
    ∃ entries : List (String × Rat),
      encode Cfg.fixed is kws
        = .ok (.sparse (if constant is ≠ 0 then dictSet "const" (constant is) (dictOf entries) else dictOf entries)) ∧
      encode Cfg.fixed is kwd
        = .ok (.dense (if constant is ≠ 0 then constant is :: entries.map (·.2) else entries.map (·.2))) :=
  dense_sparse_agree' is kwd kws hne hd hs hsame

/-- the hypotheses are met by `x=[2,3]` versus `x={'p':2,'q':3}` -/
example : isSparseCall [('x', NsVal.dense [.num 2, .num 3])] = false
    ∧ isSparseCall [('x', NsVal.sparse [(.str "p", .num 2), (.str "q", .num 3)])] = true
    ∧ ∀ c, featsDense [('x', .dense [.num 2, .num 3])] c
        = (featsSparse [('x', .sparse [(.str "p", .num 2), (.str "q", .num 3)])] c).map (·.2) := by
  refine ⟨by decide, by decide, ?_⟩
  intro c
  by_cases h : 'x' = c
  · subst h; decide +kernel
  · simp [featsDense, featsSparse, nsVal, dictGet, h, denseVals, sparseFeats_none]

/-- a worked instance of the whole pipeline: `InteractionsEncoder([1,'xxa','a']).encode(x=[2,3], a={'k':'v', 3:7})` -/
example : encode Cfg.fixed [.num 1, .term ['x', 'x', 'a'], .term ['a']]
    [('x', .dense [.num 2, .num 3]), ('a', .sparse [(.str "k", .str "v"), (.int 3, .num 7)])]
    = .ok (.sparse [("x0x0akv", 4), ("x0x0a3", 28), ("x0x1akv", 6), ("x0x1a3", 42), ("x1x1akv", 9),
        ("x1x1a3", 63), ("akv", 1), ("a3", 7), ("const", 1)]) := by decide +kernel

/-- scalar, empty, `None` and absent namespaces: the result depends on the keyword arguments
only through the features of each namespace … -/
theorem encode_depends_on_features (is : List Inter) (kw kw' : List (Char × NsVal))
    (hs : isSparseCall kw = isSparseCall kw')
    (hd : ∀ c, featsDense kw c = featsDense kw' c)
    (hf : ∀ c, featsSparse kw c = featsSparse kw' c) : encodeS is kw = encodeS is kw' :=
  encodeS_congr is kw kw' hs hd hf

/-- … and a scalar has the features of the one-element vector, `None` / absent those of `[]` -/
theorem scalar_none_empty (c : Char) (it : Item) (kw : List (Char × NsVal)) :
    denseVals (.scalar it) = denseVals (.dense [it])
    ∧ sparseFeats c (.scalar it) = sparseFeats c (.dense [it])
    ∧ denseVals .none = denseVals (.dense []) ∧ sparseFeats c .none = sparseFeats c (.dense [])
    ∧ (dictGet c kw = none → featsDense kw c = [] ∧ featsSparse kw c = []) :=
  scalar_none_empty' c it kw

/-! ### The unchanged tree (recorded findings; each witness is replayed on the real code) -/

/-- C20-F1 at the `encode` level: `InteractionsEncoder(['xxxx']).encode(x=[2,3,5])` has 14 entries -/
theorem encode_pows_counterexample :
    encode Cfg.current [.term ['x', 'x', 'x', 'x']] [('x', .dense [.num 2, .num 3, .num 5])]
      ≠ .ok (encodeS [.term ['x', 'x', 'x', 'x']] [('x', .dense [.num 2, .num 3, .num 5])]) := by
  decide +kernel

/-- C20-F2: `InteractionsEncoder([1,1,'x','a']).encode(x=[2],a=[3])` loses the `x` term, because
`_cross_pows` is keyed by the leading entries of `interactions` (here `1` twice) -/
theorem crosspows_zip_counterexample :
    encode Cfg.current [.num 1, .num 1, .term ['x'], .term ['a']]
        [('x', .dense [.num 2]), ('a', .dense [.num 3])] = .ok (.dense [2, 3])
    ∧ encodeS [.num 1, .num 1, .term ['x'], .term ['a']]
        [('x', .dense [.num 2]), ('a', .dense [.num 3])] = .dense [2, 2, 3] := by decide +kernel

/-- C20-F3: `InteractionsEncoder(['xa']).encode(x=[2])` raises KeyError for the absent namespace -/
theorem absent_namespace_counterexample :
    encode Cfg.current [.term ['x', 'a']] [('x', .dense [.num 2])] = .error .keyError
    ∧ encodeS [.term ['x', 'a']] [('x', .dense [.num 2])] = .dense [] := by decide +kernel

/-! ### Phase 2: length, distinct names, callers, floating point -/

/-- the dense vector has `(1 if the constant is non-zero) + Σ_terms Π_namespaces C(n+p-1, p)` entries -/
theorem encode_length_spec (is : List Inter) (kw : List (Char × NsVal))
    (hne : ∀ t ∈ strTerms is, t ≠ []) (hd : isSparseCall kw = false) :
    ∃ vs, encode Cfg.fixed is kw = .ok (.dense vs) ∧ vs.length = encodeLen is kw :=
  encode_length_spec' is kw hne hd

/-- `chooseNat` (import-free, used by `encodeLen`) is the binomial coefficient -/
theorem encode_length_choose (n k : Nat) : chooseNat n k = Nat.choose n k := chooseNat_eq n k

/- theorem encode_sparse_faithful_full: "the mapping contains every (name, product) monomial" is FALSE
   without a hypothesis: names are built by plain concatenation, which is not injective (recorded
   findings C20-F4/C20-F5, `sparse_key_collision_counterexample`, `feature_name_collision_counterexample`). -/

/-- [partial: needs distinct names] when the concatenated names of the monomials (and `const`) are
pairwise distinct, the mapping is exactly the list of (name, product) monomials: every participating
combination is identified by its key and carries its product -/
theorem encode_sparse_faithful_partial (is : List Inter) (kw : List (Char × NsVal))
    (hne : ∀ t ∈ strTerms is, t ≠ []) (hs : isSparseCall kw = true)
    (hk : ((termsS pairMul pairOne (featsSparse kw) (dedupFirst (strTerms is))).map (·.1)
            ++ (if constant is ≠ 0 then ["const"] else [])).Nodup) :
    encode Cfg.fixed is kw = .ok (.sparse (termsS pairMul pairOne (featsSparse kw) (dedupFirst (strTerms is))
            ++ (if constant is ≠ 0 then [("const", constant is)] else []))) :=
  encode_sparse_faithful_partial' is kw hne hs hk

example : ((termsS pairMul pairOne (featsSparse [('x', .sparse [(.str "p", .num 2), (.str "q", .num 3)])])
    (dedupFirst (strTerms [.term ['x'], .term ['x', 'x']]))).map (fun p : String × Rat => p.1) ++ []).Nodup := by decide +kernel

/-- the hypothesis is necessary (C20-F4): `InteractionsEncoder(['x','xx']).encode(x={'1':2,'1x1':3})` has five
monomials but four keys — `x1x1` is both the feature `1x1` (value 3) and the square of `1` (value 4) -/
theorem sparse_key_collision_counterexample :
    encode Cfg.fixed [.term ['x'], .term ['x', 'x']] [('x', .sparse [(.str "1", .num 2), (.str "1x1", .num 3)])]
      = .ok (.sparse [("x1", 2), ("x1x1", 4), ("x1x1x1", 6), ("x1x1x1x1", 9)])
    ∧ (termsS pairMul pairOne (featsSparse [('x', .sparse [(.str "1", .num 2), (.str "1x1", .num 3)])])
        [['x'], ['x', 'x']]).length = 5 := by decide +kernel

/-- when the prefixed names of a namespace's features are distinct none of them is merged -/
theorem sparse_feats_distinct (c : Char) (v : NsVal) (h : (rawNames c v).Nodup) :
    sparseFeats c v = (makeDict v).map (fun kv => (String.singleton c ++ (handleEntry kv).1.fmt, (handleEntry kv).2)) :=
  sparseFeats_of_distinct c v h

/-- … and that hypothesis is necessary too (C20-F5): `encode(x={1:2,'1':3})` keeps one feature `x1` of two -/
theorem feature_name_collision_counterexample :
    encode Cfg.fixed [.term ['x']] [('x', .sparse [(.int 1, .num 2), (.str "1", .num 3)])]
      = .ok (.sparse [("x1", 3)]) := by decide +kernel

/-- translator obligation: the default term lists found in linucb.py, lints.py, synthetics.py and
offline.py (re-extracted on every run), as given and as rewritten for an empty context / no context or
action features, name only `x`/`a` and contain no empty term — the hypotheses of `encode_eq_spec` -/
theorem callers_wellformed :
    wellformedTerms (learnerTerms true Coba.Generated.C20.linucbFeatures) = true
    ∧ wellformedTerms (learnerTerms false Coba.Generated.C20.linucbFeatures) = true
    ∧ wellformedTerms (learnerTerms true Coba.Generated.C20.lintsFeatures) = true
    ∧ wellformedTerms (learnerTerms false Coba.Generated.C20.lintsFeatures) = true
    ∧ wellformedTerms (syntheticTerms 1 1 Coba.Generated.C20.syntheticFeatures) = true
    ∧ wellformedTerms (syntheticTerms 0 1 Coba.Generated.C20.syntheticFeatures) = true
    ∧ wellformedTerms (syntheticTerms 1 0 Coba.Generated.C20.syntheticFeatures) = true
    ∧ wellformedTerms Coba.Generated.C20.offlineFeatures = true := by decide +kernel

/-- for EVERY `features` argument the term list the learners build for an empty context has no empty term -/
theorem learner_terms_nonempty (fs : List Inter) : ∀ t ∈ strTerms (learnerTerms false fs), t ≠ [] :=
  learner_terms_nonempty' fs

/-- for EVERY `reward_features` argument and feature counts the synthetic simulation's term list has no empty term -/
theorem synthetic_terms_nonempty (nCtx nAct : Nat) (fs : List (List Char)) :
    ∀ t ∈ strTerms (syntheticTerms nCtx nAct fs), t ≠ [] := synthetic_terms_nonempty' nCtx nAct fs

/-- hence those calls always return the specification, whatever context / action is passed -/
theorem learner_encode_eq_spec (fs : List Inter) (kw : List (Char × NsVal)) :
    encode Cfg.fixed (learnerTerms false fs) kw = .ok (encodeS (learnerTerms false fs) kw) :=
  learner_encode_eq_spec' fs kw

theorem synthetic_encode_eq_spec (nCtx nAct : Nat) (fs : List (List Char)) (kw : List (Char × NsVal)) :
    encode Cfg.fixed (syntheticTerms nCtx nAct fs) kw = .ok (encodeS (syntheticTerms nCtx nAct fs) kw) :=
  synthetic_encode_eq_spec' nCtx nAct fs kw

/-- and a well-formed list (e.g. every default, by `callers_wellformed`) does so as given -/
theorem wellformed_encode_eq_spec (is : List Inter) (kw : List (Char × NsVal)) (h : wellformedTerms is = true) :
    encode Cfg.fixed is kw = .ok (encodeS is kw) := wellformed_encode_eq_spec' is kw h

/-- the encoder with ANY multiplication of values (exact or rounding) is the specification with that multiplication -/
theorem encode_any_mul_eq_spec (vmul : Rat → Rat → Rat) (is : List Inter) (kw : List (Char × NsVal))
    (hne : ∀ t ∈ strTerms is, t ≠ []) : encodeG vmul Cfg.fixed is kw = .ok (encodeSG vmul is kw) :=
  encodeG_eq_spec vmul is kw hne

/-- floating point, standard model (dense): if every multiplication returns the exact product times `1+ε`,
`|ε| ≤ u ≤ 1`, and `·1` is exact, then — for all such multiplications — every entry of the computed vector
equals the exact monomial up to `d-1` roundings, `d` = the largest term degree -/
theorem encode_float_model {u : Rat} {fmul : Rat → Rat → Rat} (hf : FloatMul u fmul) (h0 : 0 ≤ u) (h1 : u ≤ 1)
    (is : List Inter) (kw : List (Char × NsVal))
    (hne : ∀ t ∈ strTerms is, t ≠ []) (hd : isSparseCall kw = false) :
    ∃ vs vs' : List Rat,
      encodeG fmul Cfg.fixed is kw = .ok (.dense ((if constant is ≠ 0 then [constant is] else []) ++ vs)) ∧
      encode Cfg.fixed is kw = .ok (.dense ((if constant is ≠ 0 then [constant is] else []) ++ vs')) ∧
      List.Forall₂ (Approx u (maxDeg is - 1)) vs vs' :=
  encode_float_model' hf h0 h1 is kw hne hd

/-- … (sparse): the same names, and every value up to `d-1` roundings -/
theorem encode_float_model_sparse {u : Rat} {fmul : Rat → Rat → Rat} (hf : FloatMul u fmul) (h0 : 0 ≤ u) (h1 : u ≤ 1)
    (is : List Inter) (kw : List (Char × NsVal))
    (hne : ∀ t ∈ strTerms is, t ≠ []) (hs : isSparseCall kw = true) :
    ∃ kvs kvs' : List (String × Rat),
      encodeG fmul Cfg.fixed is kw = .ok (.sparse kvs) ∧ encode Cfg.fixed is kw = .ok (.sparse kvs') ∧
      List.Forall₂ (PairRel (Approx u (maxDeg is - 1))) kvs kvs' :=
  encode_float_model_sparse' hf h0 h1 is kw hne hs

/-- `m` roundings mean a relative error of at most `(1+u)^m - 1` (what the harness checks with `u = 2^-53`) -/
theorem float_model_rel_error {u : Rat} (h0 : 0 ≤ u) (h1 : u ≤ 1) {m : Nat} {x y : Rat} (h : Approx u m x y) :
    |x - y| ≤ ((1 + u) ^ m - 1) * |y| := approx_abs h0 h1 h

/-- the hypotheses are satisfiable: exact multiplication is a `FloatMul` for every `u ≥ 0`, and `u = 2^-53` qualifies -/
example : FloatMul (1 / 2 ^ 53) ratMul ∧ (0 : Rat) ≤ 1 / 2 ^ 53 ∧ (1 : Rat) / 2 ^ 53 ≤ 1 :=
  ⟨floatMul_exact _ (by norm_num), u53_ok.1, u53_ok.2⟩

/-! ### Phase 3: exact float products, order of the term list, argument shapes -/

/-- exactly representable products are returned exactly (what correct rounding gives) ⇒ on inputs `m·2^e` with
`|m| ≤ M`, `|e| ≤ E`, `M^d ≤ 2^53`, `d·E ≤ 970` (d = largest term degree) the float encoder IS the exact encoder:
no rounding at all, dense and sparse — this replaces the assumed `FloatMul` law on the dyadic value pools -/
theorem encode_float_exact_dyadic {fmul : Rat → Rat → Rat} (hf : ExactOn fmul) (M E : Nat) (hM : 1 ≤ M)
    (is : List Inter) (kw : List (Char × NsVal)) (hne : ∀ t ∈ strTerms is, t ≠ [])
    (hb : M ^ maxDeg is ≤ 2 ^ 53) (he : maxDeg is * E ≤ 970)
    (hd : ∀ c, ∀ v ∈ featsDense kw c, Dy M E v) (hs : ∀ c, ∀ p ∈ featsSparse kw c, Dy M E p.2) :
    encodeG fmul Cfg.fixed is kw = encode Cfg.fixed is kw :=
  encode_float_exact_dyadic' hf M E hM is kw hne hb he hd hs

/-- the hypotheses are met by `x=[1.5, 2.75]` under `'xxx'` with `M = 11`, `E = 2`; exact multiplication is an `ExactOn` -/
example : ExactOn ratMul
    ∧ (∀ c, ∀ v ∈ featsDense [('x', .dense [.num (3 / 2), .num (11 / 4)])] c, Dy 11 2 v)
    ∧ (∀ c, ∀ p ∈ featsSparse [('x', .dense [.num (3 / 2), .num (11 / 4)])] c, Dy 11 2 p.2)
    ∧ 11 ^ maxDeg [.term ['x', 'x', 'x']] ≤ 2 ^ 53 ∧ maxDeg [.term ['x', 'x', 'x']] * 2 ≤ 970 :=
  ⟨exactOn_ratMul, dyadic_example⟩

/-- the general form: any multiplication that is exact on a degree-graded family of numbers containing the inputs -/
theorem encode_float_exact_graded {P : Nat → Rat → Prop} {D : Nat} {fmul : Rat → Rat → Rat} (hg : Graded P D fmul)
    (is : List Inter) (kw : List (Char × NsVal)) (hne : ∀ t ∈ strTerms is, t ≠ []) (hD : maxDeg is ≤ D)
    (hd : ∀ c, ∀ v ∈ featsDense kw c, P 1 v) (hs : ∀ c, ∀ p ∈ featsSparse kw c, P 1 p.2) :
    encodeG fmul Cfg.fixed is kw = encode Cfg.fixed is kw := encode_graded_exact hg is kw hne hD hd hs

/-- the order in which a caller lists its (distinct) terms only permutes the encoding … -/
theorem encode_terms_order_perm {α : Type} (mul : α → α → α) (one : α) (F : Char → List α) {ts ts' : List (List Char)}
    (h : ts.Perm ts') : (termsS mul one F ts).Perm (termsS mul one F ts') := termsS_perm mul one F h

/-- … so a linear consumer whose weights are attached to the features (LinUCB's `theta @ features`, weights and
features laid out by the same encoder) computes the same score for every order of the term list — the learners'
`list(set(…))` order is unobservable for such a consumer -/
theorem linear_consumer_order_invariant (w : String → Rat) (F : Char → List (String × Rat)) {ts ts' : List (List Char)}
    (h : ts.Perm ts') :
    ((termsS pairMul pairOne F ts).map (fun kv => w kv.1 * kv.2)).sum
      = ((termsS pairMul pairOne F ts').map (fun kv => w kv.1 * kv.2)).sum := named_score_order_invariant w F h

example : (['a'] :: [['a', 'x']] : List (List Char)).Perm [['a', 'x'], ['a']] := List.Perm.swap _ _ _

/-- translator obligation (shapes): with the treatments of the term argument extracted from the source, every
accepted shape of `reward_features` — a bare str (ONE term), a list, a tuple — reaches the encoder as the term list
the caller means, through `Environments.from_linear_synthetic` and through the constructor -/
theorem synthetic_entry_shapes (s : Shape) :
    normalise (Coba.Generated.C20.envNorms ++ Coba.Generated.C20.syntheticNorms) s = s.meaning
    ∧ normalise Coba.Generated.C20.syntheticNorms s = s.meaning := by cases s <;> exact ⟨rfl, rfl⟩

/-- the learners accept sequences (`features: Sequence[str]`): lists and tuples reach the encoder unchanged -/
theorem learner_entry_shapes (ts : List Inter) :
    normalise Coba.Generated.C20.linucbNorms (.list ts) = ts ∧ normalise Coba.Generated.C20.linucbNorms (.tuple ts) = ts
    ∧ normalise Coba.Generated.C20.lintsNorms (.list ts) = ts ∧ normalise Coba.Generated.C20.lintsNorms (.tuple ts) = ts :=
  ⟨rfl, rfl, rfl, rfl⟩

/-- why the obligation matters (round d): a `list(...)` before the constructor splits a bare str into characters -/
theorem shape_listof_counterexample :
    normalise [Norm.listOf, Norm.wrapStr] (.str ['x', 'a']) ≠ (Shape.str ['x', 'a']).meaning := normalise_listOf_splits

end Coba.C20
