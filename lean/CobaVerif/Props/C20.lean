/-
C20 — Feature interaction encoding equals the mathematical polynomial expansion.
Property theorems only (helper lemmas live in `Lemmas/C20.lean`).

`encode Cfg.fixed` is the model of `InteractionsEncoder(...).encode(...)` with the three proposed
repairs (fixes/C20-*.diff); `encode Cfg.current` mirrors the unchanged tree and is the subject of
the `_counterexample` theorems.  `mul`/`one` are arbitrary: `*`/`1` for values, `++`/`""` for names.
-/
import CobaVerif.Lemmas.C20

namespace Coba.C20

deriving instance DecidableEq for Except

/-! ### The combinations: each unordered combination of features once -/

/-- `multichoose k xs` (the order of `itertools.combinations_with_replacement`) lists only
size-`k` combinations of members of `xs` … -/
theorem combos_sound {α : Type} (k : Nat) (xs c : List α) (h : c ∈ multichoose k xs) :
    c.length = k ∧ ∀ a ∈ c, a ∈ xs := multichoose_sound k xs c h

/-- … every multiset of `k` members of `xs` is listed … -/
theorem combos_complete {α : Type} [DecidableEq α] (xs : List α) (k : Nat) (m : Multiset α)
    (hk : Multiset.card m = k) (hm : ∀ a ∈ m, a ∈ xs) :
    ∃ c ∈ multichoose k xs, Multiset.ofList c = m := multichoose_complete xs k m hk hm

/-- … and, for distinct features, no unordered combination is listed twice. -/
theorem combos_once {α : Type} (k : Nat) (xs : List α) (h : xs.Nodup) :
    ((multichoose k xs).map Multiset.ofList).Nodup := multichoose_nodup k xs h

/-- the number of degree-`k` monomials over `n` features is `C(n+k-1, k)`, for every `n`, `k` -/
theorem monos_count {α : Type} (mul : α → α → α) (one : α) (k : Nat) (xs : List α) :
    (monos mul one k xs).length = Nat.choose (xs.length + k - 1) k := monos_length' mul one k xs

/-- a monomial's value is the product of its features -/
theorem mono_value (c : List Rat) : monoProd ratMul 1 c = c.prod := monoProd_eq_prod c

/-! ### `_pows` -/

/-- [core] with the corrected `starts` recurrence, `_pows(values, degree)[k]` is exactly the list
of degree-`k` monomials in `combinations_with_replacement` order — every length, every degree -/
theorem pows_eq_monos {α : Type} (mul : α → α → α) (one : α) (xs : List α) (hne : xs ≠ [])
    (d k : Nat) (hk : k ≤ d) :
    (pows true mul one xs d)[k]? = some (monos mul one k xs) := pows_getElem? mul one xs hne d k hk

theorem pows_all {α : Type} (mul : α → α → α) (one : α) (xs : List α) (hne : xs ≠ []) (d : Nat) :
    pows true mul one xs d = (List.range (d + 1)).map (fun k => monos mul one k xs) :=
  pows_eq mul one xs hne d

example : ([2, 3, 5] : List Int) ≠ [] ∧ 4 ≤ 4 := by decide

/-- `_pows` of no values is `[]` (both recurrences) -/
theorem pows_nil {α : Type} (b : Bool) (mul : α → α → α) (one : α) (d : Nat) :
    pows b mul one [] d = [] := rfl

def imul (a b : Int) : Int := a * b

/-- the CURRENT recurrence `accumulate(starts[:1]+starts[-1:]+starts[1:-1])` is wrong from
three features at degree four on … -/
theorem pows_counterexample :
    (pows false imul 1 [2, 3, 5] 4)[4]? ≠ some (monos imul 1 4 [2, 3, 5]) := by decide

/-- … it yields 14 of the 15 monomials (`5^4` is missing) … -/
theorem pows_counterexample_count :
    ((pows false imul 1 [2, 3, 5] 4)[4]?).map List.length = some 14
      ∧ (monos imul 1 4 [2, 3, 5]).length = 15 := by decide

/-- … and from four features at degree three on (21 entries, `3·5·7` twice). -/
theorem pows_counterexample_n4_d3 :
    (pows false imul 1 [2, 3, 5, 7] 3)[3]? ≠ some (monos imul 1 3 [2, 3, 5, 7])
      ∧ ((pows false imul 1 [2, 3, 5, 7] 3)[3]?).map List.length = some 21 := by decide

/-! ### `_cross` -/

/-- [core] a term's entries are the full outer product (left factor major) of the monomials of
its namespaces, provided the powers were computed to a sufficient degree; a term naming an empty
namespace contributes nothing -/
theorem cross_eq_outer {α : Type} (mul : α → α → α) (one : α) (F : Char → List α) (M : Char → Nat)
    (cp : List (Char × Nat)) (hne : cp ≠ []) (h : ∀ kp ∈ cp, 1 ≤ kp.2 ∧ kp.2 ≤ M kp.1) :
    cross mul (fun c => pows true mul one (F c) (M c)) cp
      = .ok (outerAll mul (cp.map (fun kp => monos mul one kp.2 (F kp.1)))) :=
  cross_eq mul one F M cp hne h

example : ([('x', 2), ('a', 1)] : List (Char × Nat)) ≠ [] ∧
    ∀ kp ∈ ([('x', 2), ('a', 1)] : List (Char × Nat)), 1 ≤ kp.2 ∧ kp.2 ≤ (fun _ => 2) kp.1 := by decide

/-- `Counter(term)` reads a term as namespace factors with multiplicity, in order of first
occurrence (`xax` is `x²·a`) -/
theorem counter_factors (t : List Char) :
    counter t = (dedupFirst t).map (fun c => (c, t.count c)) := counter_eq_factors t

/-! ### `encode` -/

/-- [core] for every list of interaction terms (each naming at least one namespace) and numeric
constants, and every assignment of dense vectors, sparse mappings, scalars, strings, `None`,
`[]` or nothing to the namespaces, `encode` succeeds and returns exactly `encodeS`: the constant
first, then per distinct term in the order given the outer product of the monomials — a vector
for dense inputs, a mapping from concatenated feature names to products otherwise -/
theorem encode_eq_spec (is : List Inter) (kw : List (Char × NsVal))
    (hne : ∀ t ∈ strTerms is, t ≠ []) : encode Cfg.fixed is kw = .ok (encodeS is kw) :=
  encode_eq_spec' is kw hne

example : ∀ t ∈ strTerms [.num 1, .term ['x', 'x', 'a'], .term ['a']], t ≠ [] := by decide

/-- one encoder object used for any sequence of calls (any mixture of dense, sparse and string
arguments, repeated or changed between calls): every call returns the specification of its own
arguments, independently of the calls before it -/
theorem encode_history_eq_spec (is : List Inter) (calls : List (List (Char × NsVal)))
    (hne : ∀ t ∈ strTerms is, t ≠ []) :
    encodeHistory Cfg.fixed is calls = calls.map (fun kw => .ok (encodeS is kw)) :=
  encode_history_eq_spec' is calls hne

/-- the error branch: a term that names no namespace (`''`) makes `encode` raise IndexError -/
theorem encode_empty_term_error (is : List Inter) (kw : List (Char × NsVal))
    (h : [] ∈ strTerms is) : encode Cfg.fixed is kw = .error .indexError :=
  encode_empty_term_error' is kw h

/-- dense inputs, distinct terms: the vector spelled out -/
theorem encode_dense_eq_spec (is : List Inter) (kw : List (Char × NsVal))
    (hne : ∀ t ∈ strTerms is, t ≠ []) (hnd : (strTerms is).Nodup) (hd : isSparseCall kw = false) :
    encode Cfg.fixed is kw
      = .ok (.dense ((if constant is ≠ 0 then [constant is] else [])
          ++ (strTerms is).flatMap (termS ratMul 1 (featsDense kw)))) :=
  encode_dense_eq_spec' is kw hne hnd hd

/-- sparse / string-valued inputs: the mapping is `dict` of the (name, value) monomials … -/
theorem encode_sparse_eq_spec (is : List Inter) (kw : List (Char × NsVal))
    (hne : ∀ t ∈ strTerms is, t ≠ []) (hs : isSparseCall kw = true) :
    encode Cfg.fixed is kw
      = .ok (.sparse (
          let enc := dictOf (termsS pairMul pairOne (featsSparse kw) (dedupFirst (strTerms is)))
          if constant is ≠ 0 then dictSet "const" (constant is) enc else enc)) :=
  encode_sparse_eq_spec' is kw hne hs

/-- … whose keys are the concatenated names of the participating features … -/
theorem encode_sparse_keys (F : Char → List (String × Rat)) (ts : List (List Char)) :
    (termsS pairMul pairOne F ts).map (·.1) = termsS strMul "" (fun c => (F c).map (·.1)) ts :=
  termsS_map pairMul pairOne strMul "" (·.1) (fun _ _ => rfl) rfl F ts

/-- … and whose values are the corresponding products of the feature values; -/
theorem encode_sparse_vals (F : Char → List (String × Rat)) (ts : List (List Char)) :
    (termsS pairMul pairOne F ts).map (·.2) = termsS ratMul 1 (fun c => (F c).map (·.2)) ts :=
  termsS_map pairMul pairOne ratMul 1 (·.2) (fun _ _ => rfl) rfl F ts

/-- when the names are distinct nothing is merged by `dict` -/
theorem dict_distinct_keys (l : List (String × Rat)) (h : (l.map (·.1)).Nodup) : dictOf l = l :=
  dictOf_of_nodup_keys l h

/-- dense and sparse presentations of the same feature values give the same numbers: the dense
vector is the list of values of the sparse entries (before equal names are merged) -/
theorem dense_sparse_agree (is : List Inter) (kwd kws : List (Char × NsVal))
    (hne : ∀ t ∈ strTerms is, t ≠ [])
    (hd : isSparseCall kwd = false) (hs : isSparseCall kws = true)
    (hsame : ∀ c, featsDense kwd c = (featsSparse kws c).map (·.2)) :
    ∃ entries : List (String × Rat),
      encode Cfg.fixed is kws
        = .ok (.sparse (if constant is ≠ 0 then dictSet "const" (constant is) (dictOf entries) else dictOf entries)) ∧
      encode Cfg.fixed is kwd
        = .ok (.dense (if constant is ≠ 0 then constant is :: entries.map (·.2) else entries.map (·.2))) :=
  dense_sparse_agree' is kwd kws hne hd hs hsame

/-- the hypotheses are met by `x=[2,3]` versus `x={'p':2,'q':3}` -/
example : isSparseCall [('x', NsVal.dense [.num 2, .num 3])] = false
    ∧ isSparseCall [('x', NsVal.sparse [(.str "p", .num 2), (.str "q", .num 3)])] = true
    ∧ ∀ c, featsDense [('x', .dense [.num 2, .num 3])] c
        = (featsSparse [('x', .sparse [(.str "p", .num 2), (.str "q", .num 3)])] c).map (·.2) := by
  refine ⟨by decide, by decide, ?_⟩
  intro c
  by_cases h : 'x' = c
  · subst h; decide +kernel
  · simp [featsDense, featsSparse, nsVal, dictGet, h, denseVals, sparseFeats_none]

/-- a worked instance of the whole pipeline: `InteractionsEncoder([1,'xxa','a']).encode(x=[2,3], a={'k':'v', 3:7})` -/
example : encode Cfg.fixed [.num 1, .term ['x', 'x', 'a'], .term ['a']]
    [('x', .dense [.num 2, .num 3]), ('a', .sparse [(.str "k", .str "v"), (.int 3, .num 7)])]
    = .ok (.sparse [("x0x0akv", 4), ("x0x0a3", 28), ("x0x1akv", 6), ("x0x1a3", 42), ("x1x1akv", 9),
        ("x1x1a3", 63), ("akv", 1), ("a3", 7), ("const", 1)]) := by decide +kernel

/-- scalar, empty, `None` and absent namespaces: the result depends on the keyword arguments
only through the features of each namespace … -/
theorem encode_depends_on_features (is : List Inter) (kw kw' : List (Char × NsVal))
    (hs : isSparseCall kw = isSparseCall kw')
    (hd : ∀ c, featsDense kw c = featsDense kw' c)
    (hf : ∀ c, featsSparse kw c = featsSparse kw' c) : encodeS is kw = encodeS is kw' :=
  encodeS_congr is kw kw' hs hd hf

/-- … and a scalar has the features of the one-element vector, `None` / absent those of `[]` -/
theorem scalar_none_empty (c : Char) (it : Item) (kw : List (Char × NsVal)) :
    denseVals (.scalar it) = denseVals (.dense [it])
    ∧ sparseFeats c (.scalar it) = sparseFeats c (.dense [it])
    ∧ denseVals .none = denseVals (.dense []) ∧ sparseFeats c .none = sparseFeats c (.dense [])
    ∧ (dictGet c kw = none → featsDense kw c = [] ∧ featsSparse kw c = []) :=
  scalar_none_empty' c it kw

/-! ### The unchanged tree (recorded findings; each witness is replayed on the real code) -/

/-- C20-F1 at the `encode` level: `InteractionsEncoder(['xxxx']).encode(x=[2,3,5])` has 14 entries -/
theorem encode_pows_counterexample :
    encode Cfg.current [.term ['x', 'x', 'x', 'x']] [('x', .dense [.num 2, .num 3, .num 5])]
      ≠ .ok (encodeS [.term ['x', 'x', 'x', 'x']] [('x', .dense [.num 2, .num 3, .num 5])]) := by
  decide +kernel

/-- C20-F2: `InteractionsEncoder([1,1,'x','a']).encode(x=[2],a=[3])` loses the `x` term, because
`_cross_pows` is keyed by the leading entries of `interactions` (here `1` twice) -/
theorem crosspows_zip_counterexample :
    encode Cfg.current [.num 1, .num 1, .term ['x'], .term ['a']]
        [('x', .dense [.num 2]), ('a', .dense [.num 3])] = .ok (.dense [2, 3])
    ∧ encodeS [.num 1, .num 1, .term ['x'], .term ['a']]
        [('x', .dense [.num 2]), ('a', .dense [.num 3])] = .dense [2, 2, 3] := by decide +kernel

/-- C20-F3: `InteractionsEncoder(['xa']).encode(x=[2])` raises KeyError for the absent namespace -/
theorem absent_namespace_counterexample :
    encode Cfg.current [.term ['x', 'a']] [('x', .dense [.num 2])] = .error .keyError
    ∧ encodeS [.term ['x', 'a']] [('x', .dense [.num 2])] = .dense [] := by decide +kernel

end Coba.C20
