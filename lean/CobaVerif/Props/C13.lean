/-
C13 — Lazy row views are indistinguishable from the eager table they describe.
Property theorems only; helper lemmas live in `Lemmas/C13.lean`, the model and the eager spec in
`Model/C13.lean`.

Reading.  `baseD b` / `buildD stages` is the lazy row object the coba filters build (the wrapper tree),
`eagerBaseD b` / `eagerD stages` is the same pipeline applied eagerly to a plain list with optional
column names (`EagerD`).  "The eager pipeline is defined" (`= .ok (some e)`) means: every header
assignment names each column exactly once, every encoder succeeds on its cell, referenced columns
exist.  `eagerD … = .ok none` means a row predicate dropped the row.
-/
import CobaVerif.Lemmas.C13
import CobaVerif.Generated.C13Methods

namespace Coba.C13

/-! ## the load-once cell -/

/-- after the first `_load_or_get` every later one returns the same row and leaves the cell as it is -/
theorem load_idempotent {α} (c : Cell α) : c.touch.loadOrGet = (c.get, c.touch) := load_idempotent' c

/-! ## dense rows -/

/-- whenever the eager pipeline yields a row, the lazy pipeline yields a row object too (it does not
raise and does not drop the row) -/
theorem dense_defined (b : DBase) (stages : List Stage) (e0 e : EagerD)
    (hb : eagerBaseD b = .ok e0) (he : eagerD stages e0 = .ok (some e)) :
    ∃ r, buildD stages (baseD b) = .ok (some r) := dense_defined' b stages e0 e hb he

/-- row dropping: a row removed by a row predicate of the eager pipeline is removed by the lazy one -/
theorem dense_row_dropped (b : DBase) (stages : List Stage) (e0 : EagerD)
    (hb : eagerBaseD b = .ok e0) (he : eagerD stages e0 = .ok none) :
    buildD stages (baseD b) = .ok none := dense_dropped' b stages e0 hb he

/-- by position: `row[i]` is the i-th element of the eager list, and raises IndexError beyond its end -/
theorem get_pos (b : DBase) (stages : List Stage) (e0 e : EagerD) (r : DRow)
    (hb : eagerBaseD b = .ok e0) (he : eagerD stages e0 = .ok (some e))
    (hr : buildD stages (baseD b) = .ok (some r)) (i : Nat) :
    r.getPos i = idx e.cells i := (dense_ref' b stages e0 e r hb he hr).pos i

/-- by header name: `row[name]` is the eager cell of the column with that name -/
theorem get_name (b : DBase) (stages : List Stage) (e0 e : EagerD) (r : DRow)
    (hb : eagerBaseD b = .ok e0) (he : eagerD stages e0 = .ok (some e))
    (hr : buildD stages (baseD b) = .ok (some r)) (s : String) (v : Val) (hv : e.byName s = some v) :
    r.getName s = .ok v := (dense_ref' b stages e0 e r hb he hr).name s v hv

/-- by iteration (and `copy()`): `list(row)` is the eager list -/
theorem iter_eq (b : DBase) (stages : List Stage) (e0 e : EagerD) (r : DRow)
    (hb : eagerBaseD b = .ok e0) (he : eagerD stages e0 = .ok (some e))
    (hr : buildD stages (baseD b) = .ok (some r)) :
    r.iter = .ok e.cells := (dense_ref' b stages e0 e r hb he hr).iter

/-- by length -/
theorem len_eq (b : DBase) (stages : List Stage) (e0 e : EagerD) (r : DRow)
    (hb : eagerBaseD b = .ok e0) (he : eagerD stages e0 = .ok (some e))
    (hr : buildD stages (baseD b) = .ok (some r)) :
    r.len = e.cells.length := (dense_ref' b stages e0 e r hb he hr).len

/-- the header map: `row.headers` is the eager header map name → column (any Mapping HeadRows was given: in any order,
naming all or only some of the columns; after DropRows the kept entries renumbered); a table without header has no
`headers` attribute -/
theorem headers_eq (b : DBase) (stages : List Stage) (e0 e : EagerD) (r : DRow)
    (hb : eagerBaseD b = .ok e0) (he : eagerD stages e0 = .ok (some e))
    (hr : buildD stages (baseD b) = .ok (some r)) :
    r.headers.toOption = e.hdr := (dense_ref' b stages e0 e r hb he hr).hdr

/-- by equality: `row == o` (also `o == row`, and against another lazy row) is `list == list` on the eager row -/
theorem eq_iff (b : DBase) (stages : List Stage) (e0 e : EagerD) (r : DRow)
    (hb : eagerBaseD b = .ok e0) (he : eagerD stages e0 = .ok (some e))
    (hr : buildD stages (baseD b) = .ok (some r)) (o : List Val) :
    r.eqList o = (e.cells.length == o.length && (List.zipWith pyEq e.cells o).all id) :=
  eqList_of_ref (dense_ref' b stages e0 e r hb he hr) o

/-- all of the above as one statement about observations: every access other than feats/label/tipe for
which the eager row defines a result gives exactly that result -/
theorem dense_observations (b : DBase) (stages : List Stage) (e0 e : EagerD) (r : DRow)
    (hb : eagerBaseD b = .ok e0) (he : eagerD stages e0 = .ok (some e))
    (hr : buildD stages (baseD b) = .ok (some r)) (a : Acc)
    (hna : match a with | .label => False | .tipe => False | .feats _ => False | .clone _ => False | _ => True)
    (hdef : eagerObsD e a ≠ .undef) :
    obsD r a = eagerObsD e a := obsD_of_ref (dense_ref' b stages e0 e r hb he hr) a hna hdef

/- theorem feats_label_full: for *every* pipeline, `row.feats` refines `e.feats` and `row.label = e.label`.
   False for the code as it is: `feats`/`label` are forwarded by `__getattr__` to the LabelDense wrapper,
   ignoring every stage applied after LabelRows (see `feats_label_counterexample`; recorded C13-F8). -/

/-- feats / label / tipe, when LabelRows is the last stage: `row.feats` is indistinguishable from the
eager row without its label column (header positions renumbered), `row.label` is the label cell -/
theorem feats_label_partial (b : DBase) (stages : List Stage) (k : Key) (t : Option String) (e0 e : EagerD)
    (hb : eagerBaseD b = .ok e0) (he : eagerD (stages ++ [.label k t]) e0 = .ok (some e)) :
    ∃ r f ef v, buildD (stages ++ [.label k t]) (baseD b) = .ok (some r) ∧
      r.feats = .ok f ∧ e.feats = some ef ∧ RefD f ef ∧
      r.labelVal = .ok v ∧ e.labelVal = some v ∧ r.tipe = .ok t ∧ e.lab.map (·.2) = some t :=
  feats_label_dense' b stages k t e0 e hb he

/-- the hypothesis "LabelRows last" is necessary: `[1,2,3]`, label column 1, then `EncodeRows([+1,+1,+1])`:
the row reads `[2,3,4]` but its label is still 2 (eager: 3): `__getattr__` forwards `label` to the inner LabelDense unchanged
(recorded C13-F8; the proposed fixes/C13-stale-feats-label.diff was not applied, see notes/C13.md) -/
theorem feats_label_counterexample :
    ∃ r e, buildD cexStages (baseD cexBase) = .ok (some r) ∧
      (match eagerBaseD cexBase with | .ok e0 => eagerD cexStages e0 | .error er => .error er) = .ok (some e) ∧
      r.iter = .ok e.cells ∧
      r.labelVal = .ok (.int 2) ∧ e.labelVal = some (.int 3) := feats_label_dense_cex'

/-- accessing a row in different ways or in a different order never changes what later accesses return:
any history of accesses on one row object yields what the same accesses yield on fresh rows -/
theorem access_order_irrelevant (r : DRow) (as : List Acc) : runD r as = as.map (obsD r) := runD_eq_map r as

/-- the hypotheses are satisfiable: LazyDense(loader) rows `['1','2','3']`, a header a,b,c, per-column `int`,
drop column b, label column c: the eager row is `[1,3]` with names a,c and so is the lazy one -/
example : ∃ e0 e r, eagerBaseD exBase = .ok e0 ∧ eagerD exStages e0 = .ok (some e) ∧
    buildD exStages (baseD exBase) = .ok (some r) ∧
    e.cells = [.int 1, .int 3] ∧ e.hdr = some [("a", 0), ("c", 1)] ∧ r.iter = .ok [.int 1, .int 3] :=
  ⟨_, _, _, rfl, rfl, rfl, rfl, rfl, rfl⟩

/-- … and with a header Mapping given out of column order that names only two of the three columns (`HeadRows({'z':2,'x':0})`),
`EncodeRows({'z':int})`, `DropRows(['x'])`: the eager row is `['2', 3]` with header map `{'z':1}` -/
example : ∃ e0 e r, eagerBaseD exBase = .ok e0 ∧ eagerD exStagesMap e0 = .ok (some e) ∧
    buildD exStagesMap (baseD exBase) = .ok (some r) ∧
    e.cells = [.str "2", .int 3] ∧ e.hdr = some [("z", 1)] ∧ r.iter = .ok e.cells ∧ r.getName "z" = .ok (.int 3) :=
  ⟨_, _, _, rfl, rfl, rfl, rfl, rfl, rfl, rfl⟩

/-! ## sparse rows

`baseS b` covers dicts, LazySparse rows with or without loader / encoders / header map (`_fwd`/`_inv`) / default
"not sparse" entries, and the rows ArffReader builds.  A header-mapped LazySparse additionally answers to its raw
integer keys (`r.leak`, see `sparse_get_counterexample`): by-key statements are about every other key, and
`leakSafe` (a decidable condition on the stage list, `true` for every pipeline over a base without header map:
`leakSafe_of_simple_base`) says that no HeadRows / row predicate addresses such a hidden key.
Sets (`keys()`, iteration) are compared as sets; `items()` is the eager dict in the model's order (`Obs.agree`
compares dicts as finite maps). -/

/-- a dict or a LazySparse without header map has no hidden keys, so every pipeline over it is `leakSafe` -/
theorem leakSafe_of_simple_base (b : SBase) (h : simpleBase b) (stages : List Stage) :
    leakSafe (!(baseS b).leak.isEmpty) stages = true := leakSafe_of_simpleBase b h stages

theorem sparse_defined (b : SBase) (stages : List Stage) (hs : leakSafe (!(baseS b).leak.isEmpty) stages = true) (e0 e : EagerS)
    (he0 : eagerBaseS b = .ok e0) (he : eagerS stages e0 = .ok (some e)) :
    ∃ r, buildS stages (baseS b) = .ok (some r) ∧ RefS r e :=
  let ⟨r, hr, href, _⟩ := (sparse_refines b stages hs e0 he0).1 e he; ⟨r, hr, href⟩

theorem sparse_row_dropped (b : SBase) (stages : List Stage) (hs : leakSafe (!(baseS b).leak.isEmpty) stages = true) (e0 : EagerS)
    (he0 : eagerBaseS b = .ok e0) (he : eagerS stages e0 = .ok none) :
    buildS stages (baseS b) = .ok none := (sparse_refines b stages hs e0 he0).2 he

/-- by key (header name or raw key): `row[k]` is the eager dict's entry, KeyError exactly when it has none —
for every key that is not a hidden raw key of a header-mapped base -/
theorem sparse_get (b : SBase) (stages : List Stage) (hs : leakSafe (!(baseS b).leak.isEmpty) stages = true) (e0 e : EagerS) (r : SRow)
    (he0 : eagerBaseS b = .ok e0) (he : eagerS stages e0 = .ok (some e))
    (hr : buildS stages (baseS b) = .ok (some r)) (k : Key) (hk : k ∉ r.leak) :
    r.get k = optRes (dget e.d k) := (sparse_ref' b stages hs e0 e r he0 he hr).1.get k hk

/-- header names are never hidden keys -/
theorem sparse_get_name (b : SBase) (stages : List Stage) (hs : leakSafe (!(baseS b).leak.isEmpty) stages = true) (e0 e : EagerS) (r : SRow)
    (he0 : eagerBaseS b = .ok e0) (he : eagerS stages e0 = .ok (some e))
    (hr : buildS stages (baseS b) = .ok (some r)) (s : String) :
    r.get (.name s) = optRes (dget e.d (.name s)) :=
  let h := (sparse_ref' b stages hs e0 e r he0 he hr).1; h.get _ (not_leak_of_name h rfl)

/-- `items()` (and `copy()`) is the eager dict; no key twice -/
theorem items_eq (b : SBase) (stages : List Stage) (hs : leakSafe (!(baseS b).leak.isEmpty) stages = true) (e0 e : EagerS) (r : SRow)
    (he0 : eagerBaseS b = .ok e0) (he : eagerS stages e0 = .ok (some e))
    (hr : buildS stages (baseS b) = .ok (some r)) :
    r.items = .ok e.d ∧ (e.d.map (·.1)).Nodup :=
  let h := sparse_ref' b stages hs e0 e r he0 he hr; ⟨h.1.items, h.2.nodup⟩

/-- `keys()` / iteration: exactly the keys of the eager dict, each once -/
theorem sparse_keys_eq (b : SBase) (stages : List Stage) (hs : leakSafe (!(baseS b).leak.isEmpty) stages = true) (e0 e : EagerS) (r : SRow)
    (he0 : eagerBaseS b = .ok e0) (he : eagerS stages e0 = .ok (some e))
    (hr : buildS stages (baseS b) = .ok (some r)) :
    ∃ ks, r.keys = .ok ks ∧ ks.Nodup ∧ ∀ k, k ∈ ks ↔ (dget e.d k).isSome :=
  (sparse_ref' b stages hs e0 e r he0 he hr).1.keys

/-- by length (after the repair of `LazySparse.__len__` also for ArffReader's rows) -/
theorem sparse_len_eq (b : SBase) (stages : List Stage) (hs : leakSafe (!(baseS b).leak.isEmpty) stages = true) (e0 e : EagerS) (r : SRow)
    (he0 : eagerBaseS b = .ok e0) (he : eagerS stages e0 = .ok (some e))
    (hr : buildS stages (baseS b) = .ok (some r)) :
    r.len = .ok e.d.length := (sparse_ref' b stages hs e0 e r he0 he hr).1.len

/-- every access other than feats/label/tipe for which the eager dict defines a result agrees with it
(by key — not a hidden raw key —, keys, iteration, items, copy, len, `==` against a dict) -/
theorem sparse_observations (b : SBase) (stages : List Stage) (hs : leakSafe (!(baseS b).leak.isEmpty) stages = true) (e0 e : EagerS) (r : SRow)
    (he0 : eagerBaseS b = .ok e0) (he : eagerS stages e0 = .ok (some e))
    (hr : buildS stages (baseS b) = .ok (some r)) (a : Acc)
    (hna : match a with | .label => False | .tipe => False | .feats _ => False | .clone _ => False | .name k => k ∉ r.leak | _ => True)
    (hdef : eagerObsS e a ≠ .undef) :
    (obsS r a).agree (eagerObsS e a) :=
  let h := sparse_ref' b stages hs e0 e r he0 he hr; obsS_of_ref h.1 h.2 a hna hdef

/-- EncodeCatRows (onehot, onehot_tuple, string) on a lazy dense row is EncodeCatRows on the eager list -/
theorem enccat_dense_eq_spec (m : CatMode) (r : DRow) (e : EagerD) (h : RefD r e) :
    applyD (.enccat (some m)) r = .ok (some (if hasCat e.cells then .plain (catEncodeList m e.cells) else r)) ∧
    eagerStageD (.enccat (some m)) e = .ok (some (if hasCat e.cells then ⟨catEncodeList m e.cells, none, none, none⟩ else e)) :=
  enccatD_eq' m h

/-- EncodeCatRows (onehot, onehot_tuple, string) on a lazy sparse row is EncodeCatRows on the eager dict, whose keys stay distinct -/
theorem enccat_sparse_eq_spec (m : CatMode) (r : SRow) (e : EagerS) (h : RefS r e) (hw : WFS e) :
    applyS (.enccat (some m)) r = .ok (some (if hasCatD e.d then .plain (catEncodeDict m e.d) else r)) ∧
    eagerStageS (.enccat (some m)) e = .ok (some (if hasCatD e.d then ⟨catEncodeDict m e.d, none, none, []⟩ else e)) ∧
    ((catEncodeDict m e.d).map (·.1)).Nodup :=
  enccatS_eq' m h hw

/-- feats / label / tipe when LabelRows is the last stage (an absent label entry is 0; an int label of a header-mapped
table is the column with that raw key) -/
theorem feats_label_sparse_partial (b : SBase) (stages : List Stage) (k : Key) (t : Option String)
    (hs : leakSafe (!(baseS b).leak.isEmpty) (stages ++ [.label k t]) = true) (e0 e : EagerS)
    (he0 : eagerBaseS b = .ok e0) (he : eagerS (stages ++ [.label k t]) e0 = .ok (some e)) :
    ∃ r f ef v, buildS (stages ++ [.label k t]) (baseS b) = .ok (some r) ∧
      r.feats = .ok f ∧ e.feats = some ef ∧ RefS f ef ∧
      r.labelVal = .ok v ∧ e.labelVal = some v ∧ r.tipe = .ok t ∧ e.lab.map (·.2) = some t :=
  feats_label_sparse' b stages k t hs e0 e he0 he

/-- "LabelRows last" is necessary for sparse rows too: `{0:1, 1:2}`, label key 1, then `EncodeRows({0:+1, 1:+1})`:
the row reads `{0:2, 1:3}` but its label is still 2 (eager: 3)  (recorded C13-F9) -/
theorem feats_label_sparse_counterexample :
    ∃ r e, buildS cexStagesS (baseS cexBaseS) = .ok (some r) ∧
      (match eagerBaseS cexBaseS with | .ok e0 => eagerS cexStagesS e0 | .error er => .error er) = .ok (some e) ∧
      r.items = .ok e.d ∧
      r.labelVal = .ok (.int 2) ∧ e.labelVal = some (.int 3) := feats_label_sparse_cex'

/-- the condition `k ∉ r.leak` of `sparse_get` is necessary: `LazySparse({0:7}, fwd={'a':0}, inv={0:'a'})`
answers `row['a'] == 7` like the eager dict `{'a':7}`, but also `row[0] == 7` where the eager dict raises KeyError -/
theorem sparse_get_counterexample :
    ∃ e, eagerBaseS cexLeakBase = .ok e ∧ dget e.d (.pos 0) = none ∧ dget e.d (.name "a") = some (.int 7) ∧
      (baseS cexLeakBase).get (.pos 0) = .ok (.int 7) ∧ (baseS cexLeakBase).get (.name "a") = .ok (.int 7) ∧
      Key.pos 0 ∈ (baseS cexLeakBase).leak :=
  sparse_get_leak_cex'

/-- access order (sparse): any history of accesses on one row object yields what fresh rows yield -/
theorem access_order_irrelevant_sparse (r : SRow) (as : List Acc) : runS r as = as.map (obsS r) := runS_eq_map r as

/-- the sparse hypotheses are satisfiable: `LazySparse(loader of {'a':'1','b':'2'})`, `EncodeRows({'a':int,'c':str})`,
drop `b`, label `y` (absent, so 0): the eager dict is `{'a':1,'c':'0','y':0}` -/
example : leakSafe (!(baseS exBaseS).leak.isEmpty) exStagesS = true ∧
    ∃ e0 e r, eagerBaseS exBaseS = .ok e0 ∧ eagerS exStagesS e0 = .ok (some e) ∧ buildS exStagesS (baseS exBaseS) = .ok (some r) ∧
      e.d = [(.name "a", .int 1), (.name "c", .str "0"), (.name "y", .int 0)] :=
  ⟨rfl, _, _, _, rfl, rfl, rfl, rfl⟩

/-- … and over ArffReader's sparse rows: attributes `a numeric, b {p,q}`, line `{0 3}`, `EncodeCatRows('onehot_tuple')`,
then label `b`: the eager dict is `{'a':3.0, 'b':(1,0,0)}` (the absent nominal column is its default level "0") -/
example : leakSafe (!(baseS exArffS).leak.isEmpty) exArffStages = true ∧
    ∃ e0 e r, eagerBaseS exArffS = .ok e0 ∧ eagerS exArffStages e0 = .ok (some e) ∧ buildS exArffStages (baseS exArffS) = .ok (some r) ∧
      e.d = [(.name "a", .flt 3), (.name "b", .tup [1, 0, 0])] ∧ r.items = .ok e.d :=
  ⟨rfl, _, _, _, rfl, rfl, rfl, rfl, rfl⟩

/-! ## copies of rows inside access histories

`Acc.clone sub`: at this point of the history the row object is copied (copy.copy / copy.deepcopy / pickle round trip) and `sub`
is made on the copy.  In the model a copy of a row is the row (same wrapper tree, same base data, same state of the load-once cell);
the harness makes the real copies and compares. -/

/-- any access sequence interleaved with copies yields the values of the same sequence without the copy steps (dense) -/
theorem access_after_clone (r : DRow) (as : List Acc) : runD r as = runD r (as.map Acc.strip) := runD_strip r as

/-- … (sparse) -/
theorem access_after_clone_sparse (r : SRow) (as : List Acc) : runS r as = runS r (as.map Acc.strip) := runS_strip r as

/-- copies never change the original: after an access on a copy the original answers every later history as before -/
theorem clone_leaves_original (r : DRow) (a : Acc) (bs : List Acc) : runD (stepD r (.clone a)).2 bs = runD r bs :=
  runD_after_clone r a bs

theorem clone_leaves_original_sparse (r : SRow) (a : Acc) (bs : List Acc) : runS (stepS r (.clone a)).2 bs = runS r bs :=
  runS_after_clone r a bs

/-- an access on a copy (of the row, of its feats, of a copy …) is the access itself, on the lazy row and on the eager row:
so `dense_observations` / `sparse_observations` / `feats_label_*` apply to `a.strip` -/
theorem clone_is_transparent (r : DRow) (e : EagerD) (a : Acc) :
    obsD r a = obsD r a.strip ∧ eagerObsD e a = eagerObsD e a.strip := ⟨obsD_strip r a, eagerObsD_strip e a⟩

theorem clone_is_transparent_sparse (r : SRow) (e : EagerS) (a : Acc) :
    obsS r a = obsS r a.strip ∧ eagerObsS e a = eagerObsS e a.strip := ⟨obsS_strip r a, eagerObsS_strip e a⟩

/-- a history with copies on a concrete row: `deepcopy(row)[1]`, `copy(row.feats)` iterated, then `row[1]` -/
example : ∃ r, buildD exStages (baseD exBase) = .ok (some r) ∧
    runD r [.clone (.pos 1), .feats (.clone .iter), .pos 1] = [.val (.int 3), .vals [.int 1], .val (.int 3)] :=
  ⟨_, rfl, rfl⟩

/-! ## one set of filter objects, several tables -/

/-- the `*Rows` filter objects carry no state from one `filter()` call to the next: in a session in which the same filter
objects process the tables one after the other (in any order, dense and sparse mixed), every table yields exactly what it
yields when processed alone by fresh filter objects; in particular table B after table A = table B alone.
(The harness applies the real filter objects to 2–3 tables in a row and compares each with `session`'s output.) -/
theorem filter_stateless (fs : List Stage) (ts : List Table) :
    session fs ts = ts.map (fun t => (runTable fs t).1) := session_eq_map fs ts

theorem filter_stateless_pair (fs : List Stage) (A B : Table) :
    (session fs [A, B])[1]? = (session fs [B])[0]? := session_pair' fs A B

/-! ## the first row of a table

The `*Rows` filters derive their arguments from the first incoming row (`tableD1`, what the driver runs); the refinement
theorems above are per row (`buildD`).  `uniformRun` (decidable, reported by the driver as part of `hyp`) says that at every
stage every incoming row has the length, the header map and the categorical positions of the first one. -/

/-- on a uniform table, looking at the first row (the code) is the same as looking at each row itself -/
theorem first_row_irrelevant (stages : List Stage) (rows : List DBase)
    (h : uniformRun stages (rows.map baseD) = true) :
    tableD1 stages rows = runStages0 stages (rows.map baseD) := runStages1_eq stages (rows.map baseD) h

/-- … and the stage-by-stage table is the table of the per-row pipelines: its rows are exactly the rows `buildD` builds
(those not removed by a row predicate), so every per-row theorem above applies to every row of the table -/
theorem table_rows_are_pipelines (stages : List Stage) (rows out : List DRow) (h : runStages0 stages rows = .ok out) :
    ∃ os, mapMRes (buildD stages) rows = .ok os ∧ out = os.filterMap id := runStages0_rows stages rows out h

/-- the single-stage form: for a row that looks like the first row, `filter()` builds the wrapper the per-row model builds -/
theorem first_row_stage (st : Stage) (f r : DRow) (h : sameShape f r = true) : applyD1 st f r = applyD st r :=
  applyD1_eq st f r h

/-! ## the first dict of a sparse table

On dict rows `LabelRows.filter` reads `first._inv` (to translate a positional label into its header name) and
`EncodeCatRows.filter` reads the keys of the categoricals of the first dict and encodes exactly those keys in every dict.
`tableS1` is that computation; `sameShapeS f r` (same `_inv`, categoricals at the same keys, the row's keys distinct and not
clashing with the generated one-hot names `k_i`) is the decidable condition under which it is the per-row computation `buildS`
the sparse theorems are about.  The driver reports `uniformRunS` per case. -/

/-- on a uniform sparse table, looking at the first dict (the code) is the same as looking at each dict itself -/
theorem first_row_irrelevant_sparse (stages : List Stage) (rows : List SBase)
    (h : uniformRunS stages (rows.map baseS) = true) :
    tableS1 stages rows = runStagesS0 stages (rows.map baseS) := runStagesS1_eq stages (rows.map baseS) h

/-- … and that table consists of the rows `buildS` builds: every per-row sparse theorem applies to every row of the table -/
theorem table_rows_are_pipelines_sparse (stages : List Stage) (rows out : List SRow) (h : runStagesS0 stages rows = .ok out) :
    ∃ os, mapMRes (buildS stages) rows = .ok os ∧ out = os.filterMap id := runStagesS0_rows stages rows out h

/-- the single-stage form -/
theorem first_row_stage_sparse (st : Stage) (f r : SRow) (h : sameShapeS f r = true) : applyS1 st f r = applyS st r :=
  applyS1_eq st f r h

/-- `catset` at the categorical keys of the dict itself is the entry-by-entry encoding of the eager spec (`catEncodeDict`),
when the keys are distinct and no generated name `k_i` is already a key -/
theorem enccat_keys_of_own_dict (m : CatMode) (d : Dict) (hn : (d.map (·.1)).Nodup) (hc : noClash d = true) :
    catEncodeAtD m (catKeysD d) d = .ok (catEncodeDict m d) := catEncodeAtD_self m d hn hc

/-- the hypotheses are satisfiable: two dicts with the categorical at the same key -/
example : uniformRunS [.enccat (some .onehot)]
    ([SBase.plain [(.name "a", .cat "q" ["p", "q"]), (.name "b", .int 1)], SBase.plain [(.name "a", .cat "p" ["p", "q"]), (.name "b", .int 2)]].map baseS) = true := by
  decide

/-- jagged sparse tables are outside: (1) the second dict has its categorical at another key than the first: it passes through
un-encoded (eager: encoded);  (2) the second dict lacks the key the first has as categorical: KeyError (eager: the dict unchanged);
(3) the first dict has no header map but the second has `_inv = {1:'b'}`: `LabelRows(1)` labels it by the raw key 1 where the
per-row pipeline takes the header name `'b'` -/
theorem first_dict_counterexample :
    (tableS1 [.enccat (some .string)] [.plain [(.name "a", .cat "p" ["p", "q"])], .plain [(.name "a", .str "x"), (.name "b", .cat "q" ["p", "q"])]]
        = .ok [.plain [(.name "a", .str "p")], .plain [(.name "a", .str "x"), (.name "b", .cat "q" ["p", "q"])]] ∧
      buildS [.enccat (some .string)] (baseS (.plain [(.name "a", .str "x"), (.name "b", .cat "q" ["p", "q"])]))
        = .ok (some (.plain [(.name "a", .str "x"), (.name "b", .str "q")]))) ∧
    (tableS1 [.enccat (some .string)] [.plain [(.name "a", .cat "p" ["p", "q"])], .plain [(.name "b", .int 1)]] = .error .keyError ∧
      buildS [.enccat (some .string)] (baseS (.plain [(.name "b", .int 1)])) = .ok (some (.plain [(.name "b", .int 1)]))) ∧
    (∃ r1 r2, applyS1 (.label (.pos 1) none) (.plain []) (.head (.plain [(.pos 1, .int 5)]) [(.name "b", .pos 1)] [(.pos 1, .name "b")]) = .ok (some r1) ∧
      applyS (.label (.pos 1) none) (.head (.plain [(.pos 1, .int 5)]) [(.name "b", .pos 1)] [(.pos 1, .name "b")]) = .ok (some r2) ∧
      r1.labelOf.map (·.2.1) = some (.pos 1) ∧ r2.labelOf.map (·.2.1) = some (.name "b")) := first_dict_cex'

/-! ## Phase 4: exception classes, and the protocol of the row-view classes -/

/-- every access a plain list answers or refuses by itself (position, iteration, copy, len, ==, at any depth of copies):
the lazy dense row raises exactly when the eager list does, and with the same exception CLASS -/
theorem lazy_error_eq_eager_error (b : DBase) (stages : List Stage) (e0 e : EagerD) (r : DRow)
    (hb : eagerBaseD b = .ok e0) (he : eagerD stages e0 = .ok (some e))
    (hr : buildD stages (baseD b) = .ok (some r)) (a : Acc) (ha : a.listAccess = true) :
    errD r a = eagerErrD e a := lazy_error_eq_eager_error' (dense_ref' b stages e0 e r hb he hr) a ha

/-- `row[i]`: nothing is raised inside the row, an IndexError (not a KeyError / TypeError / ValueError) at and beyond its end -/
theorem index_error_class (b : DBase) (stages : List Stage) (e0 e : EagerD) (r : DRow)
    (hb : eagerBaseD b = .ok e0) (he : eagerD stages e0 = .ok (some e))
    (hr : buildD stages (baseD b) = .ok (some r)) (i : Nat) :
    (i < e.cells.length → errD r (.pos i) = none) ∧ (e.cells.length ≤ i → errD r (.pos i) = some .indexError) :=
  pos_error_class' (dense_ref' b stages e0 e r hb he hr) i

/-- sparse: `row[k]` for a key the eager dict lacks is a KeyError, for a key it has nothing is raised; keys / items / len / copy / ==
never raise — as for the plain dict (by-key access outside the hidden raw keys of a header-mapped base, as in `sparse_get`) -/
theorem lazy_error_eq_eager_error_sparse (b : SBase) (stages : List Stage) (hs : leakSafe (!(baseS b).leak.isEmpty) stages = true) (e0 e : EagerS) (r : SRow)
    (he0 : eagerBaseS b = .ok e0) (he : eagerS stages e0 = .ok (some e))
    (hr : buildS stages (baseS b) = .ok (some r)) (a : Acc) (ha : a.dictAccess (· ∉ r.leak)) :
    errS r a = eagerErrS e a := lazy_error_eq_eager_error_sparse' (sparse_ref' b stages hs e0 e r he0 he hr).1 a ha

/-- non-vacuity: HeadRows + DropRows over a 3-column list; position 2 is beyond the end of the 2-column result: IndexError on both sides -/
example : (((buildD [.headNames ["a", "b", "c"], .drop [.name "b"] none] (baseD (.plain [.int 1, .int 2, .int 3]))).toOption.bind id).map
      (fun r => (errD r (.pos 2), errD r (.clone (.pos 1))))) = some (some .indexError, none) := by decide

/-- translator obligation: the public methods / properties the row-view classes of coba/primitives.py and coba/pipes/rows.py define
(extracted from the current source on every run) are exactly the protocol the model's access language covers.  A new public accessor
on a row view (or a removed one) breaks this proof. -/
theorem methods_covered :
    Coba.C13.Generated.extracted = true ∧ Coba.C13.Generated.rowViewMethods = coveredMethods := by decide

/-- every single class stays inside the protocol -/
theorem class_methods_covered :
    Coba.C13.Generated.rowViewClasses.all (fun c => allCovered c.2) = true := by decide

/-! ## Phase 5 -/

/-- `row.headers` on a table without header: the lazy row raises AttributeError (the class a plain list raises for `.headers`), through every pipeline -/
theorem headers_error_class (b : DBase) (stages : List Stage) (e0 e : EagerD) (r : DRow)
    (hb : eagerBaseD b = .ok e0) (he : eagerD stages e0 = .ok (some e))
    (hr : buildD stages (baseD b) = .ok (some r)) (hn : e.hdr = none) :
    r.headers = .error .attrError := headers_error_class' (dense_ref' b stages e0 e r hb he hr) hn

/-- `==` looks at the lengths: a row view never equals a sequence of ANOTHER length, whatever the surplus cells are (in particular
`None` / missing cells: the eager list `[4, None, None]` is not `[4]`) -/
theorem dense_eq_length_sensitive (b : DBase) (stages : List Stage) (e0 e : EagerD) (r : DRow)
    (hb : eagerBaseD b = .ok e0) (he : eagerD stages e0 = .ok (some e))
    (hr : buildD stages (baseD b) = .ok (some r)) (o : List Val) (hl : o.length ≠ e.cells.length) :
    r.eqList o = false := dense_eq_length_sensitive' (dense_ref' b stages e0 e r hb he hr) o hl

/-- the hypothesis-free comparison is not the same function: padding the shorter side with `None` (`zip_longest`) equates `[4, None, None]`
with `[4]` and `[1, 2]` with `[1, 2, None]`; the model's `==` does not (replayed on the real code: corpus family `eq-length`) -/
theorem dense_eq_padded_counterexample :
    eqPadded [.int 4, .none, .none] [.int 4] = true ∧ (DRow.plain [.int 4, .none, .none]).eqList [.int 4] = false ∧
    eqPadded [.int 1, .int 2] [.int 1, .int 2, .none] = true ∧ (DRow.plain [.int 1, .int 2]).eqList [.int 1, .int 2, .none] = false := by decide +kernel

/-- attribute forwarding does not depend on the depth of the wrapper chain: through ANY number of wrapping views without a `headers` slot of
their own (EncodeDense, LabelDense, KeepDense over a header-less row) `headers` is the attribute of the row below, and `missing` through any
wrapping views at all -/
theorem forwarding_depth_independent (ws : List DWrap) (r : DRow) :
    ((∀ w ∈ ws, w.transparent = true) → (wrapD ws r).headers = r.headers) ∧ (wrapD ws r).missing = r.missing :=
  ⟨wrapD_headers' ws r, wrapD_missing' ws r⟩

/-- sparse: `_inv` (the header map LabelRows reads) through any number of EncodeSparse / DropSparse / LabelSparse views, `missing` through any views -/
theorem forwarding_depth_independent_sparse (ws : List SWrap) (r : SRow) :
    ((∀ w ∈ ws, w.transparent = true) → (wrapS ws r).invOf = r.invOf) ∧ (wrapS ws r).missing = r.missing :=
  ⟨wrapS_inv' ws r, wrapS_missing' ws r⟩

/-- so LabelRows translates an integer label to the header name of the row at the bottom, however many views lie between -/
theorem label_key_depth_independent (ws : List SWrap) (r : SRow) (h : ∀ w ∈ ws, w.transparent = true) (k : Key) (t : Option String) :
    applyS (.label k t) (wrapS ws r) = .ok (some (.label (wrapS ws r) (labelKey r.invOf k) t)) :=
  label_key_depth_independent' ws r h k t

/-- the probe the driver and the harness run on every case (`EncodeRows({})` put on top d times) shows the same `headers`, `missing`, `len` / `_inv` at every depth -/
theorem probe_depth_independent (d : Nat) (r : DRow) (s : SRow) :
    ((probeD d r).headers = r.headers ∧ (probeD d r).missing = r.missing ∧ (probeD d r).len = r.len) ∧
    ((probeS d s).invOf = s.invOf ∧ (probeS d s).missing = s.missing) := ⟨probeD_headers' d r, probeS_inv' d s⟩

/-- non-vacuity: a header-mapped LazySparse below DropSparse, EncodeSparse, DropSparse: LabelRows(2) labels by the name 'c' -/
example : (applyS (.label (.pos 2) none) (wrapS [.drop [.name "a"], .encode [] [], .drop [.name "b"]]
      (.lazy (.loaded [(.pos 2, .int 5)]) [] [] [(.name "c", .pos 2)] [(.pos 2, .name "c")] false))).toOption.bind (fun o => o.map (fun r => r.labelVal.toOption)) =
    some (some (Val.int 5)) := by decide

/-- DropRows decides on the GIVEN row: the row predicate is evaluated before (and independently of) the column dropping; the result is either the
predicate's error, no row, or exactly what `DropRows(cols)` without predicate builds -/
theorem drop_row_sees_original (cols : List Key) (pred : Option Pred) (r : DRow) :
    applyD (.drop cols pred) r =
      (match evalPredD pred r with
       | .error e => .error e
       | .ok false => .ok none
       | .ok true => applyD (.drop cols none) r) := drop_row_sees_original' cols pred r

theorem drop_row_sees_original_sparse (cols : List Key) (pred : Option Pred) (r : SRow) :
    applyS (.drop cols pred) r =
      (match evalPredS pred r with
       | .error e => .error e
       | .ok false => .ok none
       | .ok true => applyS (.drop cols none) r) := drop_row_sees_original_sparse' cols pred r

/-- evaluating the predicate on the column-dropped view is another filter: `[1,'x',10]`, `DropRows([0], lambda r: r[1]=='x')` drops the row, the view's
`r[1]` is 10 and keeps it; `{'a':1,'b':'x'}`, `DropRows(['a'], lambda r: r['a']==1)` drops the row, the view raises KeyError (replayed: corpus family `drop-pred`) -/
theorem drop_row_on_view_counterexample :
    rowDropped (applyD (.drop [.pos 0] (some (.cellEq (.pos 1) (.str "x")))) (.plain [.int 1, .str "x", .int 10])) = true ∧
    rowKept (dropOnView [.pos 0] (some (.cellEq (.pos 1) (.str "x"))) (.plain [.int 1, .str "x", .int 10])) = true ∧
    rowDropped (applyS (.drop [.name "a"] (some (.cellEq (.name "a") (.int 1)))) (.plain [(.name "a", .int 1), (.name "b", .str "x")])) = true ∧
    rowRaised (dropOnViewS [.name "a"] (some (.cellEq (.name "a") (.int 1))) (.plain [(.name "a", .int 1), (.name "b", .str "x")])) = true := by decide +kernel

/-! ## Phase 6: iteration element by element (early consumer stop, abandoned iterators) -/

/-- a consumer that stops early: for every base / pipeline with a defined eager row and every `n`, calling `next()` `n` times on `iter(row)`
(`list(islice(row, n))`, a `zip` with a shorter partner, a `for … break`) yields exactly the first `n` cells of the eager list and raises nothing -/
theorem partial_iteration (b : DBase) (stages : List Stage) (e0 e : EagerD) (r : DRow)
    (hb : eagerBaseD b = .ok e0) (he : eagerD stages e0 = .ok (some e))
    (hr : buildD stages (baseD b) = .ok (some r)) (n : Nat) :
    r.takeN n = (e.cells.take n, none) := partial_iteration' b stages e0 e r hb he hr n

/-- the same for `row.feats` (DropOne: two chained `islice`s over two independent iterations of the labelled row), LabelRows last -/
theorem partial_iteration_feats (b : DBase) (stages : List Stage) (k : Key) (t : Option String) (e0 e : EagerD)
    (hb : eagerBaseD b = .ok e0) (he : eagerD (stages ++ [.label k t]) e0 = .ok (some e)) :
    ∃ r f ef, buildD (stages ++ [.label k t]) (baseD b) = .ok (some r) ∧ r.feats = .ok f ∧ e.feats = some ef ∧
      ∀ n, f.takeN n = (ef.cells.take n, none) := partial_iteration_feats' b stages k t e0 e hb he

/-- the element-by-element model agrees with the whole-row one: for EVERY row object (no hypothesis on base or pipeline), whenever `list(row)`
is a value in the model, the generator pipeline produces exactly these values, one per `next()`, and no exception -/
theorem stream_of_iter_ok (r : DRow) (xs : List Val) (h : r.iter = .ok xs) : r.stream = xs.map .ok := stream_of_iter_ok' r xs h

/-- stopping earlier shows a prefix of what stopping later shows, and can only raise what the longer consumer raises too
(every row object, defined eager row or not) -/
theorem takeN_prefix (r : DRow) (m n : Nat) (h : m ≤ n) :
    (r.takeN m).1 = (r.takeN n).1.take m ∧ ((r.takeN m).2 = none ∨ (r.takeN m).2 = (r.takeN n).2) := takeN_prefix' r m n h

/-- read / abandon / read again: after a partial iteration that was abandoned (the base row is loaded, nothing else happened) every history of
accesses — and every further partial iteration — answers as on the untouched row -/
theorem abandoned_iteration (r : DRow) (n : Nat) (as : List Acc) :
    runD (stepTake r n).2 as = runD r as ∧ (stepTake r n).2.takeN = r.takeN := abandoned_iteration' r n as

/-- the hypotheses of `partial_iteration` are satisfiable and the statement is not about the empty prefix only:
LazyDense(loader) `['1','2','3']`, header a,b,c, `int` per column, drop b, label c: two `next()` give `[1,3]`, one gives `[1]` -/
example : ∃ e0 e r, eagerBaseD exBase = .ok e0 ∧ eagerD exStages e0 = .ok (some e) ∧ buildD exStages (baseD exBase) = .ok (some r) ∧
    r.takeN 1 = ([.int 1], none) ∧ r.takeN 2 = ([.int 1, .int 3], none) ∧ r.takeN 5 = ([.int 1, .int 3], none) :=
  ⟨_, _, _, rfl, rfl, rfl, by decide +kernel, by decide +kernel, by decide +kernel⟩

/-- where the eager row is undefined (a cell's encoder raises) the ORDER of raising is part of the model: `LazyDense(['1','x','3'], [int,int,int])`
(1) its `feats` for label column 1 (DropOne): one `next()` gives 1, the second raises ValueError — skipping the label cell evaluates it, although
`feats` never shows it; (2) behind `DropRows([1])` (KeepDense, `compress`): the dropped cell still raises at the second `next()`;
(3) position 1 of the KeepDense row is fine (`row[1] == 3`): by position the dropped cell is never evaluated (replayed: corpus family `walk`) -/
theorem raise_order_witness :
    let base := DRow.lazy (.loaded [.str "1", .str "x", .str "3"]) (some [.toInt, .toInt, .toInt]) none false
    (DRow.dropOne base 1).takeN 1 = ([.int 1], none) ∧ (DRow.dropOne base 1).takeN 2 = ([.int 1], some .valueError) ∧
    (DRow.keep base [0, 2] [] [true, false, true] 2 none).takeN 1 = ([.int 1], none) ∧
    (DRow.keep base [0, 2] [] [true, false, true] 2 none).takeN 2 = ([.int 1], some .valueError) ∧
    ((DRow.keep base [0, 2] [] [true, false, true] 2 none).getPos 1).toOption = some (.int 3) := by intro base; decide +kernel

/-- raise order of `row.feats`, in general: whenever the first failing element of the labelled row is at or before the label column (`xs` = the cells before it, all fine),
every consumer of `iter(row.feats)` that asks for more than `xs.length` elements gets exactly `xs` and then that element's exception — in particular a failing LABEL cell
(`xs.length = ind`) raises out of `feats`, which never shows it (DropOne's second `islice` skips by evaluating).  Every row object, every label position. -/
theorem feats_iteration_first_error (r : DRow) (ind : Nat) (xs : List Val) (e : Err) (t : List (Res Val))
    (h : r.stream = xs.map .ok ++ .error e :: t) (hl : xs.length ≤ ind) (n : Nat) (hn : xs.length < n) :
    (DRow.dropOne r ind).takeN n = (xs, some e) := feats_iteration_first_error' r ind xs e t h hl n hn

/-- its hypotheses are met by the witness row: `LazyDense(['1','x','3'],[int,int,int])`, label column 1 -/
example : (DRow.lazy (.loaded [.str "1", .str "x", .str "3"]) (some [.toInt, .toInt, .toInt]) none false).stream
    = [Val.int 1].map .ok ++ .error .valueError :: [.ok (.int 3)] := by rfl

/-- why `stream_of_iter_ok` goes from `iter` to `stream` only: on a jagged table (`DropRows` computed its selectors `[True]` from a one-column first row) the row
`LazyDense(['1','2','x'],[int,int,int])` iterates to `[1]` without ever pulling the failing third cell (`compress` stops when the selectors end, one datum after them),
while the whole-list model `iter` encodes the complete inner row first and raises.  The element-wise model follows the code (replayed: corpus family `walk`, jagged case) -/
theorem iter_vs_stream_short_selector_witness :
    let r := DRow.keep (.lazy (.loaded [.str "1", .str "2", .str "x"]) (some [.toInt, .toInt, .toInt]) none false) [0] [] [true] 1 none
    r.iter.toOption = none ∧ r.takeN 5 = ([.int 1], none) := by intro r; decide +kernel

/-- translator obligation: the guard of `__getattr__` in each of the four base classes is `attr == '_row'` (so `_inv`, `_fwd`, `headers`, `missing`, `feats`,
`label` … are forwarded), and each concrete row-view class defines `__len__` / `__iter__` itself and leaves `__eq__` / `__getattr__` to its base class -/
theorem getattr_guard_extracted :
    Coba.C13.Generated.getattrGuards = baseClasses.map (fun c => (c, forwardGuard.1, forwardGuard.2)) ∧
    forwarded "_inv" = true ∧ forwarded "headers" = true ∧ forwarded "missing" = true ∧ forwarded "_row" = false := by decide

theorem protocol_table_extracted : Coba.C13.Generated.protocolTable = protocolTable := by decide

end Coba.C13
