/-
C04 — Environments can be read any number of times with identical results.
Property theorems only (helper lemmas live in `Lemmas/C04.lean`, the model in `Model/C04.lean`).

Reading of the statement.  A pipeline object denotes `(D, P)`: the sequence `Obj.den` obtained by
applying the stateless meaning of every stage to the source data, and `Obj.denParams`.  A history is
any list of `Op`s over the pool of objects derived from it (full read, read abandoned after `k`
items, params look-up, `materialize()`, `cache()`, `chunk()`, pickle round-trip, `save()/from_save()`).
`WorldGood D P w` collects the hypotheses: repaired code (`Variant.fixed`, no as-is Shuffle, the
source is re-iterable), surviving fields consistent, `Finalize` leaves finalized output unchanged.
Nothing is assumed about what the stateless filters compute or how lazily they pull.
-/
import CobaVerif.Lemmas.C04

namespace Coba.C04

/-- a stateless stage over a restartable upstream is restartable: whatever read session `d` was
run on the chain before, it delivers `f` of the upstream's denotation -/
theorem pure_stage_stable (u : List Item) (ns : List Node) (h : chainOK u ns) (p : PureSt) (d : Demand) :
    viewN u (ns ++ [.pure p]) = p.f (denN u ns) ∧
    viewN u (touchN u (ns ++ [.pure p]) d).1 = p.f (denN u ns) := pure_stage_stable' u ns h p d

/-- `pipes.Cache` (any slice size, protected or not) over an upstream delivering `U`: after ANY
sequence of read sessions (complete, abandoned after k items, never started) the next read
delivers `U`, and the invariant `_cache ++ remaining(_iter) = U` (resp. `_cache = U` once the
saved iterator is exhausted) holds -/
theorem cache_replay (sz : Option Nat) (prot : Bool) (U : List Item) (ds : List Demand) :
    nodeView (sessions (.cache sz prot .unread) U ds) U = U ∧
    nodeOK (sessions (.cache sz prot .unread) U ds) U := cache_replay' sz prot U ds

/-- the buffer never loses or duplicates an item while slices are pulled -/
theorem cache_fill_conserves (sz fuel : Nat) (c r : List Item) (k : Nat) :
    (fill sz fuel c r k).1 ++ (fill sz fuel c r k).2 = c ++ r := fill_append sz fuel c r k

/-- `EmptyCheck`/`Finalize`: the `_isempty` flag set by the first started read never changes
what later reads deliver -/
theorem emptycheck_stable (p : PureSt) (U : List Item) (ds : List Demand) :
    nodeView (sessions (.finalize p none) U ds) U = (if U = [] then [] else p.f U) :=
  emptycheck_stable' p U ds

/-- Densify's lookup table: after any history of reads that each used a prefix of the key stream
`K` (abandoned reads), a full read leaves exactly the table a fresh full read builds, i.e. every
key keeps the index it would get on a fresh object -/
theorem densify_lookup_prefix_stable (K : List Nat) (ms : List Nat) :
    feed (feedHistory K [] ms) K = feed [] K := densify_lookup_prefix_stable' K ms

/-- chains of consistent stages are stable: a read session driven to any point leaves the chain
consistent and the next session delivers the denotation (induction over the chain; no
assumption on the laziness signatures) -/
theorem compose_stable (u : List Item) (ns : List Node) (h : chainOK u ns) (d : Demand) :
    viewN u ns = denN u ns ∧ viewN u (touchN u ns d).1 = denN u ns ∧ chainOK u (touchN u ns d).1 :=
  compose_stable' u ns h d

/-- RE-READ.  For every history of operations on the pool, every full read returns the
denotation `D` and every abandoned read the corresponding prefix (`skip` = the operation
addressed an object that does not exist) -/
theorem reread (D : List Item) (P : List Nat) (w : World) (hw : WorldGood D P w) (ops : List Op) :
    List.Forall₂ (OutOK D) ops (run w ops) := reread' ops hw

/-- the hypotheses are preserved by every history (so objects obtained from `materialize()`,
`cache()`, `chunk()`, pickling and `save()/from_save()` denote the same `D`, `P`) -/
theorem derived_objects_good (D : List Item) (P : List Nat) (w : World) (hw : WorldGood D P w) (ops : List Op) :
    WorldGood D P (runW w ops) := runW_good ops hw

/-- PARAMS.  Once an object has been read completely, every later params look-up on it returns
`P`, whatever was done before the read and in between -/
theorem params_after_read (D : List Item) (P : List Nat) (w : World) (hw : WorldGood D P w)
    (pre mid : List Op) (j : Nat) (hj : ∃ o, getObj (runW w pre) j = some o) :
    (run w (pre ++ [.full j] ++ mid ++ [.params j])).getLast? = some (.params P) :=
  params_after_read' hw pre mid j hj

/-- ... and the objects handed out by `materialize()` and `save()` have been read already -/
theorem params_of_materialized_or_saved (D : List Item) (P : List Nat) (w : World) (hw : WorldGood D P w)
    (j : Nat) (o : Obj) (ho : getObj w j = some o) (op : Op) (hop : op = .materialize j ∨ op = .save j)
    (hnc : op = .materialize j → lastIsCache (finalized w.fin o.base).1 = false) :
    (step (step w op).1 (.params w.objs.length)).2 = .params P :=
  params_of_started (step_good hw op).1 _ (derived_started w j o ho op hop hnc)

/-- SOURCE.  No history, in either variant of the code, changes the data a source holds -/
theorem source_unchanged (w : World) (ops : List Op) (j : Nat) (xs : List Item)
    (h : ∃ o, getObj w j = some o ∧ o.src.items = xs) :
    ∃ o, getObj (runW w ops) j = some o ∧ o.src.items = xs := source_unchanged' ops w j xs h

/-! ### the hypotheses are satisfiable: a non-trivial pipeline -/

def idP : PureSt := { f := id, dem := fun _ d => d, par := [] }
def revP : PureSt := { f := List.reverse, dem := fun _ d => if d.isNone then .none else .all, par := [7] }
def src5 : Src := { once := false, items := [0, 1, 2, 3, 4], rem := [], started := false, parPre := [1], parPost := [1, 2] }
def realPerm : Nat → List Item → List Item
  | 0, xs => applyPerm [2, 0, 4, 3, 1] xs      -- CobaRandom(4).shuffle
  | 1, xs => applyPerm [2, 1, 3, 0, 4] xs      -- CobaRandom(12.84).shuffle        (4*3.21)
  | 2, xs => applyPerm [4, 0, 3, 2, 1] xs      -- CobaRandom(41.2164).shuffle      (4*3.21*3.21)
  | _, xs => xs

def goodWorld : World :=
  { fin := idP, variant := .fixed,
    objs := [some { src := src5, ownFin := true,
                    nodes := [.pure revP, .shuffle .fixed realPerm true (fun d => [40 + d]) 0, .cache (some 2) false .unread, .finalize idP none] }] }

example : WorldGood [2, 3, 1, 4, 0] [1, 2, 7, 40] goodWorld := by
  refine ⟨rfl, by decide, ?_⟩
  intro o ho
  simp only [goodWorld, List.mem_singleton, Option.some.injEq] at ho
  subst ho
  exact ⟨rfl, by simp [chainOK, nodeOK, Node.Fixed], by decide, by decide, by decide,
    fun _ => ⟨[.pure revP, .shuffle .fixed realPerm true (fun d => [40 + d]) 0, .cache (some 2) false .unread], none, rfl, by decide⟩⟩

/-- a history over it with an abandoned read, a pickle, a save and reads of all three objects -/
example : run goodWorld [.part 0 3, .full 0, .pickle 0, .part 1 1, .save 1, .full 2, .params 2, .full 1, .params 0] =
    [.items [2, 3, 1], .items [2, 3, 1, 4, 0], .derived, .items [2], .derived, .items [2, 3, 1, 4, 0],
     .params [1, 2, 7, 40], .items [2, 3, 1, 4, 0], .params [1, 2, 7, 40]] := by decide

/-! ### the code as it is: each repair is necessary (witnesses replayed on the real code) -/

/-- F1 (P5): logged `Shuffle` as it is — `Environments...logged(..).shuffle(4)` over 5 interactions,
history `[full, abandoned after 2, full, params]`: the third read has another order and the
reported `shuffle_seed` has changed. -/
def shuffleAsIs : World :=
  { fin := idP, variant := .asis,
    objs := [some { src := src5, ownFin := true,
                    nodes := [.shuffle .asis realPerm true (fun d => [40 + d]) 0, .finalize idP none] }] }

theorem shuffle_abandon_counterexample :
    run shuffleAsIs [.full 0, .part 0 2, .full 0, .params 0] =
      [.items [2, 1, 3, 0, 4], .items [2, 1], .items [4, 0, 3, 2, 1], .params [1, 2, 41]] ∧
    ¬ List.Forall₂ (OutOK [2, 1, 3, 0, 4]) [.full 0, .part 0 2, .full 0] (run shuffleAsIs [.full 0, .part 0 2, .full 0]) := by
  refine ⟨by decide, ?_⟩
  intro h
  have hrun : run shuffleAsIs [.full 0, .part 0 2, .full 0] =
      [.items [2, 1, 3, 0, 4], .items [2, 1], .items [4, 0, 3, 2, 1]] := by decide
  rw [hrun] at h
  cases h with
  | cons _ h =>
    cases h with
    | cons _ h =>
      cases h with
      | cons h3 _ => rcases h3 with h3 | h3 <;> exact absurd h3 (by decide)

/-- `shuffle_logged_stable_partial`: as it is, the logged Shuffle is stable exactly as long as no
read session on it is abandoned (every session is never started or driven to the end) -/
theorem shuffle_logged_stable_partial (perm : Nat → List Item → List Item) (lg : Bool) (par : Nat → List Nat) (dep : Nat)
    (u : List Item) (ds : List Demand) (h : ∀ d ∈ ds, d = .none ∨ d = .all) :
    sessions (.shuffle .asis perm lg par dep) u ds = .shuffle .asis perm lg par dep :=
  shuffle_complete_reads' perm lg par dep u ds h

example : ∀ d ∈ [Demand.all, Demand.none, Demand.all], d = .none ∨ d = .all := by decide

/-- F2 (P6): `from_supervised(X,Y)` as it is (one-shot `zip`): the second read is empty -/
def oneShotAsIs : World :=
  { fin := idP, variant := .asis,
    objs := [some { src := { src5 with once := true, rem := [0, 1, 2, 3, 4] }, ownFin := true, nodes := [.finalize idP none] }] }

theorem oneshot_counterexample :
    run oneShotAsIs [.full 0, .full 0] = [.items [0, 1, 2, 3, 4], .items []] := by decide

/-- F3: as it is, an environment with a half-filled `Cache` cannot be pickled (`_iter` is a live
generator); with the repair the copy starts unread and reads the denotation -/
def cacheWorld (v : Variant) : World :=
  { fin := idP, variant := v,
    objs := [some { src := src5, ownFin := true, nodes := [.cache (some 2) false .unread, .finalize idP none] }] }

theorem pickle_partial_cache_counterexample :
    run (cacheWorld .asis) [.part 0 1, .pickle 0, .full 1] = [.items [0], .err, .skip] ∧
    run (cacheWorld .fixed) [.part 0 1, .pickle 0, .full 1] = [.items [0], .derived, .items [0, 1, 2, 3, 4]] := by
  constructor <;> decide

/-- F4: as it is, `save()` records the params before it reads, so a supervised source that was
never read is saved without `n_actions` (token 2) -/
theorem save_params_counterexample :
    run (cacheWorld .asis) [.save 0, .params 1, .params 0] = [.derived, .params [1], .params [1, 2]] ∧
    run (cacheWorld .fixed) [.save 0, .params 1, .params 0] = [.derived, .params [1, 2], .params [1, 2]] := by
  constructor <;> decide

/-- F7 (recorded, not repaired): the hypothesis `finIdem` of `reread` is necessary.  `Finalize`
(through `BatchSafe`, which re-batches with the size of the first batch) is not idempotent on every
finalized output; `save()/from_save()` finalizes again, so the reloaded environment then differs.
Here `regroup` stands for such a `Finalize`: [0,1|2,3,4] ↦ [0,1|2,3|4] written with batch ids. -/
def regroupP : PureSt :=
  { f := fun xs => if xs = [12, 345] then [12, 34, 5] else xs, dem := fun _ d => d, par := [] }

def regroupWorld : World :=
  { fin := regroupP, variant := .fixed,
    objs := [some { src := { src5 with items := [12, 345] }, ownFin := false,
                    nodes := [.finalize idP none, .pure idP] }] }

theorem finalize_twice_counterexample :
    finF regroupWorld.fin [12, 345] ≠ [12, 345] ∧
    run regroupWorld [.full 0, .save 0, .full 1] = [.items [12, 345], .derived, .items [12, 34, 5]] := by
  constructor <;> decide

/-! # Phase 2 -/

/-- BUILT-IN FILTERS.  For a pipeline made of Take / Slice / (repaired) Shuffle / Riffle / Sort /
Where / item-wise rewriting filters the denotation is the closed form `filtDen` (the functions of
`Model/C09`, seeds through `Model/C05`), and that is what every read session delivers, before and
after any other session -/
theorem filter_pipeline_reads (att : Item → Attr) (fs : List (Filt × List Nat)) (u : List Item) (d : Demand) :
    viewN u (filtNodes att fs) = filtDen att u fs ∧
    viewN u (touchN u (filtNodes att fs) d).1 = filtDen att u fs := filter_pipeline_reads' att fs u d

/-- NOISE.  `Noise.filter` creates `CobaRandom(seed)` per call: every read, complete or abandoned,
is the corresponding prefix of ONE sequence; an abandoned read scans only what it saw -/
theorem noise_fresh_rng_stable (step : Nat → Item → Nat × Item) (seed : Nat) (u : List Item) (ds : List Demand) :
    noiseFresh step seed u ds = ds.map (fun d => d.take (noiseScan step seed u).2) :=
  noiseFresh_eq step seed u ds

theorem noise_prefix (step : Nat → Item → Nat × Item) (u : List Item) (s k : Nat) :
    (noiseScan step s (u.take k)).2 = (noiseScan step s u).2.take k := noiseScan_take step u s k

/-- … and the per-call generator is necessary: a filter that keeps its generator between reads
gives another sequence on the second read -/
theorem noise_kept_rng_counterexample :
    noiseFresh (fun s x => (s + 1, x + s)) 0 [0, 0] [.all, .all] = [[0, 1], [0, 1]] ∧
    noiseKept (fun s x => (s + 1, x + s)) [0, 0] 0 [.all, .all] = [[0, 1], [2, 3]] := by
  constructor <;> decide

/-- COLLECTIONS.  In a pool holding the members of a collection, no operation addressed to other
objects — reads, abandoned reads, params, or the shortcuts `cache/chunk/materialize/pickle/save`
applied to them — changes member `j` at all (hence not what it yields nor its params) -/
theorem collection_members_independent (w : World) (ops : List Op) (j : Nat) (hj : j < w.objs.length)
    (h : ∀ op ∈ ops, op.on ≠ j) : getObj (runW w ops) j = getObj w j :=
  collection_members_independent' ops w j hj h

/-- forced hypothesis "a fresh pipe per member": with ONE `Cache` object for the whole collection
(`self.filter(Cache(25))`), reading member 1 after member 0 replays member 0's interactions -/
theorem shared_cache_counterexample :
    sharedCacheReads (some 25) .unread [[0, 1], [5, 6, 7]] [0, 1] = [[0, 1], [0, 1]] ∧
    sharedCacheReads (some 25) .unread [[0, 1], [5, 6, 7]] [1, 0] = [[5, 6, 7], [5, 6, 7]] := by
  constructor <;> decide

def twoMembers : World :=
  { fin := idP, variant := .fixed,
    objs := [some { src := { src5 with items := [0, 1] }, ownFin := true, nodes := [.finalize idP none] },
             some { src := { src5 with items := [5, 6, 7] }, ownFin := true, nodes := [.finalize idP none] }] }

/-- `Environments.cache()` as it is (a fresh Cache per member): each member keeps its own data -/
example : run (cacheAll twoMembers [0, 1]) [.full 2, .full 3, .part 2 1, .full 3, .full 2] =
    [.items [0, 1], .items [5, 6, 7], .items [0], .items [5, 6, 7], .items [0, 1]] := by decide

/-- CALLER-OWNED OBJECTS.  Constructor arguments are heap cells of their own; when no source
rewrites the cell it was built from, no history changes any of them (and the outputs are those of
the plain model) -/
theorem caller_objects_unchanged (h : HWorld) (ops : List Op) (hne : ∀ j, h.argEdit j = none) :
    (hrunW h ops).caller = h.caller ∧ hrun h ops = run h.w ops := caller_objects_unchanged' ops h hne

/-- forced hypothesis: a source that edits the list it was given in place (`reward_features` with a
missing feature group: "xa" ↦ "a", codes 2 ↦ 1) changes the caller's object on the first started read -/
def editsArg : HWorld :=
  { w := cacheWorld .fixed, caller := [[1, 2]],
    argEdit := fun j => if j = 0 then some (0, fun l => l.map (fun c => if c = 2 then 1 else c)) else none }

theorem inplace_argument_edit_counterexample :
    (hrunW editsArg [.params 0, .part 0 0]).caller = [[1, 2]] ∧
    (hrunW editsArg [.part 0 1]).caller = [[1, 1]] := by
  constructor <;> decide

/-- MEMOISATION (`GroundedFeedback.__call__` under `lru_cache(maxsize=None)`): whatever is evaluated
in between, re-evaluating the (instance, argument) pairs of a read returns the values of the first time -/
theorem memo_stable_across_reads (draw : Nat → Nat → Nat → Nat) (m : Memo) (qs : List (Nat × Nat))
    (mids : List (List (Nat × Nat))) :
    (Memo.read none draw (Memo.after none draw (Memo.read none draw m qs).1 mids) qs).2 = (Memo.read none draw m qs).2 :=
  memo_stable_across_reads' draw m qs mids

/-- forced hypothesis "unbounded": with room for 2 entries, the third evaluation evicts the first and the
second read of the same pairs draws again from the advanced generators -/
theorem memo_bounded_counterexample :
    Memo.reads none (fun i k a => 100 * i + 10 * k + a) ⟨[], []⟩ [[(0, 0), (0, 1), (1, 0)], [(0, 0), (0, 1), (1, 0)]] =
      [[0, 11, 100], [0, 11, 100]] ∧
    Memo.reads (some 2) (fun i k a => 100 * i + 10 * k + a) ⟨[], []⟩ [[(0, 0), (0, 1), (1, 0)], [(0, 0), (0, 1), (1, 0)]] =
      [[0, 11, 100], [20, 31, 110]] := by
  constructor <;> decide

/-! # Phase 3 -/

/-- CONTENT-REWRITING FILTERS.  A stage that is `Model/C10`'s Repr / Flatten / Sparsify / Densify / Finalize
applied to the content of the interactions (`dec`/`enc` arbitrary): appended to a consistent chain it delivers
that function of the upstream's denotation, before and after any read session — so `reread` speaks about
pipelines containing them -/
theorem content_stage_reads (dec : Item → C10.Inter) (enc : C10.Inter → Item) (cfg : C10.Cfg) (st : C10.Step) (par : List Nat)
    (u : List Item) (ns : List Node) (h : chainOK u ns) (d : Demand) :
    viewN u (ns ++ [.pure (contentPure dec enc cfg st par)]) = contentF dec enc cfg st (denN u ns) ∧
    viewN u (touchN u (ns ++ [.pure (contentPure dec enc cfg st par)]) d).1 = contentF dec enc cfg st (denN u ns) :=
  content_stage_reads' dec enc cfg st par u ns h d

/-- ALIASING.  When no stage of the pipeline writes into the objects it receives (every built-in filter
copies before it changes anything: `interaction.copy()`, `Mutable`), a read leaves every object that
existed before it — the data held by the source, a cache or the caller — exactly as it was -/
theorem no_stage_writes_input (ss : List AStage) (h : ∀ s ∈ ss, s.writesInput = false) (st : Store) (held : List Nat) :
    (readOnce ss st held).1.take st.length = st := no_stage_writes_input' ss h st held

/-- … and the next read of the same held objects delivers the same values -/
theorem second_read_same (ss : List AStage) (h : ∀ s ∈ ss, s.writesInput = false) (st : Store) (held : List Nat)
    (hv : ∀ a ∈ held, a < st.length) :
    deliver (readOnce ss (readOnce ss st held).1 held) = deliver (readOnce ss st held) :=
  second_read_same' ss h st held hv

example : ∀ s ∈ [AStage.share, AStage.copyMap (· * 2), AStage.copyMap (· + 1)], s.writesInput = false := by decide
example : deliver (readOnce [.share, .copyMap (· * 2), .copyMap (· + 1)] [5, 7] [0, 1]) = [11, 15] := by decide

/-- forced hypothesis: a stage that scales in place what a cache handed out (the round-1 `Mutable` mutant):
the held objects change and the second read is scaled twice -/
theorem inplace_stage_counterexample :
    (readOnce [.share, .inPlace (· * 2)] [5, 7] [0, 1]).1 = [10, 14] ∧
    deliver (readOnce [.share, .inPlace (· * 2)] [5, 7] [0, 1]) = [10, 14] ∧
    deliver (readOnce [.share, .inPlace (· * 2)] (readOnce [.share, .inPlace (· * 2)] [5, 7] [0, 1]).1 [0, 1]) = [20, 28] := by
  refine ⟨by decide, by decide, by decide⟩

/-- SAVE / FROM_SAVE on the sequence: writing the interactions in batches (1000 in coba: `n+1` here) and
chaining the batches read back gives the sequence that was written, for every batch size -/
theorem load_save_batches (n : Nat) (xs : List Item) : loadBatches (saveBatches n xs) = xs := load_save_batches' n xs

/-! ## Phase 4 -/

/-- FITTING-WINDOW FILTERS.  A stage that is `Model/C11`'s Scale / Impute (or Noise as a scan from its seed) applied to the
CONTENT of the contexts, appended to a consistent chain, delivers that function of the upstream's denotation before and after
any read session (complete, abandoned after `k`, never started): the window is taken from what `read()` of the upstream
gives on THIS call, nothing of an earlier read survives.  `dec`/`enc`, the statistics configuration and the laziness are arbitrary. -/
theorem fit_stage_reads (sd : List Rat → Rat) (dec : List Item → C11.Ctxs) (enc : C11.Ctxs → List Item) (s : FitStage) (par : List Nat)
    (u : List Item) (ns : List Node) (h : chainOK u ns) (d : Demand) :
    viewN u (ns ++ [.pure (fitPure sd dec enc s par)]) = enc (s.apply sd (dec (denN u ns))) ∧
    viewN u (touchN u (ns ++ [.pure (fitPure sd dec enc s par)]) d).1 = enc (s.apply sd (dec (denN u ns))) :=
  fit_stage_reads' sd dec enc s par u ns h d

/-- … and for every CHAIN of such stages behind any consistent chain (caches, shuffles, other filters): the contents a read
delivers are the closed form `fitDen` of the upstream's contents, the first time and after any session
(`second_read_same` for pipelines with fitting windows; `hde`: interning contents is faithful) -/
theorem fit_pipeline_reads (sd : List Rat → Rat) (dec : List Item → C11.Ctxs) (enc : C11.Ctxs → List Item) (hde : ∀ c, dec (enc c) = c)
    (u : List Item) (ns : List Node) (h : chainOK u ns) (ss : List (FitStage × List Nat)) (d : Demand) :
    dec (viewN u (ns ++ ss.map (fun s => Node.pure (fitPure sd dec enc s.1 s.2)))) = fitDen sd (ss.map (·.1)) (dec (denN u ns)) ∧
    dec (viewN u (touchN u (ns ++ ss.map (fun s => Node.pure (fitPure sd dec enc s.1 s.2))) d).1) = fitDen sd (ss.map (·.1)) (dec (denN u ns)) :=
  fit_pipeline_reads' sd dec enc hde u ns h ss d

/-- every read through the real stage (a fresh upstream iterator per call) is the demanded prefix of ONE sequence -/
theorem fit_window_fresh_each_read (sd : List Rat → Rat) (s : FitStage) (c : C11.Ctxs) (ds : List Demand) :
    fitReadsFresh sd s c ds = ds.map (fun d => demTake d (s.apply sd c)) := fit_reads_fresh' sd s c ds

/-- a stage that kept its upstream iterator between reads would agree with it only until something has been pulled … -/
theorem fit_kept_iterator_partial (sd : List Rat → Rat) (s : FitStage) (c : C11.Ctxs) (d : Demand) (n : Nat) :
    fitReadsKept sd s c 0 (List.replicate n .none ++ [d]) = fitReadsFresh sd s c (List.replicate n .none ++ [d]) :=
  fit_kept_unread' sd s c d n

def denseRows : C11.Ctxs → List (List C11.Val)
  | .dense r => r
  | _ => []

/-- … forced: `Scale(shift="min", scale=1, using=2)` over contexts [1],[3],[5],[7]; a read abandoned after one item, then a
complete read.  Real stage: the second read is [0],[2],[4],[6].  Kept iterator: it fits on what is left ([5],[7]) and
delivers [0],[2] -/
theorem fit_kept_iterator_counterexample :
    (fitReadsFresh (fun _ => 1) (.scale ⟨⟨.min, .num 1, some 2⟩, "context"⟩) (.dense [[.num 1], [.num 3], [.num 5], [.num 7]]) [.pull 1, .all]).map denseRows
      = [[[.num 0]], [[.num 0], [.num 2], [.num 4], [.num 6]]] ∧
    (fitReadsKept (fun _ => 1) (.scale ⟨⟨.min, .num 1, some 2⟩, "context"⟩) (.dense [[.num 1], [.num 3], [.num 5], [.num 7]]) 0 [.pull 1, .all]).map denseRows
      = [[[.num 0]], [[.num 0], [.num 2]]] := by
  refine ⟨by decide +kernel, by decide +kernel⟩

/-- ALIASING, every stage.  For EVERY pipeline built from stages that put their results into new objects (`alloc F`, `F` any
function of all the values the stage is handed: row-wise maps, Scale / Impute with their window, Noise's scan, …), hand the
same objects on (`share`) or hand on a selection of them (`pick`: Take, Slice, Shuffle, Sort, Where, Reservoir, Cache replay),
a read leaves every object that existed before it — held by the source, a cache or the caller — exactly as it was -/
theorem no_stage_writes_input_general {α : Type} (d : α) (ss : List (GStage α)) (h : ∀ s ∈ ss, s.writesInput = false) (st : List α) (held : List Nat) :
    (greadOnce d ss st held).1.take st.length = st := gno_stage_writes_input' d ss h st held

/-- … and the next read of the same held objects delivers the same values -/
theorem second_read_same_general {α : Type} (d : α) (ss : List (GStage α)) (h : ∀ s ∈ ss, s.writesInput = false) (st : List α) (held : List Nat)
    (hv : ∀ a ∈ held, a < st.length) :
    gdeliver d (greadOnce d ss (greadOnce d ss st held).1 held) = gdeliver d (greadOnce d ss st held) :=
  gsecond_read_same' d ss h st held hv

/-- Scale / Impute / Noise as they are (`FitStage.toG`) never write into what they are handed, so both theorems apply to every
pipeline that contains them -/
theorem fit_stages_do_not_write (sd : List Rat → Rat) (s : FitStage) : (s.toG sd).writesInput = false := fit_toG_no_write sd s

/-- what a sharing / selecting stage delivers are objects it was handed (identity, not only equality) -/
theorem pick_delivers_held_objects {α : Type} (d : α) (s : GStage α) (hs : s = .share ∨ ∃ sel, s = .pick sel) (st : List α) (as : List Nat) :
    ∀ a ∈ (s.run d (st, as)).2, a ∈ as := gpick_delivers_held d s hs st as

example : ∀ s ∈ [GStage.share, GStage.pick (fun n => (List.range n).reverse), GStage.alloc (List.map (· * 2))], s.writesInput = false := by decide
example : greadOnce 0 [.share, .pick (fun n => (List.range n).reverse), .alloc (List.map (· * 2))] [5, 7] [0, 1] = ([5, 7, 14, 10], [2, 3]) := by decide
example : identityPattern 2 (greadOnce 0 [.share, .pick (fun n => (List.range n).reverse)] [5, 7] [0, 1]).2 = [some 1, some 0] := by decide

/-- forced hypothesis, on the new stages: `Scale(shift=1, scale=2)` written back into the contexts a cache handed out —
the held contexts change and the second read is scaled twice -/
theorem fit_inplace_counterexample :
    (greadOnce [] [.share, FitStage.toGInPlace (fun _ => 1) (.scale ⟨⟨.num 1, .num 2, none⟩, "context"⟩)] [[.num 1, .num 3], [.num 2, .num 0]] [0, 1]).1
      = [[.num 4, .num 8], [.num 6, .num 2]] ∧
    gdeliver [] (greadOnce [] [.share, FitStage.toGInPlace (fun _ => 1) (.scale ⟨⟨.num 1, .num 2, none⟩, "context"⟩)]
      (greadOnce [] [.share, FitStage.toGInPlace (fun _ => 1) (.scale ⟨⟨.num 1, .num 2, none⟩, "context"⟩)] [[.num 1, .num 3], [.num 2, .num 0]] [0, 1]).1 [0, 1])
      = [[.num 10, .num 18], [.num 14, .num 6]] ∧
    gdeliver [] (greadOnce [] [.share, FitStage.toG (fun _ => 1) (.scale ⟨⟨.num 1, .num 2, none⟩, "context"⟩)]
      (greadOnce [] [.share, FitStage.toG (fun _ => 1) (.scale ⟨⟨.num 1, .num 2, none⟩, "context"⟩)] [[.num 1, .num 3], [.num 2, .num 0]] [0, 1]).1 [0, 1])
      = [[.num 4, .num 8], [.num 6, .num 2]] := by
  refine ⟨by decide +kernel, by decide +kernel, by decide +kernel⟩

/-! ## Phase 5: translator obligations.  `Generated/C04Stages.lean` is regenerated from the CURRENT coba source on every run
(`harness/props/c04.py`, `pre_build`, Python `ast`); these theorems say that what was extracted is what the model assumes. -/

/-- the classes of environments/filters.py, pipes/filters.py and the environment sources that write instance attributes outside
`__init__` (per-object state that survives between reads), with the attributes, are exactly the rows of the model's `stageTable`;
the file holds exactly the filter classes the model knows; the only iterator / generator / defaultdict a filter creates in
`__init__` and keeps is Densify's look-up table -/
theorem stage_table_matches_source :
    Generated.extracted = true ∧
    Generated.envStateful = stageRows "env" ∧ Generated.pipeStateful = stageRows "pipe" ∧ Generated.srcStateful = stageRows "src" ∧
    Generated.envClasses = modelEnvClasses ∧
    Generated.envHeld = modelEnvHeld ∧ Generated.pipeHeld = [] ∧ Generated.srcHeld = [] := stage_table_matches_source'

/-- `stateAllowed` (what the driver answers when the harness reports an attribute of a pipe object that changed between reads)
allows every extracted attribute, and nothing for an object none of whose classes is in the table -/
theorem stage_table_sound :
    (∀ r ∈ Generated.envStateful ++ Generated.pipeStateful ++ Generated.srcStateful, ∀ a ∈ r.2, stateAllowed [r.1] a = true) ∧
    (∀ (mro : List String) (a : String), (∀ r ∈ stageTable, r.cls ∉ mro) → stateAllowed mro a = false) := stage_table_sound'

example : stateAllowed ["Cache", "Cache", "EnvironmentFilter"] "_iter" = true ∧ stateAllowed ["Noise", "EnvironmentFilter"] "_rng" = false ∧
    stateAllowed ["Shuffle", "Shuffle", "EnvironmentFilter"] "_seed" = false := by decide

/-- `Environments.cache()` / `chunk()`: the model's steps append exactly the extracted `Cache(25)` (default `protected`, starting
unread), `chunk` caches by default behind an identity `Chunk` -/
theorem cache_shortcut_matches_source (w : World) (j : Nat) (o : Obj) :
    Node.cache Generated.shortcutCacheSlice Generated.shortcutCacheProtected (if Generated.cacheStartsUnread then .unread else .done []) = shortcutCacheNode ∧
    Generated.cacheDefaultSlice = some 25 ∧ Generated.cacheDefaultProtected = false ∧
    stepObj w j o (.cache j) =
      (pushObj w (some { src := o.src, nodes := (finalized w.fin (o.base ++ [shortcutCacheNode])).1,
                         ownFin := (finalized w.fin (o.base ++ [shortcutCacheNode])).2 }), .derived) ∧
    Generated.chunkCacheDefault = true ∧ Generated.chunkJoins = "Chunk" ∧ Generated.chunkIsIdentity = true ∧
    (∀ u, chunkP.f u = u) ∧
    stepObj w j o (.chunk j) =
      (pushObj w (some { src := o.src, nodes := (finalized w.fin (o.base ++ [.pure chunkP, shortcutCacheNode])).1,
                         ownFin := (finalized w.fin (o.base ++ [.pure chunkP, shortcutCacheNode])).2 }), .derived) :=
  cache_shortcut_matches_source' w j o

/-- `Environments.materialize()`: `keptByMaterialize` IS the extracted `nocache` predicate, the appended node is the extracted
`pipes.Cache(None, True)`, the step finalizes first, returns the pipeline as it is when it ends with a cache and otherwise forces a read -/
theorem materialize_matches_source (w : World) (j : Nat) (o : Obj) :
    (∀ n : Node, keptByMaterialize n = Generated.nocache (isCache n) n.prot) ∧
    Node.cache Generated.materializeCacheSlice Generated.materializeCacheProtected .unread = materializeCacheNode ∧
    Generated.materializeOnlyWhenLastNotCache = true ∧ Generated.materializeForcesRead = true ∧ Generated.materializeFinalizesFirst = true ∧
    (lastIsCache (finalized w.fin o.base).1 = true →
      stepObj w j o (.materialize j) = (pushObj w (some { src := o.src, nodes := (finalized w.fin o.base).1, ownFin := false }), .derived)) ∧
    (lastIsCache (finalized w.fin o.base).1 = false →
      stepObj w j o (.materialize j) =
        (let m : Obj := { src := o.src, nodes := (finalized w.fin o.base).1.filter keptByMaterialize ++ [materializeCacheNode], ownFin := false }
         (pushObj (setObj w j { o with src := (m.touch .all).src }) (some (m.touch .all)), .derived))) :=
  materialize_matches_source' w j o

/-- `_finalize` (wrap `BatchSafe(Finalize())` unless one is in the chain; a fresh `EmptyCheck` starts with the extracted `_isempty`),
`environments.Cache` copies, the logged-seed factor and keys of `Shuffle`, `BatchSafe`'s re-batching pipe, the batch size of `save()` -/
theorem pipeline_constants_match_source (fin : PureSt) (ns : List Node) :
    Generated.finalizeWrap = ["BatchSafe", "Finalize"] ∧
    Generated.finalizeTest = [("e", "BatchSafe"), ("e._filter", "Finalize")] ∧
    Generated.finalizeHolds = ["EmptyCheck"] ∧
    finalized fin ns = (if ns.any isFinalize then (ns, false) else (ns ++ [.finalize fin Generated.emptyCheckInit], true)) ∧
    Generated.envCacheCopies = true ∧
    Generated.shuffleLoggedFactor = loggedSeedFactor ∧ Generated.shuffleLoggedKeys = loggedKeys ∧
    Generated.batchSafeJoin = ["Unbatch", "self._filter", "Batch"] ∧
    (∀ b ∈ Generated.saveBatchSizes, b = saveBatchModel + 1) ∧ Generated.saveBatchSizes ≠ [] :=
  pipeline_constants_match_source' fin ns

/-! ## Phase 5: Noise evaluated on content, the draws being those of `CobaRandom(seed)` (Model/C05) -/

/-- `Noise(context=('i', lo, hi), seed)` as the model runs it (`FitStage.noiseInt`, generator created from the seed on every call of
`filter`): every read — complete, abandoned after `k`, never started — is the demanded prefix of ONE sequence, the scan of the
upstream rows from state `normInt seed` -/
theorem noise_int_reads (sd : List Rat → Rat) (seed lo hi : Int) (rows : List (List C11.Val)) (ds : List Demand) :
    fitReadsFresh sd (FitStage.noiseInt seed lo hi) (.dense rows) ds
      = ds.map (fun d => demTake d (.dense (scanRows (noiseIntRow lo hi) (C05.normInt seed) rows))) := noise_int_reads' sd seed lo hi rows ds

/-- one row: the generator advances once per number of the row (`None` and strings draw nothing), the row keeps its length -/
theorem noise_int_row (lo hi : Int) (r : List C11.Val) (s : Nat) :
    (noiseIntRow lo hi s r).1 = iterNext (r.filter drawsNoise).length s ∧ (noiseIntRow lo hi s r).2.length = r.length :=
  noise_int_row' lo hi r s

/-- the first `k` noisy rows depend on the first `k` upstream rows only (an abandoned read draws for what it saw) -/
theorem noise_rows_prefix (step : Nat → List C11.Val → Nat × List C11.Val) (rows : List (List C11.Val)) (s k : Nat) :
    (scanRows step s rows).take k = scanRows step s (rows.take k) := scanRows_take' step rows s k

/-- the draws are those of `CobaRandom(1).randint(0, 9)` from successive generator states; a `None` in between draws nothing -/
example : (noiseIntRow 0 9 (C05.normInt 1) [.num 0, .nil, .num 0, .num (1/2)]).2
    = [.num ((C05.randint (C05.normInt 1) 0 9).2 : Rat), .nil, .num ((C05.randint (C05.next (C05.normInt 1)) 0 9).2 : Rat),
       .num (1/2 + ((C05.randint (C05.next (C05.next (C05.normInt 1))) 0 9).2 : Rat))] := by decide +kernel

/-- forced by the per-call generator: a generator kept in the instance (state after the first read) gives other contexts the second time -/
theorem noise_int_kept_rng_counterexample :
    scanRows (noiseIntRow 0 9) (C05.normInt 1) [[.num 0, .num 0]]
      ≠ scanRows (noiseIntRow 0 9) (noiseIntRow 0 9 (C05.normInt 1) [.num 0, .num 0]).1 [[.num 0, .num 0]] := by decide +kernel

/-! ## Phase 6: what runs when a read is abandoned (the generator is closed while suspended at a `yield`) -/

/-- translator obligation: every `try` / `with` statement around a `yield` in the anchored files (read from the CURRENT source) is a row
of the model's `abandonTable`; none of them has a `finally` or a handler that catches `GeneratorExit`, every `with` manager only
releases a resource; the `try` around the fill loop of `pipes.Cache.filter` runs nothing when the generator is closed -/
theorem abandon_table_matches_source :
    Generated.abandonRows = abandonTable.map TryRow.tuple ∧
    (Generated.abandonRows.all (fun t => (TryRow.mk t.1 t.2.1 t.2.2.1 t.2.2.2.1 t.2.2.2.2).silent)) = true ∧
    cacheExitAct Generated.cacheFillHandlers = .nothing ∧ Generated.cacheFillFinally = false := abandon_table_matches_source'

/-- `abandonObsAllowed` (what the driver answers when the harness reports a source line that ran while a dropped read was closed):
every row is silent; for a row's function the tested `except` line / the left `with` line is allowed; a line inside a handler or
`finally` body, or any other line, never is; and nothing is allowed for a function outside the table -/
theorem abandon_table_sound :
    (∀ r ∈ abandonTable, r.silent = true ∧ r.runsOnAbandon = false) ∧
    (∀ r ∈ abandonTable, r.kind = "try" → abandonObsAllowed r.file r.fn "header" = true) ∧
    (∀ r ∈ abandonTable, r.kind = "with" → abandonObsAllowed r.file r.fn "with" = true) ∧
    (∀ (file fn kind : String), kind ≠ "header" → kind ≠ "with" → abandonObsAllowed file fn kind = false) ∧
    (∀ (file fn kind : String), (∀ r ∈ abandonTable, r.fn ≠ fn) → abandonObsAllowed file fn kind = false) := abandon_table_sound'

example : abandonObsAllowed "coba/pipes/filters.py" "Cache.filter" "header" = true ∧ abandonObsAllowed "coba/pipes/filters.py" "Cache.filter" "body" = false ∧
    abandonObsAllowed "coba/environments/filters.py" "Shuffle.filter" "header" = false ∧
    (TryRow.mk "coba/pipes/filters.py" "Cache.filter" "try" ["BaseException"] false).runsOnAbandon = true ∧
    (TryRow.mk "coba/environments/filters.py" "Shuffle.filter" "try" [] true).runsOnAbandon = true := by decide

/-- with the handlers the source has, the session with an explicit exit action IS the cache case of `nodeStep`
(the step all the re-read theorems are about), for every state, upstream and demand -/
theorem cache_session_is_nodeStep (sz : Option Nat) (prot : Bool) (st : CacheSt) (u : List Item) (d : Demand) :
    (nodeStep (.cache sz prot st) u d).1 = .cache sz prot (cacheSessX (cacheExitAct Generated.cacheFillHandlers) sz u st d) :=
  cache_session_is_nodeStep' sz prot st u d

/-- ∀ histories of sessions on one `pipes.Cache` (complete, abandoned after any k, never started), any slice size, any upstream:
whether closing the generator runs nothing (the source) or the handler's reset (a handler that also catches `GeneratorExit`), the
buffer invariant `_cache ++ rest(_iter) = upstream` holds afterwards and the next read delivers the upstream sequence -/
theorem cache_abandon_history (x : ExitAct) (hx : x ≠ .dropIter) (sz : Option Nat) (prot : Bool) (u : List Item)
    (ds : List Demand) (st : CacheSt) (h : CacheOK u st) :
    CacheOK u (ds.foldl (cacheSessX x sz u) st) ∧ nodeView (.cache sz prot (ds.foldl (cacheSessX x sz u) st)) u = u :=
  cache_abandon_history' x hx sz prot u ds st h

example : CacheOK [1, 2, 3] .unread ∧ CacheOK [1, 2, 3] (.prog [1, 2] [3]) := ⟨trivial, rfl⟩

/-- the hypothesis `x ≠ .dropIter` is forced: a `finally: self._iter = None` around the fill loop makes ONE abandoned read leave a
truncated cache ([1,2] of [1,2,3], slices of 2) that every later read serves; the source's code keeps delivering [1,2,3] -/
theorem cache_finally_counterexample :
    cacheSessX .dropIter (some 2) [1, 2, 3] .unread (.pull 1) = .done [1, 2] ∧
    nodeView (.cache (some 2) false (cacheSessX .dropIter (some 2) [1, 2, 3] .unread (.pull 1))) [1, 2, 3] = [1, 2] ∧
    nodeView (.cache (some 2) false (cacheSessX .nothing (some 2) [1, 2, 3] .unread (.pull 1))) [1, 2, 3] = [1, 2, 3] :=
  cache_finally_counterexample'


end Coba.C04
