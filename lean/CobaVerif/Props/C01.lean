/-
C01 — Experiment results do not depend on execution configuration.
Property theorems only (model: Model/C01.lean, helper lemmas: Lemmas/C01.lean).

`run c cfg picks seed ts` is the model of `Experiment(ts).run(processes, maxchunksperchild,
maxtasksperchunk, seed)`: MakeTasks → ChunkTasks → ProcessTasks per chunk (in-process on the
caller's objects, or per chunk on a fresh copy of the pristine objects with the record streams
interleaved by the schedule `picks`) → TransactionResult.  `resultS c seed ts` is the spec.
All theorems hold for every component family `c` (arbitrary deterministic params / evaluation
functions, raising or not), every triple list, every configuration and every schedule.
-/
import CobaVerif.Lemmas.C01
import CobaVerif.Generated.C01Config
import CobaVerif.Generated.C01Seeds
import CobaVerif.Generated.C01Rej

namespace Coba.C01

variable {S P Row : Type}

/-- ids are assigned by first appearance and do not depend on the configuration: in every chunk of
every configuration a task carries the position of its object among the distinct objects listed -/
theorem ids_config_independent (c : Comps S P Row) (cfg : Cfg) (ts : List Triple) :
    ∀ ch ∈ chunksOf c cfg ts, ∀ t ∈ ch,
      match t with
      | .env i e => i = idOf (envsOf ts) e
      | .lrn i l => i = idOf (lrnsOf ts) l
      | .val i v => i = idOf (valsOf ts) v
      | .eval ei e li l vi v _ => (ei, li, vi) = idKey ts (e, l, v) :=
  ids_config_independent' c cfg ts

/-- the dict `MakeTasks` builds left to right is the list of distinct objects in order of first
appearance (so `idOf` is what the code computes) -/
theorem ids_first_appearance (xs : List Nat) : xs.foldl addFirst [] = firsts xs := foldl_addFirst_nil xs

/-- distinct objects get distinct ids -/
theorem ids_injective {xs : List Nat} {x y : Nat} (hx : x ∈ xs) (h : idOf xs x = idOf xs y) : x = y :=
  idOf_inj hx h

/-- `chunks_partition_tasks`: for every `maxtasksperchunk`, every chunk key function and every task
list, each task is in exactly one chunk; no chunk is empty or larger than `maxtasksperchunk` -/
theorem chunks_partition_tasks (mt : Nat) (ckey : Nat → Option Nat) (tasks : List Task) :
    (chunkTasks mt ckey tasks).flatten.Perm tasks ∧
      ∀ ch ∈ chunkTasks mt ckey tasks, ch ≠ [] ∧ (0 < mt → ch.length ≤ mt) :=
  ⟨chunkTasks_flatten mt ckey tasks, chunkTasks_bound mt ckey tasks⟩

/-- the order in which `ProcessTasks` works through a chunk is a permutation of the chunk -/
theorem process_order_perm (chunk : List Task) : (procOrder chunk).Perm chunk := procOrder_perm chunk

/-- `Task.copy` is set exactly when the learner object is listed in more than one triple -/
theorem copy_iff_shared (ts : List Triple) {ei e li l vi v : Nat} {cp : Bool}
    (h : Task.eval ei e li l vi v cp ∈ makeTasks .none ts) : cp = decide (lrnCount ts l > 1) :=
  (mem_makeTasks_eval h).2.2

/-- a learner cell is evaluated in place at most once in the whole task list (and hence in every
address space, which holds a sub-multiset of it) -/
theorem in_place_at_most_once (ts : List Triple) : AtMostOnce (makeTasks .none ts) := makeTasks_atMostOnce ts

/-- invariant of `ProcessTasks`: in an address space whose used learner cells are pristine and in
which no cell is used again after an in-place evaluation, every task sees a pristine learner -/
theorem pristine_address_space (c : Comps S P Row) (seed : Nat) (h : Heap S) (tasks : List Task)
    (hA : ∀ t ∈ tasks, ∀ l, t.uses l → h l = c.init l) (hN : AtMostOnce tasks) :
    (runSeq c seed h tasks).1 = tasks.map (pristineEv c seed) :=
  pristine_address_space' c seed h tasks hA hN

/-- `pristine`: under every configuration and every schedule the events of a run (records and
logged exceptions) are exactly, each once, the events the tasks produce on pristine learners -/
theorem pristine (c : Comps S P Row) (cfg : Cfg) (picks : List Nat) (seed : Nat) (ts : List Triple) :
    (runEvents c cfg picks seed ts).1.Perm ((makeTasks .none ts).map (pristineEv c seed)) :=
  runEvents_perm c cfg picks seed ts

/-- every schedule delivers the records of the chunks, each exactly once -/
theorem schedule_perm {α} (picks : List Nat) (queues : List (List α)) :
    (interleave queues picks).Perm queues.flatten := interleave_perm picks queues

/-- `result_order_insensitive`: permuting the records does not change the result, provided records
with the same tag and key are identical (in particular when all keys are distinct) -/
theorem result_order_insensitive {recs recs' : List (Rec P Row)} (p : recs.Perm recs')
    (hk : KeysFunctional recs) : result recs = result recs' := result_perm p hk

theorem result_order_insensitive_nodup {recs recs' : List (Rec P Row)} (p : recs.Perm recs')
    (hk : (recs.map Rec.rkey).Nodup) : result recs = result recs' :=
  result_perm p (KeysFunctional.of_nodup hk)

/-- the hypothesis is satisfiable … -/
example : KeysFunctional ([.T1 0 5, .T4 (0, 0, 0) [7, 8], .T1 1 6] : List (Rec Nat Nat)) :=
  KeysFunctional.of_nodup (by decide)

/-- … and necessary: two different records for one key are order-sensitive (last one wins) -/
theorem result_order_sensitive_on_conflicting_keys :
    (result ([.T1 0 5, .T1 0 6] : List (Rec Nat Nat))).envs ≠ (result ([.T1 0 6, .T1 0 5] : List (Rec Nat Nat))).envs := by
  decide

/-- `run_eq_spec` (C01): for every configuration `(processes, maxchunksperchild, maxtasksperchunk)`
and every schedule the run gives the specified result -/
theorem run_eq_spec (c : Comps S P Row) (cfg : Cfg) (picks : List Nat) (seed : Nat) (ts : List Triple) :
    run c cfg picks seed ts = resultS c seed ts := run_eq_spec' c cfg picks seed ts

/-- stronger form: in whatever order the records of the run reach `TransactionResult` (any
permutation, not only interleavings), the result is the specified one -/
theorem run_eq_spec_any_order (c : Comps S P Row) (cfg : Cfg) (picks : List Nat) (seed : Nat) (ts : List Triple)
    (recs : List (Rec P Row)) (h : recs.Perm (runRecords c cfg picks seed ts)) :
    result recs = resultS c seed ts := result_of_records_perm c cfg picks seed ts recs h

/-- `rerun_eq`: the result is a function of the (freshly constructed) components, the seed and the
triple list alone — any two configurations and schedules, in particular a second run, agree -/
theorem rerun_eq (c : Comps S P Row) (cfg cfg' : Cfg) (picks picks' : List Nat) (seed : Nat) (ts : List Triple) :
    run c cfg picks seed ts = run c cfg' picks' seed ts := by
  rw [run_eq_spec' c cfg picks seed ts, run_eq_spec' c cfg' picks' seed ts]

/-- `user_objects`: after the run a learner object listed in more than one triple is in its pristine
state; with worker processes no learner object of the caller is touched at all -/
theorem user_objects (c : Comps S P Row) (cfg : Cfg) (picks : List Nat) (seed : Nat) (ts : List Triple)
    (l : Nat) (h : lrnCount ts l > 1 ∨ cfg.multi = true) :
    (runEvents c cfg picks seed ts).2 l = c.init l := user_objects' c cfg picks seed ts l h


/-! ## phase 2: process-level state, worker lifetimes, consecutive runs -/

section phase2
variable {G : Type}

/-- `run_eq_spec` with an explicit process state `σ` threaded through every evaluation of an OS
process: under the isolation hypothesis `ProcessLocalClean` the run — in-process, or on workers with
any distribution of the chunks (`sched.assign`), any `maxchunksperchild` retirement and any
interleaving — gives the spec result of the σ-free clean components -/
theorem run_eq_spec_process_state (cp : CompsP G S P Row) (Clean : G → Prop) (hc : ProcessLocalClean cp Clean)
    (cfg : Cfg) (sched : Sched) (seed : Nat) (ts : List Triple) :
    runP cp cfg sched seed ts = resultSP cp seed ts :=
  runPFrom_eq_spec' hc cfg sched seed ts cp.σ0 hc.fresh

/-- the same from any clean state of the calling process -/
theorem run_from_clean_state (cp : CompsP G S P Row) (Clean : G → Prop) (hc : ProcessLocalClean cp Clean)
    (cfg : Cfg) (sched : Sched) (seed : Nat) (ts : List Triple) (σ : G) (hσ : Clean σ) :
    runPFrom cp cfg sched seed σ ts = resultSP cp seed ts ∧ Clean (stateAfter cp cfg sched seed σ ts) :=
  ⟨runPFrom_eq_spec' hc cfg sched seed ts σ hσ, stateAfter_clean hc cfg sched seed ts σ hσ⟩

/-- `second_run_eq`: a second construct-and-run in the same process (seed `s₂`) equals a fresh run with `s₂`,
whatever the first run was -/
theorem second_run_eq (cp : CompsP G S P Row) (Clean : G → Prop) (hc : ProcessLocalClean cp Clean)
    (cfg₁ cfg₂ : Cfg) (sched₁ sched₂ : Sched) (s₁ s₂ : Nat) (ts₁ ts₂ : List Triple) :
    runPFrom cp cfg₂ sched₂ s₂ (stateAfter cp cfg₁ sched₁ s₁ cp.σ0 ts₁) ts₂ = runP cp cfg₂ sched₂ s₂ ts₂ :=
  second_run_eq' hc cfg₂ sched₂ s₂ ts₂ cfg₁ sched₁ s₁ ts₁

/-- `retire_invisible`: `maxchunksperchild` (a retired worker = a fresh process state), the number of
processes, the distribution of chunks over workers and the interleaving are invisible in the Result -/
theorem retire_invisible (cp : CompsP G S P Row) (Clean : G → Prop) (hc : ProcessLocalClean cp Clean)
    (cfg cfg' : Cfg) (sched sched' : Sched) (seed : Nat) (ts : List Triple) :
    runP cp cfg sched seed ts = runP cp cfg' sched' seed ts :=
  retire_invisible' hc cfg sched seed ts cfg' sched'

/-- every chunk is processed in exactly one worker lifetime, for every assignment and every `maxchunksperchild` -/
theorem workers_partition_chunks {α} (mc : Nat) (assign : List Nat) (chunks : List α) :
    (retire mc (livesOf assign chunks)).flatten.Perm chunks := workers_partition_chunks' mc assign chunks

/-- `chunker_partition`: `_max_chunker` cuts a chunk into consecutive batches, none empty, none longer than
`maxtasksperchunk` (0 = never split) -/
theorem chunker_partition {α} (mt : Nat) (l : List α) :
    (maxChunker mt l).flatten = l ∧ ∀ ch ∈ maxChunker mt l, ch ≠ [] ∧ (0 < mt → ch.length ≤ mt) :=
  chunker_partition' mt l

/-- the hypothesis is satisfiable: components that ignore σ are clean with `Clean := fun _ => True` -/
example (cp : CompsP G S P Row) (h : ∀ σ v e s seed, (cp.evalP σ v e s seed).1 = (cp.evalP cp.σ0 v e s seed).1) :
    ProcessLocalClean cp (fun _ => True) := ⟨trivial, fun σ _ => h σ, fun _ _ _ _ _ _ => trivial⟩

/-- … and it is forced (the shape of finding F3): for `leakyComps`, whose evaluation records what earlier
evaluations left in the process, no clean-state invariant exists and the in-process Result differs from
the Result on two workers -/
theorem process_state_forced_counterexample :
    (¬ ∃ Clean, ProcessLocalClean leakyComps Clean) ∧
    (runP leakyComps ⟨1, 0, 0⟩ ⟨[], []⟩ 1 leakyTriples).ints ≠
      (runP leakyComps ⟨2, 0, 0⟩ ⟨[0, 1, 2, 3, 4, 5, 6], []⟩ 1 leakyTriples).ints := by
  refine ⟨leaky_not_clean', ?_⟩
  rw [leaky_inprocess_ints', leaky_workers_ints']; decide

/-- without the hypothesis `maxchunksperchild` is visible: one worker that is never retired vs. retired
after every chunk -/
theorem retire_visible_counterexample :
    (runP leakyComps ⟨1, 7, 0⟩ ⟨[], []⟩ 1 leakyTriples).ints ≠ (runP leakyComps ⟨1, 1, 0⟩ ⟨[], []⟩ 1 leakyTriples).ints := by
  rw [leaky_one_worker_ints'.1, leaky_one_worker_ints'.2]; decide

/-- without the hypothesis a second run in the same process differs from a fresh run -/
theorem second_run_differs_counterexample :
    (runPFrom leakyComps ⟨1, 0, 0⟩ ⟨[], []⟩ 1 (stateAfter leakyComps ⟨1, 0, 0⟩ ⟨[], []⟩ 1 0 leakyTriples) leakyTriples).ints ≠
      (runP leakyComps ⟨1, 0, 0⟩ ⟨[], []⟩ 1 leakyTriples).ints := by
  rw [leaky_second_run', leaky_inprocess_ints']; decide

end phase2

/-! ### the Result table by table (`rerun_eq` is about all of them and `.experiment`) -/

/-- `.experiment` of every run is the meta record of the triple list and the seed -/
theorem experiment_meta (c : Comps S P Row) (cfg : Cfg) (picks : List Nat) (seed : Nat) (ts : List Triple) :
    (run c cfg picks seed ts).exp = some (metaOf seed ts) := exp_eq' c cfg picks seed ts

/-- the environments table holds exactly one row per distinct environment whose `params` does not raise,
under its first-appearance id — in every configuration and schedule -/
theorem env_row_iff (c : Comps S P Row) (cfg : Cfg) (picks : List Nat) (seed : Nat) (ts : List Triple) (i : Nat) (p : P) :
    (i, p) ∈ (run c cfg picks seed ts).envs ↔ ∃ e ∈ envsOf ts, i = idOf (envsOf ts) e ∧ c.envParams e = .ok p :=
  env_row_iff' c cfg picks seed ts i p

theorem lrn_row_iff (c : Comps S P Row) (cfg : Cfg) (picks : List Nat) (seed : Nat) (ts : List Triple) (i : Nat) (p : P) :
    (i, p) ∈ (run c cfg picks seed ts).lrns ↔ ∃ l ∈ lrnsOf ts, i = idOf (lrnsOf ts) l ∧ c.lrnParams l = .ok p :=
  lrn_row_iff' c cfg picks seed ts i p

theorem val_row_iff (c : Comps S P Row) (cfg : Cfg) (picks : List Nat) (seed : Nat) (ts : List Triple) (i : Nat) (p : P) :
    (i, p) ∈ (run c cfg picks seed ts).vals ↔ ∃ v ∈ valsOf ts, i = idOf (valsOf ts) v ∧ c.valParams v = .ok p :=
  val_row_iff' c cfg picks seed ts i p


/-! ## phase 3: resumed runs -/

/-- `MakeTasks` with a restored Result lists exactly the tasks of the fresh run whose id / key is not restored:
ids and `copy` flags are those of the fresh run (this ties C01's id assignment to resuming, C02) -/
theorem make_tasks_restored (R : Restored) (ts : List Triple) :
    makeTasks R ts = (makeTasks .none ts).filter (Task.keep R) := makeTasks_restored R ts

/-- `run_eq_spec_restored`: let any set `done` of tasks have been finished before an interruption, so that the log
holds (in any order) the records they left; the run resumed from that log — under any configuration and schedule —
returns the Result of the fresh run: same ids, same parameter rows, same interaction rows -/
theorem run_eq_spec_restored (c : Comps S P Row) (cfg : Cfg) (picks : List Nat) (seed : Nat) (ts : List Triple)
    (done : Task → Bool) (old : List (Rec P Row)) (hold : old.Perm (doneRecs c seed ts done)) :
    runResumed c cfg picks seed ts old = resultS c seed ts := run_eq_spec_restored' c cfg picks seed ts done old hold

/-- … in particular it equals the fresh run under any other configuration and schedule -/
theorem resumed_eq_fresh (c : Comps S P Row) (cfg cfg' : Cfg) (picks picks' : List Nat) (seed : Nat) (ts : List Triple)
    (done : Task → Bool) :
    runResumed c cfg picks seed ts (doneRecs c seed ts done) = run c cfg' picks' seed ts := by
  rw [run_eq_spec_restored' c cfg picks seed ts done _ (List.Perm.refl _), run_eq_spec']

/-- the hypothesis is satisfiable non-trivially: everything done, nothing done, or only the evaluations -/
example (c : Comps S P Row) (seed : Nat) (ts : List Triple) :
    (doneRecs c seed ts (fun _ => false) : List (Rec P Row)) = [] := by simp [doneRecs]

example : (doneRecs (leakyComps.clean leakyTriples) 1 leakyTriples (fun t => t.tkey.1 == 4)).length = 2 := by decide +kernel

/-! ## phase 4 (a): resumed runs with process state -/

section phase4
variable {G : Type}

/-- `run_eq_spec_restored` with process state: under the isolation hypothesis a run resumed from a log holding (in any
order) the records of ANY set of finished tasks — started in any clean state of the caller's process, under any
configuration, chunk-to-worker assignment, retirement (`maxchunksperchild`) and interleaving, with un-copyable shared
learners raising inside the per-task `try` — gives exactly the specified Result, and leaves the process clean -/
theorem run_eq_spec_restored_process_state (cp : CompsP G S P Row) (Clean : G → Prop) (hc : ProcessLocalClean cp Clean)
    (cfg : Cfg) (sched : Sched) (seed : Nat) (ts : List Triple) (σ : G) (hσ : Clean σ)
    (done : Task → Bool) (old : List (Rec P Row)) (hold : old.Perm (doneRecs (cp.clean ts) seed ts done)) :
    runResumedPFrom cp cfg sched seed σ ts old = resultSP cp seed ts ∧
      Clean (runEventsOnPFrom cp cfg sched seed σ (resumedTasks old ts)).2.1 :=
  ⟨runResumedPFrom_eq_spec' hc cfg sched seed ts σ hσ done old hold, resumed_state_clean' hc cfg sched seed ts σ hσ old⟩

/-- `resumed_eq_fresh` with process state σ: … hence the resumed run (any clean σ, any cfg / schedule) equals the
fresh run under any other configuration and schedule from any other clean state -/
theorem resumed_eq_fresh_process_state (cp : CompsP G S P Row) (Clean : G → Prop) (hc : ProcessLocalClean cp Clean)
    (cfg cfg' : Cfg) (sched sched' : Sched) (seed : Nat) (ts : List Triple) (σ σ' : G) (hσ : Clean σ) (hσ' : Clean σ')
    (done : Task → Bool) :
    runResumedPFrom cp cfg sched seed σ ts (doneRecs (cp.clean ts) seed ts done) = runPFrom cp cfg' sched' seed σ' ts := by
  rw [runResumedPFrom_eq_spec' hc cfg sched seed ts σ hσ done _ (List.Perm.refl _), runPFrom_eq_spec' hc cfg' sched' seed ts σ' hσ']

/-- the hypotheses are satisfiable non-trivially: σ-ignoring components are clean, `doneRecs` of "nothing done" is the
empty log -/
example (cp : CompsP G S P Row) (seed : Nat) (ts : List Triple) :
    (doneRecs (cp.clean ts) seed ts (fun _ => false) : List (Rec P Row)) = [] := by simp [doneRecs]

/-- the hypothesis is forced for resumed runs too: with `leakyComps` the run resumed in-process after the first
evaluation was restored differs from the fresh in-process run -/
theorem resumed_differs_counterexample :
    (runResumedP leakyComps ⟨1, 0, 0⟩ ⟨[], []⟩ 1 leakyTriples [Rec.T4 (0, 0, 0) [0]]).ints ≠
      (runP leakyComps ⟨1, 0, 0⟩ ⟨[], []⟩ 1 leakyTriples).ints := by
  rw [leaky_resumed_ints', leaky_inprocess_ints']; decide

end phase4

/-! ## phase 4 (b): the Result of a whole `Experiment.run` over the built-in `SequentialCB`

`seqComps w` plugs the model of `SequentialCB.evaluate` (`Model/C06.evaluate`: validation, predict / score / learn passes
per batch, recorded rows) into the experiment model, for any assignment `w` of SequentialCB configurations to evaluator
objects, of learner methods + pristine state to learner objects and of interactions (or a failing read) to environment
objects. -/

section phase4b
variable {σ V R : Type} [DecidableEq V] [Coba.C06.RewardFn R V]

/-- `run_eq_spec` instantiated with the C06 evaluator: for every configuration and schedule the Result of the
experiment over SequentialCB is the specified one -/
theorem run_eq_spec_sequentialCB (w : SeqWorld σ V R P) (cfg : Cfg) (picks : List Nat) (seed : Nat) (ts : List Triple) :
    run (seqComps w) cfg picks seed ts = resultS (seqComps w) seed ts := run_eq_spec' (seqComps w) cfg picks seed ts

/-- configuration independence for experiments over SequentialCB -/
theorem sequentialCB_config_independent (w : SeqWorld σ V R P) (cfg cfg' : Cfg) (picks picks' : List Nat) (seed : Nat)
    (ts : List Triple) : run (seqComps w) cfg picks seed ts = run (seqComps w) cfg' picks' seed ts := by
  rw [run_eq_spec' (seqComps w) cfg picks seed ts, run_eq_spec' (seqComps w) cfg' picks' seed ts]

/-- … and the spec unfolded: the interaction rows of a listed triple are, numbered from 1, the rows
`SequentialCB(cfgOf v).evaluate(env e, learner l)` produces from the learner's PRISTINE state (none when the evaluator
rejects the environment or the evaluation crashes) — whatever else the experiment lists, in every configuration -/
theorem sequentialCB_rows (w : SeqWorld σ V R P) (cfg : Cfg) (picks : List Nat) (seed : Nat) (ts : List Triple)
    (t : Triple) (ht : t ∈ ts) (inter : List (Coba.C06.Dict (Coba.C06.Fld V R))) (henv : w.envRows t.1 = .ok inter) :
    (run (seqComps w) cfg picks seed ts).rowsOf (idKey ts t) =
      match Coba.C06.evaluate (w.cfgOf t.2.2) (w.learner t.2.1) (w.batch t.1) inter (w.init t.2.1) with
      | .ok r => numbered r.2.2
      | .rejected _ => []
      | .crashed _ => [] := sequentialCB_rows' w cfg picks seed ts t ht inter henv

/-- a failing read of the environment costs exactly that triple's rows -/
theorem sequentialCB_read_failure (w : SeqWorld σ V R P) (cfg : Cfg) (picks : List Nat) (seed : Nat) (ts : List Triple)
    (t : Triple) (ht : t ∈ ts) (err : Err) (henv : w.envRows t.1 = .error err) :
    (run (seqComps w) cfg picks seed ts).rowsOf (idKey ts t) = [] :=
  sequentialCB_read_failure' w cfg picks seed ts t ht err henv

end phase4b

/-! ## phase 4 (c): translator obligations — `Generated/C01Config.lean` is re-extracted from the source on every run -/

/-- the model's `Cfg.multi` is the `is_multiproc` expression of `Experiment.run` as it stands in the source -/
theorem config_multi_matches_source (c : Cfg) : c.multi = Coba.Generated.C01.isMultiproc c.mp c.mc := by
  simp [Cfg.multi, Coba.Generated.C01.isMultiproc]

/-- two sites that must agree: `CobaMultiprocessor.filter` runs the tasks in the calling process exactly when
`Experiment.run` considers the run not multi-process (for every `processes ≥ 1`, every `maxchunksperchild`) -/
theorem inprocess_test_agrees_with_is_multiproc (c : Cfg) (h : 1 ≤ c.mp) :
    Coba.Generated.C01.inProcess c.mp c.mc = !c.multi := by
  rw [Bool.eq_iff_iff]
  simp [Cfg.multi, Coba.Generated.C01.inProcess]
  omega

/-- the `copy` flag of every evaluation task the model lists is the source's `copy=` expression applied to the
number of listed triples with that learner object -/
theorem copy_flag_matches_source (ts : List Triple) (ei e li l vi v : Nat) (cp : Bool)
    (h : Task.eval ei e li l vi v cp ∈ makeTasks .none ts) :
    cp = Coba.Generated.C01.copyFlag (lrnCount ts l) ∧ Coba.Generated.C01.copyCountsLearners = true :=
  ⟨by rw [(mem_makeTasks_eval h).2.2]; simp [Coba.Generated.C01.copyFlag], by decide⟩

/-! ## phase 5: PMF-answering and `learning_info`-writing learners, chunk()/cache() pipelines in the SequentialCB runs

`seqCompsX w` (Model/C01.lean, phase 5): a learner object is ordinary (`ext l = none`, phase 4), answers with PMFs
(`.pmf`: behind a `SafeLearner` whose `CobaRandom` is freshly seeded for every evaluation with the evaluator's seed or
else the experiment seed — C06 `wrapPmf` over the C05 stream) or writes `CobaContext.learning_info` (`.info`: C06
`evaluateI`).  Environment pipelines enter through `chunkKey`. -/

section phase5
variable {σ V R : Type} [DecidableEq V] [Coba.C06.RewardFn R V]

/-- for every configuration and schedule the Result of the experiment over SequentialCB with PMF / info learners is
the specified one -/
theorem run_eq_spec_sequentialCB_ext (w : SeqWorldX σ V R P) (cfg : Cfg) (picks : List Nat) (seed : Nat)
    (ts : List Triple) : run (seqCompsX w) cfg picks seed ts = resultS (seqCompsX w) seed ts :=
  run_eq_spec' (seqCompsX w) cfg picks seed ts

/-- hence it does not depend on the execution configuration or the schedule -/
theorem sequentialCB_ext_config_independent (w : SeqWorldX σ V R P) (cfg cfg' : Cfg) (picks picks' : List Nat)
    (seed : Nat) (ts : List Triple) :
    run (seqCompsX w) cfg picks seed ts = run (seqCompsX w) cfg' picks' seed ts := by
  rw [run_eq_spec' (seqCompsX w) cfg picks seed ts, run_eq_spec' (seqCompsX w) cfg' picks' seed ts]

/-- the extension is conservative: a world without extended learner objects is the phase-4 world -/
theorem sequentialCB_ext_conservative (w0 : SeqWorld σ V R P) : seqCompsX ⟨w0, fun _ => none⟩ = seqComps w0 :=
  seqCompsX_plain' w0

/-- the rows of a listed triple whose learner answers with PMFs are, numbered from 1, the rows SequentialCB produces
from the learner's PRISTINE state with the actions drawn by a generator FRESHLY seeded with the evaluator's seed, or
the experiment seed when it has none — in every configuration, whatever else the experiment lists -/
theorem sequentialCB_pmf_rows (w : SeqWorldX σ V R P) (cfg : Cfg) (picks : List Nat) (seed : Nat) (ts : List Triple)
    (t : Triple) (ht : t ∈ ts) (Pm : Coba.C06.PmfLearner σ V) (dflt : V) (hx : w.ext t.2.1 = some (.pmf Pm dflt))
    (inter : List (Coba.C06.Dict (Coba.C06.Fld V R))) (henv : w.base.envRows t.1 = .ok inter) :
    (run (seqCompsX w) cfg picks seed ts).rowsOf (idKey ts t) =
      match Coba.C06.evaluate (w.base.cfgOf t.2.2) (Coba.C06.wrapPmf Pm dflt) (w.base.batch t.1) inter
              (w.base.init t.2.1, Coba.C05.normInt (Int.ofNat ((w.base.valSeed t.2.2).getD seed))) with
      | .ok r => numbered r.2.2
      | .rejected _ => []
      | .crashed _ => [] := sequentialCB_pmf_rows' w cfg picks seed ts t ht Pm dflt hx inter henv

/-- the rows of a listed triple whose learner writes `learning_info` (un-batched environment) are the yielded rows of
`evaluateI` on the pristine learner: info written during an interaction is in that interaction's row only -/
theorem sequentialCB_info_rows (w : SeqWorldX σ V R P) (cfg : Cfg) (picks : List Nat) (seed : Nat) (ts : List Triple)
    (t : Triple) (ht : t ∈ ts) (L : Coba.C06.InfoLearner σ V) (hx : w.ext t.2.1 = some (.info L))
    (inter : List (Coba.C06.Dict (Coba.C06.Fld V R))) (henv : w.base.envRows t.1 = .ok inter)
    (hb : w.base.batch t.1 = none) :
    (run (seqCompsX w) cfg picks seed ts).rowsOf (idKey ts t) =
      match Coba.C06.evaluateI (w.base.cfgOf t.2.2) L inter (w.base.init t.2.1) with
      | .ok r => numbered r.2.2.1
      | .rejected _ => []
      | .crashed _ => [] := sequentialCB_info_rows' w cfg picks seed ts t ht L hx inter henv hb

/-- an ordinary learner object keeps exactly its phase-4 rows when PMF / info learner objects are added to the world -/
theorem sequentialCB_ext_plain_rows (w : SeqWorldX σ V R P) (cfg : Cfg) (picks : List Nat) (seed : Nat)
    (ts : List Triple) (t : Triple) (ht : t ∈ ts) (hx : w.ext t.2.1 = none) :
    (run (seqCompsX w) cfg picks seed ts).rowsOf (idKey ts t) =
      (run (seqComps w.base) cfg picks seed ts).rowsOf (idKey ts t) :=
  sequentialCB_ext_plain_rows' w cfg picks seed ts t ht hx

/-- a failing read costs exactly that triple's rows, whatever kind of learner -/
theorem sequentialCB_ext_read_failure (w : SeqWorldX σ V R P) (cfg : Cfg) (picks : List Nat) (seed : Nat)
    (ts : List Triple) (t : Triple) (ht : t ∈ ts) (err : Err) (henv : w.base.envRows t.1 = .error err) :
    (run (seqCompsX w) cfg picks seed ts).rowsOf (idKey ts t) = [] :=
  sequentialCB_ext_read_failure' w cfg picks seed ts t ht err henv

/-- batched environment (goal 2): a learner answering a batched `predict` with rows of `len` items whose first batch
has exactly `len` rows is asked to `predict` once more on the first interaction by `SafeLearner.batch_order`; the rows
of the triple are those SequentialCB produces with the learner seen through that probing wrapper (`probeWrap`), on the
pristine learner, in every configuration -/
theorem sequentialCB_probe_rows (w : SeqWorldX σ V R P) (cfg : Cfg) (picks : List Nat) (seed : Nat) (ts : List Triple)
    (t : Triple) (ht : t ∈ ts) (L : Coba.C06.Learner σ V) (len n : Nat) (hx : w.ext t.2.1 = some (.rowLen L len))
    (inter : List (Coba.C06.Dict (Coba.C06.Fld V R))) (henv : w.base.envRows t.1 = .ok inter)
    (hb : w.base.batch t.1 = some n) (hsq : min n inter.length = len) :
    (run (seqCompsX w) cfg picks seed ts).rowsOf (idKey ts t) =
      match Coba.C06.evaluate (w.base.cfgOf t.2.2) (probeWrap L len) (some n) inter (w.base.init t.2.1, 0, none) with
      | .ok r => numbered r.2.2
      | .rejected _ => []
      | .crashed _ => [] := sequentialCB_probe_rows' w cfg picks seed ts t ht L len n hx inter henv hb hsq

/-- … and when the environment is not batched or the first batch is not square no probe is made: the phase-4 rows -/
theorem sequentialCB_noprobe_rows (w : SeqWorldX σ V R P) (cfg : Cfg) (picks : List Nat) (seed : Nat) (ts : List Triple)
    (t : Triple) (ht : t ∈ ts) (L : Coba.C06.Learner σ V) (len : Nat) (hx : w.ext t.2.1 = some (.rowLen L len))
    (inter : List (Coba.C06.Dict (Coba.C06.Fld V R))) (henv : w.base.envRows t.1 = .ok inter)
    (hsq : ∀ n, w.base.batch t.1 = some n → min n inter.length ≠ len) :
    (run (seqCompsX w) cfg picks seed ts).rowsOf (idKey ts t) =
      match Coba.C06.evaluate (w.base.cfgOf t.2.2) L (w.base.batch t.1) inter (w.base.init t.2.1) with
      | .ok r => numbered r.2.2
      | .rejected _ => []
      | .crashed _ => [] := sequentialCB_noprobe_rows' w cfg picks seed ts t ht L len hx inter henv hsq

omit [DecidableEq V] [Coba.C06.RewardFn R V] in
/-- what the probing wrapper is: same answers as the learner; same state moves except that the `k`-th predict of the
evaluation is followed by one more `predict` on the first call's arguments -/
theorem probe_is_one_extra_predict (L : Coba.C06.Learner σ V) (k : Nat) (s : σ) (n : Nat)
    (first : Option V × Option (List V)) (ctx : Option V) (acts : Option (List V)) :
    ((probeWrap L k).predict (s, n, some first) ctx acts).2 = (L.predict s ctx acts).2 ∧
    (n + 1 ≠ k → ((probeWrap L k).predict (s, n, some first) ctx acts).1.1 = (L.predict s ctx acts).1) ∧
    (n + 1 = k → ((probeWrap L k).predict (s, n, some first) ctx acts).1.1 =
      (L.predict (L.predict s ctx acts).1 first.1 first.2).1) :=
  ⟨probeWrap_answer L k _ ctx acts, probeWrap_state_no_probe L k (s, n, some first) ctx acts,
   probeWrap_state_probe L k s n first ctx acts⟩

end phase5

/-! ## phase 5: translator obligations — `Generated/C01Seeds.lean` is re-extracted from coba/evaluators/sequential.py on every run -/

/-- the seed the model hands to every evaluation (`effSeed`: the evaluator's own seed, else the experiment seed) is the
expression the source passes to `SafeLearner(learner, …)` in `SequentialCB.evaluate` — what `sequentialCB_pmf_rows` seeds
the generator with -/
theorem eff_seed_matches_source {S P Row : Type} (c : Comps S P Row) (seed v : Nat) :
    some (effSeed c seed v) = Coba.Generated.C01.seqSeed (c.valSeed v) seed := by
  unfold effSeed Coba.Generated.C01.seqSeed
  cases c.valSeed v <;> rfl

/-- sites that must agree: `RejectionCB.evaluate` seeds its `SafeLearner` and its own `CobaRandom` with the same
expression as `SequentialCB.evaluate` -/
theorem rejection_seed_sites_agree (own : Option Nat) (exp : Nat) :
    Coba.Generated.C01.rejLearnerSeed own exp = Coba.Generated.C01.seqSeed own exp ∧
    Coba.Generated.C01.rejRngSeed own exp = Coba.Generated.C01.seqSeed own exp := by
  constructor <;> (cases own <;> rfl)

/-! ## phase 6: the built-in `RejectionCB` inside the experiment model, over the C05 stream

`seqCompsR w`: evaluator objects are `SequentialCB` objects (phase 4/5) or `RejectionCB` objects (`w.rej v = some rc`,
`rejEvaluate`: peek of 100, validation, data-adaptive start value, per interaction score / insort / one draw of
`CobaRandom(seed)` / accept-learn-record / percentile update). -/

section phase6
variable {σ V R : Type} [DecidableEq V] [Coba.C06.RewardFn R V]

/-- `Experiment.run` over SequentialCB **and RejectionCB** objects gives the spec Result in every configuration and schedule -/
theorem run_eq_spec_rejectionCB (w : SeqWorldR σ V R P) (cfg : Cfg) (picks : List Nat) (seed : Nat)
    (ts : List Triple) : run (seqCompsR w) cfg picks seed ts = resultS (seqCompsR w) seed ts :=
  run_eq_spec' (seqCompsR w) cfg picks seed ts

/-- hence it does not depend on the execution configuration or the schedule -/
theorem rejectionCB_config_independent (w : SeqWorldR σ V R P) (cfg cfg' : Cfg) (picks picks' : List Nat)
    (seed : Nat) (ts : List Triple) :
    run (seqCompsR w) cfg picks seed ts = run (seqCompsR w) cfg' picks' seed ts := by
  rw [run_eq_spec' (seqCompsR w) cfg picks seed ts, run_eq_spec' (seqCompsR w) cfg' picks' seed ts]

/-- the extension is conservative: a world without RejectionCB objects is the phase-5 world -/
theorem rejectionCB_conservative (w0 : SeqWorldX σ V R P) : seqCompsR ⟨w0, fun _ => none⟩ = seqCompsX w0 :=
  seqCompsR_plain' w0

/-- the rows of a listed triple whose evaluator is a RejectionCB are, numbered from 1, the rows `RejectionCB.evaluate`
yields on the learner's PRISTINE state with a generator FRESHLY seeded with the evaluator's seed, or the experiment seed
when it has none (none when it raises) — in every configuration, whatever else the experiment lists: neither the
generator, nor `Q`, nor the multiplier `c` is shared between evaluations -/
theorem rejectionCB_rows (w : SeqWorldR σ V R P) (cfg : Cfg) (picks : List Nat) (seed : Nat) (ts : List Triple)
    (t : Triple) (ht : t ∈ ts) (rc : RejConfig) (hv : w.rej t.2.2 = some rc)
    (inter : List (Coba.C06.Dict (Coba.C06.Fld V R))) (henv : w.x.base.envRows t.1 = .ok inter) :
    (run (seqCompsR w) cfg picks seed ts).rowsOf (idKey ts t) =
      match (rejEvaluate rc (w.x.base.learner t.2.1) (w.x.base.batch t.1) inter (w.x.base.init t.2.1)
              (Coba.C05.normInt (Int.ofNat ((w.x.base.valSeed t.2.2).getD seed)))).1 with
      | .ok rows => numbered rows
      | .error _ => [] := rejectionCB_rows' w cfg picks seed ts t ht rc hv inter henv

/-- a failing read costs exactly that triple's rows -/
theorem rejectionCB_read_failure (w : SeqWorldR σ V R P) (cfg : Cfg) (picks : List Nat) (seed : Nat) (ts : List Triple)
    (t : Triple) (ht : t ∈ ts) (rc : RejConfig) (hv : w.rej t.2.2 = some rc) (err : Err)
    (henv : w.x.base.envRows t.1 = .error err) :
    (run (seqCompsR w) cfg picks seed ts).rowsOf (idKey ts t) = [] :=
  rejectionCB_read_failure' w cfg picks seed ts t ht rc hv err henv

/-- a triple evaluated by a SequentialCB object keeps exactly its phase-5 rows when RejectionCB objects are added -/
theorem sequentialCB_rows_beside_rejectionCB (w : SeqWorldR σ V R P) (cfg cfg' : Cfg) (picks picks' : List Nat) (seed : Nat)
    (ts : List Triple) (t : Triple) (ht : t ∈ ts) (hv : w.rej t.2.2 = none) :
    (run (seqCompsR w) cfg picks seed ts).rowsOf (idKey ts t) =
      (run (seqCompsX w.x) cfg' picks' seed ts).rowsOf (idKey ts t) :=
  sequentialCB_rows_beside_rejectionCB' w cfg cfg' picks picks' seed ts t ht hv

/-- `Q` stays sorted under `insort` (so `percentile(Q, cpct, sort=False)` reads a sorted list) … -/
theorem rejection_Q_sorted (x : Rat) (q : List Rat) (h : q.Pairwise (· ≤ ·)) : (insortR x q).Pairwise (· ≤ ·) :=
  insortR_sorted' x q h

/-- … and holds exactly the ratios inserted so far -/
theorem rejection_Q_perm (x : Rat) (q : List Rat) : (insortR x q).Perm (x :: q) := insortR_perm x q

omit [DecidableEq V] [Coba.C06.RewardFn R V] in
/-- rejection sampling records at most one row per interaction, for every learner, generator state and configuration -/
theorem rejection_rows_le (rc : RejConfig) (L : Coba.C06.Learner σ V) (bs : Option Nat)
    (env : List (Coba.C06.Dict (Coba.C06.Fld V R))) (s : σ) (g : Nat) (rows : List (Coba.C06.Row V R)) (s' : σ)
    (h : rejEvaluate rc L bs env s g = (.ok rows, s')) : rows.length ≤ env.length :=
  rejEvaluate_rows_le' rc L bs env s g rows s' h

omit [DecidableEq V] [Coba.C06.RewardFn R V] in
/-- a learner without `score`, a batched environment or a first interaction without the logged fields is refused
before the learner object is touched -/
theorem rejection_refused_untouched (rc : RejConfig) (L : Coba.C06.Learner σ V) (bs : Option Nat)
    (first : Coba.C06.Dict (Coba.C06.Fld V R)) (rest : List (Coba.C06.Dict (Coba.C06.Fld V R))) (s : σ) (g : Nat)
    (h : L.hasScore = false ∨ bs.isSome = true ∨ (rejKeys.all (fun k => Coba.C06.Dict.has first k)) = false) :
    rejEvaluate rc L bs (first :: rest) s g = (.error .raised, s) :=
  rejEvaluate_refused' rc L bs first rest s g h

example : insortR 2 [1, 2, 3] = [1, 2, 2, 3] := by decide +kernel
example : rejPercentile [1, 2, 4] (1/4) = some (3/2) := by decide +kernel

/-- translator obligations (Generated/C01Rej.lean, read off `RejectionCB.evaluate` on every run): the validated keys, the
size of the peek, the accept comparison `<=` (`rejLoop`: `rnd.2 ≤ c * …`) and the insort guard `!=` (`if sc.2 = 0 then q else …`) -/
theorem rejection_consts_match_source :
    rejKeys = Coba.Generated.C01.rejKeysSrc ∧ rejPeek = Coba.Generated.C01.rejPeekSrc ∧
    Coba.Generated.C01.rejAcceptOp = "<=" ∧ Coba.Generated.C01.rejGuardOp = "!=" := by decide

end phase6

end Coba.C01
