/-
C01 — Experiment results do not depend on execution configuration.
Property theorems only (model: Model/C01.lean, helper lemmas: Lemmas/C01.lean).

`run c cfg picks seed ts` is the model of `Experiment(ts).run(processes, maxchunksperchild,
maxtasksperchunk, seed)`: MakeTasks → ChunkTasks → ProcessTasks per chunk (in-process on the
caller's objects, or per chunk on a fresh copy of the pristine objects with the record streams
interleaved by the schedule `picks`) → TransactionResult.  `resultS c seed ts` is the spec.
All theorems hold for every component family `c` (arbitrary deterministic params / evaluation
functions, raising or not), every triple list, every configuration and every schedule.
-/
import CobaVerif.Lemmas.C01

namespace Coba.C01

variable {S P Row : Type}

/-- ids are assigned by first appearance and do not depend on the configuration: in every chunk of
every configuration a task carries the position of its object among the distinct objects listed -/
theorem ids_config_independent (c : Comps S P Row) (cfg : Cfg) (ts : List Triple) :
    ∀ ch ∈ chunksOf c cfg ts, ∀ t ∈ ch,
      match t with
      | .env i e => i = idOf (envsOf ts) e
      | .lrn i l => i = idOf (lrnsOf ts) l
      | .val i v => i = idOf (valsOf ts) v
      | .eval ei e li l vi v _ => (ei, li, vi) = idKey ts (e, l, v) :=
  ids_config_independent' c cfg ts

/-- the dict `MakeTasks` builds left to right is the list of distinct objects in order of first
appearance (so `idOf` is what the code computes) -/
theorem ids_first_appearance (xs : List Nat) : xs.foldl addFirst [] = firsts xs := foldl_addFirst_nil xs

/-- distinct objects get distinct ids -/
theorem ids_injective {xs : List Nat} {x y : Nat} (hx : x ∈ xs) (h : idOf xs x = idOf xs y) : x = y :=
  idOf_inj hx h

/-- `chunks_partition_tasks`: for every `maxtasksperchunk`, every chunk key function and every task
list, each task is in exactly one chunk; no chunk is empty or larger than `maxtasksperchunk` -/
theorem chunks_partition_tasks (mt : Nat) (ckey : Nat → Option Nat) (tasks : List Task) :
    (chunkTasks mt ckey tasks).flatten.Perm tasks ∧
      ∀ ch ∈ chunkTasks mt ckey tasks, ch ≠ [] ∧ (0 < mt → ch.length ≤ mt) :=
  ⟨chunkTasks_flatten mt ckey tasks, chunkTasks_bound mt ckey tasks⟩

/-- the order in which `ProcessTasks` works through a chunk is a permutation of the chunk -/
theorem process_order_perm (chunk : List Task) : (procOrder chunk).Perm chunk := procOrder_perm chunk

/-- `Task.copy` is set exactly when the learner object is listed in more than one triple -/
theorem copy_iff_shared (ts : List Triple) {ei e li l vi v : Nat} {cp : Bool}
    (h : Task.eval ei e li l vi v cp ∈ makeTasks .none ts) : cp = decide (lrnCount ts l > 1) :=
  (mem_makeTasks_eval h).2.2

/-- a learner cell is evaluated in place at most once in the whole task list (and hence in every
address space, which holds a sub-multiset of it) -/
theorem in_place_at_most_once (ts : List Triple) : AtMostOnce (makeTasks .none ts) := makeTasks_atMostOnce ts

/-- invariant of `ProcessTasks`: in an address space whose used learner cells are pristine and in
which no cell is used again after an in-place evaluation, every task sees a pristine learner -/
theorem pristine_address_space (c : Comps S P Row) (seed : Nat) (h : Heap S) (tasks : List Task)
    (hA : ∀ t ∈ tasks, ∀ l, t.uses l → h l = c.init l) (hN : AtMostOnce tasks) :
    (runSeq c seed h tasks).1 = tasks.map (pristineEv c seed) :=
  pristine_address_space' c seed h tasks hA hN

/-- `pristine`: under every configuration and every schedule the events of a run (records and
logged exceptions) are exactly, each once, the events the tasks produce on pristine learners -/
theorem pristine (c : Comps S P Row) (cfg : Cfg) (picks : List Nat) (seed : Nat) (ts : List Triple) :
    (runEvents c cfg picks seed ts).1.Perm ((makeTasks .none ts).map (pristineEv c seed)) :=
  runEvents_perm c cfg picks seed ts

/-- every schedule delivers the records of the chunks, each exactly once -/
theorem schedule_perm {α} (picks : List Nat) (queues : List (List α)) :
    (interleave queues picks).Perm queues.flatten := interleave_perm picks queues

/-- `result_order_insensitive`: permuting the records does not change the result, provided records
with the same tag and key are identical (in particular when all keys are distinct) -/
theorem result_order_insensitive {recs recs' : List (Rec P Row)} (p : recs.Perm recs')
    (hk : KeysFunctional recs) : result recs = result recs' := result_perm p hk

theorem result_order_insensitive_nodup {recs recs' : List (Rec P Row)} (p : recs.Perm recs')
    (hk : (recs.map Rec.rkey).Nodup) : result recs = result recs' :=
  result_perm p (KeysFunctional.of_nodup hk)

/-- the hypothesis is satisfiable … -/
example : KeysFunctional ([.T1 0 5, .T4 (0, 0, 0) [7, 8], .T1 1 6] : List (Rec Nat Nat)) :=
  KeysFunctional.of_nodup (by decide)

/-- … and necessary: two different records for one key are order-sensitive (last one wins) -/
theorem result_order_sensitive_on_conflicting_keys :
    (result ([.T1 0 5, .T1 0 6] : List (Rec Nat Nat))).envs ≠ (result ([.T1 0 6, .T1 0 5] : List (Rec Nat Nat))).envs := by
  decide

/-- `run_eq_spec` (C01): for every configuration `(processes, maxchunksperchild, maxtasksperchunk)`
and every schedule the run gives the specified result -/
theorem run_eq_spec (c : Comps S P Row) (cfg : Cfg) (picks : List Nat) (seed : Nat) (ts : List Triple) :
    run c cfg picks seed ts = resultS c seed ts := run_eq_spec' c cfg picks seed ts

/-- stronger form: in whatever order the records of the run reach `TransactionResult` (any
permutation, not only interleavings), the result is the specified one -/
theorem run_eq_spec_any_order (c : Comps S P Row) (cfg : Cfg) (picks : List Nat) (seed : Nat) (ts : List Triple)
    (recs : List (Rec P Row)) (h : recs.Perm (runRecords c cfg picks seed ts)) :
    result recs = resultS c seed ts := result_of_records_perm c cfg picks seed ts recs h

/-- `rerun_eq`: the result is a function of the (freshly constructed) components, the seed and the
triple list alone — any two configurations and schedules, in particular a second run, agree -/
theorem rerun_eq (c : Comps S P Row) (cfg cfg' : Cfg) (picks picks' : List Nat) (seed : Nat) (ts : List Triple) :
    run c cfg picks seed ts = run c cfg' picks' seed ts := by
  rw [run_eq_spec' c cfg picks seed ts, run_eq_spec' c cfg' picks' seed ts]

/-- `user_objects`: after the run a learner object listed in more than one triple is in its pristine
state; with worker processes no learner object of the caller is touched at all -/
theorem user_objects (c : Comps S P Row) (cfg : Cfg) (picks : List Nat) (seed : Nat) (ts : List Triple)
    (l : Nat) (h : lrnCount ts l > 1 ∨ cfg.multi = true) :
    (runEvents c cfg picks seed ts).2 l = c.init l := user_objects' c cfg picks seed ts l h

end Coba.C01
