/-
C06 — Sequential evaluation feeds and records exactly what the environment provides.
Property theorems only (helper lemmas live in `Lemmas/C06.lean`; model `evaluate` and spec
`specRun`/`specInter` in `Model/C06.lean`).

Quantification: every theorem holds for all value types `V` (decidable equality = Python `==`), all
reward-function types `R`, all learners (`Learner σ V`: any Mealy machine over any state type),
all configurations `c` (learn ∈ {on,off,ips,None} × eval ∈ {on,ips,None} × any record list) and all
finite environments `first :: rest` (dicts with any keys/fields) satisfying the stated hypotheses:

* `Hyp c L first rest` — the environment is well-formed (`wfEnv`: every interaction has the reserved keys
  of the first one with fields of the right shape, Python dicts have distinct keys), passes the code's
  validation (`missingKeys = []`), and sequence rewards come with a non-empty action list.
-/
import CobaVerif.Lemmas.C06

namespace Coba.C06

variable {V R : Type} [DecidableEq V] [RewardFn R V] {σ : Type}

/-- the call trace of the model is the trace the property describes: interaction by interaction, in
environment order, (predict | score)? then learn? with the documented arguments (`specInter`) -/
theorem trace_eq_spec (c : Config) (L : Learner σ V) (first : Dict (Fld V R)) (rest : List (Dict (Fld V R))) (s : σ)
    (H : Hyp c L first rest) :
    ((evaluate c L none (first :: rest) s).toOpt).map (fun r => (r.1, r.2.1)) =
      (specRun c (mkFlags first) L s ((first :: rest).map view)).map (fun r => (r.1, r.2.1)) := by
  rw [evaluate_refines' c L first rest s H.wf H.valid H.seq]; simp [Function.comp_def]

/-- the rows of the model are the rows the property describes (one per interaction, in order; a row
with nothing to record is not emitted, as `if out: yield out` does) -/
theorem rows_eq_spec (c : Config) (L : Learner σ V) (first : Dict (Fld V R)) (rest : List (Dict (Fld V R))) (s : σ)
    (H : Hyp c L first rest) :
    ((evaluate c L none (first :: rest) s).toOpt).map (fun r => r.2.2) =
      (specRun c (mkFlags first) L s ((first :: rest).map view)).map (fun r => r.2.2.filter (fun o => !o.isEmpty)) := by
  rw [evaluate_refines' c L first rest s H.wf H.valid H.seq]; simp [Function.comp_def]

/-- on a well-formed environment that passes validation the evaluation goes through (so the theorems below,
stated for a successful evaluation, are not vacuous, and `trace_eq_spec`/`rows_eq_spec` compare two defined values) -/
theorem evaluate_succeeds (c : Config) (L : Learner σ V) (first : Dict (Fld V R)) (rest : List (Dict (Fld V R))) (s : σ)
    (H : Hyp c L first rest) : ∃ out, evaluate c L none (first :: rest) s = .ok out :=
  evaluate_ok' c L first rest s H

/-- interactions are presented strictly in environment order: the trace splits into one group of calls per
interaction, in order, and every call of the i-th group carries the i-th interaction's context -/
theorem order_strict (c : Config) (L : Learner σ V) (first : Dict (Fld V R)) (rest : List (Dict (Fld V R)))
    (s s' : σ) (calls : List (Call V)) (rows : List (Row V R)) (H : Hyp c L first rest)
    (h : evaluate c L none (first :: rest) s = .ok (s', calls, rows)) :
    ∃ groups : List (List (Call V)), calls = groups.flatten ∧ groups.length = (first :: rest).length ∧
      ∀ vg ∈ ((first :: rest).map view).zip groups, ∀ call ∈ vg.2, Call.ctx call = vg.1.ctx :=
  order_strict' c L first rest s s' calls rows H h

/-- on-policy learning (learn ∈ {on, ips}): every interaction triggers exactly one predict with that
interaction's context and actions followed by exactly one learn with the same context, the action the
learner chose, the environment's reward for that action (resp. the IPS transform of the logged reward), and
the learner's own probability and kwargs — `steps` lists, per interaction, the learner state it was met in -/
theorem kwargs_roundtrip (c : Config) (L : Learner σ V) (first : Dict (Fld V R)) (rest : List (Dict (Fld V R)))
    (s s' : σ) (calls : List (Call V)) (rows : List (Row V R)) (H : Hyp c L first rest)
    (hl : c.learn = .on ∨ c.learn = .ips)
    (h : evaluate c L none (first :: rest) s = .ok (s', calls, rows)) :
    ∃ steps : List (σ × List (Call V)), steps.length = (first :: rest).length ∧ calls = (steps.map (·.2)).flatten ∧
      ∀ vst ∈ ((first :: rest).map view).zip steps,
        ∃ rew, (if c.learn = .on then envReward vst.1 (L.predict vst.2.1 vst.1.ctx vst.1.acts).2.action
                else ipsReward vst.1 (some (L.predict vst.2.1 vst.1.ctx vst.1.acts).2.action)) = some rew ∧
          vst.2.2 = [Call.predict vst.1.ctx vst.1.acts,
                     Call.learn vst.1.ctx (some (L.predict vst.2.1 vst.1.ctx vst.1.acts).2.action) (some rew)
                       (L.predict vst.2.1 vst.1.ctx vst.1.acts).2.prob (L.predict vst.2.1 vst.1.ctx vst.1.acts).2.kw] :=
  kwargs_roundtrip' c L first rest s s' calls rows H hl h

/-- off-policy learning (learn = off): the learn call of every interaction carries the logged action, the
logged reward and the logged probability, and no kwargs -/
theorem off_policy_logged (c : Config) (L : Learner σ V) (first : Dict (Fld V R)) (rest : List (Dict (Fld V R)))
    (s s' : σ) (calls : List (Call V)) (rows : List (Row V R)) (H : Hyp c L first rest) (hl : c.learn = .off)
    (h : evaluate c L none (first :: rest) s = .ok (s', calls, rows)) :
    ∃ groups : List (List (Call V)), groups.length = (first :: rest).length ∧ calls = groups.flatten ∧
      ∀ vg ∈ ((first :: rest).map view).zip groups,
        vg.2.getLast? = some (Call.learn vg.1.ctx vg.1.offAct vg.1.offRwd vg.1.offPr []) :=
  off_policy' c L first rest s s' calls rows H hl h

/-- when neither the mode nor the record options need a prediction the learner never sees `predict` -/
theorem no_predict_when_not_needed (c : Config) (L : Learner σ V) (first : Dict (Fld V R)) (rest : List (Dict (Fld V R)))
    (s s' : σ) (calls : List (Call V)) (rows : List (Row V R)) (H : Hyp c L first rest)
    (hnp : needPred c L.hasScore = false)
    (h : evaluate c L none (first :: rest) s = .ok (s', calls, rows)) :
    ∀ call ∈ calls, Call.isPredict call = false :=
  no_predict' c L first rest s s' calls rows H hnp h

/-- additional interaction fields are carried into the row unchanged: the emitted rows are the non-empty ones
of a list with one row per interaction, in order, and the i-th row ends with exactly the i-th interaction's
additional fields (everything before them is a recorded column with a reserved name) -/
theorem extra_fields_carried (c : Config) (L : Learner σ V) (first : Dict (Fld V R)) (rest : List (Dict (Fld V R)))
    (s s' : σ) (calls : List (Call V)) (rows : List (Row V R)) (H : Hyp c L first rest)
    (h : evaluate c L none (first :: rest) s = .ok (s', calls, rows)) :
    ∃ full : List (Row V R), full.length = (first :: rest).length ∧ rows = full.filter (fun o => !o.isEmpty) ∧
      ∀ vr ∈ ((first :: rest).map view).zip full,
        ∃ pre : Row V R, vr.2 = pre ++ vr.1.extras.map (fun kv => (kv.1, Cell.fld kv.2)) ∧ ∀ b ∈ pre, b.1 ∈ implicitExclude :=
  extra_fields_carried' c L first rest s s' calls rows H h

/-- one row per interaction (stated where no row can be empty: every interaction has an additional field) -/
theorem one_row_per_interaction (c : Config) (L : Learner σ V) (first : Dict (Fld V R)) (rest : List (Dict (Fld V R)))
    (s s' : σ) (calls : List (Call V)) (rows : List (Row V R)) (H : Hyp c L first rest)
    (hex : ∀ d ∈ first :: rest, extrasOf d ≠ [])
    (h : evaluate c L none (first :: rest) s = .ok (s', calls, rows)) :
    rows.length = (first :: rest).length :=
  one_row_per_interaction' c L first rest s s' calls rows H hex h

/-- batched evaluation (`Batch(n)`, any n ≥ 1: `BatchSafe(Finalize())`, one loop pass per batch, `Unbatch` of the rows)
records the same rows as unbatched evaluation for every learner whose answers do not depend on its history
(`Oblivious`); no well-formedness hypothesis is needed.  `dropNoneProb` removes the `probability: None` cells the
batched code path writes for learners that report no probability.  (For history-dependent learners the two
legitimately differ: a batch is predicted as a whole before any of it is learned.) -/
theorem batched_eq_unbatched {L : Learner σ V} {f : Option V → Option (List V) → Pred V}
    {g : Option V → Option (List V) → Option V → Rat} (ho : Oblivious L f g) (c : Config) (n : Nat) (hn : 0 < n)
    (env : List (Dict (Fld V R))) (s sb su : σ) (cb cu : List (Call V)) (rb ru : List (Row V R))
    (hb : evaluate c L (some n) env s = .ok (sb, cb, rb)) (hu : evaluate c L none env s = .ok (su, cu, ru)) :
    ru = (rb.map dropNoneProb).filter (fun o => !o.isEmpty) :=
  batched_eq_unbatched' ho c n hn env s sb su cb cu rb ru hb hu

/-- validation (all environments, batched or not, no hypotheses): `evaluate` rejects up-front — before the
learner is touched — iff a key the code requires (`required` = `_required`) is missing from the first interaction -/
theorem validate_iff_missing (c : Config) (L : Learner σ V) (bs : Option Nat) (env : List (Dict (Fld V R))) (s : σ) :
    (∃ ks, evaluate c L bs env s = .rejected ks) ↔
      ∃ first rest, env = first :: rest ∧ ∃ k ∈ required c L.hasScore, first.has k = false :=
  validate_iff' c L bs env s

/-- … and the exception names exactly the missing required keys -/
theorem rejected_names_missing (c : Config) (L : Learner σ V) (bs : Option Nat) (first : Dict (Fld V R))
    (rest : List (Dict (Fld V R))) (s : σ) (ks : List String) (h : evaluate c L bs (first :: rest) s = .rejected ks) :
    ks = (required c L.hasScore).filter (fun k => !first.has k) :=
  rejected_keys' c L bs first rest s ks h

/- theorem validate_iff_missing_full : (∃ ks, evaluate c L bs (first :: rest) s = .rejected ks) ↔
      ∃ k ∈ requiredS c L.hasScore, first.has k = false
   — FALSE for the code as it is: the docstring says the ips modes require 'probability' (`requiredS`), `_required`
   does not ask for it and `OpeRewards('IPS')` silently divides by 1.  The pinned suite asserts this behaviour
   (test_off_ips_actions_no_prob), so it is recorded (finding C06-F1), not repaired.  Proved instead: -/

/-- documented requirements, partial: an environment lacking a documented field is rejected, provided it is not
an ips mode on an environment without `probability` -/
theorem validate_iff_missing_partial (c : Config) (L : Learner σ V) (bs : Option Nat) (first : Dict (Fld V R))
    (rest : List (Dict (Fld V R))) (s : σ) (hp : ipsWithoutProb c first = false) :
    (∃ ks, evaluate c L bs (first :: rest) s = .rejected ks) ↔ ∃ k ∈ requiredS c L.hasScore, first.has k = false :=
  validate_partial' c L bs first rest s hp

/-! the hypothesis is necessary: learn='ips' on a logged environment without 'probability' -/
instance cexRewardFn : RewardFn Unit Nat := ⟨fun _ _ => 0⟩
def cexCfg : Config := { learn := .ips, eval := .none, record := [] }
def cexEnv : List (Dict (Fld Nat Unit)) :=
  [[("context", .val 7), ("actions", .acts [1, 2]), ("action", .val 1), ("reward", .num 3)]]
def cexL : Learner Nat Nat :=
  { hasScore := false, predict := fun s _ _ => (s + 1, { action := 1, prob := none, kw := [] }),
    score := fun s _ _ _ => (s, 0), learn := fun s _ _ _ _ _ => s + 10 }

/-- 'probability' is documented as required, it is missing, and yet the evaluation goes through and teaches
the learner the reward 3 = 3/1 for the logged action (replayed on the real code: finding C06-F1) -/
theorem validate_counterexample :
    "probability" ∈ requiredS cexCfg cexL.hasScore ∧ (∀ d ∈ cexEnv, d.has "probability" = false) ∧
    evaluate cexCfg cexL none cexEnv 0 =
      .ok (11, [.predict (some 7) (some [1, 2]), .learn (some 7) (some 1) (some 3) none []], []) := by
  set_option synthInstance.maxSize 2000 in
  decide +kernel

/-! the hypotheses of the refinement theorems are satisfiable on a non-trivial environment
(two simulated+logged interactions with an extra field, learn='on', eval='ips') -/
def exCfg : Config := { learn := .on, eval := .ips, record := ["reward", "action", "probability"] }
def exEnv : List (Dict (Fld Nat Unit)) :=
  [[("context", .val 7), ("actions", .acts [1, 2]), ("rewards", .rlist [1, 0]), ("action", .val 1), ("reward", .num 3),
    ("probability", .num 1), ("L", .val 5)],
   [("context", .none), ("actions", .acts [4]), ("rewards", .rlist [2]), ("action", .val 4), ("reward", .num 1),
    ("probability", .num 1), ("L", .none)]]

example : Oblivious cexL (fun _ _ => { action := 1, prob := none, kw := [] }) (fun _ _ _ => 0) :=
  ⟨fun _ _ _ => rfl, fun _ _ _ _ => rfl⟩

example : evaluate exCfg cexL (some 2) exEnv 0 =
    .ok (22, [.predict (some 7) (some [1, 2]), .predict none (some [4]),
              .learn (some 7) (some 1) (some 1) none [], .learn none (some 1) (some 0) none []],
         [[("action", .val (some 1)), ("reward", .num (some 3)), ("probability", .num none), ("L", .fld (.val 5))],
          [("action", .val (some 1)), ("reward", .num (some 0)), ("probability", .num none), ("L", .fld .none)]]) := by
  set_option synthInstance.maxSize 4000 in
  decide +kernel

example : Hyp exCfg cexL exEnv.head! exEnv.tail! := ⟨by decide +kernel, by decide +kernel, by decide +kernel⟩

example : evaluate exCfg cexL none exEnv 0 =
    .ok (22, [.predict (some 7) (some [1, 2]), .learn (some 7) (some 1) (some 1) none [],
              .predict none (some [4]), .learn none (some 1) (some 0) none []],
         [[("action", .val (some 1)), ("reward", .num (some 3)), ("L", .fld (.val 5))],
          [("action", .val (some 1)), ("reward", .num (some 0)), ("L", .fld .none)]]) := by
  set_option synthInstance.maxSize 4000 in
  decide +kernel

end Coba.C06
