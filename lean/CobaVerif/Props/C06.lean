/-
C06 — Sequential evaluation feeds and records exactly what the environment provides.
Property theorems only (helper lemmas live in `Lemmas/C06.lean`; model `evaluate` and spec
`specRun`/`specInter` in `Model/C06.lean`).

Quantification: every theorem holds for all value types `V` (decidable equality = Python `==`), all
reward-function types `R`, all learners (`Learner σ V`: any Mealy machine over any state type),
all configurations `c` (learn ∈ {on,off,ips,None} × eval ∈ {on,ips,None} × any record list) and all
finite environments `first :: rest` (dicts with any keys/fields) satisfying the stated hypotheses:

* `Hyp c L first rest` — the environment is well-formed (`wfEnv`: every interaction has the reserved keys
  of the first one with fields of the right shape, Python dicts have distinct keys), passes the code's
  validation (`missingKeys = []`), and sequence rewards come with a non-empty action list.
-/
import CobaVerif.Lemmas.C06

namespace Coba.C06

variable {V R : Type} [DecidableEq V] [RewardFn R V] {σ : Type}

/-- the call trace of the model is the trace the property describes: interaction by interaction, in
environment order, (predict | score)? then learn? with the documented arguments (`specInter`) -/
theorem trace_eq_spec (c : Config) (L : Learner σ V) (first : Dict (Fld V R)) (rest : List (Dict (Fld V R))) (s : σ)
    (H : Hyp c L first rest) :
    ((evaluate c L none (first :: rest) s).toOpt).map (fun r => (r.1, r.2.1)) =
      (specRun c (mkFlags first) L s ((first :: rest).map view)).map (fun r => (r.1, r.2.1)) := by
  rw [evaluate_refines' c L first rest s H.wf H.valid H.seq]; simp [Function.comp_def]

/-- the rows of the model are the rows the property describes (one per interaction, in order; a row
with nothing to record is not emitted, as `if out: yield out` does) -/
theorem rows_eq_spec (c : Config) (L : Learner σ V) (first : Dict (Fld V R)) (rest : List (Dict (Fld V R))) (s : σ)
    (H : Hyp c L first rest) :
    ((evaluate c L none (first :: rest) s).toOpt).map (fun r => r.2.2) =
      (specRun c (mkFlags first) L s ((first :: rest).map view)).map (fun r => r.2.2.filter (fun o => !o.isEmpty)) := by
  rw [evaluate_refines' c L first rest s H.wf H.valid H.seq]; simp [Function.comp_def]

/-- on a well-formed environment that passes validation the evaluation goes through (so the theorems below,
stated for a successful evaluation, are not vacuous, and `trace_eq_spec`/`rows_eq_spec` compare two defined values) -/
theorem evaluate_succeeds (c : Config) (L : Learner σ V) (first : Dict (Fld V R)) (rest : List (Dict (Fld V R))) (s : σ)
    (H : Hyp c L first rest) : ∃ out, evaluate c L none (first :: rest) s = .ok out :=
  evaluate_ok' c L first rest s H

/-- interactions are presented strictly in environment order: the trace splits into one group of calls per
interaction, in order, and every call of the i-th group carries the i-th interaction's context -/
theorem order_strict (c : Config) (L : Learner σ V) (first : Dict (Fld V R)) (rest : List (Dict (Fld V R)))
    (s s' : σ) (calls : List (Call V)) (rows : List (Row V R)) (H : Hyp c L first rest)
    (h : evaluate c L none (first :: rest) s = .ok (s', calls, rows)) :
    ∃ groups : List (List (Call V)), calls = groups.flatten ∧ groups.length = (first :: rest).length ∧
      ∀ vg ∈ ((first :: rest).map view).zip groups, ∀ call ∈ vg.2, Call.ctx call = vg.1.ctx :=
  order_strict' c L first rest s s' calls rows H h

/-- on-policy learning (learn ∈ {on, ips}): every interaction triggers exactly one predict with that
interaction's context and actions followed by exactly one learn with the same context, the action the
learner chose, the environment's reward for that action (resp. the IPS transform of the logged reward), and
the learner's own probability and kwargs — `steps` lists, per interaction, the learner state it was met in -/
theorem kwargs_roundtrip (c : Config) (L : Learner σ V) (first : Dict (Fld V R)) (rest : List (Dict (Fld V R)))
    (s s' : σ) (calls : List (Call V)) (rows : List (Row V R)) (H : Hyp c L first rest)
    (hl : c.learn = .on ∨ c.learn = .ips)
    (h : evaluate c L none (first :: rest) s = .ok (s', calls, rows)) :
    ∃ steps : List (σ × List (Call V)), steps.length = (first :: rest).length ∧ calls = (steps.map (·.2)).flatten ∧
      ∀ vst ∈ ((first :: rest).map view).zip steps,
        ∃ rew, (if c.learn = .on then envReward vst.1 (L.predict vst.2.1 vst.1.ctx vst.1.acts).2.action
                else ipsReward vst.1 (some (L.predict vst.2.1 vst.1.ctx vst.1.acts).2.action)) = some rew ∧
          vst.2.2 = [Call.predict vst.1.ctx vst.1.acts,
                     Call.learn vst.1.ctx (some (L.predict vst.2.1 vst.1.ctx vst.1.acts).2.action) (some rew)
                       (L.predict vst.2.1 vst.1.ctx vst.1.acts).2.prob (L.predict vst.2.1 vst.1.ctx vst.1.acts).2.kw] :=
  kwargs_roundtrip' c L first rest s s' calls rows H hl h

/-- off-policy learning (learn = off): the learn call of every interaction carries the logged action, the
logged reward and the logged probability, and no kwargs -/
theorem off_policy_logged (c : Config) (L : Learner σ V) (first : Dict (Fld V R)) (rest : List (Dict (Fld V R)))
    (s s' : σ) (calls : List (Call V)) (rows : List (Row V R)) (H : Hyp c L first rest) (hl : c.learn = .off)
    (h : evaluate c L none (first :: rest) s = .ok (s', calls, rows)) :
    ∃ groups : List (List (Call V)), groups.length = (first :: rest).length ∧ calls = groups.flatten ∧
      ∀ vg ∈ ((first :: rest).map view).zip groups,
        vg.2.getLast? = some (Call.learn vg.1.ctx vg.1.offAct vg.1.offRwd vg.1.offPr []) :=
  off_policy' c L first rest s s' calls rows H hl h

/-- when neither the mode nor the record options need a prediction the learner never sees `predict` -/
theorem no_predict_when_not_needed (c : Config) (L : Learner σ V) (first : Dict (Fld V R)) (rest : List (Dict (Fld V R)))
    (s s' : σ) (calls : List (Call V)) (rows : List (Row V R)) (H : Hyp c L first rest)
    (hnp : needPred c L.hasScore = false)
    (h : evaluate c L none (first :: rest) s = .ok (s', calls, rows)) :
    ∀ call ∈ calls, Call.isPredict call = false :=
  no_predict' c L first rest s s' calls rows H hnp h

/-- additional interaction fields are carried into the row unchanged: the emitted rows are the non-empty ones
of a list with one row per interaction, in order, and the i-th row ends with exactly the i-th interaction's
additional fields (everything before them is a recorded column with a reserved name) -/
theorem extra_fields_carried (c : Config) (L : Learner σ V) (first : Dict (Fld V R)) (rest : List (Dict (Fld V R)))
    (s s' : σ) (calls : List (Call V)) (rows : List (Row V R)) (H : Hyp c L first rest)
    (h : evaluate c L none (first :: rest) s = .ok (s', calls, rows)) :
    ∃ full : List (Row V R), full.length = (first :: rest).length ∧ rows = full.filter (fun o => !o.isEmpty) ∧
      ∀ vr ∈ ((first :: rest).map view).zip full,
        ∃ pre : Row V R, vr.2 = pre ++ vr.1.extras.map (fun kv => (kv.1, Cell.fld kv.2)) ∧ ∀ b ∈ pre, b.1 ∈ implicitExclude :=
  extra_fields_carried' c L first rest s s' calls rows H h

/-- one row per interaction (stated where no row can be empty: every interaction has an additional field) -/
theorem one_row_per_interaction (c : Config) (L : Learner σ V) (first : Dict (Fld V R)) (rest : List (Dict (Fld V R)))
    (s s' : σ) (calls : List (Call V)) (rows : List (Row V R)) (H : Hyp c L first rest)
    (hex : ∀ d ∈ first :: rest, extrasOf d ≠ [])
    (h : evaluate c L none (first :: rest) s = .ok (s', calls, rows)) :
    rows.length = (first :: rest).length :=
  one_row_per_interaction' c L first rest s s' calls rows H hex h

/-- batched evaluation (`Batch(n)`, any n ≥ 1: `BatchSafe(Finalize())`, one loop pass per batch, `Unbatch` of the rows)
records the same rows as unbatched evaluation for every learner whose answers do not depend on its history
(`Oblivious`); no well-formedness hypothesis is needed.  `dropNoneProb` removes the `probability: None` cells the
batched code path writes for learners that report no probability.  (For history-dependent learners the two
legitimately differ: a batch is predicted as a whole before any of it is learned.) -/
theorem batched_eq_unbatched {L : Learner σ V} {f : Option V → Option (List V) → Pred V}
    {g : Option V → Option (List V) → Option V → Rat} (ho : Oblivious L f g) (c : Config) (n : Nat) (hn : 0 < n)
    (env : List (Dict (Fld V R))) (s sb su : σ) (cb cu : List (Call V)) (rb ru : List (Row V R))
    (hb : evaluate c L (some n) env s = .ok (sb, cb, rb)) (hu : evaluate c L none env s = .ok (su, cu, ru)) :
    ru = (rb.map dropNoneProb).filter (fun o => !o.isEmpty) :=
  batched_eq_unbatched' ho c n hn env s sb su cb cu rb ru hb hu

/-- batched refinement, call trace: for every batch size `n` (the last batch may be shorter) the model's trace is the
batched spec's — per batch all predicts (rows in order), then all scores, then all learns, each with the documented
per-interaction arguments (`specChunk`).  A batch-aware learner gets each phase as one call with `Batch.List`
arguments, any other learner row by row through SafeLearner's fallback; the row-level sequence is the same. -/
theorem trace_eq_spec_batched (c : Config) (L : Learner σ V) (n : Nat) (first : Dict (Fld V R)) (rest : List (Dict (Fld V R)))
    (s : σ) (H : Hyp c L first rest) :
    ((evaluate c L (some n) (first :: rest) s).toOpt).map (fun r => (r.1, r.2.1)) =
      (specRunB c (mkFlags first) L s ((chunks n (first :: rest)).map (List.map view))).map (fun r => (r.1, r.2.1)) := by
  rw [evaluate_refines_batched' c L n first rest s H.wf H.valid H.seq]; simp [Function.comp_def]

/-- batched refinement, rows: one row per interaction in environment order (`rowSB`: as `rowS`, with the
`probability` cell written whenever a prediction was made), empty rows not emitted -/
theorem rows_eq_spec_batched (c : Config) (L : Learner σ V) (n : Nat) (first : Dict (Fld V R)) (rest : List (Dict (Fld V R)))
    (s : σ) (H : Hyp c L first rest) :
    ((evaluate c L (some n) (first :: rest) s).toOpt).map (fun r => r.2.2) =
      (specRunB c (mkFlags first) L s ((chunks n (first :: rest)).map (List.map view))).map
        (fun r => r.2.2.filter (fun o => !o.isEmpty)) := by
  rw [evaluate_refines_batched' c L n first rest s H.wf H.valid H.seq]; simp [Function.comp_def]

/-- what a history-dependent learner sees differently in a batch (1): the calls of one batch are its predicts, then
its scores, then its learns, and the batch is learned from the state reached after ALL its predictions/scores -/
theorem batched_calls_shape (c : Config) (fl : Flags) (L : Learner σ V) (s : σ) (vs : List (View V R))
    (r : σ × List (Call V) × List (Row V R)) (h : specChunk c fl L s vs = some r) :
    ∃ args, ((c.learn = .none ∧ args = []) ∨ (c.learn ≠ .none ∧
        allSome (List.zipWith (learnArgsS c) vs
          (if needPred c L.hasScore then (predictS L s vs).2.map some else vs.map (fun _ => none))) = some args)) ∧
      r.1 = learnS L
        (if (c.eval == .ips && L.hasScore && !needPred c L.hasScore) then
            (scoreS L (if needPred c L.hasScore then (predictS L s vs).1 else s) vs).1
          else (if needPred c L.hasScore then (predictS L s vs).1 else s)) vs args
      ∧ r.2.1 = (if needPred c L.hasScore then vs.map (fun v => Call.predict v.ctx v.acts) else [])
          ++ (if (c.eval == .ips && L.hasScore && !needPred c L.hasScore) then vs.map (fun v => Call.score v.ctx v.acts v.offAct) else [])
          ++ List.zipWith (fun (v : View V R) a => Call.learn v.ctx a.1 a.2.1 a.2.2.1 a.2.2.2) vs args :=
  specChunk_state L s vs r h

/-- what a history-dependent learner sees differently in a batch (2): row j of a batch is predicted in the state
reached by predicting rows 0..j-1 of that batch — none of the batch has been learned yet -/
theorem batched_row_predicted_before_learning (L : Learner σ V) (s : σ) (vs : List (View V R)) (j : Nat) (h : j < vs.length) :
    (predictS L s vs).2[j]? = some (L.predict (predictS L s (vs.take j)).1 (vs[j]).ctx (vs[j]).acts).2 :=
  predictS_get L s vs j h

/-- for a history-independent learner the batched run makes exactly the calls of the un-batched run — the same
predicts, the same scores, the same learns, each kind in the same order; only the interleaving differs -/
theorem batched_trace_eq_unbatched {L : Learner σ V} {f : Option V → Option (List V) → Pred V}
    {g : Option V → Option (List V) → Option V → Rat} (ho : Oblivious L f g) (c : Config) (n : Nat) (hn : 0 < n)
    (first : Dict (Fld V R)) (rest : List (Dict (Fld V R))) (s sb su : σ) (cb cu : List (Call V)) (rb ru : List (Row V R))
    (H : Hyp c L first rest)
    (hb : evaluate c L (some n) (first :: rest) s = .ok (sb, cb, rb))
    (hu : evaluate c L none (first :: rest) s = .ok (su, cu, ru)) :
    cb.filter Call.isPredict = cu.filter Call.isPredict ∧ cb.filter Call.isScore = cu.filter Call.isScore
      ∧ cb.filter Call.isLearn = cu.filter Call.isLearn :=
  batched_trace_eq_unbatched' ho c n hn first rest s sb su cb cu rb ru H hb hu

/-- several evaluations with the same learner object: the k-th outcome is `evaluate` of the k-th config/environment
started in the learner state the earlier evaluations left (`finalState`); the evaluator and the SafeLearner wrapper
carry nothing over (this is what the harness replays with the `s0` request field) -/
theorem evaluations_independent (L : Learner σ V) (s : σ) (pre : List (Episode V R)) (e : Episode V R) (post : List (Episode V R)) :
    (runHistory L s (pre ++ e :: post))[pre.length]? = some (evaluate e.cfg L e.bs e.env (finalState L s pre)) :=
  evaluations_independent' L s pre e post

/-- … hence histories that leave the learner in the same state are followed by the same outcome -/
theorem history_congr (L : Learner σ V) (s₁ s₂ : σ) (pre₁ pre₂ : List (Episode V R)) (e : Episode V R)
    (post₁ post₂ : List (Episode V R)) (h : finalState L s₁ pre₁ = finalState L s₂ pre₂) :
    (runHistory L s₁ (pre₁ ++ e :: post₁))[pre₁.length]? = (runHistory L s₂ (pre₂ ++ e :: post₂))[pre₂.length]? :=
  history_congr' L s₁ s₂ pre₁ pre₂ e post₁ post₂ h

/-- one `SequentialCB` object applied to several (learner, environment) jobs: in the model the evaluator is nothing but
its configuration `c` — `evaluate c` takes no evaluator state and returns none — so the k-th outcome is `evaluate c` of
the k-th job whatever came before (in particular the required keys are recomputed from each job's own learner:
`required c L.hasScore` inside `evaluate`).  The harness holds the real object to this by reusing one SequentialCB
across evaluations with different learners and judging every evaluation on its own. -/
theorem evaluator_stateless (c : Config) (jobs : List (Learner σ V × Option Nat × List (Dict (Fld V R)) × σ)) (k : Nat) :
    (jobs.map (fun j => evaluate c j.1 j.2.1 j.2.2.1 j.2.2.2))[k]? = (jobs[k]?).map (fun j => evaluate c j.1 j.2.1 j.2.2.1 j.2.2.2) :=
  evaluator_stateless' c jobs k

/-- the documented IPS transform with exact rationals: `reward/probability` at the logged action, `0` elsewhere, for
every non-zero probability however small -/
theorem ips_reward_spec (v : View V R) (a : Option V) (r p : Rat) (hr : v.offRwd = some r) (hp : v.offPr = some p) (hp0 : p ≠ 0) :
    ipsReward v a = some (if v.offAct = a then r / p else 0) :=
  ips_reward_spec' v a r p hr hp hp0

/-- no clipping: the importance-weighted value times the propensity is the logged reward -/
theorem ips_reward_unclipped (v : View V R) (r p : Rat) (hr : v.offRwd = some r) (hp : v.offPr = some p) (hp0 : p ≠ 0) :
    ∃ w, ipsReward v v.offAct = some w ∧ w * p = r :=
  ips_reward_unclipped' v r p hr hp hp0

/-- score-based IPS evaluation (eval='ips', learner with `score`, no prediction needed): every interaction asks
`score(context, actions, logged action)` first and its row records `score · reward/probability` -/
theorem score_based_ips (c : Config) (L : Learner σ V) (first : Dict (Fld V R)) (rest : List (Dict (Fld V R)))
    (s s' : σ) (calls : List (Call V)) (rows : List (Row V R)) (H : Hyp c L first rest)
    (he : c.eval = .ips) (hs : L.hasScore = true) (hnp : needPred c L.hasScore = false) (hrec : c.rcd "reward" = true)
    (h : evaluate c L none (first :: rest) s = .ok (s', calls, rows)) :
    ∃ steps : List (σ × List (Call V) × Row V R), steps.length = (first :: rest).length ∧
      calls = (steps.map (·.2.1)).flatten ∧ rows = (steps.map (·.2.2)).filter (fun o => !o.isEmpty) ∧
      ∀ vst ∈ ((first :: rest).map view).zip steps,
        vst.2.2.1.head? = some (Call.score vst.1.ctx vst.1.acts vst.1.offAct) ∧
        ∃ w, ipsReward vst.1 vst.1.offAct = some w ∧
          ("reward", Cell.num (some ((L.score vst.2.1 vst.1.ctx vst.1.acts vst.1.offAct).2 * w))) ∈ vst.2.2.2 :=
  score_based_ips' c L first rest s s' calls rows H he hs hnp hrec h

/-- `CobaContext.learning_info` (un-batched): what a learner writes there does not change the evaluation — state,
calls and rows-before-merging are those of `evaluate` for the same learner (no hypotheses) -/
theorem info_does_not_change_evaluation (c : Config) (L : InfoLearner σ V) (env : List (Dict (Fld V R))) (s : σ) :
    evaluate c L.toLearner none env s = (match evaluateI c L env s with
      | .ok r => .ok (r.1, r.2.1, r.2.2.2.1.filter (fun o => !o.isEmpty))
      | .rejected ks => .rejected ks
      | .crashed e => .crashed e) :=
  evaluateI_base' c L env s

/-- `learning_info` is local to its interaction: the yielded rows are `zipWith mergeInfo bases infos` (empty ones
dropped) where `bases[i]` is the row interaction i has anyway and `infos[i] = Pass.info` of pass i — what `predict`
wrote during that pass `update`d by what `learn` wrote during that pass, functions of that pass's learner state and
call arguments only.  The info of interaction i therefore appears in row i and in no other row. -/
theorem info_row_local (c : Config) (L : InfoLearner σ V) (first : Dict (Fld V R)) (rest : List (Dict (Fld V R)))
    (s s' : σ) (calls : List (Call V)) (rows bases : List (Row V R)) (infos : List (Dict V))
    (h : evaluateI c L (first :: rest) s = .ok (s', calls, rows, bases, infos)) :
    rows = (List.zipWith mergeInfo bases infos).filter (fun o => !o.isEmpty) ∧
    evaluate c L.toLearner none (first :: rest) s = .ok (s', calls, bases.filter (fun o => !o.isEmpty)) ∧
    ∃ passes : List (Pass σ V R), passes.length = (first :: rest).length ∧ bases = passes.map (·.out) ∧
      infos = passes.map (Pass.info c L) ∧
      ∀ dk ∈ (first :: rest).zip passes, passOf c (mkFlags first) L.toLearner dk.2.s0 dk.1 = .ok dk.2 :=
  info_row_local' c L first rest s s' calls rows bases infos h

/-- PMF answers: for a learner that answers with a PMF (`wrapPmf`: SafeLearner draws the action with its own
generator, C05's `choicew`), on-policy evaluation feeds back exactly the parsed answer — the drawn action, its weight
as the probability, the learner's kwargs — and nothing else -/
theorem pmf_answers_recorded_as_parsed (c : Config) (P : PmfLearner σ V) (dflt : V) (first : Dict (Fld V R))
    (rest : List (Dict (Fld V R))) (s s' : σ × Nat) (calls : List (Call V)) (rows : List (Row V R))
    (H : Hyp c (wrapPmf P dflt) first rest) (hl : c.learn = .on ∨ c.learn = .ips)
    (h : evaluate c (wrapPmf P dflt) none (first :: rest) s = .ok (s', calls, rows)) :
    ∃ steps : List ((σ × Nat) × List (Call V)), steps.length = (first :: rest).length ∧ calls = (steps.map (·.2)).flatten ∧
      ∀ vst ∈ ((first :: rest).map view).zip steps,
        ∃ rew, vst.2.2 = [Call.predict vst.1.ctx vst.1.acts,
          Call.learn vst.1.ctx
            (some (parsePmf dflt vst.1.acts (P.predict vst.2.1.1 vst.1.ctx vst.1.acts).2.1
              (P.predict vst.2.1.1 vst.1.ctx vst.1.acts).2.2 vst.2.1.2).1.action)
            (some rew)
            (parsePmf dflt vst.1.acts (P.predict vst.2.1.1 vst.1.ctx vst.1.acts).2.1
              (P.predict vst.2.1.1 vst.1.ctx vst.1.acts).2.2 vst.2.1.2).1.prob
            (P.predict vst.2.1.1 vst.1.ctx vst.1.acts).2.2] :=
  pmf_parsed' c P dflt first rest s s' calls rows H hl h

/-- batched `order_strict`: the trace is, batch by batch in environment order, (the predicts of the batch's rows in
order) ++ (their scores) ++ (their learns, each carrying its row's context) -/
theorem order_strict_batched (c : Config) (L : Learner σ V) (n : Nat) (first : Dict (Fld V R))
    (rest : List (Dict (Fld V R))) (s s' : σ) (calls : List (Call V)) (rows : List (Row V R)) (H : Hyp c L first rest)
    (h : evaluate c L (some n) (first :: rest) s = .ok (s', calls, rows)) :
    ∃ groups : List (List (Call V)), groups.length = (chunks n (first :: rest)).length ∧ calls = groups.flatten ∧
      ∀ cg ∈ ((chunks n (first :: rest)).map (List.map view)).zip groups,
        ∃ learns : List (Call V), (∀ x ∈ learns, Call.isLearn x = true) ∧ learns.length ≤ cg.1.length ∧
          cg.2 = (if needPred c L.hasScore then cg.1.map (fun v => Call.predict v.ctx v.acts) else [])
            ++ (if (c.eval == .ips && L.hasScore && !needPred c L.hasScore) then cg.1.map (fun v => Call.score v.ctx v.acts v.offAct) else [])
            ++ learns ∧
          ∀ vl ∈ cg.1.zip learns, Call.ctx vl.2 = vl.1.ctx :=
  order_strict_batched' c L n first rest s s' calls rows H h

/-- batched `kwargs_roundtrip`: with on-policy learning every batch is one predict per row then one learn per row; the
j-th learn carries row j's context and exactly what the learner answered for row j (`predictS`: answered after the
earlier rows of the same batch were predicted, before any of the batch was learned) with the documented reward -/
theorem kwargs_roundtrip_batched (c : Config) (L : Learner σ V) (n : Nat) (first : Dict (Fld V R))
    (rest : List (Dict (Fld V R))) (s s' : σ) (calls : List (Call V)) (rows : List (Row V R)) (H : Hyp c L first rest)
    (hl : c.learn = .on ∨ c.learn = .ips)
    (h : evaluate c L (some n) (first :: rest) s = .ok (s', calls, rows)) :
    ∃ steps : List (σ × List (Call V)), steps.length = (chunks n (first :: rest)).length ∧ calls = (steps.map (·.2)).flatten ∧
      ∀ cst ∈ ((chunks n (first :: rest)).map (List.map view)).zip steps,
        ∃ args : List (Option V × Option Rat × Option Rat × Dict V),
          cst.2.2 = cst.1.map (fun v => Call.predict v.ctx v.acts)
            ++ List.zipWith (fun (v : View V R) a => Call.learn v.ctx a.1 a.2.1 a.2.2.1 a.2.2.2) cst.1 args ∧
          args.length = cst.1.length ∧
          ∀ vpa ∈ (cst.1.zip (predictS L cst.2.1 cst.1).2).zip args,
            ∃ rew, (if c.learn = .on then envReward vpa.1.1 vpa.1.2.action else ipsReward vpa.1.1 (some vpa.1.2.action)) = some rew ∧
              vpa.2 = (some vpa.1.2.action, some rew, vpa.1.2.prob, vpa.1.2.kw) :=
  kwargs_roundtrip_batched' c L n first rest s s' calls rows H hl h

/-- batched `extra_fields_carried` (and one row per interaction): exactly as un-batched -/
theorem extra_fields_carried_batched (c : Config) (L : Learner σ V) (n : Nat) (hn : 0 < n) (first : Dict (Fld V R))
    (rest : List (Dict (Fld V R))) (s s' : σ) (calls : List (Call V)) (rows : List (Row V R)) (H : Hyp c L first rest)
    (h : evaluate c L (some n) (first :: rest) s = .ok (s', calls, rows)) :
    ∃ full : List (Row V R), full.length = (first :: rest).length ∧ rows = full.filter (fun o => !o.isEmpty) ∧
      ∀ vr ∈ ((first :: rest).map view).zip full,
        ∃ pre : Row V R, vr.2 = pre ++ vr.1.extras.map (fun kv => (kv.1, Cell.fld kv.2)) ∧ ∀ b ∈ pre, b.1 ∈ implicitExclude :=
  extra_fields_carried_batched' c L n hn first rest s s' calls rows H h

/-- the batched-vs-un-batched TRACE relation, exactly: for a learner whose answers do not depend on its history
(`Oblivious`), on an environment satisfying `Hyp`, for every batch size, both traces have closed forms over the same
per-interaction call pieces (`predC`, `scoreC`, `learnCallsO`: the predict / score / learn call of one interaction) —
un-batched: interaction by interaction (predict? score? learn?); batched: batch by batch (all predicts)(all
scores)(all learns).  Without `Oblivious` the learn arguments differ (see `batched_row_predicted_before_learning`). -/
theorem batched_trace_regrouped {L : Learner σ V} {f : Option V → Option (List V) → Pred V}
    {g : Option V → Option (List V) → Option V → Rat} (ho : Oblivious L f g) (c : Config) (n : Nat)
    (first : Dict (Fld V R)) (rest : List (Dict (Fld V R))) (s sb su : σ) (cb cu : List (Call V)) (rb ru : List (Row V R))
    (H : Hyp c L first rest)
    (hb : evaluate c L (some n) (first :: rest) s = .ok (sb, cb, rb))
    (hu : evaluate c L none (first :: rest) s = .ok (su, cu, ru)) :
    cu = ((first :: rest).map view).flatMap
        (fun v => predC c L.hasScore v ++ scoreC c L.hasScore v ++ learnCallsO c L.hasScore f v) ∧
    cb = ((chunks n (first :: rest)).map (List.map view)).flatMap
        (fun ch => ch.flatMap (predC c L.hasScore) ++ ch.flatMap (scoreC c L.hasScore) ++ ch.flatMap (learnCallsO c L.hasScore f)) :=
  batched_trace_regrouped' ho c n first rest s sb su cb cu rb ru H hb hu

/-- `learning_info` in a batched evaluation (no hypotheses): batch by batch, the pass without the info is the batched pass
of `evaluate` (same state, same calls, same rows-before-merging), and every row of the batch receives ALL the info
written during that batch's pass (`batchInfo`: the predicts of all rows in order, then the learns; later writes update
earlier ones), each value replaced by `value[i]` for the row's position i in the batch when that works
(`indexInfo`/`Subscript.idx` — `Unbatch` indexes every cell), merged over the row's own cells -/
theorem info_batched_rows [Subscript V] (c : Config) (L : InfoLearner σ V) (n : Nat) (first : Dict (Fld V R))
    (rest : List (Dict (Fld V R))) (s s' : σ) (calls : List (Call V)) (rows : List (Row V R))
    (h : evaluateIB c L n (first :: rest) s = .ok (s', calls, rows)) :
    ∃ steps : List (σ × σ × List (Call V) × List (Row V R) × Dict V), steps.length = (chunks n (first :: rest)).length ∧
      calls = (steps.map (·.2.2.1)).flatten ∧
      rows = (steps.map (fun st => (mergeIndexed st.2.2.2.2 0 st.2.2.2.1).filter (fun o => !o.isEmpty))).flatten ∧
      ∀ cst ∈ (chunks n (first :: rest)).zip steps,
        stepChunkIB c (mkFlags first) L cst.2.1 cst.1 = .ok cst.2.2 ∧
        stepChunk c (mkFlags first) L.toLearner true cst.2.1 cst.1
          = .ok (cst.2.2.1, cst.2.2.2.1, cst.2.2.2.2.1.filter (fun o => !o.isEmpty)) :=
  info_batched_rows' c L n first rest s s' calls rows h

/-- environments whose interactions do not all have the first one's keys (1): `has_context`, `has_actions`, `has_action`,
`has_reward` are decided by the FIRST interaction; a reserved key the first interaction lacks is read as
`None` in every later interaction, whatever that interaction holds (and, being a reserved name, is not carried into the
row either) -/
theorem later_reserved_key_ignored {c : Config} {fl : Flags} {d : Dict (Fld V R)} {r : RowIn V R} (h : readRow c fl d = .ok r) :
    (fl.hasContext = false → r.ctx = none) ∧ (fl.hasActions = false → r.acts = none) ∧
    (fl.hasAction = false → r.offAct = none) ∧ (fl.hasReward = false → r.offRwd = none) :=
  readRow_ignores h

/-- … except the logged probability, which (with fix C06-F8, `interaction.get('probability', None)`) is read from each
interaction itself: its own value when it has one, `None` when it has none — whatever the first interaction had, in both
directions (a later interaction without one no longer raises `KeyError`) -/
theorem logged_probability_read_per_interaction {c : Config} {fl : Flags} {d : Dict (Fld V R)} {r : RowIn V R}
    (h : readRow c fl d = .ok r) : getNumOpt "probability" (d.get? "probability") = .ok r.offPr :=
  readRow_probability h

/-- (2): a reserved key the first interaction has and a later one lacks stops the evaluation at that interaction
(`KeyError` in the code; rows yielded before it are already out) — shown for 'context', the first key read -/
theorem later_missing_key_stops {c : Config} {fl : Flags} {d : Dict (Fld V R)} (hf : fl.hasContext = true)
    (hd : d.get? "context" = none) : readRow c fl d = .error (.keyError "context") :=
  readRow_missing_context hf hd

/-- validation (all environments, batched or not, no hypotheses): `evaluate` rejects up-front — before the
learner is touched — iff a key the code requires (`required` = `_required`) is missing from the first interaction -/
theorem validate_iff_missing (c : Config) (L : Learner σ V) (bs : Option Nat) (env : List (Dict (Fld V R))) (s : σ) :
    (∃ ks, evaluate c L bs env s = .rejected ks) ↔
      ∃ first rest, env = first :: rest ∧ ∃ k ∈ required c L.hasScore, first.has k = false :=
  validate_iff' c L bs env s

/-- … and the exception names exactly the missing required keys -/
theorem rejected_names_missing (c : Config) (L : Learner σ V) (bs : Option Nat) (first : Dict (Fld V R))
    (rest : List (Dict (Fld V R))) (s : σ) (ks : List String) (h : evaluate c L bs (first :: rest) s = .rejected ks) :
    ks = (required c L.hasScore).filter (fun k => !first.has k) :=
  rejected_keys' c L bs first rest s ks h

/- theorem validate_iff_missing_full : (∃ ks, evaluate c L bs (first :: rest) s = .rejected ks) ↔
      ∃ k ∈ requiredS c L.hasScore, first.has k = false
   — FALSE for the code as it is: the docstring says the ips modes require 'probability' (`requiredS`), `_required`
   does not ask for it and `OpeRewards('IPS')` silently divides by 1.  The pinned suite asserts this behaviour
   (test_off_ips_actions_no_prob), so it is recorded (finding C06-F1), not repaired.  Proved instead: -/

/-- documented requirements, partial: an environment lacking a documented field is rejected, provided it is not
an ips mode on an environment without `probability` -/
theorem validate_iff_missing_partial (c : Config) (L : Learner σ V) (bs : Option Nat) (first : Dict (Fld V R))
    (rest : List (Dict (Fld V R))) (s : σ) (hp : ipsWithoutProb c first = false) :
    (∃ ks, evaluate c L bs (first :: rest) s = .rejected ks) ↔ ∃ k ∈ requiredS c L.hasScore, first.has k = false :=
  validate_partial' c L bs first rest s hp

/-! the hypothesis is necessary: learn='ips' on a logged environment without 'probability' -/
instance cexRewardFn : RewardFn Unit Nat := ⟨fun _ _ => 0⟩
def cexCfg : Config := { learn := .ips, eval := .none, record := [] }
def cexEnv : List (Dict (Fld Nat Unit)) :=
  [[("context", .val 7), ("actions", .acts [1, 2]), ("action", .val 1), ("reward", .num 3)]]
def cexL : Learner Nat Nat :=
  { hasScore := false, predict := fun s _ _ => (s + 1, { action := 1, prob := none, kw := [] }),
    score := fun s _ _ _ => (s, 0), learn := fun s _ _ _ _ _ => s + 10 }

/-- 'probability' is documented as required, it is missing, and yet the evaluation goes through and teaches
the learner the reward 3 = 3/1 for the logged action (replayed on the real code: finding C06-F1) -/
theorem validate_counterexample :
    "probability" ∈ requiredS cexCfg cexL.hasScore ∧ (∀ d ∈ cexEnv, d.has "probability" = false) ∧
    evaluate cexCfg cexL none cexEnv 0 =
      .ok (11, [.predict (some 7) (some [1, 2]), .learn (some 7) (some 1) (some 3) none []], []) := by
  set_option synthInstance.maxSize 2000 in
  decide +kernel

/-! the hypotheses of the refinement theorems are satisfiable on a non-trivial environment
(two simulated+logged interactions with an extra field, learn='on', eval='ips') -/
def exCfg : Config := { learn := .on, eval := .ips, record := ["reward", "action", "probability"] }
def exEnv : List (Dict (Fld Nat Unit)) :=
  [[("context", .val 7), ("actions", .acts [1, 2]), ("rewards", .rlist [1, 0]), ("action", .val 1), ("reward", .num 3),
    ("probability", .num 1), ("L", .val 5)],
   [("context", .none), ("actions", .acts [4]), ("rewards", .rlist [2]), ("action", .val 4), ("reward", .num 1),
    ("probability", .num 1), ("L", .none)]]

example : Oblivious cexL (fun _ _ => { action := 1, prob := none, kw := [] }) (fun _ _ _ => 0) :=
  ⟨fun _ _ _ => rfl, fun _ _ _ _ => rfl⟩

example : evaluate exCfg cexL (some 2) exEnv 0 =
    .ok (22, [.predict (some 7) (some [1, 2]), .predict none (some [4]),
              .learn (some 7) (some 1) (some 1) none [], .learn none (some 1) (some 0) none []],
         [[("action", .val (some 1)), ("reward", .num (some 3)), ("probability", .num none), ("L", .fld (.val 5))],
          [("action", .val (some 1)), ("reward", .num (some 0)), ("probability", .num none), ("L", .fld .none)]]) := by
  set_option synthInstance.maxSize 4000 in
  decide +kernel

example : Hyp exCfg cexL exEnv.head! exEnv.tail! := ⟨by decide +kernel, by decide +kernel, by decide +kernel⟩

example : evaluate exCfg cexL none exEnv 0 =
    .ok (22, [.predict (some 7) (some [1, 2]), .learn (some 7) (some 1) (some 1) none [],
              .predict none (some [4]), .learn none (some 1) (some 0) none []],
         [[("action", .val (some 1)), ("reward", .num (some 3)), ("L", .fld (.val 5))],
          [("action", .val (some 1)), ("reward", .num (some 0)), ("L", .fld .none)]]) := by
  set_option synthInstance.maxSize 4000 in
  decide +kernel

/-! (3): a log whose first interaction carries no propensity while the second does.  Before fix C06-F8 `learn` received
`None` for both (`has_prob` was read off the first interaction: the homogeneity hypothesis of `off_policy_logged` was
necessary for the probability too); with the per-interaction read the logged 1/4 reaches `learn` although `wfEnv` fails -/
def hetCfg : Config := { learn := .off, eval := .none, record := [] }
def hetEnv : List (Dict (Fld Nat Unit)) :=
  [[("context", .val 1), ("action", .val 2), ("reward", .num 3)],
   [("context", .val 2), ("action", .val 3), ("reward", .num 4), ("probability", .num (1 / 4))]]

theorem off_policy_probability_per_interaction_example :
    wfEnv hetEnv = false ∧ (hetEnv.map view).map (·.offPr) = [none, some (1 / 4)] ∧
    evaluate hetCfg cexL none hetEnv 0 =
      .ok (20, [.learn (some 1) (some 2) (some 3) none [], .learn (some 2) (some 3) (some 4) (some (1 / 4)) []], []) := by
  set_option synthInstance.maxSize 4000 in
  decide +kernel

/-! ## Phase 4: every mode the constructor accepts, reward targets, record-field set

`ConfigX` ranges over learn ∈ {on,off,ips,dr,dm,None} × eval ∈ {on,ips,dr,dm,None} × any record list; `evaluateX vw` is
`evaluate` of the real `SequentialCB` with (`vw = true`) or without (`vw = false`) the optional package vowpalwabbit. -/

/-- on the modes that need no optional package the all-modes model IS the model theorems 1–37 are about (whether or not
the package is installed): same required keys, same `should_pred`, same reward targets, same outcome -/
theorem evaluateX_conservative (vw : Bool) (c : ConfigX) (c0 : Config) (L : Learner σ V) (bs : Option Nat)
    (env : List (Dict (Fld V R))) (s : σ) (h : c.base = some c0) :
    evaluateX vw c L bs env s = .done (evaluate c0 L bs env s) ∧
    requiredX c L.hasScore = required c0 L.hasScore ∧ shouldPredX c L.hasScore = shouldPred c0 L.hasScore ∧
    evalTargetX c = evalTarget c0 ∧
    opeFilters c = (if learnIps c0 then [(OpeType.ips, "learn_rewards")] else [])
          ++ (if evalIpsOwn c0 then [(OpeType.ips, "eval_rewards")] else []) :=
  ⟨evaluateX_conservative' vw c c0 L bs env s h, requiredX_base' c c0 L.hasScore h⟩

/-- a 'dr'/'dm' mode without vowpalwabbit is never mis-evaluated: on a non-empty environment either validation rejects it
(naming exactly the missing required keys), or — all required keys present — `OpeRewards(t, target)` of a package-needing
type `t` that `_results` really constructs raises; in neither case is the learner used or a row produced -/
theorem package_guard (c : ConfigX) (L : Learner σ V) (bs : Option Nat) (first : Dict (Fld V R))
    (rest : List (Dict (Fld V R))) (s : σ) (hb : c.base = none) :
    (∃ keys, keys ≠ [] ∧ keys = (requiredX c L.hasScore).filter (fun k => !first.has k)
        ∧ evaluateX false c L bs (first :: rest) s = .done (.rejected keys))
    ∨ ((requiredX c L.hasScore).filter (fun k => !first.has k) = [] ∧
        ∃ t tg, (t, tg) ∈ opeFilters c ∧ needsVw t = true ∧ evaluateX false c L bs (first :: rest) s = .packageMissing t tg) :=
  package_guard' c L bs first rest s hb

/-- which filter raises: the learn filter is constructed first (learn ∈ {dr, dm}: its own type, target `learn_rewards`) -/
theorem package_learn_first (c : ConfigX) (h : c.learn = .dr ∨ c.learn = .dm) :
    (opeFilters c).find? (fun tt => needsVw tt.1 && !false) = (learnType c.learn).map (fun t => (t, "learn_rewards")) :=
  package_learn_first' c h

/-- … otherwise (learn ∉ {dr, dm}, eval ∈ {dr, dm}) it is the eval filter, with its own target `eval_rewards` -/
theorem package_eval (c : ConfigX) (hl : c.learn ≠ .dr ∧ c.learn ≠ .dm) (h : c.eval = .dr ∨ c.eval = .dm) :
    (opeFilters c).find? (fun tt => needsVw tt.1 && !false) = (evalType c.eval).map (fun t => (t, "eval_rewards")) :=
  package_eval' c hl h

/-- without the package only the package-free modes ever produce a result -/
theorem result_only_package_free (c : ConfigX) (L : Learner σ V) (bs : Option Nat) (env : List (Dict (Fld V R))) (s : σ)
    (r : σ × List (Call V) × List (Row V R)) (hne : env ≠ []) (h : evaluateX false c L bs env s = .done (.ok r)) :
    ∃ c0, c.base = some c0 :=
  result_only_package_free' c L bs env s r hne h

/-- `_required` against the docstring, for EVERY mode: the code requires exactly the documented keys except
'probability' in the ips modes (finding C06-F1); in particular for dr/dm modes the two agree -/
theorem required_documented_all_modes (c : ConfigX) (hs : Bool) :
    requiredSX c hs = requiredX c hs ++ (if c.learn == .ips || c.eval == .ips then ["probability"] else []) :=
  requiredSX_eq' c hs

/-- reward-target plumbing: the key the loop reads for learning (`learn_rewards`) is written by a filter of the learn
type, the key it reads for evaluation (`eval_target`) by a filter of the eval type; no two filters write the same key;
and the evaluation shares the learn target exactly when it has no type or the same type -/
theorem targets_written (c : ConfigX) :
    (∀ t, learnType c.learn = some t → (t, learnTargetX) ∈ opeFilters c)
    ∧ (∀ t, evalType c.eval = some t → (t, evalTargetX c) ∈ opeFilters c)
    ∧ ((opeFilters c).map (·.2)).Nodup
    ∧ (evalTargetX c = learnTargetX ↔ (evalType c.eval = none ∨ evalType c.eval = learnType c.learn)) :=
  targets_written' c

/-- record-field set: the keys of a row are exactly `recordKeys` (a function of record options, mode, the first
interaction's flags, whether a prediction is made, batching and whether the learner reported a probability), in that
order, followed by the interaction's additional fields -/
theorem record_fields_per_mode {c : Config} {fl : Flags} {sp b : Bool} {r : RowIn V R} {p : Option (Pred V)} {er : Option Rat}
    {row : Row V R} (hx : mkRow c fl sp b r p er = .ok row) (hnd : nodupKeys (Dict.keys r.extras) = true)
    (hfr : ∀ kv ∈ r.extras, kv.1 ∉ implicitExclude) :
    Dict.keys row = recordKeys c fl sp b (p.bind (·.prob)).isSome ++ Dict.keys r.extras :=
  mkRow_record_keys' hx hnd hfr

/-- with `eval=None` no row ever has an action, reward or probability cell -/
theorem no_eval_no_reward_cells (c : Config) (fl : Flags) (sp b hp : Bool) (h : c.eval = .none) :
    "action" ∉ recordKeys c fl sp b hp ∧ "reward" ∉ recordKeys c fl sp b hp ∧ "probability" ∉ recordKeys c fl sp b hp :=
  recordKeys_no_eval c fl sp b hp h

/-! non-vacuity / witnesses -/
example : ({ learn := .dr, eval := .dm, record := [] } : ConfigX).base = none := by decide
example : ({ learn := .ips, eval := .on, record := ["reward"] } : ConfigX).base
    = some { learn := .ips, eval := .on, record := ["reward"] } := by rfl

/-- learn='dr', eval='dm' on a complete logged environment, no vowpalwabbit: the learn filter raises (replayed on the code) -/
theorem package_guard_example :
    evaluateX false { learn := .dr, eval := .dm, record := ["reward"] } cexL none
      ([[("context", .val 1), ("actions", .acts [1, 2]), ("action", .val 2), ("reward", .num 3)]] : List (Dict (Fld Nat Unit))) 0
      = .packageMissing .dr "learn_rewards"
    ∧ evaluateX false { learn := .ips, eval := .dm, record := ["reward"] } cexL none
      ([[("context", .val 1), ("actions", .acts [1, 2]), ("action", .val 2), ("reward", .num 3)]] : List (Dict (Fld Nat Unit))) 0
      = .packageMissing .dm "eval_rewards"
    ∧ evaluateX false { learn := .dr, eval := .none, record := [] } cexL none
      ([[("context", .val 1), ("actions", .acts [1, 2])]] : List (Dict (Fld Nat Unit))) 0
      = .done (.rejected ["action", "reward"]) := by
  set_option synthInstance.maxSize 4000 in
  decide +kernel

/-! ## Translator tie: `Coba.Generated.C06.*` is regenerated from the source under test on every run (harness pre_build, Python `ast`) -/

/-- the tables, key lists, dispatch chains and constants read off `coba/evaluators/sequential.py` and `OpeRewards.__init__`
are the ones the model uses: `_IMPLICIT_EXCLUDE` (as a set), the three key lists of `_required`, the `learn_type`/`eval_type`
chains, the types for which `OpeRewards` demands vowpalwabbit, the reward-target names, the accepted mode literals, the
default `record` -/
theorem source_tables_match :
    ((Coba.Generated.C06.implicitExclude.all (implicitExclude.contains ·)) = true
      ∧ (implicitExclude.all (Coba.Generated.C06.implicitExclude.contains ·)) = true)
    ∧ (∀ c hs, requiredX c hs = requiredWith Coba.Generated.C06.requiredPred Coba.Generated.C06.requiredOff
          Coba.Generated.C06.requiredRwds c hs)
    ∧ (∀ l : LearnModeX, (learnType l).map OpeType.pyName = l.pyName.bind (fun n => Coba.Generated.C06.learnTypes.lookup n))
    ∧ (∀ e : EvalModeX, (evalType e).map OpeType.pyName = e.pyName.bind (fun n => Coba.Generated.C06.evalTypes.lookup n))
    ∧ (∀ t : OpeType, needsVw t = Coba.Generated.C06.vwTypes.contains t.pyName)
    ∧ learnTargetX = Coba.Generated.C06.learnTarget
    ∧ (∀ c, evalTargetX c = if evalOwnX c then Coba.Generated.C06.evalTargetOwn else Coba.Generated.C06.evalTargetShared)
    ∧ (∀ c, ((opeFilters c).map (·.2)).all (Coba.Generated.C06.opeTargets.contains ·) = true)
    ∧ (∀ l : LearnModeX, ∀ n, l.pyName = some n → Coba.Generated.C06.learnModes.contains n = true)
    ∧ (Coba.Generated.C06.learnModes.all (fun n => [LearnModeX.on, .off, .ips, .dr, .dm].any (fun l => l.pyName == some n))) = true
    ∧ (∀ e : EvalModeX, ∀ n, e.pyName = some n → Coba.Generated.C06.evalModes.contains n = true)
    ∧ (Coba.Generated.C06.evalModes.all (fun n => [EvalModeX.on, .ips, .dr, .dm].any (fun e => e.pyName == some n))) = true
    ∧ defaultRecord = Coba.Generated.C06.defaultRecord :=
  source_tables_match'

/-! ## Phase 4c: heterogeneous environments (interactions whose reserved keys differ from the first interaction's)

`neededKeys c fl` lists, in program order, every key `Finalize`, the `OpeRewards('IPS')` filters and the loop body subscript
in an interaction — a function of the mode and of the FIRST interaction's flags only; `missingOf c fl d` are those `d` lacks.
Together with `later_reserved_key_ignored` (a reserved key outside `neededKeys` is never read) this is the full decision. -/

/-- an interaction is processed only if it has every key the code subscripts: any key of `neededKeys` missing ⇒ no row, no
result for it (in the code: `KeyError`) -/
theorem interaction_processed_only_if_complete {c : Config} {fl : Flags} {d : Dict (Fld V R)} {r : RowIn V R}
    (h : prep c fl d = .ok r) : missingOf c fl d = [] :=
  prep_ok_has_needed' h

/-- environment level, no well-formedness assumed: an un-batched evaluation that returns has met no interaction lacking a
key of `neededKeys` (flags of the first interaction); contrapositive: one such interaction anywhere ⇒ the evaluation raises -/
theorem hetero_evaluates_only_if (c : Config) (L : Learner σ V) (first : Dict (Fld V R)) (rest : List (Dict (Fld V R)))
    (s : σ) (out : σ × List (Call V) × List (Row V R)) (h : evaluate c L none (first :: rest) s = .ok out) :
    ∀ d ∈ first :: rest, missingOf c (mkFlags first) d = [] :=
  hetero_evaluates_only_if' c L first rest s out h

/-- witnesses (kernel-evaluated; replayed on the code as corpus cases): the second interaction lacks 'reward' under
learn='off' ⇒ KeyError 'reward' after the first interaction was learned; the same environment under learn='on' (which
does not read 'reward' … but the first interaction has it, so `has_reward` is set and the loop subscripts it) also raises;
an interaction that GAINS 'context' is evaluated with context None -/
theorem hetero_examples :
    firstBad ({ learn := .off, eval := .none, record := [] } : Config)
        (mkFlags ([("context", .val 1), ("action", .val 2), ("reward", .num 3)] : Dict (Fld Nat Unit)))
        ([[("context", .val 1), ("action", .val 2), ("reward", .num 3)], [("context", .val 2), ("action", .val 3)]] : List (Dict (Fld Nat Unit)))
      = some (1, ["reward"])
    ∧ evaluate ({ learn := .off, eval := .none, record := [] } : Config) cexL none
        ([[("context", .val 1), ("action", .val 2), ("reward", .num 3)], [("context", .val 2), ("action", .val 3)]] : List (Dict (Fld Nat Unit))) 0
      = .crashed (.keyError "reward")
    ∧ evaluate ({ learn := .off, eval := .none, record := [] } : Config) cexL none
        ([[("action", .val 2), ("reward", .num 3)], [("context", .val 2), ("action", .val 3), ("reward", .num 1)]] : List (Dict (Fld Nat Unit))) 0
      = .ok (20, [.learn none (some 2) (some 3) none [], .learn none (some 3) (some 1) none []], []) := by
  set_option synthInstance.maxSize 4000 in
  decide +kernel

/-- **the calls the learner object sees under batching.**  For every configuration, every learner (with or without
`score`, accepting batched arguments or not), every shape of its first answer (`width`) and every split of the environment
into batches whose first batch is non-empty (`Batch(n)` for any n, ragged last batch included), a learner that `evaluate`
wraps afresh receives a call sequence (`rawRun … {}`) such that
(1) read row-wise — refused batch attempts and the orientation probe carry nothing, an accepted batch call is one call per
row — it is exactly the loop skeleton: batch by batch, method by method (`phasesOf`: predict? score? learn?), row by row;
(2) the only surplus predict is `batch_order`'s orientation probe: exactly one when the learner accepts batches, a
prediction is made and the first answer is as wide as the first batch has rows (finding C06-F2), none otherwise;
(3) a learner refusing batched arguments sees exactly one refused batch-level attempt per method the loop uses (all in the
first batch), a batch-accepting one none. -/
theorem calls_seen_by_learner_batched (c : Config) (hasScore aware : Bool) (width : Option Nat) (i : Nat) (t : List Nat)
    (rest : List (List Nat)) :
    rowLevel (rawRun true aware width (phasesOf c hasScore) {} ((i :: t) :: rest))
      = skeleton (phasesOf c hasScore) ((i :: t) :: rest) ∧
    countOrient (rawRun true aware width (phasesOf c hasScore) {} ((i :: t) :: rest))
      = (if aware && shouldPred c hasScore && (width == some (t.length + 1)) then 1 else 0) ∧
    countRefused (rawRun true aware width (phasesOf c hasScore) {} ((i :: t) :: rest))
      = (if aware then 0 else (phasesOf c hasScore).length) :=
  calls_seen_by_learner_batched' c hasScore aware width i t rest

/-- the row-level reading is the loop skeleton from ANY wrapper state (a `SafeLearner` handed to `evaluate` is re-wrapped,
but the statement does not need it), batched or not, for any list of methods -/
theorem calls_seen_row_level (batched aware : Bool) (width : Option Nat) (phases : List Meth) (st : SafeSt) (cs : List (List Nat)) :
    rowLevel (rawRun batched aware width phases st cs) = skeleton phases cs :=
  rowLevel_rawRun' batched aware width phases st cs

/-- un-batched: the learner object sees exactly the loop's calls, one plain call each — no refused attempt, no probe -/
theorem calls_seen_by_learner_unbatched (aware : Bool) (width : Option Nat) (phases : List Meth) (st : SafeSt) (cs : List (List Nat)) :
    rawRun false aware width phases st cs = cs.flatMap (fun ch => phases.flatMap (fun m => ch.map (RawCall.row m))) :=
  calls_seen_by_learner_unbatched' aware width phases st cs

/-- a settled wrapper (every method's call discipline decided, first answer parsed) never probes and is never refused again -/
theorem calls_seen_settled {aware : Bool} {phases : List Meth} {st : SafeSt} (hs : Settled aware phases st)
    (width : Option Nat) (cs : List (List Nat)) :
    countOrient (rawRun true aware width phases st cs) = 0 ∧ countRefused (rawRun true aware width phases st cs) = 0 :=
  settled_rawRun hs width cs

/-- kernel-evaluated instances: the default evaluator on 3 interactions in `Batch(2)`, learner with `score`.
Batch-accepting learner answering `(action, probability)` rows (width 2 = batch size): two `has_score` probes, the batch
predict, THE ORIENTATION PROBE on interaction 0, the batch learn, then the last batch.  Batch-refusing learner: one refused
attempt per method, then row by row. -/
example : callsSeen { learn := .on, eval := .on, record := defaultRecord } true true (some 2) (some 2) 3 false
    = [.scoreProbe, .scoreProbe, .batch .predict [0, 1] true, .orient 0, .batch .learn [0, 1] true,
       .batch .predict [2] true, .batch .learn [2] true] := by decide +kernel
example : callsSeen { learn := .on, eval := .on, record := defaultRecord } false false (some 2) (some 2) 3 false
    = [.batch .predict [0, 1] false, .row .predict 0, .row .predict 1, .batch .learn [0, 1] false, .row .learn 0, .row .learn 1,
       .row .predict 2, .row .learn 2] := by decide +kernel
example : Settled true [.predict, .learn] { mPredict := some true, mLearn := some true, parsed := true } := by
  refine ⟨?_, fun _ => rfl⟩
  intro m hm
  cases m <;> simp_all [SafeSt.get]

/-- **translator obligation (small bodies).**  The record-construction code of `SequentialCB._results`, extracted from the source
under test as a program (`Generated.C06.flagDefs`: the `out_x = '<name>' in self._record [and guard]` definitions;
`Generated.C06.rowProgram`: every `if <conjunction>: out['<key>'] = …` of the loop body, in order) and run by the interpreter
`progKeys`, yields for every configuration, flags, `should_pred`, batching and probability-presence exactly the timing cells
(`timeKeys`: presence only) followed by the model's `recordKeys` — the function `record_fields_per_mode` is about.
`'ope_loss'` is excluded: the constructor refuses it without vowpalwabbit. -/
theorem record_program_matches (c : Config) (fl : Flags) (sp batched hasPr : Bool) (hop : c.rcd "ope_loss" = false) :
    progKeys Coba.Generated.C06.flagDefs Coba.Generated.C06.rowProgram c fl sp batched hasPr
      = timeKeys c ++ recordKeys c fl sp batched hasPr :=
  record_program_matches' c fl sp batched hasPr hop

/-- the hypothesis is met by the default `record`; the program run in the kernel on it (learn='on', eval='on') -/
example : ({ learn := .on, eval := .on, record := defaultRecord } : Config).rcd "ope_loss" = false := by decide
example : progKeys Coba.Generated.C06.flagDefs Coba.Generated.C06.rowProgram
    { learn := .on, eval := .on, record := "time" :: defaultRecord }
    { hasContext := true, hasActions := true, hasRewards := true, hasReward := false, hasAction := false, hasProb := false,
      discrete := true, rwdsIsList := true } true false true
    = ["predict_time", "learn_time", "action", "reward", "probability"] := by decide

/-! ## Phase 6: a consumer that stops early, then goes on with the same learner

`evaluate` is a generator; `evaluateStopped … j` is what has happened when the consumer closes it after the rows of `j` loop
passes (`Model/C06.lean`).  No hypotheses on the environment or the learner. -/

/-- **strict environment order, as seen by a consumer that stops.**  Whenever the full evaluation goes through, the evaluation
stopped after `j` passes (any `j`, batched or not) goes through as well; what the learner has been fed by then is a PREFIX of
the full call trace and the rows handed out are a PREFIX of the full rows — nothing of a later interaction is fed or recorded
early — and resuming from exactly that point (`resumeStopped`) gives the full evaluation. -/
theorem stopped_evaluation_is_prefix (c : Config) (L : Learner σ V) (bs : Option Nat) (env : List (Dict (Fld V R))) (s s' : σ)
    (j : Nat) (calls : List (Call V)) (rows : List (Row V R)) (h : evaluate c L bs env s = .ok (s', calls, rows)) :
    ∃ r : σ × List (Call V) × List (Row V R), evaluateStopped c L bs env s j = .ok r ∧ r.2.1 <+: calls ∧ r.2.2 <+: rows ∧
      resumeStopped c L bs env j r = .ok (s', calls, rows) :=
  stopped_prefix' c L bs env s s' j calls rows h

/-- un-batched: stopping after `j ≥ 1` rows' passes IS the evaluation of the first `j` interactions (outcome, learner state,
calls, rows; error outcomes included) — so every theorem above speaks about abandoned evaluations too -/
theorem stopped_unbatched_is_evaluation_of_prefix (c : Config) (L : Learner σ V) (env : List (Dict (Fld V R))) (s : σ) (j : Nat)
    (hj : 0 < j) : evaluateStopped c L none env s j = evaluate c L none (env.take j) s :=
  stopped_unbatched_take' c L env s j hj

/-- `Batch(n)`, `n ≥ 1`: stopping after `j ≥ 1` batches IS the batched evaluation of the first `j·n` interactions -/
theorem stopped_batched_is_evaluation_of_prefix (c : Config) (L : Learner σ V) (n : Nat) (hn : 0 < n)
    (env : List (Dict (Fld V R))) (s : σ) (j : Nat) (hj : 0 < j) :
    evaluateStopped c L (some n) env s j = evaluate c L (some n) (env.take (j * n)) s :=
  stopped_batched_take' c L n hn env s j hj

/-- asking for at least as many passes as there are interactions is the full evaluation -/
theorem stopped_after_everything (c : Config) (L : Learner σ V) (bs : Option Nat) (env : List (Dict (Fld V R))) (s : σ) (j : Nat)
    (hj : env.length ≤ j) : evaluateStopped c L bs env s j = evaluate c L bs env s :=
  stopped_all' c L bs env s j hj

/-- **histories with abandoned evaluations** (read / abandon / read again with the same learner object): every outcome of
the history — also of the evaluations AFTER an abandoned one — is the outcome of the history in which each abandoned
evaluation is replaced by the full evaluation of the interactions it got through (`EpisodeS.seen`).  With
`evaluations_independent`: the next evaluation starts from the learner state those interactions left, nothing else. -/
theorem abandoned_then_continued (L : Learner σ V) (es : List (EpisodeS V R)) (s : σ) (h : ∀ e ∈ es, e.okStop) :
    runHistoryS L s es = runHistory L s (es.map EpisodeS.seen) :=
  abandoned_history' L es s h

/-- the hypothesis is forced: with `j = 0` (generator created, never started) a stopped evaluation of an environment lacking a
required key is still `.rejected` in the model's reading while the evaluation of the empty prefix is `.ok` — the harness
never generates `j = 0`. `okStop` is met by any history whose abandoned evaluations took a row. -/
example : (⟨⟨{ learn := .on, eval := .on, record := [] }, some 2, ([] : List (Dict (Fld Nat Nat)))⟩, some 1⟩ : EpisodeS Nat Nat).okStop :=
  ⟨fun j h => by cases h; decide, fun n h => by cases h; decide⟩

end Coba.C06
